//! C10: Blake2b hashing (streaming Hasher, tagged / CBOR variants), Hash<N> hex and
//! CBOR codecs with strict length, epoch / rolling nonce compositions.
//! Cases are the constructors of `case` in coq/theories/C10/Run.v.
//! Oracle: an independent RFC 7693 implementation written here (`ref_blake2b`).
use pallas_codec::minicbor;
use pallas_crypto::hash::{Hash, Hasher};
use pallas_crypto::nonce::{generate_epoch_nonce, generate_rolling_nonce};
use std::str::FromStr;
use verif_harness::*;

// ---------------------------------------------------------------- reference
const IV: [u64; 8] = [
    0x6a09e667f3bcc908, 0xbb67ae8584caa73b, 0x3c6ef372fe94f82b, 0xa54ff53a5f1d36f1,
    0x510e527fade682d1, 0x9b05688c2b3e6c1f, 0x1f83d9abfb41bd6b, 0x5be0cd19137e2179,
];
const SIGMA: [[usize; 16]; 10] = [
    [0, 1, 2, 3, 4, 5, 6, 7, 8, 9, 10, 11, 12, 13, 14, 15],
    [14, 10, 4, 8, 9, 15, 13, 6, 1, 12, 0, 2, 11, 7, 5, 3],
    [11, 8, 12, 0, 5, 2, 15, 13, 10, 14, 3, 6, 7, 1, 9, 4],
    [7, 9, 3, 1, 13, 12, 11, 14, 2, 6, 5, 10, 4, 0, 15, 8],
    [9, 0, 5, 7, 2, 4, 10, 15, 14, 1, 11, 12, 6, 8, 3, 13],
    [2, 12, 6, 10, 0, 11, 8, 3, 4, 13, 7, 5, 15, 14, 1, 9],
    [12, 5, 1, 15, 14, 13, 4, 10, 0, 7, 6, 3, 9, 2, 8, 11],
    [13, 11, 7, 14, 12, 1, 3, 9, 5, 0, 15, 4, 8, 6, 2, 10],
    [6, 15, 14, 9, 11, 3, 0, 8, 12, 2, 13, 7, 1, 4, 10, 5],
    [10, 2, 8, 4, 7, 6, 1, 5, 15, 11, 9, 14, 3, 12, 13, 0],
];
fn compress(h: &mut [u64; 8], block: &[u8; 128], t: u128, last: bool) {
    let mut m = [0u64; 16];
    for i in 0..16 { m[i] = u64::from_le_bytes(block[8 * i..8 * i + 8].try_into().unwrap()); }
    let mut v = [0u64; 16];
    v[..8].copy_from_slice(h);
    v[8..].copy_from_slice(&IV);
    v[12] ^= t as u64;
    v[13] ^= (t >> 64) as u64;
    if last { v[14] = !v[14]; }
    fn g(v: &mut [u64; 16], a: usize, b: usize, c: usize, d: usize, x: u64, y: u64) {
        v[a] = v[a].wrapping_add(v[b]).wrapping_add(x);
        v[d] = (v[d] ^ v[a]).rotate_right(32);
        v[c] = v[c].wrapping_add(v[d]);
        v[b] = (v[b] ^ v[c]).rotate_right(24);
        v[a] = v[a].wrapping_add(v[b]).wrapping_add(y);
        v[d] = (v[d] ^ v[a]).rotate_right(16);
        v[c] = v[c].wrapping_add(v[d]);
        v[b] = (v[b] ^ v[c]).rotate_right(63);
    }
    for r in 0..12 {
        let s = &SIGMA[r % 10];
        g(&mut v, 0, 4, 8, 12, m[s[0]], m[s[1]]);
        g(&mut v, 1, 5, 9, 13, m[s[2]], m[s[3]]);
        g(&mut v, 2, 6, 10, 14, m[s[4]], m[s[5]]);
        g(&mut v, 3, 7, 11, 15, m[s[6]], m[s[7]]);
        g(&mut v, 0, 5, 10, 15, m[s[8]], m[s[9]]);
        g(&mut v, 1, 6, 11, 12, m[s[10]], m[s[11]]);
        g(&mut v, 2, 7, 8, 13, m[s[12]], m[s[13]]);
        g(&mut v, 3, 4, 9, 14, m[s[14]], m[s[15]]);
    }
    for i in 0..8 { h[i] ^= v[i] ^ v[i + 8]; }
}
/// RFC 7693 section 3.3, kk = 0
fn ref_blake2b(nn: usize, msg: &[u8]) -> Vec<u8> {
    let mut h = IV;
    h[0] ^= 0x0101_0000 ^ nn as u64;
    let dd = if msg.is_empty() { 1 } else { (msg.len() + 127) / 128 };
    for i in 0..dd - 1 {
        let blk: [u8; 128] = msg[128 * i..128 * i + 128].try_into().unwrap();
        compress(&mut h, &blk, ((i + 1) * 128) as u128, false);
    }
    let mut blk = [0u8; 128];
    let tail = &msg[128 * (dd - 1)..];
    blk[..tail.len()].copy_from_slice(tail);
    compress(&mut h, &blk, msg.len() as u128, true);
    let mut out = vec![];
    for w in h { out.extend_from_slice(&w.to_le_bytes()); }
    out.truncate(nn);
    out
}

// ---------------------------------------------------------------- implementation wrappers
fn impl_stream(n: usize, chunks: &[Vec<u8>]) -> Vec<u8> {
    macro_rules! go { ($b:literal) => {{ let mut h = Hasher::<$b>::new(); for c in chunks { h.input(c); } h.finalize().to_vec() }}; }
    match n { 20 => go!(160), 28 => go!(224), _ => go!(256) }
}
fn impl_hash(n: usize, bs: &[u8]) -> Vec<u8> {
    match n { 20 => Hasher::<160>::hash(bs).to_vec(), 28 => Hasher::<224>::hash(bs).to_vec(), _ => Hasher::<256>::hash(bs).to_vec() }
}
fn impl_tagged(n: usize, bs: &[u8], t: u8) -> Vec<u8> {
    match n { 20 => Hasher::<160>::hash_tagged(bs, t).to_vec(), 28 => Hasher::<224>::hash_tagged(bs, t).to_vec(), _ => Hasher::<256>::hash_tagged(bs, t).to_vec() }
}
fn impl_cbor<T: minicbor::Encode<()>>(n: usize, v: &T) -> Vec<u8> {
    match n { 20 => Hasher::<160>::hash_cbor(v).to_vec(), 28 => Hasher::<224>::hash_cbor(v).to_vec(), _ => Hasher::<256>::hash_cbor(v).to_vec() }
}
fn impl_tagged_cbor<T: minicbor::Encode<()>>(n: usize, v: &T, t: u8) -> Vec<u8> {
    match n { 20 => Hasher::<160>::hash_tagged_cbor(v, t).to_vec(), 28 => Hasher::<224>::hash_tagged_cbor(v, t).to_vec(), _ => Hasher::<256>::hash_tagged_cbor(v, t).to_vec() }
}

/// a writer that records every write_all call (what the Hasher receives as `input`s)
struct Rec(Vec<Vec<u8>>);
impl minicbor::encode::Write for Rec {
    type Error = std::convert::Infallible;
    fn write_all(&mut self, buf: &[u8]) -> Result<(), Self::Error> { self.0.push(buf.to_vec()); Ok(()) }
}

/// random CBOR data item
#[derive(Debug, Clone)]
enum Val { U(u64), I(i64), B(Vec<u8>), S(String), A(Vec<Val>), M(Vec<(Val, Val)>), T(u64, Box<Val>), Bool(bool), Null, H28([u8; 28]), H32([u8; 32]), IndefA(Vec<Val>) }
impl<C> minicbor::Encode<C> for Val {
    fn encode<W: minicbor::encode::Write>(&self, e: &mut minicbor::Encoder<W>, ctx: &mut C) -> Result<(), minicbor::encode::Error<W::Error>> {
        match self {
            Val::U(u) => { e.u64(*u)?; }
            Val::I(i) => { e.i64(*i)?; }
            Val::B(b) => { e.bytes(b)?; }
            Val::S(s) => { e.str(s)?; }
            Val::A(xs) => { e.array(xs.len() as u64)?; for x in xs { x.encode(e, ctx)?; } }
            Val::IndefA(xs) => { e.begin_array()?; for x in xs { x.encode(e, ctx)?; } e.end()?; }
            Val::M(kv) => { e.map(kv.len() as u64)?; for (k, v) in kv { k.encode(e, ctx)?; v.encode(e, ctx)?; } }
            Val::T(t, v) => { e.tag(minicbor::data::Tag::new(*t))?; v.encode(e, ctx)?; }
            Val::Bool(b) => { e.bool(*b)?; }
            Val::Null => { e.null()?; }
            Val::H28(h) => { e.encode_with(Hash::<28>::new(*h), ctx)?; }
            Val::H32(h) => { e.encode_with(Hash::<32>::new(*h), ctx)?; }
        }
        Ok(())
    }
}
fn gen_val(rng: &mut Rng, depth: u32, big: usize) -> Val {
    let k = if depth == 0 { rng.below(8) } else { rng.below(13) };
    match k {
        0 => Val::U(rng.edge_u64()),
        1 => Val::I(rng.edge_u64() as i64),
        2 => { let l = match rng.below(4) { 0 => rng.below(4) as usize, 1 => rng.range(20, 40) as usize, 2 => *rng.pick(&[23usize, 24, 127, 128, 129, 255, 256]), _ => rng.below(big as u64 + 1) as usize }; Val::B(rng.bytes(l)) }
        3 => { let l = rng.below(40) as usize; Val::S((0..l).map(|_| *rng.pick(&['a', 'Z', '0', ' ', 'é', '€'])).collect()) }
        4 => Val::Bool(rng.bool()),
        5 => Val::Null,
        6 => { let mut h = [0u8; 28]; h.copy_from_slice(&rng.bytes(28)); Val::H28(h) }
        7 => { let mut h = [0u8; 32]; h.copy_from_slice(&rng.bytes(32)); Val::H32(h) }
        8 => { let l = rng.below(6) as usize; Val::A((0..l).map(|_| gen_val(rng, depth - 1, big / 2)).collect()) }
        9 => { let l = rng.below(4) as usize; Val::M((0..l).map(|_| (gen_val(rng, 0, 16), gen_val(rng, depth - 1, big / 2))).collect()) }
        10 => Val::T(rng.edge_u64(), Box::new(gen_val(rng, depth - 1, big))),
        11 => { let l = rng.below(5) as usize; Val::IndefA((0..l).map(|_| gen_val(rng, depth - 1, big / 2)).collect()) }
        _ => { let l = rng.range(20, 40) as usize; Val::A((0..l).map(|_| Val::U(rng.below(30))).collect()) }
    }
}

/// bytes as a hex string literal decoded inside Coq (`X` in C10/Run.v): a long `list Z` literal is ~10x slower to elaborate
fn xb(bs: &[u8]) -> String { format!("(X \"{}\")", hex(bs)) }
fn rbytes(rng: &mut Rng, below: u64) -> Vec<u8> { let l = rng.below(below) as usize; rng.bytes(l) }
fn coq_chunks(cs: &[Vec<u8>]) -> String { coq_list(cs, |c| xb(c)) }
fn coq_out_bytes(o: &Out<Vec<u8>>, errcode: impl Fn(&str) -> u32) -> String {
    match o { Out::Ok(b) => format!("(Ok {})", xb(b)), Out::Err(e) => format!("(Err {})", errcode(e)), Out::Panic(_) => "(Panic 1)".into() }
}

macro_rules! with_size {
    ($n:expr, $f:ident, $($a:expr),*) => {
        match $n { 0 => $f::<0>($($a),*), 1 => $f::<1>($($a),*), 20 => $f::<20>($($a),*), 23 => $f::<23>($($a),*), 24 => $f::<24>($($a),*),
                   28 => $f::<28>($($a),*), 32 => $f::<32>($($a),*), 64 => $f::<64>($($a),*), 255 => $f::<255>($($a),*), 256 => $f::<256>($($a),*),
                   _ => $f::<300>($($a),*) }
    };
}
const SIZES: [usize; 11] = [0, 1, 20, 23, 24, 28, 32, 64, 255, 256, 300];

fn from_slice<const N: usize>(bs: &[u8]) -> Out<Vec<u8>> { guard_total(|| Hash::<N>::from(bs).to_vec()) }
fn to_hex_s<const N: usize>(bs: &[u8]) -> String { let mut a = [0u8; N]; a.copy_from_slice(bs); Hash::<N>::new(a).to_string() }
fn from_hex<const N: usize>(s: &str) -> Out<Vec<u8>> {
    guard(|| Hash::<N>::from_str(s).map(|h| h.to_vec()).map_err(|e| match e {
        hex::FromHexError::OddLength => "1".to_string(), hex::FromHexError::InvalidStringLength => "2".to_string(),
        hex::FromHexError::InvalidHexCharacter { .. } => "3".to_string() }))
}
fn enc<const N: usize>(bs: &[u8]) -> Vec<u8> { let mut a = [0u8; N]; a.copy_from_slice(bs); minicbor::to_vec(Hash::<N>::new(a)).unwrap() }
fn dec<const N: usize>(buf: &[u8]) -> Out<(Vec<u8>, usize)> {
    guard(|| { let mut d = minicbor::Decoder::new(buf);
        match d.decode::<Hash<N>>() { Ok(h) => Ok((h.to_vec(), d.position())),
            Err(e) => Err(if e.is_end_of_input() { "1" } else if e.is_type_mismatch() { "2" } else if e.is_message() { "3" } else { "9" }.to_string()) } })
}

struct Ctx { oracle_only: bool, n_cases: u64 }
impl Ctx {
    fn case(&mut self, tag: &str, term: String) { self.n_cases += 1; if !self.oracle_only { emit_case(tag, &term); } }
}

fn digest_case(cx: &mut Ctx, n: usize, chunks: &[Vec<u8>], tag: &str) {
    let msg: Vec<u8> = chunks.concat();
    let got = match guard_total(|| impl_stream(n, chunks)) { Out::Ok(d) => d, _ => { emit_oracle_fail("stream-panic", &format!("n={} chunks={:?}", n, chunks.iter().map(|c| hex(c)).collect::<Vec<_>>())); return; } };
    let want = ref_blake2b(n, &msg);
    if got != want || impl_hash(n, &msg) != want {
        emit_oracle_fail("stream-split", &format!("n={} chunk_lens={:?} msg={} got={} one-shot={} rfc7693={}", n,
            chunks.iter().map(|c| c.len()).collect::<Vec<_>>(), hex(&msg), hex(&got), hex(&impl_hash(n, &msg)), hex(&want)));
    }
    cx.case(tag, format!("(CStream {} {} {})", n, coq_chunks(chunks), xb(&got)));
}

fn split_at_points(msg: &[u8], mut pts: Vec<usize>) -> Vec<Vec<u8>> {
    pts.retain(|p| *p <= msg.len());
    pts.sort();
    let mut out = vec![]; let mut prev = 0;
    for p in pts { out.push(msg[prev..p].to_vec()); prev = p; }
    out.push(msg[prev..].to_vec());
    out
}

fn main() {
    let args = args();
    let mut rng = Rng::new(args.seed);
    let thorough = args.tier == "thorough";
    let maxlen: usize = if thorough { 4096 } else { 1400 };
    let mut cx = Ctx { oracle_only: args.oracle_only, n_cases: 0 };
    let ns = [20usize, 28, 32];

    // ---- fixed boundary chunkings (every run): a chunk ending exactly on a block boundary etc.
    for &(total, ref cuts) in &[(0usize, vec![]), (0, vec![0, 0]), (1, vec![0]), (127, vec![]), (128, vec![]), (129, vec![]), (128, vec![127]), (129, vec![128]),
                                (129, vec![127, 128]), (256, vec![128]), (256, vec![127]), (256, vec![129]), (257, vec![128, 256]), (257, vec![256]), (384, vec![128, 128, 256, 256]),
                                (385, vec![1, 129, 257]), (300, vec![0, 128, 128, 300])] {
        let msg = rng.bytes(total);
        let n = *rng.pick(&ns);
        digest_case(&mut cx, n, &split_at_points(&msg, cuts.clone()), "stream-boundary-fixed");
    }
    // ---- all tag bytes (every run)
    for t in 0..=255u8 {
        let n = ns[(t as usize + args.seed as usize) % 3];
        let l = match rng.below(4) { 0 => 0, 1 => *rng.pick(&[126usize, 127, 128, 255, 256]), _ => rng.below(60) as usize };
        let bs = rng.bytes(l);
        let got = impl_tagged(n, &bs, t);
        let mut m = vec![t]; m.extend_from_slice(&bs);
        if got != ref_blake2b(n, &m) { emit_oracle_fail("hash-tagged", &format!("n={} tag={} bytes={} got={} expected={}", n, t, hex(&bs), hex(&got), hex(&ref_blake2b(n, &m)))); }
        cx.case("tagged-all-tags", format!("(CTagged {} {} {} {})", n, xb(&bs), t, xb(&got)));
    }
    // ---- wrong-length hashes +-1, every size (every run)
    for &n in &SIZES {
        for l in [n.wrapping_sub(1), n, n + 1, 0, 2 * n] {
            if l == usize::MAX { continue; }
            let bs = rng.bytes(l);
            let o = with_size!(n, from_slice, &bs);
            match &o { Out::Ok(b) => if l != n || b != &bs { emit_oracle_fail("from-slice", &format!("N={} len={} accepted", n, l)); },
                       _ => if l == n { emit_oracle_fail("from-slice", &format!("N={} len={} rejected", n, l)); } }
            cx.case("from-slice", format!("(CFromSlice {} {} {})", n, xb(&bs), coq_out_bytes(&o, |_| 0)));
            // CBOR: a byte string of length l offered to Hash<n>
            let mut buf = vec![]; { let mut e = minicbor::Encoder::new(&mut buf); e.bytes(&bs).unwrap(); }
            if rng.bool() { buf.extend(rbytes(&mut rng, 3)); }
            dec_case(&mut cx, n, &buf, Some((&bs, l == n)), "dec-len+-1");
            // hex of l bytes offered to Hash<n>
            let s = hex(&bs);
            hex_case(&mut cx, n, &s, Some(l == n), "hex-len+-1");
        }
    }

    // ---- every interesting initial byte with 0..3 following bytes (every run): type_of/peek/read paths of Decoder::bytes
    for b in [0x38u8, 0x39, 0x3a, 0x3b, 0x5c, 0x5d, 0x5e, 0x5f, 0x1c, 0xff, 0xf8, 0x40, 0x41, 0x57, 0x58, 0x59, 0x5a, 0x5b, 0x7f, 0x9f] {
        for extra in 0..=3usize {
            let mut buf = vec![b]; buf.extend(rng.bytes(extra));
            if extra > 0 && rng.bool() { buf[1] = 0; }
            dec_case(&mut cx, *rng.pick(&[0usize, 1, 32]), &buf, None, "dec-initial-byte-fixed");
        }
    }

    for i in 0..args.n {
        let n = *rng.pick(&ns);
        match rng.below(20) {
            0..=6 => {
                // streaming, random and boundary-biased splits
                let total = match rng.below(6) { 0 => *rng.pick(&[0usize, 1, 127, 128, 129, 255, 256, 257, 383, 384, 385, 512, 1024]), 1 => rng.below(130) as usize, 2 => 128 * rng.range(1, 8) as usize, _ => rng.below(maxlen as u64 + 1) as usize };
                let total = total.min(maxlen);
                let msg = rng.bytes(total);
                let (chunks, tag) = match rng.below(6) {
                    0 => { let k = rng.below(8) as usize; (split_at_points(&msg, (0..k).map(|_| rng.below(total as u64 + 1) as usize).collect()), "stream-random-cuts") }
                    1 => { let k = rng.range(1, 5) as usize; let cand = [0usize, 1, 127, 128, 129, 255, 256, 257, 383, 384, 385, 512, 640]; (split_at_points(&msg, (0..k).map(|_| *rng.pick(&cand)).collect()), "stream-boundary-cuts") }
                    2 => { let sz = *rng.pick(&[128usize, 64, 127, 129, 256, 1]); let sz = if sz == 1 && total > 300 { 128 } else { sz };
                           (msg.chunks(sz).map(|c| c.to_vec()).collect(), "stream-fixed-size-chunks") }
                    3 => { // fill the buffer exactly, then empty chunks, then more
                           let a = rng.below(129) as usize; (split_at_points(&msg, vec![a, 128, 128, 128 + a, 256]), "stream-fill-exact") }
                    4 => { let k = rng.range(8, 30) as usize; (split_at_points(&msg, (0..k).map(|_| rng.below(total as u64 + 1) as usize).collect()), "stream-many-cuts") }
                    _ => (vec![msg.clone()], "stream-single"),
                };
                if i < 3 { emit_sample(&format!("stream n={} chunk_lens={:?}", n, chunks.iter().map(|c| c.len()).collect::<Vec<_>>())); }
                digest_case(&mut cx, n, &chunks, tag);
            }
            7 => {
                let l = match rng.below(3) { 0 => *rng.pick(&[0usize, 1, 127, 128, 129, 256]), _ => rng.below(maxlen as u64 / 2) as usize };
                let bs = rng.bytes(l);
                let got = impl_hash(n, &bs);
                if got != ref_blake2b(n, &bs) { emit_oracle_fail("hash", &format!("n={} bytes={} got={}", n, hex(&bs), hex(&got))); }
                cx.case("hash", format!("(CHash {} {} {})", n, xb(&bs), xb(&got)));
            }
            8 | 9 => {
                let l = match rng.below(3) { 0 => *rng.pick(&[0usize, 126, 127, 128, 255, 256]), _ => rng.below(400) as usize };
                let bs = rng.bytes(l); let rb = rng.byte(); let t = *rng.pick(&[0u8, 1, 2, 3, 4, 127, 128, 255, rb]);
                let got = impl_tagged(n, &bs, t);
                let mut m = vec![t]; m.extend_from_slice(&bs);
                if got != ref_blake2b(n, &m) { emit_oracle_fail("hash-tagged", &format!("n={} tag={} bytes={} got={} expected={}", n, t, hex(&bs), hex(&got), hex(&ref_blake2b(n, &m)))); }
                cx.case("tagged", format!("(CTagged {} {} {} {})", n, xb(&bs), t, xb(&got)));
            }
            10..=12 => {
                let v = gen_val(&mut rng, 3, if thorough { 600 } else { 300 });
                let mut rec = Rec(vec![]);
                minicbor::encode(&v, &mut rec).unwrap();
                let flat = minicbor::to_vec(&v).unwrap();
                if rec.0.concat() != flat { emit_oracle_fail("cbor-writes", &format!("recorded writes differ from to_vec for {:?}", v)); }
                if rng.bool() {
                    let got = impl_cbor(n, &v);
                    if got != ref_blake2b(n, &flat) { emit_oracle_fail("hash-cbor", &format!("n={} cbor={} got={} expected={}", n, hex(&flat), hex(&got), hex(&ref_blake2b(n, &flat)))); }
                    cx.case("cbor", format!("(CCbor {} {} {})", n, coq_chunks(&rec.0), xb(&got)));
                } else {
                    let rb = rng.byte(); let t = *rng.pick(&[0u8, 1, 2, 3, 255, rb]);
                    let got = impl_tagged_cbor(n, &v, t);
                    let mut m = vec![t]; m.extend_from_slice(&flat);
                    if got != ref_blake2b(n, &m) { emit_oracle_fail("hash-tagged-cbor", &format!("n={} tag={} cbor={} got={} expected={}", n, t, hex(&flat), hex(&got), hex(&ref_blake2b(n, &m)))); }
                    cx.case("tagged-cbor", format!("(CTaggedCbor {} {} {} {})", n, coq_chunks(&rec.0), t, xb(&got)));
                }
            }
            13 | 14 => {
                // hex codec
                let nn = *rng.pick(&SIZES);
                let bs = rng.bytes(nn);
                let s = with_size!(nn, to_hex_s, &bs);
                if s != hex(&bs) { emit_oracle_fail("to-hex", &format!("N={} bytes={} display={}", nn, hex(&bs), s)); }
                cx.case("to-hex", format!("(CToHex {} {})", xb(&bs), xb(s.as_bytes())));
                let mut cs: Vec<char> = s.chars().collect();
                let (expect, tag) = match rng.below(7) {
                    0 => (Some(true), "hex-valid-lower"),
                    1 => { for c in cs.iter_mut() { if rng.bool() { *c = c.to_ascii_uppercase(); } } (Some(true), "hex-valid-mixed-case") }
                    2 => { if rng.bool() || cs.is_empty() { cs.push(*rng.pick(&['0', 'f', 'g'])); } else { cs.pop(); } (Some(false), "hex-odd") }
                    3 => { if rng.bool() || cs.is_empty() { cs.push('0'); cs.push('a'); } else { cs.pop(); cs.pop(); } (Some(false), "hex-len+-1") }
                    4 => { if cs.is_empty() { (Some(true), "hex-valid-lower") } else { let k = rng.below(cs.len() as u64) as usize; cs[k] = *rng.pick(&['g', 'G', '/', ':', '@', '`', ' ', 'x', '-']); (Some(false), "hex-bad-char") } }
                    5 => { if cs.len() < 2 { (Some(true), "hex-valid-lower") } else { let k = rng.below(cs.len() as u64 - 1) as usize; cs[k] = 'é'; cs.remove(k + 1); (Some(false), "hex-non-ascii") } }
                    _ => { let l = rng.below(10) as usize; cs = (0..l).map(|_| *rng.pick(&['0', '9', 'a', 'F', 'z'])).collect(); (None, "hex-random-short") }
                };
                let s2: String = cs.into_iter().collect();
                hex_case(&mut cx, nn, &s2, expect, tag);
                if expect == Some(true) {
                    if let Out::Ok(b) = with_size!(nn, from_hex, &s2) { if b != bs { emit_oracle_fail("hex-roundtrip", &format!("N={} bytes={} str={} parsed={}", nn, hex(&bs), s2, hex(&b))); } }
                }
            }
            15..=17 => {
                // CBOR codec
                let nn = *rng.pick(&SIZES);
                let bs = rng.bytes(nn);
                let e = with_size!(nn, enc, &bs);
                cx.case("enc", format!("(CEnc {} {})", xb(&bs), xb(&e)));
                let mut buf = e.clone();
                let (expect, tag): (Option<(&[u8], bool)>, &str) = match rng.below(10) {
                    0 => { buf.extend(rbytes(&mut rng, 4)); (Some((&bs, true)), "dec-valid") }
                    1 => { let k = rng.below(buf.len() as u64) as usize; buf.truncate(k); (None, "dec-truncated") }
                    2 => { // non-minimal length head for the same payload
                           let w = *rng.pick(&[1usize, 2, 4, 8]); buf = vec![0x40 | (23 + match w { 1 => 1, 2 => 2, 4 => 3, _ => 4 })];
                           buf.extend_from_slice(&(nn as u64).to_be_bytes()[8 - w..]); buf.extend_from_slice(&bs);
                           if w == 1 && nn > 255 { (None, "dec-nonminimal-head") } else { (Some((&bs, true)), "dec-nonminimal-head") } }
                    3 => { buf[0] = (buf[0] & 0x1f) | *rng.pick(&[0x00u8, 0x20, 0x60, 0x80, 0xa0, 0xc0, 0xe0]); (None, "dec-other-major") }
                    4 => { buf = vec![0x5f]; buf.extend_from_slice(&e); buf.push(0xff); (None, "dec-indefinite") }
                    5 => { buf = vec![*rng.pick(&[0x5bu8, 0x5a, 0x59])]; buf.extend(rng.bytes(8)); if rng.bool() { buf[1] = 0xff; } (None, "dec-huge-length") }
                    6 => { buf = vec![*rng.pick(&[0x38u8, 0x39, 0x3a, 0x3b, 0x5c, 0x5d, 0x5e, 0x5f, 0x1c, 0xff, 0xf8])]; if rng.bool() { buf.extend(rbytes(&mut rng, 3)); } (None, "dec-odd-initial-byte") }
                    7 => { buf = rbytes(&mut rng, 40); (None, "dec-random") }
                    8 => { buf = vec![]; (None, "dec-empty") }
                    _ => { // a valid hash of a different size
                           let other = *rng.pick(&SIZES); let ob = rng.bytes(other); buf = with_size!(other, enc, &ob);
                           dec_case(&mut cx, nn, &buf, if other == nn { None } else { Some((&[], false)) }, "dec-other-size"); continue; }
                };
                dec_case(&mut cx, nn, &buf, expect, tag);
            }
            18 => {
                let nc = rng.bytes(32); let nh = rng.bytes(32);
                let ee: Option<Vec<u8>> = match rng.below(5) { 0 | 1 => None, 2 => Some(rng.bytes(32)), 3 => Some(vec![]), _ => Some(rbytes(&mut rng, 200)) };
                let got = generate_epoch_nonce(Hash::<32>::from(&nc[..]), Hash::<32>::from(&nh[..]), ee.as_deref()).to_vec();
                let mut m = nc.clone(); m.extend_from_slice(&nh);
                let mut want = ref_blake2b(32, &m);
                if let Some(x) = &ee { let mut m2 = want.clone(); m2.extend_from_slice(x); want = ref_blake2b(32, &m2); }
                if got != want { emit_oracle_fail("epoch-nonce", &format!("nc={} nh={} extra={:?} got={} expected={}", hex(&nc), hex(&nh), ee.as_ref().map(|x| hex(x)), hex(&got), hex(&want))); }
                cx.case(if ee.is_some() { "epoch-nonce-entropy" } else { "epoch-nonce" },
                        format!("(CEpoch {} {} {} {})", xb(&nc), xb(&nh), coq_opt(&ee, |x| xb(x)), xb(&got)));
            }
            _ => {
                let prev = rng.bytes(32);
                let l = match rng.below(8) { 0..=2 => 32, 3..=5 => 64, _ => *rng.pick(&[0usize, 1, 31, 33, 48, 63, 65, 96, 128]) };
                let vrf = rng.bytes(l);
                let o = guard_total(|| generate_rolling_nonce(Hash::<32>::from(&prev[..]), &vrf).to_vec());
                if l == 32 || l == 64 {
                    let mut m = prev.clone(); m.extend_from_slice(&ref_blake2b(32, &vrf));
                    let want = ref_blake2b(32, &m);
                    match &o { Out::Ok(g) if *g == want => {}, _ => emit_oracle_fail("rolling-nonce", &format!("prev={} vrf={} got={} expected={}", hex(&prev), hex(&vrf),
                        match &o { Out::Ok(g) => hex(g), _ => "panic".into() }, hex(&want))) }
                }
                cx.case(if l == 32 { "rolling-nonce-32" } else if l == 64 { "rolling-nonce-64" } else { "rolling-nonce-bad-len" },
                        format!("(CRolling {} {} {})", xb(&prev), xb(&vrf), coq_out_bytes(&o, |_| 0)));
            }
        }
    }
    emit_stat("cases", cx.n_cases);
}

/// expect: Some((payload, ok)) = must decode to payload (ok) / must be rejected (!ok); None = no oracle opinion beyond length strictness
fn dec_case(cx: &mut Ctx, n: usize, buf: &[u8], expect: Option<(&[u8], bool)>, tag: &str) {
    let o = with_size!(n, dec, buf);
    match (&o, expect) {
        (Out::Panic(p), _) => emit_oracle_fail("dec-panic", &format!("N={} buf={} panic={}", n, hex(buf), p)),
        (Out::Ok((b, _)), Some((want, true))) if b.as_slice() != want => emit_oracle_fail("dec-roundtrip", &format!("N={} buf={} decoded={}", n, hex(buf), hex(b))),
        (Out::Err(e), Some((_, true))) => emit_oracle_fail("dec-roundtrip", &format!("N={} buf={} rejected class={}", n, hex(buf), e)),
        (Out::Ok((b, _)), Some((_, false))) => emit_oracle_fail("dec-wrong-length-accepted", &format!("N={} buf={} decoded={}", n, hex(buf), hex(b))),
        _ => {}
    }
    if let Out::Ok((b, pos)) = &o {
        // independent of the model: what is accepted is a definite byte string of exactly N bytes ending at pos
        if b.len() != n || *pos > buf.len() || &buf[pos - n..*pos] != b.as_slice() || buf[0] & 0xe0 != 0x40 {
            emit_oracle_fail("dec-wrong-length-accepted", &format!("N={} buf={} decoded={} pos={}", n, hex(buf), hex(b), pos));
        }
    }
    let t = match &o { Out::Ok((b, p)) => format!("(Ok ({}, {}))", xb(b), p), Out::Err(e) => format!("(Err {})", e), Out::Panic(_) => "(Panic 1)".into() };
    cx.case(tag, format!("(CDec {} {} {})", n, xb(buf), t));
}

fn hex_case(cx: &mut Ctx, n: usize, s: &str, expect: Option<bool>, tag: &str) {
    let o = with_size!(n, from_hex, s);
    match (&o, expect) {
        (Out::Panic(p), _) => emit_oracle_fail("hex-panic", &format!("N={} str={:?} panic={}", n, s, p)),
        (Out::Ok(_), Some(false)) => emit_oracle_fail("hex-wrong-accepted", &format!("N={} str={:?} accepted", n, s)),
        (Out::Err(e), Some(true)) => emit_oracle_fail("hex-roundtrip", &format!("N={} str={:?} rejected class={}", n, s, e)),
        _ => {}
    }
    if let Out::Ok(b) = &o { if s.len() != 2 * n || b.len() != n { emit_oracle_fail("hex-wrong-accepted", &format!("N={} str={:?} accepted", n, s)); } }
    let t = match &o { Out::Ok(b) => format!("(Ok {})", xb(b)), Out::Err(e) => format!("(Err {})", e), Out::Panic(_) => "(Panic 1)".into() };
    cx.case(tag, format!("(CFromHex {} {} {})", n, xb(s.as_bytes()), t));
}
