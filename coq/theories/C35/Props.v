(* C35 — property theorems only. Statements are pinned by vp/check.py. *)
From PV Require Import Lib.Base C35.Model C35.Proofs.
Open Scope Z_scope.

(* Alonzo / Babbage / Conway: if the required-signer check and the input-witness check both
   accept, then there is a witness list, EVERY witness in it verifies, every key-locked input
   or collateral (PKey h in ins) has a verifying witness whose key hashes to h, and so has every
   required signer.  kh (key hash) and verify (Ed25519 over the tx id) are arbitrary. *)
Theorem accept_implies_sigs : forall (W : Type) (kh : W -> Z) (verify : W -> bool) req wits ins,
  check_sigs W kh verify req wits ins = Ok tt ->
  exists l, wits = Some l /\ Forall (fun w => verify w = true) l /\
    (forall h, In (PKey h) ins -> exists w, In w l /\ kh w = h /\ verify w = true) /\
    (forall h, In h (req_of req) -> exists w, In w l /\ kh w = h /\ verify w = true).
Proof. exact sigs_spec. Qed.

(* Shelley / Allegra / Mary (no collateral, no required signers). *)
Theorem accept_implies_sigs_shelley : forall (W : Type) (kh : W -> Z) (verify : W -> bool) script_ok wits ins,
  check_witnesses_shelley W kh verify script_ok wits ins = Ok tt ->
  exists l, wits = Some l /\ Forall (fun w => verify w = true) l /\
    (forall h, In (PKey h) ins -> exists w, In w l /\ kh w = h /\ verify w = true).
Proof. intros W kh verify sok. exact (input_wits_spec W kh verify sok). Qed.

(* Not vacuous and not over-strict: valid witnesses that cover the inputs are accepted,
   whatever their order, multiplicity or number of extras. *)
Theorem valid_sigs_accepted : forall (W : Type) (kh : W -> Z) (verify : W -> bool) l ins,
  Forall (fun w => verify w = true) l ->
  (forall h, In (PKey h) ins -> exists w, In w l /\ kh w = h) ->
  check_vkey_input_wits W kh verify (Some l) ins = Ok tt.
Proof. exact input_wits_complete. Qed.

(* Before the repair: a valid extra witness followed by an invalid one was accepted. *)
Theorem extra_bad_witness_refuted :
  exists (l : list cw), check_vkey_input_wits_old cw fst snd (Some l) [] = Ok tt /\
    ~ Forall (fun w => snd w = true) l.
Proof. exact old_refuted. Qed.

Example sigs_example :
  check_sigs cw fst snd (Some [5]) (Some [(3, true); (5, true); (9, true)]) [PKey 3; PScript; PKey 3] = Ok tt /\
  check_sigs cw fst snd None (Some [(3, true); (9, true); (8, false)]) [PKey 3] = Err E_WRONG_SIG /\
  check_sigs cw fst snd (Some [5]) (Some [(3, true)]) [PKey 3] = Err E_REQ_MISSING /\
  check_sigs cw fst snd None (Some [(3, true)]) [PKey 4] = Err E_WIT_MISSING.
Proof. repeat split; vm_compute; reflexivity. Qed.
