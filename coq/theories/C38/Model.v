(* C38: the ledger rules, each stated on its own over the abstract transaction / UTxO / environment of
   PV.C33.Model - declaratively (membership, existence, unbounded integer arithmetic), not as the
   validator computes them.  Sources: pallas-validate/docs/{byron,shelleyMA,alonzo,babbage}.md and
   the ledger specifications they summarise.  The validators themselves are PV.C33.Model / ModelPA. *)
From PV Require Import Lib.Base C33.Model C33.ModelPA.
Open Scope Z_scope.

Section Rules.
Variables (t : tx) (u : utxo) (e : env).
Let pp := e_pp e.

Definition resolves (byron : bool) (i : inref) : Prop := exists o, lookup byron i u = Some o.
Definition sumZ (l : list Z) : Z := fold_right Z.add 0 l.

(* -- all eras -- *)
Definition R_inputs_nonempty : Prop := t_inputs t <> [].
Definition R_inputs_in_utxo : Prop := Forall (resolves (t_era t =? 0)) (t_inputs t).
Definition R_tx_size : Prop := t_size t mod U32 <= p_max_tx_size pp.

(* -- Byron -- *)
Definition R_byron_outputs : Prop := b_outs t <> [] /\ Forall (fun a => a <> 0) (b_outs t).
Definition R_byron_size : Prop := t_size t <= p_max_tx_size pp.

(* -- Shelley-MA -- *)
Definition R_ttl : Prop := exists ttl, t_ttl t = Some ttl /\ e_slot e <= ttl.
Definition R_min_ada_shelley : Prop :=
  Forall (fun o => match o_val o with
                   | VCoin c => p_min_utxo_value pp <= c
                   | VMulti c _ => (o_words o + 27) * (p_min_utxo_value pp / 27) <= c
                   end) (t_outputs t).
Definition R_outputs_network : Prop := Forall (fun o => exists p, o_addr o = AShelley (e_netid e) p) (t_outputs t).
Definition R_mint_witnessed_shelley : Prop :=
  forall m pol a, t_mint t = Some m -> In (pol, a) m -> exists n, In n (opt_list (w_native t)) /\ n_hash n = pol.

(* -- Shelley and later -- *)
(* minimum fee, over the integers (the fee parameters are u32, the size is the u32 the validator measures) *)
Definition R_min_fee : Prop := p_minfee_b pp + p_minfee_a pp * (t_size t mod U32) <= t_fee t.
Definition R_aux_data_hash : Prop :=
  match t_aux_hash t, t_aux_actual t with
  | None, None => True
  | Some h, Some a => h = a
  | _, _ => False
  end.

(* -- Alonzo and later -- *)
Definition R_collateral_in_utxo : Prop := forall c, t_collateral t = Some c -> Forall (resolves false) c.
Definition R_reference_in_utxo : Prop := forall r, t_ref_inputs t = Some r -> Forall (resolves false) r.
Definition R_validity_interval : Prop :=
  (forall lb, t_vstart t = Some lb -> lb <= e_slot e) /\ (forall ub, t_ttl t = Some ub -> e_slot e <= ub).
Definition R_value_size : Prop := Forall (fun o => o_words o <= p_max_value_size pp) (t_outputs t).
Definition R_network_ids : Prop :=
  R_outputs_network /\ (forall n, t_network_id t = Some n -> n = e_netid e).
Definition R_min_ada_alonzo : Prop :=
  Forall (fun o => p_ada_per_utxo_byte pp * (o_words o + match o_datum o with DHash _ => 37 | _ => 27 end) <= coin_of (o_val o)) (t_outputs t).
Definition R_min_ada_babbage : Prop :=
  Forall (fun o => p_ada_per_utxo_byte pp * (o_words o + 160) <= coin_of (o_val o)) (t_outputs t).
(* execution units: sums over the integers *)
Definition R_ex_units : Prop :=
  forall l, w_redeemers t = Some l ->
    sumZ (map r_mem l) <= p_ex_mem pp /\ sumZ (map r_steps l) <= p_ex_steps pp.
Definition R_plutus_has_redeemers (plutus : bool) : Prop := plutus = true -> w_redeemers t <> None.
(* collateral count and kind when Plutus scripts are in the witness set *)
Definition R_collateral_count_kind (plutus : bool) (own : uout -> bool) : Prop :=
  plutus = true ->
  exists c, t_collateral t = Some c /\ c <> [] /\ Z.of_nat (length c) mod U32 <= p_max_collateral_inputs pp /\
    Forall (fun i => forall o, lookup false i u = Some o -> own o = true -> exists n h, u_addr o = AShelley n (PKey h)) c.
(* Alonzo: every collateral entry is pure ada and worth at least fee * percentage / 100 *)
Definition R_collateral_amount_alonzo : Prop :=
  al_plutus t = true ->
  forall c i o, t_collateral t = Some c -> In i c -> lookup false i u = Some o -> is_alonzo_c o = true ->
    t_fee t * p_collateral_percentage pp <= coin_of (u_val o) * 100 /\
    (forall c' ma, u_val o = VMulti c' ma -> ma = []).
(* Babbage/Conway: annotated total collateral is what is actually paid (inputs - return) *)
Definition R_collateral_annotation (cw : bool) : Prop :=
  pa_needs_collateral cw t = true ->
  forall c ci a, t_collateral t = Some c -> pa_sum_refs cw c u 403 403 = Ok ci -> t_total_coll t = Some a ->
    a = coin_of ci - match t_coll_return t with Some o => coin_of (o_val o) | None => 0 end.

Definition native_hashes : list Z := map n_hash (opt_list (w_native t)).
(* every minted policy has its script: in the witness set or (Babbage+) in a reference input *)
Definition R_mint_witnessed (scripts : list Z) : Prop :=
  forall m pol a, t_mint t = Some m -> In (pol, a) m -> In pol scripts.
(* every script-locked spent entry (of the validator's own output type) has its script *)
Definition R_script_inputs_witnessed (own : uout -> bool) (scripts : list Z) : Prop :=
  forall i o net h, In i (t_inputs t) -> lookup false i u = Some o -> own o = true -> u_addr o = AShelley net (PScript h) ->
    In h scripts.
(* no script in the witness set that nothing needs (spent script entries, minted policies) *)
Definition R_no_extraneous_scripts (own : uout -> bool) (wit : list Z) (exempt : list Z) : Prop :=
  forall h, In h wit -> ~ In h exempt ->
    (exists i o net, In i (t_inputs t) /\ lookup false i u = Some o /\ own o = true /\ u_addr o = AShelley net (PScript h))
    \/ (exists m a, t_mint t = Some m /\ In (h, a) m).
(* every datum hash of a spent entry has its datum in the witness set *)
Definition R_input_datums_witnessed (look : uout -> bool) : Prop :=
  forall i o h, In i (t_inputs t) -> lookup false i u = Some o -> look o = true -> u_datum o = DHash h ->
    In h (opt_list (w_datums t)).
(* redeemers and needed script purposes coincide (as sets of pointers) *)
Definition R_redeemers (needed : list ptr) : Prop := forall p, In p (red_ptrs t) <-> In p needed.
(* script integrity hash (partial: the expected hashes are those the implementation computes) *)
Definition R_script_integrity_legacy : Prop :=
  match t_sdh t with
  | Some h => In h (t_sdh_expected t) /\ w_datums t <> None /\ w_redeemers t <> None
  | None => opt_list (w_datums t) = [] /\ opt_list (w_redeemers t) = []
  end.
Definition R_script_integrity_conway : Prop :=
  match t_sdh t with
  | Some h => In h (t_sdh_expected t)
  | None => tx_languages true t u = []
  end.
Definition R_languages (cw : bool) : Prop :=
  forall l, In l (tx_languages cw t u) ->
    if cw then (In l (pa_allowed_langs true t u) \/ (l = 1 /\ p_cm_v1 pp = true) \/ (l = 2 /\ p_cm_v2 pp = true) \/ (l = 3 /\ p_cm_v3 pp = true))
    else (In l (pa_allowed_langs false t u) /\ In l (bb_block_langs e)).
End Rules.

(* the rules of each era, as one conjunction *)
Definition rules_byron (t : tx) (u : utxo) (e : env) : Prop :=
  R_inputs_nonempty t /\ R_inputs_in_utxo t u /\ R_byron_outputs t /\ R_byron_size t e.
Definition rules_shelley (t : tx) (u : utxo) (e : env) : Prop :=
  R_inputs_nonempty t /\ R_inputs_in_utxo t u /\ R_ttl t e /\ R_tx_size t e /\ R_min_ada_shelley t e /\ R_min_fee t e /\
  R_outputs_network t e /\ R_aux_data_hash t /\ R_mint_witnessed_shelley t.
Definition rules_alonzo (t : tx) (u : utxo) (e : env) : Prop :=
  R_inputs_nonempty t /\ R_inputs_in_utxo t u /\ R_collateral_in_utxo t u /\ R_validity_interval t e /\ R_min_fee t e /\
  R_collateral_count_kind t u e (al_plutus t) is_alonzo_c /\ R_collateral_amount_alonzo t u e /\
  R_min_ada_alonzo t e /\ R_value_size t e /\ R_network_ids t e /\ R_tx_size t e /\ R_ex_units t e /\
  R_plutus_has_redeemers t (al_plutus t) /\
  R_mint_witnessed t (native_hashes t ++ opt_list (w_v1 t)) /\
  R_script_inputs_witnessed t u is_alonzo_c (native_hashes t ++ opt_list (w_v1 t)) /\
  R_no_extraneous_scripts t u is_alonzo_c (native_hashes t ++ opt_list (w_v1 t)) [] /\
  R_input_datums_witnessed t u is_alonzo_c /\ R_redeemers t (al_needed_ptrs t u) /\
  R_aux_data_hash t /\ R_script_integrity_legacy t.
Definition pa_scripts (cw : bool) (t : tx) : list Z :=
  native_hashes t ++ opt_list (w_v1 t) ++ opt_list (w_v2 t) ++ (if cw then opt_list (w_v3 t) else []).
Definition rules_pa (cw : bool) (t : tx) (u : utxo) (e : env) : Prop :=
  R_inputs_nonempty t /\ R_inputs_in_utxo t u /\ R_collateral_in_utxo t u /\ R_reference_in_utxo t u /\
  R_validity_interval t e /\ R_min_fee t e /\
  R_collateral_count_kind t u e (pa_needs_collateral cw t) (own_era cw) /\ R_collateral_annotation t u cw /\
  R_min_ada_babbage t e /\ R_value_size t e /\ R_network_ids t e /\ R_tx_size t e /\ R_ex_units t e /\
  R_plutus_has_redeemers t (pa_plutus cw t) /\
  R_mint_witnessed t (pa_scripts cw t ++ ref_script_hashes cw t u) /\
  R_script_inputs_witnessed t u (own_era cw) (pa_scripts cw t ++ ref_script_hashes cw t u) /\
  R_no_extraneous_scripts t u (own_era cw) (pa_scripts cw t) (ref_script_hashes cw t u) /\
  R_input_datums_witnessed t u (if cw then (fun _ => true) else own_era false) /\
  (exists needed, pa_needed_ptrs cw t u = Ok needed /\ R_redeemers t needed) /\
  R_languages t u e cw /\ R_aux_data_hash t /\
  (if cw then R_script_integrity_conway t u else R_script_integrity_legacy t).
Definition all_rules (t : tx) (u : utxo) (e : env) : Prop :=
  match t_era t with
  | 0 => rules_byron t u e
  | 1 | 2 | 3 => rules_shelley t u e
  | 4 => rules_alonzo t u e
  | 5 => rules_pa false t u e
  | 6 => rules_pa true t u e
  | _ => True
  end.
