//! C20: the multiplexer delivers each protocol's chunks in order, exactly once.
//!
//! Two REAL `Plexer`s (pallas-network multiplexer) are connected through a tap:
//!   Plexer A <-socketpair-> [forwarder tasks, record every byte] <-socketpair-> Plexer B
//! on a multi-thread tokio runtime.  Up to 6 agent pairs (client on one side,
//! server on the other, both directions) enqueue chunks of 0..65535 bytes with
//! seeded yield points while always keeping their receiving side drained.
//! Oracle (independent of the model): every agent received exactly what its
//! peer enqueued, in order, nothing more (quiescence window), and the recorded
//! byte stream of each direction is a sequence of well-formed segments whose
//! per-protocol subsequences are the enqueued chunks (timestamps non-decreasing).
//! A case (Coq type `case` of C20/Run.v) is one direction of one run: the
//! recorded bytes (timestamps zeroed), what each agent enqueued and received.
use std::sync::{Arc, Mutex};
use std::time::{Duration, Instant};

use pallas_network::multiplexer as mux;
use tokio::io::{AsyncReadExt, AsyncWriteExt};
use tokio::runtime::Runtime;
use tokio::sync::Barrier;
use verif_harness::*;

// a receiver still waiting this long after all progress stopped = lost chunk; generous
// until a loss has been established twice (then the run is failing anyway), short afterwards
static LOSSES: std::sync::atomic::AtomicUsize = std::sync::atomic::AtomicUsize::new(0);
fn lost_after() -> Duration {
    if LOSSES.load(std::sync::atomic::Ordering::Relaxed) < 2 { Duration::from_secs(40) } else { Duration::from_secs(3) }
}

#[derive(Clone)]
struct AgentPlan {
    proto: u16,
    a_is_client: bool,
    a_sends: Vec<Vec<u8>>, // chunks enqueued by the A-side agent
    b_sends: Vec<Vec<u8>>,
    a_yields: Vec<u8>,     // per chunk: 0 none, 1 yield_now, 2 sleep 50us, 3 several yields
    b_yields: Vec<u8>,
    a_recv_delay_ms: u64,  // the agent does not dequeue before this delay (back-pressure on the 100-slot egress queue)
    b_recv_delay_ms: u64,
}

#[derive(Clone, Copy)]
enum Ev { Frag(usize), Deq(u16, usize) } // Deq(listen id, index into that agent's received list)
type Log = Arc<Mutex<Vec<Ev>>>;

struct AgentOut { received: Vec<Vec<u8>>, extra: usize, send_err: Option<String>, lost: bool }

async fn agent_task(mut ch: mux::AgentChannel, sends: Vec<Vec<u8>>, yields: Vec<u8>, expect: usize, recv_delay_ms: u64, barrier: Arc<Barrier>, log: Log, listen_id: u16) -> AgentOut {
    let recv_from = Instant::now() + Duration::from_millis(recv_delay_ms);
    let mut received: Vec<Vec<u8>> = Vec::new();
    let mut next = 0usize;
    let mut send_err = None;
    let mut last_progress = Instant::now();
    let mut lost = false;
    while next < sends.len() || received.len() < expect {
        let mut progressed = false;
        if next < sends.len() && send_err.is_none() {
            match yields[next] { 1 => tokio::task::yield_now().await, 2 => tokio::time::sleep(Duration::from_micros(50)).await,
                                 3 => { for _ in 0..3 { tokio::task::yield_now().await; } } _ => {} }
            // never block in enqueue while our own queue may be filling up: a send that
            // cannot complete right away is cancelled (mpsc send is cancel-safe) and retried
            match tokio::time::timeout(Duration::from_millis(2), ch.enqueue_chunk(sends[next].clone())).await {
                Ok(Ok(())) => { next += 1; progressed = true; }
                Ok(Err(e)) => { send_err = Some(format!("{e:?}").chars().take(80).collect()); }
                Err(_) => {}
            }
        }
        // drain what is there (a slow consumer starts late)
        if Instant::now() < recv_from { if next >= sends.len() { tokio::time::sleep(Duration::from_millis(2)).await; } last_progress = Instant::now(); continue; }
        loop {
            // while there is still something to send only take what is already queued (one poll)
            let r = if next >= sends.len() || send_err.is_some() { tokio::time::timeout(Duration::from_millis(20), ch.dequeue_chunk()).await.ok() }
                    else { futures::FutureExt::now_or_never(ch.dequeue_chunk()) };
            match r {
                Some(Ok(c)) => { received.push(c); log.lock().unwrap().push(Ev::Deq(listen_id, received.len() - 1)); progressed = true; if received.len() > expect + 8 { break; } }
                Some(Err(_)) => { lost = true; break; }
                None => break,
            }
        }
        if lost || received.len() > expect + 8 { break; }
        if send_err.is_some() && next < sends.len() { next = sends.len(); }
        if progressed { last_progress = Instant::now(); }
        else if last_progress.elapsed() > lost_after() { lost = true; break; }
    }
    // everybody done (or given up): nothing more may arrive
    barrier.wait().await;
    let mut extra = 0usize;
    while let Ok(Ok(c)) = tokio::time::timeout(Duration::from_millis(60), ch.dequeue_chunk()).await { received.push(c); log.lock().unwrap().push(Ev::Deq(listen_id, received.len() - 1)); extra += 1; if extra > 8 { break; } }
    AgentOut { received, extra, send_err, lost }
}

/// copies src -> dst in random-sized pieces, recording everything
async fn forward(mut src: tokio::net::unix::OwnedReadHalf, mut dst: tokio::net::unix::OwnedWriteHalf, mut rng: Rng, log: Log) -> Vec<u8> {
    let mut rec = Vec::new();
    let mut buf = vec![0u8; 70000];
    loop {
        let want = match rng.below(5) { 0 => 1, 1 => rng.range(1, 16) as usize, 2 => rng.range(1, 5000) as usize, _ => 70000 };
        match src.read(&mut buf[..want]).await {
            Ok(0) | Err(_) => break,
            Ok(n) => {
                rec.extend_from_slice(&buf[..n]);
                log.lock().unwrap().push(Ev::Frag(n)); // logged before the bytes can reach the receiving plexer
                if dst.write_all(&buf[..n]).await.is_err() { break; }
                if rng.chance(1, 6) { tokio::task::yield_now().await; }
            }
        }
    }
    rec
}

struct RunOut { a: Vec<AgentOut>, b: Vec<AgentOut>, a2b: Vec<u8>, b2a: Vec<u8>, ev_a2b: Vec<Ev>, ev_b2a: Vec<Ev> }

fn run(rt: &Runtime, plans: &[AgentPlan], seed: u64) -> Result<RunOut, String> {
    let plans = plans.to_vec();
    rt.block_on(async move {
        let (a1, a2) = tokio::net::UnixStream::pair().map_err(|e| format!("socketpair: {e}"))?;
        let (b1, b2) = tokio::net::UnixStream::pair().map_err(|e| format!("socketpair: {e}"))?;
        let mut pa = mux::Plexer::new(mux::Bearer::Unix(a1));
        let mut pb = mux::Plexer::new(mux::Bearer::Unix(b1));
        let mut chans_a = Vec::new();
        let mut chans_b = Vec::new();
        for p in &plans {
            if p.a_is_client { chans_a.push(pa.subscribe_client(p.proto)); chans_b.push(pb.subscribe_server(p.proto)); }
            else { chans_a.push(pa.subscribe_server(p.proto)); chans_b.push(pb.subscribe_client(p.proto)); }
        }
        let (ra, rb) = (pa.spawn(), pb.spawn());
        let (a2r, a2w) = a2.into_split();
        let (b2r, b2w) = b2.into_split();
        let log_ab: Log = Arc::new(Mutex::new(Vec::new()));
        let log_ba: Log = Arc::new(Mutex::new(Vec::new()));
        let f_ab = tokio::spawn(forward(a2r, b2w, Rng::new(seed ^ 0xA), log_ab.clone()));
        let f_ba = tokio::spawn(forward(b2r, a2w, Rng::new(seed ^ 0xB), log_ba.clone()));
        let barrier = Arc::new(Barrier::new(plans.len() * 2));
        let mut ha = Vec::new();
        let mut hb = Vec::new();
        for (p, (ca, cb)) in plans.iter().zip(chans_a.into_iter().zip(chans_b.into_iter())) {
            ha.push(tokio::spawn(agent_task(ca, p.a_sends.clone(), p.a_yields.clone(), p.b_sends.len(), p.a_recv_delay_ms, barrier.clone(), log_ba.clone(), if p.a_is_client { p.proto ^ 0x8000 } else { p.proto })));
            hb.push(tokio::spawn(agent_task(cb, p.b_sends.clone(), p.b_yields.clone(), p.a_sends.len(), p.b_recv_delay_ms, barrier.clone(), log_ab.clone(), if p.a_is_client { p.proto } else { p.proto ^ 0x8000 })));
        }
        let mut a = Vec::new();
        let mut b = Vec::new();
        for h in ha { a.push(h.await.map_err(|e| format!("agent task: {e}"))?); }
        for h in hb { b.push(h.await.map_err(|e| format!("agent task: {e}"))?); }
        // closing the plexers ends the forwarders
        ra.abort().await;
        rb.abort().await;
        let a2b = tokio::time::timeout(Duration::from_secs(20), f_ab).await.map_err(|_| "forwarder did not finish".to_string())?.map_err(|e| format!("{e}"))?;
        let b2a = tokio::time::timeout(Duration::from_secs(20), f_ba).await.map_err(|_| "forwarder did not finish".to_string())?.map_err(|e| format!("{e}"))?;
        let ev_a2b = log_ab.lock().unwrap().clone();
        let ev_b2a = log_ba.lock().unwrap().clone();
        Ok(RunOut { a, b, a2b, b2a, ev_a2b, ev_b2a })
    })
}

/// pallas-network2 bearer: write_segment on one end read raw on the other, and raw bytes read back by read_segment
fn run_net2(rt: &Runtime, segs: &[(u32, u16, Vec<u8>)]) -> Result<(Vec<u8>, Vec<(u16, Vec<u8>)>), String> {
    use pallas_network2::bearer::Bearer;
    let segs = segs.to_vec();
    rt.block_on(async move {
        let (a, b) = tokio::net::UnixStream::pair().map_err(|e| format!("socketpair: {e}"))?;
        let (c, d) = tokio::net::UnixStream::pair().map_err(|e| format!("socketpair: {e}"))?;
        let (_ra, mut wa) = Bearer::Unix(a).into_split();
        let (mut rd, _wd) = Bearer::Unix(d).into_split();
        let n = segs.len();
        let total: usize = segs.iter().map(|s| 8 + s.2.len()).sum();
        let writer = tokio::spawn(async move { for (ts, p, pl) in segs.iter() { if wa.write_segment(*p, *ts, pl).await.is_err() { return false; } } true });
        // raw side: read everything the real writer produced, then replay it into the real reader
        let mut b = b;
        let mut raw = vec![0u8; total];
        tokio::time::timeout(Duration::from_secs(60), b.read_exact(&mut raw)).await.map_err(|_| "raw read timed out".to_string())?.map_err(|e| format!("raw read: {e}"))?;
        let _ = writer.await;
        let raw2 = raw.clone();
        let feeder = tokio::spawn(async move { let mut c = c; let _ = c.write_all(&raw2).await; let _ = c.shutdown().await; });
        let mut back = Vec::new();
        for _ in 0..n {
            match tokio::time::timeout(Duration::from_secs(60), rd.read_segment()).await {
                Ok(Ok((p, pl))) => back.push((p, pl)),
                Ok(Err(_)) => break,
                Err(_) => return Err("read_segment timed out".to_string()),
            }
        }
        let _ = feeder.await;
        Ok((raw, back))
    })
}

/// independent parser of a recorded direction: (timestamp, protocol, payload)*
fn parse_wire(bytes: &[u8]) -> Result<Vec<(u32, u16, Vec<u8>)>, String> {
    let mut out = Vec::new();
    let mut i = 0;
    while i < bytes.len() {
        if i + 8 > bytes.len() { return Err(format!("trailing {} bytes are not a header", bytes.len() - i)); }
        let ts = u32::from_be_bytes([bytes[i], bytes[i + 1], bytes[i + 2], bytes[i + 3]]);
        let proto = u16::from_be_bytes([bytes[i + 4], bytes[i + 5]]);
        let len = u16::from_be_bytes([bytes[i + 6], bytes[i + 7]]) as usize;
        if i + 8 + len > bytes.len() { return Err(format!("segment at {} announces {} bytes, only {} left", i, len, bytes.len() - i - 8)); }
        out.push((ts, proto, bytes[i + 8..i + 8 + len].to_vec()));
        i += 8 + len;
    }
    Ok(out)
}

fn cb(bs: &[u8]) -> String {
    let mut parts: Vec<String> = Vec::new();
    let mut lit: Vec<u8> = Vec::new();
    let mut i = 0;
    while i < bs.len() {
        let mut j = i;
        while j < bs.len() && bs[j] == bs[i] { j += 1; }
        if j - i >= 24 {
            if !lit.is_empty() { parts.push(coq_bytes(&lit)); lit.clear(); }
            parts.push(format!("rep {} {}", bs[i], j - i));
        } else { lit.extend_from_slice(&bs[i..j]); }
        i = j;
    }
    if !lit.is_empty() || parts.is_empty() { parts.push(coq_bytes(&lit)); }
    if parts.len() == 1 && parts[0].starts_with('[') { parts.pop().unwrap() } else { format!("({})", parts.join(" ++ ")) }
}
fn chunk_desc(c: &[u8]) -> String { if c.len() <= 12 { hex(c) } else { format!("{}..(len {})", hex(&c[..6]), c.len()) } }
fn chunks_desc(v: &[Vec<u8>]) -> String { v.iter().map(|c| chunk_desc(c)).collect::<Vec<_>>().join(",") }

fn make_chunk(rng: &mut Rng, agent: u8, dir: u8, seq: usize, big: bool) -> Vec<u8> {
    let len = match rng.below(if big { 12 } else { 9 }) {
        0 => 0, 1 => 1, 2 => rng.range(2, 8) as usize, 3 => rng.range(9, 64) as usize, 4 | 5 => rng.range(65, 600) as usize,
        6 => rng.range(601, 3000) as usize, 7 => 4, 8 => rng.range(3, 40) as usize,
        9 => 65535, 10 => *rng.pick(&[65534usize, 65535, 32768, 40000]), _ => rng.range(3000, 65535) as usize,
    };
    // identity (agent, direction, sequence number) up front when there is room, constant fill after
    let mut c = vec![rng.byte(); len];
    let id = [agent * 2 + dir, (seq >> 8) as u8, seq as u8];
    for (j, b) in id.iter().enumerate() { if j < len { c[j] = *b; } }
    c
}

fn main() {
    let args = args();
    let mut rng = Rng::new(args.seed);
    let thorough = args.tier == "thorough";
    let rt = tokio::runtime::Builder::new_multi_thread().worker_threads(6).enable_all().build().expect("tokio runtime");
    let protos: [u16; 12] = [0, 2, 3, 4, 5, 6, 7, 8, 9, 10, 0x7fff, 0x1234];
    let mut total_chunks = 0u64;
    let mut total_bytes = 0u64;
    let mut sched_skipped = 0u64;
    for run_idx in 0..args.n {
        // every 4th run is "big" (many / maximal chunks): oracle only; the others also go through the model
        let big = run_idx % 4 == 3;
        let nagents = if run_idx % 5 == 0 { 1 } else { rng.range(2, 6) as usize };
        let max_chunks = if big { if thorough { 200 } else { 120 } } else { rng.range(4, 40) as usize };
        let mut ps: Vec<u16> = protos.to_vec();
        let mut plans: Vec<AgentPlan> = Vec::new();
        let mut budget: i64 = if big { 6_000_000 } else { 150_000 };
        for ai in 0..nagents {
            let k = rng.below(ps.len() as u64) as usize;
            let proto = ps.remove(k);
            // both roles of the same protocol number may be open at once on one side (two agent pairs)
            let na = rng.below((max_chunks / nagents + 1) as u64 + 1) as usize;
            let nb = if rng.chance(1, 4) { 0 } else { rng.below((max_chunks / nagents + 1) as u64 + 1) as usize };
            let mut mk = |rng: &mut Rng, n: usize, dir: u8| -> Vec<Vec<u8>> {
                (0..n).map(|s| {
                    let bigc = big || rng.chance(1, 60);
                    let mut c = make_chunk(rng, ai as u8, dir, s, bigc);
                    if (c.len() as i64) > budget { c.truncate(3.min(c.len())); }
                    budget -= c.len() as i64;
                    c
                }).collect()
            };
            let a_sends = mk(&mut rng, na, 0);
            let b_sends = mk(&mut rng, nb, 1);
            let a_yields = (0..a_sends.len()).map(|_| rng.below(5) as u8).collect();
            let b_yields = (0..b_sends.len()).map(|_| rng.below(5) as u8).collect();
            plans.push(AgentPlan { proto, a_is_client: rng.bool(), a_sends, b_sends, a_yields, b_yields, a_recv_delay_ms: 0, b_recv_delay_ms: 0 });
        }
        // a slow consumer: more chunks than the egress queue holds (100) arrive before it starts dequeuing
        if run_idx % 4 == 1 || (big && run_idx % 8 == 3) {
            let n = rng.range(120, 170) as usize;
            let ai = plans.len() - 1;
            plans[ai].a_sends = (0..n).map(|s| { let mut c = make_chunk(&mut rng, ai as u8, 0, s, false); c.truncate(40); c }).collect();
            plans[ai].a_yields = vec![0; n];
            plans[ai].b_recv_delay_ms = 400;
        }
        // sometimes the same protocol number in both roles (ids p and p^0x8000 in both directions)
        if nagents >= 2 && rng.chance(1, 3) {
            let (p0, c0) = (plans[0].proto, plans[0].a_is_client);
            plans[1].proto = p0;
            plans[1].a_is_client = !c0;
        }
        let out = match run(&rt, &plans, args.seed.wrapping_mul(1000).wrapping_add(run_idx as u64)) {
            Ok(o) => o,
            Err(e) => { eprintln!("c20 harness tool error: {e}"); std::process::exit(3); }
        };
        let sched = plans.iter().enumerate().map(|(i, p)| format!("agent{}: proto={} A-role={} A-sends=[{}] B-sends=[{}]", i, p.proto,
            if p.a_is_client { "client" } else { "server" }, chunks_desc(&p.a_sends), chunks_desc(&p.b_sends))).collect::<Vec<_>>().join(" ; ");
        if run_idx < 3 { emit_sample(&format!("run {}: {}", run_idx, sched.chars().take(600).collect::<String>())); }
        if out.a.iter().chain(out.b.iter()).any(|o| o.lost) { LOSSES.fetch_add(1, std::sync::atomic::Ordering::Relaxed); }
        // ---- oracle 1: per-agent delivery
        for (i, p) in plans.iter().enumerate() {
            for (side, got, want) in [("B", &out.b[i], &p.a_sends), ("A", &out.a[i], &p.b_sends)] {
                total_chunks += want.len() as u64;
                total_bytes += want.iter().map(|c| c.len() as u64).sum::<u64>();
                let kind = if let Some(e) = &got.send_err { Some(format!("enqueue-error({e})")) }
                    else if got.received == *want { None }
                    else if got.lost || got.received.len() < want.len() && got.received[..] == want[..got.received.len()] { Some("lost-chunk".to_string()) }
                    else if got.extra > 0 || got.received.len() > want.len() && got.received[..want.len()] == want[..] { Some("duplicate-or-foreign-chunk".to_string()) }
                    else { Some("wrong-order-or-content".to_string()) };
                if let Some(kind) = kind {
                    emit_oracle_fail(&format!("delivery:{}", kind.split('(').next().unwrap()), &format!(
                        "run seed={} idx={} side {} agent{} (proto {}, {}): expected [{}] received [{}] ({}) ; schedule: {}", args.seed, run_idx, side, i, p.proto,
                        if (side == "A") == p.a_is_client { "client" } else { "server" }, chunks_desc(want), chunks_desc(&got.received), kind,
                        sched.chars().take(1500).collect::<String>()));
                }
            }
        }
        // ---- oracle 2 + case: the recorded wire of each direction
        for (dir, rec) in [("A->B", &out.a2b), ("B->A", &out.b2a)] {
            let a_to_b = dir == "A->B";
            // wire id used by the sender of agent i in this direction, which is the id its peer listens on
            let ids: Vec<u16> = plans.iter().map(|p| { let sender_is_client = if a_to_b { p.a_is_client } else { !p.a_is_client };
                                                       if sender_is_client { p.proto } else { p.proto ^ 0x8000 } }).collect();
            let sent: Vec<&Vec<Vec<u8>>> = plans.iter().map(|p| if a_to_b { &p.a_sends } else { &p.b_sends }).collect();
            let recvd: Vec<&Vec<Vec<u8>>> = (0..plans.len()).map(|i| if a_to_b { &out.b[i].received } else { &out.a[i].received }).collect();
            match parse_wire(rec) {
                Err(e) => emit_oracle_fail("wire:framing", &format!("run seed={} idx={} direction {}: recorded bytes are not a segment sequence: {} ; schedule: {}", args.seed, run_idx, dir, e, sched.chars().take(1500).collect::<String>())),
                Ok(segs) => {
                    let mut prev = 0u32;
                    for (ts, proto, _) in &segs {
                        if *ts < prev { emit_oracle_fail("wire:timestamp", &format!("run seed={} idx={} direction {}: timestamp {} after {}", args.seed, run_idx, dir, ts, prev)); break; }
                        prev = *ts;
                        if !ids.contains(proto) { emit_oracle_fail("wire:foreign-protocol-id", &format!("run seed={} idx={} direction {}: segment with protocol id {} ; ids in use {:?}", args.seed, run_idx, dir, proto, ids)); break; }
                    }
                    for (i, id) in ids.iter().enumerate() {
                        let on_wire: Vec<Vec<u8>> = segs.iter().filter(|s| s.1 == *id).map(|s| s.2.clone()).collect();
                        if on_wire != *sent[i] {
                            emit_oracle_fail("wire:per-protocol-sequence", &format!("run seed={} idx={} direction {} protocol id {}: enqueued [{}] on the wire [{}]", args.seed, run_idx, dir, id, chunks_desc(sent[i]), chunks_desc(&on_wire)));
                        }
                    }
                }
            }
            if !big && !args.oracle_only {
                // timestamps zeroed (they differ from run to run)
                let mut masked = rec.clone();
                if let Ok(segs) = parse_wire(rec) { let mut i = 0; for s in &segs { for j in 0..4 { masked[i + j] = 0; } i += 8 + s.2.len(); } }
                let tag = format!("{}agents{}", if plans.len() == 1 { "trivial-single-agent:" } else { "" }, plans.len());
                let per = |v: &Vec<&Vec<Vec<u8>>>| coq_list(&(0..ids.len()).collect::<Vec<_>>(), |i| format!("({},{})", ids[*i], coq_list(v[*i], |c| cb(c))));
                emit_case(&tag, &format!("(CPlex {} {} {})", cb(&masked), per(&sent), per(&recvd)));
                // the same run as a schedule of the transition system
                let evs = if a_to_b { &out.ev_a2b } else { &out.ev_b2a };
                if let Ok(segs) = parse_wire(rec) {
                    if evs.len() <= 4000 {
                        let ev_terms = coq_list(evs, |e| match e {
                            Ev::Frag(n) => format!("EFrag {}", n),
                            Ev::Deq(id, k) => { let i = ids.iter().position(|x| x == id).unwrap(); format!("EDeq {} {}", id, cb(&recvd[i][*k])) }
                        });
                        emit_case(&format!("schedule-replay:{}", tag), &format!("(CSched {} {} {} {})", coq_list(&ids, |i| i.to_string()),
                            coq_list(&segs, |(_, p, pl)| format!("({},{})", p, cb(pl))), ev_terms, per(&recvd)));
                    } else { sched_skipped += 1; }
                }
            }
        }
    }
    // ---- pallas-network2 bearer: same wire format (Header, write_segment, read_segment)
    for k in 0..(args.n / 2 + 2) {
        let nseg = rng.range(1, 12) as usize;
        let segs: Vec<(u32, u16, Vec<u8>)> = (0..nseg).map(|s| {
            let ts = match rng.below(4) { 0 => 0, 1 => u32::MAX, 2 => rng.edge_u64() as u32, _ => rng.next() as u32 };
            let p = match rng.below(4) { 0 => *rng.pick(&protos), 1 => *rng.pick(&protos) | 0x8000, 2 => 0xffff, _ => rng.next() as u16 };
            let mut c = make_chunk(&mut rng, 7, 0, s, k % 5 == 0);
            if k % 5 != 0 { c.truncate(3000); }
            (ts, p, c)
        }).collect();
        let (raw, back) = match run_net2(&rt, &segs) { Ok(x) => x, Err(e) => { eprintln!("c20 harness tool error: {e}"); std::process::exit(3); } };
        total_chunks += nseg as u64;
        let mut expect_raw = Vec::new();
        for (ts, p, pl) in &segs { expect_raw.extend_from_slice(&ts.to_be_bytes()); expect_raw.extend_from_slice(&p.to_be_bytes()); expect_raw.extend_from_slice(&(pl.len() as u16).to_be_bytes()); expect_raw.extend_from_slice(pl); }
        let desc = segs.iter().map(|(ts, p, pl)| format!("(ts {} proto {} payload {})", ts, p, chunk_desc(pl))).collect::<Vec<_>>().join(",");
        if raw != expect_raw { emit_oracle_fail("net2:write_segment", &format!("pallas-network2 write_segment of [{}] produced {} bytes that are not header(ts,proto,len)+payload per segment", desc, raw.len())); }
        let want: Vec<(u16, Vec<u8>)> = segs.iter().map(|(_, p, pl)| (*p, pl.clone())).collect();
        if back != want { emit_oracle_fail("net2:read_segment", &format!("pallas-network2 read_segment over the bytes of [{}] returned [{}]", desc, back.iter().map(|(p, pl)| format!("({} {})", p, chunk_desc(pl))).collect::<Vec<_>>().join(","))); }
        if !args.oracle_only {
            emit_case("net2-bearer", &format!("(CNet2 {} {} {})", coq_list(&segs, |(ts, p, pl)| format!("({},{},{})", ts, p, cb(pl))), cb(&raw),
                      coq_list(&back, |(p, pl)| format!("({},{})", p, cb(pl)))));
        }
    }
    emit_stat("schedule_replays_skipped_too_long", sched_skipped);
    emit_stat("chunks_oracle", total_chunks);
    emit_stat("payload_bytes", total_bytes);
}
