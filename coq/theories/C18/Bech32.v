(* Bech32 (BIP-173) as crate bech32 0.11.1 implements what pallas calls:
     bech32::encode::<Bech32>(hrp, data)   and   bech32::decode(s)
   executable, over strings = lists of bytes.  Definitions only (proofs: Bech32Proofs.v).

   Behaviour transcribed from the crate:
   - code length limit 1023 (not 90); hrp: 1..83 characters in 33..126;
   - check_characters: the LAST '1' separates; every character behind it must be in
     the charset (either case); a string containing both an ASCII upper- and a
     lower-case letter is rejected;
   - decode accepts a bech32 (residue 1) OR a bech32m (residue 0x2bc830a3) checksum;
   - 8->5 regrouping pads the last symbol with zero bits; 5->8 regrouping (byte_iter)
     yields floor(5m/8) bytes and DROPS the trailing bits without checking them.
   The two regroupings are written arithmetically (base-256 value <-> base-32
   digits), which is what the crate's iterators compute. *)
From PV Require Import Lib.Base.
Open Scope Z_scope.

(* ---- fixed-length big-endian digits ---- *)
Fixpoint digits (B : Z) (k : nat) (n : Z) : list Z :=
  match k with
  | O => []
  | S k' => digits B k' (n / B) ++ [n mod B]
  end.
Definition val (B : Z) (l : list Z) : Z := fold_left (fun a d => a * B + d) l 0.
Definition blen (l : list Z) : Z := Z.of_nat (length l).

(* bytes -> 5-bit symbols (BytesToFes): ceil(8n/5) symbols, zero padded *)
Definition to5 (bs : list Z) : list Z :=
  let n := blen bs in
  let m := (8 * n + 4) / 5 in
  digits 32 (Z.to_nat m) (val 256 bs * 2 ^ (5 * m - 8 * n)).
(* 5-bit symbols -> bytes (FesToBytes): floor(5m/8) bytes, trailing bits dropped *)
Definition from5 (vs : list Z) : list Z :=
  let m := blen vs in
  let k := (5 * m) / 8 in
  digits 256 (Z.to_nat k) (val 32 vs / 2 ^ (5 * m - 8 * k)).

(* ---- charset ---- *)
(* "qpzry9x8gf2tvdw0s3jn54khce6mua7l" *)
Definition charset : list Z :=
  [113;112;122;114;121;57;120;56;103;102;50;116;118;100;119;48;
   115;51;106;110;53;52;107;104;99;101;54;109;117;97;55;108].
Definition char_of (v : Z) : Z := nth (Z.to_nat v) charset 0.
Definition is_upper (c : Z) : bool := (65 <=? c) && (c <=? 90).
Definition is_lower (c : Z) : bool := (97 <=? c) && (c <=? 122).
Definition lower (c : Z) : Z := if is_upper c then c + 32 else c.
Fixpoint index_of (c : Z) (l : list Z) (i : Z) : option Z :=
  match l with
  | [] => None
  | x :: r => if x =? c then Some i else index_of c r (i + 1)
  end.
(* Fe32::from_char: both cases accepted *)
Definition fe_of_char (c : Z) : option Z := index_of (lower c) charset 0.
Fixpoint map_opt {A B} (f : A -> option B) (l : list A) : option (list B) :=
  match l with
  | [] => Some []
  | x :: r => match f x, map_opt f r with Some y, Some t => Some (y :: t) | _, _ => None end
  end.

(* ---- checksum (primitives::checksum::Engine over u32, GEN of BIP-173) ---- *)
Definition G0 : Z := 996825010.   (* 0x3b6a57b2 *)
Definition G1 : Z := 642813549.   (* 0x26508e6d *)
Definition G2 : Z := 513874426.   (* 0x1ea119fa *)
Definition G3 : Z := 1027748829.  (* 0x3d4233dd *)
Definition G4 : Z := 705979059.   (* 0x2a1462b3 *)
Definition BECH32M_CONST : Z := 734539939. (* 0x2bc830a3 *)
Definition sel (p : bool) (g : Z) : Z := if p then g else 0.
Definition gen_mix (b : Z) : Z :=
  Z.lxor (sel (Z.testbit b 0) G0) (Z.lxor (sel (Z.testbit b 1) G1) (Z.lxor (sel (Z.testbit b 2) G2)
    (Z.lxor (sel (Z.testbit b 3) G3) (sel (Z.testbit b 4) G4)))).
(* chk = (chk & 0x1ffffff) << 5 ^ v; for i in 0..5 { if (b >> i) & 1 { chk ^= GEN[i] } } *)
Definition polymod_step (c v : Z) : Z :=
  Z.lxor (Z.lxor (Z.shiftl (Z.land c 33554431) 5) v) (gen_mix (Z.shiftr c 25)).
Definition polymod_from (c : Z) (vs : list Z) : Z := fold_left polymod_step vs c.
Definition polymod (vs : list Z) : Z := polymod_from 1 vs.

(* HrpFe32Iter: high bits of the lower-cased hrp, 0, low bits *)
Definition hrp_expand (h : list Z) : list Z :=
  map (fun c => Z.shiftr (lower c) 5) h ++ [0] ++ map (fun c => Z.land (lower c) 31) h.

Definition unpack (pm i : Z) : Z := Z.land (Z.shiftr pm (5 * i)) 31.
Definition create_checksum (h : list Z) (fes : list Z) : list Z :=
  let pm := Z.lxor (polymod (hrp_expand h ++ fes ++ [0; 0; 0; 0; 0; 0])) 1 in
  [unpack pm 5; unpack pm 4; unpack pm 3; unpack pm 2; unpack pm 1; unpack pm 0].

(* ---- encode (encode_lower::<Bech32>); None = EncodeError::TooLong (pallas: expect() panics) ---- *)
Definition bech32_encode (h data : list Z) : option (list Z) :=
  let fes := to5 data in
  if blen h + 1 + blen fes + 6 >? 1023 then None
  else Some (map lower h ++ [49] ++ map char_of (fes ++ create_checksum h fes)).

(* ---- decode ---- *)
Fixpoint split_at_first (x : Z) (l : list Z) : option (list Z * list Z) :=
  match l with
  | [] => None
  | c :: r => if c =? x then Some ([], r)
              else match split_at_first x r with Some (a, b) => Some (c :: a, b) | None => None end
  end.
(* Hrp::parse (the mixed-case rule is the whole-string rule of check_characters) *)
Definition hrp_ok (h : list Z) : bool :=
  negb (blen h =? 0) && (blen h <=? 83) && forallb (fun c => (33 <=? c) && (c <=? 126)) h.

Definition bech32_decode (s : list Z) : option (list Z * list Z) :=
  match split_at_first 49 (rev s) with
  | None => None
  | Some (data_rev, hrp_rev) =>
      let h := rev hrp_rev in
      match map_opt fe_of_char (rev data_rev) with
      | None => None
      | Some fes =>
          if existsb is_upper s && existsb is_lower s then None
          else if negb (hrp_ok h) then None
          else if blen s >? 1023 then None
          else if blen fes <? 6 then None
          else
            let r := polymod (hrp_expand h ++ fes) in
            if (r =? BECH32M_CONST) || (r =? 1)
            then Some (h, from5 (firstn (length fes - 6) fes))
            else None
      end
  end.

(* hrp of the property: what Hrp::parse accepts, lower case *)
Definition hrp_valid (h : list Z) : Prop :=
  h <> [] /\ blen h <= 83 /\ Forall (fun c => 33 <= c <= 126 /\ is_upper c = false) h.
