//! C06: era ledger codecs are isomorphic on chain data and round-trip all values.
//!
//! ORACLE 1 (byte isomorphism): every block and tx of test_data and every block of the
//! immutable chunks under test_data (read with pallas-hardano) is decoded with its era codec
//! and re-encoded; the bytes must be identical.  key `iso/<kind>/<era>`.
//! ORACLE 2 (value round trip): generated era values (metadatum ints over -2^64..2^64-1,
//! nested metadata, every Conway certificate variant, relays, governance actions, values,
//! rationals, redeemer keys, ...) are encoded and decoded; the result must be an equal value
//! and re-encode to the same bytes.  key `roundtrip/<type>`.
//! CASES: for ~35 pallas types whose schema is GENERATED from the derive attributes
//! (coq/theories/Generated/Schemas.v, looked up by `module::Type`) and four test types derived
//! here with the same minicbor-derive, the value (opaque leaves as raw items), the bytes minicbor
//! wrote and the round-trip verdict go to the schema model: CGen name value bytes rt.
#[path = "cbor_tree/mod.rs"]
mod cbor_tree;
use pallas_codec::minicbor::{self, Decode, Encode};
use pallas_codec::utils::{Bytes, Int, KeyValuePairs, MaybeIndefArray, Nullable, Set};
use pallas_crypto::hash::Hash;
use pallas_primitives::{alonzo, babbage, byron, conway, ExUnits, Metadatum, RationalNumber, Relay, StakeCredential};
use pallas_traverse::{probe, Era, MultiEraBlock, MultiEraTx};
use std::collections::BTreeMap;
use std::fmt::Debug;
use verif_harness::*;

// ---- test structs: the derive shapes the model covers, with the same minicbor-derive ----
#[derive(Encode, Decode, Debug, PartialEq, Clone)]
struct OptTail { #[n(0)] a: u64, #[n(1)] b: Option<u32>, #[n(2)] c: Option<Bytes>, #[n(3)] d: Option<bool>, #[n(4)] e: Option<Vec<u16>> }
#[derive(Encode, Decode, Debug, PartialEq, Clone)]
#[cbor(flat)]
enum FlatOpt { #[n(0)] A(#[n(0)] u8, #[n(1)] Option<i64>), #[n(3)] B, #[n(5)] C(#[n(0)] Option<u64>, #[n(1)] Option<bool>) }
#[derive(Encode, Decode, Debug, PartialEq, Clone)]
struct Nested { #[n(0)] x: Vec<OptTail>, #[n(1)] y: Option<FlatOpt> }

#[derive(Encode, Decode, Debug, PartialEq, Clone)]
#[cbor(map)]
struct MapOpt { #[n(0)] a: u64, #[n(2)] b: Option<u32>, #[n(5)] c: Option<Bytes>, #[n(9)] d: Vec<u16>, #[n(11)] e: Option<bool> }

// ---- Coq value printers ----
fn v_int<T: std::fmt::Display>(n: T) -> String { format!("(VInt {})", coq_z(n)) }
fn v_bytes(b: &[u8]) -> String { format!("(VBytes {})", coq_bytes(b)) }
fn v_opt(o: Option<String>) -> String { match o { None => "VNone".into(), Some(s) => format!("(VSome {})", s) } }
fn v_rec(fs: Vec<String>) -> String { format!("(VRec [{}])", fs.join(";")) }
fn v_var(i: i64, fs: Vec<String>) -> String { format!("(VVar {} [{}])", coq_z(i), fs.join(";")) }
fn v_list(fs: Vec<String>) -> String { format!("(VList [{}])", fs.join(";")) }
fn v_bool(b: bool) -> String { format!("(VBool {})", coq_bool(b)) }

fn v_text(b: &str) -> String { format!("(VText {})", coq_bytes(b.as_bytes())) }
/// an opaque leaf: the raw bytes minicbor writes for it
fn raw<T: Encode<()>>(x: &T) -> String { format!("(VRaw {})", coq_bytes(&minicbor::to_vec(x).expect("encode"))) }

/// Rust value -> term of the Coq `value` type, following the GENERATED schema of its type
trait ToV { fn tov(&self) -> String; }
impl ToV for u8 { fn tov(&self) -> String { v_int(*self) } }
impl ToV for u16 { fn tov(&self) -> String { v_int(*self) } }
impl ToV for u32 { fn tov(&self) -> String { v_int(*self) } }
impl ToV for u64 { fn tov(&self) -> String { v_int(*self) } }
impl ToV for i64 { fn tov(&self) -> String { v_int(*self) } }
impl ToV for bool { fn tov(&self) -> String { v_bool(*self) } }
impl ToV for Bytes { fn tov(&self) -> String { v_bytes(self) } }
impl ToV for String { fn tov(&self) -> String { v_text(self) } }
impl<const N: usize> ToV for Hash<N> { fn tov(&self) -> String { v_bytes(self.as_ref()) } }
impl<T: ToV> ToV for Vec<T> { fn tov(&self) -> String { v_list(self.iter().map(|x| x.tov()).collect()) } }
impl<T: ToV> ToV for Option<T> { fn tov(&self) -> String { v_opt(self.as_ref().map(|x| x.tov())) } }
impl<T: ToV> ToV for Box<T> { fn tov(&self) -> String { (**self).tov() } }
impl ToV for (u64, u64) { fn tov(&self) -> String { v_rec(vec![self.0.tov(), self.1.tov()]) } }
macro_rules! tov_struct { ($t:ty, $($f:tt),*) => { impl ToV for $t { fn tov(&self) -> String { v_rec(vec![$(self.$f.tov()),*]) } } } }
macro_rules! tov_index { ($t:ty, $($v:ident = $i:expr),*) => { impl ToV for $t { fn tov(&self) -> String { match self { $(<$t>::$v => v_var($i, vec![])),* } } } } }
tov_struct!(ExUnits, mem, steps);
tov_struct!(pallas_primitives::TransactionInput, transaction_id, index);
tov_struct!(alonzo::VKeyWitness, vkey, signature);
tov_struct!(alonzo::BootstrapWitness, public_key, signature, chain_code, attributes);
tov_struct!(pallas_primitives::PoolMetadata, url, hash);
tov_struct!(pallas_primitives::Nonce, variant, hash);
tov_struct!(pallas_primitives::VrfCert, 0, 1);
tov_struct!(babbage::OperationalCert, operational_cert_hot_vkey, operational_cert_sequence_number, operational_cert_kes_period, operational_cert_sigma);
tov_struct!(babbage::CostModels, plutus_v1, plutus_v2);
tov_struct!(conway::Anchor, url, content_hash);
tov_struct!(conway::GovActionId, transaction_id, action_index);
tov_struct!(conway::RedeemersKey, tag, index);
tov_struct!(conway::Constitution, anchor, guardrail_script);
tov_struct!(conway::VotingProcedure, vote, anchor);
tov_struct!(conway::ProposalProcedure, deposit, reward_account, gov_action, anchor);
tov_struct!(alonzo::RedeemerPointer, tag, index);
tov_index!(conway::RedeemerTag, Spend = 0, Mint = 1, Cert = 2, Reward = 3, Vote = 4, Propose = 5);
tov_index!(alonzo::RedeemerTag, Spend = 0, Mint = 1, Cert = 2, Reward = 3);
tov_index!(conway::Language, PlutusV1 = 0, PlutusV2 = 1, PlutusV3 = 2);
tov_index!(conway::Vote, No = 0, Yes = 1, Abstain = 2);
tov_index!(pallas_primitives::NetworkId, Testnet = 0, Mainnet = 1);
tov_index!(pallas_primitives::NonceVariant, NeutralNonce = 0, Nonce = 1);
impl ToV for StakeCredential { fn tov(&self) -> String { match self { StakeCredential::ScriptHash(h) => v_var(1, vec![h.tov()]), StakeCredential::AddrKeyhash(h) => v_var(0, vec![h.tov()]) } } }
impl ToV for conway::DRep { fn tov(&self) -> String { match self { conway::DRep::Key(h) => v_var(0, vec![h.tov()]), conway::DRep::Script(h) => v_var(1, vec![h.tov()]), conway::DRep::Abstain => v_var(2, vec![]), conway::DRep::NoConfidence => v_var(3, vec![]) } } }
impl ToV for conway::Voter { fn tov(&self) -> String { use conway::Voter as V; match self { V::ConstitutionalCommitteeKey(h) => v_var(0, vec![h.tov()]), V::ConstitutionalCommitteeScript(h) => v_var(1, vec![h.tov()]), V::DRepKey(h) => v_var(2, vec![h.tov()]), V::DRepScript(h) => v_var(3, vec![h.tov()]), V::StakePoolKey(h) => v_var(4, vec![h.tov()]) } } }
// types with opaque leaves (PlutusData, RationalNumber, Relay, sets, maps): those fields go as raw items
impl ToV for conway::Redeemer { fn tov(&self) -> String { v_rec(vec![self.tag.tov(), self.index.tov(), raw(&self.data), self.ex_units.tov()]) } }
impl ToV for alonzo::Redeemer { fn tov(&self) -> String { v_rec(vec![self.tag.tov(), self.index.tov(), raw(&self.data), self.ex_units.tov()]) } }
impl ToV for conway::ExUnitPrices { fn tov(&self) -> String { v_rec(vec![raw(&self.mem_price), raw(&self.step_price)]) } }
impl ToV for conway::PoolVotingThresholds { fn tov(&self) -> String { v_rec(vec![raw(&self.motion_no_confidence), raw(&self.committee_normal), raw(&self.committee_no_confidence), raw(&self.hard_fork_initiation), raw(&self.security_voting_threshold)]) } }
impl ToV for conway::DRepVotingThresholds { fn tov(&self) -> String { v_rec(vec![raw(&self.motion_no_confidence), raw(&self.committee_normal), raw(&self.committee_no_confidence), raw(&self.update_constitution), raw(&self.hard_fork_initiation),
    raw(&self.pp_network_group), raw(&self.pp_economic_group), raw(&self.pp_technical_group), raw(&self.pp_governance_group), raw(&self.treasury_withdrawal)]) } }
impl ToV for conway::Update { fn tov(&self) -> String { v_rec(vec![raw(&self.proposed_protocol_parameter_updates), self.epoch.tov()]) } }
fn oraw<T: Encode<()>>(o: &Option<T>) -> String { v_opt(o.as_ref().map(|x| raw(x))) }
impl ToV for conway::ProtocolParamUpdate { fn tov(&self) -> String { let p = self; v_rec(vec![
    p.minfee_a.tov(), p.minfee_b.tov(), p.max_block_body_size.tov(), p.max_transaction_size.tov(), p.max_block_header_size.tov(), p.key_deposit.tov(), p.pool_deposit.tov(), p.maximum_epoch.tov(),
    p.desired_number_of_stake_pools.tov(), oraw(&p.pool_pledge_influence), oraw(&p.expansion_rate), oraw(&p.treasury_growth_rate), p.min_pool_cost.tov(), p.ada_per_utxo_byte.tov(),
    oraw(&p.cost_models_for_script_languages), p.execution_costs.tov(), p.max_tx_ex_units.tov(), p.max_block_ex_units.tov(), p.max_value_size.tov(), p.collateral_percentage.tov(), p.max_collateral_inputs.tov(),
    p.pool_voting_thresholds.tov(), p.drep_voting_thresholds.tov(), p.min_committee_size.tov(), p.committee_term_limit.tov(), p.governance_action_validity_period.tov(), p.governance_action_deposit.tov(),
    p.drep_deposit.tov(), p.drep_inactivity_period.tov(), oraw(&p.minfee_refscript_cost_per_byte)]) } }
impl ToV for conway::Certificate { fn tov(&self) -> String { use conway::Certificate as C; match self {
    C::StakeRegistration(c) => v_var(0, vec![c.tov()]), C::StakeDeregistration(c) => v_var(1, vec![c.tov()]), C::StakeDelegation(c, h) => v_var(2, vec![c.tov(), h.tov()]),
    C::PoolRegistration { operator, vrf_keyhash, pledge, cost, margin, reward_account, pool_owners, relays, pool_metadata } =>
        v_var(3, vec![operator.tov(), vrf_keyhash.tov(), pledge.tov(), cost.tov(), raw(margin), reward_account.tov(), raw(pool_owners), v_list(relays.iter().map(|r| raw(r)).collect()), pool_metadata.tov()]),
    C::PoolRetirement(h, e) => v_var(4, vec![h.tov(), e.tov()]), C::Reg(c, n) => v_var(7, vec![c.tov(), n.tov()]), C::UnReg(c, n) => v_var(8, vec![c.tov(), n.tov()]),
    C::VoteDeleg(c, d) => v_var(9, vec![c.tov(), d.tov()]), C::StakeVoteDeleg(c, h, d) => v_var(10, vec![c.tov(), h.tov(), d.tov()]), C::StakeRegDeleg(c, h, n) => v_var(11, vec![c.tov(), h.tov(), n.tov()]),
    C::VoteRegDeleg(c, d, n) => v_var(12, vec![c.tov(), d.tov(), n.tov()]), C::StakeVoteRegDeleg(c, h, d, n) => v_var(13, vec![c.tov(), h.tov(), d.tov(), n.tov()]),
    C::AuthCommitteeHot(a, b) => v_var(14, vec![a.tov(), b.tov()]), C::ResignCommitteeCold(c, a) => v_var(15, vec![c.tov(), a.tov()]), C::RegDRepCert(c, n, a) => v_var(16, vec![c.tov(), n.tov(), a.tov()]),
    C::UnRegDRepCert(c, n) => v_var(17, vec![c.tov(), n.tov()]), C::UpdateDRepCert(c, a) => v_var(18, vec![c.tov(), a.tov()]) } } }
impl ToV for conway::GovAction { fn tov(&self) -> String { use conway::GovAction as G; match self {
    G::ParameterChange(i, p, h) => v_var(0, vec![i.tov(), p.tov(), h.tov()]), G::HardForkInitiation(i, v) => v_var(1, vec![i.tov(), v.tov()]),
    G::TreasuryWithdrawals(m, h) => v_var(2, vec![raw(m), h.tov()]), G::NoConfidence(i) => v_var(3, vec![i.tov()]),
    G::UpdateCommittee(i, s, m, q) => v_var(4, vec![i.tov(), raw(s), raw(m), raw(q)]), G::NewConstitution(i, c) => v_var(5, vec![i.tov(), c.tov()]), G::Information => v_var(6, vec![]) } } }
// the harness' own test types
impl ToV for OptTail { fn tov(&self) -> String { v_rec(vec![self.a.tov(), self.b.tov(), self.c.tov(), self.d.tov(), self.e.tov()]) } }
impl ToV for FlatOpt { fn tov(&self) -> String { match self { FlatOpt::A(a, b) => v_var(0, vec![a.tov(), b.tov()]), FlatOpt::B => v_var(3, vec![]), FlatOpt::C(a, b) => v_var(5, vec![a.tov(), b.tov()]) } } }
impl ToV for Nested { fn tov(&self) -> String { v_rec(vec![self.x.tov(), self.y.tov()]) } }
impl ToV for MapOpt { fn tov(&self) -> String { v_rec(vec![self.a.tov(), self.b.tov(), self.c.tov(), self.d.tov(), self.e.tov()]) } }

// ---- generators ----
fn h28(rng: &mut Rng) -> Hash<28> { let b = rng.bytes(28); Hash::<28>::from(&b[..]) }
fn h32(rng: &mut Rng) -> Hash<32> { let b = rng.bytes(32); Hash::<32>::from(&b[..]) }
fn cred(rng: &mut Rng) -> StakeCredential { if rng.bool() { StakeCredential::ScriptHash(h28(rng)) } else { StakeCredential::AddrKeyhash(h28(rng)) } }
fn drep(rng: &mut Rng) -> conway::DRep { match rng.below(4) { 0 => conway::DRep::Key(h28(rng)), 1 => conway::DRep::Script(h28(rng)), 2 => conway::DRep::Abstain, _ => conway::DRep::NoConfidence } }
fn ascii(rng: &mut Rng, max: u64) -> String { let n = rng.below(max + 1); (0..n).map(|_| (b'a' + rng.below(26) as u8) as char).collect() }
fn text(rng: &mut Rng) -> String { match rng.below(4) { 0 => String::new(), 1 => "héllo wörld ✓".into(), 2 => ascii(rng, 70), _ => ascii(rng, 10) } }
fn anchor(rng: &mut Rng) -> conway::Anchor { conway::Anchor { url: text(rng), content_hash: h32(rng) } }
fn rational(rng: &mut Rng) -> RationalNumber { RationalNumber { numerator: rng.edge_u64(), denominator: rng.edge_u64() } }
fn bytes_n(rng: &mut Rng, n: usize) -> Bytes { Bytes::from(rng.bytes(n)) }
fn relay(rng: &mut Rng) -> Relay {
    match rng.below(3) {
        0 => Relay::SingleHostAddr(if rng.bool() { Some(rng.below(65536) as u32) } else { None }, if rng.bool() { Some(bytes_n(rng, 4)) } else { None }, if rng.bool() { Some(bytes_n(rng, 16)) } else { None }),
        1 => Relay::SingleHostName(if rng.bool() { Some(rng.edge_u64() as u32) } else { None }, text(rng)),
        _ => Relay::MultiHostName(text(rng)),
    }
}
fn gov_id(rng: &mut Rng) -> Option<conway::GovActionId> { if rng.bool() { Some(conway::GovActionId { transaction_id: h32(rng), action_index: rng.edge_u64() as u32 }) } else { None } }
fn certificate(rng: &mut Rng, k: u64) -> conway::Certificate {
    use conway::Certificate as C;
    match k {
        0 => C::StakeRegistration(cred(rng)), 1 => C::StakeDeregistration(cred(rng)), 2 => C::StakeDelegation(cred(rng), h28(rng)),
        3 => C::PoolRegistration { operator: h28(rng), vrf_keyhash: h32(rng), pledge: rng.edge_u64(), cost: rng.edge_u64(), margin: rational(rng), reward_account: bytes_n(rng, 29),
                pool_owners: Set::from((0..rng.below(3)).map(|_| h28(rng)).collect::<Vec<_>>()), relays: (0..rng.below(4)).map(|_| relay(rng)).collect(),
                pool_metadata: if rng.bool() { Some(pallas_primitives::PoolMetadata { url: text(rng), hash: bytes_n(rng, 32) }) } else { None } },
        4 => C::PoolRetirement(h28(rng), rng.edge_u64()),
        7 => C::Reg(cred(rng), rng.edge_u64()), 8 => C::UnReg(cred(rng), rng.edge_u64()), 9 => C::VoteDeleg(cred(rng), drep(rng)),
        10 => C::StakeVoteDeleg(cred(rng), h28(rng), drep(rng)), 11 => C::StakeRegDeleg(cred(rng), h28(rng), rng.edge_u64()),
        12 => C::VoteRegDeleg(cred(rng), drep(rng), rng.edge_u64()), 13 => C::StakeVoteRegDeleg(cred(rng), h28(rng), drep(rng), rng.edge_u64()),
        14 => C::AuthCommitteeHot(cred(rng), cred(rng)), 15 => C::ResignCommitteeCold(cred(rng), if rng.bool() { Some(anchor(rng)) } else { None }),
        16 => C::RegDRepCert(cred(rng), rng.edge_u64(), if rng.bool() { Some(anchor(rng)) } else { None }),
        17 => C::UnRegDRepCert(cred(rng), rng.edge_u64()),
        _ => C::UpdateDRepCert(cred(rng), if rng.bool() { Some(anchor(rng)) } else { None }),
    }
}
fn ppu(rng: &mut Rng) -> conway::ProtocolParamUpdate {
    let mut p: conway::ProtocolParamUpdate = minicbor::decode(&[0xa0]).expect("empty update");
    if rng.bool() { p.minfee_a = Some(rng.edge_u64()); }
    if rng.bool() { p.minfee_b = Some(rng.edge_u64()); }
    if rng.bool() { p.max_transaction_size = Some(rng.edge_u64()); }
    if rng.bool() { p.key_deposit = Some(rng.edge_u64()); }
    p
}
fn gov_action(rng: &mut Rng, k: u64) -> conway::GovAction {
    use conway::GovAction as G;
    match k {
        0 => G::ParameterChange(gov_id(rng), Box::new(ppu(rng)), if rng.bool() { Some(h28(rng)) } else { None }),
        1 => G::HardForkInitiation(gov_id(rng), (rng.edge_u64(), rng.edge_u64())),
        2 => G::TreasuryWithdrawals((0..rng.below(3)).map(|_| (bytes_n(rng, 29), rng.edge_u64())).collect(), if rng.bool() { Some(h28(rng)) } else { None }),
        3 => G::NoConfidence(gov_id(rng)),
        4 => G::UpdateCommittee(gov_id(rng), Set::from((0..rng.below(3)).map(|_| cred(rng)).collect::<Vec<_>>()), (0..rng.below(3)).map(|_| (cred(rng), rng.edge_u64())).collect(), rational(rng)),
        5 => G::NewConstitution(gov_id(rng), conway::Constitution { anchor: anchor(rng), guardrail_script: if rng.bool() { Some(h28(rng)) } else { None } }),
        _ => G::Information,
    }
}
fn big_int(rng: &mut Rng) -> Int {
    // the full CBOR integer range -2^64 .. 2^64-1, biased to the edges
    let v: i128 = match rng.below(8) {
        0 => -(1i128 << 64), 1 => (1i128 << 64) - 1, 2 => -(1i128 << 63) - 1, 3 => 1i128 << 63, 4 => -(rng.edge_u64() as i128) - 1, 5 => rng.edge_u64() as i128,
        6 => *rng.pick(&[0i128, -1, 23, 24, -24, -25, 255, 256, -256, -257, 65535, 65536, i64::MAX as i128, i64::MIN as i128, u64::MAX as i128]), _ => (rng.next() as i64) as i128,
    };
    Int::try_from(v).expect("in range")
}
fn kvp<K, V>(rng: &mut Rng, v: Vec<(K, V)>) -> KeyValuePairs<K, V> where K: Clone, V: Clone { if rng.bool() { KeyValuePairs::Indef(v) } else { KeyValuePairs::Def(v) } }
fn mia<T>(rng: &mut Rng, v: Vec<T>) -> MaybeIndefArray<T> { if rng.bool() { MaybeIndefArray::Indef(v) } else { MaybeIndefArray::Def(v) } }
/// PlutusData with definite and indefinite arrays / maps / constructor fields at every depth
fn pdata(rng: &mut Rng, depth: usize) -> alonzo::PlutusData {
    use alonzo::PlutusData as P;
    match rng.below(if depth == 0 { 2 } else { 5 }) {
        0 => P::BigInt(alonzo::BigInt::Int(Int::from((rng.next() as i64) >> rng.below(64)))),
        1 => { let n = *rng.pick(&[0usize, 1, 31, 63, 64, 65, 130]); P::BoundedBytes(rng.bytes(n).into()) }
        2 => { let n = rng.below(3); let v = (0..n).map(|_| pdata(rng, depth - 1)).collect(); P::Array(mia(rng, v)) }
        3 => { let n = rng.below(3); let v = (0..n).map(|_| (pdata(rng, depth - 1), pdata(rng, depth - 1))).collect(); P::Map(kvp(rng, v)) }
        _ => { let n = rng.below(3); let v = (0..n).map(|_| pdata(rng, depth - 1)).collect();
               let (tag, any) = match rng.below(3) { 0 => (121 + rng.below(7), None), 1 => (1280 + rng.below(121), None), _ => (102, Some(rng.edge_u64())) };
               P::Constr(alonzo::Constr { tag, any_constructor: any, fields: mia(rng, v) }) }
    }
}
/// Metadatum with the Def / Indef distinction erased (what the two framings of one map mean)
fn norm_md(m: &Metadatum) -> Metadatum {
    match m {
        Metadatum::Array(v) => Metadatum::Array(v.iter().map(norm_md).collect()),
        Metadatum::Map(kv) => Metadatum::Map(KeyValuePairs::Def(kv.iter().map(|(k, v)| (norm_md(k), norm_md(v))).collect())),
        x => x.clone(),
    }
}
fn norm_aux(a: &alonzo::AuxiliaryData) -> alonzo::AuxiliaryData {
    let nm = |m: &BTreeMap<u64, Metadatum>| -> BTreeMap<u64, Metadatum> { m.iter().map(|(k, v)| (*k, norm_md(v))).collect() };
    match a {
        alonzo::AuxiliaryData::Shelley(m) => alonzo::AuxiliaryData::Shelley(nm(m)),
        alonzo::AuxiliaryData::ShelleyMa(x) => alonzo::AuxiliaryData::ShelleyMa(alonzo::ShelleyMaAuxiliaryData { transaction_metadata: nm(&x.transaction_metadata), auxiliary_scripts: x.auxiliary_scripts.clone() }),
        alonzo::AuxiliaryData::PostAlonzo(x) => alonzo::AuxiliaryData::PostAlonzo(alonzo::PostAlonzoAuxiliaryData { metadata: x.metadata.as_ref().map(nm), native_scripts: x.native_scripts.clone(), plutus_scripts: x.plutus_scripts.clone() }),
    }
}
fn metadatum(rng: &mut Rng, depth: usize) -> Metadatum {
    match rng.below(if depth == 0 { 3 } else { 5 }) {
        0 => Metadatum::Int(big_int(rng)), 1 => { let n = rng.below(70) as usize; Metadatum::Bytes(bytes_n(rng, n)) }, 2 => Metadatum::Text(text(rng)),
        3 => Metadatum::Array((0..rng.below(4)).map(|_| metadatum(rng, depth - 1)).collect()),
        _ => { let n = rng.below(4); let v: Vec<(Metadatum, Metadatum)> = (0..n).map(|_| (metadatum(rng, depth - 1), metadatum(rng, depth - 1))).collect(); Metadatum::Map(kvp(rng, v)) }
    }
}

struct Ctx { oracle_only: bool, n_cases: usize, budget: usize, fails: u64, checked: u64 }

impl Ctx {
    /// encode / decode / compare; returns the bytes and whether the round trip held
    fn roundtrip<T>(&mut self, name: &str, v: &T) -> (Vec<u8>, bool) where T: Encode<()> + for<'b> Decode<'b, ()> + PartialEq + Debug {
        self.checked += 1;
        let enc = guard(|| minicbor::to_vec(v).map_err(|e| e.to_string()));
        let bytes = match enc { Out::Ok(b) => b, Out::Err(e) => { self.fail(&format!("roundtrip/{}", name), format!("value={:?} encode error={}", v, e)); return (vec![], false) }
            Out::Panic(p) => { self.fail(&format!("roundtrip/{}", name), format!("value={:?} encode panic={}", v, p)); return (vec![], false) } };
        let dec = guard(|| minicbor::decode::<T>(&bytes).map_err(|e| e.to_string()));
        let ok = match dec {
            Out::Ok(v2) => {
                if &v2 != v { self.fail(&format!("roundtrip/{}", name), format!("value={:?} bytes={} decoded={:?}", v, hex(&bytes), v2)); false }
                else { match minicbor::to_vec(&v2) { Ok(b2) if b2 == bytes => true, _ => { self.fail(&format!("reencode/{}", name), format!("value={:?} bytes={}", v, hex(&bytes))); false } } }
            }
            Out::Err(e) => { self.fail(&format!("roundtrip/{}", name), format!("value={:?} bytes={} decode error={}", v, hex(&bytes), e)); false }
            Out::Panic(p) => { self.fail(&format!("roundtrip/{}", name), format!("value={:?} bytes={} decode panic={}", v, hex(&bytes), p)); false }
        };
        (bytes, ok)
    }
    fn fail(&mut self, key: &str, what: String) { self.fails += 1; if self.fails <= 40 { emit_oracle_fail(key, &what[..what.len().min(6000)]); } }
    /// round trip through the real codec (oracle) and, within the budget, a case for the schema named `name`
    fn go<T>(&mut self, name: &str, v: &T) where T: ToV + Encode<()> + for<'b> Decode<'b, ()> + PartialEq + Debug {
        let (b, ok) = self.roundtrip(name, v);
        if self.oracle_only || self.budget == 0 { return; }
        self.budget -= 1; self.n_cases += 1;
        emit_case(name, &format!("(CGen \"{}\"%string {} {} {})", name, v.tov(), coq_bytes(&b), coq_bool(ok)));
    }
    fn iso(&mut self, kind: &str, era: &str, name: &str, orig: &[u8], re: Result<Vec<u8>, String>) {
        self.checked += 1;
        match re {
            Ok(b) if b == orig => {}
            Ok(b) => { let i = b.iter().zip(orig.iter()).position(|(x, y)| x != y).unwrap_or(b.len().min(orig.len()));
                self.fail(&format!("iso/{}/{}/{}", kind, era, diff_class(orig, &b, i)), format!("{}: re-encoded bytes differ at offset {} (len {} vs {}); original around: {} re-encoded: {}", name, i, orig.len(), b.len(),
                    hex(&orig[i.saturating_sub(8)..(i + 24).min(orig.len())]), hex(&b[i.saturating_sub(8)..(i + 24).min(b.len())]))); }
            Err(e) => self.fail(&format!("iso/{}/{}", kind, era), format!("{}: {}", name, e)),
        }
    }
}

/// What was lost at the first differing offset, and where (independent parser): the key of a
/// known finding must not cover a different loss or a different place.
fn diff_class(orig: &[u8], re: &[u8], i: usize) -> String {
    let what = match (orig.get(i), re.get(i)) {
        (Some(0x9f), Some(r)) if r >> 5 == 4 => "indef-array",
        (Some(0xbf), Some(r)) if r >> 5 == 5 => "indef-map",
        (Some(0x5f), _) | (Some(0x7f), _) => "indef-string",
        (Some(o), Some(r)) if o >> 5 == r >> 5 && (o & 31) >= 24 && (o & 31) <= 27 => "non-minimal-head",
        (Some(o), Some(r)) if o >> 5 == 6 || r >> 5 == 6 => "tag",
        _ => "other",
    };
    // path of the node that starts at (or encloses) offset i, first three levels
    let mut path = vec![];
    if let Ok(mut node) = cbor_tree::parse(orig) {
        'outer: loop {
            if node.start == i || path.len() >= 3 { break; }
            let kids: Vec<cbor_tree::Item> = match &node.kind {
                cbor_tree::Kind::Array(_, xs) => xs.clone(),
                cbor_tree::Kind::Map(_, xs) => xs.iter().flat_map(|(k, v)| [k.clone(), v.clone()]).collect(),
                cbor_tree::Kind::Tag(_, _, x) => vec![(**x).clone()],
                _ => vec![],
            };
            for (k, c) in kids.into_iter().enumerate() { if c.start <= i && i < c.end { path.push(k.to_string()); node = c; continue 'outer; } }
            break;
        }
    }
    format!("{}@{}", what, path.join("."))
}

fn reencode_block(b: &[u8]) -> (String, Result<Vec<u8>, String>) {
    macro_rules! go { ($t:ty, $n:expr) => { ($n.to_string(), minicbor::decode::<(u16, $t)>(b).map_err(|e| format!("decode: {}", e)).and_then(|x| minicbor::to_vec(&x).map_err(|e| format!("encode: {}", e)))) }; }
    match probe::block_era(b) {
        probe::Outcome::EpochBoundary => go!(byron::EbBlock, "ebb"),
        probe::Outcome::Matched(Era::Byron) => go!(byron::Block, "byron"),
        probe::Outcome::Matched(Era::Shelley) => go!(alonzo::Block, "shelley"), probe::Outcome::Matched(Era::Allegra) => go!(alonzo::Block, "allegra"),
        probe::Outcome::Matched(Era::Mary) => go!(alonzo::Block, "mary"), probe::Outcome::Matched(Era::Alonzo) => go!(alonzo::Block, "alonzo"),
        probe::Outcome::Matched(Era::Babbage) => go!(babbage::Block, "babbage"), probe::Outcome::Matched(Era::Conway) => go!(conway::Block, "conway"),
        _ => ("unknown".into(), Err("probe inconclusive".into())),
    }
}

fn main() {
    let args = args();
    let mut rng = Rng::new(args.seed);
    let thorough = args.tier == "thorough";
    let repo = std::env::var("VERIF_REPO").unwrap_or("/repo".to_string());
    let dir = format!("{}/test_data", repo);
    let mut ctx = Ctx { oracle_only: args.oracle_only, n_cases: 0, budget: args.n, fails: 0, checked: 0 };

    // ---------------- ORACLE 1: byte isomorphism on chain data
    let mut names: Vec<String> = std::fs::read_dir(&dir).expect("test_data").filter_map(|e| e.ok()).map(|e| e.file_name().to_string_lossy().to_string())
        .filter(|n| n.ends_with(".block") || n.ends_with(".tx")).collect();
    names.sort();
    let (mut nblocks, mut ntx, mut nskip) = (0u64, 0u64, 0u64);
    for n in &names {
        let Ok(s) = std::fs::read_to_string(format!("{}/{}", dir, n)) else { continue };
        let Ok(bytes) = hex::decode(s.trim()) else { continue };
        if n.ends_with(".block") {
            if n == "conway8.block" { nskip += 1; continue; }   // decodes only with the `relaxed` feature of pallas-primitives
            let (era, re) = guard_total(|| reencode_block(&bytes)).ok_or(("panic".into(), Err("panic".into())));
            ctx.iso("block", &era, n, &bytes, re); nblocks += 1;
            // each tx of the block, as pallas re-assembles it: decode(encode(tx)) re-encodes to the same bytes
            if let Ok(blk) = MultiEraBlock::decode(&bytes) {
                for (i, tx) in blk.txs().iter().enumerate() {
                    if !thorough && i >= 8 { break; }
                    let e1 = tx.encode();
                    let re = MultiEraTx::decode_for_era(tx.era(), &e1).map(|t| t.encode()).map_err(|e| format!("decode: {}", e));
                    ctx.iso("block-tx", &format!("{:?}", tx.era()).to_lowercase(), &format!("{}#tx{}", n, i), &e1, re); ntx += 1;
                }
            }
        } else {
            let mut done = false;
            for era in [Era::Conway, Era::Babbage, Era::Alonzo, Era::Byron] {
                if let Ok(tx) = MultiEraTx::decode_for_era(era, &bytes) {
                    ctx.iso("tx", &format!("{:?}", era).to_lowercase(), n, &bytes, Ok(tx.encode())); ntx += 1; done = true; break;
                }
            }
            if !done { emit_sample(&format!("tx file not decodable in any era: {}", n)); nskip += 1; }
        }
    }
    // auxiliary data of the real blocks and txs, re-framed: every map / array of the metadata toggled between the
    // definite and the indefinite form (one node at a time, and all maps at once). The re-framed bytes must still
    // decode, to the same metadata up to framing, re-encoding must be a fixpoint, and a tx carrying them must
    // decode and re-encode to the same bytes.
    let mut naux = 0u64;
    for n in &names {
        let Ok(sx) = std::fs::read_to_string(format!("{}/{}", dir, n)) else { continue };
        let Ok(bytes) = hex::decode(sx.trim()) else { continue };
        let Ok(root) = cbor_tree::parse(&bytes) else { continue };
        let mut auxes: Vec<(Vec<u8>, Option<(Vec<u8>, Vec<u8>, Era)>)> = vec![];
        if n.ends_with(".block") {
            let era = match root.at(0).and_then(|x| x.as_uint()) { Some(2) => Era::Shelley, Some(3) => Era::Allegra, Some(4) => Era::Mary, Some(5) => Era::Alonzo, Some(6) => Era::Babbage, Some(7) => Era::Conway, _ => continue };
            let Some(inner) = root.at(1) else { continue };
            let Some(entries) = inner.at(3).and_then(|m| m.entries()) else { continue };
            for (k, v) in entries.iter().take(if thorough { 50 } else { 4 }) {
                let Some(i) = k.as_uint() else { continue };
                let ctxt = match (inner.at(1).and_then(|x| x.at(i as usize)), inner.at(2).and_then(|x| x.at(i as usize))) { (Some(b), Some(w)) => Some((b.span(&bytes).to_vec(), w.span(&bytes).to_vec(), era)), _ => None };
                auxes.push((v.span(&bytes).to_vec(), ctxt));
            }
        } else if let Some(a) = root.at(3) { if a.entries().is_some() || a.elems().is_some() || matches!(a.kind, cbor_tree::Kind::Tag(..)) { auxes.push((a.span(&bytes).to_vec(), None)); } }
        for (aux, ctxt) in auxes {
            let Ok(v0) = minicbor::decode::<alonzo::AuxiliaryData>(&aux) else { continue };
            let Ok(aroot) = cbor_tree::parse(&aux) else { continue };
            let mut mutants = cbor_tree::single_toggles(&aroot, if thorough { 60 } else { 12 });
            let mut all = aroot.clone();
            let total = all.count();
            for k in 0..total { let mut kk = k; if let Some(node) = all.nth_mut(&mut kk) { if let cbor_tree::Kind::Map(w, xs) = &mut node.kind { if !xs.is_empty() || true { *w = None; } } } }
            mutants.push(all.to_vec());
            for m in mutants {
                if m == aux { continue; }
                naux += 1; ctx.checked += 1;
                let r = guard(|| minicbor::decode::<alonzo::AuxiliaryData>(&m).map_err(|e| e.to_string()));
                match r {
                    Out::Ok(v1) => {
                        if norm_aux(&v1) != norm_aux(&v0) { ctx.fail("reframe/AuxiliaryData/meaning", format!("{}: original={} reframed={} decode to different metadata", n, hex(&aux), hex(&m))); }
                        match minicbor::to_vec(&v1).ok().and_then(|e| minicbor::decode::<alonzo::AuxiliaryData>(&e).ok().map(|v2| (e, v2))) {
                            Some((_, v2)) if v2 == v1 => {}
                            _ => ctx.fail("reframe/AuxiliaryData/fixpoint", format!("{}: reframed={} does not survive encode/decode", n, hex(&m))),
                        }
                    }
                    Out::Err(e) => ctx.fail("reframe/AuxiliaryData/decode", format!("{}: original={} decodes, its re-framing {} does not: {}", n, hex(&aux), hex(&m), e)),
                    Out::Panic(p) => ctx.fail("reframe/AuxiliaryData/decode", format!("{}: re-framing {} panics: {}", n, hex(&m), p)),
                }
                if let Some((body, wits, era)) = &ctxt {
                    let mut tx = vec![0x84u8]; tx.extend_from_slice(body); tx.extend_from_slice(wits); tx.push(0xf5); tx.extend_from_slice(&m);
                    let re = guard(|| MultiEraTx::decode_for_era(*era, &tx).map(|t| t.encode()).map_err(|e| format!("decode: {}", e)));
                    let re = match re { Out::Ok(v) => Ok(v), Out::Err(e) => Err(e), Out::Panic(p) => Err(format!("panic: {}", p)) };
                    ctx.iso("tx-reframed-aux", &format!("{:?}", era).to_lowercase(), n, &tx, re);
                }
            }
        }
    }
    emit_stat("reframed_aux_inputs", naux);
    // immutable chunks
    let mut nchunk = 0u64;
    match pallas_hardano::storage::immutable::read_blocks(std::path::Path::new(&dir)) {
        Ok(it) => for (i, blk) in it.enumerate() {
            let Ok(bytes) = blk else { ctx.fail("iso/chunk/read", format!("block #{} unreadable", i)); continue };
            if !thorough && i % 4 != (args.seed % 4) as usize && i > 40 { continue; }   // quick: a quarter of the chunk blocks (plus the first 40)
            let (era, re) = guard_total(|| reencode_block(&bytes)).ok_or(("panic".into(), Err("panic".into())));
            ctx.iso("chunk-block", &era, &format!("chunk block #{}", i), &bytes, re); nchunk += 1;
        },
        Err(e) => ctx.fail("iso/chunk/read", format!("cannot open chunks: {:?}", e)),
    }
    emit_stat("iso_blocks", nblocks); emit_stat("iso_txs", ntx); emit_stat("iso_chunk_blocks", nchunk); emit_stat("iso_skipped", nskip);

    // ---------------- ORACLE 2 + CASES: value round trips
    let reps = if thorough { 40 } else { 4 };
    // values of the types whose schema is GENERATED from the source (name = module::Type), and of the test types
    let per = (args.n / 40).max(3);
    let opt = |rng: &mut Rng| rng.bool();
    for round in 0..per {
        let _ = round;
        ctx.go("core::ExUnits", &ExUnits { mem: rng.edge_u64(), steps: rng.edge_u64() });
        ctx.go("core::TransactionInput", &pallas_primitives::TransactionInput { transaction_id: h32(&mut rng), index: rng.edge_u64() });
        let (n1, n2) = (*rng.pick(&[0usize, 1, 23, 24, 32, 64, 255, 256, 300]), rng.below(70) as usize);
        ctx.go("alonzo::VKeyWitness", &alonzo::VKeyWitness { vkey: bytes_n(&mut rng, n1), signature: bytes_n(&mut rng, n2) });
        ctx.go("alonzo::BootstrapWitness", &alonzo::BootstrapWitness { public_key: bytes_n(&mut rng, 32), signature: bytes_n(&mut rng, 64), chain_code: bytes_n(&mut rng, 32), attributes: bytes_n(&mut rng, n2 % 5) });
        ctx.go("core::PoolMetadata", &pallas_primitives::PoolMetadata { url: text(&mut rng), hash: bytes_n(&mut rng, 32) });
        ctx.go("core::Nonce", &pallas_primitives::Nonce { variant: if rng.bool() { pallas_primitives::NonceVariant::Nonce } else { pallas_primitives::NonceVariant::NeutralNonce }, hash: if opt(&mut rng) { Some(h32(&mut rng)) } else { None } });
        ctx.go("core::VrfCert", &pallas_primitives::VrfCert(bytes_n(&mut rng, 64), bytes_n(&mut rng, 80)));
        ctx.go("core::NetworkId", &(if rng.bool() { pallas_primitives::NetworkId::Mainnet } else { pallas_primitives::NetworkId::Testnet }));
        ctx.go("core::StakeCredential", &cred(&mut rng));
        ctx.go("babbage::OperationalCert", &babbage::OperationalCert { operational_cert_hot_vkey: bytes_n(&mut rng, 32), operational_cert_sequence_number: rng.edge_u64(), operational_cert_kes_period: rng.edge_u64(), operational_cert_sigma: bytes_n(&mut rng, 64) });
        let cm = |rng: &mut Rng| -> Option<Vec<i64>> { if rng.bool() { Some((0..rng.below(5)).map(|_| (rng.next() as i64) >> rng.below(64)).collect()) } else { None } };
        ctx.go("babbage::CostModels", &babbage::CostModels { plutus_v1: cm(&mut rng), plutus_v2: cm(&mut rng) });
        let tags = [conway::RedeemerTag::Spend, conway::RedeemerTag::Mint, conway::RedeemerTag::Cert, conway::RedeemerTag::Reward, conway::RedeemerTag::Vote, conway::RedeemerTag::Propose];
        let ti = rng.below(6) as usize;
        ctx.go("conway::RedeemerTag", &tags[ti]);
        ctx.go("conway::RedeemersKey", &conway::RedeemersKey { tag: tags[ti], index: rng.edge_u64() as u32 });
        let pd = alonzo::PlutusData::Array(pallas_codec::utils::MaybeIndefArray::Def((0..rng.below(3)).map(|_| alonzo::PlutusData::BoundedBytes(rng.bytes(3).into())).collect()));
        ctx.go("conway::Redeemer", &conway::Redeemer { tag: tags[ti], index: rng.edge_u64() as u32, data: pd.clone(), ex_units: ExUnits { mem: rng.edge_u64(), steps: rng.edge_u64() } });
        let atags = [alonzo::RedeemerTag::Spend, alonzo::RedeemerTag::Mint, alonzo::RedeemerTag::Cert, alonzo::RedeemerTag::Reward];
        ctx.go("alonzo::Redeemer", &alonzo::Redeemer { tag: atags[ti % 4], index: rng.edge_u64() as u32, data: pd, ex_units: ExUnits { mem: rng.edge_u64(), steps: rng.edge_u64() } });
        ctx.go("alonzo::RedeemerPointer", &alonzo::RedeemerPointer { tag: atags[ti % 4], index: rng.edge_u64() as u32 });
        let langs = [conway::Language::PlutusV1, conway::Language::PlutusV2, conway::Language::PlutusV3];
        ctx.go("conway::Language", &langs[rng.below(3) as usize]);
        ctx.go("conway::DRep", &drep(&mut rng));
        let voter = match rng.below(5) { 0 => conway::Voter::ConstitutionalCommitteeKey(h28(&mut rng)), 1 => conway::Voter::ConstitutionalCommitteeScript(h28(&mut rng)), 2 => conway::Voter::DRepKey(h28(&mut rng)), 3 => conway::Voter::DRepScript(h28(&mut rng)), _ => conway::Voter::StakePoolKey(h28(&mut rng)) };
        ctx.go("conway::Voter", &voter);
        ctx.go("conway::Anchor", &anchor(&mut rng));
        ctx.go("conway::GovActionId", &conway::GovActionId { transaction_id: h32(&mut rng), action_index: rng.edge_u64() as u32 });
        ctx.go("conway::Constitution", &conway::Constitution { anchor: anchor(&mut rng), guardrail_script: if opt(&mut rng) { Some(h28(&mut rng)) } else { None } });
        let votes = [conway::Vote::No, conway::Vote::Yes, conway::Vote::Abstain];
        ctx.go("conway::VotingProcedure", &conway::VotingProcedure { vote: votes[rng.below(3) as usize].clone(), anchor: if opt(&mut rng) { Some(anchor(&mut rng)) } else { None } });
        ctx.go("conway::ExUnitPrices", &conway::ExUnitPrices { mem_price: rational(&mut rng), step_price: rational(&mut rng) });
        ctx.go("conway::ProtocolParamUpdate", &ppu(&mut rng));
        let mut upd = BTreeMap::new(); if rng.bool() { upd.insert(bytes_n(&mut rng, 28), ppu(&mut rng)); }
        ctx.go("conway::Update", &conway::Update { proposed_protocol_parameter_updates: upd, epoch: rng.edge_u64() });
        let k = *rng.pick(&[0u64, 1, 2, 3, 4, 7, 8, 9, 10, 11, 12, 13, 14, 15, 16, 17, 18]);
        ctx.go("conway::Certificate", &certificate(&mut rng, k));
        let k = rng.below(7);
        let ga = gov_action(&mut rng, k);
        ctx.go("conway::GovAction", &ga);
        ctx.go("conway::ProposalProcedure", &conway::ProposalProcedure { deposit: rng.edge_u64(), reward_account: bytes_n(&mut rng, 29), gov_action: ga, anchor: anchor(&mut rng) });
        // derive test structs: optional fields in every combination
        let mk_ot = |rng: &mut Rng| OptTail { a: rng.edge_u64(), b: if rng.bool() { Some(rng.edge_u64() as u32) } else { None }, c: if rng.bool() { let n = rng.below(30) as usize; Some(Bytes::from(rng.bytes(n))) } else { None },
            d: if rng.bool() { Some(rng.bool()) } else { None }, e: if rng.bool() { Some((0..rng.below(4)).map(|_| rng.edge_u64() as u16).collect()) } else { None } };
        ctx.go("test::OptTail", &mk_ot(&mut rng));
        let mk_fo = |rng: &mut Rng| match rng.below(3) { 0 => FlatOpt::A(rng.next() as u8, if rng.bool() { Some(rng.next() as i64 >> rng.below(64)) } else { None }), 1 => FlatOpt::B,
            _ => FlatOpt::C(if rng.bool() { Some(rng.edge_u64()) } else { None }, if rng.bool() { Some(rng.bool()) } else { None }) };
        ctx.go("test::FlatOpt", &mk_fo(&mut rng));
        ctx.go("test::Nested", &Nested { x: (0..rng.below(3)).map(|_| mk_ot(&mut rng)).collect(), y: if rng.bool() { Some(mk_fo(&mut rng)) } else { None } });
        ctx.go("test::MapOpt", &MapOpt { a: rng.edge_u64(), b: if rng.bool() { Some(rng.edge_u64() as u32) } else { None }, c: if rng.bool() { let n = rng.below(30) as usize; Some(Bytes::from(rng.bytes(n))) } else { None },
            d: (0..rng.below(4)).map(|_| rng.edge_u64() as u16).collect(), e: if rng.bool() { Some(rng.bool()) } else { None } });
    }
    // oracle only: the long tail of era values
    for k in 0..=18u64 { if k == 5 || k == 6 { continue; } for _ in 0..reps { let v = certificate(&mut rng, k); ctx.roundtrip(&format!("conway::Certificate/{}", k), &v); } }
    for k in 0..=6u64 { for _ in 0..reps { let v = gov_action(&mut rng, k); ctx.roundtrip(&format!("conway::GovAction/{}", k), &v); } }
    for _ in 0..reps * 6 { let v = relay(&mut rng); ctx.roundtrip("Relay", &v); }
    for _ in 0..reps * 10 { let v = Metadatum::Int(big_int(&mut rng)); ctx.roundtrip("Metadatum/Int", &v); }
    for _ in 0..reps * 10 { let v = metadatum(&mut rng, 3); ctx.roundtrip("Metadatum/nested", &v); }
    for _ in 0..reps * 4 {
        // an indefinite map inside an array inside an indefinite map: every KeyValuePairs form at depth >= 2
        let inner = Metadatum::Map(KeyValuePairs::Indef(vec![(Metadatum::Text(text(&mut rng)), metadatum(&mut rng, 1))]));
        let v = Metadatum::Map(KeyValuePairs::Indef(vec![(Metadatum::Int(big_int(&mut rng)), Metadatum::Array(vec![inner.clone(), Metadatum::Map(KeyValuePairs::Def(vec![(inner.clone(), inner)]))]))]));
        ctx.roundtrip("Metadatum/indef-maps", &v);
        let mut md = BTreeMap::new(); md.insert(rng.edge_u64(), v);
        ctx.roundtrip("AuxiliaryData/indef-maps", &alonzo::AuxiliaryData::Shelley(md));
    }
    for _ in 0..reps * 10 { let v = pdata(&mut rng, 3); ctx.roundtrip("PlutusData", &v); }
    for _ in 0..reps * 2 {
        let v = alonzo::Redeemer { tag: alonzo::RedeemerTag::Spend, index: 1, data: pdata(&mut rng, 2), ex_units: ExUnits { mem: 1, steps: 2 } }; ctx.roundtrip("alonzo::Redeemer/indef-data", &v);
    }
    for _ in 0..reps * 3 {
        let md: BTreeMap<u64, Metadatum> = (0..rng.below(4)).map(|_| (rng.edge_u64(), metadatum(&mut rng, 2))).collect();
        let v = alonzo::AuxiliaryData::Shelley(md.clone()); ctx.roundtrip("AuxiliaryData/Shelley", &v);
        let v = alonzo::AuxiliaryData::ShelleyMa(alonzo::ShelleyMaAuxiliaryData { transaction_metadata: md.clone(), auxiliary_scripts: if rng.bool() { Some(vec![alonzo::NativeScript::InvalidBefore(rng.edge_u64())]) } else { None } });
        ctx.roundtrip("AuxiliaryData/ShelleyMa", &v);
        let v = alonzo::AuxiliaryData::PostAlonzo(alonzo::PostAlonzoAuxiliaryData { metadata: if rng.bool() { Some(md) } else { None }, native_scripts: None, plutus_scripts: None });
        ctx.roundtrip("AuxiliaryData/PostAlonzo", &v);
        let v = rational(&mut rng); ctx.roundtrip("RationalNumber", &v);
        let v = anchor(&mut rng); ctx.roundtrip("Anchor", &v);
        let v = conway::Voter::DRepKey(h28(&mut rng)); ctx.roundtrip("Voter", &v);
        let v = pallas_primitives::TransactionInput { transaction_id: h32(&mut rng), index: rng.edge_u64() }; ctx.roundtrip("TransactionInput", &v);
        let v: Nullable<u64> = match rng.below(3) { 0 => Nullable::Null, 1 => Nullable::Undefined, _ => Nullable::Some(rng.edge_u64()) }; ctx.roundtrip("Nullable", &v);
        let v = alonzo::Value::Coin(rng.edge_u64()); ctx.roundtrip("alonzo::Value/coin", &v);
        let v = ppu(&mut rng); ctx.roundtrip("conway::ProtocolParamUpdate", &v);
        // conway CostModels: derive(Encode) with #[cbor(skip)] unknown + hand-written Decode that fills `unknown`
        let cmv = |rng: &mut Rng| -> Vec<i64> { (0..rng.below(4)).map(|_| (rng.next() as i64) >> rng.below(64)).collect() };
        let v = conway::CostModels { plutus_v1: if rng.bool() { Some(cmv(&mut rng)) } else { None }, plutus_v2: None, plutus_v3: if rng.bool() { Some(cmv(&mut rng)) } else { None }, unknown: BTreeMap::new() };
        ctx.roundtrip("conway::CostModels", &v);
        let mut unk = BTreeMap::new(); unk.insert(3 + rng.below(5), cmv(&mut rng));
        let v = conway::CostModels { plutus_v1: None, plutus_v2: Some(cmv(&mut rng)), plutus_v3: None, unknown: unk };
        ctx.roundtrip("conway::CostModels/unknown-language", &v);
        let v = conway::Constitution { anchor: anchor(&mut rng), guardrail_script: if rng.bool() { Some(h28(&mut rng)) } else { None } }; ctx.roundtrip("Constitution", &v);
    }
    emit_stat("oracle_checks", ctx.checked);
    emit_stat("schema_cases", ctx.n_cases as u64);
}

trait OkOr<T> { fn ok_or(self, d: T) -> T; }
impl<T> OkOr<T> for Out<T> { fn ok_or(self, d: T) -> T { match self { Out::Ok(v) => v, _ => d } } }
