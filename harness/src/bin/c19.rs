//! C19: Byron addresses round-trip; addresses whose CRC32 does not match are rejected.
//! Cases are terms of `C19.Run.case` (coq/theories/C19/Run.v).
use pallas_addresses::byron::{
    AddrAttrProperty, AddrAttrs, AddrDistr, AddrType, AddressPayload, ByronAddress, SpendingData,
};
use pallas_addresses::{Address, Error};
use std::str::FromStr;
use verif_harness::*;

const VECTORS: [&str; 3] = [
    "37btjrVyb4KDXBNC4haBVPCrro8AQPHwvCMp3RFhhSVWwfFmZ6wwzSK6JK1hY6wHNmtrpTf1kdbva8TCneM2YsiXT7mrzT21EacHnPpz5YyUdj64na",
    "DdzFFzCqrht7PQiAhzrn6rNNoADJieTWBt8KeK9BZdUsGyX9ooYD9NpMCTGjQoUKcHN47g8JMXhvKogsGpQHtiQ65fZwiypjrC6d3a4Q",
    "Ae2tdPwUPEZLs4HtbuNey7tK4hTKrwNwYtGqp7bDfCy2WdR3P6735W5Yfpe",
];

/// the same three vectors as raw bytes: [82, d8 18, 58 LL, payload(LL), 1a, crc(4)]
const VECTOR_HEX: [&str; 3] = [
    "82d818584983581c7e9ee4a9527dea9091e2d580edd6716888c42f75d96276290f98fe0ba201581e581c0cdf39b531d1ac0963cbd183f63e43d895d16a9c567c95e1056e28bd02451a4170cb17001a53249b67",
    "82d818584283581cd30392160a29d76ebc0a7e14fef145dde2ae2c983aaf5f632b67b815a101581e581cca3e553c9c63c534b988a9437ca105640410935a4e7380ca959381f0001a951a4859",
    "82d818582183581cf11939f42338d59e21baa08645ac1f0038d5ee969f99fe98f402fe79a0001ac9d64e5b",
];

/// reference CRC-32/ISO-HDLC, independent of both the `crc` crate and the Coq model
fn crc32(bs: &[u8]) -> u32 {
    let mut c = 0xffff_ffffu32;
    for &b in bs {
        c ^= b as u32;
        for _ in 0..8 { c = if c & 1 == 1 { (c >> 1) ^ 0xEDB8_8320 } else { c >> 1 }; }
    }
    !c
}
/// reference base58 (bitcoin alphabet) encoder
fn b58(bs: &[u8]) -> String {
    const A: &[u8] = b"123456789ABCDEFGHJKLMNPQRSTUVWXYZabcdefghijkmnopqrstuvwxyz";
    let z = bs.iter().take_while(|x| **x == 0).count();
    let mut digits: Vec<u8> = vec![];
    for &b in &bs[z..] {
        let mut carry = b as u32;
        for d in digits.iter_mut() { carry += (*d as u32) << 8; *d = (carry % 58) as u8; carry /= 58; }
        while carry > 0 { digits.push((carry % 58) as u8); carry /= 58; }
    }
    let mut s = "1".repeat(z);
    for d in digits.iter().rev() { s.push(A[*d as usize] as char); }
    s
}
fn err_class(e: &Error) -> i64 {
    match e {
        Error::MissingHeader => 1,
        Error::InvalidHeader(_) => 2,
        Error::InvalidAddressLength(_) => 3,
        Error::InvalidHashSize(_) => 4,
        Error::VarUintError(_) => 5,
        Error::InvalidByronCbor(_) => 7,
        Error::BadHex => 8,
        Error::BadBech32(_) => 9,
        Error::UnknownNetworkHrp(_) => 10,
        Error::InvalidForByron => 11,
        Error::UnknownStringFormat(_) => 12,
        Error::BadBase58(_) => 13,
        Error::InvalidForContent => 14,
        Error::InvalidPointerData => 15,
    }
}
fn cbor_uint(major: u8, n: u64, width: u8) -> Vec<u8> {
    // width: 0 = minimal, 1/2/4/8 = forced argument bytes
    let m = major << 5;
    let w = if width == 0 { if n < 24 { 0 } else if n < 256 { 1 } else if n < 65536 { 2 } else if n < (1 << 32) { 4 } else { 8 } } else { width };
    match w {
        0 => vec![m | n as u8],
        1 => vec![m | 24, n as u8],
        2 => { let mut v = vec![m | 25]; v.extend((n as u16).to_be_bytes()); v }
        4 => { let mut v = vec![m | 26]; v.extend((n as u32).to_be_bytes()); v }
        _ => { let mut v = vec![m | 27]; v.extend(n.to_be_bytes()); v }
    }
}

type Byr = Out<ByronAddress>;
fn by_from_bytes(bs: &[u8]) -> Byr { guard(|| ByronAddress::from_bytes(bs).map_err(|e| err_class(&e).to_string())) }
fn by_from_b58(s: &str) -> Byr { guard(|| ByronAddress::from_base58(s).map_err(|e| err_class(&e).to_string())) }
fn as_byron(o: Out<Address>) -> Byr {
    match o {
        Out::Ok(Address::Byron(b)) => Out::Ok(b),
        Out::Ok(_) => Out::Err("-1".into()),
        Out::Err(e) => Out::Err(e),
        Out::Panic(p) => Out::Panic(p),
    }
}
fn ad_from_bytes(bs: &[u8]) -> Out<Address> { guard(|| Address::from_bytes(bs).map_err(|e| err_class(&e).to_string())) }
fn ad_from_hex(s: &str) -> Out<Address> { guard(|| Address::from_hex(s).map_err(|e| err_class(&e).to_string())) }
fn ad_from_str(s: &str) -> Out<Address> { guard(|| Address::from_str(s).map_err(|e| err_class(&e).to_string())) }

fn coq_byr(o: &Byr) -> String {
    match o {
        Out::Ok(a) => format!("(Ok ({},{}))", coq_bytes(a.payload.as_ref()), a.crc),
        Out::Err(c) => format!("(Err {})", coq_z(c)),
        Out::Panic(m) => if m.contains("subtract with overflow") { "(Panic 2)".into() } else { "(Panic 1)".into() },
    }
}
fn show(o: &Byr) -> String {
    match o {
        Out::Ok(a) => format!("Ok(payload={} crc={:#010x})", hex(a.payload.as_ref()), a.crc),
        Out::Err(c) => format!("Err(class {})", c),
        Out::Panic(m) => format!("PANIC({})", m),
    }
}
fn is(o: &Byr, a: &ByronAddress) -> bool { matches!(o, Out::Ok(b) if b == a) }

/// "corrupted addresses are rejected", in the form that applies to ANY input:
/// a parser must never hand out a Byron address whose checksum does not match its payload.
fn oracle_no_bad_crc(site: &str, o: &Byr, input: &str) {
    if let Out::Ok(a) = o {
        let want = crc32(a.payload.as_ref());
        if want != a.crc {
            emit_oracle_fail(&format!("bad-crc-accepted/{}", site),
                &format!("{}({}) = Ok with crc {:#010x} but CRC32(payload) = {:#010x}; expected an error", site, input, a.crc, want));
        }
    }
}

struct Ctx { oo: bool, thorough: bool }

/// run every parsing entry point on raw bytes; tie cases + generic oracle.
/// `must_reject`: the bytes are a well-formed Byron address encoding whose checksum is wrong.
fn parse_all(cx: &Ctx, bs: &[u8], tag: &str, must_reject: bool, b58_too: bool) {
    let hx = hex(bs);
    let r = by_from_bytes(bs);
    oracle_no_bad_crc("ByronAddress::from_bytes", &r, &format!("bytes={}", hx));
    if must_reject && matches!(r, Out::Ok(_)) { /* reported above */ }
    if let Out::Panic(m) = &r { emit_oracle_fail("panic/ByronAddress::from_bytes", &format!("bytes={} panicked: {}", hx, m)); }
    if !cx.oo { emit_case(tag, &format!("(CDec {} {})", coq_bytes(bs), coq_byr(&r))); }
    if !bs.is_empty() && bs[0] & 0xf0 == 0x80 {
        let ra = as_byron(ad_from_bytes(bs));
        oracle_no_bad_crc("Address::from_bytes", &ra, &format!("bytes={}", hx));
        if !cx.oo { emit_case(&format!("{}/Address", tag), &format!("(CAddr {} {})", coq_bytes(bs), coq_byr(&ra))); }
        let rh = as_byron(ad_from_hex(&hx));
        oracle_no_bad_crc("Address::from_hex", &rh, &format!("hex={}", hx));
        if std::mem::discriminant(&ra) != std::mem::discriminant(&rh) {
            emit_oracle_fail("hex-vs-bytes", &format!("bytes={} Address::from_bytes={} Address::from_hex={}", hx, show(&ra), show(&rh)));
        }
    }
    if b58_too && bs.len() <= 132 && bs.first() != Some(&0) {
        let s = b58(bs);
        let rb = by_from_b58(&s);
        oracle_no_bad_crc("ByronAddress::from_base58", &rb, &format!("base58={} bytes={}", s, hx));
        if !cx.oo { emit_case(&format!("{}/base58", tag), &format!("(CB58 {} {})", coq_bytes(bs), coq_byr(&rb))); }
        let rs = as_byron(ad_from_str(&s));
        oracle_no_bad_crc("Address::from_str", &rs, &format!("base58={} bytes={}", s, hx));
    }
}

fn payload(rng: &mut Rng) -> AddressPayload {
    let addrtype = match rng.below(5) { 0 => AddrType::PubKey, 1 => AddrType::Script, 2 => AddrType::Redeem,
        3 => AddrType::Other(rng.range(3, 30) as u32), _ => AddrType::Other(rng.edge_u64() as u32 | 4) };
    let mut attrs: Vec<AddrAttrProperty> = vec![];
    let mut kinds = vec![0u8, 1, 2];
    // random subset in random order (OrderPreservingProperties keeps the order)
    for _ in 0..rng.below(4) {
        if kinds.is_empty() { break; }
        let k = kinds.remove(rng.below(kinds.len() as u64) as usize);
        attrs.push(match k {
            0 => AddrAttrProperty::AddrDistr(if rng.bool() { AddrDistr::BootstrapEraDistribution } else {
                let mut h = [0u8; 28]; for x in h.iter_mut() { *x = rng.byte(); } AddrDistr::SingleKeyDistribution(h.into()) }),
            1 => { let n = match rng.below(4) { 0 => 0, 1 => rng.range(1, 23), 2 => rng.range(24, 40), _ => 28 } as usize; AddrAttrProperty::DerivationPath(rng.bytes(n).into()) }
            _ => AddrAttrProperty::NetworkTag(cbor_uint(0, rng.edge_u64() & 0xffff_ffff, 0).into()),
        });
    }
    let attrs: AddrAttrs = attrs.into();
    if rng.chance(1, 3) {
        let kl = if rng.bool() { 32 } else { 64 }; let key = rng.bytes(kl);
        let sd = match addrtype { AddrType::Script => SpendingData::Script(key.into()), AddrType::Redeem => SpendingData::Redeem(key.into()), _ => SpendingData::PubKey(key.into()) };
        AddressPayload::new(addrtype, sd, attrs)
    } else {
        let mut h = [0u8; 28];
        for x in h.iter_mut() { *x = rng.byte(); }
        AddressPayload { root: h.into(), attributes: attrs, addrtype }
    }
}

/// the round-trip half of the property, on one address built from a payload
fn oracle_roundtrip(cx: &Ctx, p: Option<&AddressPayload>, a: &ByronAddress) {
    let vec = a.to_vec();
    let hx = hex(&vec);
    if a.crc != crc32(a.payload.as_ref()) {
        emit_oracle_fail("from_decoded-crc", &format!("payload={} crc={:#010x} reference CRC32={:#010x}", hex(a.payload.as_ref()), a.crc, crc32(a.payload.as_ref())));
    }
    let r = by_from_bytes(&vec);
    if !is(&r, a) { emit_oracle_fail("roundtrip/bytes", &format!("bytes={} from_bytes={}", hx, show(&r))); }
    let ra = ad_from_bytes(&vec);
    if !matches!(&ra, Out::Ok(Address::Byron(b)) if b == a) { emit_oracle_fail("roundtrip/Address::from_bytes", &format!("bytes={} result={}", hx, show(&as_byron(ra)))); }
    let rh = ad_from_hex(&a.to_hex());
    if !matches!(&rh, Out::Ok(Address::Byron(b)) if b == a) || a.to_hex() != hx { emit_oracle_fail("roundtrip/hex", &format!("bytes={} to_hex={} result={}", hx, a.to_hex(), show(&as_byron(rh)))); }
    let s = a.to_base58();
    if s != b58(&vec) { emit_oracle_fail("base58-text", &format!("bytes={} to_base58={} reference={}", hx, s, b58(&vec))); }
    let rb = by_from_b58(&s);
    let rs = ad_from_str(&Address::Byron(a.clone()).to_string());
    let key_sfx = if vec.len() > 132 { "-over-132-bytes" } else { "" };
    if !is(&rb, a) { emit_oracle_fail(&format!("roundtrip/base58{}", key_sfx), &format!("bytes={} ({} bytes) base58={} from_base58={}", hx, vec.len(), s, show(&rb))); }
    if !matches!(&rs, Out::Ok(Address::Byron(b)) if b == a) { emit_oracle_fail(&format!("roundtrip/to_string-from_str{}", key_sfx), &format!("bytes={} ({} bytes) string={} from_str={}", hx, vec.len(), s, show(&as_byron(rs)))); }
    if let Some(p) = p {
        let d = guard(|| a.decode().map_err(|e| err_class(&e).to_string()));
        if !matches!(&d, Out::Ok(q) if q == p) { emit_oracle_fail("roundtrip/decode", &format!("bytes={} payload {:?} decoded to {}", hx, p, match d { Out::Ok(q) => format!("{:?}", q), Out::Err(c) => format!("Err({})", c), Out::Panic(m) => format!("PANIC({})", m) })); }
        let again = guard_total(|| ByronAddress::from_decoded(p.clone()));
        if !is(&again, a) { emit_oracle_fail("roundtrip/from_decoded", &format!("bytes={} from_decoded not deterministic", hx)); }
    }
    if !cx.oo {
        emit_case("from_decoded", &format!("(CFromDecoded {} {})", coq_bytes(a.payload.as_ref()), a.crc));
        emit_case("to_vec", &format!("(CEnc {} {} {})", coq_bytes(a.payload.as_ref()), a.crc, coq_bytes(&vec)));
        emit_case("to_base58", &format!("(CB58Enc {} {} {})", coq_bytes(a.payload.as_ref()), a.crc, coq_bytes(s.as_bytes())));
    }
}

/// well-formed encoding of (payload, crc) in a chosen non-canonical shape
fn encode_shaped(rng: &mut Rng, payload: &[u8], crc: u32) -> (Vec<u8>, &'static str) {
    let shape = rng.below(9);
    let mut v = vec![];
    let tagw = |rng: &mut Rng| *rng.pick(&[0u8, 1, 2, 4, 8]);
    match shape {
        0 => { v.push(0x9f); v.extend(cbor_uint(6, 24, 0)); v.extend(cbor_uint(2, payload.len() as u64, 0)); v.extend(payload); v.extend(cbor_uint(0, crc as u64, 0)); v.push(0xff); (v, "shape-indefinite-array") }
        1 => { v.extend(cbor_uint(4, 2, tagw(rng).max(1))); v.extend(cbor_uint(6, 24, 0)); v.extend(cbor_uint(2, payload.len() as u64, 0)); v.extend(payload); v.extend(cbor_uint(0, crc as u64, 0)); (v, "shape-wide-array-head") }
        2 => { v.push(0x82); v.extend(cbor_uint(6, 24, *rng.pick(&[2u8, 4, 8]))); v.extend(cbor_uint(2, payload.len() as u64, 0)); v.extend(payload); v.extend(cbor_uint(0, crc as u64, 0)); (v, "shape-wide-tag-head") }
        3 => { v.push(0x82); v.extend(cbor_uint(6, 24, 0)); v.extend(cbor_uint(2, payload.len() as u64, *rng.pick(&[2u8, 4, 8]))); v.extend(payload); v.extend(cbor_uint(0, crc as u64, 0)); (v, "shape-wide-bytes-head") }
        4 => { v.push(0x82); v.extend(cbor_uint(6, 24, 0)); v.extend(cbor_uint(2, payload.len() as u64, 0)); v.extend(payload); v.extend(cbor_uint(0, crc as u64, 8)); (v, "shape-crc-in-8-bytes") }
        5 => { v.push(0x82); v.extend(cbor_uint(6, rng.edge_u64(), 0)); v.extend(cbor_uint(2, payload.len() as u64, 0)); v.extend(payload); v.extend(cbor_uint(0, crc as u64, 0)); (v, "shape-other-tag-number") }
        6 => { // a third, well-formed element that the decoder skips
            v.push(0x83); v.extend(cbor_uint(6, 24, 0)); v.extend(cbor_uint(2, payload.len() as u64, 0)); v.extend(payload); v.extend(cbor_uint(0, crc as u64, 0));
            match rng.below(4) { 0 => v.push(0x00), 1 => v.extend([0x82, 0x01, 0x41, 0x07]), 2 => v.extend([0x63, b'a', b'b', b'c']), _ => v.extend([0xa1, 0x01, 0xf6]) }
            (v, "shape-extra-element") }
        7 => { v.push(0x82); v.extend(cbor_uint(6, 24, 0)); v.extend(cbor_uint(2, payload.len() as u64, 0)); v.extend(payload); v.extend(cbor_uint(0, crc as u64, 0)); let k = rng.range(1, 4) as usize; v.extend(rng.bytes(k)); (v, "shape-trailing-bytes") }
        _ => { v.push(0x9f); v.extend(cbor_uint(6, 24, 0)); v.extend(cbor_uint(2, payload.len() as u64, 0)); v.extend(payload); v.extend(cbor_uint(0, crc as u64, 0)); v.push(0x01); v.push(0xff); (v, "shape-indefinite-extra-element") }
    }
}

fn corpus(cx: &Ctx) {
    let dir = std::env::var("VERIF_DIR").unwrap_or_else(|_| "/verif".into()) + "/corpus/C19";
    let Ok(rd) = std::fs::read_dir(&dir) else { return };
    let mut files: Vec<_> = rd.filter_map(|e| e.ok()).map(|e| e.path()).collect();
    files.sort();
    for f in files {
        let Ok(txt) = std::fs::read_to_string(&f) else { continue };
        let Ok(j) = serde_json::from_str::<serde_json::Value>(&txt) else { continue };
        let mut whats: Vec<String> = vec![];
        if let Some(w) = j.get("what").and_then(|w| w.as_str()) { whats.push(w.to_string()); }
        if let Some(o) = j.get("others").and_then(|o| o.as_array()) { for w in o { if let Some(s) = w.as_str() { whats.push(s.to_string()); } } }
        for w in whats {
            if let Some(i) = w.find("bytes=") {
                let h: String = w[i + 6..].chars().take_while(|c| c.is_ascii_hexdigit()).collect();
                if let Ok(bs) = ::hex::decode(&h) { parse_all(cx, &bs, "corpus", false, true); }
            }
        }
    }
}

fn main() {
    let args = args();
    // a panic that escapes the guards comes from an unguarded implementation call
    // (to_vec / to_base58 / constructors): report it as an observation, not a tool crash
    if let Out::Panic(m) = guard_total(|| run(args)) {
        emit_oracle_fail("panic/unguarded-call", &format!("an unguarded implementation call panicked: {}", m));
    }
}

fn run(args: Args) {
    let cx = Ctx { oo: args.oracle_only, thorough: args.tier == "thorough" };
    let mut rng = Rng::new(args.seed);

    corpus(&cx);

    // ---- the three vectors of byron.rs: round trip, then EVERY single-bit corruption
    for (vi, v) in VECTORS.iter().enumerate() {
        // layout taken from the constant bytes, so the sweep does not depend on the parser under test
        let vec = ::hex::decode(VECTOR_HEX[vi]).unwrap();
        let plen = vec[4] as usize;
        let pstart = 5;
        let crc_len = 5;
        let crc = u32::from_be_bytes([vec[vec.len() - 4], vec[vec.len() - 3], vec[vec.len() - 2], vec[vec.len() - 1]]);
        let a = ByronAddress::new(&vec[pstart..pstart + plen], crc);
        if b58(&vec) != *v { emit_oracle_fail("harness-base58", &format!("reference base58 of vector {} is {}", vi, b58(&vec))); }
        let parsed = by_from_b58(v);
        if !is(&parsed, &a) { emit_oracle_fail("vector", &format!("vector {} ({}) bytes={} parses to {}", vi, v, hex(&vec), show(&parsed))); }
        if a.to_base58() != *v { emit_oracle_fail("roundtrip/base58", &format!("vector {} re-encodes to {}", v, a.to_base58())); }
        oracle_roundtrip(&cx, None, &a);
        emit_sample(&format!("vector {} = {} (payload bytes {}..{}, crc value bytes {}..{})", vi, hex(&vec), pstart, pstart + plen, vec.len() - crc_len + 1, vec.len()));
        for byte in 0..vec.len() { for bit in 0..8 {
            let mut c = vec.clone();
            c[byte] ^= 1 << bit;
            let in_payload = byte >= pstart && byte < pstart + plen;
            let in_crc = byte > vec.len() - crc_len;
            let tag = if in_payload { "bitflip-payload" } else if in_crc { "bitflip-crc" } else { "bitflip-framing" };
            // base58 path for all flips in thorough, a quarter of them in quick
            let b58_too = cx.thorough || (byte * 8 + bit + args.seed as usize) % 4 == 0;
            if in_payload || in_crc {
                // verdict must change: the corrupted address is rejected by every entry point
                for (site, r) in [("ByronAddress::from_bytes", by_from_bytes(&c)), ("Address::from_bytes", as_byron(ad_from_bytes(&c))),
                                  ("ByronAddress::from_base58", by_from_b58(&b58(&c))), ("Address::from_str", as_byron(ad_from_str(&b58(&c)))),
                                  ("Address::from_hex", as_byron(ad_from_hex(&hex(&c))))] {
                    if let Out::Ok(b) = &r {
                        if crc32(b.payload.as_ref()) == b.crc {
                            emit_oracle_fail(&format!("bitflip-undetected/{}", site), &format!("vector {} byte {} bit {}: bytes={} accepted with a matching checksum", vi, byte, bit, hex(&c)));
                        } // a mismatching one is reported by oracle_no_bad_crc in parse_all
                    }
                }
            }
            parse_all(&cx, &c, tag, in_payload || in_crc, b58_too);
        } }
    }

    // ---- addresses built from structured payloads (all address types, with / without attributes)
    for i in 0..args.n {
        let p = payload(&mut rng);
        let a = match guard_total(|| ByronAddress::from_decoded(p.clone())) { Out::Ok(a) => a, _ => { emit_oracle_fail("from_decoded-panic", &format!("{:?}", p)); continue; } };
        if i < 3 { emit_sample(&format!("{:?} -> {}", p, a.to_base58())); }
        oracle_roundtrip(&cx, Some(&p), &a);
        let vec = a.to_vec();
        parse_all(&cx, &vec, "valid-structured", false, true);
        // same payload, wrong checksum
        let bad_crc = match rng.below(4) { 0 => a.crc ^ 1, 1 => a.crc ^ (1 << rng.below(32)), 2 => a.crc.wrapping_add(1), _ => { let r = rng.next() as u32; if r == a.crc { !r } else { r } } };
        let bad = ByronAddress::new(a.payload.as_ref(), bad_crc);
        parse_all(&cx, &bad.to_vec(), "wrong-crc-structured", true, true);
        // payload corrupted, checksum kept
        let mut pl = a.payload.to_vec();
        let k = rng.below(pl.len() as u64) as usize;
        if rng.bool() { pl[k] ^= 1 << rng.below(8); } else { pl[k] = pl[k].wrapping_add(1 + rng.below(255) as u8); }
        let bad2 = ByronAddress::new(&pl, a.crc);
        parse_all(&cx, &bad2.to_vec(), "corrupt-payload-structured", true, rng.chance(1, 3));
    }
    // large attributes: encoding longer than the 132 bytes the base58 crate can decode
    for n in [60usize, 85, 86, 87, 88, 89, 90, 100, 200] {
        let attrs: AddrAttrs = vec![AddrAttrProperty::DerivationPath(rng.bytes(n).into())].into();
        let p = AddressPayload { root: [7u8; 28].into(), attributes: attrs, addrtype: AddrType::PubKey };
        let a = ByronAddress::from_decoded(p.clone());
        oracle_roundtrip(&cx, Some(&p), &a);
        parse_all(&cx, &a.to_vec(), "valid-large-attributes", false, true);
    }

    // ---- arbitrary payload bytes (not necessarily an AddressPayload), right and wrong checksum
    for _ in 0..(args.n / 2).max(50) {
        let l = match rng.below(5) { 0 => 0, 1 => rng.range(1, 23), 2 => rng.range(24, 60), 3 => rng.range(250, 260), _ => rng.range(0, 110) } as usize;
        let pl = rng.bytes(l);
        let good = crc32(&pl);
        let a = ByronAddress::new(&pl, good);
        oracle_roundtrip(&cx, None, &a);
        parse_all(&cx, &a.to_vec(), "valid-arbitrary-payload", false, true);
        let bad = match rng.below(3) { 0 => good ^ (1 << rng.below(32)), 1 => rng.edge_u64() as u32, _ => rng.next() as u32 };
        if bad != good { parse_all(&cx, &ByronAddress::new(&pl, bad).to_vec(), "wrong-crc-arbitrary-payload", true, rng.chance(1, 2)); }
        // non-canonical but well-formed encodings of the same pair
        let cc = if rng.chance(3, 4) { good } else { bad }; let (v, tag) = encode_shaped(&mut rng, &pl, cc);
        parse_all(&cx, &v, tag, false, false);
    }

    // ---- base58 text through ByronAddress::from_base58: valid, mutated, bad characters, leading '1', too long
    let b58dec = |cx: &Ctx, s: &str, tag: &str| {
        let r = by_from_b58(s);
        oracle_no_bad_crc("ByronAddress::from_base58", &r, &format!("base58={}", s));
        if !cx.oo { emit_case(tag, &format!("(CB58Dec {} {})", coq_bytes(s.as_bytes()), coq_byr(&r))); }
    };
    for v in VECTORS { b58dec(&cx, v, "base58-vector"); }
    for s in ["", "1", "11", "Z", "4k8", "0", "O", "I", "l", "4k 8", "4k8\u{e9}", "3mJr7AoUXx2Wqd"] { b58dec(&cx, s, "base58-fixed"); }
    // more leading '1' than the 132-byte buffer has leading zeros: the crate subtracts with overflow
    for k in [131usize, 132, 133, 140] { b58dec(&cx, &"1".repeat(k), "base58-many-leading-ones"); }
    for k in [1usize, 50, 60] { let s = format!("{}{}", "1".repeat(k), VECTORS[0]); b58dec(&cx, &s, "base58-leading-ones-then-address"); }
    for _ in 0..(args.n / 2).max(50) {
        let p = payload(&mut rng);
        let a = ByronAddress::from_decoded(p);
        let good = a.to_base58();
        let mut m = good.clone().into_bytes();
        let k = rng.below(m.len() as u64) as usize;
        let tag = match rng.below(6) {
            0 => "base58-valid",
            1 => { m[k] = *rng.pick(b"123456789ABCDEFGHJKLMNPQRSTUVWXYZabcdefghijkmnopqrstuvwxyz"); "base58-char-substituted" }
            2 => { m[k] = *rng.pick(&[b'0', b'O', b'I', b'l', b' ', b'+', b'/', 0x7f]); "base58-bad-character" }
            3 => { m.remove(k); "base58-char-removed" }
            4 => { let c = *rng.pick(b"123456789ABCDEFGHJKLMNPQRSTUVWXYZabcdefghijkmnopqrstuvwxyz"); m.insert(k, c); "base58-char-inserted" }
            _ => { let l = rng.range(0, 200) as usize; m = (0..l).map(|_| *rng.pick(b"123456789ABCDEFGHJKLMNPQRSTUVWXYZabcdefghijkmnopqrstuvwxyz")).collect(); "base58-random-text" }
        };
        if let Ok(s) = String::from_utf8(m) { b58dec(&cx, &s, tag); }
    }

    // ---- malformed: truncations, random bytes behind a Byron header, mutated heads
    let base = ::hex::decode(VECTOR_HEX[2]).unwrap();
    for cut in 0..base.len() { parse_all(&cx, &base[..cut], "malformed-truncated", false, false); }
    for _ in 0..(args.n / 4).max(40) {
        let mut v = base.clone();
        match rng.below(4) {
            0 => { let k = rng.below(6) as usize; v[k] = rng.byte(); }
            1 => { let k = rng.below(v.len() as u64) as usize; v.insert(k, rng.byte()); }
            2 => { let k = rng.below(v.len() as u64) as usize; v.remove(k); }
            _ => { let l = rng.range(0, 40) as usize; v = vec![0x80 | rng.below(16) as u8]; v.extend(rng.bytes(l)); }
        }
        parse_all(&cx, &v, "malformed-mutated", false, false);
    }
}
