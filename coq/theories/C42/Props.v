(* C42 — property theorems only.  Statements are pinned by props/C42.json.

   d : db is any list of (chunk name, blocks); [considered d] are the chunk files that
   count as immutable (all but the greatest name, by increasing name), [chain d] their
   concatenation, [wf_db d]: no considered chunk is empty and slots strictly increase
   along the chain. *)
From PV Require Import Lib.Base Immutable.ChunkList Immutable.ChunkListFacts C42.Model C42.Search C42.Proofs.
From Coq Require Import Sorting.Sorted Sorting.Permutation.
Open Scope Z_scope.

(* which chunk files are read, and in which order *)
Theorem chunk_order : forall names,
  pop_order (build_stack names) = removelast (sort_names names) /\
  StronglySorted Z.le (sort_names names) /\ Permutation names (sort_names names).
Proof.
  intros names. split; [apply pop_order_build_stack|]. split; [apply sort_names_sorted | apply sort_names_perm].
Qed.

(* read_blocks yields every block of the immutable chunks once, in chain order *)
Theorem read_all_in_order : forall d,
  read_blocks d = chain d /\ (wf_db d -> increasing (map bslot (read_blocks d))).
Proof.
  intros d. split; [apply read_blocks_chain|]. intros [_ H]. rewrite read_blocks_chain. exact H.
Qed.

(* chunk_binary_search: never panics; on a well-formed stack it finds the first chunk
   (greatest names first) whose first slot is <= the slot, None iff there is none *)
Theorem binary_search_total : forall chunks s,
  match chunk_binary_search chunks s with
  | Ok (Some t) => 0 <= t < Z.of_nat (length chunks)
  | Ok None => True
  | _ => False
  end.
Proof. exact chunk_binary_search_total. Qed.

Theorem binary_search_finds_chunk : forall cs s, wf_chunks cs ->
  match chunk_binary_search (rev cs) s with
  | Ok (Some t) => exists pre c post, rev cs = pre ++ c :: post /\ Z.of_nat (length pre) = t /\
                     chunk_first c <= s /\ Forall (fun c' => s < chunk_first c') pre
  | Ok None => Forall (fun c => s < chunk_first c) cs
  | _ => False
  end.
Proof. exact binary_search_wf. Qed.

(* a point that exists: the suffix starting at that block *)
Theorem exact_point_suffix : forall d pre b post, wf_db d -> chain d = pre ++ b :: post ->
  read_blocks_from_point d (Specific (bslot b) (bhash b)) = Ok (b :: post).
Proof. exact exact_suffix. Qed.

(* an empty hash: the suffix from the first block at or after the slot — for every
   slot at or after the first block of the chain (the complement is the known finding) *)
Theorem fuzzy_point_suffix : forall d s f, wf_db d -> first_slot (chain d) = Some f -> f <= s ->
  read_blocks_from_point d (Specific s EMPTY_HASH) = Ok (suffix_from_slot s (chain d)).
Proof. exact fuzzy_suffix. Qed.

(* KNOWN FINDING (pinned by read_blocks_from_point_test): any point whose slot precedes
   the first block — or any point on an empty chain — is CannotFindBlock, also a fuzzy
   one, where the property wants the whole chain (resp. the empty suffix). *)
Theorem fuzzy_below_first_fails : forall d s h, wf_db d ->
  match first_slot (chain d) with None => True | Some f => s < f end ->
  read_blocks_from_point d (Specific s h) = Err E_CANNOT_FIND.
Proof. exact before_first_fails. Qed.

Definition ex_db : db := [(3, [(30, 300, 2)]); (1, [(10, 100, 0); (12, 120, 1)]); (2, [(20, 200, 2)])].
Lemma ex_db_wf : wf_db ex_db.
Proof.
  split; vm_compute.
  - repeat constructor; discriminate.
  - repeat split; repeat constructor.
Qed.

Theorem fuzzy_below_first_refuted : exists d s, wf_db d /\
  read_blocks_from_point d (Specific s EMPTY_HASH) <> Ok (suffix_from_slot s (chain d)).
Proof. exists ex_db, 5. split; [exact ex_db_wf | vm_compute; discriminate]. Qed.

(* an exact point that is not in the chain: an error *)
Theorem absent_exact_fails : forall d s h, wf_db d -> h <> EMPTY_HASH ->
  (forall b, In b (chain d) -> ~ (bslot b = s /\ bhash b = h)) ->
  read_blocks_from_point d (Specific s h) = Err E_CANNOT_FIND.
Proof. exact absent_fails. Qed.

(* the tip is the last block of the chain *)
Theorem tip_is_last : forall d, wf_db d ->
  get_tip d = match chain d with [] => None | b :: r => Some (last (b :: r) b) end.
Proof. exact tip_last. Qed.

(* Origin: the whole chain if it starts with the genesis block, OriginMissing otherwise *)
Theorem origin_reads_all : forall d,
  read_blocks_from_point d Origin =
  match chain d with
  | [] => Ok []
  | b :: _ => if (bslot b =? 0) && (bnum b =? 0) then Ok (chain d) else Err E_ORIGIN_MISSING
  end.
Proof. exact origin_spec. Qed.

(* ---- non-vacuity ---- *)
Example ex_reads :
  wf_db ex_db /\ chain ex_db = [(10, 100, 0); (12, 120, 1); (20, 200, 2)] /\
  read_blocks_from_point ex_db (Specific 12 120) = Ok [(12, 120, 1); (20, 200, 2)] /\
  read_blocks_from_point ex_db (Specific 13 EMPTY_HASH) = Ok [(20, 200, 2)] /\
  read_blocks_from_point ex_db (Specific 21 EMPTY_HASH) = Ok [] /\
  read_blocks_from_point ex_db (Specific 21 200) = Err E_CANNOT_FIND /\
  read_blocks_from_point ex_db (Specific 12 121) = Err E_CANNOT_FIND /\
  get_tip ex_db = Some (20, 200, 2).
Proof. split; [exact ex_db_wf|]. vm_compute. repeat split; reflexivity. Qed.
