(* C28, delayed confirmations (Async schedules): Sent and Recv events. *)
From PV Require Import Lib.Base P2p.Proto P2p.Initiator P2p.Spec C27.Proofs C28.Model
  C28.Abs C28.Refine C28.Visitors C28.Emit C28.SettleBlock C28.Inv C28.Events C28.Blocks C28.Proofs.
From PV Require Import C28.AsyncSpec C28.AsyncRelU C28.AsyncInv C28.AsyncEvents.
Open Scope Z_scope.

(* ---- Sent (Async): the oldest unconfirmed emission is confirmed ---- *)
Lemma sent_async i st e p m e1 st1 outs :
  SInvA st e -> env_event Async e (ESent p m) = Some e1 -> on_outbound p st m = Ok (st1, outs) ->
  step_ok i (emit_all i e1 e1 (sends outs)) st1.
Proof.
  intros [ND PO] EV. cbn [env_event] in EV. set (x := eget p e) in *.
  destruct (lk x) eqn:LK; try discriminate. destruct (pend x) as [|m0 rest] eqn:PE; try discriminate.
  destruct (list_eqb Z.eqb (msg_code m0) (msg_code m)) eqn:EQ; try discriminate. inversion EV; subst e1. clear EV.
  apply list_eqb_Z_spec, msg_code_inj in EQ. subst m0.
  assert (O : forall q, q <> p -> eget q (eset p (mkPE LUp (synced x) (wire x) rest) e) = eget q e) by (intros q N; apply eget_eset_neq, N).
  pose proof (PO p) as Pp. fold x in Pp. unfold on_outbound.
  destruct (lookup p (peers st)) as [s|] eqn:L.
  2:{ destruct Pp as [P _]. congruence. }
  intros H; inversion H; subst. clear H. no_sendsA.
  split; [cbn [peers]; apply nodup_insert, ND|].
  apply (all_insertA st e); [exact PO | exact O|]. rewrite eget_eset_eq.
  destruct Pp as (DC & CL & wb & F & LV & NL). rewrite PE in F. cbn [fold_cstep] in F.
  destruct (cstep wb m) as [wb1|] eqn:C; [|discriminate].
  assert (LVe : live (mkPE LUp (synced x) (wire x) rest) = live x) by (unfold live; cbn; rewrite LK; reflexivity).
  split; [cbn; discriminate|]. split.
  { intros Cn. rewrite LVe. apply CL. unfold connected in *. rewrite am_conn in Cn. exact Cn. }
  exists wb1. cbn [pend wire]. split; [exact F|]. rewrite LVe. split.
  - intros Lx. destruct (LV Lx) as [R A]. split; [eapply rel_client_step; eassumption | eapply acc_step; [exact R | left; exact C | exact A]].
  - intros Lx. eapply relU_client; [apply NL, Lx | exact C].
Qed.

(* ---- Recv (Async) ---- *)
Lemma on_inbound_shapeA c p m st out st' out' s :
  lookup p (peers st) = Some s -> on_inbound c p (st, out) m = Ok (st', out') ->
  exists sc s2, SFi (apply_msg s m) sc /\
    (forall w, Rel sc w -> Rel s2 w) /\ (Acc sc -> Acc s2) /\
    (connected s2 -> connected (apply_msg s m)) /\ (forall wb, RelU (apply_msg s m) wb -> RelU s2 wb) /\
    lookup p (peers st') = Some s2 /\ (forall q, q <> p -> lookup q (peers st') = lookup q (peers st)) /\
    map fst (peers st') = map fst (peers st) /\ sends out' = sends out.
Proof.
  intros L. unfold on_inbound. rewrite L. unfold visit_inbound.
  destruct (categorize c p (pr st) (apply_msg s m)) as [[pr1 sc]| |] eqn:Cg; cbn [bind]; try discriminate.
  destruct (inbound_rest p (ax st, sc, out)) as [[[a2 s2] out2]| |] eqn:IR; cbn [bind]; try discriminate.
  intros H; inversion H; subst. clear H.
  pose proof (categorize_conn _ _ _ _ _ _ Cg) as CC. apply categorize_SFi in Cg.
  pose proof (uv_inbound_rest p _ _ _ _ _ _ IR) as [UC UR].
  apply (iv_inbound_rest p) in IR as (R & A & D & ext & -> & Sx).
  exists sc, s2. split; [exact Cg|]. split; [exact R|]. split; [exact A|].
  split; [intros X; apply UC in X; unfold connected in *; rewrite CC in X; exact X|].
  split; [intros wb X; apply UR; eapply SFi_RelU; [exact Cg | exact X]|]. cbn [peers].
  split; [apply lookup_insert_eq|]. split; [intros q N; apply lookup_insert_neq, N|].
  split; [eapply keys_insert_tracked; exact L | rewrite sends_app, Sx, app_nil_r; reflexivity].
Qed.

Lemma recv_trackedA c p lv pn : forall ms st out st' out' s w w' wb,
  lookup p (peers st) = Some s ->
  fold_cstep wb pn = Some w -> (lv = true -> Rel s wb /\ Acc s) -> (lv = false -> RelU s wb) -> (connected s -> lv = true) ->
  recv_all w pn ms = Some w' -> on_inbound_all c p (st, out) ms = Ok (st', out') ->
  exists s' wb', lookup p (peers st') = Some s' /\ fold_cstep wb' pn = Some w' /\
    (lv = true -> Rel s' wb' /\ Acc s') /\ (lv = false -> RelU s' wb') /\ (connected s' -> lv = true) /\
    (forall q, q <> p -> lookup q (peers st') = lookup q (peers st)) /\
    map fst (peers st') = map fst (peers st) /\ sends out' = sends out.
Proof.
  induction ms as [|m rest IH]; intros st out st' out' s w w' wb L F LV NL CL RA H; cbn [on_inbound_all recv_all] in *.
  - inversion H; subst. inversion RA; subst. exists s, wb. split; [exact L|]. split; [exact F|]. split; [exact LV|]. split; [exact NL|].
    split; [exact CL|]. split; [intros q _; reflexivity|]. split; reflexivity.
  - destruct (same_proto m pn) eqn:SP; try discriminate. destruct (sstep w m) as [w1|] eqn:S1; try discriminate.
    apply same_proto_false in SP.
    destruct (fold_pull _ _ _ _ _ F S1 SP) as (wb1 & Sb & F1).
    destruct (on_inbound c p (st, out) m) as [[st1 out1]| |] eqn:O; cbn [bind] in H; try discriminate.
    destruct (on_inbound_shapeA _ _ _ _ _ _ _ _ L O) as (sc & s2 & Cg & R2 & A2 & C2 & U2 & L2 & O2 & K2 & S2).
    destruct (IH st1 out1 st' out' s2 w1 w' wb1 L2 F1) as (s' & wb' & L' & F' & LV' & NL' & CL' & O' & K' & S'); auto.
    + intros Y. destruct (LV Y) as [R A]. split.
      * apply R2. eapply SFi_Rel; [exact Cg|]. eapply rel_server_step; eassumption.
      * apply A2. eapply SFi_Acc; [exact Cg|]. eapply acc_step; [exact R | right; exact Sb | exact A].
    + intros Y. apply U2. eapply relU_server; [apply NL, Y | exact Sb].
    + intros Y. apply CL. apply C2 in Y. unfold connected in *. rewrite am_conn in Y. exact Y.
    + exists s', wb'. split; [exact L'|]. split; [exact F'|]. split; [exact LV'|]. split; [exact NL'|]. split; [exact CL'|].
      split; [intros q N; rewrite (O' q N); apply O2, N|]. split; congruence.
Qed.

Lemma recv_async c i st e p ms e1 st1 outs :
  SInvA st e -> env_event Async e (ERecv p ms) = Some e1 -> on_inbound_all c p (st, []) ms = Ok (st1, outs) ->
  step_ok i (emit_all i e1 e1 (sends outs)) st1.
Proof.
  intros [ND PO] EV. cbn [env_event] in EV. set (x := eget p e) in *.
  destruct (lk x) eqn:LK; try discriminate.
  destruct (recv_all (wire x) (pend x) ms) as [w'|] eqn:RA; try discriminate. inversion EV; subst e1. clear EV.
  assert (O : forall q, q <> p -> eget q (eset p (mkPE LUp (synced x) w' (pend x)) e) = eget q e) by (intros q N; apply eget_eset_neq, N).
  assert (LVe : live (mkPE LUp (synced x) w' (pend x)) = live x) by (unfold live; cbn; rewrite LK; reflexivity).
  pose proof (PO p) as Pp. fold x in Pp.
  destruct (lookup p (peers st)) as [s|] eqn:L.
  - destruct Pp as (DC & CL & wb & F & LV & NL).
    intros H. destruct (recv_trackedA c p (live x) (pend x) ms st [] st1 outs s (wire x) w' wb L F LV NL CL RA H)
      as (s' & wb' & L' & F' & LV' & NL' & CL' & O' & K' & S').
    cbn [sends flat_map] in S'. rewrite S'. cbn [emit_all step_ok]. split; [rewrite K'; exact ND|]. intros q.
    destruct (Z.eq_dec q p) as [->|N].
    + rewrite L', eget_eset_eq. split; [cbn; discriminate|]. split; [rewrite LVe; exact CL'|].
      exists wb'. cbn [pend wire]. split; [exact F'|]. rewrite LVe. split; assumption.
    + rewrite (O' q N), (O q N). apply PO.
  - rewrite recv_untracked by exact L. intros H; inversion H; subst. no_sendsA. split; [exact ND|]. intros q.
    destruct (Z.eq_dec q p) as [->|N].
    + rewrite L, eget_eset_eq. destruct Pp as [P W]. split; [exact P|]. rewrite LVe. cbn [wire].
      intros Sy. specialize (W Sy). rewrite W, P in RA.
      destruct ms as [|m r]; cbn [recv_all] in RA; [inversion RA; reflexivity|].
      cbn [same_proto existsb] in RA. rewrite sstep_w0 in RA. discriminate.
    + rewrite (O q N). apply PO.
Qed.
