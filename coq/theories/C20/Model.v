(* C20 model: segment framing and per-protocol routing of the multiplexer.

   pallas-network/src/multiplexer.rs   Header (From<&[u8]>, Into<[u8;8]>),
       Muxer::write_segment, Demuxer::{read_segment, demux, subscribe},
       Plexer::{subscribe_client, subscribe_server}, AgentChannel
   pallas-network2/src/bearer.rs       Header, read_segment, write_segment (same wire format)

   One direction of a connection: the sending side's agents push
   (protocol id, chunk) pairs into the muxer's ingress queue; the muxer writes
   one segment per pair; the receiving side's demuxer cuts the byte stream back
   into segments and appends each payload to the queue of the agent subscribed
   to that protocol id (dropping it when nobody is).  The scheduling of agents
   is arbitrary: the wire order is ANY interleaving of the per-agent sequences.
   Bytes are Z in [0,256). *)
From PV Require Import Lib.Base.
Open Scope Z_scope.

(* ------------------------------------------------------------------ header *)
Record header : Type := { h_timestamp : Z; h_protocol : Z; h_len : Z }.

(* NetworkEndian::write_u32 / write_u16 *)
Definition be16 (n : Z) : list Z := [n / 256; n mod 256].
Definition be32 (n : Z) : list Z := [n / 16777216; (n / 65536) mod 256; (n / 256) mod 256; n mod 256].
(* NetworkEndian::read_u16 / read_u32 on a 2 / 4 byte slice *)
Definition rd16 (b : list Z) : Z := match b with [a; c] => a * 256 + c | _ => 0 end.
Definition rd32 (b : list Z) : Z :=
  match b with [a; c; d; e] => ((a * 256 + c) * 256 + d) * 256 + e | _ => 0 end.

(* impl From<Header> for [u8; 8] *)
Definition header_encode (h : header) : list Z :=
  be32 (h_timestamp h) ++ be16 (h_protocol h) ++ be16 (h_len h).

Definition P_SLICE : Z := 1.   (* slice index out of range *)

(* impl From<&[u8]> for Header: value[0..4], value[4..6], value[6..8] (panics on a short slice) *)
Definition header_decode (v : list Z) : outcome header :=
  if (length v <? 8)%nat then Panic P_SLICE
  else Ok {| h_timestamp := rd32 (firstn 4 v);
             h_protocol := rd16 (firstn 2 (skipn 4 v));
             h_len := rd16 (firstn 2 (skipn 6 v)) |}.

Definition u16 (n : Z) : Prop := 0 <= n < 65536.
Definition u32 (n : Z) : Prop := 0 <= n < 4294967296.
Definition header_wf (h : header) : Prop := u32 (h_timestamp h) /\ u16 (h_protocol h) /\ u16 (h_len h).

(* ------------------------------------------------------------------ segments *)
(* a segment on the wire: timestamp, protocol id, payload *)
Definition segment : Type := (Z * Z * list Z)%type.
Definition seg_ts (s : segment) : Z := fst (fst s).
Definition seg_proto (s : segment) : Z := snd (fst s).
Definition seg_payload (s : segment) : list Z := snd s.
Definition untimed (s : segment) : Z * list Z := (seg_proto s, seg_payload s).

Definition len {A} (l : list A) : Z := Z.of_nat (length l).

(* Muxer::write_segment: header { protocol, timestamp, payload_len: payload.len() as u16 },
   write_all(header); write_all(payload) *)
Definition frame (s : segment) : list Z :=
  header_encode {| h_timestamp := seg_ts s; h_protocol := seg_proto s;
                   h_len := len (seg_payload s) mod 65536 |} ++ seg_payload s.
Definition mux_bytes (w : list segment) : list Z := concat (map frame w).

Definition segment_wf (s : segment) : Prop :=
  u32 (seg_ts s) /\ u16 (seg_proto s) /\ len (seg_payload s) <= 65535.

Definition E_EOF : Z := 1.       (* read_exact hit the end of the bearer (BearerIo) *)
Definition E_FUEL : Z := 2.

(* Demuxer::read_segment: read_exact 8 bytes, Header::from, read_exact payload_len bytes *)
Definition read_segment (bs : list Z) : outcome (Z * list Z * list Z) :=
  let hd := firstn 8 bs in
  if (length hd <? 8)%nat then Err E_EOF else
  match header_decode hd with
  | Ok h =>
    let rest := skipn 8 bs in
    let n := Z.to_nat (h_len h) in
    let payload := firstn n rest in
    if (length payload <? n)%nat then Err E_EOF
    else Ok (h_protocol h, payload, skipn n rest)
  | Err e => Err e
  | Panic p => Panic p
  end.

(* Demuxer::run seen from the bytes: segments until the bearer ends.  Returns
   the (protocol, payload) pairs read and how the loop ended: Ok = clean end of
   the bearer between two segments, Err E_EOF = it ended inside a segment. *)
Fixpoint read_segments (fuel : nat) (bs : list Z) : list (Z * list Z) * outcome unit :=
  match bs with
  | [] => ([], Ok tt)
  | _ =>
    match fuel with
    | O => ([], Err E_FUEL)
    | S f =>
      match read_segment bs with
      | Ok (p, payload, rest) =>
        let '(segs, fin) := read_segments f rest in ((p, payload) :: segs, fin)
      | Err e => ([], Err e)
      | Panic p => ([], Panic p)
      end
    end
  end.
Definition parse (bs : list Z) : list (Z * list Z) * outcome unit := read_segments (length bs) bs.

(* ------------------------------------------------------------------ demux *)
(* Demuxer::demux: the egress map sends the payload to the agent subscribed to
   exactly this protocol id, otherwise the payload is dropped ("message for
   unregistered protocol").  The queue of subscriber [id] therefore receives: *)
Definition delivered_to (id : Z) (w : list (Z * list Z)) : list (list Z) :=
  map snd (filter (fun s => fst s =? id) w).

(* the whole egress side: for the subscribed ids, their queues; everything else is dropped *)
Definition demux (subs : list Z) (w : list (Z * list Z)) : list (Z * list (list Z)) :=
  map (fun id => (id, delivered_to id w)) subs.
Definition dropped (subs : list Z) (w : list (Z * list Z)) : list (Z * list Z) :=
  filter (fun s => negb (existsb (fun id => id =? fst s) subs)) w.

(* ------------------------------------------------------------------ plexer roles *)
Inductive role : Type := Client | Server.
(* protocol ^ 0x8000 on u16 *)
Definition flip (p : Z) : Z := Z.lxor p 32768.
(* Plexer::subscribe_client(p): sends with p, listens on p ^ 0x8000;
   Plexer::subscribe_server(p): sends with p ^ 0x8000, listens on p *)
Definition send_id (r : role) (p : Z) : Z := match r with Client => p | Server => flip p end.
Definition recv_id (r : role) (p : Z) : Z := match r with Client => flip p | Server => p end.
Definition peer (r : role) : role := match r with Client => Server | Server => Client end.

(* ------------------------------------------------------------------ schedules *)
(* [sent id] = the chunks enqueued, in order, by the agent that sends with wire
   id [id] (at most one agent per id: a second subscribe replaces the first).
   The muxer's single ingress queue receives them in any interleaving. *)
Definition upd {A} (f : Z -> A) (k : Z) (v : A) : Z -> A := fun x => if x =? k then v else f x.

Inductive Interleaving (sent : Z -> list (list Z)) : list (Z * list Z) -> Prop :=
| il_done : (forall id, sent id = []) -> Interleaving sent []
| il_step : forall id x rest w,
    sent id = x :: rest -> Interleaving (upd sent id rest) w -> Interleaving sent ((id, x) :: w).

(* what agent (r, p) of the receiving side gets when the other side's wire
   sequence (with arbitrary timestamps) went through mux_bytes and parse *)
Definition received (r : role) (p : Z) (wire : list segment) : list (list Z) :=
  delivered_to (recv_id r p) (fst (parse (mux_bytes wire))).
