(* C21 model: message reassembly over segment boundaries, both network stacks.

   old stack  pallas-network/src/multiplexer.rs
              try_decode_message, ChannelBuffer::{send_msg_chunks, recv_full_msg}
   new stack  pallas-network2/src/behavior/mod.rs  try_decode_msg, AnyMessage::from_payload
              pallas-network2/src/bearer.rs        BearerReadHalf::read_full_msgs
              pallas-network2/src/lib.rs           Message::into_chunks

   The message decoder (minicbor::Decoder::decode::<M>) is abstract: a function
   from the buffer to  DecOk m consumed | DecEoi | DecErr  (decode::Error::is_end_of_input
   distinguishes the last two).  Bytes are Z in [0,256). *)
From PV Require Import Lib.Base.
Open Scope Z_scope.

Inductive dec_result (M : Type) : Type :=
| DecOk (m : M) (consumed : nat)   (* Ok(msg), decoder.position() = consumed *)
| DecEoi                           (* Err(e) with e.is_end_of_input() *)
| DecErr.                          (* any other decode error *)
Arguments DecOk {M} m consumed.
Arguments DecEoi {M}.
Arguments DecErr {M}.

(* error classes used in the results below *)
Definition E_DECODING : Z := 1.   (* multiplexer::Error::Decoding *)
Definition E_NO_PROGRESS : Z := 2. (* the Rust loop would spin forever (decoder consumed 0 bytes) *)

(* slice::chunks(n): consecutive pieces of n elements, the last one shorter; none for [] *)
Fixpoint chunks_fuel (fuel n : nat) (l : list Z) : list (list Z) :=
  match fuel with
  | O => []
  | S f => match l with
           | [] => []
           | _ => firstn n l :: chunks_fuel f n (skipn n l)
           end
  end.
Definition chunks (n : nat) (l : list Z) : list (list Z) := chunks_fuel (length l) n l.
Definition MAX_SEGMENT_PAYLOAD_LENGTH : nat := Z.to_nat 65535.

(* ------------------------------------------------------------------ old stack *)
Section OldStack.
  Context {M : Type}.
  Variable enc : M -> list Z.
  Variable dec : list Z -> dec_result M.

  (* fn try_decode_message(buffer) -> Result<Option<M>, Error>; drains on success *)
  Definition try_decode_message (buf : list Z) : outcome (option M * list Z) :=
    match dec buf with
    | DecOk m n => Ok (Some m, skipn n buf)
    | DecEoi => Ok (None, buf)
    | DecErr => Err E_DECODING
    end.

  (* one call of recv_full_msg seen from outside: a message (with the new temp
     buffer and the chunks still queued), or the call is left waiting in
     dequeue_chunk with no chunk queued, or it returned Err. *)
  Inductive recv_result : Type :=
  | Got (m : M) (temp : list Z) (queued : list (list Z))
  | Waiting (temp : list Z)
  | Failed (e : Z).

  (* loop { chunk = dequeue_chunk(); temp.extend(chunk); try_decode_message(temp) } *)
  Fixpoint recv_loop (temp : list Z) (queued : list (list Z)) : recv_result :=
    match queued with
    | [] => Waiting temp
    | c :: cs =>
      match try_decode_message (temp ++ c) with
      | Ok (Some m, t) => Got m t cs
      | Ok (None, t) => recv_loop t cs
      | Err e => Failed e
      | Panic p => Failed p
      end
    end.

  (* if !temp.is_empty() { try_decode_message(temp)? -> return }  loop {...} *)
  Definition recv_full_msg (temp : list Z) (queued : list (list Z)) : recv_result :=
    match temp with
    | [] => recv_loop temp queued
    | _ =>
      match try_decode_message temp with
      | Ok (Some m, t) => Got m t queued
      | Ok (None, t) => recv_loop t queued
      | Err e => Failed e
      | Panic p => Failed p
      end
    end.

  (* the consumer: recv_full_msg again and again on a channel into which the
     peer's segments [queued] arrive; result = delivered messages and the final
     state (Ok temp: waiting with that residue; Err: decode error / no progress). *)
  Fixpoint recv_all_fuel (fuel : nat) (temp : list Z) (queued : list (list Z))
    : list M * outcome (list Z) :=
    match fuel with
    | O => ([], Err E_NO_PROGRESS)
    | S f =>
      match recv_full_msg temp queued with
      | Got m t cs => let '(ms, fin) := recv_all_fuel f t cs in (m :: ms, fin)
      | Waiting t => ([], Ok t)
      | Failed e => ([], Err e)
      end
    end.

  Definition recv_all (segs : list (list Z)) : list M * outcome (list Z) :=
    recv_all_fuel (S (length (concat segs) + length segs)) [] segs.

  (* A consumer that polls: recv_full_msg under tokio::time::timeout / select!.  The
     pending bytes live in self.temp (a field of ChannelBuffer), so they survive a
     call that is dropped while it waits in dequeue_chunk.  Events: a segment arrives
     in the agent's queue, or the consumer calls recv_full_msg and - if the call does
     not return with what is queued - abandons it (the future is dropped at the await). *)
  Inductive poll_event : Type :=
  | EArrive (chunk : list Z)
  | EPoll.

  (* state between events: temp and the chunks queued in the channel; result:
     messages the polls returned, then the state (or the error a poll returned) *)
  Fixpoint drive (temp : list Z) (queued : list (list Z)) (evs : list poll_event)
    : list M * outcome (list Z * list (list Z)) :=
    match evs with
    | [] => ([], Ok (temp, queued))
    | EArrive c :: r => drive temp (queued ++ [c]) r
    | EPoll :: r =>
      match recv_full_msg temp queued with
      | Got m t cs => let '(ms, fin) := drive t cs r in (m :: ms, fin)
      | Waiting t => drive t [] r          (* cancelled: everything dequeued so far is in temp *)
      | Failed e => ([], Err e)
      end
    end.

  (* polls as above, then the consumer waits without giving up *)
  Definition drive_then_wait (evs : list poll_event) : list M * outcome (list Z) :=
    match drive [] [] evs with
    | (out1, Ok (t, q)) =>
      let '(out2, fin) := recv_all_fuel (S (length t + length (concat q) + length q)) t q in (out1 ++ out2, fin)
    | (out1, Err e) => (out1, Err e)
    | (out1, Panic p) => (out1, Panic p)
    end.

  Definition arrivals (evs : list poll_event) : list (list Z) :=
    flat_map (fun e => match e with EArrive c => [c] | EPoll => [] end) evs.

  (* ChannelBuffer::send_msg_chunks: payload.chunks(MAX_SEGMENT_PAYLOAD_LENGTH) *)
  Definition send_msg_chunks (m : M) : list (list Z) := chunks MAX_SEGMENT_PAYLOAD_LENGTH (enc m).
End OldStack.

(* ------------------------------------------------------------------ new stack *)
(* partial_chunks : HashMap<Channel, Payload> as an association list *)
Definition pmap : Type := list (Z * list Z).
Fixpoint plookup (c : Z) (pc : pmap) : option (list Z) :=
  match pc with
  | [] => None
  | (k, v) :: r => if k =? c then Some v else plookup c r
  end.
Fixpoint premove (c : Z) (pc : pmap) : pmap :=
  match pc with
  | [] => []
  | (k, v) :: r => if k =? c then premove c r else (k, v) :: premove c r
  end.
Definition pget (pc : pmap) (c : Z) : list Z :=
  match plookup c pc with Some v => v | None => [] end.

(* raw_channel & !PROTOCOL_SERVER on u16 *)
Definition strip_mode (raw : Z) : Z := Z.land raw 32767.

Section NewStack.
  Context {M : Type}.
  (* AnyMessage::from_payload dispatches on the channel; None = "unsupported channel" *)
  Variable chan_dec : Z -> option (list Z -> dec_result M).

  (* try_decode_msg: every error, end-of-input or not, is None and keeps the buffer *)
  Definition try_decode_msg (dec : list Z -> dec_result M) (buf : list Z) : option M * list Z :=
    match dec buf with
    | DecOk m n => (Some m, skipn n buf)
    | DecEoi => (None, buf)
    | DecErr => (None, buf)
    end.

  Definition from_payload (channel : Z) (payload : list Z) : option M * list Z :=
    match chan_dec channel with
    | Some dec => try_decode_msg dec payload
    | None => (None, [])            (* payload.clear(); None *)
    end.

  (* while let Some(msg) = M::from_payload(channel, &mut payload) { msgs.push(msg) } *)
  Fixpoint drain_msgs (fuel : nat) (channel : Z) (payload : list Z) : outcome (list M * list Z) :=
    match fuel with
    | O => Err E_NO_PROGRESS
    | S f =>
      match from_payload channel payload with
      | (Some m, p) =>
        match drain_msgs f channel p with
        | Ok (ms, r) => Ok (m :: ms, r)
        | Err e => Err e
        | Panic p => Panic p
        end
      | (None, p) => Ok ([], p)
      end
    end.

  (* BearerReadHalf::read_full_msgs on one segment (raw channel, chunk) *)
  Definition read_full_msgs (pc : pmap) (seg : Z * list Z) : outcome (list (Z * M) * pmap) :=
    let '(raw, chunk) := seg in
    let channel := strip_mode raw in
    let previous := plookup channel pc in
    let pc1 := premove channel pc in
    let payload := match previous with Some x => x ++ chunk | None => chunk end in
    match drain_msgs (S (length payload)) channel payload with
    | Ok (msgs, rest) =>
      Ok (map (fun m => (channel, m)) msgs,
          match rest with [] => pc1 | _ => (channel, rest) :: pc1 end)
    | Err e => Err e
    | Panic p => Panic p
    end.

  (* the connection's read loop: all messages in arrival order and the final map *)
  Fixpoint read_all_from (pc : pmap) (segs : list (Z * list Z)) : outcome (list (Z * M) * pmap) :=
    match segs with
    | [] => Ok ([], pc)
    | s :: r =>
      match read_full_msgs pc s with
      | Ok (ms1, pc') =>
        match read_all_from pc' r with
        | Ok (ms2, pc'') => Ok (ms1 ++ ms2, pc'')
        | Err e => Err e
        | Panic p => Panic p
        end
      | Err e => Err e
      | Panic p => Panic p
      end
    end.
  Definition read_all (segs : list (Z * list Z)) : outcome (list (Z * M) * pmap) := read_all_from [] segs.
End NewStack.

(* Message::into_chunks: payload.chunks(MAX_SEGMENT_PAYLOAD_LENGTH), all on the message's channel *)
Definition into_chunks {M} (channel_of : M -> Z) (enc : M -> list Z) (m : M) : list (Z * list Z) :=
  map (fun c => (channel_of m, c)) (chunks MAX_SEGMENT_PAYLOAD_LENGTH (enc m)).

(* messages delivered on one channel *)
Definition on_channel {M} (c : Z) (out : list (Z * M)) : list M :=
  map snd (filter (fun p => fst p =? c) out).
(* payload bytes that arrived for one (mode-stripped) channel *)
Definition bytes_for (c : Z) (segs : list (Z * list Z)) : list Z :=
  concat (map snd (filter (fun s => strip_mode (fst s) =? c) segs)).

(* ------------------------------------------------------------------ specification side *)
(* what the reassembly loops need from a message codec (for the messages in [valid]):
   P0 encodings are non-empty; P1 the decoder returns the message and its exact
   length whatever follows it; P2 a strict prefix of an encoding, with nothing
   after it, is "end of input" (never an error, never a message); P3 so is the
   empty buffer. *)
Record codec_ok {M : Type} (valid : M -> Prop) (enc : M -> list Z)
       (dec : list Z -> dec_result M) : Prop := {
  co_nonempty : forall m, valid m -> enc m <> [];
  co_complete : forall m r, valid m -> dec (enc m ++ r) = DecOk m (length (enc m));
  co_prefix : forall m p s, valid m -> enc m = p ++ s -> s <> [] -> dec p = DecEoi;
  co_empty : dec [] = DecEoi
}.

Definition stream {M} (enc : M -> list Z) (ms : list M) : list Z := concat (map enc ms).
