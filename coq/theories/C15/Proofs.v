(* C15 proofs: algebraic facts about the reference exp / ln / pow (Fixed/Model.v). *)
From PV Require Import Lib.Base Fixed.Model Fixed.Proofs.
Open Scope Z_scope.

(* ================= ipow ================= *)
Lemma ipow_zero x : ipow x 0 = ONE.
Proof. reflexivity. Qed.
Lemma ipow_one x : ipow x 1 = x.
Proof. unfold ipow, ipow_. cbn [Z.ltb Z.compare ipow_pos]. apply fp_mul_ONE_l. Qed.

Lemma ipow_pos_ge_ONE x n : ONE <= x -> ONE <= ipow_pos x n.
Proof.
  intros Hx. induction n as [n IH|n IH|]; cbn [ipow_pos].
  - apply fp_mul_ge_ONE; [apply fp_mul_ge_ONE; exact IH | exact Hx].
  - apply fp_mul_ge_ONE; exact IH.
  - rewrite fp_mul_ONE_l. exact Hx.
Qed.
Lemma ipow_pos_nonneg x n : 0 <= x -> 0 <= ipow_pos x n.
Proof.
  intros Hx. induction n as [n IH|n IH|]; cbn [ipow_pos].
  - apply fp_mul_nonneg; [apply fp_mul_nonneg; exact IH | exact Hx].
  - apply fp_mul_nonneg; exact IH.
  - rewrite fp_mul_ONE_l. exact Hx.
Qed.
Lemma ipow_pos_ONE n : ipow_pos ONE n = ONE.
Proof.
  induction n as [n IH|n IH|]; cbn [ipow_pos]; rewrite ?IH, ?fp_mul_ONE_l; reflexivity.
Qed.
Lemma ipow_ge_ONE x n : ONE <= x -> 0 <= n -> ONE <= ipow x n.
Proof.
  intros Hx Hn. unfold ipow. destruct (n <? 0) eqn:E; [lia|]. destruct n as [|p|p]; cbn [ipow_]; try lia.
  apply ipow_pos_ge_ONE. exact Hx.
Qed.

(* ================= Taylor loop ================= *)
Fixpoint zfact (k : nat) : Z := match k with O => 1 | S j => Z.of_nat (S j) * zfact j end.

Lemma zfact_pos k : 0 < zfact k.
Proof. induction k as [|k IH]; cbn [zfact]; [lia|]. nia. Qed.
Lemma zfact_mono j k : (j <= k)%nat -> zfact j <= zfact k.
Proof.
  induction 1 as [|k Hle IH]; [lia|]. cbn [zfact]. pose proof (zfact_pos k). nia.
Qed.
Lemma zfact_25 : 10 ^ 24 < zfact 25.
Proof. vm_compute. reflexivity. Qed.

(* loop invariant: k terms accepted so far *)
Definition tinv (rop divisor last_x : Z) (k : nat) : Prop :=
  divisor = (Z.of_nat k + 1) * ONE /\ 0 <= last_x /\ last_x * zfact k <= ONE /\ ONE <= rop.

Lemma taylor_step x last_x k : 0 <= x <= ONE -> 0 <= last_x -> last_x * zfact k <= ONE ->
  let next_x := fp_div (scale (x * last_x)) ((Z.of_nat k + 1) * ONE) in
  0 <= next_x /\ next_x * zfact (S k) <= ONE.
Proof.
  intros Hx Hl Hf next_x. pose proof PREC_pos as HP. unfold ONE in *.
  assert (Hs : 0 <= scale (x * last_x) <= last_x).
  { split; [apply scale_nonneg; nia|]. rewrite scale_floor.
    apply Z.div_le_upper_bound; [lia|]. nia. }
  set (t := scale (x * last_x)) in *. clearbody t.
  assert (Hn : next_x = t / (Z.of_nat k + 1)).
  { unfold next_x. rewrite fp_div_floor by nia.
    rewrite Z.div_mul_cancel_r by lia. reflexivity. }
  assert (Hk : 0 < Z.of_nat k + 1) by lia.
  pose proof (Z.div_mod t (Z.of_nat k + 1) ltac:(lia)) as Hdm.
  pose proof (Z.mod_pos_bound t (Z.of_nat k + 1) Hk) as Hmb.
  split; [rewrite Hn; apply Z.div_pos; lia|].
  cbn [zfact]. rewrite Nat2Z.inj_succ. pose proof (zfact_pos k) as Hz.
  assert (next_x * (Z.of_nat k + 1) <= last_x) by (rewrite Hn; nia).
  replace (Z.succ (Z.of_nat k)) with (Z.of_nat k + 1) by lia.
  assert (next_x * (Z.of_nat k + 1) * zfact k <= last_x * zfact k) by nia. nia.
Qed.

(* a term that is not below EPS can only be one of the first 24 *)
Lemma taylor_no_break_bound next_x k : EPS <= next_x -> next_x * zfact (S k) <= ONE -> (S k <= 24)%nat.
Proof.
  intros He Hf. destruct (le_lt_dec (S k) 24) as [|Hgt]; [assumption|exfalso].
  pose proof (zfact_mono 25 (S k) ltac:(lia)) as Hm. pose proof zfact_25 as H25.
  assert (EPS * zfact (S k) <= ONE) by (pose proof (zfact_pos (S k)); nia).
  assert (EPS * 10 ^ 24 < EPS * zfact (S k)) by (apply Z.mul_lt_mono_pos_l; [reflexivity | lia]).
  change (EPS * 10 ^ 24) with ONE in *. lia.
Qed.

Lemma taylor_loop_spec fuel : forall x rop divisor last_x k, 0 <= x <= ONE ->
  tinv rop divisor last_x k -> (k <= 24)%nat ->
  let r := taylor_loop fuel x EPS rop divisor last_x (Z.of_nat k) in
  ONE <= fst r /\ Z.of_nat k <= snd r <= 24 /\
  forall fuel', (25 - k <= fuel)%nat -> (25 - k <= fuel')%nat ->
    taylor_loop fuel' x EPS rop divisor last_x (Z.of_nat k) = r.
Proof.
  induction fuel as [|fuel IH]; intros x rop divisor last_x k Hx (Hd & Hl & Hf & Hr) Hk r.
  - cbn in r. subst r. cbn [fst snd]. split; [exact Hr|]. split; [lia|]. intros; lia.
  - subst r. cbn [taylor_loop]. subst divisor.
    destruct (taylor_step x last_x k Hx Hl Hf) as [Hn0 Hnf].
    set (next_x := fp_div (scale (x * last_x)) ((Z.of_nat k + 1) * ONE)) in *.
    destruct (Z.abs next_x <? Z.abs EPS) eqn:E.
    + cbn [fst snd]. split; [exact Hr|]. split; [lia|].
      intros fuel' _ Hf'. destruct fuel' as [|fuel']; [lia|]. cbn [taylor_loop]. fold next_x. rewrite E. reflexivity.
    + assert (He : EPS <= next_x) by (change (Z.abs EPS) with EPS in E; lia).
      pose proof (taylor_no_break_bound next_x k He Hnf) as Hk'.
      replace (Z.of_nat k + 1) with (Z.of_nat (S k)) by lia.
      assert (Hinv : tinv (rop + next_x) (Z.of_nat (S k) * ONE + ONE) next_x (S k)).
      { unfold tinv. split; [lia|]. split; [exact Hn0|]. split; [exact Hnf|]. lia. }
      destruct (IH x (rop + next_x) _ next_x (S k) Hx Hinv Hk') as (H1 & H2 & H3).
      split; [exact H1|]. split; [lia|].
      intros fuel' Hf1 Hf2. destruct fuel' as [|fuel']; [lia|]. cbn [taylor_loop].
      replace (Z.of_nat k + 1) with (Z.of_nat (S k)) by lia. fold next_x.
      replace ((Z.of_nat (S k)) * ONE) with ((Z.of_nat k + 1) * ONE) by lia. fold next_x. rewrite E.
      replace ((Z.of_nat k + 1) * ONE + ONE) with (Z.of_nat (S k) * ONE + ONE) by lia.
      apply H3; lia.
Qed.

Lemma taylor_init_inv : tinv ONE ONE ONE 0.
Proof. unfold tinv. cbn. unfold ONE. pose proof PREC_pos. lia. Qed.

(* for an argument in [0,1] the series stops by itself after at most 24 terms:
   the cap max_n = 1000 is never reached and any cap >= 25 gives the same result *)
Lemma mp_exp_taylor_spec x max_n : 0 <= x <= ONE -> 25 <= max_n ->
  ONE <= fst (mp_exp_taylor max_n x EPS) /\ 0 <= snd (mp_exp_taylor max_n x EPS) <= 24 /\
  mp_exp_taylor max_n x EPS = mp_exp_taylor 1000 x EPS.
Proof.
  intros Hx Hm. unfold mp_exp_taylor.
  destruct (taylor_loop_spec (Z.to_nat 1000) x ONE ONE ONE 0%nat Hx taylor_init_inv ltac:(lia)) as (H1 & H2 & H3).
  change (Z.of_nat 0) with 0 in *.
  assert (Heq : taylor_loop (Z.to_nat max_n) x EPS ONE ONE ONE 0 = taylor_loop (Z.to_nat 1000) x EPS ONE ONE ONE 0).
  { apply H3; lia. }
  rewrite Heq. split; [exact H1|]. split; [lia|reflexivity].
Qed.

(* ================= ref_exp ================= *)
Lemma div_round_ceil_scaling x : 0 < x ->
  1 <= div_round_ceil x PREC /\ 0 <= Z.quot x (div_round_ceil x PREC) <= ONE.
Proof.
  intros Hx. pose proof PREC_pos as HP. unfold div_round_ceil, ONE.
  pose proof (quot_sign x PREC) as [Hs _]. specialize (Hs ltac:(nia)).
  qr x PREC HP. specialize (Hrp ltac:(lia)).
  destruct (0 <=? q) eqn:E0; [|lia]. destruct (r =? 0) eqn:E1; cbn [andb negb].
  - assert (r = 0) by lia. assert (1 <= q) by nia. split; [lia|].
    rewrite Z.quot_div_nonneg by lia. subst r. rewrite Z.add_0_r in Hqr. rewrite Hqr.
    rewrite Z.div_mul by lia. lia.
  - split; [lia|]. rewrite Z.quot_div_nonneg by lia. split; [apply Z.div_pos; lia|].
    apply Z.div_le_upper_bound; [lia|]. nia.
Qed.

Lemma ref_exp_pos_spec x : 0 < x ->
  ONE <= fst (ref_exp_pos_it x) /\ 0 <= snd (ref_exp_pos_it x) <= 24.
Proof.
  intros Hx. unfold ref_exp_pos_it. destruct (div_round_ceil_scaling x Hx) as [Hn Hq].
  set (n := div_round_ceil x PREC) in *.
  destruct (mp_exp_taylor_spec (Z.quot x n) 1000 Hq ltac:(lia)) as (H1 & H2 & _).
  destruct (mp_exp_taylor 1000 (Z.quot x n) EPS) as [r it]. cbn [fst snd] in *.
  split; [apply ipow_ge_ONE; lia | exact H2].
Qed.

Lemma exp_zero_proof : ref_exp 0 = ONE /\ ref_exp_iterations 0 = 0.
Proof. split; reflexivity. Qed.

Lemma exp_pos_proof x : 0 < x -> ONE <= ref_exp x /\ 0 <= ref_exp_iterations x <= 24.
Proof.
  intros Hx. unfold ref_exp, ref_exp_iterations, ref_exp_it.
  destruct (x =? 0) eqn:E0; [lia|]. destruct (x <? 0) eqn:E1; [lia|]. apply ref_exp_pos_spec. exact Hx.
Qed.

Lemma exp_neg_proof x : 0 < x ->
  ref_exp (- x) = fp_div ONE (ref_exp x) /\ ref_exp_iterations (- x) = ref_exp_iterations x /\
  0 <= ref_exp (- x) <= ONE.
Proof.
  intros Hx. destruct (exp_pos_proof x Hx) as [Hge _].
  assert (Heq : ref_exp (- x) = fp_div ONE (ref_exp x) /\ ref_exp_iterations (- x) = ref_exp_iterations x).
  { unfold ref_exp, ref_exp_iterations, ref_exp_it.
    destruct (- x =? 0) eqn:E0; [lia|]. destruct (- x <? 0) eqn:E1; [|lia].
    destruct (x =? 0) eqn:E2; [lia|]. destruct (x <? 0) eqn:E3; [lia|].
    rewrite Z.opp_involutive. destruct (ref_exp_pos_it x) as [t it]. split; reflexivity. }
  destruct Heq as [H1 H2]. split; [exact H1|]. split; [exact H2|]. rewrite H1.
  pose proof PREC_pos as HP. unfold ONE in *. rewrite fp_div_floor by lia.
  split; [apply Z.div_pos; nia|]. apply Z.div_le_upper_bound; [lia|]. nia.
Qed.

(* positivity / range of the reference exp over all arguments; the iteration cap is never hit *)
Lemma exp_range_proof x :
  0 <= ref_exp x /\ (0 <= x -> ONE <= ref_exp x) /\ (x <= 0 -> ref_exp x <= ONE) /\
  0 <= ref_exp_iterations x <= 24.
Proof.
  destruct (Z.lt_trichotomy x 0) as [Hn|[->|Hp]].
  - destruct (exp_neg_proof (- x) ltac:(lia)) as (_ & H2 & H3). rewrite Z.opp_involutive in *.
    destruct (exp_pos_proof (- x) ltac:(lia)) as [_ H4]. repeat split; lia.
  - change (ref_exp 0) with ONE. change (ref_exp_iterations 0) with 0. pose proof ONE_pos. repeat split; lia.
  - destruct (exp_pos_proof x Hp) as [H1 H2]. pose proof ONE_pos. repeat split; lia.
Qed.

(* ================= ln and pow: domain and the special cases of the code ================= *)
Lemma ln_domain_proof x : ref_ln x = None <-> x <= 0.
Proof.
  unfold ref_ln. destruct (x <=? 0) eqn:E; split; intros H; try discriminate; try reflexivity; try lia.
Qed.

Ltac iff_tac :=
  split; [intros H; try discriminate H | intros [Hb He]]; try (exfalso; lia); try (split; lia); try reflexivity.

Lemma pow_special_proof base e :
  ref_pow base 0 = Ok ONE /\ ref_pow ONE e = Ok ONE /\
  (base <> ONE -> ref_pow base ONE = Ok base) /\
  (0 < e -> e <> ONE -> ref_pow 0 e = Ok 0) /\
  (ref_pow base e = Panic 1 <-> base = 0 /\ e < 0).
Proof.
  unfold ref_pow. split; [reflexivity|]. split; [rewrite Z.eqb_refl, orb_true_r; reflexivity|].
  split; [intros Hb; change (ONE =? 0) with false; destruct (base =? ONE) eqn:E; [lia|]; rewrite Z.eqb_refl; reflexivity|].
  split.
  - intros He Hne. destruct (e =? 0) eqn:E0; [lia|]. change (0 =? ONE) with false. cbn [orb].
    destruct (e =? ONE) eqn:E1; [lia|]. change (0 =? 0) with true. destruct (0 <? e) eqn:E2; [reflexivity|lia].
  - assert (HO : 0 < ONE) by exact ONE_pos.
    destruct (e =? 0) eqn:E0; cbn [orb]; [iff_tac|].
    destruct (base =? ONE) eqn:E1; [iff_tac|].
    destruct (e =? ONE) eqn:E2; [iff_tac|].
    destruct (base =? 0) eqn:E3; cbn [andb].
    + destruct (0 <? e) eqn:E4; [iff_tac|]. destruct (e <? 0) eqn:E5; iff_tac.
    + destruct (base <? 0); [destruct (Z.rem _ _ =? 0)|]; iff_tac.
Qed.
