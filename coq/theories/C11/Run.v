(* C11 correspondence: inputs and what the implementation returned. *)
Require Import Coq.Strings.String.
From PV Require Import Lib.Base Crypto.Hex Crypto.Sha512 Crypto.Ed25519Spec C11.Model.
From PV Require C11.Vectors.   (* test vectors are part of the runner's cone *)
Open Scope Z_scope.

Definition X (s : string) : list Z := unhex s.
Arguments X s%string.

Inductive case : Type :=
| CStd (sk m pk sig : list Z)            (* SecretKey: public_key and sign *)
| CExt (esk m pk sig : list Z)           (* SecretKeyExtended: public_key and sign *)
| CVerify (pk m sig : list Z) (accept : bool)
| CFromBytes (esk : list Z) (ok : bool)
| CFromBytesGrid (filler : list Z) (rows : list Z)   (* all 256 x 256 (byte 0, byte 31): bit b31 of row b0 = accepted *)
| CTryFrom (which : Z) (bs : list Z) (ok : bool).   (* 0 = PublicKey, 1 = Signature *)

Definition beq (a b : list Z) : bool := list_eqb Z.eqb a b.
Definition is_ok {A} (o : outcome A) : bool := match o with Ok _ => true | _ => false end.

(* the public key is computed once and reused for the signature, as the implementation does *)
Definition std_out (sk m : list Z) : list Z * list Z :=
  let pk := sk_public_key sk in (pk, ed_sign_with sk pk m).
Definition ext_out (esk m : list Z) : list Z * list Z :=
  let pk := esk_public_key esk in (pk, ed_sign_ext_with esk pk m).

(* the 64-byte key [filler] with byte 0 := b0 and byte 31 := b31 *)
Definition grid_key (filler : list Z) (b0 b31 : Z) : list Z :=
  b0 :: firstn 30 (skipn 1 filler) ++ b31 :: skipn 32 filler.
Definition grid_cell_ok (filler rows : list Z) (b0 b31 : Z) : bool :=
  Bool.eqb (is_ok (esk_from_bytes (grid_key filler b0 b31))) (Z.testbit (nth (Z.to_nat b0) rows 0) b31).
Definition grid_bad (filler rows : list Z) : list (Z * Z) :=
  flat_map (fun b0 => flat_map (fun b31 => if grid_cell_ok filler rows b0 b31 then [] else [(b0, b31)])
                               (zrangeZ 0 256)) (zrangeZ 0 256).

Definition case_out (c : case) : list Z * list Z * bool :=
  match c with
  | CStd sk m _ _ => let '(pk, sg) := std_out sk m in (pk, sg, true)
  | CExt esk m _ _ => let '(pk, sg) := ext_out esk m in (pk, sg, true)
  | CVerify pk m sg _ => ([], [], pk_verify pk m sg)
  | CFromBytes k _ => ([], [], is_ok (esk_from_bytes k))
  | CFromBytesGrid f rows =>            (* first disagreeing (byte 0, byte 31) and the model's answer there *)
      match grid_bad f rows with
      | (b0, b31) :: _ => ([b0], [b31], is_ok (esk_from_bytes (grid_key f b0 b31)))
      | [] => ([], [], true)
      end
  | CTryFrom w bs _ => ([], [], is_ok (if w =? 0 then pk_try_from bs else sig_try_from bs))
  end.

Definition case_ok (c : case) : bool :=
  match c with
  | CStd sk m pk sg => let '(pk', sg') := std_out sk m in beq pk' pk && beq sg' sg
  | CExt esk m pk sg => let '(pk', sg') := ext_out esk m in beq pk' pk && beq sg' sg
  | CVerify pk m sg acc => Bool.eqb (pk_verify pk m sg) acc
  | CFromBytes k ok => Bool.eqb (is_ok (esk_from_bytes k)) ok
  | CFromBytesGrid f rows =>
      (Z.of_nat (length f) =? 64) && (Z.of_nat (length rows) =? 256) &&
      match grid_bad f rows with [] => true | _ => false end
  | CTryFrom w bs ok => Bool.eqb (is_ok (if w =? 0 then pk_try_from bs else sig_try_from bs)) ok
  end.
