(* C42 correspondence.  A case is one database and a batch of (query, what the
   implementation answered).  The database is either a subset of the chunk files of
   the real test database (its abstract chain is Coq data regenerated from
   <repo>/test_data on every run: Generated/ImmutableTestChain.v) or a literal
   abstract database (chunk name, blocks (slot, hash, number)) that the harness
   built on disk from real blocks (there hashes are renumbered injectively by the
   harness: the model only tests hashes for equality and emptiness).  Block lists
   are compared through (count, polynomial hash over slots and the low 60 bits of
   the hashes). *)
From PV Require Import Lib.Base Immutable.ChunkList C42.Model Generated.ImmutableTestChain.
Open Scope Z_scope.

Inductive dbsrc := RealDb (names : list Z) | LitDb (d : db).
Inductive query := QAll | QTip | QFrom (pt : point).
Inductive answer :=
| ABlocks (n h : Z)                 (* Ok: number of blocks, hash of the (slot, hash) sequence *)
| AErr (e : Z)
| APanic (p : Z)
| ATip (t : option (Z * Z)).
Definition case : Type := (dbsrc * list (query * answer)).

Definition src_db (s : dbsrc) : db :=
  match s with
  | RealDb names => filter (fun e => existsb (Z.eqb (fst e)) names) testdb_chains
  | LitDb d => d
  end.

Definition MASK61 : Z := 2305843009213693951.   (* 2^61 - 1 *)
Definition mix (h v : Z) : Z := Z.land (h * 1000003 + v) MASK61.
Definition LOW60 : Z := 1152921504606846975.
Definition block_hash (h : Z) (b : block) : Z := mix (mix h (bslot b)) (Z.land (bhash b) LOW60).
Definition summarize (l : list block) : answer := ABlocks (Z.of_nat (length l)) (fold_left block_hash l 7).

Definition run_query (d : db) (q : query) : answer :=
  match q with
  | QAll => summarize (read_blocks d)
  | QTip => ATip (match get_tip d with Some b => Some (bslot b, bhash b) | None => None end)
  | QFrom pt => match read_blocks_from_point d pt with
                | Ok l => summarize l
                | Err e => AErr e
                | Panic p => APanic p
                end
  end.

Definition answer_eqb (a b : answer) : bool :=
  match a, b with
  | ABlocks n h, ABlocks m g => (n =? m) && (h =? g)
  | AErr x, AErr y => x =? y
  | APanic x, APanic y => x =? y
  | ATip None, ATip None => true
  | ATip (Some (s, h)), ATip (Some (s', h')) => (s =? s') && (h =? h')
  | _, _ => false
  end.

Definition case_out (c : case) : list answer :=
  let '(s, qs) := c in map (fun qa => run_query (src_db s) (fst qa)) qs.

Definition case_ok (c : case) : bool :=
  let '(s, qs) := c in
  let d := src_db s in
  forallb (fun qa => answer_eqb (run_query d (fst qa)) (snd qa)) qs.
