(* C15 correspondence: exp / ln / pow of FixedDecimal at precision 34 against the
   Gallina reference, digit for digit (the whole `data` integer is compared). *)
From PV Require Import Lib.Base Fixed.Model.
Open Scope Z_scope.

Inductive case : Type :=
| CExp (x res : Z)
| CLn (x : Z) (res : outcome Z)       (* Panic 1: "ln of a value in (-inf,0] is undefined" *)
| CPow (b e : Z) (res : outcome Z).   (* Panic 1: "zero to a negative power is undefined" *)

Definition outcome_eqb (a b : outcome Z) : bool :=
  match a, b with
  | Ok x, Ok y => x =? y
  | Err x, Err y => x =? y
  | Panic x, Panic y => x =? y
  | _, _ => false
  end.
(* ref_ln with the continued-fraction state kept: (value, n at exit).  n <= 1002 means the
   loop of mp_ln_n (cap: n <= max_n + 2 = 1002) ended by convergence, not by its cap.
   RunFacts.v proves  ref_ln x = option_map fst (ref_ln_it x). *)
Definition ref_ln_it (x : Z) : option (Z * Z) :=
  if x <=? 0 then None
  else
    let n := find_e x in
    let rop := n * PREC in
    let st := mp_ln_n_state 1000 (fp_div x (ref_exp rop) - ONE) EPS in
    Some (rop + ln_conv st, ln_n st).
Definition ln_out (x : Z) : outcome Z := match ref_ln_it x with Some (v, _) => Ok v | None => Panic 1 end.
Definition ln_converged (x : Z) : bool := match ref_ln_it x with Some (_, it) => it <=? 1002 | None => true end.

Definition case_out (c : case) : outcome Z :=
  match c with
  | CExp x _ => Ok (ref_exp x)
  | CLn x _ => ln_out x
  | CPow b e _ => ref_pow b e
  end.
(* a CLn case is ok when the value agrees digit for digit AND the model's continued
   fraction stopped by itself (the cap was not the reason for the result) *)
Definition case_ok (c : case) : bool :=
  match c with
  | CExp x res => ref_exp x =? res
  | CLn x res =>
    match ref_ln_it x with
    | Some (v, it) => outcome_eqb (Ok v) res && (it <=? 1002)
    | None => outcome_eqb (Panic 1) res
    end
  | CPow b e res => outcome_eqb (ref_pow b e) res
  end.
