(* RFC 8032 Ed25519, executable over Z.  Definitions only.

   Part 1 ([Section Schnorr]): the signature scheme over an abstract group
   given by its operations (point type, equivalence, addition, negation,
   identity, scalar multiplication, base point, encoding, decoding) and a hash
   oracle [hashZ].  The completeness proof (Ed25519Proofs.v) is carried out at
   this level from the group laws [group_laws] as premises.
   Part 2: the concrete curve edwards25519 (field mod 2^255-19, extended
   coordinates, RFC 8032 section 5.1.4 formulas, point (de)compression with the
   p = 5 mod 8 square root, L, clamping, SHA-512) and the concrete functions
   [ed_public], [ed_sign], ... obtained by instantiating Part 1.
   The concrete curve's group laws are NOT proved; the concrete functions are
   tied to RFC 8032 by its test vectors (vm_compute) and to pallas/cryptoxide
   by the differential run. *)
From PV Require Import Lib.Base Crypto.Sha512.
Open Scope Z_scope.

(* little-endian integers *)
Definition le_int (bs : list Z) : Z := fold_right (fun b acc => b + 256 * acc) 0 bs.
Fixpoint le_bytes (n : nat) (v : Z) : list Z :=
  match n with
  | O => []
  | S n' => v mod 256 :: le_bytes n' (v / 256)
  end.
Definition all_zero (bs : list Z) : bool := forallb (fun b => b =? 0) bs.

(* ------------------------------------------------------------------ *)
Section Schnorr.
  Variable G : Type.
  Variable geq : G -> G -> Prop.            (* equality of points (projective representatives) *)
  Variable gop : G -> G -> G.
  Variable gneg : G -> G.
  Variable gid : G.
  Variable smul : Z -> G -> G.              (* scalar multiplication, scalars >= 0 *)
  Variable B : G.                           (* base point *)
  Variable smulB : Z -> G.                  (* fixed-base scalar multiplication (scalarmult_base) *)
  Variable L : Z.                           (* its order *)
  Variable enc : G -> list Z.               (* 32-byte encoding *)
  Variable dec : list Z -> option G.
  Variable hashZ : list Z -> Z.             (* hash oracle, read as an integer *)

  (* the laws the completeness proof needs (premises of [schnorr_complete]) *)
  Record group_laws : Prop := {
    gl_refl : forall P, geq P P;
    gl_sym : forall P Q, geq P Q -> geq Q P;
    gl_trans : forall P Q R, geq P Q -> geq Q R -> geq P R;
    gl_op_proper : forall P P' Q Q', geq P P' -> geq Q Q' -> geq (gop P Q) (gop P' Q');
    gl_neg_proper : forall P P', geq P P' -> geq (gneg P) (gneg P');
    gl_smul_proper : forall k P P', geq P P' -> geq (smul k P) (smul k P');
    gl_enc_proper : forall P Q, geq P Q -> enc P = enc Q;
    gl_assoc : forall P Q R, geq (gop (gop P Q) R) (gop P (gop Q R));
    gl_comm : forall P Q, geq (gop P Q) (gop Q P);
    gl_id_r : forall P, geq (gop P gid) P;
    gl_neg_r : forall P, geq (gop P (gneg P)) gid;
    gl_smul_0 : forall P, geq (smul 0 P) gid;
    gl_smul_id : forall k, 0 <= k -> geq (smul k gid) gid;
    gl_smul_add : forall a b P, 0 <= a -> 0 <= b -> geq (smul (a + b) P) (gop (smul a P) (smul b P));
    gl_smul_mul : forall a b P, 0 <= a -> 0 <= b -> geq (smul (a * b) P) (smul a (smul b P));
    gl_smulB : forall k, 0 <= k -> geq (smulB k) (smul k B);
    gl_L : 0 < L <= 2 ^ 256;
    gl_order : geq (smul L B) gid;              (* B generates a subgroup of order (dividing) L *)
    gl_enc_len : forall P, length (enc P) = 32%nat;
    gl_dec_enc : forall P, exists P', dec (enc P) = Some P' /\ geq P' P
  }.

  (* public key of the secret scalar a *)
  Definition pk_of (a : Z) : list Z := enc (smulB a).

  (* RFC 8032 5.1.6 with secret scalar [a], its public key bytes [A] and nonce
     prefix [prefix] (cryptoxide: signature(message, keypair) reads A from the keypair) *)
  Definition sign_core (a : Z) (A : list Z) (prefix : list Z) (m : list Z) : list Z :=
    let r := hashZ (prefix ++ m) mod L in
    let Rb := enc (smulB r) in
    let k := hashZ (Rb ++ A ++ m) mod L in
    let S := (r + k * a) mod L in
    Rb ++ le_bytes 32 S.

  (* RFC 8032 5.1.7 (cofactorless): decode A, require S < L, recompute
     R' = [S]B - [k]A and compare its encoding with the first half *)
  Definition verify_core (pk m sig : list Z) : bool :=
    let Rb := firstn 32 sig in
    let S := le_int (skipn 32 sig) in
    match dec pk with
    | None => false
    | Some A =>
        if L <=? S then false
        else
          let k := hashZ (Rb ++ pk ++ m) mod L in
          list_eqb Z.eqb (enc (gop (smulB S) (gneg (smul k A)))) Rb
    end.
End Schnorr.

(* ------------------------------------------------------------------ *)
(* edwards25519 *)
Definition p25519 : Z := 2 ^ 255 - 19.
Definition Lord : Z := 2 ^ 252 + 27742317777372353535851937790883648493.
Definition d25519 : Z := 37095705934669439343138083508754565189542113879843219016388785533085940283555.
Definition sqrtm1 : Z := 19681161376707505956807079304988542015446066515923890162744021073123829784752.
Definition Bx : Z := 15112221349535400772501151409588531511454012693041857206046113283949847762202.
Definition By : Z := 46316835694926478169428394003475163141307993866256225615783033603165251855960.

(* reduction mod p = 2^255 - 19 for x >= 0: 2^255 = 19 (mod p), twice, then one
   conditional subtraction.  [fred x = x mod p] for 0 <= x < 2^520 is proved in
   Ed25519Proofs.v ([fred_spec]); Z.modulo itself is ~17x slower under vm_compute. *)
Definition m255 : Z := 2 ^ 255 - 1.
Definition red1 (x : Z) : Z := Z.land x m255 + 19 * Z.shiftr x 255.
Definition fred (x : Z) : Z :=
  let y := red1 (red1 x) in if p25519 <=? y then y - p25519 else y.
Definition fmul (a b : Z) : Z := fred (a * b).          (* operands >= 0 *)
Definition fsqr (a : Z) : Z := fred (Z.square a).
Definition fsub (a b : Z) : Z := a + p25519 - b.        (* b canonical: stays >= 0, unreduced *)
Fixpoint fpow_pos (b : Z) (e : positive) : Z :=
  match e with
  | xH => fred b
  | xO e' => fsqr (fpow_pos b e')
  | xI e' => fmul (fsqr (fpow_pos b e')) b
  end.
Definition fpow (b e : Z) : Z := match e with Zpos e' => fpow_pos b e' | _ => 1 end.
Definition finv (a : Z) : Z := fpow a (p25519 - 2).

(* extended homogeneous coordinates (X : Y : Z : T), x = X/Z, y = Y/Z, x*y = T/Z *)
Definition point : Type := (Z * Z * Z * Z)%type.
Definition pid : point := (0, 1, 1, 0).
Definition Bpt : point := (Bx, By, 1, fmul Bx By).

(* RFC 8032 section 5.1.4.  Coordinates are canonical (< p); sums are left
   unreduced, a difference a - b is computed as a + p - b >= 0, every product is reduced. *)
Definition padd (P Q : point) : point :=
  let '(X1, Y1, Z1, T1) := P in
  let '(X2, Y2, Z2, T2) := Q in
  let A := fmul (fsub Y1 X1) (fsub Y2 X2) in
  let B := fmul (Y1 + X1) (Y2 + X2) in
  let C := fmul (fmul T1 (2 * d25519)) T2 in
  let D := fmul Z1 (2 * Z2) in
  let E := fsub B A in let F := fsub D C in let G := D + C in let H := B + A in
  (fmul E F, fmul G H, fmul F G, fmul E H).

Definition pdbl (P : point) : point :=
  let '(X1, Y1, Z1, _) := P in
  let A := fsqr X1 in
  let B := fsqr Y1 in
  let C := 2 * fsqr Z1 in
  let H := A + B in
  let E := fsub H (fsqr (X1 + Y1)) in
  let G := fsub A B in
  let F := C + G in
  (fmul E F, fmul G H, fmul F G, fmul E H).

Definition pneg (P : point) : point :=
  let '(X, Y, Z, T) := P in (fred (fsub 0 X), Y, Z, fred (fsub 0 T)).

(* same point of the curve: cross-multiplied affine coordinates agree *)
Definition peq (P Q : point) : Prop :=
  let '(X1, Y1, Z1, _) := P in
  let '(X2, Y2, Z2, _) := Q in
  fmul X1 Z2 = fmul X2 Z1 /\ fmul Y1 Z2 = fmul Y2 Z1.

(* double-and-add, most significant bit first *)
Fixpoint psmul_pos (k : positive) (P : point) : point :=
  match k with
  | xH => P
  | xO k' => pdbl (psmul_pos k' P)
  | xI k' => padd (pdbl (psmul_pos k' P)) P
  end.
Definition psmul (k : Z) (P : point) : point :=
  match k with Zpos k' => psmul_pos k' P | _ => pid end.

(* fixed-base multiplication from the table B, 2B, 4B, ..., 2^255 B (computed
   once, when this file is compiled): one addition per set bit, no doubling *)
Fixpoint pow2_table (n : nat) (P : point) : list point :=
  match n with O => [] | S n' => P :: pow2_table n' (pdbl P) end.
Definition Btable : list point := Eval vm_compute in pow2_table 256 Bpt.
Fixpoint psmul_tab (k : positive) (tab : list point) (acc : point) : point :=
  match tab with
  | [] => acc
  | T :: tab' =>
      match k with
      | xH => padd acc T
      | xO k' => psmul_tab k' tab' acc
      | xI k' => psmul_tab k' tab' (padd acc T)
      end
  end.
Definition psmul_base (k : Z) : point :=
  match k with
  | Zpos k' => if k <? 2 ^ 256 then psmul_tab k' Btable pid else psmul_pos k' Bpt
  | _ => pid
  end.

(* 5.1.2 encoding: y little-endian, bit 255 = lsb of x; one inversion *)
Definition compress (P : point) : list Z :=
  let '(X, Y, Z, _) := P in
  let zi := finv Z in
  let x := fmul X zi in
  let y := fmul Y zi in
  le_bytes 32 (y + 2 ^ 255 * (x mod 2)).

(* x from y and the sign bit (5.1.3 steps 2-4), without the two strictness
   rejections: as cryptoxide's GeAffine::from_bytes, y is taken mod p and
   (x = 0, sign = 1) is let through.  Result: affine (x, y). *)
Definition recover_xy (s : list Z) : option (Z * Z) :=
  let v := le_int s in
  let sign := v / 2 ^ 255 in
  let y := fred (v mod 2 ^ 255) in
  let y2 := fsqr y in
  let u := fred (fsub y2 1) in
  let w := fred (fmul d25519 y2 + 1) in
  let w3 := fmul (fsqr w) w in
  let w7 := fmul (fsqr w3) w in
  let x := fmul (fmul u w3) (fpow (fmul u w7) ((p25519 - 5) / 8)) in
  let wxx := fmul w (fsqr x) in
  let ox : option Z :=
    if wxx =? u then Some x
    else if wxx =? fred (fsub 0 u) then Some (fmul x sqrtm1)
    else None in
  match ox with
  | None => None
  | Some x => Some (if x mod 2 =? sign then x else fred (fsub 0 x), y)
  end.

Definition decompress_lenient (s : list Z) : option point :=
  match recover_xy s with
  | Some (x, y) => Some (x, y, 1, fmul x y)
  | None => None
  end.

(* RFC 8032 5.1.3, strict: y >= p fails; x = 0 with sign bit 1 fails *)
Definition decompress_rfc (s : list Z) : option point :=
  let v := le_int s in
  if p25519 <=? v mod 2 ^ 255 then None
  else match recover_xy s with
       | Some (x, y) => if (x =? 0) && (v / 2 ^ 255 =? 1) then None else Some (x, y, 1, fmul x y)
       | None => None
       end.

(* hash oracle of Ed25519: SHA-512 read as a little-endian integer *)
Definition sha512Z (m : list Z) : Z := le_int (sha512 m).

(* ---- keys (cryptoxide::ed25519, as called by pallas-crypto/src/key/ed25519.rs) ---- *)
(* clamp_scalar *)
Definition clamp (h : list Z) : list Z :=
  match h with
  | b0 :: r =>
      Z.land b0 248 :: firstn 30 r ++
      match skipn 30 r with
      | b31 :: r' => Z.lor (Z.land b31 63) 64 :: r'
      | [] => []
      end
  | [] => []
  end.

(* SecretKeyExtended::check_structure on bytes 0 and 31 *)
Definition check_bits (b0 b31 : Z) : bool :=
  (Z.land b0 7 =? 0) && (Z.land b31 64 =? 64) && (Z.land b31 128 =? 0).
Definition check_structure (k : list Z) : bool := check_bits (nth 0 k 0) (nth 31 k 0).
(* from_bytes: Ok(key) / Err(InvalidBitTweaks) *)
Definition ext_from_bytes (k : list Z) : outcome (list Z) :=
  if check_structure k then Ok k else Err 1.

(* extended_secret: SHA-512 of the 32-byte key, first half clamped *)
Definition extended_secret (sk : list Z) : list Z :=
  let h := sha512 sk in clamp (firstn 32 h) ++ skipn 32 h.

Definition ed_pk_of (a : Z) : list Z := pk_of point psmul_base compress a.
Definition ed_sign_core (a : Z) (A prefix m : list Z) : list Z :=
  sign_core point psmul_base Lord compress sha512Z a A prefix m.

(* SecretKey::public_key / SecretKey::sign *)
Definition ed_public (sk : list Z) : list Z :=
  ed_pk_of (le_int (firstn 32 (extended_secret sk))).
Definition ed_sign_with (sk pk m : list Z) : list Z :=      (* ed25519::signature(m, sk || pk) *)
  let az := extended_secret sk in ed_sign_core (le_int (firstn 32 az)) pk (skipn 32 az) m.
Definition ed_sign (sk m : list Z) : list Z := ed_sign_with sk (ed_public sk) m.
(* SecretKeyExtended::public_key / sign: the first 32 bytes are the scalar as they are *)
Definition ed_public_ext (esk : list Z) : list Z := ed_pk_of (le_int (firstn 32 esk)).
Definition ed_sign_ext_with (esk pk m : list Z) : list Z :=
  ed_sign_core (le_int (firstn 32 esk)) pk (skipn 32 esk) m.
Definition ed_sign_ext (esk m : list Z) : list Z := ed_sign_ext_with esk (ed_public_ext esk) m.

(* PublicKey::verify = cryptoxide::ed25519::verify: lenient point decoding,
   canonical S, all-zero public key rejected, byte comparison of R *)
Definition ed_verify (pk m sig : list Z) : bool :=
  if all_zero pk then false
  else verify_core point padd pneg psmul psmul_base Lord compress decompress_lenient sha512Z pk m sig.

(* the RFC 8032 verifier (strict decoding, no extra rejection) *)
Definition rfc_verify (pk m sig : list Z) : bool :=
  verify_core point padd pneg psmul psmul_base Lord compress decompress_rfc sha512Z pk m sig.

(* a public key whose decoding RFC 8032 and cryptoxide treat alike *)
Definition canonical_pk (pk : list Z) : Prop :=
  decompress_rfc pk = decompress_lenient pk /\ all_zero pk = false.
