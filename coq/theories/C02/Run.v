(* C02 correspondence.
   CScript bs script results pos used : the script of Decoder calls run on the
     real Decoder over [bs] gave [results] (one outcome per call, stopping at a
     panic) and left the cursor at (pos, used_bits) (compared unless it panicked).
   CDecode o bs r : pallas_codec::flat::decode::<T>(bs) gave r. *)
From PV Require Export Lib.Base Flat.Model Flat.RunLib.
Open Scope Z_scope.

Inductive case : Type :=
| CScript (bs : list Z) (script : list op) (results : list (outcome dval)) (pos used : Z)
| CDecode (o : op) (bs : list Z) (r : outcome dval).

Definition has_panic (rs : list (outcome dval)) : bool := existsb is_panic rs.

Definition case_out (c : case) : list (outcome dval) * Z * Z :=
  match c with
  | CScript bs script _ _ _ =>
    let (rs, s) := run_script script (mk_dec bs) in (rs, d_pos s, d_used s)
  | CDecode o bs _ => ([flat_decode o bs], 0, 0)
  end.

Definition case_ok (c : case) : bool :=
  match c with
  | CScript bs script results pos used =>
    let (rs, s) := run_script script (mk_dec bs) in
    list_eqb (outcome_eqb dval_eqb) rs results
    && (has_panic results || ((d_pos s =? pos) && (d_used s =? used)))
  | CDecode o bs r => outcome_eqb dval_eqb (flat_decode o bs) r
  end.
