//! Byte-level transaction surgery for fixture mutations.
//!
//! A transaction is split into `head | body | witness set | tail`; body and
//! witness set are CBOR maps with small unsigned keys whose *values* are kept
//! as raw bytes, so a mutation replaces exactly the targeted fields and leaves
//! every other byte as the fixture had it.  Because a mutated body has a new
//! transaction id, the harness owns the signing keys: every payment key hash
//! `h` is mapped to a key derived from `h` (`my_key`), the UTxO addresses and
//! required signers are re-keyed the same way and every vkey witness is
//! re-made with the derived key over the new transaction id.
use pallas_codec::minicbor::{self, data::Type, Decoder, Encoder};
use pallas_crypto::hash::Hasher;
use pallas_crypto::key::ed25519::{PublicKey, SecretKey};
use pallas_traverse::{MultiEraInput, MultiEraOutput};
use pallas_validate::utils::UTxOs;
use std::borrow::Cow;

#[derive(Clone, Debug)]
pub struct Parts {
    pub head: Vec<u8>,
    pub body: Vec<u8>,
    pub wits: Vec<u8>,
    pub tail: Vec<u8>,
}

pub fn split(tx: &[u8]) -> Parts {
    let mut d = Decoder::new(tx);
    d.array().expect("tx array");
    let p0 = d.position();
    d.skip().expect("body");
    let p1 = d.position();
    d.skip().expect("wits");
    let p2 = d.position();
    Parts { head: tx[..p0].to_vec(), body: tx[p0..p1].to_vec(), wits: tx[p1..p2].to_vec(), tail: tx[p2..].to_vec() }
}

pub fn join(p: &Parts) -> Vec<u8> {
    let mut v = p.head.clone();
    v.extend_from_slice(&p.body);
    v.extend_from_slice(&p.wits);
    v.extend_from_slice(&p.tail);
    v
}

/// CBOR map with unsigned keys; values as raw bytes, order preserved.
#[derive(Clone, Debug)]
pub struct RawMap(pub Vec<(u64, Vec<u8>)>);

impl RawMap {
    pub fn parse(b: &[u8]) -> RawMap {
        let mut d = Decoder::new(b);
        let n = d.map().expect("map");
        let mut v = vec![];
        let mut i = 0u64;
        loop {
            match n {
                Some(n) => { if i >= n { break; } }
                None => { if d.datatype().expect("dt") == Type::Break { break; } }
            }
            let k = d.u64().expect("key");
            let s = d.position();
            d.skip().expect("value");
            v.push((k, b[s..d.position()].to_vec()));
            i += 1;
        }
        RawMap(v)
    }
    pub fn encode(&self) -> Vec<u8> {
        let mut out = vec![];
        {
            let mut e = Encoder::new(&mut out);
            e.map(self.0.len() as u64).unwrap();
        }
        for (k, v) in &self.0 {
            let mut kb = vec![];
            Encoder::new(&mut kb).u64(*k).unwrap();
            out.extend_from_slice(&kb);
            out.extend_from_slice(v);
        }
        out
    }
    pub fn get(&self, k: u64) -> Option<&Vec<u8>> { self.0.iter().find(|(kk, _)| *kk == k).map(|(_, v)| v) }
    pub fn set(&mut self, k: u64, v: Vec<u8>) {
        if let Some(e) = self.0.iter_mut().find(|(kk, _)| *kk == k) { e.1 = v; return; }
        // keep keys ascending (canonical order the decoders expect nothing about, but be tidy)
        let pos = self.0.iter().position(|(kk, _)| *kk > k).unwrap_or(self.0.len());
        self.0.insert(pos, (k, v));
    }
    pub fn remove(&mut self, k: u64) { self.0.retain(|(kk, _)| *kk != k); }
}

pub fn enc_u64(v: u64) -> Vec<u8> { let mut b = vec![]; Encoder::new(&mut b).u64(v).unwrap(); b }
pub fn enc_bytes(v: &[u8]) -> Vec<u8> { let mut b = vec![]; Encoder::new(&mut b).bytes(v).unwrap(); b }
pub fn dec_u64(b: &[u8]) -> u64 { Decoder::new(b).u64().expect("u64") }

pub fn tx_id(body: &[u8]) -> Vec<u8> { Hasher::<256>::hash(body).as_ref().to_vec() }
pub fn hash224(b: &[u8]) -> Vec<u8> { Hasher::<224>::hash(b).as_ref().to_vec() }

/// The harness's signing key standing in for the (unknown) key with hash `h`.
pub fn my_key(h: &[u8]) -> SecretKey {
    let mut seed = b"pallas-verif-key:".to_vec();
    seed.extend_from_slice(h);
    let d = Hasher::<256>::hash(&seed);
    let mut k = [0u8; 32];
    k.copy_from_slice(d.as_ref());
    SecretKey::from(k)
}
pub fn my_pub(h: &[u8]) -> Vec<u8> { let pk: PublicKey = my_key(h).public_key(); pk.as_ref().to_vec() }
pub fn my_hash(h: &[u8]) -> Vec<u8> { hash224(&my_pub(h)) }
pub fn sign_with(h: &[u8], msg: &[u8]) -> Vec<u8> { my_key(h).sign(msg).as_ref().to_vec() }

/// (optional set tag 258?, items) of an array of raw items
pub fn parse_array(b: &[u8]) -> (bool, Vec<Vec<u8>>) {
    let mut d = Decoder::new(b);
    let mut tagged = false;
    if d.datatype().expect("dt") == Type::Tag { d.tag().unwrap(); tagged = true; }
    let n = d.array().expect("array");
    let mut v = vec![];
    let mut i = 0u64;
    loop {
        match n {
            Some(n) => { if i >= n { break; } }
            None => { if d.datatype().expect("dt") == Type::Break { break; } }
        }
        let s = d.position();
        d.skip().expect("item");
        v.push(b[s..d.position()].to_vec());
        i += 1;
    }
    (tagged, v)
}
pub fn encode_array(tagged: bool, items: &[Vec<u8>]) -> Vec<u8> {
    let mut out = vec![];
    if tagged { out.extend_from_slice(&[0xd9, 0x01, 0x02]); }
    let mut h = vec![];
    Encoder::new(&mut h).array(items.len() as u64).unwrap();
    out.extend_from_slice(&h);
    for it in items { out.extend_from_slice(it); }
    out
}

/// A vkey witness as (vkey, signature) byte strings.
pub fn parse_vkw(item: &[u8]) -> (Vec<u8>, Vec<u8>) {
    let mut d = Decoder::new(item);
    d.array().unwrap();
    let k = d.bytes().unwrap().to_vec();
    let s = d.bytes().unwrap().to_vec();
    (k, s)
}
pub fn encode_vkw(k: &[u8], s: &[u8]) -> Vec<u8> {
    let mut out = vec![0x82];
    out.extend_from_slice(&enc_bytes(k));
    out.extend_from_slice(&enc_bytes(s));
    out
}
pub fn vkey_wits(wits: &RawMap) -> (bool, Vec<(Vec<u8>, Vec<u8>)>) {
    match wits.get(0) {
        None => (false, vec![]),
        Some(b) => { let (t, items) = parse_array(b); (t, items.iter().map(|i| parse_vkw(i)).collect()) }
    }
}
pub fn set_vkey_wits(wits: &mut RawMap, tagged: bool, ws: &[(Vec<u8>, Vec<u8>)]) {
    let items: Vec<Vec<u8>> = ws.iter().map(|(k, s)| encode_vkw(k, s)).collect();
    wits.set(0, encode_array(tagged, &items));
}

/// Re-key the body (required signers, key 14) — call before the body is final.
pub fn rekey_required_signers(body: &mut RawMap) {
    if let Some(b) = body.get(14).cloned() {
        let (t, items) = parse_array(&b);
        let new: Vec<Vec<u8>> = items.iter().map(|i| {
            let h = Decoder::new(i).bytes().unwrap().to_vec();
            enc_bytes(&my_hash(&h))
        }).collect();
        body.set(14, encode_array(t, &new));
    }
}

/// Replace every vkey witness (k, s) by the derived key for hash(k), signing `body`'s id.
pub fn resign(body: &[u8], wits: &mut RawMap) {
    let id = tx_id(body);
    let (t, ws) = vkey_wits(wits);
    if wits.get(0).is_none() { return; }
    let new: Vec<(Vec<u8>, Vec<u8>)> = ws.iter().map(|(k, _)| {
        let h = hash224(k);
        (my_pub(&h), sign_with(&h, &id))
    }).collect();
    set_vkey_wits(wits, t, &new);
}

/// Shelley address with a payment *key* credential -> same address with the derived key's hash.
pub fn rekey_address(addr: &[u8]) -> Option<Vec<u8>> {
    if addr.len() < 29 { return None; }
    let ty = addr[0] >> 4;
    match ty {
        0 | 2 | 4 | 6 => {
            let mut a = addr.to_vec();
            let nh = my_hash(&addr[1..29]);
            a[1..29].copy_from_slice(&nh);
            Some(a)
        }
        1 | 3 | 5 | 7 => Some(addr.to_vec()), // script locked: unchanged
        _ => None,                            // byron / stake addresses: cannot be re-keyed
    }
}

/// UTxO set with every payment key hash replaced by the derived key's hash.
/// None when some output cannot be re-keyed (Byron address).
pub fn rekey_utxos<'b>(utxos: &UTxOs<'b>) -> Option<UTxOs<'b>> {
    use pallas_primitives::{babbage, conway};
    let mut out: UTxOs<'b> = UTxOs::new();
    for (i, o) in utxos.iter() {
        let no: MultiEraOutput<'b> = match o {
            MultiEraOutput::AlonzoCompatible(b, era) => {
                let mut x = (**b).clone().into_owned();
                x.address = rekey_address(&x.address)?.into();
                MultiEraOutput::AlonzoCompatible(Box::new(Cow::Owned(x)), *era)
            }
            MultiEraOutput::Babbage(b) => {
                let mut x = (**b).clone().into_owned();
                match &mut x {
                    babbage::TransactionOutput::Legacy(l) => { let a = rekey_address(&l.address)?; l.address = a.into(); }
                    babbage::TransactionOutput::PostAlonzo(p) => { let a = rekey_address(&p.address)?; p.address = a.into(); }
                }
                MultiEraOutput::Babbage(Box::new(Cow::Owned(x)))
            }
            MultiEraOutput::Conway(b) => {
                let mut x = (**b).clone().into_owned();
                match &mut x {
                    conway::TransactionOutput::Legacy(l) => { let a = rekey_address(&l.address)?; l.address = a.into(); }
                    conway::TransactionOutput::PostAlonzo(p) => { let a = rekey_address(&p.address)?; p.address = a.into(); }
                }
                MultiEraOutput::Conway(Box::new(Cow::Owned(x)))
            }
            MultiEraOutput::Byron(_) => return None,
            _ => return None,
        };
        out.insert(i.clone(), no);
    }
    Some(out)
}

/// Full re-key + re-sign of a transaction whose body map has been mutated.
pub fn finish(p: &Parts, mut body: RawMap, mut wits: RawMap) -> Vec<u8> {
    rekey_required_signers(&mut body);
    let b = body.encode();
    resign(&b, &mut wits);
    join(&Parts { head: p.head.clone(), body: b, wits: wits.encode(), tail: p.tail.clone() })
}

// ---------------------------------------------------------------- outputs / values

/// raw `value` of a transaction output (legacy array form or post-Alonzo map form)
pub fn output_value(out: &[u8]) -> Vec<u8> {
    let mut d = Decoder::new(out);
    match d.datatype().expect("dt") {
        Type::Map | Type::MapIndef => RawMap::parse(out).get(1).expect("value").clone(),
        _ => parse_array(out).1[1].clone(),
    }
}
pub fn output_address(out: &[u8]) -> Vec<u8> {
    let mut d = Decoder::new(out);
    let raw = match d.datatype().expect("dt") {
        Type::Map | Type::MapIndef => RawMap::parse(out).get(0).expect("addr").clone(),
        _ => parse_array(out).1[0].clone(),
    };
    Decoder::new(&raw).bytes().expect("addr bytes").to_vec()
}
pub fn output_with_value(out: &[u8], value: &[u8]) -> Vec<u8> {
    let mut d = Decoder::new(out);
    match d.datatype().expect("dt") {
        Type::Map | Type::MapIndef => { let mut m = RawMap::parse(out); m.set(1, value.to_vec()); m.encode() }
        _ => { let (_, mut items) = parse_array(out); items[1] = value.to_vec(); encode_array(false, &items) }
    }
}
/// coin of a raw value (`uint` or `[uint, multiasset]`)
pub fn value_coin(v: &[u8]) -> u64 {
    let mut d = Decoder::new(v);
    match d.datatype().expect("dt") {
        Type::Array | Type::ArrayIndef => { d.array().unwrap(); d.u64().expect("coin") }
        _ => d.u64().expect("coin"),
    }
}
pub fn value_with_coin(v: &[u8], coin: u64) -> Vec<u8> {
    let mut d = Decoder::new(v);
    match d.datatype().expect("dt") {
        Type::Array | Type::ArrayIndef => { let (_, mut items) = parse_array(v); items[0] = enc_u64(coin); encode_array(false, &items) }
        _ => enc_u64(coin),
    }
}
/// multi-asset part of a raw value as (policy, asset name, quantity as i128) triples
pub fn value_assets(v: &[u8]) -> Vec<(Vec<u8>, Vec<u8>, i128)> {
    let mut d = Decoder::new(v);
    match d.datatype().expect("dt") {
        Type::Array | Type::ArrayIndef => { let (_, items) = parse_array(v); if items.len() < 2 { vec![] } else { parse_multiasset(&items[1]) } }
        _ => vec![],
    }
}
/// `{ policy => { name => int } }` (mint or value multi-asset) as triples, duplicates kept
pub fn parse_multiasset(b: &[u8]) -> Vec<(Vec<u8>, Vec<u8>, i128)> {
    let mut out = vec![];
    let mut d = Decoder::new(b);
    let n = d.map().expect("ma map");
    let mut i = 0u64;
    loop {
        match n { Some(n) => if i >= n { break }, None => if d.datatype().unwrap() == Type::Break { break } }
        let pol = d.bytes().expect("policy").to_vec();
        let m = d.map().expect("assets");
        let mut j = 0u64;
        loop {
            match m { Some(m) => if j >= m { break }, None => if d.datatype().unwrap() == Type::Break { d.skip().ok(); break } }
            let name = d.bytes().expect("name").to_vec();
            let q: i128 = match d.datatype().expect("dt") {
                Type::U8 | Type::U16 | Type::U32 | Type::U64 => d.u64().unwrap() as i128,
                _ => { let x = d.int().expect("int"); i128::from(x) }
            };
            out.push((pol.clone(), name, q));
            j += 1;
        }
        i += 1;
    }
    out
}
pub fn encode_multiasset(ts: &[(Vec<u8>, Vec<u8>, i128)]) -> Vec<u8> {
    // group by policy, first-appearance order
    let mut pols: Vec<Vec<u8>> = vec![];
    for (p, _, _) in ts { if !pols.contains(p) { pols.push(p.clone()); } }
    let mut out = vec![];
    let mut h = vec![]; Encoder::new(&mut h).map(pols.len() as u64).unwrap(); out.extend(h);
    for p in &pols {
        out.extend(enc_bytes(p));
        let xs: Vec<&(Vec<u8>, Vec<u8>, i128)> = ts.iter().filter(|t| &t.0 == p).collect();
        let mut h = vec![]; Encoder::new(&mut h).map(xs.len() as u64).unwrap(); out.extend(h);
        for (_, n, q) in xs {
            out.extend(enc_bytes(n));
            out.extend(enc_int(*q));
        }
    }
    out
}
/// CBOR integer in [-2^64, 2^64)
pub fn enc_int(q: i128) -> Vec<u8> {
    if q >= 0 { enc_u64(q as u64) } else {
        let n = (-1 - q) as u64;
        let mut b = enc_u64(n);
        b[0] |= 0x20;
        b
    }
}
pub fn body_outputs(body: &RawMap) -> Vec<Vec<u8>> { body.get(1).map(|b| parse_array(b).1).unwrap_or_default() }
pub fn set_body_outputs(body: &mut RawMap, outs: &[Vec<u8>]) { body.set(1, encode_array(false, outs)); }
pub fn body_fee(body: &RawMap) -> u64 { dec_u64(body.get(2).expect("fee")) }
