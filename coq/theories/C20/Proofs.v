(* C20 proofs: header round trip, self-delimiting framing, per-channel FIFO
   delivery for every interleaving. *)
From PV Require Import Lib.Base C20.Model.
Open Scope Z_scope.

(* ---------------------------------------------------------------- header *)
Lemma rd16_be16 n : u16 n -> rd16 (be16 n) = n.
Proof. unfold u16, rd16, be16. intros H. lia. Qed.

Lemma rd32_be32 n : u32 n -> rd32 (be32 n) = n.
Proof. unfold u32, rd32, be32. intros H. lia. Qed.

Lemma header_roundtrip_proof h : header_wf h -> header_decode (header_encode h) = Ok h.
Proof.
  destruct h as [ts p l]. unfold header_wf. cbn [h_timestamp h_protocol h_len].
  intros [Hts [Hp Hl]].
  unfold header_decode, header_encode. cbn [h_timestamp h_protocol h_len be32 be16 app length Nat.ltb Nat.leb firstn skipn].
  fold (be32 ts). fold (be16 p). fold (be16 l).
  rewrite rd32_be32, !rd16_be16; auto.
Qed.

Lemma header_encode_length h : length (header_encode h) = 8%nat.
Proof. reflexivity. Qed.

Lemma header_encode_bytes h : header_wf h -> bytes_wf (header_encode h).
Proof.
  destruct h as [ts p l]. unfold header_wf, u32, u16. cbn [h_timestamp h_protocol h_len].
  intros [Hts [Hp Hl]].
  unfold header_encode, be32, be16. cbn [h_timestamp h_protocol h_len app].
  repeat constructor; unfold byte; lia.
Qed.

(* ---------------------------------------------------------------- direction bit *)
Lemma flip_spec p : u16 p -> flip p = if p <? 32768 then p + 32768 else p - 32768.
Proof.
  unfold u16, flip. intros H.
  destruct (p <? 32768) eqn:E.
  - assert (Hl : Z.land p 32768 = 0).
    { apply Z.bits_inj'. intros n Hn. rewrite Z.land_spec, Z.bits_0.
      destruct (Z.eq_dec n 15) as [->|Hne].
      - replace (Z.testbit p 15) with false; [reflexivity|].
        symmetry. rewrite Z.testbit_eqb by lia. change (2 ^ 15) with 32768.
        rewrite Z.div_small by lia. reflexivity.
      - replace (Z.testbit 32768 n) with false; [apply andb_false_r|].
        change 32768 with (2 ^ 15). symmetry. apply Z.pow2_bits_false. lia. }
    rewrite <- Z.add_nocarry_lxor by exact Hl. reflexivity.
  - assert (Hq : p = (p - 32768) + 32768) by lia.
    assert (Hl : Z.land (p - 32768) 32768 = 0).
    { apply Z.bits_inj'. intros n Hn. rewrite Z.land_spec, Z.bits_0.
      destruct (Z.eq_dec n 15) as [->|Hne].
      - replace (Z.testbit (p - 32768) 15) with false; [reflexivity|].
        symmetry. rewrite Z.testbit_eqb by lia. change (2 ^ 15) with 32768.
        rewrite Z.div_small by lia. reflexivity.
      - replace (Z.testbit 32768 n) with false; [apply andb_false_r|].
        change 32768 with (2 ^ 15). symmetry. apply Z.pow2_bits_false. lia. }
    rewrite Hq at 1. rewrite (Z.add_nocarry_lxor _ _ Hl).
    rewrite Z.lxor_assoc, Z.lxor_nilpotent, Z.lxor_0_r. reflexivity.
Qed.

Lemma flip_involutive p : flip (flip p) = p.
Proof. unfold flip. now rewrite Z.lxor_assoc, Z.lxor_nilpotent, Z.lxor_0_r. Qed.

Lemma flip_u16 p : u16 p -> u16 (flip p).
Proof. intros H. rewrite flip_spec by exact H. unfold u16 in *. destruct (p <? 32768) eqn:E; lia. Qed.

Lemma flip_neq p : u16 p -> flip p <> p.
Proof. intros H. rewrite flip_spec by exact H. destruct (p <? 32768); lia. Qed.

Lemma recv_id_peer r p : recv_id r p = send_id (peer r) p.
Proof. destruct r; reflexivity. Qed.

Lemma send_id_u16 r p : u16 p -> u16 (send_id r p).
Proof. destruct r; cbn; auto using flip_u16. Qed.

(* two subscriptions with protocol numbers below the direction bit listen on
   the same wire id only if they are the same subscription *)
Lemma recv_id_inj r p r' p' :
  0 <= p < 32768 -> 0 <= p' < 32768 -> recv_id r p = recv_id r' p' -> r = r' /\ p = p'.
Proof.
  intros Hp Hp'. destruct r, r'; cbn; rewrite ?flip_spec by (unfold u16; lia).
  all: destruct (p <? 32768) eqn:E; destruct (p' <? 32768) eqn:E'; try lia.
  all: intros H; split; try reflexivity; try lia.
Qed.

(* ---------------------------------------------------------------- framing *)
Lemma firstn_app_exact {A} (a b : list A) n : n = length a -> firstn n (a ++ b) = a.
Proof.
  intros ->. induction a as [|x a IH]; cbn; [now destruct b|now rewrite IH].
Qed.
Lemma skipn_app_exact {A} (a b : list A) n : n = length a -> skipn n (a ++ b) = b.
Proof. intros ->. induction a as [|x a IH]; cbn; auto. Qed.

Lemma read_segment_frame s rest :
  segment_wf s -> read_segment (frame s ++ rest) = Ok (seg_proto s, seg_payload s, rest).
Proof.
  destruct s as [[ts p] payload]. unfold segment_wf, seg_ts, seg_proto, seg_payload, len.
  cbn [fst snd]. intros [Hts [Hp Hl]].
  unfold frame, seg_ts, seg_proto, seg_payload. cbn [fst snd].
  set (h := {| h_timestamp := ts; h_protocol := p; h_len := len payload mod 65536 |}).
  assert (Hwf : header_wf h).
  { unfold header_wf, h, u16, len. cbn. repeat split; try apply Hts; try apply Hp; lia. }
  unfold read_segment. rewrite <- app_assoc.
  rewrite (firstn_app_exact (header_encode h)) by reflexivity.
  rewrite (skipn_app_exact (header_encode h)) by reflexivity.
  rewrite header_encode_length. replace (8 <? 8)%nat with false by reflexivity.
  rewrite (header_roundtrip_proof h Hwf).
  assert (Hn : Z.to_nat (h_len h) = length payload).
  { unfold h, len. cbn. rewrite Z.mod_small by lia. lia. }
  rewrite Hn.
  rewrite (firstn_app_exact payload) by reflexivity.
  rewrite (skipn_app_exact payload) by reflexivity.
  rewrite Nat.ltb_irrefl.
  reflexivity.
Qed.

Lemma frame_cons s : exists b t, frame s = b :: t.
Proof. destruct s as [[ts p] payload]. unfold frame, header_encode, be32. cbn. eauto. Qed.

Lemma read_segments_S f bs : bs <> [] ->
  read_segments (S f) bs =
  match read_segment bs with
  | Ok (p, payload, rest) => let '(segs, fin) := read_segments f rest in ((p, payload) :: segs, fin)
  | Err e => ([], Err e)
  | Panic p => ([], Panic p)
  end.
Proof. destruct bs; [congruence|reflexivity]. Qed.

Lemma read_segments_mux : forall w fuel,
  Forall segment_wf w -> (length (mux_bytes w) <= fuel)%nat ->
  read_segments fuel (mux_bytes w) = (map untimed w, Ok tt).
Proof.
  induction w as [|s w IH]; intros fuel Hwf Hfuel.
  - destruct fuel; reflexivity.
  - inversion Hwf as [|? ? Hs Hw]; subst.
    unfold mux_bytes in *. cbn [map concat] in *. fold (mux_bytes w) in *.
    destruct (frame_cons s) as [b [t Hf]].
    assert (Hlen : (length (frame s) >= 8)%nat).
    { destruct s as [[ts p] payload]. unfold frame. rewrite app_length, header_encode_length. lia. }
    destruct fuel as [|f].
    { rewrite app_length in Hfuel. lia. }
    rewrite read_segments_S by (rewrite Hf; discriminate).
    rewrite (read_segment_frame s (mux_bytes w) Hs).
    rewrite (IH f Hw); [reflexivity|].
    rewrite app_length in Hfuel. lia.
Qed.

Lemma segments_parse_proof w : Forall segment_wf w -> parse (mux_bytes w) = (map untimed w, Ok tt).
Proof. intros H. unfold parse. apply read_segments_mux; auto. Qed.

(* ---------------------------------------------------------------- interleavings *)
Lemma delivered_interleaving sent w :
  Interleaving sent w -> forall id, delivered_to id w = sent id.
Proof.
  induction 1 as [sent Hnil|sent id x rest w Hs Hil IH]; intros id'.
  - now rewrite Hnil.
  - unfold delivered_to in *. cbn [filter fst]. specialize (IH id'). unfold upd in IH.
    destruct (id =? id') eqn:E.
    + assert (id = id') by lia. subst id'. cbn [map snd]. rewrite IH, Z.eqb_refl. now rewrite Hs.
    + rewrite IH. rewrite (Z.eqb_sym id' id), E. reflexivity.
Qed.

Lemma received_fifo sent wire :
  Forall segment_wf wire -> Interleaving sent (map untimed wire) ->
  forall r p, received r p wire = sent (send_id (peer r) p).
Proof.
  intros Hwf Hil r p. unfold received. rewrite segments_parse_proof by exact Hwf.
  cbn [fst]. rewrite (delivered_interleaving sent _ Hil). now rewrite recv_id_peer.
Qed.

(* every chunk in a queue was sent with that queue's id, and keeps the wire order *)
Lemma delivered_in id x w : In x (delivered_to id w) -> In (id, x) w.
Proof.
  unfold delivered_to. intros H. apply in_map_iff in H as [[i y] [Hy Hin]].
  apply filter_In in Hin as [Hin Hid]. cbn in *. subst y. assert (i = id) by lia. now subst i.
Qed.

Lemma demux_partition subs w s :
  In s w -> In (fst s) subs -> In (snd s) (delivered_to (fst s) w).
Proof.
  intros Hin _. unfold delivered_to. apply in_map_iff. exists s. split; [reflexivity|].
  apply filter_In. split; [exact Hin|apply Z.eqb_refl].
Qed.

(* an interleaving exists for every finite family of channels (non-vacuity of the premise):
   send channel by channel *)
Fixpoint sequential (ids : list Z) (sent : Z -> list (list Z)) : list (Z * list Z) :=
  match ids with
  | [] => []
  | id :: r => map (fun x => (id, x)) (sent id) ++ sequential r sent
  end.

Lemma sequential_ext ids f g : (forall i, In i ids -> f i = g i) -> sequential ids f = sequential ids g.
Proof.
  induction ids as [|id r IH]; intros H; [reflexivity|].
  cbn. rewrite (H id) by now left. rewrite IH; auto. intros i Hi. apply H. now right.
Qed.

Lemma sequential_interleaving : forall ids sent,
  NoDup ids -> (forall id, ~ In id ids -> sent id = []) -> Interleaving sent (sequential ids sent).
Proof.
  induction ids as [|id r IH]; intros sent Hnd Hsup.
  - apply il_done. intros id. apply Hsup. auto.
  - inversion Hnd as [|? ? Hnotin Hnd']; subst.
    cbn [sequential].
    remember (sent id) as l eqn:El. revert sent El Hsup.
    induction l as [|x rest IHl]; intros sent El Hsup.
    + cbn. apply IH; auto. intros i Hi. destruct (Z.eq_dec i id) as [->|Hne]; [now symmetry|].
      apply Hsup. intros [H|H]; [congruence|contradiction].
    + cbn [map app]. apply il_step with (rest := rest); [now symmetry|].
      rewrite (sequential_ext r sent (upd sent id rest)).
      * apply IHl.
        -- unfold upd. now rewrite Z.eqb_refl.
        -- intros i Hi. unfold upd. destruct (i =? id) eqn:E; [|now apply Hsup].
           exfalso. apply Hi. left. lia.
      * intros i Hi. unfold upd. destruct (i =? id) eqn:E; [|reflexivity].
        assert (i = id) by lia. subst i. contradiction.
Qed.

Lemma no_cross_delivery_proof sent wire r p r' p' :
  Forall segment_wf wire -> Interleaving sent (map untimed wire) ->
  0 <= p < 32768 -> 0 <= p' < 32768 -> (r, p) <> (r', p') ->
  recv_id r p <> recv_id r' p' /\
  received r p wire = sent (recv_id r p) /\ received r' p' wire = sent (recv_id r' p').
Proof.
  intros Hwf Hil Hp Hp' Hne. split.
  - intros H. apply recv_id_inj in H; auto. destruct H; subst. congruence.
  - rewrite !(received_fifo sent wire Hwf Hil), <- !recv_id_peer. auto.
Qed.

Lemma demux_only_subscribed subs w id q :
  In (id, q) (demux subs w) -> In id subs /\ q = delivered_to id w.
Proof.
  unfold demux. intros H. apply in_map_iff in H as [i [Hi Hin]]. inversion Hi; subst. auto.
Qed.
