(* C29 proofs: neither machine ever reaches a Panic.  The initiator proof reuses
   C27's invariant (the promotion limits make the usize subtractions safe). *)
From PV Require Import Lib.Base P2p.Proto P2p.Initiator P2p.Responder C27.Model C27.Proofs C29.Model.
Open Scope Z_scope.

(* ================================================================== initiator *)
Definition vtot (f : vst -> outcome vst) : Prop :=
  forall a s out, exists a' s' out', f (a, s, out) = Ok (a', s', out') /\ errc s' = errc s.

Lemma vtot_bind f g : vtot f -> vtot g -> vtot (fun v => x <- f v ;; g x).
Proof.
  intros Hf Hg a s out. destruct (Hf a s out) as (a1 & s1 & o1 & E1 & C1).
  destruct (Hg a1 s1 o1) as (a2 & s2 & o2 & E2 & C2).
  exists a2, s2, o2. rewrite E1. cbn [bind]. split; [exact E2 | congruence].
Qed.

Ltac vt f := intros a s out; unfold f, emit, bind;
  repeat match goal with |- context[match ?x with _ => _ end] => destruct x eqn:? end;
  do 3 eexists; split; reflexivity.

Lemma vt_conn_hk p : vtot (v_conn_hk p).
Proof.
  intros a s out. unfold v_conn_hk. destruct (needs_connection s).
  - destruct (needs_disconnect (set_conn CConnecting s)); do 3 eexists; split; reflexivity.
  - destruct (needs_disconnect s); do 3 eexists; split; reflexivity.
Qed.
Lemma vt_conn_err p : vtot (v_conn_err p). Proof. vt v_conn_err. Qed.
Lemma vt_hs_connected p : vtot (v_hs_connected p). Proof. vt v_hs_connected. Qed.
Lemma vt_hs_inbound p : vtot (v_hs_inbound p). Proof. vt v_hs_inbound. Qed.
Lemma vt_ka_hk p : vtot (v_ka_hk p). Proof. vt v_ka_hk. Qed.
Lemma vt_disc_inbound p : vtot (v_disc_inbound p). Proof. vt v_disc_inbound. Qed.
Lemma vt_bf_inbound p : vtot (v_bf_inbound p). Proof. vt v_bf_inbound. Qed.
Lemma vt_bf_hk p : vtot (v_bf_hk p). Proof. vt v_bf_hk. Qed.
Lemma vt_cs_inbound p : vtot (v_cs_inbound p). Proof. vt v_cs_inbound. Qed.
Lemma vt_cs_tagged p : vtot (v_cs_tagged p). Proof. vt v_cs_tagged. Qed.
Lemma vt_cs_hk p : vtot (v_cs_hk p). Proof. vt v_cs_hk. Qed.
Lemma vt_ln_inbound p : vtot (v_ln_inbound p). Proof. vt v_ln_inbound. Qed.
Lemma vt_ln_hk p : vtot (v_ln_hk p). Proof. vt v_ln_hk. Qed.
Lemma vt_lf_inbound p : vtot (v_lf_inbound p). Proof. vt v_lf_inbound. Qed.
Lemma vt_lf_purge p : vtot (v_lf_purge p). Proof. vt v_lf_purge. Qed.

(* high_water_mark - discovered.len() is guarded by needs_more_peers *)
Lemma vt_disc_hk p : vtot (v_disc_hk p).
Proof.
  intros a s out. unfold v_disc_hk.
  destruct (negb (len (disc a) <? HWM)) eqn:E1; [do 3 eexists; split; reflexivity|].
  destruct (negb (ps_peer_available s)); [do 3 eexists; split; reflexivity|].
  unfold usub. assert (E : HWM <? len (disc a) = false) by lia. rewrite E. cbn [bind emit].
  do 3 eexists; split; reflexivity.
Qed.

(* .expect("index just found") *)
Lemma lf_position_remove p q idx : lf_position p q = Some idx -> exists x r, remove_nth idx q = Some (x, r).
Proof.
  revert idx. induction q as [|[p' e] r IH]; intros idx H; cbn [lf_position] in H; [discriminate|].
  destruct (p' =? p).
  - inversion H; subst. cbn. eauto.
  - destruct (lf_position p r) as [k|] eqn:E; cbn in H; [|discriminate]. inversion H; subst.
    destruct (IH k eq_refl) as (x & r' & R). cbn [remove_nth]. rewrite R. eauto.
Qed.
Lemma vt_lf_hk p : vtot (v_lf_hk p).
Proof.
  intros a s out. unfold v_lf_hk.
  destruct (negb (lf_peer_available s)); [do 3 eexists; split; reflexivity|].
  destruct (lf_position p (lfq a)) as [idx|] eqn:E; [|do 3 eexists; split; reflexivity].
  destruct (lf_position_remove _ _ _ E) as ([x1 x2] & r & R). rewrite R.
  do 3 eexists; split; reflexivity.
Qed.

Lemma vt_hk_rest p : vtot (hk_rest p).
Proof.
  unfold hk_rest. apply vtot_bind; [apply vt_conn_hk|]. apply vtot_bind; [apply vt_ka_hk|].
  apply vtot_bind; [apply vt_disc_hk|]. apply vtot_bind; [apply vt_bf_hk|]. apply vtot_bind; [apply vt_cs_hk|].
  apply vtot_bind; [apply vt_ln_hk|]. apply vt_lf_hk.
Qed.
Lemma vt_inbound_rest p : vtot (inbound_rest p).
Proof.
  unfold inbound_rest. apply vtot_bind; [apply vt_hs_inbound|]. apply vtot_bind; [apply vt_disc_inbound|].
  apply vtot_bind; [apply vt_bf_inbound|]. apply vtot_bind; [apply vt_cs_inbound|]. apply vtot_bind; [apply vt_ln_inbound|].
  apply vt_lf_inbound.
Qed.

Lemma usub_total cls a b : b <= a -> usub cls a b = Ok (a - b).
Proof. intros H. unfold usub. assert (E : a <? b = false) by lia. rewrite E. reflexivity. Qed.

(* the limits of the invariant make the subtractions in categorize safe *)
Lemma categorize_total c p pr0 s :
  PInv c pr0 -> exists pr1 s1, categorize c p pr0 s = Ok (pr1, s1) /\ errc s1 = errc s.
Proof.
  intros (_ & _ & _ & _ & _ & _ & L1 & L2 & L3). unfold categorize, ban_peer.
  destruct (viol s && negb (mem p (banned pr0))); [do 2 eexists; split; reflexivity|].
  destruct ((errc s >? max_err c) && negb (mem p (banned pr0))); [do 2 eexists; split; reflexivity|].
  rewrite (usub_total _ _ _ L1). cbn [bind].
  destruct ((max_warm c - len (warm pr0) >? 0) && mem p (cold pr0)).
  { unfold promote_cold. destruct (mem p (cold pr0)); do 2 eexists; split; reflexivity. }
  rewrite (usub_total _ _ _ L2). cbn [bind].
  destruct ((max_hot c - len (hot pr0) >? 0) && mem p (warm pr0) && is_init s).
  { unfold promote_warm. destruct (mem p (warm pr0)); do 2 eexists; split; reflexivity. }
  do 2 eexists; split; reflexivity.
Qed.

Lemma discovered_total c p pr0 :
  PInv c pr0 -> exists pr1 s1, on_peer_discovered c p pr0 pnew = Ok (pr1, s1) /\ errc s1 = 0.
Proof.
  intros (_ & _ & _ & _ & _ & _ & L1 & L2 & L3). unfold on_peer_discovered.
  destruct (mem p (banned pr0)); [do 2 eexists; split; reflexivity|].
  assert (T : total (mkPromo (cold pr0) (srem p (warm pr0)) (srem p (hot pr0)) (banned pr0)) <= max_peers c).
  { unfold total in *. cbn [cold warm hot]. pose proof (len_srem_le p (warm pr0)). pose proof (len_srem_le p (hot pr0)). lia. }
  rewrite (usub_total _ _ _ T). cbn [bind].
  destruct (_ >? 0); do 2 eexists; split; reflexivity.
Qed.

(* error counters are bounded by the number of steps taken *)
Definition ErrInv (n : Z) (st : ist) : Prop :=
  forall p s, lookup p (peers st) = Some s -> 0 <= errc s <= n.

Lemma errinv_insert n st p pr1 a1 s1 :
  ErrInv n st -> 0 <= errc s1 <= n -> ErrInv n (mkI pr1 a1 (insert p s1 (peers st))).
Proof.
  intros H B q s L. cbn [peers] in L. destruct (Z.eq_dec q p) as [->|N].
  - rewrite lookup_insert_eq in L. inversion L; subst. exact B.
  - rewrite lookup_insert_neq in L by exact N. exact (H q s L).
Qed.
Lemma errinv_mono n m st : ErrInv n st -> n <= m -> ErrInv m st.
Proof. intros H L p s X. specialize (H p s X). lia. Qed.
Lemma errinv_aux n st a1 : ErrInv n st -> ErrInv n (mkI (pr st) a1 (peers st)).
Proof. intros H p s L. exact (H p s L). Qed.

Lemma hk_loop_total c n order : forall st out,
  Good c st -> ErrInv n st -> exists st' out', hk_loop c order (st, out) = Ok (st', out') /\ ErrInv n st'.
Proof.
  induction order as [|p rest IH]; intros st out G E; cbn [hk_loop].
  - eauto.
  - destruct (lookup p (peers st)) as [s|] eqn:L; [|apply IH; assumption].
    unfold visit_hk at 1.
    destruct (categorize_total c p (pr st) s (proj1 G)) as (pr1 & s1 & C1 & E1).
    destruct (vt_hk_rest p (ax st) s1 out) as (a2 & s2 & o2 & H2 & E2).
    assert (V : visit_hk c p (pr st) (ax st, s, out) = Ok (pr1, (a2, s2, o2))).
    { unfold visit_hk. rewrite C1. cbn [bind]. rewrite H2. reflexivity. }
    rewrite C1. cbn [bind]. rewrite H2. cbn [bind].
    destruct (visit_hk_good _ _ _ _ _ _ _ _ _ G L V) as (G1 & _ & _).
    apply IH; [exact G1|]. apply errinv_insert; [exact E|]. rewrite E2, E1. exact (E p s L).
Qed.

Lemma on_inbound_total c n p m st out :
  Good c st -> ErrInv n st -> exists st' out', on_inbound c p (st, out) m = Ok (st', out') /\ ErrInv n st'.
Proof.
  intros G E. unfold on_inbound. destruct (lookup p (peers st)) as [s|] eqn:L; [|eauto].
  unfold visit_inbound.
  destruct (categorize_total c p (pr st) (apply_msg s m) (proj1 G)) as (pr1 & s1 & C1 & E1).
  destruct (vt_inbound_rest p (ax st) s1 out) as (a2 & s2 & o2 & H2 & E2).
  rewrite C1. cbn [bind]. rewrite H2. cbn [bind]. do 2 eexists. split; [reflexivity|].
  apply errinv_insert; [exact E|]. rewrite E2, E1.
  assert (X : errc (apply_msg s m) = errc s).
  { unfold apply_msg, via. repeat match goal with |- context[match ?x with _ => _ end] => destruct x end; reflexivity. }
  rewrite X. exact (E p s L).
Qed.

Lemma on_inbound_all_total c n p ms : forall st out,
  Good c st -> ErrInv n st -> exists st' out', on_inbound_all c p (st, out) ms = Ok (st', out') /\ ErrInv n st'.
Proof.
  induction ms as [|m rest IH]; intros st out G E; cbn [on_inbound_all]; [eauto|].
  destruct (on_inbound_total c n p m st out G E) as (st1 & o1 & H1 & E1). rewrite H1. cbn [bind].
  destruct (on_inbound_good _ _ _ _ _ _ _ G H1) as (G1 & _). apply IH; assumption.
Qed.

Lemma on_discovered_total c n p st :
  Good c st -> ErrInv n st -> 0 <= n -> exists st', on_discovered c p st = Ok st' /\ ErrInv n st'.
Proof.
  intros G E N. unfold on_discovered.
  destruct (discovered_total c p (pr st) (proj1 G)) as (pr1 & s1 & H1 & E1). rewrite H1. cbn [bind].
  eexists. split; [reflexivity|]. apply errinv_insert; [exact E | lia].
Qed.

Lemma discover_all_total c n new : forall st,
  Good c st -> ErrInv n st -> 0 <= n -> exists st', discover_all c new st = Ok st' /\ ErrInv n st'.
Proof.
  induction new as [|p rest IH]; intros st G E N; cbn [discover_all]; [eauto|].
  destruct (lookup p (peers st)); [apply IH; assumption|].
  destruct (on_discovered_total c n p st G E N) as (st1 & H1 & E1). rewrite H1. cbn [bind].
  destruct (on_discovered_good _ _ _ _ G H1) as [G1 _]. apply IH; assumption.
Qed.

Lemma move_discovered_total c n dorder st :
  Good c st -> ErrInv n st -> 0 <= n -> exists st', move_discovered c dorder st = Ok st' /\ ErrInv n st'.
Proof.
  intros G E N. unfold move_discovered.
  destruct (proj1 G) as (_ & _ & _ & _ & _ & _ & _ & _ & L3).
  rewrite (usub_total _ _ _ L3). cbn [bind].
  destruct (_ =? 0); [eauto|].
  destruct (firstn _ _) as [|x l]; [eauto|].
  apply discover_all_total; [apply good_aux, G | apply errinv_aux, E | exact N].
Qed.

Lemma peer_event_total n st p (f : vst -> outcome vst) s0 :
  ErrInv n st -> vtot f -> 0 <= errc s0 <= n ->
  exists a1 s1 out1, f (ax st, s0, []) = Ok (a1, s1, out1) /\ ErrInv n (mkI (pr st) a1 (insert p s1 (peers st))).
Proof.
  intros E F B. destruct (F (ax st) s0 []) as (a1 & s1 & o1 & H1 & E1).
  exists a1, s1, o1. split; [exact H1|]. apply errinv_insert; [exact E | rewrite E1; exact B].
Qed.

Theorem step_total c n st e :
  Good c st -> ErrInv n st -> 0 <= n < U32_MAX ->
  exists st' out, step c st e = Ok (st', out) /\ ErrInv (n + 1) st'.
Proof.
  intros G E N.
  assert (E' : ErrInv (n + 1) st) by (apply (errinv_mono n); [exact E | lia]).
  destruct e; cbn [step].
  - destruct (on_discovered_total c (n + 1) p st G E' ltac:(lia)) as (st1 & H1 & E1). rewrite H1. cbn [bind]. eauto.
  - unfold on_tagged. cbn [peers pr ax]. destruct (lookup p (peers st)) as [s|] eqn:L.
    + destruct (peer_event_total (n + 1) (mkI (ban_pid p (pr st)) (ax st) (peers st)) p (v_cs_tagged p) (set_tg TBanned s))
        as (a1 & s1 & o1 & H1 & E1); [exact E' | apply vt_cs_tagged | exact (E' p s L) |].
      cbn [ax pr peers] in *. rewrite H1. cbn [bind]. eauto.
    + do 2 eexists. split; [reflexivity | exact E'].
  - unfold on_tagged. destruct (lookup p (peers st)) as [s|] eqn:L; [|eauto].
    destruct (peer_event_total (n + 1) st p (v_cs_tagged p) (set_tg TCold s)) as (a1 & s1 & o1 & H1 & E1);
      [exact E' | apply vt_cs_tagged | exact (E' p s L) |].
    rewrite H1. cbn [bind]. eauto.
  - unfold housekeeping.
    destruct (hk_loop_total c (n + 1) (canon order (keys st)) st [] G E') as (st1 & o1 & H1 & E1).
    rewrite H1. cbn [bind].
    destruct (hk_loop_good _ _ _ _ _ _ G H1) as (G1 & _).
    destruct (move_discovered_total c (n + 1) dorder st1 G1 E1 ltac:(lia)) as (st2 & H2 & E2).
    rewrite H2. cbn [bind]. eauto.
  - do 2 eexists. split; [reflexivity | apply errinv_aux, E'].
  - unfold on_tagged. destruct (lookup p (peers st)) as [s|] eqn:L; [|eauto].
    destruct (peer_event_total (n + 1) st p (v_cs_tagged p) (set_csync true s)) as (a1 & s1 & o1 & H1 & E1);
      [exact E' | apply vt_cs_tagged | exact (E' p s L) |].
    rewrite H1. cbn [bind]. eauto.
  - do 2 eexists. split; [reflexivity | apply errinv_aux, E'].
  - eauto.
  - do 2 eexists. split; [reflexivity | apply errinv_aux, E'].
  - do 2 eexists. split; [reflexivity | apply errinv_aux, E'].
  - unfold on_connected. destruct (lookup p (peers st)) as [s|] eqn:L; [|eauto].
    destruct (peer_event_total (n + 1) st p (v_hs_connected p) (set_conn CConnected s)) as (a1 & s1 & o1 & H1 & E1);
      [exact E' | apply vt_hs_connected | exact (E' p s L) |].
    rewrite H1. cbn [bind]. eauto.
  - unfold on_disconnected. destruct (lookup p (peers st)) as [s|] eqn:L; [|eauto].
    destruct (peer_event_total (n + 1) st p (v_lf_purge p) (reset (set_conn CDisconnected s))) as (a1 & s1 & o1 & H1 & E1);
      [exact E' | apply vt_lf_purge | exact (E' p s L) |].
    rewrite H1. cbn [bind]. eauto.
  - unfold on_errored. destruct (lookup p (peers st)) as [s|] eqn:L; [|eauto].
    pose proof (E p s L) as B.
    assert (X : errc s >=? U32_MAX = false) by lia. rewrite X.
    destruct (peer_event_total (n + 1) st p (fun v => v1 <- v_conn_err p v ;; v_lf_purge p v1)
                (set_errc (errc s + 1) (set_conn CErrored s))) as (a1 & s1 & o1 & H1 & E1);
      [exact E' | apply vtot_bind; [apply vt_conn_err | apply vt_lf_purge] | cbn; lia |].
    cbn beta in H1.
    destruct (v_conn_err p (ax st, set_errc (errc s + 1) (set_conn CErrored s), [])) as [v1| |]; cbn [bind] in *; try discriminate.
    rewrite H1. cbn [bind]. eauto.
  - apply on_inbound_all_total; assumption.
  - unfold on_outbound. destruct (lookup p (peers st)) as [s|] eqn:L; [|eauto].
    do 2 eexists. split; [reflexivity|]. apply errinv_insert; [exact E'|].
    assert (X : errc (apply_msg s m) = errc s).
    { unfold apply_msg, via. repeat match goal with |- context[match ?x with _ => _ end] => destruct x end; reflexivity. }
    rewrite X. exact (E' p s L).
Qed.

Lemma run_total c : forall evs n st,
  Good c st -> ErrInv n st -> 0 <= n -> n + Z.of_nat (length evs) <= U32_MAX ->
  exists st' outs, run c st evs = Ok (st', outs).
Proof.
  induction evs as [|e rest IH]; intros n st G E N B; cbn [run]; [eauto|].
  cbn [length] in B.
  destruct (step_total c n st e G E ltac:(lia)) as (st1 & o1 & H1 & E1). rewrite H1. cbn [bind].
  destruct (step_good _ _ _ _ _ G H1) as (G1 & _).
  destruct (IH (n + 1) st1 G1 E1 ltac:(lia) ltac:(lia)) as (st2 & o2 & H2). rewrite H2. cbn [bind]. eauto.
Qed.

Lemma initiator_total_proof c evs :
  wf_cfg c -> Z.of_nat (length evs) <= U32_MAX -> exists st outs, run c init evs = Ok (st, outs).
Proof.
  intros (H1 & H2 & H3) B. apply (run_total c evs 0 init).
  - apply good_init; assumption.
  - intros p s L. cbn in L. discriminate.
  - lia.
  - lia.
Qed.

(* ================================================================== responder *)
Definition RInv (n : Z) (st : rst) : Prop :=
  Forall (fun e => 0 <= rerrc (snd e) <= n) (rpeers st) /\
  Forall (fun e => snd e <= n) (per_ip (rc st)) /\
  active (rc st) <= n.

Lemma ip_get_In h l v : ip_get h l = Some v -> In (h, v) l.
Proof.
  induction l as [|[k w] r IH]; cbn [ip_get]; [discriminate|].
  destruct (k =? h) eqn:E; intros H.
  - apply Z.eqb_eq in E. inversion H; subst. left; reflexivity.
  - right. apply IH, H.
Qed.
Lemma ip_set_Forall (P : Z * Z -> Prop) h v l : Forall P l -> (forall k, P (k, v)) -> Forall P (ip_set h v l).
Proof.
  intros F Hv. induction F as [|[k w] r Hx F IH]; cbn [ip_set]; [constructor; [apply Hv | constructor]|].
  destruct (k =? h); constructor; auto.
Qed.
Lemma filter_Forall {A} (P : A -> Prop) f l : Forall P l -> Forall P (filter f l).
Proof. induction 1 as [|x r Hx F IH]; cbn [filter]; [constructor|]. destruct (f x); [constructor|]; assumption. Qed.
Lemma rlookup_In p l s : rlookup p l = Some s -> In (p, s) l.
Proof.
  induction l as [|[q s'] r IH]; cbn [rlookup]; [discriminate|].
  destruct (q =? p) eqn:E; intros H.
  - apply Z.eqb_eq in E. inversion H; subst. left; reflexivity.
  - right. apply IH, H.
Qed.
Lemma rinsert_Forall (P : Z * rstate -> Prop) p s l : Forall P l -> (forall q, P (q, s)) -> Forall P (rinsert p s l).
Proof.
  intros F Hv. induction F as [|[k w] r Hx F IH]; cbn [rinsert]; [constructor; [apply Hv | constructor]|].
  destruct (k =? p); constructor; auto.
Qed.
Lemma Forall_mono_Z {A} (f : A -> Z) lo n m l : Forall (fun e => lo e <= f e <= n) l -> n <= m -> Forall (fun e => lo e <= f e <= m) l.
Proof. intros F L. eapply Forall_impl; [|exact F]. cbn. intros a H. lia. Qed.

Lemma rinv_mono n m st : RInv n st -> n <= m -> RInv m st.
Proof.
  intros (A & B & C) L. repeat split.
  - eapply Forall_impl; [|exact A]. cbn. intros a H. lia.
  - eapply Forall_impl; [|exact B]. cbn. intros a H. lia.
  - lia.
Qed.

Lemma r_apply_msg_errc s m : rerrc (r_apply_msg s m) = rerrc s.
Proof. unfold r_apply_msg, rvia. repeat match goal with |- context[match ?x with _ => _ end] => destruct x end; reflexivity. Qed.

(* the negotiated version is one of ours, so the table index cannot fail *)
Lemma negotiate_ours ours proposed v m : negotiate ours proposed = Some (v, m) -> vlookup v ours <> None.
Proof.
  unfold negotiate.
  assert (G : forall acc, (forall e, acc = Some e -> vlookup (fst e) ours <> None) ->
     forall e, fold_left (fun best e0 =>
        match vlookup (fst e0) ours with
        | None => best
        | Some _ => match best with None => Some e0 | Some b => if fst b <=? fst e0 then Some e0 else best end
        end) proposed acc = Some e -> vlookup (fst e) ours <> None).
  { induction proposed as [|x r IH]; intros acc Q e; cbn [fold_left]; [apply Q|].
    apply IH. intros e' H. destruct (vlookup (fst x) ours) eqn:V; [|apply Q, H].
    destruct acc as [b|]; [destruct (fst b <=? fst x)|]; try (inversion H; subst; congruence). apply Q, H. }
  intros H. apply (G None (fun e X => ltac:(discriminate)) (v, m) H).
Qed.

Lemma r_proto_inbound_total cf p m s :
  exists s' o, r_proto_inbound cf p m s = Ok (s', o) /\ rerrc s' = rerrc s.
Proof.
  unfold r_proto_inbound, r_try_accept.
  destruct (proto_of m); try destruct p0; try destruct p0; try destruct p0; try destruct p0; try destruct p0;
  repeat match goal with
  | |- context[negotiate ?a ?b] => destruct (negotiate a b) as [[v mg]|] eqn:N;
       [pose proof (negotiate_ours _ _ _ _ N); destruct (vlookup v a) eqn:?; [|congruence]|]
  | |- context[match ?x with _ => _ end] => destruct x eqn:?
  end; try (do 2 eexists; split; reflexivity).
Qed.

Lemma r_on_inbound_total cf n p m st out :
  RInv n st -> exists st' out', r_on_inbound cf p (st, out) m = Ok (st', out') /\ RInv n st'.
Proof.
  intros (A & B & C). unfold r_on_inbound. destruct (rlookup p (rpeers st)) as [s|] eqn:L.
  2:{ do 2 eexists. split; [reflexivity | repeat split; assumption]. }
  assert (Bs : 0 <= rerrc s <= n).
  { apply rlookup_In in L. rewrite Forall_forall in A. exact (A _ L). }
  destruct (rviol (r_apply_msg s m)).
  - do 2 eexists. split; [reflexivity|]. repeat split; cbn [rpeers rc]; try assumption.
    apply rinsert_Forall; [exact A | intros q; cbn [snd]; rewrite r_apply_msg_errc; exact Bs].
  - destruct (r_proto_inbound_total cf p m (r_apply_msg s m)) as (s2 & o & H & E). rewrite H. cbn [bind].
    do 2 eexists. split; [reflexivity|]. repeat split; cbn [rpeers rc]; try assumption.
    apply rinsert_Forall; [exact A | intros q; cbn [snd]; rewrite E, r_apply_msg_errc; exact Bs].
Qed.
Lemma r_on_inbound_all_total cf n p ms : forall st out,
  RInv n st -> exists st' out', r_on_inbound_all cf p (st, out) ms = Ok (st', out') /\ RInv n st'.
Proof.
  induction ms as [|m rest IH]; intros st out R; cbn [r_on_inbound_all]; [eauto|].
  destruct (r_on_inbound_total cf n p m st out R) as (st1 & o1 & H1 & R1). rewrite H1. cbn [bind]. apply IH, R1.
Qed.

Lemma r_hk_loop_inv cf n order : forall st out, RInv n st -> RInv n (fst (r_hk_loop cf order (st, out))).
Proof.
  induction order as [|p rest IH]; intros st out R; cbn [r_hk_loop]; [exact R|].
  destruct (rlookup p (rpeers st)) as [s|]; [|apply IH, R].
  destruct (r_visit_hk cf p (rc st) s) as [cb1 o] eqn:V. apply IH.
  destruct R as (A & B & C). unfold r_visit_hk in V.
  destruct (r_needs_ban cf p (rc st) s); [|destruct (r_needs_disconnect p (rc st) s)]; inversion V; subst;
    repeat split; cbn [rpeers rc per_ip active]; assumption.
Qed.

Theorem rstep_total cf n st e :
  RInv n st -> 0 <= n < U32_MAX ->
  exists st' out, rstep cf st e = Ok (st', out) /\ RInv (n + 1) st'.
Proof.
  intros R N. assert (R' : RInv (n + 1) st) by (apply (rinv_mono n); [exact R | lia]).
  destruct e; cbn [rstep].
  - pose proof (r_hk_loop_inv cf (n + 1) (canon order (rkeys st)) st [] R') as X.
    destruct (r_hk_loop cf (canon order (rkeys st)) (st, [])) as [st1 o1] eqn:H.
    do 2 eexists. split; [reflexivity | exact X].
  - eauto.
  - do 2 eexists. split; [reflexivity|]. destruct R' as (A & B & C). repeat split; assumption.
  - eauto.
  - (* RConnected *)
    destruct R as (A & B & C). destruct R' as (A' & B' & C').
    unfold r_visit_connected. destruct (mem p (rbanned (rc st))).
    { cbn [bind]. do 2 eexists. split; [reflexivity|]. repeat split; cbn [rpeers rc]; try assumption.
      apply rinsert_Forall; [exact A' | intros q; cbn; lia]. }
    set (old := match ip_get (host_of p) (per_ip (rc st)) with Some v => v | None => 0 end).
    assert (O : old <= n).
    { unfold old. destruct (ip_get _ _) as [v|] eqn:G; [|lia]. apply ip_get_In in G. rewrite Forall_forall in B. exact (B _ G). }
    assert (X : old >=? USIZE_MAX = false) by (unfold USIZE_MAX, U32_MAX in *; lia). rewrite X.
    assert (IPS : Forall (fun e => snd e <= n + 1) (ip_set (host_of p) (old + 1) (per_ip (rc st)))).
    { apply ip_set_Forall; [exact B' | intros k; cbn; lia]. }
    assert (PS : Forall (fun e => 0 <= rerrc (snd e) <= n + 1) (rinsert p (rset_conn CConnected rnew) (rpeers st))).
    { apply rinsert_Forall; [exact A' | intros q; cbn; lia]. }
    destruct (old + 1 >? rmax_ip cf).
    { cbn [bind]. do 2 eexists. split; [reflexivity|]. repeat split; cbn [rpeers rc per_ip active]; assumption. }
    cbn [accepted active].
    destruct (mem p (accepted (rc st))).
    { cbn [bind]. do 2 eexists. split; [reflexivity|]. repeat split; cbn [rpeers rc per_ip active]; assumption. }
    assert (Y : active (rc st) >=? USIZE_MAX = false) by (unfold USIZE_MAX, U32_MAX in *; lia). rewrite Y.
    cbn [bind]. do 2 eexists. split; [reflexivity|]. repeat split; cbn [rpeers rc per_ip active]; try assumption. lia.
  - (* RDisconnected *)
    do 2 eexists. split; [reflexivity|]. destruct R' as (A & B & C).
    assert (PS : Forall (fun e => 0 <= rerrc (snd e) <= n + 1) (rremove p (rpeers st))) by (apply filter_Forall, A).
    destruct (rlookup p (rpeers st)); [|repeat split; cbn [rpeers rc]; assumption].
    unfold r_visit_disconnected.
    assert (IPS : Forall (fun e => snd e <= n + 1)
      match ip_get (host_of p) (per_ip (rc st)) with
      | Some v => let v' := Z.max 0 (v - 1) in
                  if v' =? 0 then ip_del (host_of p) (per_ip (rc st)) else ip_set (host_of p) v' (per_ip (rc st))
      | None => per_ip (rc st) end).
    { destruct (ip_get _ _) as [v|] eqn:G; [|exact B]. cbn zeta.
      apply ip_get_In in G. rewrite Forall_forall in B. pose proof (B _ G) as Bv. cbn in Bv.
      destruct (Z.max 0 (v - 1) =? 0); [apply filter_Forall; rewrite Forall_forall; exact B|].
      apply ip_set_Forall; [rewrite Forall_forall; exact B | intros k; cbn; lia]. }
    destruct (mem p (accepted (rc st))); repeat split; cbn [rpeers rc per_ip active]; try assumption; lia.
  - (* RError *)
    destruct (rlookup p (rpeers st)) as [s|] eqn:L; [|eauto].
    destruct R as (A & B & C). destruct R' as (A' & B' & C').
    assert (Bs : 0 <= rerrc s <= n).
    { apply rlookup_In in L. rewrite Forall_forall in A. exact (A _ L). }
    assert (X : rerrc s >=? U32_MAX = false) by lia. rewrite X.
    do 2 eexists. split; [reflexivity|]. repeat split; cbn [rpeers rc]; try assumption.
    apply rinsert_Forall; [exact A' | intros q; cbn; lia].
  - apply r_on_inbound_all_total, R'.
  - destruct (rlookup p (rpeers st)) as [s|] eqn:L; [|eauto].
    destruct R' as (A & B & C).
    assert (Bs : 0 <= rerrc s <= n + 1).
    { apply rlookup_In in L. rewrite Forall_forall in A. exact (A _ L). }
    do 2 eexists. split; [reflexivity|]. repeat split; cbn [rpeers rc]; try assumption.
    apply rinsert_Forall; [exact A | intros q; cbn [snd]; rewrite r_apply_msg_errc; exact Bs].
Qed.

Lemma rrun_total cf : forall evs n st,
  RInv n st -> 0 <= n -> n + Z.of_nat (length evs) <= U32_MAX -> exists st' outs, rrun cf st evs = Ok (st', outs).
Proof.
  induction evs as [|e rest IH]; intros n st R N B; cbn [rrun]; [eauto|].
  cbn [length] in B.
  destruct (rstep_total cf n st e R ltac:(lia)) as (st1 & o1 & H1 & R1). rewrite H1. cbn [bind].
  destruct (IH (n + 1) st1 R1 ltac:(lia) ltac:(lia)) as (st2 & o2 & H2). rewrite H2. cbn [bind]. eauto.
Qed.

Lemma responder_total_proof cf evs :
  Z.of_nat (length evs) <= U32_MAX -> exists st outs, rrun cf rinit evs = Ok (st, outs).
Proof.
  intros B. apply (rrun_total cf evs 0 rinit); [|lia|lia].
  repeat split; cbn; try constructor; lia.
Qed.
