(* C33 correspondence: a case is (overflow-checks profile, tx, UTxO set, environment,
   validate_tx outcome of the implementation, outcomes of the era validator's rule functions).
   The model must reproduce the end-to-end outcome class and every per-rule outcome class. *)
From PV Require Import Lib.Base C33.Model C33.ModelPA.
Open Scope Z_scope.
Definition case : Type := (bool * tx * utxo * env * outcome unit * list (outcome unit)).
Definition oc_eqb (a b : outcome unit) : bool :=
  match a, b with
  | Ok _, Ok _ => true
  | Err x, Err y => x =? y
  | Panic _, Panic _ => true
  | _, _ => false
  end.
Definition case_out (c : case) : outcome unit * list (outcome unit) :=
  let '(dev, t, u, e, _, _) := c in (validate dev t u e, era_checks dev t u e).
Definition case_ok (c : case) : bool :=
  let '(dev, t, u, e, e2e, obs) := c in
  oc_eqb (validate dev t u e) e2e && (is_nil obs || list_eqb oc_eqb (era_checks dev t u e) obs)
  (* every generated case lies inside the hypotheses of validate_total *)
  && wf_params (e_pp e) && wf_tx t && wf_utxo u.
