(* C28, delayed confirmations (Async schedules): visitor effects, the asynchronous per-peer invariant, emit_block. *)
From PV Require Import Lib.Base P2p.Proto P2p.Initiator P2p.Spec C27.Proofs C28.Model
  C28.Abs C28.Refine C28.Visitors C28.Emit C28.SettleBlock C28.Inv C28.Events C28.Blocks C28.Proofs.
From PV Require Import C28.AsyncSpec C28.AsyncRelU.
Open Scope Z_scope.

(* ---- effect of the visitors on the connection state and on RelU ---- *)
Definition uvis (f : vst -> outcome vst) : Prop :=
  forall a s out a' s' out', f (a, s, out) = Ok (a', s', out') ->
    (connected s' -> connected s) /\ (forall wb, RelU s wb -> RelU s' wb).
Lemma uvis_bind f g : uvis f -> uvis g -> uvis (fun v => x <- f v ;; g x).
Proof.
  intros Hf Hg a s out a' s' out' H. destruct (f (a, s, out)) as [[[a1 s1] o1]| |] eqn:E; cbn [bind] in H; try discriminate.
  apply Hf in E as [C1 R1]. apply Hg in H as [C2 R2]. split; auto.
Qed.
Lemma uvis_same f :
  (forall a s out a' s' out', f (a, s, out) = Ok (a', s', out') -> conn s' = conn s /\ cs s' = cs s) -> uvis f.
Proof.
  intros H a s out a' s' out' E. apply H in E as [C K]. unfold connected, RelU. rewrite C, K. auto.
Qed.
Ltac same_tac f := apply uvis_same; intros a s out a' s' out' H; unfold f, emit, bind in H; repeat bm H; try discriminate;
  inversion H; subst; split; reflexivity.
Lemma uv_disc_in p : uvis (v_disc_inbound p). Proof. same_tac v_disc_inbound. Qed.
Lemma uv_bf_in p : uvis (v_bf_inbound p). Proof. same_tac v_bf_inbound. Qed.
Lemma uv_ln_in p : uvis (v_ln_inbound p). Proof. same_tac v_ln_inbound. Qed.
Lemma uv_lf_in p : uvis (v_lf_inbound p). Proof. same_tac v_lf_inbound. Qed.
Lemma uv_hs_in p : uvis (v_hs_inbound p).
Proof.
  intros a s out a' s' out' H. unfold v_hs_inbound in H. unfold connected, RelU.
  destruct (conn s) eqn:C; try (inversion H; subst; rewrite C; auto).
  destruct (hs s); inversion H; subst; cbn; rewrite ?C; auto.
Qed.
Lemma uv_cs_in p : uvis (v_cs_inbound p).
Proof.
  intros a s out a' s' out' H. unfold v_cs_inbound in H. unfold connected, RelU.
  destruct (negb (cs_syncing s)) eqn:Sy; [inversion H; subst; auto|].
  unfold cs_syncing in Sy. apply negb_false_iff, negb_true_iff in Sy.
  destruct (cs s) as [d| | | |] eqn:Cs; cbn [cs_drain] in H; try (inversion H; subst; rewrite Cs; auto).
  assert (Nn : CsSIdle d <> CsSIdle CdNew) by (intros X; inversion X; subst; discriminate).
  destruct d; inversion H; subst; cbn; (split; [auto|]); intros wb [R|R]; try congruence; right; exact R.
Qed.
Lemma uv_inbound_rest p : uvis (inbound_rest p).
Proof.
  unfold inbound_rest. apply uvis_bind; [apply uv_hs_in|]. apply uvis_bind; [apply uv_disc_in|]. apply uvis_bind; [apply uv_bf_in|].
  apply uvis_bind; [apply uv_cs_in|]. apply uvis_bind; [apply uv_ln_in|]. apply uv_lf_in.
Qed.

(* housekeeping / tag / connected visitors: the connection state stays, or becomes Connecting *)
Definition kvis (f : vst -> outcome vst) : Prop :=
  forall a s out a' s' out', f (a, s, out) = Ok (a', s', out') -> conn s' = conn s \/ conn s' = CConnecting.
Lemma kvis_bind f g : kvis f -> kvis g -> kvis (fun v => x <- f v ;; g x).
Proof.
  intros Hf Hg a s out a' s' out' H. destruct (f (a, s, out)) as [[[a1 s1] o1]| |] eqn:E; cbn [bind] in H; try discriminate.
  apply Hf in E. apply Hg in H. destruct H as [H|H]; [rewrite H; exact E | right; exact H].
Qed.
Ltac k_tac f := intros a s out a' s' out' H; unfold f, emit, bind in H; repeat bm H; try discriminate; inversion H; subst; cbn; auto.
Lemma kv_conn p : kvis (v_conn_hk p).
Proof.
  intros a s out a' s' out' H. unfold v_conn_hk in H. destruct (needs_connection s).
  - destruct (needs_disconnect (set_conn CConnecting s)); inversion H; subst; right; reflexivity.
  - destruct (needs_disconnect s); inversion H; subst; left; reflexivity.
Qed.
Lemma kv_ka p : kvis (v_ka_hk p). Proof. k_tac v_ka_hk. Qed.
Lemma kv_disc p : kvis (v_disc_hk p). Proof. k_tac v_disc_hk. Qed.
Lemma kv_bf p : kvis (v_bf_hk p). Proof. k_tac v_bf_hk. Qed.
Lemma kv_cs p : kvis (v_cs_hk p). Proof. k_tac v_cs_hk. Qed.
Lemma kv_ln p : kvis (v_ln_hk p). Proof. k_tac v_ln_hk. Qed.
Lemma kv_lf p : kvis (v_lf_hk p). Proof. k_tac v_lf_hk. Qed.
Lemma kv_tagged p : kvis (v_cs_tagged p). Proof. k_tac v_cs_tagged. Qed.
Lemma kv_connected p : kvis (v_hs_connected p). Proof. k_tac v_hs_connected. Qed.
Lemma kv_hk_rest p : kvis (hk_rest p).
Proof.
  unfold hk_rest. apply kvis_bind; [apply kv_conn|]. apply kvis_bind; [apply kv_ka|]. apply kvis_bind; [apply kv_disc|].
  apply kvis_bind; [apply kv_bf|]. apply kvis_bind; [apply kv_cs|]. apply kvis_bind; [apply kv_ln|]. apply kv_lf.
Qed.
Lemma categorize_conn c p pr0 s pr1 s1 : categorize c p pr0 s = Ok (pr1, s1) -> conn s1 = conn s.
Proof.
  unfold categorize, ban_peer, promote_cold, promote_warm, bind, usub.
  repeat match goal with |- context[if ?x then _ else _] => destruct x end; intros H; inversion H; subst; reflexivity.
Qed.
Lemma kconn_connected s s1 : (conn s1 = conn s \/ conn s1 = CConnecting) -> connected s1 -> connected s.
Proof. unfold connected. intros [E|E]; rewrite E; auto. intros [X|X]; discriminate. Qed.
Lemma SFi_RelU s s1 wb : SFi s s1 -> RelU s wb -> RelU s1 wb.
Proof. intros (_&_&_&_&_&A6&_). unfold RelU. rewrite A6. auto. Qed.

(* ---- the asynchronous per-peer invariant ---- *)
Definition AInvP (s : pstate) (x : penv) : Prop :=
  (lk x = LDown -> DefaultProto s /\ pend x = []) /\
  (connected s -> live x = true) /\
  exists wb, fold_cstep wb (pend x) = Some (wire x) /\
    (live x = true -> Rel s wb /\ Acc s) /\ (live x = false -> RelU s wb).

Lemma init_connected s : is_init s = true -> connected s.
Proof. unfold is_init, connected. destruct (conn s); try discriminate; auto. Qed.

(* when no emission of the message's protocol is pending, an emitter's message is permitted on the wire *)
Lemma permit s x m :
  AInvP s x -> epre s m -> ~ In (proto_of m) (protos (pend x)) ->
  (proto_of m <> 0 \/ (pend x = [] /\ live x = true)) ->
  exists w', cstep (wire x) m = Some w'.
Proof.
  intros (_ & CL & wb & F & LV & NL) E N Z.
  assert (HB : exists wx, cstep wb m = Some wx).
  { destruct (live x) eqn:L.
    - destruct (LV eq_refl) as [R A]. exact (epre_permitted s wb m R A E).
    - specialize (NL eq_refl).
      assert (NI : is_init s = false).
      { destruct (is_init s) eqn:I; [|reflexivity]. specialize (CL (init_connected s I)). congruence. }
      destruct m; cbn [epre] in E; try contradiction; try (destruct E as (I & _); congruence).
      + destruct Z as [Z|[_ Z]]; [cbn in Z; lia | discriminate].
      + destruct E as (d & K & Nn). destruct NL as [NL|[NL A]]; [congruence|].
        rewrite K in NL. cbn in NL. cbn [cstep]. rewrite A. cbn [guard]. rewrite <- NL. eexists. reflexivity. }
  destruct HB as (wx & C).
  destruct (Z.eq_dec (proto_of m) 0) as [Z0|NZ].
  - destruct Z as [Z|[Z _]]; [contradiction|]. rewrite Z in F. cbn in F. inversion F; subst. eauto.
  - destruct (cstep_hs _ _ _ C NZ) as [_ A]. destruct (fold_no_hs _ _ _ A F) as [FN _].
    eapply fold_frame; eassumption.
Qed.

Definition SInvA (st : ist) (e : env) : Prop :=
  NoDup (map fst (peers st)) /\
  forall p, match lookup p (peers st) with Some s => AInvP s (eget p e) | None => UInv (eget p e) end.
Definition peer_okA (st : ist) (e : env) (q : Z) : Prop :=
  match lookup q (peers st) with Some t => AInvP t (eget q e) | None => UInv (eget q e) end.

Lemma same_proto_false m l : same_proto m l = false -> ~ In (proto_of m) (protos l).
Proof.
  unfold same_proto, protos. intros H I. apply in_map_iff in I as (y & E & Iy).
  assert (X : existsb (fun x => proto_of x =? proto_of m) l = true) by (apply existsb_exists; exists y; split; [exact Iy | lia]).
  congruence.
Qed.
Lemma live_not_down x : live x = true -> lk x <> LDown.
Proof. unfold live. destruct (lk x); [rewrite andb_false_r; discriminate | discriminate | discriminate]. Qed.

(* the sends of one visit to a tracked peer go on the wire; the peer state does not move (Async) *)
Lemma emit_block i e0 p s : forall ms prev e rest,
  AInvP s (eget p e) -> pend (eget p e) = pend (eget p e0) ++ prev ->
  Forall (epre s) ms ->
  (Forall (fun m => proto_of m <> 0) ms \/ (pend (eget p e) = [] /\ live (eget p e) = true /\ (length ms <= 1)%nat)) ->
  NoDup (protos (prev ++ ms)) ->
  (exists m, emit_all i e0 e (map (pair p) ms ++ rest) = inr (VViolation i p m true)) \/
  (exists e', emit_all i e0 e (map (pair p) ms ++ rest) = emit_all i e0 e' rest /\
      AInvP s (eget p e') /\ (forall q, q <> p -> eget q e' = eget q e) /\
      lk (eget p e') = lk (eget p e) /\ synced (eget p e') = synced (eget p e)).
Proof.
  induction ms as [|m ms IH]; intros prev e rest A PE F Z N.
  - right. exists e. cbn [map app]. split; [reflexivity|]. split; [exact A|]. split; [intros q _; reflexivity|]. split; reflexivity.
  - inversion F as [|? ? Em Fr]; subst. cbn [map app emit_all]. unfold emit_one.
    set (x := eget p e) in *.
    assert (Zm : proto_of m <> 0 \/ (pend x = [] /\ live x = true)).
    { destruct Z as [Z|(Z1 & Z2 & _)]; [left; inversion Z; assumption | right; split; assumption]. }
    assert (Nm : ~ In (proto_of m) (protos prev)).
    { unfold protos in N. rewrite map_app in N. cbn [map] in N. apply NoDup_remove_2 in N.
      intros I. apply N. apply in_or_app. left. exact I. }
    destruct (cstep (wire x) m) as [w1|] eqn:C.
    + (* permitted: extend the pending list *)
      assert (ND : lk x <> LDown).
      { intros D. destruct A as (DC & CL & _). destruct (DC D) as [Df _].
        destruct Zm as [Zm|[_ Zm]]; [|exact (live_not_down _ Zm D)].
        assert (NI : is_init s = true -> False).
        { intros I. specialize (CL (init_connected s I)). exact (live_not_down _ CL D). }
        destruct Df as (D1 & D2 & D3 & D4 & D5 & D6 & D7 & D8).
        destruct m; cbn [epre] in Em; cbn [proto_of] in Zm; try contradiction; try lia; try (destruct Em as (I & _); exact (NI I)).
        destruct Em as (d & K & Nn). rewrite D5 in K. inversion K. congruence. }
      set (e1 := eset p (mkPE (lk x) (synced x) w1 (pend x ++ [m])) e).
      assert (G1 : eget p e1 = mkPE (lk x) (synced x) w1 (pend x ++ [m])) by apply eget_eset_eq.
      assert (A1 : AInvP s (eget p e1)).
      { rewrite G1. destruct A as (DC & CL & wb & Fw & LV & NL).
        split; [intros D; cbn in D; contradiction|]. split; [exact CL|].
        exists wb. cbn [pend wire]. split; [rewrite fold_cstep_app, Fw; cbn [fold_cstep]; rewrite C; reflexivity|].
        split; [exact LV | exact NL]. }
      destruct (IH (prev ++ [m]) e1 rest A1) as [V|(e' & H1 & H2 & H3 & H4 & H5)].
      * rewrite G1. cbn [pend]. rewrite PE, app_assoc. reflexivity.
      * exact Fr.
      * destruct Z as [Z|(_ & _ & Z3)]; [left; inversion Z; assumption|].
        destruct ms; [left; constructor | cbn in Z3; lia].
      * rewrite <- app_assoc. exact N.
      * left. exact V.
      * right. exists e'. split; [exact H1|]. split; [exact H2|]. split.
        { intros q Nq. rewrite (H3 q Nq). unfold e1. apply eget_eset_neq, Nq. }
        rewrite H4, H5, G1. split; reflexivity.
    + (* not permitted: then an emission of the same protocol from an earlier step is still pending *)
      left. exists m. f_equal. f_equal.
      destruct (same_proto m (pend (eget p e0))) eqn:SP; [reflexivity|]. exfalso.
      apply same_proto_false in SP.
      destruct (permit s x m A Em) as (w' & C'); [|exact Zm | congruence].
      rewrite PE. unfold protos. rewrite map_app. intros I. apply in_app_iff in I as [I|I]; [exact (SP I) | exact (Nm I)].
Qed.

(* transfer of the invariant to a state with the same protocol fields *)
Lemma PF_RelU s s1 wb : PF s s1 -> RelU s wb -> RelU s1 wb.
Proof. intros (_&_&_&_&_&A6&_). unfold RelU. rewrite A6. auto. Qed.
Lemma ainv_PF s s1 x : AInvP s x -> PF s s1 -> (connected s1 -> connected s) -> AInvP s1 x.
Proof.
  intros (DC & CL & wb & F & LV & NL) P K.
  split; [intros D; destruct (DC D) as [Df Pe]; split; [eapply PF_Default; eassumption | exact Pe]|].
  split; [intros C; apply CL, K, C|]. exists wb. split; [exact F|].
  split; [intros L; destruct (LV L) as [R A]; split; [eapply PF_Rel | eapply PF_Acc]; eassumption
         | intros L; eapply PF_RelU; [exact P | apply NL, L]].
Qed.
