(* C01, decoder side, continued: word / integer / char / byte arrays / utf8. *)
From PV Require Import Lib.Base Flat.Model Flat.Encoder Flat.Bits Flat.DecSafe Flat.DecTotal Flat.EncProofs Flat.DecProofs.
Open Scope Z_scope.

(* ---------- word ---------- *)
Lemma land_disjoint final w shl : 0 <= shl -> 0 <= final < 2 ^ shl -> Z.land final (w * 2 ^ shl) = 0.
Proof.
  intros Hs Hf. apply Z.bits_inj'. intros n Hn. rewrite Z.land_spec, Z.bits_0.
  destruct (Z_lt_dec n shl).
  - rewrite Z.mul_pow2_bits_low by lia. apply andb_false_r.
  - rewrite <- (Z.mod_small final (2 ^ shl)) by lia. rewrite Z.mod_pow2_bits_high by lia. reflexivity.
Qed.
Lemma lor_disjoint final w shl : 0 <= shl -> 0 <= final < 2 ^ shl -> Z.lor final (w * 2 ^ shl) = final + w * 2 ^ shl.
Proof.
  intros Hs Hf. pose proof (land_disjoint final w shl Hs Hf) as H.
  rewrite <- Z.lxor_lor by exact H. symmetry. apply Z.add_nocarry_lxor, H.
Qed.

Lemma word_bytes_go_wf f : forall c, 0 <= c -> bytes_wf (word_bytes_go f c).
Proof.
  induction f as [|f IH]; intros c Hc; cbn [word_bytes_go]; [constructor|].
  assert (0 <= c mod 128 < 128) by (apply Z.mod_pos_bound; lia).
  destruct (c / 128 =? 0) eqn:E.
  - constructor; [unfold byte; lia | constructor].
  - constructor; [unfold byte; lia | apply IH; apply Z.div_pos; lia].
Qed.

Lemma word_loop_dec fw : forall c final shl fuel st post,
  (fw <> 0)%nat -> 0 <= c < 2 ^ (7 * Z.of_nat fw) -> 0 <= shl < 64 -> c * 2 ^ shl < 2 ^ 64 ->
  0 <= final < 2 ^ shl -> dinv st -> rem st < Z.of_nat fuel ->
  drest st = bytes_bits (word_bytes_go fw c) ++ post ->
  exists st', word_loop fuel final shl st = (Ok (final + c * 2 ^ shl), st') /\ dinv st' /\
              d_buf st' = d_buf st /\ drest st' = post /\
              d_off st' = d_off st + Z.of_nat (length (bytes_bits (word_bytes_go fw c))).
Proof.
  induction fw as [|f IH]; intros c final shl fuel st post Hfw Hc Hshl Hfit Hfin Hs Hfuel Hr; [congruence|].
  cbn [word_bytes_go] in *.
  set (r := c mod 128) in *. set (q := c / 128) in *.
  assert (Hrq : c = 128 * q + r) by (unfold q, r; apply Z.div_mod; lia).
  assert (Hr0 : 0 <= r < 128) by (apply Z.mod_pos_bound; lia).
  assert (Hq0 : 0 <= q) by (apply Z.div_pos; lia).
  set (P := 2 ^ shl) in *. assert (HP : 0 < P) by (apply Z.pow_pos_nonneg; lia).
  (* the group byte *)
  set (g := if q =? 0 then r else r + 128).
  assert (Hg : 0 <= g < 256) by (unfold g; destruct (q =? 0); lia).
  assert (Hg7 : g mod 128 = r) by (unfold g; destruct (q =? 0); lia).
  assert (Hgc : (128 <=? g) = negb (q =? 0)) by (unfold g; destruct (q =? 0); cbn [negb]; lia).
  set (tl := if q =? 0 then [] else word_bytes_go f q).
  assert (Hgl : (if q =? 0 then [r] else (r + 128) :: word_bytes_go f q) = g :: tl)
    by (unfold g, tl; destruct (q =? 0); reflexivity).
  rewrite Hgl in *. rewrite bytes_bits_cons, <- app_assoc in Hr.
  destruct fuel as [|fuel].
  { pose proof (drest_length st Hs) as HL. rewrite Hr, app_length, byte_bits_length in HL. rewrite rem_off in Hfuel. lia. }
  destruct (dec_u8_ok (d_used st) g Hg st _ Hs eq_refl Hr) as (st1 & E & Hs1 & Hb1 & Hr1 & Ho1).
  unfold dec_u8 in E. rewrite byte_bits_length in Ho1.
  cbn [word_loop]. unfold bind at 1. rewrite E. cbn zeta.
  destruct (d_w7_spec g Hg) as (Hw7 & Hw8). rewrite Hw7, Hw8, Hg7, Hgc.
  replace (shl >=? 64) with false by lia.
  assert (Ht : Z.shiftl r shl mod 2 ^ 64 = r * P).
  { rewrite Z.shiftl_mul_pow2 by lia. fold P. apply Z.mod_small. nia. }
  assert (Hback : Z.shiftr (r * P) shl = r).
  { rewrite Z.shiftr_div_pow2 by lia. fold P. apply Z.div_mul. lia. }
  unfold bind, lift, shl64, shr64.
  replace ((0 <=? shl) && (shl <? 64)) with true by lia. cbn [fst snd].
  rewrite Ht, Hback, Z.eqb_refl. cbn [negb fst snd].
  assert (Hlor : Z.lor final (r * P) = final + r * P) by (unfold P in *; apply lor_disjoint; lia).
  rewrite Hlor.
  destruct (q =? 0) eqn:Eq; cbn [negb].
  - (* last group *)
    assert (q = 0) by lia. subst tl. unfold ret.
    exists st1. split5; [f_equal; f_equal; nia | exact Hs1 | exact Hb1 | exact Hr1 |].
    rewrite Ho1, bytes_bits_cons, app_length, byte_bits_length. cbn [bytes_bits flat_map length]. lia.
  - assert (Hq1 : 1 <= q) by lia.
    assert (Hc2 : 0 <= q < 2 ^ (7 * Z.of_nat f)).
    { split; [lia|]. unfold q. apply Z.div_lt_upper_bound; [lia|].
      replace (7 * Z.of_nat (S f)) with (7 + 7 * Z.of_nat f) in Hc by lia.
      rewrite Z.pow_add_r in Hc by lia. change (2 ^ 7) with 128 in Hc. lia. }
    assert (Hf2 : f <> 0%nat) by (intros ->; cbn in Hc2; lia).
    assert (HP7 : 2 ^ (shl + 7) = 128 * P) by (rewrite Z.pow_add_r by lia; change (2 ^ 7) with 128; fold P; lia).
    assert (Hfit2 : q * 2 ^ (shl + 7) < 2 ^ 64) by (rewrite HP7; nia).
    assert (Hshl2 : 0 <= shl + 7 < 64).
    { split; [lia|]. apply (Z.pow_lt_mono_r_iff 2); [lia | lia |]. rewrite HP7 in *. nia. }
    destruct (IH q (final + r * P) (shl + 7) fuel st1 post Hf2 Hc2 Hshl2 Hfit2) as (st2 & E2 & Hs2 & Hb2 & Hr2 & Ho2); auto.
    { rewrite HP7. nia. }
    { rewrite rem_off in *. unfold d_len in *. rewrite Hb1. lia. }
    exists st2. split5; [rewrite E2; f_equal; f_equal; rewrite HP7; nia | exact Hs2 | congruence | exact Hr2 |].
    rewrite Ho2, Ho1. unfold tl. rewrite bytes_bits_cons, app_length, byte_bits_length. lia.
Qed.

(* pub fn word *)
Lemma dec_word_ok u c : 0 <= c < 2 ^ 64 -> dstep u dec_word c (bytes_bits (word_bytes c)).
Proof.
  intros Hc st post Hs _ Hr. unfold dec_word, bind, get.
  assert (H1 : 0 <= c < 2 ^ (7 * Z.of_nat 10)).
  { assert (2 ^ 64 <= 2 ^ (7 * Z.of_nat 10)) by (apply Z.pow_le_mono_r; lia). lia. }
  assert (H2 : c * 2 ^ 0 < 2 ^ 64) by (change (2 ^ 0) with 1; lia).
  assert (H3 : 0 <= 0 < 2 ^ 0) by (change (2 ^ 0) with 1; lia).
  destruct (word_loop_dec 10 c 0 0 (dec_fuel st) st post ltac:(discriminate) H1 ltac:(lia) H2 H3 Hs (fuel_ok' st Hs) Hr) as (st' & E & H).
  exists st'. rewrite E. replace (0 + c * 2 ^ 0) with c by (change (2 ^ 0) with 1; lia). exact (conj eq_refl H).
Qed.

(* zigzag *)
Lemma unzigzag_zigzag i : - 2 ^ 63 <= i < 2 ^ 63 -> 0 <= zigzag i < 2 ^ 64 /\ unzigzag (zigzag i) = i.
Proof.
  intros Hi. unfold zigzag, unzigzag.
  rewrite Z.shiftl_mul_pow2, Z.shiftr_div_pow2 by lia. change (2 ^ 1) with 2.
  destruct (Z_lt_dec i 0) as [Hn|Hp].
  - replace (i / 2 ^ 63) with (-1) by (apply Z.div_unique with (r := i + 2 ^ 63); lia).
    rewrite Z.lxor_m1_r. unfold Z.lnot. rewrite Z.mod_small by lia. split; [lia|].
    rewrite Z.shiftr_div_pow2 by lia. change (2 ^ 1) with 2.
    replace (Z.land (Z.pred (- (i * 2))) 1) with 1.
    2:{ change 1 with (Z.ones 1) at 2. rewrite Z.land_ones by lia. change (2 ^ 1) with 2. lia. }
    replace (Z.pred (- (i * 2)) / 2) with (- i - 1) by lia.
    change (- (1)) with (-1). rewrite Z.lxor_m1_r. unfold Z.lnot. lia.
  - replace (i / 2 ^ 63) with 0 by (symmetry; apply Z.div_small; lia).
    rewrite Z.lxor_0_r. rewrite Z.mod_small by lia. split; [lia|].
    rewrite Z.shiftr_div_pow2 by lia. change (2 ^ 1) with 2.
    replace (Z.land (i * 2) 1) with 0.
    2:{ change 1 with (Z.ones 1). rewrite Z.land_ones by lia. change (2 ^ 1) with 2. lia. }
    cbn [Z.opp]. rewrite Z.lxor_0_r. lia.
Qed.

(* pub fn integer *)
Lemma dec_integer_ok u i : - 2 ^ 63 <= i < 2 ^ 63 -> dstep u dec_integer i (bytes_bits (word_bytes (zigzag i))).
Proof.
  intros Hi st post Hs Hu Hr. destruct (unzigzag_zigzag i Hi) as (Hz & Hu').
  destruct (dec_word_ok u (zigzag i) Hz st post Hs Hu Hr) as (st' & E & H).
  exists st'. unfold dec_integer, bind. rewrite E. unfold ret. rewrite Hu'. exact (conj eq_refl H).
Qed.

(* pub fn char *)
Lemma scalar_range c : scalar_value c = true -> 0 <= c < 2 ^ 21.
Proof. unfold scalar_value. change (2 ^ 21) with 2097152. lia. Qed.

Lemma dec_char_ok u c : scalar_value c = true -> dstep u dec_char c (bytes_bits (word_bytes c)).
Proof.
  intros Hc st post Hs Hu Hr. pose proof (scalar_range c Hc) as Hr'.
  assert (Hc64 : 0 <= c < 2 ^ 64).
  { assert (2 ^ 21 <= 2 ^ 64) by (apply Z.pow_le_mono_r; lia). lia. }
  destruct (dec_word_ok u c Hc64 st post Hs Hu Hr) as (st' & E & H).
  exists st'. unfold dec_char, bind. rewrite E. cbn zeta.
  assert (Hm : c mod 2 ^ 32 = c).
  { apply Z.mod_small. assert (2 ^ 21 <= 2 ^ 32) by (apply Z.pow_le_mono_r; lia). lia. }
  rewrite Hm, Hc. exact (conj eq_refl H).
Qed.

(* ---------- byte arrays ---------- *)
Lemma app_inj_len {A} (a b x y : list A) : length a = length b -> a ++ x = b ++ y -> a = b /\ x = y.
Proof.
  revert b. induction a as [|h a IH]; intros [|h' b] Hl H; cbn in *; try discriminate; auto.
  inversion H; subst. destruct (IH b) as [-> ->]; auto.
Qed.

Lemma bytes_bits_inv B : forall X post, bytes_wf X -> bytes_wf B ->
  bytes_bits X = bytes_bits B ++ post -> exists R, X = B ++ R /\ bytes_bits R = post.
Proof.
  induction B as [|b B IH]; intros X post HX HB H.
  - exists X. auto.
  - destruct X as [|x X].
    { apply (f_equal (@length bool)) in H. rewrite bytes_bits_cons, !app_length, byte_bits_length in H. cbn in H. lia. }
    rewrite !bytes_bits_cons, <- app_assoc in H.
    apply app_inj_len in H as [H1 H2]; [|reflexivity].
    inversion HX; subst. inversion HB; subst.
    apply byte_bits_inj in H1; auto. subst x.
    destruct (IH X post) as (R & -> & HR); auto. exists R. auto.
Qed.

Lemma nth_skipn_add {A} (d : A) n i l : nth i (skipn n l) d = nth (n + i) l d.
Proof. revert l. induction n as [|n IH]; intros [|x l]; cbn; auto. destruct i; reflexivity. Qed.

Lemma blocks_go_nonempty f arr : blocks_go f arr <> [].
Proof. destruct f, arr; cbn; discriminate. Qed.

Lemma blk_loop_dec f : forall arr acc st fuel R,
  arr <> [] -> (length arr <= S f)%nat -> dinv st -> d_used st = 0 ->
  skipn (Z.to_nat (d_pos st)) (d_buf st) = firstn 255 arr ++ blocks_go f (skipn 255 arr) ++ R ->
  d_len st - d_pos st < Z.of_nat fuel ->
  exists st', blk_loop fuel (Z.of_nat (length (firstn 255 arr))) acc st = (Ok (acc ++ arr), st') /\
              d_buf st' = d_buf st /\ d_used st' = 0 /\
              d_pos st' = d_pos st + Z.of_nat (length (firstn 255 arr ++ blocks_go f (skipn 255 arr))).
Proof.
  induction f as [|f IH]; intros arr acc st fuel R Hne Hlen Hs Hu0 Hsk Hfuel;
    pose proof Hs as (Hp & Hu & He & Hl & Hw); unfold d_len in *;
    set (c := firstn 255 arr) in *; set (rest := skipn 255 arr) in *;
    assert (Harr : arr = c ++ rest) by (symmetry; apply firstn_skipn);
    assert (Hc1 : (1 <= length c <= 255)%nat)
      by (unfold c; rewrite firstn_length; destruct arr; [congruence | cbn [length]; lia]);
    assert (Hrl : length rest = (length arr - 255)%nat) by (apply skipn_length);
    pose proof (f_equal (@length Z) Hsk) as HskL; rewrite skipn_length, !app_length in HskL.
  - (* one chunk *)
    assert (Hrest : rest = []) by (destruct rest; [reflexivity | cbn [length] in Hrl; lia]).
    rewrite Hrest in *. cbn [blocks_go] in *. cbn [length] in HskL.
    destruct fuel as [|fuel]; [lia|].
    cbn [blk_loop]. replace (Z.of_nat (length c) =? 0) with false by lia.
    unfold ensure_bytes; unfold bind, get, lift, slice, idx, set_pos, ret, fail. cbn [fst snd d_buf d_pos d_used]. unfold d_len.
    replace (Z.of_nat (length c) + 1 >? Z.of_nat (length (d_buf st)) - d_pos st) with false by lia.
    repeat (match goal with |- context [if ?b then _ else _] => replace b with true by lia end; cbn [fst snd d_buf d_pos d_used]).
    replace (d_pos st + Z.of_nat (length c) - d_pos st) with (Z.of_nat (length c)) by lia. rewrite Nat2Z.id.
    rewrite Hsk. rewrite firstn_app, Nat.sub_diag, firstn_all. cbn [firstn]. rewrite app_nil_r.
    replace (nth (Z.to_nat (d_pos st + Z.of_nat (length c))) (d_buf st) 0) with 0.
    2:{ replace (Z.to_nat (d_pos st + Z.of_nat (length c))) with (Z.to_nat (d_pos st) + length c)%nat by lia.
        rewrite <- nth_skipn_add, Hsk, app_nth2, Nat.sub_diag by lia. reflexivity. }
    destruct fuel; cbn [blk_loop Z.eqb]; unfold ret; eexists; (split; [rewrite Harr, app_nil_r; reflexivity|]);
      cbn [d_buf d_pos d_used]; rewrite app_length; cbn [length]; repeat split; auto; lia.
  - destruct fuel as [|fuel]; [pose proof (blocks_go_nonempty (S f) rest); destruct (blocks_go (S f) rest); [congruence | cbn [length] in HskL; lia]|].
    assert (Hcase : rest = [] \/ rest <> []) by (destruct rest; [left; reflexivity | right; discriminate]).
    destruct Hcase as [Hrest|Hrne].
    + (* last chunk *)
      rewrite Hrest in *. cbn [blocks_go] in *. cbn [length] in HskL.
      cbn [blk_loop]. replace (Z.of_nat (length c) =? 0) with false by lia.
      unfold ensure_bytes; unfold bind, get, lift, slice, idx, set_pos, ret, fail. cbn [fst snd d_buf d_pos d_used]. unfold d_len.
      replace (Z.of_nat (length c) + 1 >? Z.of_nat (length (d_buf st)) - d_pos st) with false by lia.
      repeat (match goal with |- context [if ?b then _ else _] => replace b with true by lia end; cbn [fst snd d_buf d_pos d_used]).
      replace (d_pos st + Z.of_nat (length c) - d_pos st) with (Z.of_nat (length c)) by lia. rewrite Nat2Z.id.
      rewrite Hsk. rewrite firstn_app, Nat.sub_diag, firstn_all. cbn [firstn]. rewrite app_nil_r.
      replace (nth (Z.to_nat (d_pos st + Z.of_nat (length c))) (d_buf st) 0) with 0.
      2:{ replace (Z.to_nat (d_pos st + Z.of_nat (length c))) with (Z.to_nat (d_pos st) + length c)%nat by lia.
          rewrite <- nth_skipn_add, Hsk, app_nth2, Nat.sub_diag by lia. reflexivity. }
      destruct fuel; cbn [blk_loop Z.eqb]; unfold ret; eexists; (split; [rewrite Harr, app_nil_r; reflexivity|]);
        cbn [d_buf d_pos d_used]; rewrite app_length; cbn [length]; repeat split; auto; lia.
    + (* more chunks follow *)
      set (c' := firstn 255 rest) in *.
      assert (Hbg : blocks_go (S f) rest = Z.of_nat (length c') :: c' ++ blocks_go f (skipn 255 rest))
        by (unfold c'; destruct rest; [congruence | reflexivity]).
      rewrite Hbg in *. cbn [length] in HskL. rewrite app_length in HskL.
      assert (Hc'1 : (1 <= length c' <= 255)%nat) by (unfold c'; rewrite firstn_length; destruct rest; [congruence | cbn [length]; lia]).
      cbn [blk_loop]. replace (Z.of_nat (length c) =? 0) with false by lia.
      unfold ensure_bytes; unfold bind, get, lift, slice, idx, set_pos, ret, fail. cbn [fst snd d_buf d_pos d_used]. unfold d_len.
      replace (Z.of_nat (length c) + 1 >? Z.of_nat (length (d_buf st)) - d_pos st) with false by lia.
      repeat (match goal with |- context [if ?b then _ else _] => replace b with true by lia end; cbn [fst snd d_buf d_pos d_used]).
      replace (d_pos st + Z.of_nat (length c) - d_pos st) with (Z.of_nat (length c)) by lia. rewrite Nat2Z.id.
      rewrite Hsk. rewrite firstn_app, Nat.sub_diag, firstn_all. cbn [firstn]. rewrite app_nil_r.
      replace (nth (Z.to_nat (d_pos st + Z.of_nat (length c))) (d_buf st) 0) with (Z.of_nat (length c')).
      2:{ replace (Z.to_nat (d_pos st + Z.of_nat (length c))) with (Z.to_nat (d_pos st) + length c)%nat by lia.
          rewrite <- nth_skipn_add, Hsk, app_nth2, Nat.sub_diag by lia. reflexivity. }
      match goal with |- exists st', blk_loop fuel _ _ ?s2 = _ /\ _ => set (st2 := s2) end.
      assert (Hs2 : dinv st2).
      { unfold st2, dinv, d_len. cbn [d_buf d_pos d_used]. repeat split; auto; lia. }
      destruct (IH rest (acc ++ c) st2 fuel R Hrne) as (st' & E' & Hb' & Hu' & Hp'); auto.
      * lia.
      * unfold st2. cbn [d_buf d_pos d_used].
        replace (Z.to_nat (d_pos st + Z.of_nat (length c) + 1)) with (Z.to_nat (d_pos st) + (length c + 1))%nat by lia.
        rewrite skipn_add, Hsk. rewrite skipn_add, skipn_app_exact. cbn [app skipn]. rewrite <- app_assoc. reflexivity.
      * unfold st2, d_len. cbn [d_buf d_pos d_used]. lia.
      * exists st'. fold c' in E'. rewrite E'. split; [|split; [|split]].
        -- rewrite Harr, <- app_assoc. reflexivity.
        -- rewrite Hb'. reflexivity.
        -- exact Hu'.
        -- rewrite Hp'. unfold st2. cbn [d_pos]. rewrite !app_length. cbn [length]. rewrite app_length. unfold c'. lia.
Qed.
