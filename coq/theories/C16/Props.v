(* C16 — property theorems only. Statements are pinned by vp/check.py.

   S = PREC = 10^34.  `ref_exp_cmp max_n x bound cmp` is the model of
   FixedPrecision::exp_cmp (self.data = x, compare.data = cmp) as the code is after
   /repo commit f6d913e7 (error_term = |error| * bound).

   FULL STATEMENT (DESIGN.md App. A) — FALSE for the code, see exp_cmp_gt_refuted:
     forall max_n x bound cmp, 0 <= x -> exp (IZR x / S) <= IZR bound ->
       (estimation r = GT -> IZR cmp / S > exp (IZR x / S)) /\
       (estimation r = LT -> IZR cmp / S < exp (IZR x / S)).
   What holds, for every max_n, every argument x, every compare value:
     - x >= 0: LT is always right (exp_cmp_lt_sound; no hypothesis on bound at all);
     - x >= 0: GT is right up to M = bound*(iterations+bound) units of the last (34th)
       decimal (exp_cmp_gt_margin), hence the full statement holds for every compare
       value outside that sliver below e^x (exp_cmp_sound_outside_margin);
     - inside the sliver GT can be wrong (exp_cmp_gt_refuted; KNOWN-FINDING
       gt-wrong-within-truncation-margin): each fixed-point multiplication/division rounds
       the Taylor term DOWN, and `upper = rop + bound*error` is built from the rounded-down
       values, so it can lie below e^x when the next term is < 1 ulp;
     - x of either sign, bound >= e^|x|: both answers are right up to the same M
       (exp_cmp_sound_margin_all_x, exp_cmp_sound_outside_margin_all_x). *)
From Coq Require Import Reals.
From PV Require Import Lib.Base C16.Model C16.Proofs C16.ProofsAll.
Open Scope Z_scope.

Theorem exp_cmp_lt_sound : forall max_n x bound cmp, 0 <= x ->
  estimation (ref_exp_cmp max_n x bound cmp) = LT ->
  (IZR cmp / IZR PREC < exp (IZR x / IZR PREC))%R.
Proof. exact exp_cmp_lt_sound_proof. Qed.

Theorem exp_cmp_gt_margin : forall max_n x bound cmp, 0 <= x ->
  (exp (IZR x / IZR PREC) <= IZR bound)%R ->
  estimation (ref_exp_cmp max_n x bound cmp) = GT ->
  ((IZR cmp + IZR (bound * (iterations (ref_exp_cmp max_n x bound cmp) + bound))) / IZR PREC
     > exp (IZR x / IZR PREC))%R.
Proof. exact exp_cmp_gt_margin_proof. Qed.

Theorem exp_cmp_sound_outside_margin : forall max_n x bound cmp, 0 <= x ->
  (exp (IZR x / IZR PREC) <= IZR bound)%R ->
  let r := ref_exp_cmp max_n x bound cmp in
  ~ (exp (IZR x / IZR PREC) - IZR (bound * (iterations r + bound)) / IZR PREC < IZR cmp / IZR PREC
       <= exp (IZR x / IZR PREC))%R ->
  (estimation r = GT -> (IZR cmp / IZR PREC > exp (IZR x / IZR PREC))%R) /\
  (estimation r = LT -> (IZR cmp / IZR PREC < exp (IZR x / IZR PREC))%R).
Proof. exact exp_cmp_sound_outside_margin_proof. Qed.

(* the unchanged code reaches a wrong conclusion: x = floor(sqrt(2*10^34*(10^10+1))),
   compare = (second partial sum) + 1 *)
Theorem exp_cmp_gt_refuted : exists max_n x bound cmp, 0 <= x /\
  (exp (IZR x / IZR PREC) <= IZR bound)%R /\
  estimation (ref_exp_cmp max_n x bound cmp) = GT /\
  (IZR cmp / IZR PREC < exp (IZR x / IZR PREC))%R.
Proof. exists 2, wit_x, 3, wit_cmp. exact exp_cmp_gt_refuted_proof. Qed.

(* approximation: the returned partial sum under-approximates the Taylor polynomial of
   degree `iterations` by at most iterations * e^x ulps, and never exceeds e^x *)
Theorem exp_cmp_approx_enclosure : forall max_n x bound cmp, 0 <= x ->
  let r := ref_exp_cmp max_n x bound cmp in
  let X := (IZR x / IZR PREC)%R in
  0 <= iterations r /\
  (IZR (approx r) / IZR PREC <= P X (Z.to_nat (iterations r)))%R /\
  (P X (Z.to_nat (iterations r)) <= (IZR (approx r) + IZR (iterations r) * exp X) / IZR PREC)%R /\
  (IZR (approx r) / IZR PREC <= exp X)%R.
Proof. exact exp_cmp_approx_proof. Qed.

Theorem exp_cmp_iterations_le : forall max_n x bound cmp, 0 <= max_n ->
  0 <= iterations (ref_exp_cmp max_n x bound cmp) <= max_n.
Proof. exact exp_cmp_iterations_proof. Qed.

(* Arguments of either sign (x < 0 is not what the leader check passes, but the statement
   says "a bound that dominates e^|x|").  Before /repo commit f6d913e7 the code multiplied
   the bound with the SIGNED error estimate, which swapped the thresholds on every other
   iteration for x < 0 (x = -1, compare = 0.2 < e^-1 answered GT; corpus/C16); repaired to
   |error| * bound, and for the repaired code both answers are right up to the same margin: *)
Theorem exp_cmp_sound_margin_all_x : forall max_n x bound cmp,
  (exp (Rabs (IZR x / IZR PREC)) <= IZR bound)%R ->
  let r := ref_exp_cmp max_n x bound cmp in
  let M := IZR (bound * (iterations r + bound)) in
  (estimation r = GT -> ((IZR cmp + M) / IZR PREC > exp (IZR x / IZR PREC))%R) /\
  (estimation r = LT -> ((IZR cmp - M) / IZR PREC < exp (IZR x / IZR PREC))%R).
Proof. exact exp_cmp_sound_margin_all_proof. Qed.

Theorem exp_cmp_sound_outside_margin_all_x : forall max_n x bound cmp,
  (exp (Rabs (IZR x / IZR PREC)) <= IZR bound)%R ->
  let r := ref_exp_cmp max_n x bound cmp in
  ~ (Rabs (IZR cmp / IZR PREC - exp (IZR x / IZR PREC))
       < IZR (bound * (iterations r + bound)) / IZR PREC)%R ->
  (estimation r = GT -> (IZR cmp / IZR PREC > exp (IZR x / IZR PREC))%R) /\
  (estimation r = LT -> (IZR cmp / IZR PREC < exp (IZR x / IZR PREC))%R).
Proof. exact exp_cmp_sound_outside_margin_all_proof. Qed.

(* non-vacuity: the hypotheses are satisfiable and all three answers occur *)
Example exp_cmp_examples :
  estimation (ref_exp_cmp 1000 (5 * 10 ^ 32) 3 (10 ^ 34 + 7 * 10 ^ 33)) = GT /\
  estimation (ref_exp_cmp 1000 (5 * 10 ^ 32) 3 (10 ^ 34 + 10 ^ 32)) = LT /\
  ref_exp_cmp 1000 (5 * 10 ^ 32) 3 10512710963760240500000000000000000
    = mkResult 9 GT 10512710963760240396704833553791883 /\
  ref_exp_cmp 3 (5 * 10 ^ 32) 3 10512710963760240396975176363356452
    = mkResult 3 UNKNOWN 10512708333333333333333333333333333 /\
  ref_exp_cmp 1000 (5 * 10 ^ 32) 3 10512710963760240396975176363356452
    = mkResult 11 UNKNOWN 10512710963760240396975171246818377 /\
  (* x = -1: 0.2 < e^-1 = 0.3678... < 0.5 *)
  estimation (ref_exp_cmp 1000 (- 10 ^ 34) 3 (2 * 10 ^ 33)) = LT /\
  estimation (ref_exp_cmp 1000 (- 10 ^ 34) 3 (5 * 10 ^ 33)) = GT.
Proof. vm_compute. repeat split. Qed.
