//! Minimal signed big integer (base 10^9 limbs, little endian) for the C15/C17
//! oracles: deliberately independent of dashu (the library under test).
#![allow(dead_code)]
use std::cmp::Ordering;

const BASE: u64 = 1_000_000_000;

#[derive(Clone, Debug, PartialEq, Eq)]
pub struct Big { pub neg: bool, pub mag: Vec<u32> } // mag has no trailing zero limbs; zero = empty, neg=false

fn trim(v: &mut Vec<u32>) { while let Some(&0) = v.last() { v.pop(); } }
fn cmp_mag(a: &[u32], b: &[u32]) -> Ordering {
    if a.len() != b.len() { return a.len().cmp(&b.len()); }
    for i in (0..a.len()).rev() { if a[i] != b[i] { return a[i].cmp(&b[i]); } }
    Ordering::Equal
}
fn add_mag(a: &[u32], b: &[u32]) -> Vec<u32> {
    let mut r = Vec::with_capacity(a.len().max(b.len()) + 1);
    let mut c = 0u64;
    for i in 0..a.len().max(b.len()) {
        let s = c + *a.get(i).unwrap_or(&0) as u64 + *b.get(i).unwrap_or(&0) as u64;
        r.push((s % BASE) as u32); c = s / BASE;
    }
    if c > 0 { r.push(c as u32); }
    r
}
fn sub_mag(a: &[u32], b: &[u32]) -> Vec<u32> { // a >= b
    let mut r = Vec::with_capacity(a.len());
    let mut borrow = 0i64;
    for i in 0..a.len() {
        let mut d = a[i] as i64 - borrow - *b.get(i).unwrap_or(&0) as i64;
        if d < 0 { d += BASE as i64; borrow = 1; } else { borrow = 0; }
        r.push(d as u32);
    }
    trim(&mut r); r
}
fn mul_mag(a: &[u32], b: &[u32]) -> Vec<u32> {
    if a.is_empty() || b.is_empty() { return vec![]; }
    let mut r = vec![0u64; a.len() + b.len() + 1];
    for i in 0..a.len() {
        let mut c = 0u64;
        for j in 0..b.len() {
            let t = r[i + j] + a[i] as u64 * b[j] as u64 + c;
            r[i + j] = t % BASE; c = t / BASE;
        }
        let mut k = i + b.len();
        while c > 0 { let t = r[k] + c; r[k] = t % BASE; c = t / BASE; k += 1; }
    }
    let mut v: Vec<u32> = r.into_iter().map(|x| x as u32).collect();
    trim(&mut v); v
}

impl Big {
    pub fn zero() -> Big { Big { neg: false, mag: vec![] } }
    pub fn from_i128(n: i128) -> Big { Big::parse(&n.to_string()).unwrap() }
    pub fn from_u64(n: u64) -> Big { Big::parse(&n.to_string()).unwrap() }
    fn norm(mut self) -> Big { trim(&mut self.mag); if self.mag.is_empty() { self.neg = false; } self }
    /// ^-?[0-9]+$
    pub fn parse(s: &str) -> Option<Big> {
        let (neg, ds) = match s.strip_prefix('-') { Some(r) => (true, r), None => (false, s) };
        if ds.is_empty() || !ds.bytes().all(|c| c.is_ascii_digit()) { return None; }
        let b = ds.as_bytes();
        let mut mag = Vec::new();
        let mut end = b.len();
        while end > 0 {
            let start = end.saturating_sub(9);
            let mut v = 0u32;
            for &c in &b[start..end] { v = v * 10 + (c - b'0') as u32; }
            mag.push(v); end = start;
        }
        Some(Big { neg, mag }.norm())
    }
    pub fn is_zero(&self) -> bool { self.mag.is_empty() }
    pub fn is_neg(&self) -> bool { self.neg }
    pub fn neg(&self) -> Big { Big { neg: !self.neg, mag: self.mag.clone() }.norm() }
    pub fn abs(&self) -> Big { Big { neg: false, mag: self.mag.clone() } }
    pub fn add(&self, o: &Big) -> Big {
        if self.neg == o.neg { return Big { neg: self.neg, mag: add_mag(&self.mag, &o.mag) }.norm(); }
        match cmp_mag(&self.mag, &o.mag) {
            Ordering::Equal => Big::zero(),
            Ordering::Greater => Big { neg: self.neg, mag: sub_mag(&self.mag, &o.mag) }.norm(),
            Ordering::Less => Big { neg: o.neg, mag: sub_mag(&o.mag, &self.mag) }.norm(),
        }
    }
    pub fn sub(&self, o: &Big) -> Big { self.add(&o.neg()) }
    pub fn mul(&self, o: &Big) -> Big { Big { neg: self.neg != o.neg, mag: mul_mag(&self.mag, &o.mag) }.norm() }
    pub fn mul_small(&self, k: u32) -> Big { self.mul(&Big::from_u64(k as u64)) }
    pub fn pow10(k: usize) -> Big { let mut s = String::from("1"); for _ in 0..k { s.push('0'); } Big::parse(&s).unwrap() }
    pub fn cmp(&self, o: &Big) -> Ordering {
        match (self.neg, o.neg) {
            (false, true) => Ordering::Greater,
            (true, false) => Ordering::Less,
            (false, false) => cmp_mag(&self.mag, &o.mag),
            (true, true) => cmp_mag(&o.mag, &self.mag),
        }
    }
    pub fn lt(&self, o: &Big) -> bool { self.cmp(o) == Ordering::Less }
    pub fn le(&self, o: &Big) -> bool { self.cmp(o) != Ordering::Greater }
    /// truncating division by a small positive integer: (quotient, remainder with the sign of self)
    pub fn divrem_small(&self, k: u32) -> (Big, i64) {
        let mut q = vec![0u32; self.mag.len()];
        let mut r = 0u64;
        for i in (0..self.mag.len()).rev() {
            let cur = r * BASE + self.mag[i] as u64;
            q[i] = (cur / k as u64) as u32; r = cur % k as u64;
        }
        (Big { neg: self.neg, mag: q }.norm(), if self.neg { -(r as i64) } else { r as i64 })
    }
    /// truncating division (toward zero), remainder has the sign of self; divisor != 0.
    /// Schoolbook with a binary search per quotient limb (operands are small).
    pub fn divrem(&self, o: &Big) -> (Big, Big) {
        assert!(!o.is_zero());
        let d = o.abs();
        let mut q = vec![0u32; self.mag.len()];
        let mut r = Big::zero();
        for i in (0..self.mag.len()).rev() {
            // r = r * BASE + limb
            let mut m = vec![self.mag[i]]; m.extend_from_slice(&r.mag); r = Big { neg: false, mag: m }.norm();
            let (mut lo, mut hi) = (0u64, BASE - 1);
            while lo < hi {
                let mid = (lo + hi + 1) / 2;
                if d.mul_small(mid as u32).le(&r) { lo = mid; } else { hi = mid - 1; }
            }
            q[i] = lo as u32;
            r = r.sub(&d.mul_small(lo as u32));
        }
        (Big { neg: self.neg != o.neg, mag: q }.norm(), Big { neg: self.neg, mag: r.mag }.norm())
    }
    /// floor division by a positive divisor
    pub fn div_floor(&self, o: &Big) -> Big {
        let (q, r) = self.divrem(o);
        if r.is_neg() { q.sub(&Big::from_u64(1)) } else { q }
    }
    pub fn to_string(&self) -> String {
        if self.mag.is_empty() { return "0".into(); }
        let mut s = String::new();
        if self.neg { s.push('-'); }
        s.push_str(&format!("{}", self.mag[self.mag.len() - 1]));
        for i in (0..self.mag.len() - 1).rev() { s.push_str(&format!("{:09}", self.mag[i])); }
        s
    }
}
