(* C03 correspondence. The harness instantiates the wrappers at a catalogue of
   concrete Rust types; [ty] names the instantiation, [val] is a universal value
   type, [dec_ty]/[enc_ty] are the model codecs obtained by plugging the generic
   wrapper definitions of Model.v together (so the run exercises exactly the
   definitions the theorems are about).
   Cases:
     CaseDec t input res        bytes -> value -> bytes  (res: impl decode + re-encoding)
     CaseEnc t v bytes res      value -> bytes -> value  (bytes: impl encoding of v; res: impl decode of it)
     CaseItem i bytes           core: harness item encoder vs encode_item, wf, decode
     CaseCore input ref skip    core: reference parser (minicbor head-level calls) vs decode;
                                minicbor Decoder::skip vs d_skip; decode ok => skip ok, same remainder *)
From PV Require Import Lib.Base Cbor.Item Cbor.Enc Cbor.Dec Cbor.Api Cbor.Skip C03.Model.
Open Scope Z_scope.

Inductive ty : Type :=
| TyU64 | TyAnyUInt | TyAnyCbor | TyBytes | TyInt | TyEmptyMap
| TyKeepRaw (t : ty) | TyVec (t : ty) | TyMia (t : ty) | TyNullable (t : ty) | TySet (t : ty)
| TyCborWrap (t : ty) | TyTagWrap (tag : Z) (t : ty) | TyZoo (t : ty) | TyOpp (t : ty)
| TyKvp (k v : ty).

Inductive val : Type :=
| VNum (k : Z) (n : Z)      (* k = 0: u64 / Int; 1..5: AnyUInt::{MajorByte,U8,U16,U32,U64} *)
| VBytes (b : list Z)       (* AnyCbor / Bytes *)
| VUnit
| VRaw (raw : list Z) (v : val)                 (* KeepRaw *)
| VList (indef : bool) (xs : list val)          (* Vec / MaybeIndefArray / Set / OPP *)
| VPairs (indef : bool) (kvs : list (val * val))
| VNull | VUndef | VSome (v : val) | VNone.

Definition dmapv {A B} (f : A -> B) (x : dres (A * list Z)) : dres (B * list Z) :=
  dbind x (fun '(a, r) => DOk (f a, r)).

Definition of_anyuint (a : anyuint) : val :=
  match a with
  | AMajorByte x => VNum 1 x | AU8 x => VNum 2 x | AU16 x => VNum 3 x | AU32 x => VNum 4 x | AU64 x => VNum 5 x
  end.
Definition to_anyuint (k n : Z) : anyuint :=
  if k =? 1 then AMajorByte n else if k =? 2 then AU8 n else if k =? 3 then AU16 n
  else if k =? 4 then AU32 n else AU64 n.

Fixpoint dec_ty (t : ty) : decoder val :=
  match t with
  | TyU64 => fun bs => dmapv (VNum 0) (dec_u64 bs)
  | TyAnyUInt => fun bs => dmapv of_anyuint (dec_anyuint bs)
  | TyAnyCbor => fun bs => dmapv VBytes (dec_anycbor bs)
  | TyBytes => fun bs => dmapv VBytes (dec_bytes bs)
  | TyInt => fun bs => dmapv (VNum 0) (dec_cint bs)
  | TyEmptyMap => fun bs => dmapv (fun _ => VUnit) (dec_emptymap bs)
  | TyKeepRaw t' => fun bs => dmapv (fun k => VRaw (fst k) (snd k)) (dec_keepraw (dec_ty t') bs)
  | TyVec t' => fun bs => dmapv (VList false) (dec_vec (dec_ty t') bs)
  | TyMia t' => fun bs =>
      dmapv (fun m => match m with MDef xs => VList false xs | MIndef xs => VList true xs end)
            (dec_mia (dec_ty t') bs)
  | TyNullable t' => fun bs =>
      dmapv (fun n => match n with NSome x => VSome x | NNull => VNull | NUndefined => VUndef end)
            (dec_nullable (dec_ty t') bs)
  | TySet t' => fun bs => dmapv (VList false) (dec_set (dec_ty t') bs)
  | TyCborWrap t' => dec_cborwrap (dec_ty t')
  | TyTagWrap _ t' => dec_tagwrap (dec_ty t')
  | TyZoo t' => fun bs =>
      dmapv (fun o => match o with Some x => VSome x | None => VNone end) (dec_zoo (dec_ty t') bs)
  | TyOpp t' => fun bs => dmapv (VList false) (dec_opp (dec_ty t') bs)
  | TyKvp k v => fun bs =>
      dmapv (fun m => match m with KDef l => VPairs false l | KIndef l => VPairs true l end)
            (dec_kvp (dec_ty k) (dec_ty v) bs)
  end.

Fixpoint enc_ty (t : ty) (v : val) : list Z :=
  match t, v with
  | TyU64, VNum _ n => enc_u64 n
  | TyAnyUInt, VNum k n => enc_anyuint (to_anyuint k n)
  | TyAnyCbor, VBytes b => enc_anycbor b
  | TyBytes, VBytes b => enc_bytes b
  | TyInt, VNum _ n => enc_cint n
  | TyEmptyMap, _ => enc_emptymap tt
  | TyKeepRaw t', VRaw raw x => enc_keepraw (enc_ty t') (raw, x)
  | TyVec t', VList _ xs => enc_vec (enc_ty t') xs
  | TyMia t', VList indef xs => enc_mia (enc_ty t') (if indef then MIndef xs else MDef xs)
  | TyNullable t', VNull => enc_nullable (enc_ty t') NNull
  | TyNullable t', VUndef => enc_nullable (enc_ty t') NUndefined
  | TyNullable t', VSome x => enc_nullable (enc_ty t') (NSome x)
  | TySet t', VList _ xs => enc_set (enc_ty t') xs
  | TyCborWrap t', x => enc_cborwrap (enc_ty t') x
  | TyTagWrap tag t', x => enc_tagwrap (enc_ty t') tag x
  | TyZoo t', VNone => enc_zoo (enc_ty t') None
  | TyZoo t', VSome x => enc_zoo (enc_ty t') (Some x)
  | TyOpp t', VList _ xs => enc_opp (enc_ty t') xs
  | TyKvp k v', VPairs indef l => enc_kvp (enc_ty k) (enc_ty v') (if indef then KIndef l else KDef l)
  | _, _ => []
  end.

Fixpoint val_eqb (a b : val) : bool :=
  match a, b with
  | VNum k n, VNum k' n' => (k =? k') && (n =? n')
  | VBytes x, VBytes y => list_eqb Z.eqb x y
  | VUnit, VUnit | VNull, VNull | VUndef, VUndef | VNone, VNone => true
  | VRaw r x, VRaw r' x' => list_eqb Z.eqb r r' && val_eqb x x'
  | VList i xs, VList i' xs' => Bool.eqb i i' && leqb val_eqb xs xs'
  | VPairs i l, VPairs i' l' =>
    Bool.eqb i i' && leqb (fun '(k, v) '(k', v') => val_eqb k k' && val_eqb v v') l l'
  | VSome x, VSome y => val_eqb x y
  | _, _ => false
  end.

Inductive cres : Type := COk (v : val) (consumed : Z) (reenc : list Z) | CEoi | CErr | CPanic.
Inductive rres : Type := ROk (i : item) (consumed : Z) | REoi | RErr.   (* reference parser *)
Inductive sres : Type := SOk (consumed : Z) | SEoi | SErr.              (* Decoder::skip *)

Inductive case : Type :=
| CaseDec (t : ty) (input : list Z) (res : cres)
| CaseEnc (t : ty) (v : val) (bytes : list Z) (res : cres)
| CaseItem (i : item) (bytes : list Z)
| CaseCore (input : list Z) (ref : rres) (skip : sres).

Definition model_dec (t : ty) (bs : list Z) : cres :=
  match dec_ty t bs with
  | DOk (v, r) => COk v (len bs - len r) (enc_ty t v)
  | DEoi => CEoi
  | DErr => CErr
  end.
Definition cres_eqb (a b : cres) : bool :=
  match a, b with
  | COk v c e, COk v' c' e' => val_eqb v v' && (c =? c') && list_eqb Z.eqb e e'
  | CEoi, CEoi | CErr, CErr | CPanic, CPanic => true
  | _, _ => false
  end.

Definition model_ref (bs : list Z) : rres :=
  match decode bs with DOk (i, r) => ROk i (len bs - len r) | DEoi => REoi | DErr => RErr end.
Definition model_skip (bs : list Z) : sres :=
  match d_skip bs with DOk r => SOk (len bs - len r) | DEoi => SEoi | DErr => SErr end.
Definition rres_eqb (a b : rres) : bool :=
  match a, b with
  | ROk i c, ROk i' c' => item_eqb i i' && (c =? c')
  | REoi, REoi | RErr, RErr => true
  | _, _ => false
  end.
Definition sres_eqb (a b : sres) : bool :=
  match a, b with
  | SOk c, SOk c' => c =? c'
  | SEoi, SEoi | SErr, SErr => true
  | _, _ => false
  end.

Definition case_ok (c : case) : bool :=
  match c with
  | CaseDec t input res => cres_eqb (model_dec t input) res
  | CaseEnc t v bytes res => list_eqb Z.eqb (enc_ty t v) bytes && cres_eqb (model_dec t bytes) res
  | CaseItem i bytes =>
    wf_item i && list_eqb Z.eqb (encode_item i) bytes &&
    rres_eqb (model_ref bytes) (ROk i (len bytes)) && sres_eqb (model_skip bytes) (SOk (len bytes))
  | CaseCore input ref skip =>
    rres_eqb (model_ref input) ref && sres_eqb (model_skip input) skip &&
    match model_ref input with
    | ROk _ c => sres_eqb (model_skip input) (SOk c)   (* a well-formed item is skipped exactly *)
    | _ => true
    end
  end.

Inductive out : Type :=
| ODec (r : cres) | OEnc (bytes : list Z) (r : cres)
| OItem (wf : bool) (bytes : list Z) (r : rres) (s : sres) | OCore (r : rres) (s : sres).
Definition case_out (c : case) : out :=
  match c with
  | CaseDec t input _ => ODec (model_dec t input)
  | CaseEnc t v bytes _ => OEnc (enc_ty t v) (model_dec t bytes)
  | CaseItem i bytes => OItem (wf_item i) (encode_item i) (model_ref bytes) (model_skip bytes)
  | CaseCore input _ _ => OCore (model_ref input) (model_skip input)
  end.
