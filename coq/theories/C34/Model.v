(* C34 model: preservation of value in the phase-1 validators.
     pallas-validate/src/utils.rs   add_values, conway_add_values, add_minted_value,
                                    conway_add_minted_non_zero, coerce_* (casts explicit),
                                    add_multiasset_values, *_add_same_policy_assets,
                                    values_are_equal, multi_asset_included (+ conway_ variants)
     phase1/{shelley_ma,alonzo,babbage,conway}.rs   get_consumed, get_produced, check_preservation_of_value
   transcribed as repaired by the `fix:` commits recorded for C34 (sign-changing `as` casts
   replaced by checked conversions); the casts as they were are kept in the *_old definitions.

   Policy ids and asset names are integers (the harness numbers them); a multi-asset is an
   association list policy -> (asset -> quantity), as the BTreeMaps of pallas-primitives, with
   first-match lookup and replace-or-append update (the HashMaps used for the running sums). *)
From PV Require Import Lib.Base.
Open Scope Z_scope.

Definition U64_MAX : Z := 18446744073709551615.
Definition I64_MAX : Z := 9223372036854775807.
Definition I64_MIN : Z := -9223372036854775808.

Definition V_OK : Z := 0.
Definition V_PRESERVATION : Z := 1.   (* PreservationOfValue *)
Definition V_NEGATIVE : Z := 2.       (* NegativeValue: every arithmetic failure *)
Definition V_OTHER : Z := 9.

Definition assets : Type := list (Z * Z).
Definition ma : Type := list (Z * assets).
Inductive value : Type := VCoin (c : Z) | VMa (c : Z) (m : ma).

Fixpoint find {A} (k : Z) (l : list (Z * A)) : option A :=
  match l with
  | [] => None
  | (k', v) :: r => if k' =? k then Some v else find k r
  end.
Fixpoint set {A} (k : Z) (v : A) (l : list (Z * A)) : list (Z * A) :=
  match l with
  | [] => [(k, v)]
  | (k', v') :: r => if k' =? k then (k, v) :: r else (k', v') :: set k v r
  end.
Definition qty (l : assets) (a : Z) : Z := match find a l with Some q => q | None => 0 end.
Definition get (m : ma) (p a : Z) : Z := match find p m with Some l => qty l a | None => 0 end.
Definition coin_of (v : value) : Z := match v with VCoin c => c | VMa c _ => c end.
Definition ma_of (v : value) : ma := match v with VCoin _ => [] | VMa _ m => m end.

(* *_add_same_policy_assets: for (name, new) in new_assets: res[name] = old + new, checked;
   in_sum: the range check on a sum; in_new: the check on a quantity inserted as is *)
Fixpoint add_same (in_sum in_new : Z -> bool) (old new : assets) : option assets :=
  match new with
  | [] => Some old
  | (a, q) :: r =>
      match find a old with
      | Some q0 => if in_sum (q0 + q) then add_same in_sum in_new (set a (q0 + q) old) r else None
      | None => if in_new q then add_same in_sum in_new (set a q old) r else None
      end
  end.
(* one `for (policy, new_assets) in m.iter()` loop of *_add_multiasset_values over the running map *)
Fixpoint add_into (in_sum in_new : Z -> bool) (res m : ma) : option ma :=
  match m with
  | [] => Some res
  | (p, new) :: r =>
      match add_same in_sum in_new (match find p res with Some o => o | None => [] end) new with
      | Some l => add_into in_sum in_new (set p l res) r
      | None => None
      end
  end.
Definition add_ma (in_sum : Z -> bool) (f s : ma) : option ma :=
  match add_into in_sum (fun _ => true) [] f with
  | Some r => add_into in_sum (fun _ => true) r s
  | None => None
  end.

Definition in_i64 (x : Z) : bool := (I64_MIN <=? x) && (x <=? I64_MAX).
Definition in_u64 (x : Z) : bool := (0 <=? x) && (x <=? U64_MAX).
Definition all_qty (P : Z -> bool) (m : ma) : bool := forallb (fun pa => forallb (fun aq => P (snd aq)) (snd pa)) m.

(* add_lovelace: checked_add *)
Definition add_lovelace (a b : Z) : option Z := if a + b <=? U64_MAX then Some (a + b) else None.

(* ---------------- Shelley-MA / Alonzo / Babbage (Value with u64 quantities, mint in i64) *)
(* coerce_to_i64: i64::try_from(amount) (was `amount as i64`) *)
Definition coerce_to_i64 (m : ma) : option ma := if all_qty (fun q => q <=? I64_MAX) m then Some m else None.
(* coerce_to_coin: u64::try_from(amount) *)
Definition coerce_to_coin (m : ma) : option ma := if all_qty (fun q => 0 <=? q) m then Some m else None.

Definition add_ma_pre (f s : ma) : option ma :=
  match coerce_to_i64 f, coerce_to_i64 s with
  | Some fi, Some si => match add_ma in_i64 fi si with Some r => coerce_to_coin r | None => None end
  | _, _ => None
  end.

Definition add_values (v1 v2 : value) : option value :=
  match v1, v2 with
  | VCoin f, VCoin s => option_map VCoin (add_lovelace f s)
  | VMa f fm, VCoin s => option_map (fun c => VMa c fm) (add_lovelace f s)
  | VCoin f, VMa s sm => option_map (fun c => VMa c sm) (add_lovelace f s)
  | VMa f fm, VMa s sm =>
      match add_lovelace f s with
      | Some c => option_map (VMa c) (add_ma_pre fm sm)
      | None => None
      end
  end.

(* add_minted_value: the mint is already i64 *)
Definition add_minted_value (v : value) (mint : ma) : option value :=
  match v with
  | VCoin n => option_map (VMa n) (coerce_to_coin mint)
  | VMa n m =>
      match coerce_to_i64 m with
      | Some mi => match add_ma in_i64 mi mint with
                   | Some r => option_map (VMa n) (coerce_to_coin r)
                   | None => None
                   end
      | None => None
      end
  end.

(* multi_asset_included: zero quantities of the left side are skipped, a missing policy fails *)
Definition included (f s : ma) : bool :=
  forallb (fun pa =>
    match find (fst pa) s with
    | Some sas => forallb (fun aq => if snd aq =? 0 then true
                                     else match find (fst aq) sas with Some q' => snd aq =? q' | None => false end) (snd pa)
    | None => false
    end) f.
Definition ma_equal (f s : ma) : bool := included f s && included s f.
Definition is_empty {A} (m : list A) : bool := match m with [] => true | _ => false end.
Definition values_are_equal (v1 v2 : value) : bool :=
  match v1, v2 with
  | VCoin f, VCoin s => f =? s
  | VMa f fm, VCoin s => (f =? s) && is_empty fm
  | VCoin f, VMa s sm => (f =? s) && is_empty sm
  | VMa f fm, VMa s sm => if f =? s then ma_equal fm sm else false
  end.

Fixpoint sum_values (add : value -> value -> option value) (acc : value) (l : list value) : option value :=
  match l with
  | [] => Some acc
  | v :: r => match add acc v with Some acc' => sum_values add acc' r | None => None end
  end.

(* check_preservation_of_value, Alonzo / Babbage (and Shelley-MA with no refunds / deposits:
   there the fee is added to the produced side and the mint to the consumed side likewise).
   ins: values of the spent UTxO entries, in input order; outs: output values *)
Definition check_preservation_pre (ins outs : list value) (fee : Z) (mint : option ma) : Z :=
  match sum_values add_values (VMa 0 []) ins, sum_values add_values (VMa 0 []) outs with
  | Some consumed, Some produced =>
      match add_values produced (VCoin fee) with
      | Some output =>
          match (match mint with Some m => add_minted_value consumed m | None => Some consumed end) with
          | Some input => if values_are_equal input output then V_OK else V_PRESERVATION
          | None => V_NEGATIVE
          end
      | None => V_NEGATIVE
      end
  | _, _ => V_NEGATIVE
  end.

(* ---------------- Conway (PositiveCoin quantities, NonZeroInt mint) *)
(* conway_coerce_to_coin: PositiveCoin::try_from(q) fails on 0 *)
Definition to_positive (m : ma) : option ma := if all_qty (fun q => 1 <=? q) m then Some m else None.

Definition conway_add_values (v1 v2 : value) : option value :=
  match v1, v2 with
  | VCoin f, VCoin s => option_map VCoin (add_lovelace f s)
  | VMa f fm, VCoin s => option_map (fun c => VMa c fm) (add_lovelace f s)
  | VCoin f, VMa s sm => option_map (fun c => VMa c sm) (add_lovelace f s)
  | VMa f fm, VMa s sm =>
      match add_lovelace f s with
      | Some c => match add_ma in_u64 fm sm with
                  | Some r => option_map (VMa c) (to_positive r)
                  | None => None
                  end
      | None => None
      end
  end.

(* res.retain: drop zero quantities and then empty policies *)
Definition retain_nonzero (m : ma) : ma :=
  filter (fun pa => negb (is_empty (snd pa)))
         (map (fun pa => (fst pa, filter (fun aq => negb (snd aq =? 0)) (snd pa))) m).

(* conway_add_minted_non_zero *)
Definition conway_add_minted_non_zero (v : value) (mint : ma) : option value :=
  match v with
  | VCoin n =>
      (* conway_coerce_to_non_zero_coin: a negative quantity is NegativeValue (was `as u64`) *)
      if all_qty (fun q => 0 <=? q) mint then option_map (VMa n) (to_positive mint) else None
  | VMa n m =>
      (* conway_add_multiasset_non_negative_values *)
      match add_into in_u64 (fun _ => true) [] m with
      | Some r =>
          (* conway_add_same_non_zero_policy_assets: i128 sum in [0, u64::MAX]; a fresh negative is NegativeValue *)
          match add_into in_u64 (fun q => 0 <=? q) r mint with
          | Some r2 => option_map (VMa n) (to_positive (retain_nonzero r2))
          | None => None
          end
      | None => None
      end
  end.

(* get_consumed / get_produced start from the first element (an empty list is an error) *)
Definition sum_values1 (add : value -> value -> option value) (l : list value) : outcome value :=
  match l with
  | [] => Err V_OTHER
  | v :: r => match sum_values add v r with Some x => Ok x | None => Err V_NEGATIVE end
  end.

Definition check_preservation_conway (ins outs : list value) (fee : Z) (mint : option ma) : Z :=
  match sum_values1 conway_add_values ins with
  | Ok consumed =>
      match sum_values1 conway_add_values outs with
      | Ok produced =>
          match conway_add_values produced (VCoin fee) with
          | Some output =>
              match (match mint with Some m => conway_add_minted_non_zero consumed m | None => Some consumed end) with
              | Some input => if values_are_equal input output then V_OK else V_PRESERVATION
              | None => V_NEGATIVE
              end
          | None => V_NEGATIVE
          end
      | Err e => e
      | Panic p => -1
      end
  | Err e => e
  | Panic p => -1
  end.

(* ---------------- specification side *)
Definition total_coin (l : list value) : Z := fold_right (fun v a => coin_of v + a) 0 l.
Definition total_qty (l : list value) (p a : Z) : Z := fold_right (fun v acc => get (ma_of v) p a + acc) 0 l.
Definition mint_qty (mint : option ma) (p a : Z) : Z := match mint with Some m => get m p a | None => 0 end.

(* keys unique at both levels (BTreeMap) *)
Fixpoint nodup_keys {A} (l : list (Z * A)) : bool :=
  match l with
  | [] => true
  | (k, _) :: r => match find k r with Some _ => false | None => nodup_keys r end
  end.
Definition wf_ma (m : ma) : bool := nodup_keys m && forallb (fun pa => nodup_keys (snd pa)) m.
Definition wf_value (v : value) : bool := wf_ma (ma_of v).

(* ---------------- the casts as they were (for the refutations) *)
Definition wrap_i64 (x : Z) : Z := (x + 9223372036854775808) mod 18446744073709551616 - 9223372036854775808.
Definition wrap_u64 (x : Z) : Z := x mod 18446744073709551616.
(* conway_coerce_to_non_zero_coin: PositiveCoin::try_from(i64::from(amount) as u64) *)
Definition conway_add_minted_non_zero_old_coin (n : Z) (mint : ma) : value :=
  VMa n (map (fun pa => (fst pa, map (fun aq => (fst aq, wrap_u64 (snd aq))) (snd pa))) mint).
(* coerce_to_i64: `*amount as i64` *)
Definition coerce_to_i64_old (m : ma) : ma :=
  map (fun pa => (fst pa, map (fun aq => (fst aq, wrap_i64 (snd aq))) (snd pa))) m.

(* ---------------- Byron check_fees (inputs must exceed outputs by at least the minimum fee) *)
Definition V_BYRON_UNABLE : Z := 3.   (* UnableToComputeFees *)
Definition V_BYRON_BELOW : Z := 4.    (* FeesBelowMin *)
Fixpoint checked_sum (l : list Z) (acc : Z) : option Z :=
  match l with
  | [] => Some acc
  | x :: r => if acc + x <=? U64_MAX then checked_sum r (acc + x) else None
  end.
Definition byron_check_fees (ins outs : list Z) (only_redeem : bool) (size multiplier summand : Z) : Z :=
  match checked_sum ins 0 with
  | None => V_BYRON_UNABLE
  | Some inputs_balance =>
      if only_redeem then V_OK else
      match checked_sum outs 0 with
      | None => V_BYRON_UNABLE
      | Some outputs_balance =>
          if inputs_balance <? outputs_balance then V_BYRON_BELOW       (* checked_sub *)
          else if (multiplier * size >? U64_MAX) || (multiplier * size + summand >? U64_MAX) then V_BYRON_UNABLE
          else if inputs_balance - outputs_balance <? multiplier * size + summand then V_BYRON_BELOW
          else V_OK
      end
  end.
Definition sumZ (l : list Z) : Z := fold_right Z.add 0 l.
