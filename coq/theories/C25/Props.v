(* C25 — property theorems only. Statements are pinned by vp/check.py.
   [negotiate_old server client]  : handshake::Server::handshake        (pallas-network)
   [negotiate_new supported prop] : HandshakeResponder::try_accept_handshake (pallas-network2)
   Tables are association lists in arbitrary (HashMap iteration) order; all
   statements are about membership only, hence hold for every order. *)
From Coq Require Import Permutation Sorting.Sorted.
From PV Require Import Lib.Base C25.Model C25.Proofs.
Open Scope Z_scope.

(* ---- accepted version is offered by both sides (with, old stack, the very same data) ---- *)
Theorem accept_is_common : forall s c v d,
  (negotiate_old s c = Accept v d -> In (v, d) s /\ In (v, d) c) /\
  (negotiate_new s c = Ok (Accept v d) -> In (v, d) s /\ exists pd, In (v, pd) c).
Proof.
  intros s c v d. split; intros H.
  - apply old_accept_proof in H. tauto.
  - apply new_accept_proof in H as (H1 & (pd & H2 & _) & _). split; [exact H1 | eauto].
Qed.

(* ---- no higher version is offered by both ---- *)
Theorem accept_is_highest : forall s c v d,
  (negotiate_old s c = Accept v d -> highest_common s c v) /\
  (negotiate_new s c = Ok (Accept v d) -> highest_common s c v).
Proof.
  intros s c v d. split; intros H.
  - apply old_accept_proof in H. tauto.
  - apply new_accept_proof in H. tauto.
Qed.

(* ---- the accepted parameters agree on the network magic ---- *)
Theorem accept_magic_agrees : forall s c v d,
  (negotiate_old s c = Accept v d -> exists sd cd, In (v, sd) s /\ In (v, cd) c /\ magic sd = magic cd /\ d = sd) /\
  (negotiate_new s c = Ok (Accept v d) -> exists sd cd, In (v, sd) s /\ In (v, cd) c /\ magic sd = magic cd /\ d = sd).
Proof.
  intros s c v d. split; intros H.
  - apply old_accept_proof in H as (H1 & H2 & _). exists d, d. tauto.
  - apply new_accept_proof in H as (H1 & (pd & H2 & H3) & _). exists d, pd. repeat split; try assumption. lia.
Qed.

(* ---- disjoint tables: refused with a version mismatch listing the responder's versions ---- *)
Theorem disjoint_refused_with_own_versions : forall s c, disjoint s c ->
  (exists l, negotiate_old s c = Mismatch l /\ Permutation l (keys s)) /\
  negotiate_new s c = Ok (Mismatch (keys s)).
Proof.
  intros s c H. split.
  - exists (keys (sort_desc s)). split; [apply old_disjoint_proof, H|].
    unfold keys. apply Permutation_map, sort_desc_perm.
  - apply new_disjoint_proof, H.
Qed.

(* and a version mismatch is sent only then *)
Theorem mismatch_only_when_disjoint : forall s c l,
  (negotiate_old s c = Mismatch l -> disjoint s c /\ Permutation l (keys s) /\ StronglySorted (fun a b => b <= a) l) /\
  (negotiate_new s c = Ok (Mismatch l) -> disjoint s c /\ l = keys s).
Proof. intros s c l. split; [apply old_mismatch_proof | apply new_mismatch_proof]. Qed.

(* ---- the other refusal: at the highest common version the data (old) / the magic (new) differ ---- *)
Theorem refused_at_highest_common : forall s c v,
  (negotiate_old s c = Refused v ->
     highest_common s c v /\ exists d cd, In (v, d) s /\ In (v, cd) c /\ d <> cd) /\
  (negotiate_new s c = Ok (Refused v) ->
     highest_common s c v /\ exists d pd, In (v, d) s /\ In (v, pd) c /\ magic pd <> magic d).
Proof. intros s c v. split; [apply old_refused_proof | apply new_refused_proof]. Qed.

(* ---- totality of the new stack: the indexing supported.values[num] never panics ---- *)
Theorem negotiate_new_no_panic : forall s c, exists r, negotiate_new s c = Ok r.
Proof. exact new_no_panic_proof. Qed.

(* ---- completeness for genuine maps (unique keys): the highest common version IS accepted
        when its data (old) / magic (new) agree; so the answer does not depend on the
        iteration order of either table ---- *)
Theorem highest_common_is_accepted : forall s c v d cd,
  NoDup (keys s) -> NoDup (keys c) -> highest_common s c v -> In (v, d) s -> In (v, cd) c ->
  (d = cd -> negotiate_old s c = Accept v d) /\
  (magic cd = magic d -> negotiate_new s c = Ok (Accept v d)).
Proof.
  intros s c v d cd Hs Hc Hh H1 H2. split; intros H.
  - subst cd. apply old_complete_proof; assumption.
  - exact (new_complete_proof s c v d cd Hs Hc Hh H1 H2 H).
Qed.

(* non-vacuity *)
Example negotiation_example :
  let m := (764824073, false, Some 1, Some false) in
  let t := (2, true, None, None) in
  negotiate_old [(7, m); (13, m); (11, m)] [(14, m); (11, m); (13, m); (7, t)] = Accept 13 m /\
  negotiate_new [(7, m); (13, m); (11, m)] [(14, m); (11, m); (13, m); (7, t)] = Ok (Accept 13 m) /\
  negotiate_old [(7, m); (13, m)] [(13, t); (7, m)] = Refused 13 /\
  negotiate_new [(7, m); (13, m)] [(13, t); (7, m)] = Ok (Refused 13) /\
  negotiate_old [(7, m); (13, m); (9, m)] [(8, m)] = Mismatch [13; 9; 7] /\
  negotiate_new [(7, m); (13, m); (9, m)] [(8, m)] = Ok (Mismatch [7; 13; 9]) /\
  highest_common [(7, m); (13, m); (11, m)] [(14, m); (11, m); (13, m); (7, t)] 13.
Proof.
  cbn zeta. repeat split; try (vm_compute; reflexivity); try (cbn; tauto).
  intros w [Hs Hc]. cbn in Hs. lia.
Qed.
