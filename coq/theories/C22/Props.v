(* C22 — property theorems only. Statements are pinned by vp/check.py.
   For every modelled protocol P:
     P_msg_wellformed : a message in the representable domain ([P_wf]) encodes to exactly
                        ONE well-formed CBOR item (declared lengths = contents);
     P_msg_dec_enc    : decoding the encoding (followed by any bytes [r]) returns the
                        message and leaves exactly [r]. *)
From PV Require Import Lib.Base Cbor.Item Cbor.Enc Cbor.Dec Cbor.Api C22.Model C22.Proofs.
Open Scope Z_scope.

Theorem ka_msg_wellformed : forall m, ka_wf m = true ->
  exists i, ka_enc m = encode_item i /\ wf_item i = true.
Proof. exact ka_wellformed. Qed.
Theorem ka_msg_dec_enc : forall m r, ka_wf m = true -> ka_dec (ka_enc m ++ r) = DOk (m, r).
Proof. exact ka_dec_enc. Qed.

Theorem bf_msg_wellformed : forall m, bf_wf m = true ->
  exists i, bf_enc m = encode_item i /\ wf_item i = true.
Proof. exact bf_wellformed. Qed.
Theorem bf_msg_dec_enc : forall m r, bf_wf m = true -> bf_dec (bf_enc m ++ r) = DOk (m, r).
Proof. exact bf_dec_enc. Qed.
