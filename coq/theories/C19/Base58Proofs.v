From PV Require Import Lib.Base C18.Bech32 C18.Bech32Proofs C19.Base58.
Open Scope Z_scope.

Definition headnz (x : Z) (l : list Z) : Prop := match l with [] => True | c :: _ => c <> x end.

Lemma val_cons0 B l : val B (0 :: l) = val B l.
Proof. unfold val. cbn [fold_left]. replace (0 * B + 0) with 0 by lia. reflexivity. Qed.
Lemma val_zeros B k l : val B (repeat 0 k ++ l) = val B l.
Proof. induction k as [|k IH]; [reflexivity|]. cbn [repeat app]. rewrite val_cons0. exact IH. Qed.
Lemma val_strip B l : val B (strip_leading 0 l) = val B l.
Proof.
  induction l as [|c r IH]; [reflexivity|]. cbn [strip_leading].
  destruct (c =? 0) eqn:E; [|reflexivity]. assert (c = 0) by lia. subst. rewrite val_cons0. exact IH.
Qed.
Lemma strip_headnz x l : headnz x (strip_leading x l).
Proof.
  induction l as [|c r IH]; [exact I|]. cbn [strip_leading]. destruct (c =? x) eqn:E; [exact IH|]. cbn. lia.
Qed.
Lemma strip_Forall (P : Z -> Prop) x l : Forall P l -> Forall P (strip_leading x l).
Proof.
  induction 1 as [|c r Hc Hr IH]; [constructor|]. cbn [strip_leading]. destruct (c =? x); [exact IH|]. constructor; assumption.
Qed.

Lemma count_repeat x k t : headnz x t -> count_leading x (repeat x k ++ t) = k.
Proof.
  intros Ht. induction k as [|k IH].
  - cbn [repeat app]. destruct t as [|c r]; [reflexivity|]. cbn in *. destruct (c =? x) eqn:E; [lia|reflexivity].
  - cbn [repeat app count_leading]. rewrite Z.eqb_refl, IH. reflexivity.
Qed.
Lemma skipn_repeat (x : Z) k t : skipn k (repeat x k ++ t) = t.
Proof. induction k as [|k IH]; [reflexivity|]. cbn [repeat app skipn]. exact IH. Qed.

Lemma leading_decomp x l :
  l = repeat x (count_leading x l) ++ skipn (count_leading x l) l /\ headnz x (skipn (count_leading x l) l).
Proof.
  induction l as [|c r [IH1 IH2]]; [split; [reflexivity|exact I]|]. cbn [count_leading].
  destruct (c =? x) eqn:E.
  - assert (c = x) by lia. subst. cbn [repeat app skipn]. split; [f_equal; exact IH1|exact IH2].
  - cbn [repeat app skipn]. split; [reflexivity|]. cbn. lia.
Qed.

Lemma digits_pad B k l : 0 < B -> Forall (fun d => 0 <= d < B) l ->
  digits B (k + length l) (val B l) = repeat 0 k ++ l.
Proof.
  intros HB Hl. rewrite <- (val_zeros B k l).
  replace (k + length l)%nat with (length (repeat 0 k ++ l)) by (rewrite app_length, repeat_length; reflexivity).
  apply digits_val; [exact HB|]. apply Forall_app. split; [|exact Hl].
  apply Forall_forall. intros d Hd. apply repeat_spec in Hd. lia.
Qed.

(* ---- alphabet ---- *)
Definition d58_ok (d : Z) : bool :=
  match b58_digit (b58_char d) with Some e => e =? d | None => false end &&
  Bool.eqb (b58_char d =? 49) (d =? 0).
Lemma d58_sweep : forallb d58_ok (zrangeZ 0 58) = true.
Proof. vm_compute. reflexivity. Qed.
Lemma d58_facts d : 0 <= d < 58 -> b58_digit (b58_char d) = Some d /\ (b58_char d = 49 -> d = 0).
Proof.
  intros Hd. pose proof d58_sweep as H. rewrite forallb_forall in H.
  specialize (H d ltac:(apply zrangeZ_In; lia)). unfold d58_ok in H. apply andb_true_iff in H as [H1 H2].
  destruct (b58_digit (b58_char d)) as [e|]; [|discriminate]. split; [f_equal; lia|].
  intros E. rewrite E in H2. cbn in H2. destruct (d =? 0) eqn:E0; [lia|discriminate].
Qed.
Lemma map_opt_b58 ds : Forall (fun d => 0 <= d < 58) ds -> map_opt b58_digit (map b58_char ds) = Some ds.
Proof.
  induction 1 as [|d r Hd _ IH]; [reflexivity|]. cbn [map map_opt].
  destruct (d58_facts d Hd) as [-> _]. rewrite IH. reflexivity.
Qed.

Lemma chars_headnz ds : Forall (fun d => 0 <= d < 58) ds -> headnz 0 ds -> headnz 49 (map b58_char ds).
Proof.
  intros Hds Hnz. destruct ds as [|d t]; [exact I|]. cbn [map headnz] in *. inversion Hds; subst.
  intros E. apply d58_facts in E; [lia|assumption].
Qed.

(* ---- the encoder's buffer is large enough (up to 132 bytes: by sweep) ---- *)
Definition buf_ok (r : Z) : bool := 256 ^ r <? 58 ^ (r * 138 / 100 + 1).
Lemma buf_sweep : forallb buf_ok (zrangeZ 0 133) = true.
Proof. vm_compute. reflexivity. Qed.

Theorem b58_roundtrip_proof bs : bytes_wf bs -> blen bs <= 132 -> b58_decode (b58_encode bs) = Ok bs.
Proof.
  intros Hw Hl. unfold b58_encode.
  destruct (leading_decomp 0 bs) as [Hdec Hnz].
  set (z := count_leading 0 bs) in *. set (rest := skipn z bs) in *.
  assert (Hr : Forall (fun d => 0 <= d < 256) rest).
  { unfold rest. rewrite Hdec in Hw. apply Forall_app in Hw as [_ Hw]. fold rest in Hw. exact Hw. }
  assert (Hlen : (z + length rest = length bs)%nat).
  { pose proof (f_equal (@length Z) Hdec) as HL. rewrite app_length, repeat_length in HL. lia. }
  set (r := blen rest). assert (Hr132 : 0 <= r <= 132) by (unfold r, blen in *; lia).
  set (size := r * 138 / 100 + 1). assert (Hsz : 0 < size) by (unfold size; lia).
  set (N := val 256 rest).
  pose proof (val_range 256 rest ltac:(lia) Hr) as HN. fold N in HN. fold (blen rest) in HN. fold r in HN.
  assert (Hbuf : 256 ^ r < 58 ^ size).
  { pose proof buf_sweep as H. rewrite forallb_forall in H. specialize (H r ltac:(apply zrangeZ_In; lia)).
    unfold buf_ok in H. fold size in H. lia. }
  set (ds := strip_leading 0 (digits 58 (Z.to_nat size) N)).
  assert (Hds : Forall (fun d => 0 <= d < 58) ds) by (apply strip_Forall, digits_range; lia).
  assert (Hdsnz : headnz 0 ds) by apply strip_headnz.
  assert (Hv : val 58 ds = N).
  { unfold ds. rewrite val_strip. apply val_digits; [lia|]. rewrite Z2Nat.id by lia. lia. }
  assert (Hcnz : headnz 49 (map b58_char ds)).
  { apply chars_headnz; assumption. }
  unfold b58_decode. rewrite count_repeat by exact Hcnz. rewrite skipn_repeat, map_opt_b58 by exact Hds.
  rewrite Hv.
  assert (H1056 : N < two1056).
  { unfold two1056. apply Z.lt_le_trans with (256 ^ r); [lia|].
    change 256 with (2 ^ 8). rewrite <- Z.pow_mul_r by lia. apply Z.pow_le_mono_r; lia. }
  destruct (N >=? two1056) eqn:E; [lia|].
  assert (Hbin : digits 256 132 N = repeat 0 (132 - length rest) ++ rest).
  { replace 132%nat with ((132 - length rest) + length rest)%nat at 1 by (unfold r, blen in Hr132; lia).
    apply digits_pad; [lia|exact Hr]. }
  rewrite Hbin. rewrite count_repeat by exact Hnz.
  assert (Hz : (132 - length rest <? z)%nat = false).
  { apply Nat.ltb_ge. unfold blen in Hl. lia. }
  rewrite Hz. f_equal.
  replace (132 - length rest - z)%nat with (132 - length bs)%nat by lia.
  replace (132 - length rest)%nat with ((132 - length bs) + z)%nat by (unfold blen in Hl; lia).
  rewrite repeat_app, <- app_assoc, skipn_repeat. symmetry. exact Hdec.
Qed.

(* ================================================================ pallas' wrapper *)
Lemma count_leading_headnz x l : headnz x l -> count_leading x l = O.
Proof. destruct l as [|c r]; [reflexivity|]. cbn. intros H. destruct (c =? x) eqn:E; [lia|reflexivity]. Qed.

Lemma b58_encode_split bs :
  let z := count_leading 0 bs in
  b58_encode bs = repeat 49 z ++ b58_encode (skipn z bs) /\ headnz 49 (b58_encode (skipn z bs)).
Proof.
  cbv zeta. destruct (leading_decomp 0 bs) as [_ Hnz].
  set (z := count_leading 0 bs) in *. set (rest := skipn z bs) in *.
  assert (E : b58_encode rest = map b58_char (strip_leading 0 (digits 58 (Z.to_nat (blen rest * 138 / 100 + 1)) (val 256 rest)))).
  { unfold b58_encode. rewrite (count_leading_headnz 0 rest Hnz). reflexivity. }
  split.
  - unfold b58_encode at 1. fold z. fold rest. rewrite E. reflexivity.
  - rewrite E. apply chars_headnz; [apply strip_Forall, digits_range; lia|apply strip_headnz].
Qed.

(* the crate is only ever called on text without a leading '1': it cannot panic *)
Lemma b58_decode_no_panic s : headnz 49 s -> is_panic (b58_decode s) = false.
Proof.
  intros H. unfold b58_decode. rewrite (count_leading_headnz 49 s H).
  destruct (map_opt b58_digit (skipn 0 s)); [|reflexivity].
  destruct (_ >=? two1056); [reflexivity|]. cbn [Nat.ltb Nat.leb]. reflexivity.
Qed.

Lemma pallas_decode_never_panics s : is_panic (pallas_decode_base58 s) = false.
Proof.
  unfold pallas_decode_base58. destruct (leading_decomp 49 s) as [_ Hnz].
  pose proof (b58_decode_no_panic _ Hnz) as H.
  destruct (b58_decode (skipn (count_leading 49 s) s)); try reflexivity; [|discriminate].
  destruct (_ <? _)%nat; reflexivity.
Qed.

Theorem pallas_b58_roundtrip_proof bs : bytes_wf bs -> blen bs <= 132 ->
  pallas_decode_base58 (b58_encode bs) = Ok bs.
Proof.
  intros Hw Hl. destruct (b58_encode_split bs) as [E Hnz]. destruct (leading_decomp 0 bs) as [Hdec _].
  set (z := count_leading 0 bs) in *. set (rest := skipn z bs) in *.
  assert (HL : (z + length rest = length bs)%nat).
  { pose proof (f_equal (@length Z) Hdec) as HL. rewrite app_length, repeat_length in HL. lia. }
  assert (Hr : bytes_wf rest).
  { rewrite Hdec in Hw. apply Forall_app in Hw as [_ Hw]. exact Hw. }
  unfold pallas_decode_base58. rewrite E, count_repeat by exact Hnz. rewrite skipn_repeat.
  rewrite b58_roundtrip_proof; [|exact Hr|unfold blen in *; lia].
  assert (Hn : (132 <? z + length rest)%nat = false) by (apply Nat.ltb_ge; unfold blen in Hl; lia).
  rewrite Hn. f_equal. symmetry. exact Hdec.
Qed.
