#!/bin/sh
# 1. confirm every candidate under /tmp/mut-out not yet kept (2 workers, each reusing its own worktree
#    path + cargo target dir); 2. run the registered check against every kept seeded change without a
#    result yet: 3 workers with their own scratch worktree path /tmp/seeded-wt<k>; all seeded changes of
#    one property go to the same worker (they share translator output).
cd "$(dirname "$0")/.."
TODO=$(for n in $(ls /tmp/mut-out 2>/dev/null); do [ -f /tmp/mut-out/$n/meta.json ] && [ ! -d seeded/$n ] && echo $n; done)
for k in 0 1; do
  ( i=0; for n in $TODO; do
      i=$((i+1)); [ $((i % 2)) -eq $k ] || continue
      CARGO_BUILD_JOBS=6 python3 vp/confirm_seeded.py /tmp/mut-out/$n --slot $k 2>&1 | tail -1
    done ) &
done
wait
for k in 0 1 2; do
  ( for d in seeded/*/; do
      n=$(basename "$d"); [ -f "$d/result.json" ] && continue
      num=$(echo "$n" | sed 's/^C0*//; s/-.*//')
      [ $((num % 3)) -eq $k ] || continue
      python3 vp/seeded.py "$n" --slot $k 2>&1 | tail -1
    done ) &
done
wait
