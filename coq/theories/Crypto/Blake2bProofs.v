(* Streaming BLAKE2b = one-shot BLAKE2b of the concatenation, for every chunking. *)
From PV Require Import Lib.Base Crypto.Blake2b.
Open Scope Z_scope.

Definition runL (h : list Z) (t : Z) (m : list Z) := run (length m) h t m.

Lemma run_enough : forall f1 f2 h t m,
  (length m <= f1)%nat -> (length m <= f2)%nat -> run f1 h t m = run f2 h t m.
Proof.
  induction f1 as [|f1 IH]; intros f2 h t m H1 H2.
  - destruct m; [|cbn in H1; lia]. destruct f2; reflexivity.
  - destruct f2 as [|f2].
    + destruct m; [|cbn in H2; lia]. reflexivity.
    + cbn [run]. destruct (128 <? zlen m) eqn:E; [|reflexivity].
      unfold zlen in E.
      apply IH; rewrite skipn_length; lia.
Qed.

Lemma runL_unfold h t m :
  runL h t m =
  if 128 <? zlen m
  then runL (F h (firstn 128 m) (t + 128) false) (t + 128) (skipn 128 m)
  else (h, t, m).
Proof.
  unfold runL. destruct m as [|x m'].
  - reflexivity.
  - cbn [length run]. destruct (128 <? zlen (x :: m')) eqn:E; [|reflexivity].
    apply run_enough; rewrite skipn_length; cbn [length]; lia.
Qed.

Lemma runL_short h t m : zlen m <= 128 -> runL h t m = (h, t, m).
Proof. intros H. rewrite runL_unfold. destruct (128 <? zlen m) eqn:E; [lia|reflexivity]. Qed.

(* strong induction on the length of the message *)
Lemma runL_ind (P : list Z -> Prop) :
  (forall m, (forall m', (length m' < length m)%nat -> P m') -> P m) -> forall m, P m.
Proof.
  intros H m. remember (length m) as n eqn:En. revert m En.
  induction n as [n IH] using lt_wf_ind. intros m En. apply H. intros m' Hm'.
  apply (IH (length m')); [lia|reflexivity].
Qed.

Lemma runL_rest_len : forall m h t, zlen (snd (runL h t m)) <= 128.
Proof.
  induction m as [m IH] using runL_ind. intros h t. rewrite runL_unfold.
  destruct (128 <? zlen m) eqn:E.
  - apply IH. unfold zlen in E. rewrite skipn_length. lia.
  - cbn. lia.
Qed.

Lemma runL_app : forall m c h t,
  runL h t (m ++ c) = let '(h', t', r) := runL h t m in runL h' t' (r ++ c).
Proof.
  induction m as [m IH] using runL_ind. intros c h t.
  rewrite (runL_unfold h t m). destruct (128 <? zlen m) eqn:E.
  - unfold zlen in E.
    rewrite (runL_unfold h t (m ++ c)).
    assert (E2 : (128 <? zlen (m ++ c)) = true) by (unfold zlen; rewrite app_length; lia).
    rewrite E2.
    assert (Hf : firstn 128 (m ++ c) = firstn 128 m).
    { rewrite firstn_app. replace (128 - length m)%nat with 0%nat by lia.
      cbn [firstn]. apply app_nil_r. }
    assert (Hs : skipn 128 (m ++ c) = skipn 128 m ++ c).
    { rewrite skipn_app. replace (128 - length m)%nat with 0%nat by lia. reflexivity. }
    rewrite Hf, Hs. apply IH. rewrite skipn_length. lia.
  - reflexivity.
Qed.

Definition st_of (o : Z) (hts : list Z * Z * list Z) : bstate :=
  let '(h, t, r) := hts in mkB h t r o.

(* one update_mut call = continuing the block loop on buffer ++ input *)
Lemma absorb_runL h t buf o c :
  zlen buf <= 128 -> absorb (mkB h t buf o) c = st_of o (runL h t (buf ++ c)).
Proof.
  intros Hb. unfold zlen in Hb. destruct c as [|x c'].
  - rewrite app_nil_r. rewrite runL_short by (unfold zlen; lia). reflexivity.
  - remember (x :: c') as c eqn:Ec. unfold absorb. rewrite Ec at 1. cbn [bbuf bh bt bout].
    destruct ((128 - length buf) <? length c)%nat eqn:E.
    + rewrite (runL_unfold h t (buf ++ c)).
      assert (E2 : (128 <? zlen (buf ++ c)) = true) by (unfold zlen; rewrite app_length; lia).
      rewrite E2.
      assert (Hf : firstn 128 (buf ++ c) = buf ++ firstn (128 - length buf) c).
      { rewrite firstn_app. rewrite firstn_all2 by lia. reflexivity. }
      assert (Hs : skipn 128 (buf ++ c) = skipn (128 - length buf) c).
      { rewrite skipn_app. rewrite skipn_all2 by lia. reflexivity. }
      rewrite Hf, Hs. unfold runL.
      rewrite (run_enough (length c) (length (skipn (128 - length buf) c)))
        by (rewrite ?skipn_length; lia).
      destruct (run _ _ _ _) as [[h2 t2] r2]. reflexivity.
    + rewrite runL_short by (unfold zlen; rewrite app_length; lia). reflexivity.
Qed.

Lemma fold_absorb_runL : forall chunks h t buf o,
  zlen buf <= 128 ->
  fold_left absorb chunks (mkB h t buf o) = st_of o (runL h t (buf ++ concat chunks)).
Proof.
  induction chunks as [|c chunks IH]; intros h t buf o Hb.
  - cbn [fold_left concat]. rewrite app_nil_r. rewrite runL_short by exact Hb. reflexivity.
  - cbn [fold_left concat]. rewrite absorb_runL by exact Hb.
    rewrite app_assoc. rewrite (runL_app (buf ++ c) (concat chunks)).
    pose proof (runL_rest_len (buf ++ c) h t) as Hr.
    destruct (runL h t (buf ++ c)) as [[h' t'] r']. cbn [st_of]. cbn [snd] in Hr.
    apply IH. exact Hr.
Qed.

Lemma blake2b_fin_st_of o hts : blake2b_fin (st_of o hts) = finish o hts.
Proof. destruct hts as [[h t] r]. reflexivity. Qed.

Lemma blake2b_stream_split_proof : forall n chunks,
  blake2b_fin (fold_left absorb chunks (blake2b_init n)) = blake2b n (concat chunks).
Proof.
  intros n chunks. unfold blake2b_init.
  rewrite fold_absorb_runL by (cbn; lia).
  rewrite blake2b_fin_st_of. reflexivity.
Qed.

(* two-chunk corollary used by the Hasher composition specs *)
Lemma absorb2 n a b :
  blake2b_fin (absorb (absorb (blake2b_init n) a) b) = blake2b n (a ++ b).
Proof.
  pose proof (blake2b_stream_split_proof n [a; b]) as H. cbn [fold_left concat] in H.
  rewrite app_nil_r in H. exact H.
Qed.

Lemma absorb1 n a : blake2b_fin (absorb (blake2b_init n) a) = blake2b n a.
Proof.
  pose proof (blake2b_stream_split_proof n [a]) as H. cbn [fold_left concat] in H.
  rewrite app_nil_r in H. exact H.
Qed.

(* digest length: outlen bytes for 0 <= outlen <= 64 *)
Lemma word_le_bytes_length n w : length (word_le_bytes n w) = n.
Proof. revert w; induction n as [|n IH]; intros w; cbn [word_le_bytes length]; [reflexivity|now rewrite IH]. Qed.

Lemma F_length h blk t l : length (F h blk t l) = 8%nat.
Proof.
  unfold F. destruct (fold_left _ _ _) as [[[q1 q2] q3] q4].
  destruct q1 as [[[? ?] ?] ?], q2 as [[[? ?] ?] ?], q3 as [[[? ?] ?] ?], q4 as [[[? ?] ?] ?].
  reflexivity.
Qed.

Lemma finish_length o hts : 0 <= o <= 64 -> zlen (finish o hts) = o.
Proof.
  intros Ho. destruct hts as [[h t] r]. unfold finish.
  pose proof (F_length h (pad128 r) (t + zlen r) true) as HF.
  destruct (F h (pad128 r) (t + zlen r) true) as [|a [|b [|c [|d [|e [|f [|g [|i [|]]]]]]]]]; try discriminate HF.
  unfold zlen. cbn [flat_map]. rewrite firstn_length. rewrite !app_length, !word_le_bytes_length. cbn [length]. lia.
Qed.

Lemma blake2b_length n msg : 0 <= n <= 64 -> zlen (blake2b n msg) = n.
Proof. intros Hn. apply finish_length, Hn. Qed.

(* ---------- the loop formulation = the RFC's indexed formulation ---------- *)
Lemma pad128_full l : length l = 128%nat -> pad128 l = l.
Proof. intros H. unfold pad128. rewrite H. rewrite Nat.sub_diag. apply app_nil_r. Qed.

Lemma skipn_skipn' {A} : forall b a (l : list A), skipn a (skipn b l) = skipn (b + a) l.
Proof.
  induction b as [|b IH]; intros a l; [reflexivity|].
  destruct l as [|x l]; [now rewrite !skipn_nil|]. cbn [skipn Nat.add]. apply IH.
Qed.

Lemma nblocks_spec ll :
  (1 <= nblocks ll /\ 128 * (nblocks ll - 1) <= ll <= 128 * nblocks ll
   /\ (ll <> 0 -> 128 * (nblocks ll - 1) < ll))%nat.
Proof.
  unfold nblocks. destruct (ll =? 0)%nat eqn:E.
  - apply Nat.eqb_eq in E. rewrite E. lia.
  - apply Nat.eqb_neq in E.
    pose proof (Nat.div_mod (ll + 127) 128 ltac:(lia)) as Hd.
    pose proof (Nat.mod_upper_bound (ll + 127) 128 ltac:(lia)) as Hm.
    generalize dependent ((ll + 127) / 128)%nat. intros q Hd.
    generalize dependent ((ll + 127) mod 128)%nat. intros r Hd Hm. lia.
Qed.

Definition out (n : Z) (h : list Z) : list Z := firstn (Z.to_nat n) (flat_map (word_le_bytes 8) h).

Lemma finish_out n h t r : finish n (h, t, r) = out n (F h (pad128 r) (t + zlen r) true).
Proof. reflexivity. Qed.

(* last block *)
Lemma rfc_last n msg dd h :
  (1 <= dd)%nat -> (128 * (dd - 1) <= length msg <= 128 * dd)%nat ->
  finish n (runL h (128 * Z.of_nat (dd - 1)) (skipn (128 * (dd - 1)) msg)) =
  out n (F h (dblock msg (dd - 1)) (zlen msg) true).
Proof.
  intros H1 H2.
  assert (Hrem : (length (skipn (128 * (dd - 1)) msg) <= 128)%nat) by (rewrite skipn_length; lia).
  rewrite runL_short by (unfold zlen; lia).
  rewrite finish_out. unfold dblock.
  rewrite (firstn_all2 (n := 128)) by exact Hrem.
  replace (128 * Z.of_nat (dd - 1) + zlen (skipn (128 * (dd - 1)) msg)) with (zlen msg)
    by (unfold zlen; rewrite skipn_length; lia).
  reflexivity.
Qed.

(* a full, non-final block *)
Lemma rfc_step h k msg :
  (128 * (k + 1) < length msg)%nat ->
  runL h (128 * Z.of_nat k) (skipn (128 * k) msg) =
  runL (F h (dblock msg k) ((Z.of_nat k + 1) * 128) false) (128 * Z.of_nat (S k)) (skipn (128 * S k) msg).
Proof.
  intros Hlen. rewrite runL_unfold.
  assert (E2 : (128 <? zlen (skipn (128 * k) msg)) = true) by (unfold zlen; rewrite skipn_length; lia).
  rewrite E2. rewrite skipn_skipn'.
  replace (128 * k + 128)%nat with (128 * S k)%nat by lia.
  replace (128 * Z.of_nat k + 128) with (128 * Z.of_nat (S k)) by lia.
  replace ((Z.of_nat k + 1) * 128) with (128 * Z.of_nat (S k)) by lia.
  unfold dblock. rewrite pad128_full by (rewrite firstn_length, skipn_length; lia).
  reflexivity.
Qed.

Lemma rfc_loop_0 i h msg : rfc_loop 0 msg h i = h.
Proof. reflexivity. Qed.
Lemma rfc_loop_S c i h msg :
  rfc_loop (S c) msg h i = rfc_loop c msg (F h (dblock msg i) ((Z.of_nat i + 1) * 128) false) (S i).
Proof. reflexivity. Qed.

Lemma rfc_gen n msg dd :
  (1 <= dd)%nat -> (128 * (dd - 1) <= length msg <= 128 * dd)%nat ->
  (length msg <> 0 -> 128 * (dd - 1) < length msg)%nat ->
  forall c k h, (dd - 1 - k = c)%nat -> (k <= dd - 1)%nat ->
  finish n (runL h (128 * Z.of_nat k) (skipn (128 * k) msg)) =
  out n (F (rfc_loop c msg h k) (dblock msg (dd - 1)) (zlen msg) true).
Proof.
  intros H1 H2 H3. induction c as [|c IH]; intros k h Hc Hk.
  - assert (k = dd - 1)%nat by lia. subst k. rewrite rfc_loop_0. apply rfc_last; assumption.
  - assert (Hlen : (128 * (k + 1) < length msg)%nat).
    { destruct (Nat.eq_dec (length msg) 0) as [E|E]; [lia|]. specialize (H3 E). lia. }
    rewrite rfc_step by exact Hlen. rewrite rfc_loop_S. apply IH; lia.
Qed.

Lemma blake2b_rfc_eq_proof n msg : blake2b_rfc n msg = blake2b n msg.
Proof.
  destruct (nblocks_spec (length msg)) as (H1 & H2 & H3).
  unfold blake2b_rfc, blake2b. symmetry.
  exact (rfc_gen n msg (nblocks (length msg)) H1 H2 H3 (nblocks (length msg) - 1) 0 (h0 n) ltac:(lia) ltac:(lia)).
Qed.
