(* C28 proofs, part I (Proofs): see Proofs.v for the theorem [exec_sync_conformant]. *)
From PV Require Import Lib.Base P2p.Proto P2p.Initiator P2p.Spec C27.Proofs C28.Model.
From PV Require Import C28.Abs C28.Refine C28.Visitors C28.Emit C28.SettleBlock C28.Inv C28.Events C28.Blocks.
Open Scope Z_scope.

(* ---- discovery adds fresh peers only ---- *)
Definition fresh_ok (st st' : ist) : Prop :=
  (forall q s, lookup q (peers st) = Some s -> lookup q (peers st') = Some s) /\
  (forall q, lookup q (peers st) = None ->
     lookup q (peers st') = None \/ exists s1, lookup q (peers st') = Some s1 /\ DefaultProto s1 /\ is_init s1 = false) /\
  (NoDup (map fst (peers st)) -> NoDup (map fst (peers st'))).

Lemma fresh_ok_refl st : fresh_ok st st.
Proof. repeat split; auto. Qed.

Lemma discover_all_fresh c new : forall st st', discover_all c new st = Ok st' -> fresh_ok st st'.
Proof.
  induction new as [|p rest IH]; intros st st' H; cbn [discover_all] in H.
  - inversion H; subst. apply fresh_ok_refl.
  - destruct (lookup p (peers st)) as [s|] eqn:L; [apply IH, H|].
    destruct (on_discovered c p st) as [st1| |] eqn:D; cbn [bind] in H; try discriminate.
    unfold on_discovered in D. destruct (on_peer_discovered c p (pr st) pnew) as [[pr1 s1]| |] eqn:O; cbn [bind] in D; try discriminate.
    inversion D; subst st1. clear D. destruct (discovered_state _ _ _ _ _ O) as [Df NI].
    destruct (IH _ _ H) as (A & B & C). cbn [peers] in *. repeat split.
    + intros q s Lq. apply A. destruct (Z.eq_dec q p) as [->|N]; [congruence|]. rewrite lookup_insert_neq by exact N. exact Lq.
    + intros q Lq. destruct (Z.eq_dec q p) as [->|N].
      * right. exists s1. split; [apply A, lookup_insert_eq | split; assumption].
      * apply B. rewrite lookup_insert_neq by exact N. exact Lq.
    + intros ND. apply C. apply nodup_insert, ND.
Qed.

Lemma move_discovered_fresh c dorder st st' : move_discovered c dorder st = Ok st' -> fresh_ok st st'.
Proof.
  unfold move_discovered. destruct (usub _ _ _) as [d| |]; cbn [bind]; try discriminate.
  destruct (d =? 0); [intros H; inversion H; subst; apply fresh_ok_refl|].
  destruct (firstn _ _) as [|x l] eqn:F; [intros H; inversion H; subst; apply fresh_ok_refl|].
  intros H. apply discover_all_fresh in H. exact H.
Qed.

Lemma nodupb_NoDup l : nodupb l = true -> NoDup l.
Proof.
  induction l as [|x r IH]; cbn [nodupb]; [constructor|]. intros H. apply andb_true_iff in H as [H1 H2].
  constructor; [apply negb_true_iff, mem_false in H1; exact H1 | apply IH, H2].
Qed.
Lemma canon_NoDup given actual : NoDup actual -> NoDup (canon given actual).
Proof.
  intros ND. unfold canon, same_set. destruct (nodupb given) eqn:N; cbn [andb]; [|exact ND].
  destruct ((length given =? length actual)%nat && forallb (fun x => mem x actual) given); [apply nodupb_NoDup, N | exact ND].
Qed.

(* ---- Housekeeping / Idle ---- *)
Lemma housekeeping_sync c i st e order dorder st1 outs :
  SInv st e -> housekeeping c order dorder st = Ok (st1, outs) ->
  exists st2 e2, settle c i e st1 e (sends outs) = inl (st2, e2) /\ SInv st2 e2.
Proof.
  intros [ND PO]. unfold housekeeping.
  destruct (hk_loop c (canon order (keys st)) (st, [])) as [[stl outl]| |] eqn:HL; cbn [bind]; try discriminate.
  destruct (move_discovered c dorder stl) as [stm| |] eqn:MD; cbn [bind]; try discriminate.
  intros H; inversion H; subst. clear H.
  destruct (hk_blocks c _ (canon_NoDup order (keys st) ND) _ _ _ _ HL) as (K & LK & blocks & S & NB & IB & FB).
  destruct (move_discovered_fresh _ _ _ _ MD) as (FA & FB2 & FC).
  cbn [sends flat_map app] in S. rewrite S.
  apply settle_blocks.
  - apply FC. unfold keys in K. rewrite K. exact ND.
  - exact NB.
  - intros q. unfold peer_ok. pose proof (PO q) as Pq.
    destruct (lookup q (peers st)) as [s|] eqn:L.
    + destruct (LK q s L) as (s1 & L1 & S1). rewrite (FA q s1 L1). eapply pinv_PF; [exact Pq | apply SFi_PF, S1].
    + assert (Ll : lookup q (peers stl) = None).
      { apply lookup_None_keys. rewrite K. apply lookup_None_keys, L. }
      destruct (FB2 q Ll) as [X|(s1 & X & Df & NI)]; rewrite X; [exact Pq|].
      destruct Pq as [P W]. split; [exact P|]. split; [apply acc_default_new; assumption|].
      split; [intros Lv; rewrite (W Lv); apply rel_default, Df | intros _; exact Df].
  - rewrite Forall_forall in FB |- *. intros b Ib. destruct (FB b Ib) as (s & L & F & N).
    destruct (LK _ s L) as (s1 & L1 & S1). exists s1. split; [apply FA, L1|]. split; [|exact N].
    eapply Forall_impl; [|exact F]. cbn. intros m [Nz Ep]. split; [exact Nz|]. eapply epre_SFi; [apply SFi_sym, S1 | exact Ep].
Qed.

(* ---- Recv ---- *)
Lemma on_inbound_shape c p m st out st' out' s :
  lookup p (peers st) = Some s -> on_inbound c p (st, out) m = Ok (st', out') ->
  exists sc s2, SFi (apply_msg s m) sc /\
    (forall w, Rel sc w -> Rel s2 w) /\ (Acc sc -> Acc s2) /\ (DefaultProto sc -> DefaultProto s2) /\
    lookup p (peers st') = Some s2 /\ (forall q, q <> p -> lookup q (peers st') = lookup q (peers st)) /\
    map fst (peers st') = map fst (peers st) /\ sends out' = sends out.
Proof.
  intros L. unfold on_inbound. rewrite L. unfold visit_inbound.
  destruct (categorize c p (pr st) (apply_msg s m)) as [[pr1 sc]| |] eqn:Cg; cbn [bind]; try discriminate.
  destruct (inbound_rest p (ax st, sc, out)) as [[[a2 s2] out2]| |] eqn:IR; cbn [bind]; try discriminate.
  intros H; inversion H; subst. clear H.
  apply categorize_SFi in Cg. apply (iv_inbound_rest p) in IR as (R & A & D & ext & -> & Sx).
  exists sc, s2. split; [exact Cg|]. split; [exact R|]. split; [exact A|]. split; [exact D|]. cbn [peers].
  split; [apply lookup_insert_eq|]. split; [intros q N; apply lookup_insert_neq, N|].
  split; [eapply keys_insert_tracked; exact L | rewrite sends_app, Sx, app_nil_r; reflexivity].
Qed.

Lemma recv_tracked c p sy : forall ms st out st' out' s w w',
  lookup p (peers st) = Some s -> Acc s -> (sy = true -> Rel s w) -> (sy = false -> DefaultProto s) ->
  recv_all w [] ms = Some w' -> on_inbound_all c p (st, out) ms = Ok (st', out') ->
  exists s', lookup p (peers st') = Some s' /\ Acc s' /\ (sy = true -> Rel s' w') /\ (sy = false -> DefaultProto s') /\
    (forall q, q <> p -> lookup q (peers st') = lookup q (peers st)) /\
    map fst (peers st') = map fst (peers st) /\ sends out' = sends out.
Proof.
  induction ms as [|m rest IH]; intros st out st' out' s w w' L A R D RA H; cbn [on_inbound_all recv_all] in *.
  - inversion H; subst. inversion RA; subst. exists s. split; [exact L|]. split; [exact A|]. split; [exact R|]. split; [exact D|].
    split; [intros q _; reflexivity|]. split; reflexivity.
  - cbn [same_proto existsb] in RA. destruct (sstep w m) as [w1|] eqn:S1; try discriminate.
    destruct (on_inbound c p (st, out) m) as [[st1 out1]| |] eqn:O; cbn [bind] in H; try discriminate.
    destruct (on_inbound_shape _ _ _ _ _ _ _ _ L O) as (sc & s2 & Cg & R2 & A2 & D2 & L2 & O2 & K2 & S2).
    assert (Asm : Acc (apply_msg s m)).
    { destruct sy.
      - eapply acc_step; [apply R; reflexivity | right; exact S1 | exact A].
      - rewrite (default_server_msg s w m w1 (D eq_refl) S1). exact A. }
    destruct (IH st1 out1 st' out' s2 w1 w' L2) as (s' & L' & A' & R' & D' & O' & K' & S'); auto.
    + apply A2. eapply SFi_Acc; [exact Cg | exact Asm].
    + intros Y. apply R2. eapply SFi_Rel; [exact Cg|]. eapply rel_server_step; [apply R, Y | exact S1].
    + intros Y. apply D2. eapply SFi_Default; [exact Cg|]. rewrite (default_server_msg s w m w1 (D Y) S1). apply default_set_viol, D, Y.
    + exists s'. split; [exact L'|]. split; [exact A'|]. split; [exact R'|]. split; [exact D'|].
      split; [intros q N; rewrite (O' q N); apply O2, N|]. split; congruence.
Qed.

Lemma recv_untracked c p : forall ms st out, lookup p (peers st) = None -> on_inbound_all c p (st, out) ms = Ok (st, out).
Proof.
  induction ms as [|m rest IH]; intros st out L; cbn [on_inbound_all]; [reflexivity|].
  unfold on_inbound. rewrite L. cbn [bind]. apply IH, L.
Qed.

Lemma recv_sync c i st e p ms e1 st1 outs :
  SInv st e -> env_event Sync e (ERecv p ms) = Some e1 -> on_inbound_all c p (st, []) ms = Ok (st1, outs) ->
  exists st2 e2, settle c i e1 st1 e1 (sends outs) = inl (st2, e2) /\ SInv st2 e2.
Proof.
  intros [ND PO] EV. cbn [env_event] in EV. set (x := eget p e) in *.
  destruct (lk x) eqn:LK; try discriminate.
  destruct (recv_all (wire x) (pend x) ms) as [w'|] eqn:RA; try discriminate. inversion EV; subst e1. clear EV.
  assert (O : forall q, q <> p -> eget q (eset p (mkPE LUp (synced x) w' (pend x)) e) = eget q e) by (intros q N; apply eget_eset_neq, N).
  assert (LV : live x = synced x) by (unfold live; rewrite LK; apply andb_true_r).
  pose proof (PO p) as Pp. fold x in Pp.
  destruct (lookup p (peers st)) as [s|] eqn:L.
  - destruct Pp as (P & A & R & D). rewrite P in RA. rewrite LV in R, D.
    intros H. destruct (recv_tracked c p (synced x) ms st [] st1 outs s (wire x) w' L A R D RA H) as (s' & L' & A' & R' & D' & O' & K' & S').
    cbn [sends flat_map] in S'. rewrite S'. no_sends. split; [rewrite K'; exact ND|]. intros q.
    destruct (Z.eq_dec q p) as [->|N].
    + rewrite L', eget_eset_eq. split; [exact P|]. split; [exact A'|]. unfold live. cbn [lk synced wire]. rewrite andb_true_r. split; assumption.
    + rewrite (O' q N), (O q N). apply PO.
  - rewrite recv_untracked by exact L. intros H; inversion H; subst. cbn [sends flat_map]. no_sends. split; [exact ND|]. intros q.
    destruct (Z.eq_dec q p) as [->|N].
    + rewrite L, eget_eset_eq. destruct Pp as [P W]. split; [exact P|]. unfold live. cbn [lk synced wire]. rewrite andb_true_r.
      intros Sy. rewrite LV in W. specialize (W Sy). rewrite W, P in RA.
      destruct ms as [|m r]; cbn [recv_all] in RA; [inversion RA; reflexivity|].
      cbn [same_proto existsb] in RA. rewrite sstep_w0 in RA. discriminate.
    + rewrite (O q N). apply PO.
Qed.

(* ---- one schedule step ---- *)
Lemma SInv_aux st e pr' a' : SInv st e -> SInv (mkI pr' a' (peers st)) e.
Proof. intros H; exact H. Qed.

Theorem sync_step c i st e ev e1 st1 outs :
  SInv st e -> env_event Sync e ev = Some e1 -> step c st ev = Ok (st1, outs) ->
  exists st2 e2, settle c i e1 st1 e1 (sends outs) = inl (st2, e2) /\ SInv st2 e2.
Proof.
  intros I EV ST. destruct ev; cbn [step] in ST.
  - destruct (on_discovered c p st) as [st'| |] eqn:D; cbn [bind] in ST; try discriminate. inversion ST; subst.
    eapply include_sync; eassumption.
  - cbn [env_event] in EV. inversion EV; subst. eapply tagged_sync; [apply (SInv_aux st e1 (ban_pid p (pr st)) (ax st)), I | | exact ST].
    intros s. repeat split.
  - cbn [env_event] in EV. inversion EV; subst. eapply tagged_sync; [exact I | | exact ST]. intros s. repeat split.
  - cbn [env_event] in EV. inversion EV; subst. eapply housekeeping_sync; eassumption.
  - cbn [env_event] in EV. inversion EV; subst. inversion ST; subst. cbn [sends flat_map]. no_sends. exact I.
  - cbn [env_event] in EV. inversion EV; subst. eapply tagged_sync; [exact I | | exact ST]. intros s. repeat split.
  - cbn [env_event] in EV. inversion EV; subst. inversion ST; subst. cbn [sends flat_map]. no_sends. exact I.
  - cbn [env_event] in EV. inversion EV; subst. inversion ST; subst. cbn [sends flat_map]. no_sends. exact I.
  - cbn [env_event] in EV. inversion EV; subst. inversion ST; subst. cbn [sends flat_map]. no_sends. exact I.
  - cbn [env_event] in EV. inversion EV; subst. inversion ST; subst. cbn [sends flat_map]. no_sends. exact I.
  - eapply connected_sync; eassumption.
  - eapply disconnected_sync; eassumption.
  - eapply errored_sync; eassumption.
  - eapply recv_sync; eassumption.
  - cbn [env_event] in EV. discriminate.
Qed.

Lemma SInv_init : SInv init [].
Proof. split; [constructor|]. intros p. cbn. split; [reflexivity | intros Y; discriminate]. Qed.

Theorem exec_sync_conformant c : forall evs i st e, SInv st e -> is_violation (exec Sync c i st e evs) = false.
Proof.
  induction evs as [|ev rest IH]; intros i st e I; cbn [exec]; [reflexivity|].
  destruct (env_event Sync e ev) as [e1|] eqn:EV; [|reflexivity].
  destruct (step c st ev) as [[st1 outs]| |] eqn:ST; try reflexivity.
  destruct (sync_step c i st e ev e1 st1 outs I EV ST) as (st2 & e2 & H & I2). rewrite H. apply IH, I2.
Qed.
