(* C28, delayed confirmations (Async schedules): tag / Connected / Disconnected / Error / Include events. *)
From PV Require Import Lib.Base P2p.Proto P2p.Initiator P2p.Spec C27.Proofs C28.Model
  C28.Abs C28.Refine C28.Visitors C28.Emit C28.SettleBlock C28.Inv C28.Events C28.Blocks C28.Proofs.
From PV Require Import C28.AsyncSpec C28.AsyncRelU C28.AsyncInv.
Open Scope Z_scope.

Definition step_ok (i : Z) (r : env + verdict) (st1 : ist) : Prop :=
  match r with
  | inl e2 => SInvA st1 e2
  | inr v => exists p m, v = VViolation i p m true
  end.

Lemma emit_blocks i e0 st1 : forall blocks e,
  NoDup (map fst blocks) ->
  (forall b, In b blocks -> eget (fst b) e = eget (fst b) e0) ->
  NoDup (map fst (peers st1)) -> (forall q, peer_okA st1 e q) ->
  Forall (fun b => exists s1, lookup (fst b) (peers st1) = Some s1 /\
                   Forall (fun m => proto_of m <> 0 /\ epre s1 m) (snd b) /\ NoDup (map proto_of (snd b))) blocks ->
  step_ok i (emit_all i e0 e (flat_map blk blocks)) st1.
Proof.
  induction blocks as [|[p ms] rest IH]; intros e NB EQ ND PO F.
  - cbn [flat_map emit_all step_ok]. split; [exact ND | exact PO].
  - inversion F as [|? ? (s1 & L & Fm & Nm) Fr]; subst. inversion NB as [|? ? Np Nr]; subst. cbn [fst snd] in *.
    cbn [flat_map]. unfold blk at 1. cbn [fst snd].
    pose proof (PO p) as Pp. unfold peer_okA in Pp. rewrite L in Pp.
    destruct (emit_block i e0 p s1 ms [] e (flat_map blk rest) Pp) as [(m & V)|(e' & H1 & H2 & H3 & H4 & H5)].
    + rewrite app_nil_r. pose proof (EQ (p, ms) (or_introl eq_refl)) as X. cbn [fst] in X. rewrite X. reflexivity.
    + eapply Forall_impl; [|exact Fm]. cbn. intros m [_ X]; exact X.
    + left. eapply Forall_impl; [|exact Fm]. cbn. intros m [X _]; exact X.
    + cbn [app]. exact Nm.
    + rewrite V. cbn [step_ok]. eauto.
    + rewrite H1. apply IH; [exact Nr | | exact ND | | exact Fr].
      * intros b Ib. rewrite H3; [apply EQ; right; exact Ib|]. intros E. apply Np. rewrite <- E. apply in_map, Ib.
      * intros q. unfold peer_okA. destruct (Z.eq_dec q p) as [->|Nq]; [rewrite L; exact H2 | rewrite (H3 q Nq); apply PO].
Qed.

Lemma emit_peer_A i e1 st1 p s1 ms :
  NoDup (map fst (peers st1)) -> (forall q, peer_okA st1 e1 q) ->
  lookup p (peers st1) = Some s1 -> Forall (epre s1) ms ->
  (Forall (fun m => proto_of m <> 0) ms \/ (pend (eget p e1) = [] /\ live (eget p e1) = true /\ (length ms <= 1)%nat)) ->
  NoDup (map proto_of ms) ->
  step_ok i (emit_all i e1 e1 (map (pair p) ms)) st1.
Proof.
  intros ND PO L F Z N. pose proof (PO p) as Pp. unfold peer_okA in Pp. rewrite L in Pp.
  destruct (emit_block i e1 p s1 ms [] e1 [] Pp) as [(m & V)|(e' & H1 & H2 & H3 & H4 & H5)]; auto.
  - rewrite app_nil_r. reflexivity.
  - rewrite app_nil_r in V. rewrite V. cbn [step_ok]. eauto.
  - rewrite app_nil_r in H1. rewrite H1. cbn [emit_all step_ok]. split; [exact ND|]. intros q.
    destruct (Z.eq_dec q p) as [->|Nq]; [rewrite L; exact H2 | rewrite (H3 q Nq); apply PO].
Qed.

Lemma others_insertA st e p s1 pr' a' e1 :
  (forall q, peer_okA st e q) -> (forall q, q <> p -> eget q e1 = eget q e) ->
  forall q, q <> p -> peer_okA (mkI pr' a' (insert p s1 (peers st))) e1 q.
Proof.
  intros H E q N. unfold peer_okA. cbn [peers]. rewrite lookup_insert_neq by exact N. rewrite E by exact N. apply H.
Qed.
Lemma all_insertA st e p s1 pr' a' e1 :
  (forall q, peer_okA st e q) -> (forall q, q <> p -> eget q e1 = eget q e) -> AInvP s1 (eget p e1) ->
  forall q, peer_okA (mkI pr' a' (insert p s1 (peers st))) e1 q.
Proof.
  intros H E A q. destruct (Z.eq_dec q p) as [->|N]; [unfold peer_okA; cbn [peers]; rewrite lookup_insert_eq; exact A|].
  eapply others_insertA; eassumption.
Qed.

Ltac no_sendsA := cbn [sends flat_map emit_all step_ok].

(* ---- tag commands ---- *)
Lemma tagged_async i st0 e p tagger st1 outs :
  SInvA st0 e -> (forall s, SFi s (tagger s) /\ conn (tagger s) = conn s) -> on_tagged p tagger st0 = Ok (st1, outs) ->
  step_ok i (emit_all i e e (sends outs)) st1.
Proof.
  intros [ND PO] T. unfold on_tagged. destruct (lookup p (peers st0)) as [s|] eqn:L.
  2:{ intros H; inversion H; subst. no_sendsA. split; assumption. }
  destruct (v_cs_tagged p (ax st0, tagger s, [])) as [[[a1 s1] out1]| |] eqn:V; cbn [bind]; try discriminate.
  intros H; inversion H; subst. clear H.
  pose proof (kv_tagged p _ _ _ _ _ _ V) as KC.
  apply (hv_cs_tagged p) in V as (S1 & ext & ms & -> & X & F & N). cbn [app]. rewrite X.
  pose proof (PO p) as Pp. rewrite L in Pp. destruct (T s) as [Ts Tc].
  assert (S : SFi s s1) by (eapply SFi_trans; [exact Ts | exact S1]).
  assert (A1 : AInvP s1 (eget p e)).
  { eapply ainv_PF; [exact Pp | apply SFi_PF, S|]. intros C. apply (kconn_connected (tagger s) s1 KC) in C. unfold connected in *. rewrite Tc in C. exact C. }
  apply emit_peer_A with (s1 := s1).
  - cbn [peers]. apply nodup_insert, ND.
  - apply (all_insertA st0 e); [exact PO | reflexivity | exact A1].
  - cbn [peers]. apply lookup_insert_eq.
  - eapply Forall_impl; [|exact F]. cbn. intros m [_ Ep]. eapply epre_SFi; [apply SFi_sym, S1 | exact Ep].
  - left. eapply Forall_impl; [|exact F]. cbn. intros m [[E|[]] _]. rewrite <- E. lia.
  - exact N.
Qed.

(* ---- Connected ---- *)
Lemma connected_async i st e p e1 st1 outs :
  SInvA st e -> env_event Async e (EConnected p) = Some e1 -> on_connected p st = Ok (st1, outs) ->
  step_ok i (emit_all i e1 e1 (sends outs)) st1.
Proof.
  intros [ND PO] EV. cbn [env_event] in EV. destruct (lk (eget p e)) eqn:LK; try discriminate. inversion EV; subst e1. clear EV.
  assert (O : forall q, q <> p -> eget q (eset p (mkPE LUp true w0 []) e) = eget q e) by (intros q N; apply eget_eset_neq, N).
  unfold on_connected. destruct (lookup p (peers st)) as [s|] eqn:L.
  2:{ intros H; inversion H; subst. no_sendsA. split; [exact ND|]. intros q.
      destruct (Z.eq_dec q p) as [->|N].
      - rewrite L, eget_eset_eq. split; [reflexivity | intros _; reflexivity].
      - rewrite (O q N). apply PO. }
  destruct (v_hs_connected p (ax st, set_conn CConnected s, [])) as [[[a1 s1] out1]| |] eqn:V; cbn [bind]; try discriminate.
  intros H; inversion H; subst. clear H.
  pose proof (kv_connected p _ _ _ _ _ _ V) as KC.
  apply (hv_hs_connected p) in V as (S1 & ext & ms & -> & X & F & N). cbn [app]. rewrite X.
  pose proof (PO p) as Pp. rewrite L in Pp. destruct Pp as (DC & CL & _). destruct (DC LK) as [Df _].
  assert (NI : is_init s = false).
  { destruct (is_init s) eqn:I; [|reflexivity]. specialize (CL (init_connected s I)). apply live_not_down in CL. contradiction. }
  assert (PF1 : PF s s1).
  { apply PF_trans with (set_conn CConnected s); [|apply SFi_PF, S1]. repeat split. cbn. discriminate. }
  assert (Df1 : DefaultProto s1) by (eapply PF_Default; eassumption).
  assert (A1 : AInvP s1 (mkPE LUp true w0 [])).
  { split; [cbn; discriminate|]. split; [intros _; reflexivity|]. exists w0. split; [reflexivity|].
    split; [intros _; split; [apply rel_default, Df1|] | intros Y; discriminate].
    intros [Y|Y]; [|destruct Df1 as (_&_&_&_&D5&_); contradiction].
    exfalso. destruct PF1 as (P1 & _). rewrite (P1 Y) in NI. discriminate. }
  assert (Lm : (length ms <= 1)%nat).
  { destruct ms as [|m1 [|m2 r]]; cbn; try lia. exfalso.
    inversion N as [|? ? N1 _]; subst. apply N1. left.
    rewrite Forall_forall in F. destruct (F m1 (or_introl eq_refl)) as [[E1|[]] _]. destruct (F m2 (or_intror (or_introl eq_refl))) as [[E2|[]] _]. congruence. }
  apply emit_peer_A with (s1 := s1).
  - cbn [peers]. apply nodup_insert, ND.
  - apply (all_insertA st e); [exact PO | exact O | rewrite eget_eset_eq; exact A1].
  - cbn [peers]. apply lookup_insert_eq.
  - eapply Forall_impl; [|exact F]. cbn. intros m [_ Ep]. eapply epre_SFi; [apply SFi_sym, S1 | exact Ep].
  - right. rewrite eget_eset_eq. split; [reflexivity|]. split; [reflexivity | exact Lm].
  - exact N.
Qed.

(* ---- Disconnected ---- *)
Lemma disconnected_async i st e p e1 st1 outs :
  SInvA st e -> env_event Async e (EDisconnected p) = Some e1 -> on_disconnected p st = Ok (st1, outs) ->
  step_ok i (emit_all i e1 e1 (sends outs)) st1.
Proof.
  intros [ND PO] EV. cbn [env_event] in EV. inversion EV; subst e1. clear EV.
  assert (O : forall q, q <> p -> eget q (eset p (mkPE LDown false w0 []) e) = eget q e) by (intros q N; apply eget_eset_neq, N).
  unfold on_disconnected. destruct (lookup p (peers st)) as [s|] eqn:L.
  2:{ intros H; inversion H; subst. no_sendsA. split; [exact ND|]. intros q.
      destruct (Z.eq_dec q p) as [->|N].
      - rewrite L, eget_eset_eq. split; [reflexivity | intros Y; discriminate].
      - rewrite (O q N). apply PO. }
  cbn [v_lf_purge bind]. intros H; inversion H; subst. clear H. no_sendsA.
  split; [cbn [peers]; apply nodup_insert, ND|].
  apply (all_insertA st e); [exact PO | exact O|]. rewrite eget_eset_eq.
  split; [intros _; split; [apply default_reset | reflexivity]|].
  split; [intros [Y|Y]; cbn in Y; discriminate|].
  exists w0. split; [reflexivity|]. split; [intros Y; discriminate | intros _; left; reflexivity].
Qed.

(* ---- Error ---- *)
Lemma errored_async i st e p e1 st1 outs :
  SInvA st e -> env_event Async e (EError p) = Some e1 -> on_errored p st = Ok (st1, outs) ->
  step_ok i (emit_all i e1 e1 (sends outs)) st1.
Proof.
  intros [ND PO] EV. cbn [env_event] in EV. inversion EV; subst e1. clear EV.
  set (x := eget p e).
  set (x1 := mkPE (match lk x with LUp => LErr | l => l end) (synced x) (wire x) (pend x)).
  assert (O : forall q, q <> p -> eget q (eset p x1 e) = eget q e) by (intros q N; apply eget_eset_neq, N).
  assert (LV : live x1 = live x) by (unfold live, x1; cbn; destruct (lk x); reflexivity).
  assert (LD : lk x1 = LDown -> lk x = LDown) by (unfold x1; cbn; destruct (lk x); auto; discriminate).
  unfold on_errored. destruct (lookup p (peers st)) as [s|] eqn:L.
  2:{ intros H; inversion H; subst. no_sendsA. split; [exact ND|]. intros q.
      destruct (Z.eq_dec q p) as [->|N].
      - rewrite L, eget_eset_eq. pose proof (PO p) as Pp. rewrite L in Pp. destruct Pp as [P W]. split; [exact P | rewrite LV; exact W].
      - rewrite (O q N). apply PO. }
  destruct (errc s >=? U32_MAX); try discriminate.
  destruct (v_conn_err p (ax st, set_errc (errc s + 1) (set_conn CErrored s), [])) as [[[a1 s1] o1]| |] eqn:V1; cbn [bind]; try discriminate.
  cbn [v_lf_purge]. intros H; inversion H; subst. clear H.
  assert (S1 : s1 = set_errc (errc s + 1) (set_conn CErrored s) /\ sends outs = []).
  { unfold v_conn_err, emit in V1. destruct (needs_disconnect _); inversion V1; subst; split; reflexivity. }
  destruct S1 as [-> SN]. rewrite SN. no_sendsA.
  split; [cbn [peers]; apply nodup_insert, ND|].
  apply (all_insertA st e); [exact PO | exact O|]. rewrite eget_eset_eq.
  pose proof (PO p) as Pp. rewrite L in Pp.
  assert (PFs : PF s (set_errc (errc s + 1) (set_conn CErrored s))) by (repeat split; cbn; discriminate).
  assert (A1 : AInvP (set_errc (errc s + 1) (set_conn CErrored s)) x).
  { eapply ainv_PF; [exact Pp | exact PFs|]. intros [Y|Y]; cbn in Y; discriminate. }
  destruct A1 as (DC & CL & wb & F & LVc & NL).
  split; [intros D; apply DC, LD, D|]. split; [rewrite LV; exact CL|].
  exists wb. cbn [pend wire]. split; [exact F|]. rewrite LV. split; assumption.
Qed.

(* ---- IncludePeer ---- *)
Lemma include_async c i st e p e1 st1 :
  SInvA st e -> env_event Async e (EInclude p) = Some e1 -> on_discovered c p st = Ok st1 ->
  step_ok i (emit_all i e1 e1 []) st1.
Proof.
  intros [ND PO] EV. cbn [env_event] in EV. inversion EV; subst e1. clear EV.
  set (x := eget p e).
  assert (O : forall q, q <> p -> eget q (eset p (mkPE (lk x) false (wire x) (pend x)) e) = eget q e) by (intros q N; apply eget_eset_neq, N).
  unfold on_discovered. destruct (on_peer_discovered c p (pr st) pnew) as [[pr1 s1]| |] eqn:D; cbn [bind]; try discriminate.
  intros H; inversion H; subst. clear H. cbn [emit_all step_ok].
  destruct (discovered_state _ _ _ _ _ D) as [Df NI].
  split; [cbn [peers]; apply nodup_insert, ND|].
  apply (all_insertA st e); [exact PO | exact O|]. rewrite eget_eset_eq.
  assert (NC : ~ connected s1).
  { intros [Y|Y]; unfold is_init in NI; rewrite Y in NI; [|discriminate].
    (* conn = Connected is impossible for a freshly discovered state *)
    unfold on_peer_discovered in D. destruct (mem p (banned (pr st))); [inversion D; subst; discriminate|].
    destruct (usub _ _ _); cbn [bind] in D; try discriminate. destruct (_ >? 0); inversion D; subst; discriminate. }
  assert (WB : exists wb, fold_cstep wb (pend x) = Some (wire x)).
  { pose proof (PO p) as Pp. fold x in Pp. destruct (lookup p (peers st)).
    - destruct Pp as (_ & _ & wb & F & _). eauto.
    - destruct Pp as [P _]. rewrite P. exists (wire x). reflexivity. }
  destruct WB as (wb & F).
  assert (PD : lk x = LDown -> pend x = []).
  { intros Dn. pose proof (PO p) as Pp. fold x in Pp. destruct (lookup p (peers st)); [destruct Pp as (DC & _); apply DC, Dn | destruct Pp as [P _]; exact P]. }
  split; [cbn [lk pend]; intros Dn; split; [exact Df | apply PD, Dn]|].
  split; [intros C; contradiction|].
  exists wb. cbn [pend wire]. split; [exact F|]. split; [intros Y; discriminate|].
  intros _. left. destruct Df as (_&_&_&_&D5&_). exact D5.
Qed.
