(* C02: composite decoder methods, scripts: no panic, enough fuel, cursor in bounds. *)
From PV Require Import Lib.Base Flat.Model Flat.DecSafe.
Open Scope Z_scope.

Lemma post_mono {A} k s s2 (rs : outcome A * dec) :
  d_buf s2 = d_buf s -> rem s2 <= rem s -> post k s2 rs -> post k s rs.
Proof.
  intros Hb Hr (H1 & H2 & H3 & H4 & H5 & H6). splits; auto; try congruence; try lia.
Qed.

(* fn byte_array *)
Lemma blk_loop_ok fuel : forall blk acc s, dinv s -> d_used s = 0 -> 0 <= blk ->
  d_len s - d_pos s < Z.of_nat fuel -> post 0 s (blk_loop fuel blk acc s).
Proof.
  induction fuel as [|f IH]; intros blk acc s Hs Hu0 Hb Hf.
  - destruct Hs as ((?&?)&_). lia.
  - cbn [blk_loop]. destruct (blk =? 0) eqn:E0; [apply post_ret, Hs|].
    pose proof Hs as (Hp & Hu & He & Hl & Hw).
    unfold ensure_bytes; unfold bind, get, lift, slice, idx, set_pos, ret, fail.
    cbn [fst snd d_buf d_pos d_used]. unfold d_len in *.
    destruct (blk + 1 >? Z.of_nat (length (d_buf s)) - d_pos s) eqn:E1.
    { apply post_fail; [exact Hs|]. unfold E_BYTES, E_FUEL. lia. }
    repeat (match goal with
            | |- context [if ?c then _ else _] => destruct c eqn:?; try (exfalso; lia)
            end; cbn [fst snd d_buf d_pos d_used]).
    match goal with |- post 0 s (blk_loop f ?b ?a ?s2) =>
      assert (Hd : dinv s2) by (unfold dinv, d_len; cbn [d_buf d_pos d_used]; dsplits; auto; lia);
      assert (Hr : rem s2 <= rem s) by (unfold rem, d_len; cbn [d_buf d_pos d_used]; lia);
      apply (post_mono 0 s s2); [reflexivity | exact Hr | apply IH; [exact Hd | cbn [d_used]; lia | | unfold d_len; cbn [d_buf d_pos d_used]; lia]]
    end.
    apply nth_wf; [exact Hw | lia].
Qed.

Lemma good_byte_array : good 0 dec_byte_array.
Proof.
  intros s Hs. pose proof Hs as (Hp & Hu & He & Hl & Hw).
  unfold dec_byte_array, ensure_bytes; unfold bind, get, lift, idx, set_pos, ret, fail.
  cbn [fst snd d_buf d_pos d_used]. unfold d_len in *.
  destruct (negb (d_used s =? 0)) eqn:E0. { apply post_fail; [exact Hs | discriminate]. }
  destruct (1 >? Z.of_nat (length (d_buf s)) - d_pos s) eqn:E1.
  { apply post_fail; [exact Hs | discriminate]. }
  repeat (match goal with
          | |- context [if ?c then _ else _] => destruct c eqn:?; try (exfalso; lia)
          end; cbn [fst snd d_buf d_pos d_used]).
  match goal with |- post 0 s (blk_loop ?fu ?b ?a ?s2) =>
    assert (Hd : dinv s2) by (unfold dinv, d_len; cbn [d_buf d_pos d_used]; dsplits; auto; lia);
    assert (Hr : rem s2 <= rem s) by (unfold rem, d_len; cbn [d_buf d_pos d_used]; lia);
    apply (post_mono 0 s s2); [reflexivity | exact Hr | apply blk_loop_ok; [exact Hd | cbn [d_used]; lia | | unfold d_len, dec_fuel; cbn [d_buf d_pos d_used]; lia]]
  end.
  apply nth_wf; [exact Hw | lia].
Qed.

Lemma good_bytes : good 0 dec_bytes.
Proof. unfold dec_bytes. apply good_bind0; [apply good_filler | intros _; apply good_byte_array]. Qed.

Lemma good_utf8 : good 0 dec_utf8.
Proof.
  unfold dec_utf8. apply good_bind0; [apply good_bytes|]. intros bs.
  destruct (utf8_valid bs); [apply good_ret | apply good_fail; discriminate].
Qed.

(* pub fn word *)
Lemma word_loop_ok fuel : forall final shl s, dinv s -> 0 <= shl -> rem s < Z.of_nat fuel ->
  post 0 s (word_loop fuel final shl s).
Proof.
  induction fuel as [|f IH]; intros final shl s Hs Hshl Hf.
  - destruct Hs as (Hp & Hu & He & _). unfold rem in Hf. lia.
  - cbn [word_loop]. apply post_weaken with (k := 8 + 0); [|lia].
    apply post_bind; [apply good_u8, Hs|].
    intros w8 s' _ Hs' Hb Hr.
    destruct (shl >=? 64) eqn:E64. { apply post_fail; [exact Hs' | discriminate]. }
    unfold bind, lift, shl64, shr64.
    replace ((0 <=? shl) && (shl <? 64)) with true by lia.
    cbn [fst snd].
    destruct (negb _) eqn:En. { apply post_fail; [exact Hs' | discriminate]. }
    destruct (Z.land w8 128 >? 0) eqn:Ec.
    + apply IH; auto; lia.
    + apply post_ret, Hs'.
Qed.

Lemma good_word : good 0 dec_word.
Proof.
  intros s Hs. unfold dec_word. change 0 with (0 + 0).
  apply post_bind; [apply good_get, Hs|]. intros a s' E _ _ _. inversion E; subst.
  apply word_loop_ok; auto; [lia | apply fuel_ok', Hs].
Qed.

Lemma good_integer : good 0 dec_integer.
Proof. unfold dec_integer. apply good_bind0; [apply good_word | intros; apply good_ret]. Qed.

Lemma good_char : good 0 dec_char.
Proof.
  unfold dec_char. apply good_bind0; [apply good_word|]. intros w.
  destruct (scalar_value _); [apply good_ret | apply good_fail; discriminate].
Qed.

(* pub fn string *)
Lemma string_loop_ok fuel : forall acc s, dinv s -> rem s < Z.of_nat fuel ->
  post 0 s (string_loop fuel acc s).
Proof.
  induction fuel as [|f IH]; intros acc s Hs Hf.
  - destruct Hs as (Hp & Hu & He & _). unfold rem in Hf. lia.
  - cbn [string_loop]. apply post_weaken with (k := 1 + 0); [|lia].
    apply post_bind; [apply good_bit, Hs|].
    intros b s' _ Hs' Hb Hr. destruct b; [|apply post_ret, Hs'].
    change 0 with (0 + 0). apply post_bind; [apply good_char, Hs'|].
    intros c s'' _ Hs'' Hb' Hr'. apply IH; auto. lia.
Qed.

Lemma good_string : good 0 dec_string.
Proof.
  intros s Hs. unfold dec_string. change 0 with (0 + 0).
  apply post_bind; [apply good_get, Hs|]. intros a s' E _ _ _. inversion E; subst.
  apply string_loop_ok; auto. apply fuel_ok', Hs.
Qed.

(* pub fn decode_list_with *)
Lemma list_loop_ok (elem : M dval) : good 0 elem ->
  forall fuel acc s, dinv s -> rem s < Z.of_nat fuel -> post 0 s (list_loop elem fuel acc s).
Proof.
  intros He. induction fuel as [|f IH]; intros acc s Hs Hf.
  - destruct Hs as (Hp & Hu & He' & _). unfold rem in Hf. lia.
  - cbn [list_loop]. apply post_weaken with (k := 1 + 0); [|lia].
    apply post_bind; [apply good_bit, Hs|].
    intros b s' _ Hs' Hb Hr. destruct b; [|apply post_ret, Hs'].
    change 0 with (0 + 0). apply post_bind; [apply He, Hs'|].
    intros c s'' _ Hs'' Hb' Hr'. apply IH; auto. lia.
Qed.

Lemma good_op o : op_wf o -> good 0 (run_op o).
Proof.
  induction o as [| | | | | | | | |n|e IH]; intros Hwf; cbn [run_op].
  - apply good_bind0; [apply (good_weaken 1); [apply good_bit | lia] | intros; apply good_ret].
  - apply good_bind0; [apply (good_weaken 8); [apply good_u8 | lia] | intros; apply good_ret].
  - apply good_bind0; [apply good_word | intros; apply good_ret].
  - apply good_bind0; [apply good_integer | intros; apply good_ret].
  - apply good_bind0; [apply good_char | intros; apply good_ret].
  - apply good_bind0; [apply good_bytes | intros; apply good_ret].
  - apply good_bind0; [apply good_utf8 | intros; apply good_ret].
  - apply good_bind0; [apply good_filler | intros; apply good_ret].
  - apply good_bind0; [apply good_string | intros; apply good_ret].
  - cbn in Hwf. apply good_bind0; [|intros; apply good_ret].
    eapply good_weaken; [apply good_bits8; lia|]. destruct (n <=? 8); lia.
  - cbn in Hwf. intros s Hs. change 0 with (0 + 0).
    apply post_bind; [apply good_get, Hs|]. intros a s' E _ _ _. inversion E; subst.
    change 0 with (0 + 0). apply post_bind.
    + apply list_loop_ok; auto. apply fuel_ok', Hs.
    + intros l s'' _ Hs'' _ _. apply post_ret, Hs''.
Qed.

Lemma dinv_mk_dec bs : bytes_wf bs -> Z.of_nat (length bs) < 2 ^ 60 -> dinv (mk_dec bs).
Proof.
  intros Hw Hl. unfold dinv, mk_dec, d_len. cbn [d_buf d_pos d_used]. splits; auto; lia.
Qed.

Lemma run_script_ok ops : Forall op_wf ops -> forall s, dinv s ->
  (forall r, In r (fst (run_script ops s)) -> (forall p, r <> Panic p) /\ r <> Err E_FUEL)
  /\ dinv (snd (run_script ops s)) /\ d_buf (snd (run_script ops s)) = d_buf s.
Proof.
  induction 1 as [|o ops Ho Hops IH]; intros s Hs.
  - cbn. splits; auto; try tauto.
  - cbn [run_script].
    destruct (good_op o Ho s Hs) as (H1 & H2 & H3 & H4 & H5 & H6).
    destruct (run_op o s) as [r s'] eqn:E. cbn [fst snd] in *.
    destruct (IH s' H3) as (G1 & G2 & G3).
    destruct (run_script ops s') as [rs s''] eqn:E2. cbn [fst snd] in *.
    destruct r as [a|e|p]; [| |exfalso; apply (H1 p); reflexivity];
      cbn [fst snd]; (split; [|split; [assumption|congruence]]);
      intros r [<-|Hin]; auto; split; auto; discriminate.
Qed.
