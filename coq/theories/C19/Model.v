(* C19 model: pallas-addresses/src/byron.rs (ByronAddress) and parse_type_8 of
   lib.rs.  CBOR heads / minicbor Decoder calls come from the shared core
   (PV.Cbor); the derive-generated Decode of
       struct ByronAddress { #[n(0)] payload: TagWrap<ByteVec,24>, #[n(1)] crc: u32 }
   (minicbor-derive 0.16, array encoding) is transcribed below.  The address
   payload (the CBOR of AddressPayload) is an opaque byte string here. *)
From PV Require Import Lib.Base Cbor.Item Cbor.Enc Cbor.Dec Cbor.HeadLaws Cbor.Laws Cbor.Api.
From PV Require C18.Model.
Open Scope Z_scope.

Definition E_BYRON_CBOR : Z := C18.Model.E_BYRON_CBOR.   (* Error::InvalidByronCbor *)

(* ---- CRC-32/ISO-HDLC, bit by bit (reflected: poly 0xEDB88320, init and xorout 0xFFFFFFFF) ---- *)
Definition POLY : Z := 3988292384.
Definition MASK32 : Z := 4294967295.
Definition crc_step (c : Z) : Z :=
  if Z.odd c then Z.lxor (Z.shiftr c 1) POLY else Z.shiftr c 1.
Definition crc_step8 (c : Z) : Z :=
  crc_step (crc_step (crc_step (crc_step (crc_step (crc_step (crc_step (crc_step c))))))).
Definition crc_byte (c b : Z) : Z := crc_step8 (Z.lxor c b).
Definition crc_reg (init : Z) (bs : list Z) : Z := fold_left crc_byte bs init.
Definition crc32 (bs : list Z) : Z := Z.lxor (crc_reg MASK32 bs) MASK32.

(* ---- ByronAddress = (payload bytes, crc) ---- *)
Definition byron : Type := (list Z * Z)%type.

(* ByronAddress::from_decoded, after minicbor::to_vec(payload) *)
Definition from_decoded (payload : list Z) : byron := (payload, crc32 payload).

(* ByronAddress::to_vec = derive(Encode): array(2), tag(24) bytes(payload), u32 *)
Definition byron_to_vec (a : byron) : list Z :=
  e_array 2 ++ e_tag 24 ++ e_bytes (fst a) ++ e_uint (snd a).

(* ---- derive(Decode) ---- *)
Section Decode.
  (* minicbor Decoder::skip (used only for array elements beyond the two fields
     and for the closing break): a parameter of the model *)
  Variable skip : list Z -> dres (list Z).

  (* TagWrap::decode: d.tag()? (ANY tag number), then ByteVec = d.bytes() *)
  Definition dec_payload (bs : list Z) : dres (list Z * list Z) :=
    dbind (d_tag bs) (fun '(_, r) => d_bytes r).

  Definition fields : Type := (option (list Z) * option Z)%type.

  (* body of both loops: match i { 0 => payload, 1 => crc, _ => skip } *)
  Definition field_action (i : Z) (f : fields) (bs : list Z) : dres (fields * list Z) :=
    if i =? 0 then dbind (dec_payload bs) (fun '(v, r) => DOk ((Some v, snd f), r))
    else if i =? 1 then dbind (d_u32 bs) (fun '(v, r) => DOk ((fst f, Some v), r))
    else dbind (skip bs) (fun r => DOk (f, r)).

  (* for i in 0..len *)
  Fixpoint fields_def (fuel : nat) (i n : Z) (f : fields) (bs : list Z) : dres (fields * list Z) :=
    if n <=? i then DOk (f, bs) else
    match fuel with
    | O => DErr
    | S k => dbind (field_action i f bs) (fun '(f', r) => fields_def k (i + 1) n f' r)
    end.

  (* while Type::Break != d.datatype()? { ...; i += 1 }  d.skip()? *)
  Fixpoint fields_indef (fuel : nat) (i : Z) (f : fields) (bs : list Z) : dres (fields * list Z) :=
    match fuel with
    | O => DErr
    | S k =>
        dbind (d_datatype bs) (fun t =>
          if ctype_eqb t TBreak then dbind (skip bs) (fun r => DOk (f, r))
          else dbind (field_action i f bs) (fun '(f', r) => fields_indef k (i + 1) f' r))
    end.

  (* every round consumes at least one byte (or fails), so this always suffices
     for a skip that consumes input; exhausted fuel = DErr *)
  Definition loop_fuel (bs : list Z) : nat := S (S (length bs)).

  (* <ByronAddress as Decode>::decode *)
  Definition decode_byron (bs : list Z) : dres (byron * list Z) :=
    dbind (d_array bs) (fun '(l, r) =>
      dbind (match l with
             | Some n => fields_def (loop_fuel r) 0 n (None, None) r
             | None => fields_indef (loop_fuel r) 0 (None, None) r
             end) (fun '(f, r') =>
        match f with
        | (Some p, Some c) => DOk ((p, c), r')
        | _ => DErr            (* Error::missing_value *)
        end)).

  (* minicbor::decode(value): trailing bytes are not inspected *)
  Definition minicbor_decode (bs : list Z) : outcome byron :=
    match decode_byron bs with
    | DOk (a, _) => Ok a
    | _ => Err E_BYRON_CBOR
    end.

  (* ByronAddress::from_bytes, as in the tree before the `fix:` commit
     (no checksum comparison); kept for the refutation witness *)
  Definition from_bytes_unchecked (bs : list Z) : outcome byron := minicbor_decode bs.

  (* ByronAddress::from_bytes (current):
       let addr = minicbor::decode(value).map_err(InvalidByronCbor)?;
       if CRC.checksum(addr.payload) != addr.crc { return Err(InvalidByronCbor(..)) }
       Ok(addr) *)
  Definition from_bytes (bs : list Z) : outcome byron :=
    match minicbor_decode bs with
    | Ok a => if crc32 (fst a) =? snd a then Ok a else Err E_BYRON_CBOR
    | Err e => Err e
    | Panic p => Panic p
    end.

  (* lib.rs parse_type_8 (current): ByronAddress::from_bytes(&[&[header], payload].concat()) *)
  Definition parse_type_8 (header : Z) (payload : list Z) : outcome C18.Model.address :=
    match from_bytes (header :: payload) with
    | Ok a => Ok (C18.Model.Byron (fst a) (snd a))
    | Err e => Err e
    | Panic p => Panic p
    end.
  Definition parse_type_8_unchecked (header : Z) (payload : list Z) : outcome C18.Model.address :=
    match from_bytes_unchecked (header :: payload) with
    | Ok a => Ok (C18.Model.Byron (fst a) (snd a))
    | Err e => Err e
    | Panic p => Panic p
    end.

  (* Address::from_bytes with the Byron arm filled in *)
  Definition address_from_bytes (bs : list Z) : outcome C18.Model.address :=
    C18.Model.bytes_to_address parse_type_8 bs.
  Definition address_from_bytes_unchecked (bs : list Z) : outcome C18.Model.address :=
    C18.Model.bytes_to_address parse_type_8_unchecked bs.

  (* ---- base58: a parameter here; instantiated with Base58.v in Base58Byron.v ---- *)
  Variable b58_encode : list Z -> list Z.
  (* FromBase58::from_base58: bytes, FromBase58Error, or a panic (see Base58.v) *)
  Variable b58_decode : list Z -> outcome (list Z).
  Definition to_base58 (a : byron) : list Z := b58_encode (byron_to_vec a).
  Definition from_base58 (s : list Z) : outcome byron :=
    match b58_decode s with
    | Ok bs => from_bytes bs
    | Err _ => Err C18.Model.E_BAD_BASE58
    | Panic p => Panic p
    end.
End Decode.

(* the skip used when the model is run: one well-formed item (PV.Cbor.decode);
   the harness only sends surplus elements on which this and minicbor agree *)
Definition skip_item (bs : list Z) : dres (list Z) :=
  match bs with
  | 255 :: r => DOk r     (* a lone break byte is consumed (skip's BREAK arm with nrounds = 1) *)
  | _ => dbind (decode bs) (fun '(_, r) => DOk r)
  end.

Definition byron_wf (a : byron) : Prop :=
  bytes_wf (fst a) /\ len (fst a) < 18446744073709551616 /\ 0 <= snd a < 4294967296.

(* flip bit j of byte i *)
Fixpoint flip_bit (bs : list Z) (i : nat) (j : Z) : list Z :=
  match bs, i with
  | [], _ => []
  | b :: r, O => Z.lxor b (2 ^ j) :: r
  | b :: r, S k => b :: flip_bit r k j
  end.
