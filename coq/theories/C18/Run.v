(* C18 correspondence: each case carries the implementation's observations;
   case_ok recomputes them with the model. *)
From PV Require Import Lib.Base C18.Model C18.Bech32 C18.Bech32Addr.
Open Scope Z_scope.

Inductive case :=
(* varuint::write n = written; varuint::read (written ++ suffix) = (value, bytes consumed) *)
| CWrite (n : Z) (suffix written : list Z) (rd : outcome (Z * Z))
(* varuint::read on arbitrary bytes *)
| CRead (bs : list Z) (rd : outcome (Z * Z))
(* Pointer::parse on arbitrary bytes *)
| CPtr (bs : list Z) (res : outcome (Z * Z * Z))
(* address built from parts: to_vec, to_header, typeid, hrp, to_hex, from_bytes (to_vec) *)
| CAddr (a : address) (vec : list Z) (header tid : Z) (h : outcome (list Z)) (hexs : list Z)
        (back : outcome address)
(* Address::from_bytes on arbitrary bytes *)
| CBytes (bs : list Z) (res : outcome address)
(* Address::from_hex on an arbitrary string *)
| CHex (s : list Z) (res : outcome address)
(* a.to_bech32(): the string, or the error class *)
| CBech (a : address) (s : outcome (list Z))
(* ShelleyPaymentPart / ShelleyDelegationPart::to_bech32: encode_bech32(data, hrp) *)
| CPartBech (hrp data s : list Z)
(* Address::from_bech32 on an arbitrary string *)
| CFromBech (s : list Z) (res : outcome address)
(* Address::from_str on a string for which ByronAddress::from_base58 fails *)
| CFromStr (s : list Z) (res : outcome address).

(* Byron arm: C19's business; the harness only sends type-8 inputs that fail *)
Definition p8_stub (_ : Z) (_ : list Z) : outcome address := Err E_BYRON_CBOR.

(* base58 arm of from_str: the harness only sends strings on which it fails *)
Definition b58_stub (_ : list Z) : outcome address := Err E_BAD_BASE58.

Definition read_obs (bs : list Z) : outcome (Z * Z) :=
  match varuint_read bs with
  | Ok (v, rest) => Ok (v, len bs - len rest)
  | Err e => Err e
  | Panic p => Panic p
  end.
Definition zz_eqb (x y : Z * Z) : bool := (fst x =? fst y) && (snd x =? snd y).
Definition zzz_eqb (x y : Z * Z * Z) : bool :=
  let '(a, b, c) := x in let '(a', b', c') := y in (a =? a') && (b =? b') && (c =? c').

Inductive out :=
| OWrite (w : list Z) (r : outcome (Z * Z))
| ORead (r : outcome (Z * Z))
| OPtr (r : outcome (Z * Z * Z))
| OAddr (vec : list Z) (header tid : Z) (h : outcome (list Z)) (hexs : list Z) (back : outcome address)
| OBytes (r : outcome address)
| OStr (s : outcome (list Z)).

Definition case_out (c : case) : out :=
  match c with
  | CWrite n suffix _ _ => OWrite (varuint_write n) (read_obs (varuint_write n ++ suffix))
  | CRead bs _ => ORead (read_obs bs)
  | CPtr bs _ => OPtr (pointer_parse bs)
  | CAddr a _ _ _ _ _ _ =>
      OAddr (to_vec a) (to_header a) (typeid a) (hrp a) (to_hex a) (from_bytes p8_stub (to_vec a))
  | CBytes bs _ => OBytes (from_bytes p8_stub bs)
  | CHex s _ => OBytes (from_hex p8_stub s)
  | CBech a _ => OStr (to_bech32 enc_total a)
  | CPartBech h d _ => OStr (Ok (enc_total h d))
  | CFromBech s _ => OBytes (from_bech32 bech32_decode p8_stub s)
  | CFromStr s _ => OBytes (from_str bech32_decode b58_stub p8_stub s)
  end.

Definition case_ok (c : case) : bool :=
  match c with
  | CWrite n suffix written rd =>
      bytes_eqb (varuint_write n) written && outcome_eqb zz_eqb (read_obs (written ++ suffix)) rd
  | CRead bs rd => outcome_eqb zz_eqb (read_obs bs) rd
  | CPtr bs res => outcome_eqb zzz_eqb (pointer_parse bs) res
  | CAddr a vec header tid h hexs back =>
      bytes_eqb (to_vec a) vec && (to_header a =? header) && (typeid a =? tid) &&
      outcome_eqb bytes_eqb (hrp a) h && bytes_eqb (to_hex a) hexs &&
      outcome_eqb address_eqb (from_bytes p8_stub vec) back
  | CBytes bs res => outcome_eqb address_eqb (from_bytes p8_stub bs) res
  | CHex s res => outcome_eqb address_eqb (from_hex p8_stub s) res
  | CBech a s => outcome_eqb bytes_eqb (to_bech32 enc_total a) s
  | CPartBech h d s => bytes_eqb (enc_total h d) s
  | CFromBech s res => outcome_eqb address_eqb (from_bech32 bech32_decode p8_stub s) res
  | CFromStr s res => outcome_eqb address_eqb (from_str bech32_decode b58_stub p8_stub s) res
  end.
