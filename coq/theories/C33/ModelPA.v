(* C33/C38 model, part 2: the Alonzo, Babbage and Conway validators of
   pallas-validate/src/phase1/{alonzo,babbage,conway}.rs, check by check in the order of
   validate_alonzo_tx / validate_babbage_tx / validate_conway_tx, and the dispatch of
   phase1::validate_tx.  Error classes: Alonzo 300+, PostAlonzo 400+ (index of the enum variant). *)
From PV Require Import Lib.Base C33.Model.
Open Scope Z_scope.

(* ---------------------------------------------------------------- helpers *)
Definition mem_z (x : Z) (l : list Z) : bool := existsb (fun y => y =? x) l.
Definition non_empty {A} (o : option (list A)) : bool := match o with Some (_ :: _) => true | _ => false end.
Definition opt_vec_is_empty {A} (o : option (list A)) : bool := match o with Some (_ :: _) => false | _ => true end.
Definition is_some {A} (o : option A) : bool := match o with Some _ => true | None => false end.
Definition len {A} (l : list A) : Z := Z.of_nat (length l).

(* Vec::sort on TransactionInput (transaction_id, index) and on policy ids: insertion sort *)
Definition inref_leb (a b : inref) : bool := (fst a <? fst b) || ((fst a =? fst b) && (snd a <=? snd b)).
Fixpoint insert_by {A} (leb : A -> A -> bool) (x : A) (l : list A) : list A :=
  match l with [] => [x] | y :: r => if leb x y then x :: l else y :: insert_by leb x r end.
Definition sort_by {A} (leb : A -> A -> bool) (l : list A) : list A := fold_right (insert_by leb) [] l.
Definition sort_inputs (l : list inref) : list inref := sort_by inref_leb l.
Definition sort_policies (m : assets) : list Z := sort_by Z.leb (map fst m).

(* validity interval: (code when the block precedes the interval, code when it exceeds it) *)
Definition check_validity (t : tx) (e : env) (e_prec e_exc : Z) : outcome unit :=
  (match t_vstart t with Some lb => fail_if (e_slot e <? lb) e_prec | None => ok end) ;;;
  (match t_ttl t with Some ub => fail_if (ub <? e_slot e) e_exc | None => ok end).

Definition check_min_fee (dev : bool) (t : tx) (pp : params) (code : Z) : outcome unit :=
  m <- min_fee_u32 dev pp (t_size t) ;; fail_if (t_fee t <? m) code.

(* check_collaterals_number *)
Definition coll_number (c : list inref) (pp : params) (e_missing e_many : Z) : outcome unit :=
  if is_nil c then Err e_missing else fail_if (p_max_collateral_inputs pp <? as_u32 (len c)) e_many.
(* check_collaterals_address: [same_era o] = the entry is of the validator's own output type *)
Fixpoint coll_address (c : list inref) (u : utxo) (same_era : uout -> bool) (e_notin e_dec e_script : Z) : outcome unit :=
  match c with
  | [] => ok
  | i :: r =>
      o <- ok_or (lookup false i u) e_notin ;;
      (if same_era o then
         p <- ok_or (pay_of (u_addr o)) e_dec ;;
         match p with PScript _ => Err e_script | PKey _ => ok end
       else ok) ;;;
      coll_address r u same_era e_notin e_dec e_script
  end.
(* `a as u128 * b as u128` compared: the collateral percentage test *)
Definition pct_below (paid fee pct : Z) : outcome bool :=
  l <- mul128 paid 100 ;; r <- mul128 fee pct ;; Ok (l <? r).

(* sums of execution units with checked_add *)
Fixpoint ex_sums (l : list redeemer) (mem steps : Z) (e : Z) : outcome (Z * Z) :=
  match l with
  | [] => Ok (mem, steps)
  | r :: rest =>
      m <- ok_or (cadd64 mem (r_mem r)) e ;;
      s <- ok_or (cadd64 steps (r_steps r)) e ;;
      ex_sums rest m s e
  end.
Definition check_ex_units (t : tx) (pp : params) (plutus : bool) (e_exc e_missing : Z) : outcome unit :=
  if plutus || is_some (w_redeemers t) then
    match w_redeemers t with
    | Some l => ms <- ex_sums l 0 0 e_exc ;;
                fail_if ((p_ex_mem pp <? fst ms) || (p_ex_steps pp <? snd ms)) e_exc
    | None => Err e_missing
    end
  else ok.

(* marking loops of check_script_inputs / check_minting_policies: every needed hash marks all
   witness scripts with that hash; result = (updated marks, needed hashes that found no script) *)
Definition mark (needed : list Z) (ws : list (bool * Z)) : list (bool * Z) :=
  map (fun w => (fst w || mem_z (snd w) needed, snd w)) ws.
Definition unmarked (ws : list (bool * Z)) : bool := existsb (fun w => negb (fst w)) ws.
Definition fresh (l : list Z) : list (bool * Z) := map (fun h => (false, h)) l.

(* script hash of a spent entry (payment part Script), for entries of the validator's own type *)
Definition script_hash_of (same_era : uout -> bool) (u : utxo) (i : inref) : option Z :=
  match lookup false i u with
  | Some o => if same_era o then match pay_of (u_addr o) with Some (PScript h) => Some h | _ => None end else None
  | None => None
  end.
Fixpoint filter_map {A B} (f : A -> option B) (l : list A) : list B :=
  match l with [] => [] | x :: r => match f x with Some y => y :: filter_map f r | None => filter_map f r end end.
Fixpoint index_from {A} (i : Z) (l : list A) : list (Z * A) :=
  match l with [] => [] | x :: r => (i, x) :: index_from (i + 1) r end.

(* redeemer pointers as (tag, index) *)
Definition ptr := (Z * Z)%type.
Definition ptr_eqb (a b : ptr) : bool := (fst a =? fst b) && (snd a =? snd b).
Definition mem_ptr (x : ptr) (l : list ptr) : bool := existsb (ptr_eqb x) l.
Definition ptrs_coincide (reds needed : list ptr) (e_unneeded e_missing : Z) : outcome unit :=
  fail_if (negb (forallb (fun r => mem_ptr r needed) reds)) e_unneeded ;;;
  fail_if (negb (forallb (fun n => mem_ptr n reds) needed)) e_missing.
Definition red_ptrs (t : tx) : list ptr := map (fun r => (r_tag r, as_u32 (r_index r))) (opt_list (w_redeemers t)).

(* check_required_signers / find_and_check_req_signer *)
Fixpoint find_req_signer (h : Z) (ws : list vkw) (e_sig e_missing : Z) : outcome unit :=
  match ws with
  | [] => Err e_missing
  | k :: r => if k_hash k =? h then (if verify k then ok else Err e_sig) else find_req_signer h r e_sig e_missing
  end.
Fixpoint each_req_signer (req : list Z) (ws : list vkw) (e_sig e_missing : Z) : outcome unit :=
  match req with [] => ok | h :: r => find_req_signer h ws e_sig e_missing ;;; each_req_signer r ws e_sig e_missing end.
Definition check_required_signers (t : tx) (vk : option (list vkw)) (e_sig e_missing : Z) : outcome unit :=
  match t_req_signers t with
  | Some req => match vk with Some ws => each_req_signer req ws e_sig e_missing | None => Err e_missing end
  | None => ok
  end.
(* check_vkey_input_wits; [sel o] = 0: the entry is skipped, 1: its address is checked, 2: InputDecoding *)
Fixpoint vk_inputs (ins : list inref) (u : utxo) (sel : uout -> Z) (ws : list (bool * vkw))
         (e_notin e_dec e_sig e_missing : Z) : outcome (list (bool * vkw)) :=
  match ins with
  | [] => Ok ws
  | i :: r =>
      o <- ok_or (lookup false i u) e_notin ;;
      if sel o =? 1 then
        p <- ok_or (pay_of (u_addr o)) e_dec ;;
        match p with
        | PKey h => ws' <- check_vk_wit h ws e_sig e_missing ;; vk_inputs r u sel ws' e_notin e_dec e_sig e_missing
        | PScript _ => vk_inputs r u sel ws e_notin e_dec e_sig e_missing
        end
      else if sel o =? 2 then Err e_dec
      else vk_inputs r u sel ws e_notin e_dec e_sig e_missing
  end.
Definition check_vkey_input_wits (t : tx) (u : utxo) (sel : uout -> Z) (vk : option (list vkw))
           (e_notin e_dec e_sig e_missing : Z) : outcome unit :=
  ws0 <- ok_or vk e_missing ;;
  ws <- vk_inputs (t_inputs t ++ opt_list (t_collateral t)) u sel (map (fun k => (false, k)) ws0) e_notin e_dec e_sig e_missing ;;
  check_remaining ws e_sig.
Definition sel_own (same_era : uout -> bool) (o : uout) : Z := if same_era o then 1 else 0.
(* Conway looks at the address of every Shelley-or-later entry; a Byron entry is InputDecoding *)
Definition sel_conway (o : uout) : Z := match u_era o with EByron => 2 | _ => 1 end.

(* output network ids *)
Fixpoint outs_network (l : list tout) (netid e_dec e_net : Z) : outcome unit :=
  match l with
  | [] => ok
  | o :: r => match o_addr o with
              | AShelley net _ => if negb (net =? netid) then Err e_net else outs_network r netid e_dec e_net
              | _ => Err e_dec
              end
  end.
Definition check_network (t : tx) (e : env) (e_dec e_out e_tx : Z) : outcome unit :=
  outs_network (t_outputs t) (e_netid e) e_dec e_out ;;;
  match t_network_id t with Some n => fail_if (negb (n =? e_netid e)) e_tx | None => ok end.
Definition check_val_size (t : tx) (pp : params) (code : Z) : outcome unit :=
  fail_if (existsb (fun o => p_max_value_size pp <? o_words o) (t_outputs t)) code.
Definition datum_hash_of (d : datum) : option Z := match d with DHash h => Some h | _ => None end.

(* first datum of the witness set with that hash is marked *)
Fixpoint mark_datum (h : Z) (ds : list (bool * Z)) : option (list (bool * Z)) :=
  match ds with
  | [] => None
  | (f, d) :: r => if d =? h then Some ((true, d) :: r)
                   else match mark_datum h r with Some r' => Some ((f, d) :: r') | None => None end
  end.

(* ================================================================ Alonzo *)
Definition is_alonzo_c (o : uout) : bool := match u_era o with EAlonzoC => true | _ => false end.
Definition al_plutus (t : tx) : bool := non_empty (w_v1 t).

Definition al_check_ins_not_empty (t : tx) : outcome unit := fail_if (is_nil (t_inputs t)) 301.
Definition al_check_ins_coll_in_utxos (t : tx) (u : utxo) : outcome unit :=
  fail_if (negb (forallb (fun i => in_utxo i u) (t_inputs t))) 302 ;;;
  fail_if (negb (forallb (fun i => in_utxo i u) (opt_list (t_collateral t)))) 303.
Fixpoint al_coll_assets (c : list inref) (u : utxo) (fee pct : Z) : outcome unit :=
  match c with
  | [] => ok
  | i :: r =>
      o <- ok_or (lookup false i u) 303 ;;
      (if is_alonzo_c o then
         b <- pct_below (coin_of (u_val o)) fee pct ;;
         if b then Err 312 else
         match u_val o with VMulti _ (_ :: _) => Err 313 | _ => ok end
       else ok) ;;;
      al_coll_assets r u fee pct
  end.
Definition al_check_collaterals (t : tx) (u : utxo) (pp : params) : outcome unit :=
  c <- ok_or (t_collateral t) 308 ;;
  coll_number c pp 308 309 ;;;
  coll_address c u is_alonzo_c 303 329 310 ;;;
  al_coll_assets c u (t_fee t) (p_collateral_percentage pp).
Definition al_check_fee (dev : bool) (t : tx) (u : utxo) (pp : params) : outcome unit :=
  check_min_fee dev t pp 307 ;;;
  if al_plutus t then al_check_collaterals t u pp else ok.
Fixpoint al_consumed (ins : list inref) (u : utxo) (acc : value) : outcome value :=
  match ins with
  | [] => Ok acc
  | i :: r =>
      o <- ok_or (lookup false i u) 302 ;;
      match u_era o with
      | EAlonzoC => a <- add_values acc (u_val o) 314 ;; al_consumed r u a
      | EByron => a <- add_values acc (VCoin (coin_of (u_val o))) 314 ;; al_consumed r u a
      | _ => Err 302
      end
  end.
Fixpoint produced (add : value -> value -> Z -> outcome value) (outs : list tout) (acc : value) (e : Z) : outcome value :=
  match outs with [] => Ok acc | o :: r => a <- add acc (o_val o) e ;; produced add r a e end.
Definition al_check_preservation (t : tx) (u : utxo) : outcome unit :=
  i <- al_consumed (t_inputs t) u (VMulti 0 []) ;;
  p <- produced add_values (t_outputs t) (VMulti 0 []) 314 ;;
  o <- add_values p (VCoin (t_fee t)) 314 ;;
  i2 <- (match t_mint t with Some m => add_minted_value i m 314 | None => Ok i end) ;;
  fail_if (negb (values_equal skip0 i2 o)) 315.
Definition al_min_lovelace (o : tout) (pp : params) : option Z :=
  match cadd64 (o_words o) (match o_datum o with DHash _ => 37 | _ => 27 end) with
  | Some sz => cmul64 (p_ada_per_utxo_byte pp) sz
  | None => None
  end.
Definition check_min_lovelace_with (f : tout -> params -> option Z) (t : tx) (pp : params) (code : Z) : outcome unit :=
  fail_if (existsb (fun o => match f o pp with Some m => coin_of (o_val o) <? m | None => true end) (t_outputs t)) code.
Definition al_input_script_hashes (t : tx) (u : utxo) : list Z := filter_map (script_hash_of is_alonzo_c u) (t_inputs t).
Definition al_check_needed_scripts (t : tx) (u : utxo) : outcome unit :=
  let nat0 := fresh (map n_hash (opt_list (w_native t))) in
  let v10 := fresh (opt_list (w_v1 t)) in
  let ins := al_input_script_hashes t u in
  fail_if (negb (forallb (fun h => mem_z h (map snd nat0) || mem_z h (map snd v10)) ins)) 327 ;;;
  let nat1 := mark ins nat0 in let v11 := mark ins v10 in
  let pols := match t_mint t with Some m => map fst m | None => [] end in
  fail_if (negb (forallb (fun h => mem_z h (map snd nat0) || mem_z h (map snd v10)) pols)) 328 ;;;
  let nat2 := mark pols nat1 in let v12 := mark pols v11 in
  fail_if (unmarked nat2) 330 ;;;
  fail_if (unmarked v12) 331.
Fixpoint al_input_datums (ins : list inref) (u : utxo) (ds : list (bool * Z)) : outcome (list (bool * Z)) :=
  match ins with
  | [] => Ok ds
  | i :: r =>
      match lookup false i u with
      | Some o =>
          if is_alonzo_c o then
            match datum_hash_of (u_datum o) with
            | Some h => ds' <- ok_or (mark_datum h ds) 333 ;; al_input_datums r u ds'
            | None => al_input_datums r u ds
            end
          else Err 302
      | None => Err 302
      end
  end.
Definition al_check_datums (t : tx) (u : utxo) : outcome unit :=
  ds <- al_input_datums (t_inputs t) u (fresh (opt_list (w_datums t))) ;;
  let out_hashes := filter_map (fun o => datum_hash_of (o_datum o)) (t_outputs t) in
  fail_if (existsb (fun d => negb (fst d) && negb (mem_z (snd d) out_hashes)) ds) 334.
Definition al_needed_ptrs (t : tx) (u : utxo) : list ptr :=
  match w_v1 t with
  | Some v1 =>
      let count h := filter (fun s => s =? h) v1 in
      flat_map (fun ii => match script_hash_of is_alonzo_c u (snd ii) with
                          | Some h => map (fun _ => (0, as_u32 (fst ii))) (count h)
                          | None => [] end) (index_from 0 (sort_inputs (t_inputs t)))
      ++ match t_mint t with
         | Some m => flat_map (fun ip => map (fun _ => (1, as_u32 (fst ip))) (count (snd ip))) (index_from 0 (sort_policies m))
         | None => [] end
  | None => []
  end.
Definition al_check_witness_set (t : tx) (u : utxo) : outcome unit :=
  al_check_needed_scripts t u ;;;
  al_check_datums t u ;;;
  ptrs_coincide (red_ptrs t) (al_needed_ptrs t u) 332 320 ;;;
  check_required_signers t (w_vkeys t) 326 325 ;;;
  check_vkey_input_wits t u (sel_own is_alonzo_c) (w_vkeys t) 302 329 324 323.
Definition al_check_sdh (t : tx) : outcome unit :=
  match t_sdh t with
  | Some h => match w_datums t, w_redeemers t with
              | Some _, Some _ => fail_if (negb (mem_z h (t_sdh_expected t))) 336
              | _, _ => Err 336
              end
  | None => fail_if (negb (opt_vec_is_empty (w_datums t) && opt_vec_is_empty (w_redeemers t))) 336
  end.
Definition al_check_minting (t : tx) : outcome unit :=
  match t_mint t with
  | Some m => fail_if (negb (forallb (fun pa => mem_z (fst pa) (map n_hash (opt_list (w_native t))) || mem_z (fst pa) (opt_list (w_v1 t))) m)) 328
  | None => ok
  end.
Definition alonzo_checks (dev : bool) (t : tx) (u : utxo) (e : env) : list (outcome unit) :=
  let pp := e_pp e in
  [ al_check_ins_not_empty t; al_check_ins_coll_in_utxos t u; check_validity t e 305 304; al_check_fee dev t u pp;
    al_check_preservation t u; check_min_lovelace_with al_min_lovelace t pp 316; check_val_size t pp 317;
    check_network t e 311 318 319; fail_if (p_max_tx_size pp <? as_u32 (t_size t)) 322;
    check_ex_units t pp (al_plutus t) 321 320; al_check_witness_set t u; ok; check_aux t 335; al_check_sdh t;
    al_check_minting t ].

(* ================================================================ Babbage / Conway (shared shape) *)
(* [cw] = Conway *)
Definition own_era (cw : bool) (o : uout) : bool :=
  match u_era o with EBabbage => negb cw | EConway => cw | _ => false end.
Definition pa_plutus (cw : bool) (t : tx) : bool := non_empty (w_v1 t) || non_empty (w_v2 t) || (cw && non_empty (w_v3 t)).
Definition pa_check_all_ins (t : tx) (u : utxo) : outcome unit :=
  fail_if (negb (forallb (fun i => in_utxo i u) (t_inputs t))) 402 ;;;
  fail_if (negb (forallb (fun i => in_utxo i u) (opt_list (t_collateral t)))) 403 ;;;
  fail_if (negb (forallb (fun i => in_utxo i u) (opt_list (t_ref_inputs t)))) 404.
(* MultiEraValue::into_conway on a pre-Conway value: zero quantities and emptied policies dropped *)
Definition into_conway (v : value) : value :=
  match v with
  | VCoin c => VCoin c
  | VMulti c ma =>
      let ma' := filter (fun pa => negb (is_nil (snd pa))) (map (fun pa => (fst pa, filter (fun nq => negb (snd nq =? 0)) (snd pa))) ma) in
      if is_nil ma' then VCoin c else VMulti c ma'
  end.
(* conway.rs hand-rolled conversion of a Legacy output value: zero quantities dropped, policies kept *)
Definition legacy_to_conway (v : value) : value :=
  match v with
  | VCoin c => VCoin c
  | VMulti c ma => VMulti c (map (fun pa => (fst pa, filter (fun nq => negb (snd nq =? 0)) (snd pa))) ma)
  end.
(* val_from_multi_era_output *)
Definition utxo_value (cw : bool) (o : uout) : value :=
  if cw then (match u_era o with EConway => if u_legacy o then into_conway (u_val o) else u_val o | EByron => VCoin (coin_of (u_val o)) | _ => into_conway (u_val o) end)
  else (match u_era o with EByron => VCoin (coin_of (u_val o)) | _ => u_val o end).
Definition out_value (cw : bool) (o : tout) : value := if cw && o_legacy o then legacy_to_conway (o_val o) else o_val o.
Definition pa_add (cw : bool) := if cw then conway_add_values else add_values.
Definition pa_skip (cw : bool) := if cw then skip_lt1 else skip0.

Fixpoint pa_sum_utxo (cw : bool) (l : list inref) (u : utxo) (acc : value) (e_notin : Z) : outcome value :=
  match l with
  | [] => Ok acc
  | i :: r => o <- ok_or (lookup false i u) e_notin ;; a <- pa_add cw acc (utxo_value cw o) 415 ;; pa_sum_utxo cw r u a e_notin
  end.
(* sum over a list of UTxO references; Conway starts from the first entry's value instead of the empty value *)
Definition pa_sum_refs (cw : bool) (l : list inref) (u : utxo) (e_notin e_empty : Z) : outcome value :=
  if cw then
    match l with
    | [] => Err e_empty
    | i :: r => o <- ok_or (lookup false i u) e_notin ;; pa_sum_utxo cw r u (utxo_value cw o) e_notin
    end
  else pa_sum_utxo cw l u (VMulti 0 []) e_notin.
Definition PANIC_FIRST_UNWRAP : Z := 5.
Definition pa_coll_assets (cw : bool) (t : tx) (u : utxo) (pp : params) : outcome unit :=
  match t_collateral t with
  | Some c =>
      (if cw && is_nil c then Panic PANIC_FIRST_UNWRAP else ok) ;;;      (* collaterals.first().unwrap() *)
      ci <- pa_sum_refs cw c u 403 403 ;;
      let cr := match t_coll_return t with Some o => out_value cw o | None => VCoin 0 end in
      paid <- lovelace_diff (pa_skip cw) ci cr 413 ;;
      b <- pct_below paid (t_fee t) (p_collateral_percentage pp) ;;
      (if b then Err 412 else ok) ;;;
      match t_total_coll t with Some a => fail_if (negb (paid =? a)) 416 | None => ok end
  | None => Err 408
  end.
Definition pa_check_collaterals (cw : bool) (t : tx) (u : utxo) (pp : params) : outcome unit :=
  c <- ok_or (t_collateral t) 408 ;;
  coll_number c pp 408 409 ;;;
  coll_address c u (own_era cw) 403 410 411 ;;;
  pa_coll_assets cw t u pp.
(* check_fee: Babbage asks for collateral whenever redeemers are present (reference scripts);
   Conway only when Plutus scripts sit in the witness set *)
Definition pa_needs_collateral (cw : bool) (t : tx) : bool := pa_plutus cw t || (negb cw && is_some (w_redeemers t)).
Definition pa_check_fee (dev cw : bool) (t : tx) (u : utxo) (pp : params) : outcome unit :=
  check_min_fee dev t pp 407 ;;;
  if pa_needs_collateral cw t then pa_check_collaterals cw t u pp else ok.

(* conway_add_minted_non_zero *)
(* conway_add_same_non_zero_policy_assets: the sum is taken in i128 and must stay within u64;
   a burn of an asset that is not there is a negative value *)
Fixpoint add_same_non_zero (dev : bool) (old new : list (Z * Z)) : outcome (list (Z * Z)) :=
  match new with
  | [] => Ok old
  | (n, q) :: r =>
      match find_q n old with
      | Some o =>
          let s := o + q in
          if (s <? 0) || (U64 - 1 <? s) then Err 415 else add_same_non_zero dev (set_q n s old) r
      | None => if q <? 0 then Err 415 else add_same_non_zero dev (set_q n q old) r
      end
  end.
Fixpoint add_into_non_zero (dev : bool) (res x : assets) : outcome assets :=
  match x with
  | [] => Ok res
  | (p, a) :: r =>
      s <- add_same_non_zero dev (match find_p p res with Some o => o | None => [] end) a ;;
      add_into_non_zero dev (set_p p s res) r
  end.
Definition conway_add_minted (dev : bool) (base : value) (mint : assets) : outcome value :=
  match base with
  | VCoin n => r <- conway_coerce_to_coin mint 415 ;; Ok (VMulti n r)   (* conway_coerce_to_non_zero_coin: every quantity > 0 *)
  | VMulti n bm =>
      r1 <- add_into cadd64 [] bm 415 ;;
      r2 <- add_into_non_zero dev r1 mint ;;
      let r3 := filter (fun pa => negb (is_nil (snd pa))) (map (fun pa => (fst pa, filter (fun nq => 0 <? snd nq) (snd pa))) r2) in
      r4 <- conway_coerce_to_coin r3 415 ;; Ok (VMulti n r4)
  end.
Definition pa_check_preservation (dev cw : bool) (t : tx) (u : utxo) : outcome unit :=
  i <- pa_sum_refs cw (t_inputs t) u 402 401 ;;
  p <- (if cw then match t_outputs t with
                   | [] => Err 401
                   | o :: r => produced conway_add_values (map (fun o => Build_tout (o_legacy o) (o_addr o) (out_value true o) (o_words o) (o_datum o) (o_has_sref o)) r) (out_value true o) 415
                   end
        else produced add_values (t_outputs t) (VMulti 0 []) 415) ;;
  o <- pa_add cw p (VCoin (t_fee t)) 415 ;;
  i2 <- (match t_mint t with
         | Some m => if cw then conway_add_minted dev i m else add_minted_value i m 415
         | None => Ok i end) ;;
  fail_if (negb (values_equal (pa_skip cw) i2 o)) 417.
Definition pa_min_lovelace (o : tout) (pp : params) : option Z :=
  match cadd64 (o_words o) 160 with Some sz => cmul64 (p_ada_per_utxo_byte pp) sz | None => None end.

(* script hash carried by a reference input (PostAlonzo output of the validator's own type with a script_ref) *)
Definition ref_script (cw : bool) (u : utxo) (i : inref) : option (Z * Z) :=
  match lookup false i u with
  | Some o => if own_era cw o && negb (u_legacy o) then u_sref o else None
  | None => None
  end.
Definition ref_script_hashes (cw : bool) (t : tx) (u : utxo) : list Z :=
  map snd (filter_map (ref_script cw u) (opt_list (t_ref_inputs t))).
Definition pa_check_minting (cw : bool) (t : tx) (u : utxo) : outcome unit :=
  match t_mint t with
  | Some m =>
      let all := map n_hash (opt_list (w_native t)) ++ opt_list (w_v1 t) ++ opt_list (w_v2 t)
                 ++ (if cw then opt_list (w_v3 t) else []) ++ ref_script_hashes cw t u in
      fail_if (negb (forallb (fun pa => mem_z (fst pa) all) m)) 427
  | None => ok
  end.
Definition pa_check_needed_scripts (cw : bool) (t : tx) (u : utxo) : outcome unit :=
  let refs := ref_script_hashes cw t u in
  let keep l := fresh (filter (fun h => negb (mem_z h refs)) l) in
  let nat0 := keep (map n_hash (opt_list (w_native t))) in
  let v10 := keep (opt_list (w_v1 t)) in
  let v20 := keep (opt_list (w_v2 t)) in
  let v30 := if cw then keep (opt_list (w_v3 t)) else [] in
  let wit h := mem_z h (map snd nat0) || mem_z h (map snd v10) || mem_z h (map snd v20) || mem_z h (map snd v30) in
  let ins := filter_map (script_hash_of (own_era cw) u) (t_inputs t) in
  fail_if (negb (forallb (fun h => wit h || mem_z h refs) ins)) 431 ;;;
  let pols := match t_mint t with Some m => map fst m | None => [] end in
  fail_if (negb (forallb (fun h => wit h || mem_z h refs) pols)) 427 ;;;
  let needed := ins ++ pols in
  fail_if (unmarked (mark needed nat0)) 432 ;;;
  fail_if (unmarked (mark needed v10)) 433 ;;;
  fail_if (unmarked (mark needed v20)) 434 ;;;
  (* conway.rs reports an unneeded V3 script with the V2 variant *)
  fail_if (unmarked (mark needed v30)) 434.
Fixpoint pa_input_datums (cw : bool) (ins : list inref) (u : utxo) (ds : list (bool * Z)) : outcome (list (bool * Z)) :=
  match ins with
  | [] => Ok ds
  | i :: r =>
      o <- ok_or (lookup false i u) 402 ;;
      (* Babbage looks only at Babbage entries (anything else is InputNotInUTxO); Conway at the datum of any entry *)
      if negb cw && negb (own_era false o) then Err 402 else
      match datum_hash_of (u_datum o) with
      | Some h => ds' <- ok_or (mark_datum h ds) 429 ;; pa_input_datums cw r u ds'
      | None => pa_input_datums cw r u ds
      end
  end.
Definition pa_check_datums (cw : bool) (t : tx) (u : utxo) : outcome unit :=
  ds <- pa_input_datums cw (t_inputs t) u (fresh (opt_list (w_datums t))) ;;
  let known :=
    filter_map (fun o => datum_hash_of (o_datum o)) (t_outputs t)
    ++ (match t_coll_return t with Some o => match datum_hash_of (o_datum o) with Some h => [h] | None => [] end | None => [] end)
    ++ filter_map (fun i => match lookup false i u with
                            | Some o => if own_era cw o then datum_hash_of (u_datum o) else None
                            | None => None end) (opt_list (t_ref_inputs t)) in
  fail_if (existsb (fun d => negb (fst d) && negb (mem_z (snd d) known)) ds) 430.
(* sort_reward_accounts *)
Definition wdl_leb (a b : wdl) : bool :=
  match a, b with
  | WStake na sa ha, WStake nb sb hb =>
      if negb (na =? nb) then na <=? nb
      else match sa, sb with true, false => true | false, true => false | _, _ => ha <=? hb end
  | _, _ => true
  end.
Definition pa_needed_ptrs (cw : bool) (t : tx) (u : utxo) : outcome (list ptr) :=
  let refs := ref_script_hashes cw t u in
  let phase2 h := mem_z h (opt_list (w_v1 t)) || mem_z h (opt_list (w_v2 t)) || (cw && mem_z h (opt_list (w_v3 t))) || mem_z h refs in
  let spend := flat_map (fun ii => match script_hash_of (own_era cw) u (snd ii) with
                                   | Some h => if negb cw || phase2 h then [(0, as_u32 (fst ii))] else []
                                   | None => [] end) (index_from 0 (sort_inputs (t_inputs t))) in
  let mint := match t_mint t with
              | Some m => flat_map (fun ip => if phase2 (snd ip) then [(1, as_u32 (fst ip))] else []) (index_from 0 (sort_policies m))
              | None => [] end in
  if cw then
    match t_withdrawals t with
    | Some ws =>
        if existsb (fun w => match w with WBad => true | _ => false end) ws then Err 410 else
        Ok (spend ++ mint ++ flat_map (fun iw => match snd iw with
                                                 | WStake _ true h => if phase2 h then [(3, as_u32 (fst iw))] else []
                                                 | _ => [] end) (index_from 0 (sort_by wdl_leb ws)))
    | None => Ok (spend ++ mint)
    end
  else Ok (spend ++ mint).
Definition pa_check_witness_set (cw : bool) (t : tx) (u : utxo) : outcome unit :=
  (* Conway passes Some(witnesses or empty) *)
  let vk := if cw then Some (opt_list (w_vkeys t)) else w_vkeys t in
  pa_check_needed_scripts cw t u ;;;
  pa_check_datums cw t u ;;;
  needed <- pa_needed_ptrs cw t u ;;
  ptrs_coincide (red_ptrs t) needed 425 424 ;;;
  check_required_signers t vk 437 436 ;;;
  check_vkey_input_wits t u (if cw then sel_conway else sel_own (own_era false)) vk 402 410 439 438.

(* languages: 1, 2, 3 = Plutus V1, V2, V3 *)
Definition ref_has_kind (cw : bool) (t : tx) (u : utxo) (k : Z) : bool :=
  existsb (fun s => fst s =? k) (filter_map (ref_script cw u) (opt_list (t_ref_inputs t))).
Definition tx_languages (cw : bool) (t : tx) (u : utxo) : list Z :=
  (if non_empty (w_v1 t) || ref_has_kind cw t u 1 then [1] else [])
  ++ (if non_empty (w_v2 t) || ref_has_kind cw t u 2 then [2] else [])
  ++ (if cw && (non_empty (w_v3 t) || ref_has_kind cw t u 3) then [3] else []).
(* compute_all_outputs: spent entries and reference-input entries of the validator's own type, then the outputs *)
Definition pa_allowed_langs (cw : bool) (t : tx) (u : utxo) : list Z :=
  let own l := filter_map (fun i => match lookup false i u with Some o => if own_era cw o then Some o else None | None => None end) l in
  let us := own (t_inputs t) ++ own (opt_list (t_ref_inputs t)) in
  let byron := existsb (fun o => match u_addr o with AByron => true | _ => false end) us
               || existsb (fun o => match o_addr o with AByron => true | _ => false end) (t_outputs t) in
  let v2only := existsb (fun o => negb (u_legacy o) && (is_some (u_sref o) || match u_datum o with DInline => true | _ => false end)) us
                || existsb (fun o => negb (o_legacy o) && (o_has_sref o || match o_datum o with DInline => true | _ => false end)) (t_outputs t)
                || non_empty (t_ref_inputs t) in
  if byron then [] else if v2only then (if cw then [2; 3] else [2]) else (if cw then [1; 2; 3] else [1; 2]).
Definition bb_block_langs (e : env) : list Z :=
  let thr := if (e_magic e =? 1) && (e_netid e =? 0) then 3974409
             else if (e_magic e =? 2) && (e_netid e =? 0) then 777610 else 72748820 in
  if thr <=? e_slot e then [1; 2] else [1].
Definition pa_check_languages (cw : bool) (t : tx) (u : utxo) (e : env) : outcome unit :=
  let used := tx_languages cw t u in
  let allowed := pa_allowed_langs cw t u in
  if cw then
    let avail := (if p_cm_v1 (e_pp e) then [1] else []) ++ (if p_cm_v2 (e_pp e) then [2] else []) ++ (if p_cm_v3 (e_pp e) then [3] else []) in
    fail_if (existsb (fun l => negb (mem_z l avail) && negb (mem_z l allowed)) used) 440
  else
    let avail := filter (fun l => mem_z l allowed) (bb_block_langs e) in
    fail_if (existsb (fun l => negb (mem_z l avail)) used) 440.
Definition pa_check_sdh (cw : bool) (t : tx) (u : utxo) : outcome unit :=
  if cw then
    match t_sdh t with
    | None => fail_if (negb (is_nil (tx_languages true t u))) 441
    | Some h => fail_if (negb (mem_z h (t_sdh_expected t))) 441
    end
  else
    match t_sdh t with
    | Some h => match w_datums t, w_redeemers t with
                | Some _, Some _ => fail_if (negb (mem_z h (t_sdh_expected t))) 441
                | _, _ => Err 441
                end
    | None => fail_if (negb (opt_vec_is_empty (w_datums t) && opt_vec_is_empty (w_redeemers t))) 441
    end.
Definition pa_checks (dev cw : bool) (t : tx) (u : utxo) (e : env) : list (outcome unit) :=
  let pp := e_pp e in
  [ fail_if (is_nil (t_inputs t)) 401; pa_check_all_ins t u; check_validity t e 405 406; pa_check_fee dev cw t u pp;
    pa_check_preservation dev cw t u;
    check_min_lovelace_with pa_min_lovelace t pp 418; check_val_size t pp 419; check_network t e 420 421 422;
    fail_if (p_max_tx_size pp <? as_u32 (t_size t)) 426; check_ex_units t pp (pa_plutus cw t) 423 424;
    pa_check_minting cw t u; ok; pa_check_witness_set cw t u; pa_check_languages cw t u e; check_aux t 428;
    pa_check_sdh cw t u ].

(* ================================================================ phase1::validate_tx *)
Definition era_checks (dev : bool) (t : tx) (u : utxo) (e : env) : list (outcome unit) :=
  match t_era t with
  | 0 => byron_checks t u e
  | 1 | 2 | 3 => shelley_checks dev t u e
  | 4 => alonzo_checks dev t u e
  | 5 => pa_checks dev false t u e
  | 6 => pa_checks dev true t u e
  | _ => []
  end.
Definition validate (dev : bool) (t : tx) (u : utxo) (e : env) : outcome unit :=
  let pe := p_era (e_pp e) in let te := t_era t in
  if pe =? 0 then
    (if e_acnt e then Err E_PParamsByronDoesntNeedAccountState
     else if te =? 0 then seq_checks (byron_checks t u e) else Err E_TxAndProtParamsDiffer)
  else if pe =? 1 then
    (if e_acnt e then (if (1 <=? te) && (te <=? 3) then seq_checks (shelley_checks dev t u e) else Err E_TxAndProtParamsDiffer)
     else Err E_EnvMissingAccountState)
  else if pe =? te then seq_checks (era_checks dev t u e)
  else Err E_TxAndProtParamsDiffer.

(* ---------------------------------------------------------------- well-formedness: ranges of the Rust types *)
Definition wf_params (pp : params) : bool :=
  in_u32 (p_minfee_a pp) && in_u32 (p_minfee_b pp) && in_u32 (p_collateral_percentage pp).
Definition wf_tx (t : tx) : bool :=
  in_u64 (t_fee t) && match t_coll_return t with Some o => 0 <=? coin_of (o_val o) | None => true end.
Definition wf_utxo (u : utxo) : bool := forallb (fun ko => coin_of (u_val (snd ko)) <? U64) u.


