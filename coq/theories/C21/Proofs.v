(* C21 proofs: the buffer-and-retry loops of both stacks deliver exactly the
   sent messages for every segmentation of the byte stream. *)
From PV Require Import Lib.Base C21.Model.
Open Scope Z_scope.

(* ---------------------------------------------------------------- lists *)
Lemma skipn_length_app {A} (a b : list A) : skipn (length a) (a ++ b) = b.
Proof. induction a as [|x a IH]; cbn; auto. Qed.

Lemma firstn_length_app {A} (a b : list A) : firstn (length a) (a ++ b) = a.
Proof. induction a as [|x a IH]; cbn; auto. now rewrite IH. Qed.

Lemma concat_all_nil {A} (l : list (list A)) : concat l = [] -> Forall (fun c => c = []) l.
Proof.
  induction l as [|c l IH]; cbn; intros H; constructor.
  - now apply app_eq_nil in H.
  - apply IH. now apply app_eq_nil in H.
Qed.

(* ---------------------------------------------------------------- chunks *)
Lemma concat_chunks_fuel : forall fuel n l,
  (0 < n)%nat -> (length l <= fuel)%nat -> concat (chunks_fuel fuel n l) = l.
Proof.
  induction fuel as [|f IH]; intros n l Hn Hl.
  - destruct l; cbn in *; [reflexivity|lia].
  - destruct l as [|x l]; [reflexivity|].
    cbn [chunks_fuel concat]. rewrite IH; auto.
    + apply firstn_skipn.
    + rewrite skipn_length. cbn [length] in *. lia.
Qed.

Lemma concat_chunks n l : (0 < n)%nat -> concat (chunks n l) = l.
Proof. intros Hn. apply concat_chunks_fuel; auto. Qed.

Lemma chunks_fuel_bounds : forall fuel n l,
  (0 < n)%nat -> Forall (fun c => c <> [] /\ (length c <= n)%nat) (chunks_fuel fuel n l).
Proof.
  induction fuel as [|f IH]; intros n l Hn; [constructor|].
  destruct l as [|x l]; [constructor|].
  cbn [chunks_fuel]. constructor; [|apply IH; auto].
  split.
  - destruct n; [lia|]. cbn. discriminate.
  - rewrite firstn_length. lia.
Qed.

(* ---------------------------------------------------------------- the decoder on a stream *)
Section Codec.
  Context {M : Type}.
  Variable valid : M -> Prop.
  Variable enc : M -> list Z.
  Variable dec : list Z -> dec_result M.
  Hypothesis Hco : codec_ok valid enc dec.

  (* a buffer that is a prefix of (enc m ++ R): either too short and "end of
     input", or it holds all of m and decodes to m *)
  Lemma dec_on_stream m buf tail R :
    valid m -> buf ++ tail = enc m ++ R ->
    ((length buf < length (enc m))%nat /\ dec buf = DecEoi) \/
    (exists r', buf = enc m ++ r' /\ dec buf = DecOk m (length (enc m)) /\ r' ++ tail = R).
  Proof.
    intros Hv Heq.
    apply app_eq_app in Heq as [l [[H1 H2]|[H1 H2]]].
    - right. exists l. subst buf. split; [reflexivity|]. split; [|now symmetry].
      now apply (co_complete _ _ _ Hco).
    - destruct l as [|y l].
      + right. exists []. rewrite app_nil_r in H1. subst buf.
        split; [now rewrite app_nil_r|]. split; [|cbn in H2; now symmetry].
        rewrite <- (app_nil_r (enc m)) at 1. now apply (co_complete _ _ _ Hco).
      + left. split.
        * rewrite H1, app_length. cbn. lia.
        * apply (co_prefix _ _ _ Hco m buf (y :: l)); auto. discriminate.
  Qed.

  (* readiness of a pending buffer w.r.t. the messages still to come: nothing
     to come and nothing pending, or strictly less than the next message *)
  Definition drained (buf : list Z) (ms : list M) : Prop :=
    match ms with
    | [] => buf = []
    | m :: _ => (length buf < length (enc m))%nat
    end.

  Lemma drained_nil ms : Forall valid ms -> drained [] ms.
  Proof.
    intros Hv. destruct ms as [|m ms]; cbn; auto.
    inversion Hv; subst. pose proof (co_nonempty _ _ _ Hco m H1) as Hne.
    destruct (enc m); [congruence|cbn; lia].
  Qed.

  (* ------------------------------------------------------------ old stack *)
  Lemma recv_loop_all_nil : forall queued,
    Forall (fun c => c = []) queued -> recv_loop dec [] queued = Waiting [].
  Proof.
    induction queued as [|c cs IH]; intros Hall; [reflexivity|].
    inversion Hall; subst. cbn [recv_loop app]. unfold try_decode_message.
    rewrite (co_empty _ _ _ Hco). now apply IH.
  Qed.

  Lemma recv_loop_got : forall queued temp m R,
    valid m -> temp ++ concat queued = enc m ++ R ->
    (length temp < length (enc m))%nat ->
    exists t cs, recv_loop dec temp queued = Got m t cs /\ t ++ concat cs = R /\
                 (length cs < length queued)%nat.
  Proof.
    induction queued as [|c cs IH]; intros temp m R Hv Heq Hlt.
    - cbn in Heq. rewrite app_nil_r in Heq. subst temp. rewrite app_length in Hlt. lia.
    - cbn [concat] in Heq. rewrite app_assoc in Heq.
      cbn [recv_loop]. unfold try_decode_message.
      destruct (dec_on_stream m (temp ++ c) (concat cs) R Hv Heq) as [[Hl Hd]|[r' [Hb [Hd Hr]]]].
      + rewrite Hd. destruct (IH (temp ++ c) m R Hv Heq Hl) as [t [cs' [H1 [H2 H3]]]].
        exists t, cs'. cbn [length]. repeat split; auto; try lia.
      + rewrite Hd. exists r', cs. rewrite Hb at 1. rewrite skipn_length_app.
        cbn [length]. repeat split; auto.
  Qed.

  Lemma recv_full_msg_got temp queued m R :
    valid m -> temp ++ concat queued = enc m ++ R ->
    exists t cs, recv_full_msg dec temp queued = Got m t cs /\ t ++ concat cs = R /\
                 (length cs <= length queued)%nat.
  Proof.
    intros Hv Heq. pose proof (co_nonempty _ _ _ Hco m Hv) as Hne.
    destruct temp as [|x temp].
    - cbn [recv_full_msg].
      destruct (recv_loop_got queued [] m R Hv Heq) as [t [cs [H1 [H2 H3]]]].
      { destruct (enc m); [congruence|cbn; lia]. }
      exists t, cs. repeat split; auto; try lia.
    - cbn [recv_full_msg]. unfold try_decode_message.
      destruct (dec_on_stream m (x :: temp) (concat queued) R Hv Heq) as [[Hl Hd]|[r' [Hb [Hd Hr]]]].
      + rewrite Hd. destruct (recv_loop_got queued (x :: temp) m R Hv Heq Hl) as [t [cs [H1 [H2 H3]]]].
        exists t, cs. repeat split; auto; try lia.
      + rewrite Hd. exists r', queued. rewrite Hb at 1. rewrite skipn_length_app.
        repeat split; auto.
  Qed.

  Lemma recv_all_fuel_ok : forall ms fuel temp queued,
    Forall valid ms -> temp ++ concat queued = stream enc ms ->
    (length temp + length (concat queued) + length queued < fuel)%nat ->
    recv_all_fuel dec fuel temp queued = (ms, Ok []).
  Proof.
    induction ms as [|m ms IH]; intros fuel temp queued Hv Heq Hfuel.
    - unfold stream in Heq. cbn in Heq. apply app_eq_nil in Heq as [Ht Hq]. subst temp.
      destruct fuel as [|f]; [lia|]. cbn [recv_all_fuel recv_full_msg].
      rewrite recv_loop_all_nil; [reflexivity|]. now apply concat_all_nil.
    - inversion Hv as [|? ? Hvm Hvms]; subst.
      unfold stream in Heq. cbn [map concat] in Heq. fold (stream enc ms) in Heq.
      destruct fuel as [|f]; [lia|]. cbn [recv_all_fuel].
      destruct (recv_full_msg_got temp queued m (stream enc ms) Hvm Heq) as [t [cs [H1 [H2 H3]]]].
      rewrite H1. rewrite (IH f t cs Hvms H2); [reflexivity|].
      pose proof (co_nonempty _ _ _ Hco m Hvm) as Hne.
      assert (Hlen : (length temp + length (concat queued) =
                      length (enc m) + (length t + length (concat cs)))%nat).
      { rewrite <- !app_length, Heq, <- H2. reflexivity. }
      assert (0 < length (enc m))%nat by (destruct (enc m); [congruence|cbn; lia]).
      lia.
  Qed.

  Lemma recv_all_ok ms segs :
    Forall valid ms -> concat segs = stream enc ms -> recv_all dec segs = (ms, Ok []).
  Proof.
    intros Hv Heq. unfold recv_all. apply recv_all_fuel_ok; auto; cbn [length]; lia.
  Qed.

  (* ------------------------------------------------------------ a consumer that polls and cancels *)
  (* with only part of the stream there yet, a call either returns the next message
     or is left waiting having moved every queued chunk into temp *)
  Lemma recv_loop_prefix : forall queued temp m R fut,
    valid m -> temp ++ concat queued ++ fut = enc m ++ R ->
    (length temp < length (enc m))%nat ->
    (exists t cs, recv_loop dec temp queued = Got m t cs /\ t ++ concat cs ++ fut = R) \/
    (recv_loop dec temp queued = Waiting (temp ++ concat queued) /\
     (length (temp ++ concat queued) < length (enc m))%nat).
  Proof.
    induction queued as [|c cs IH]; intros temp m R fut Hv Heq Hlt.
    - right. cbn. rewrite app_nil_r. auto.
    - cbn [concat] in Heq. rewrite <- app_assoc in Heq. rewrite app_assoc in Heq.
      cbn [recv_loop]. unfold try_decode_message.
      destruct (dec_on_stream m (temp ++ c) (concat cs ++ fut) R Hv Heq) as [[Hl Hd]|[r' [Hb [Hd Hr]]]].
      + rewrite Hd. destruct (IH (temp ++ c) m R fut Hv Heq Hl) as [[t [cs' [H1 H2]]]|[H1 H2]].
        * left. exists t, cs'. auto.
        * right. cbn [concat]. rewrite app_assoc. auto.
      + rewrite Hd. left. exists r', cs. rewrite Hb at 1. rewrite skipn_length_app. auto.
  Qed.

  Lemma recv_full_msg_prefix temp queued m R fut :
    valid m -> temp ++ concat queued ++ fut = enc m ++ R ->
    (exists t cs, recv_full_msg dec temp queued = Got m t cs /\ t ++ concat cs ++ fut = R) \/
    (recv_full_msg dec temp queued = Waiting (temp ++ concat queued)).
  Proof.
    intros Hv Heq. pose proof (co_nonempty _ _ _ Hco m Hv) as Hne.
    destruct temp as [|x temp].
    - cbn [recv_full_msg].
      destruct (recv_loop_prefix queued [] m R fut Hv Heq) as [H|[H _]]; auto.
      destruct (enc m); [congruence|cbn; lia].
    - cbn [recv_full_msg]. unfold try_decode_message.
      destruct (dec_on_stream m (x :: temp) (concat queued ++ fut) R Hv Heq) as [[Hl Hd]|[r' [Hb [Hd Hr]]]].
      + rewrite Hd. destruct (recv_loop_prefix queued (x :: temp) m R fut Hv Heq Hl) as [H|[H _]]; auto.
      + rewrite Hd. left. exists r', queued. rewrite Hb at 1. rewrite skipn_length_app. auto.
  Qed.

  (* invariant of the polling consumer: temp ++ queued ++ still-to-arrive = encodings of the
     messages not yet returned; whatever the polls and cancellations, it ends with a
     prefix of the messages returned and exactly the rest pending *)
  Lemma drive_ok : forall evs ms temp queued,
    Forall valid ms -> temp ++ concat queued ++ concat (arrivals evs) = stream enc ms ->
    exists out1 ms2 t q, drive dec temp queued evs = (out1, Ok (t, q)) /\
                         ms = out1 ++ ms2 /\ t ++ concat q = stream enc ms2.
  Proof.
    induction evs as [|e r IH]; intros ms temp queued Hv Heq.
    - cbn in Heq. rewrite app_nil_r in Heq. exists [], ms, temp, queued. auto.
    - destruct e as [c|].
      + cbn [drive]. cbn [arrivals flat_map] in Heq. fold (arrivals r) in Heq.
        apply (IH ms temp (queued ++ [c]) Hv).
        rewrite concat_app. cbn [concat]. rewrite app_nil_r. cbn [app concat] in Heq.
        rewrite <- app_assoc. exact Heq.
      + cbn [drive]. cbn [arrivals flat_map app] in Heq. fold (arrivals r) in Heq.
        destruct ms as [|m ms].
        * (* nothing left to come: everything is empty *)
          unfold stream in Heq. cbn in Heq. apply app_eq_nil in Heq as [Ht Hq]. subst temp.
          apply app_eq_nil in Hq as [Hq Hf].
          cbn [recv_full_msg]. rewrite recv_loop_all_nil by (now apply concat_all_nil).
          apply (IH [] [] []); auto.
        * inversion Hv as [|? ? Hvm Hvms]; subst.
          unfold stream in Heq. cbn [map concat] in Heq. fold (stream enc ms) in Heq.
          destruct (recv_full_msg_prefix temp queued m (stream enc ms) (concat (arrivals r)) Hvm Heq)
            as [[t [cs [H1 H2]]]|H1].
          -- rewrite H1. destruct (IH ms t cs Hvms H2) as [out1 [ms2 [t' [q' [E1 [E2 E3]]]]]].
             rewrite E1. exists (m :: out1), ms2, t', q'. subst ms. auto.
          -- rewrite H1. apply (IH (m :: ms) (temp ++ concat queued) []); auto.
             cbn [concat app]. rewrite <- app_assoc. exact Heq.
  Qed.

  Lemma drive_then_wait_ok ms evs :
    Forall valid ms -> concat (arrivals evs) = stream enc ms -> drive_then_wait dec evs = (ms, Ok []).
  Proof.
    intros Hv Heq. unfold drive_then_wait.
    destruct (drive_ok evs ms [] [] Hv Heq) as [out1 [ms2 [t [q [E1 [E2 E3]]]]]].
    rewrite E1. subst ms. apply Forall_app in Hv as [_ Hv2].
    rewrite (recv_all_fuel_ok ms2 _ t q Hv2 E3) by lia. reflexivity.
  Qed.

  (* sender side of the old stack + receiver *)
  Lemma send_recv_ok ms :
    Forall valid ms -> recv_all dec (concat (map (send_msg_chunks enc) ms)) = (ms, Ok []).
  Proof.
    intros Hv. apply recv_all_ok; auto.
    unfold stream. induction ms as [|m ms IH]; [reflexivity|].
    cbn [map concat]. rewrite concat_app. inversion Hv; subst. rewrite IH; auto.
    unfold send_msg_chunks. rewrite concat_chunks; auto.
    unfold MAX_SEGMENT_PAYLOAD_LENGTH. lia.
  Qed.

  (* ------------------------------------------------------------ new stack, one channel's decoder *)
  Variable chan_dec : Z -> option (list Z -> dec_result M).

  Lemma drain_msgs_ok : forall ms fuel k payload tail,
    chan_dec k = Some dec ->
    Forall valid ms -> payload ++ tail = stream enc ms -> (length payload < fuel)%nat ->
    exists ms1 ms2 rest,
      ms = ms1 ++ ms2 /\ drain_msgs chan_dec fuel k payload = Ok (ms1, rest) /\
      rest ++ tail = stream enc ms2 /\ drained rest ms2.
  Proof.
    induction ms as [|m ms IH]; intros fuel k payload tail Hk Hv Heq Hfuel.
    - unfold stream in Heq. cbn in Heq. apply app_eq_nil in Heq as [Hp Ht]. subst payload.
      destruct fuel as [|f]; [lia|].
      exists [], [], []. cbn [drain_msgs]. unfold from_payload, try_decode_msg. rewrite Hk.
      rewrite (co_empty _ _ _ Hco). repeat split; auto.
    - inversion Hv as [|? ? Hvm Hvms]; subst.
      unfold stream in Heq. cbn [map concat] in Heq. fold (stream enc ms) in Heq.
      destruct fuel as [|f]; [lia|]. cbn [drain_msgs]. unfold from_payload, try_decode_msg. rewrite Hk.
      destruct (dec_on_stream m payload tail (stream enc ms) Hvm Heq) as [[Hl Hd]|[r' [Hb [Hd Hr]]]].
      + rewrite Hd. exists [], (m :: ms), payload. repeat split; auto.
      + subst payload. rewrite Hd, skipn_length_app.
        pose proof (co_nonempty _ _ _ Hco m Hvm) as Hne.
        destruct (IH f k r' tail Hk Hvms Hr) as [ms1 [ms2 [rest [E1 [E2 [E3 E4]]]]]].
        { rewrite app_length in Hfuel. destruct (enc m); [congruence|cbn in Hfuel; lia]. }
        exists (m :: ms1), ms2, rest. rewrite E2. subst ms. repeat split; auto.
  Qed.
End Codec.

(* ---------------------------------------------------------------- partial_chunks map *)
Lemma plookup_premove_same c pc : plookup c (premove c pc) = None.
Proof.
  induction pc as [|[k v] r IH]; cbn; auto.
  destruct (k =? c) eqn:E; cbn; auto. now rewrite E.
Qed.

Lemma plookup_premove_other c c' pc : c <> c' -> plookup c' (premove c pc) = plookup c' pc.
Proof.
  intros Hne. induction pc as [|[k v] r IH]; cbn; auto.
  destruct (k =? c) eqn:E; cbn.
  - destruct (k =? c') eqn:E'; auto. lia.
  - now rewrite IH.
Qed.

Definition pne (pc : pmap) : Prop := Forall (fun kv => snd kv <> []) pc.

Lemma pne_premove c pc : pne pc -> pne (premove c pc).
Proof.
  unfold pne. induction pc as [|[k v] r IH]; cbn; intros H; auto.
  inversion H; subst. destruct (k =? c); auto.
Qed.

Lemma pne_all_empty pc : pne pc -> (forall c, pget pc c = []) -> pc = [].
Proof.
  intros Hne Hall. destruct pc as [|[k v] r]; auto.
  inversion Hne; subst. specialize (Hall k). unfold pget in Hall. cbn in Hall.
  rewrite Z.eqb_refl in Hall. cbn in *. congruence.
Qed.

Lemma on_channel_app {M} c (a b : list (Z * M)) : on_channel c (a ++ b) = on_channel c a ++ on_channel c b.
Proof. unfold on_channel. now rewrite filter_app, map_app. Qed.

Lemma on_channel_tagged {M} c k (ms : list M) :
  on_channel c (map (fun m => (k, m)) ms) = if k =? c then ms else [].
Proof.
  unfold on_channel. induction ms as [|m ms IH]; cbn; [now destruct (k =? c)|].
  destruct (k =? c) eqn:E; cbn; rewrite IH; auto.
Qed.

(* ---------------------------------------------------------------- new stack, all channels *)
Section Net2.
  Context {M : Type}.
  Variable valid : Z -> M -> Prop.
  Variable enc : Z -> M -> list Z.
  Variable chan_dec : Z -> option (list Z -> dec_result M).
  Hypothesis Hco : forall c dec, chan_dec c = Some dec -> codec_ok (valid c) (enc c) dec.

  (* per-channel invariant between the map, the segments still to arrive and
     the messages still to be delivered *)
  Definition chan_inv (pc : pmap) (segs : list (Z * list Z)) (ms : Z -> list M) : Prop :=
    forall c, match chan_dec c with
              | Some _ => pget pc c ++ bytes_for c segs = stream (enc c) (ms c) /\
                          drained (enc c) (pget pc c) (ms c) /\ Forall (valid c) (ms c)
              | None => pget pc c = [] /\ ms c = []
              end.

  Lemma bytes_for_cons_same raw chunk segs :
    bytes_for (strip_mode raw) ((raw, chunk) :: segs) = chunk ++ bytes_for (strip_mode raw) segs.
  Proof. unfold bytes_for. cbn. now rewrite Z.eqb_refl. Qed.

  Lemma bytes_for_cons_other c raw chunk segs :
    strip_mode raw <> c -> bytes_for c ((raw, chunk) :: segs) = bytes_for c segs.
  Proof. intros H. unfold bytes_for. cbn. destruct (strip_mode raw =? c) eqn:E; [lia|reflexivity]. Qed.

  Lemma read_all_from_ok : forall segs pc ms,
    pne pc -> chan_inv pc segs ms ->
    exists out, read_all_from chan_dec pc segs = Ok (out, []) /\ forall c, on_channel c out = ms c.
  Proof.
    induction segs as [|[raw chunk] segs IH]; intros pc ms Hne Hinv.
    - assert (Hall : forall c, pget pc c = [] /\ ms c = []).
      { intros c. specialize (Hinv c). destruct (chan_dec c) as [d|].
        - destruct Hinv as [H1 [H2 _]]. unfold bytes_for in H1. cbn in H1. rewrite app_nil_r in H1.
          destruct (ms c) as [|m l]; cbn in H2; [auto|].
          unfold stream in H1. cbn in H1. rewrite H1, app_length in H2. lia.
        - exact Hinv. }
      exists []. cbn. rewrite (pne_all_empty pc Hne (fun c => proj1 (Hall c))).
      split; [reflexivity|]. intros c. symmetry. apply Hall.
    - set (k := strip_mode raw).
      assert (Hpay : match plookup k pc with Some x => x ++ chunk | None => chunk end = pget pc k ++ chunk).
      { unfold pget. destruct (plookup k pc); reflexivity. }
      cbn [read_all_from]. unfold read_full_msgs. fold k. rewrite Hpay.
      pose proof (Hinv k) as Hk. destruct (chan_dec k) as [d|] eqn:Ed.
      + destruct Hk as [H1 [H2 H3]]. unfold k in H1. rewrite bytes_for_cons_same in H1. fold k in H1.
        rewrite app_assoc in H1.
        destruct (drain_msgs_ok (valid k) (enc k) d (Hco k d Ed) chan_dec (ms k)
                    (S (length (pget pc k ++ chunk))) k (pget pc k ++ chunk) (bytes_for k segs)
                    Ed H3 H1 (Nat.lt_succ_diag_r _))
          as [ms1 [ms2 [rest [E1 [E2 [E3 E4]]]]]].
        rewrite E2.
        set (pc' := match rest with [] => premove k pc | _ => (k, rest) :: premove k pc end).
        set (ms' := fun c => if c =? k then ms2 else ms c).
        assert (Hget : forall c, pget pc' c = if c =? k then rest else pget pc c).
        { intros c. unfold pc', pget. destruct (c =? k) eqn:E.
          - assert (c = k) by lia. subst c. destruct rest; cbn.
            + now rewrite plookup_premove_same.
            + now rewrite Z.eqb_refl.
          - assert (k <> c) by lia. destruct rest; cbn.
            + now rewrite plookup_premove_other.
            + destruct (k =? c) eqn:E'; [lia|]. now rewrite plookup_premove_other. }
        assert (Hne' : pne pc').
        { unfold pc'. destruct rest; [now apply pne_premove|].
          constructor; [cbn; discriminate|now apply pne_premove]. }
        assert (Hinv' : chan_inv pc' segs ms').
        { intros c. rewrite Hget. unfold ms'. destruct (c =? k) eqn:E.
          - assert (c = k) by lia. subst c. rewrite Ed. repeat split; auto.
            rewrite E1 in H3. apply Forall_app in H3. tauto.
          - specialize (Hinv c). destruct (chan_dec c); auto.
            rewrite bytes_for_cons_other in Hinv; auto. fold k. lia. }
        destruct (IH pc' ms' Hne' Hinv') as [out [Hr Ho]].
        fold pc'. rewrite Hr. eexists. split; [reflexivity|].
        intros c. rewrite on_channel_app, on_channel_tagged, Ho. unfold ms'.
        rewrite (Z.eqb_sym c k). destruct (k =? c) eqn:E.
        * assert (k = c) by lia. subst c. now symmetry.
        * reflexivity.
      + destruct Hk as [H1 H2]. cbn [drain_msgs]. unfold from_payload. rewrite Ed.
        set (pc' := premove k pc).
        assert (Hget : forall c, pget pc' c = if c =? k then [] else pget pc c).
        { intros c. unfold pc', pget. destruct (c =? k) eqn:E.
          - assert (c = k) by lia. subst c. now rewrite plookup_premove_same.
          - rewrite plookup_premove_other; auto. lia. }
        assert (Hinv' : chan_inv pc' segs ms).
        { intros c. rewrite Hget. destruct (c =? k) eqn:E.
          - assert (c = k) by lia. subst c. rewrite Ed. auto.
          - specialize (Hinv c). destruct (chan_dec c); auto.
            rewrite bytes_for_cons_other in Hinv; auto. fold k. lia. }
        destruct (IH pc' ms (pne_premove k pc Hne) Hinv') as [out [Hr Ho]].
        cbn [map]. fold pc'. rewrite Hr. exists out. split; [reflexivity|exact Ho].
  Qed.

  Lemma read_all_ok segs (ms : Z -> list M) :
    (forall c, match chan_dec c with
               | Some _ => Forall (valid c) (ms c) /\ bytes_for c segs = stream (enc c) (ms c)
               | None => ms c = []
               end) ->
    exists out, read_all chan_dec segs = Ok (out, []) /\ forall c, on_channel c out = ms c.
  Proof.
    intros H. unfold read_all. apply read_all_from_ok; [constructor|].
    intros c. specialize (H c). unfold pget. cbn. destruct (chan_dec c) as [d|] eqn:Ed.
    - destruct H as [Hv Hb]. repeat split; auto.
      apply (drained_nil (valid c) (enc c) d (Hco c d Ed)); auto.
    - auto.
  Qed.
End Net2.

(* ---------------------------------------------------------------- one channel of the new stack *)
Lemma on_channel_only {M} k (ms : list M) (out : list (Z * M)) :
  (forall c, on_channel c out = if c =? k then ms else []) -> out = map (fun m => (k, m)) ms.
Proof.
  revert ms. induction out as [|[c0 m0] out IH]; intros ms H.
  - specialize (H k). rewrite Z.eqb_refl in H. cbn in H. now subst ms.
  - assert (Hc : c0 = k).
    { specialize (H c0). unfold on_channel in H. cbn in H. rewrite Z.eqb_refl in H. cbn in H.
      destruct (c0 =? k) eqn:E; [lia|discriminate]. }
    subst c0. pose proof (H k) as Hk. rewrite Z.eqb_refl in Hk.
    unfold on_channel in Hk. cbn in Hk. rewrite Z.eqb_refl in Hk. cbn in Hk.
    destruct ms as [|m ms]; [discriminate|]. inversion Hk; subst m0.
    cbn. f_equal. apply IH. intros c. specialize (H c). unfold on_channel in *. cbn in H.
    destruct (k =? c) eqn:E.
    + assert (c = k) by lia. subst c. rewrite Z.eqb_refl in *. cbn in H. now inversion H.
    + rewrite (Z.eqb_sym c k), E in *. exact H.
Qed.

Section Net2One.
  Context {M : Type}.
  Variable valid : M -> Prop.
  Variable enc : M -> list Z.
  Variable chan_dec : Z -> option (list Z -> dec_result M).
  Hypothesis Hall : forall c d, chan_dec c = Some d -> codec_ok valid enc d.

  Lemma bytes_for_one raw segs c :
    bytes_for c (map (fun s => (raw, s)) segs) = if strip_mode raw =? c then concat segs else [].
  Proof.
    unfold bytes_for. induction segs as [|s segs IH]; cbn; [now destruct (strip_mode raw =? c)|].
    destruct (strip_mode raw =? c) eqn:E; cbn; [now rewrite IH|exact IH].
  Qed.

  Lemma read_all_one_ok raw ms segs :
    chan_dec (strip_mode raw) <> None ->
    Forall valid ms -> concat segs = stream enc ms ->
    read_all chan_dec (map (fun s => (raw, s)) segs) = Ok (map (fun m => (strip_mode raw, m)) ms, []).
  Proof.
    intros Hsup Hv Heq. set (k := strip_mode raw).
    destruct (read_all_ok (fun _ => valid) (fun _ => enc) chan_dec Hall
                (map (fun s => (raw, s)) segs) (fun c => if c =? k then ms else []))
      as [out [Hr Ho]].
    - intros c. rewrite bytes_for_one. fold k. rewrite (Z.eqb_sym k c).
      destruct (chan_dec c) eqn:Ec.
      + destruct (c =? k); [split; auto|split; [constructor|reflexivity]].
      + destruct (c =? k) eqn:E; [|reflexivity]. assert (c = k) by lia. subst c. unfold k in Ec. congruence.
    - rewrite Hr. f_equal. f_equal. now apply on_channel_only.
  Qed.
End Net2One.

(* ---------------------------------------------------------------- why the codec obligations matter
   (the two decoders repaired in pallas-network violated exactly these) *)
Lemma empty_segment_spurious {M} (dec : list Z -> dec_result M) m :
  dec [] = DecOk m 0 -> recv_all dec [[]] = ([m], Ok []).
Proof.
  intros H. unfold recv_all. cbn [concat app length Nat.add recv_all_fuel recv_full_msg recv_loop].
  unfold try_decode_message. cbn [app]. rewrite H. reflexivity.
Qed.

Lemma short_read_wrong_message {M} (dec : list Z -> dec_result M) m' p s :
  p <> [] -> dec p = DecOk m' (length p) ->
  exists rest fin, recv_all dec [p; s] = (m' :: rest, fin).
Proof.
  intros Hp H. unfold recv_all.
  remember (length (concat [p; s]) + length [p; s])%nat as f.
  cbn [recv_all_fuel recv_full_msg recv_loop]. unfold try_decode_message. cbn [app]. rewrite H.
  destruct (recv_all_fuel dec f (skipn (length p) p) [s]) as [rest fin] eqn:E.
  exists rest, fin. reflexivity.
Qed.
