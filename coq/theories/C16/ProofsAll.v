(* C16 — arguments of either sign (the code after /repo commit f6d913e7, which
   multiplies the bound with |error|).  Two-sided version of the invariant of
   Proofs.v:   |rop_k - S*P_k(X)| <= D_k,   |err_k - T_(k+1)| <= d_k   (d, D over |X|)
   and the Lagrange remainder for X < 0 obtained from Taylor–Lagrange applied to
   t |-> exp(-t). *)
From Coq Require Import Reals Lra Psatz.
From Coquelicot Require Import Coquelicot.
From PV Require Import Lib.Base C16.Model C16.ProofsZ C16.Proofs.
Open Scope R_scope.

(* ---------------------------------------------------------------- integer step, any sign *)
Lemma fdiv_quot : forall b y, (0 < y)%Z -> fdiv b y = Z.quot (b * PREC) y.
Proof.
  intros b y Hy. unfold fdiv. pose proof PREC_pos as HP.
  remember PREC as Pz eqn:EP. clear EP.
  pose proof (Z.quot_rem' b y) as Hqr.
  pose proof (Z.rem_sign_mul b y ltac:(lia)) as Hs.
  set (q := Z.quot b y) in *. set (r := Z.rem b y) in *.
  replace (b * Pz)%Z with (r * Pz + (q * Pz) * y)%Z by (rewrite Hqr at 1; ring).
  rewrite Z.quot_add; [ring|lia|].
  replace (r * Pz + q * Pz * y)%Z with (b * Pz)%Z by (rewrite Hqr at 1; ring).
  replace (b * Pz * (r * Pz))%Z with ((Pz * Pz) * (r * b))%Z by ring.
  apply Z.mul_nonneg_nonneg; nia.
Qed.

Lemma err_step_any : forall a m, (0 < m)%Z ->
  (Z.abs (PREC * m * fdiv (scale a) (m * PREC) - a) < PREC * m)%Z.
Proof.
  intros a m Hm. pose proof PREC_pos as HP.
  rewrite scale_floor, fdiv_quot by nia.
  rewrite Z.quot_mul_cancel_r by lia.
  remember PREC as Pz eqn:EP. clear EP.
  set (b := (a / Pz)%Z).
  assert (Hb : (Pz * b <= a < Pz * b + Pz)%Z).
  { subst b. pose proof (Z.mul_div_le a Pz HP). pose proof (Z.mul_succ_div_gt a Pz HP). lia. }
  pose proof (Z.quot_rem' b m) as Hqr.
  set (c := Z.quot b m) in *.
  destruct (Z.le_gt_cases 0 b) as [Hb0|Hb0].
  - pose proof (Z.rem_bound_pos b m Hb0 Hm) as Hr. nia.
  - pose proof (Z.rem_bound_pos_neg b m Hm ltac:(lia)) as Hr. nia.
Qed.

Lemma err_step_any_R : forall a m, (0 < m)%Z ->
  Rabs (IZR (fdiv (scale a) (m * PREC)) - IZR a / (IZR PREC * IZR m)) < 1.
Proof.
  intros a m Hm. pose proof (err_step_any a m Hm) as H.
  set (c := fdiv (scale a) (m * PREC)) in *.
  assert (HP1 : 0 < IZR PREC) by (apply IZR_lt; exact PREC_pos).
  assert (HP2 : 0 < IZR m) by (apply IZR_lt; exact Hm).
  assert (HP : 0 < IZR PREC * IZR m) by (apply Rmult_lt_0_compat; assumption).
  apply IZR_lt in H. rewrite abs_IZR, minus_IZR, !mult_IZR in H.
  replace (IZR c - IZR a / (IZR PREC * IZR m))
    with ((IZR PREC * IZR m * IZR c - IZR a) / (IZR PREC * IZR m)) by (field; split; lra).
  unfold Rdiv. rewrite Rabs_mult, (Rabs_pos_eq (/ _)) by (left; apply Rinv_0_lt_compat; exact HP).
  apply Rmult_lt_reg_r with (IZR PREC * IZR m); [exact HP|].
  rewrite Rmult_assoc, Rinv_l by lra. lra.
Qed.

(* ---------------------------------------------------------------- remainder for X < 0 *)
Lemma exp_taylor_neg : forall Y n, 0 < Y ->
  exists z, 0 < z < Y /\
    exp (- Y) = P (- Y) n + (- Y) ^ (S n) / INR (fact (S n)) * exp (- z).
Proof.
  intros Y n HY.
  set (g := fun t : R => exp (- t)).
  assert (Hloc : forall t k, locally (- t) (fun y => forall j, (j <= k)%nat -> ex_derive_n exp j y)).
  { intros t k. apply filter_forall. intros y j _. destruct j as [|j]; [exact I|].
    exists (exp y). exact (is_derive_n_exp (S j) y). }
  assert (Hdn : forall m t, Derive_n g m t = (-1) ^ m * exp (- t)).
  { intros m t. unfold g. rewrite Derive_n_comp_opp by apply Hloc.
    rewrite (is_derive_n_unique _ _ _ _ (is_derive_n_exp m (- t))). reflexivity. }
  assert (Hd : forall t, 0 <= t <= Y -> forall k, (k <= S n)%nat -> ex_derive_n g k t).
  { intros t _ k _. unfold g. apply ex_derive_n_comp_opp. apply Hloc. }
  destruct (Taylor_Lagrange g n 0 Y HY Hd) as [z [Hz Heq]].
  exists z. split; [exact Hz|].
  fold (g Y). rewrite Heq. unfold P. f_equal.
  - apply sum_eq. intros i _. rewrite Hdn, Rminus_0_r, Ropp_0, exp_0.
    replace (- Y) with (-1 * Y) by ring. rewrite Rpow_mult_distr. unfold Rdiv. ring.
  - rewrite Hdn, Rminus_0_r.
    replace (- Y) with (-1 * Y) by ring. rewrite Rpow_mult_distr.
    replace (-1 * z) with (- z) by ring. unfold Rdiv. ring.
Qed.

Lemma exp_remainder_abs : forall X n, X <> 0 ->
  Rabs (exp X - P X n) <= Rabs X ^ (S n) / INR (fact (S n)) * exp (Rabs X).
Proof.
  intros X n HX0. pose proof (fact_pos_R (S n)) as Hf.
  destruct (Rtotal_order X 0) as [Hneg|[E|Hpos]]; [|contradiction|].
  - set (Y := - X). assert (HY : 0 < Y) by (unfold Y; lra).
    replace X with (- Y) by (unfold Y; ring).
    destruct (exp_taylor_neg Y n HY) as [z [Hz Heq]].
    rewrite Heq. replace (P (- Y) n + (- Y) ^ S n / INR (fact (S n)) * exp (- z) - P (- Y) n)
      with ((- Y) ^ S n / INR (fact (S n)) * exp (- z)) by ring.
    rewrite Rabs_Ropp, (Rabs_pos_eq Y) by lra.
    unfold Rdiv. rewrite !Rabs_mult. rewrite <- RPow_abs, Rabs_Ropp, (Rabs_pos_eq Y) by lra.
    rewrite (Rabs_pos_eq (/ _)) by (left; apply Rinv_0_lt_compat; exact Hf).
    rewrite (Rabs_pos_eq (exp (- z))) by (left; apply exp_pos).
    apply Rmult_le_compat_l.
    + apply Rmult_le_pos; [apply pow_le; lra|left; apply Rinv_0_lt_compat; exact Hf].
    + left. apply exp_increasing. lra.
  - destruct (exp_taylor X n Hpos) as [z [Hz Heq]].
    rewrite Heq. replace (P X n + X ^ S n / INR (fact (S n)) * exp z - P X n)
      with (X ^ S n / INR (fact (S n)) * exp z) by ring.
    rewrite (Rabs_pos_eq X) by lra.
    assert (Ht : 0 <= X ^ S n / INR (fact (S n))) by (apply term_nonneg; lra).
    rewrite Rabs_pos_eq by (apply Rmult_le_pos; [exact Ht|left; apply exp_pos]).
    apply Rmult_le_compat_l; [exact Ht|]. left. apply exp_increasing. tauto.
Qed.

(* |u * X| <= dd * |X| *)
Lemma abs_scale : forall u dd X, - dd <= u <= dd -> - (dd * Rabs X) <= u * X <= dd * Rabs X.
Proof.
  intros u dd X Hu. unfold Rabs. destruct (Rcase_abs X); nra.
Qed.

(* ---------------------------------------------------------------- the loop, any sign *)
Section LoopAll.
  Variables max_n x bound cmp : Z.
  Hypothesis Hx : x <> 0%Z.

  Let Sr : R := IZR PREC.
  Let X : R := IZR x / Sr.
  Let Y : R := Rabs X.
  Let T (j : nat) : R := Sr * (X ^ j / INR (fact j)).

  Lemma SrA_pos : 0 < Sr.
  Proof. unfold Sr. apply IZR_lt. exact PREC_pos. Qed.

  Lemma XA_neq : X <> 0.
  Proof.
    unfold X. pose proof SrA_pos. intros E.
    apply Rmult_eq_compat_r with (r := Sr) in E. unfold Rdiv in E.
    rewrite Rmult_assoc, Rinv_l, Rmult_1_r, Rmult_0_l in E by lra.
    apply eq_IZR in E. contradiction.
  Qed.

  Lemma YA_pos : 0 < Y.
  Proof. unfold Y. apply Rabs_pos_lt. exact XA_neq. Qed.

  Lemma TA_S : forall j, T (S j) = T j * X / INR (j + 1).
  Proof.
    intros j. unfold T.
    replace (fact (S j)) with ((S j) * fact j)%nat by reflexivity.
    rewrite mult_INR. replace (j + 1)%nat with (S j) by lia.
    pose proof (fact_pos_R j). assert (0 < INR (S j)) by (apply lt_0_INR; lia).
    cbn [pow]. field. split; lra.
  Qed.

  Lemma SPA_S : forall k, Sr * P X (S k) = Sr * P X k + T (S k).
  Proof. intros k. rewrite P_S. unfold T. ring. Qed.

  Lemma TA_abs : forall j, Rabs (T j) = Sr * (Y ^ j / INR (fact j)).
  Proof.
    intros j. unfold T, Y. pose proof SrA_pos. pose proof (fact_pos_R j).
    unfold Rdiv. rewrite !Rabs_mult, <- RPow_abs.
    rewrite (Rabs_pos_eq Sr) by lra.
    rewrite (Rabs_pos_eq (/ _)) by (left; apply Rinv_0_lt_compat; assumption).
    reflexivity.
  Qed.

  Definition InvA (k : nat) (rop n divisor err : Z) : Prop :=
    n = Z.of_nat k /\ divisor = ((Z.of_nat k + 1) * PREC)%Z /\
    - d Y k <= IZR err - T (S k) <= d Y k /\
    - D Y k <= IZR rop - Sr * P X k <= D Y k.

  Lemma InvA_init : InvA 0 ONE 0 ONE x.
  Proof.
    pose proof SrA_pos as HS.
    unfold InvA. rewrite ONE_PREC.
    split; [reflexivity|]. split; [cbn; ring|].
    assert (HT1 : T 1 = IZR x).
    { unfold T, X. cbn. field. lra. }
    assert (HP0 : Sr * P X 0 = IZR PREC).
    { unfold P. cbn. fold Sr. field. }
    rewrite HT1, HP0. cbn [d D]. split; split; lra.
  Qed.

  Definition PostA (r : result) : Prop :=
    exists k', iterations r = Z.of_nat k' /\
      (estimation r = GT -> exp Y <= IZR bound ->
         Sr * exp X <= IZR cmp - 1 + D Y k' + d Y k' * IZR bound) /\
      (estimation r = LT -> exp Y <= IZR bound ->
         IZR cmp + 1 - D Y k' - d Y k' * IZR bound <= Sr * exp X).

  Lemma loop_postA : forall fuel k rop n divisor err,
    InvA k rop n divisor err ->
    PostA (cmp_loop fuel max_n x bound cmp rop n divisor err).
  Proof.
    induction fuel as [|fuel IH]; intros k rop n divisor err HI.
    - exists k. cbn. destruct HI as (Hn & _). repeat split; try tauto; discriminate.
    - cbn [cmp_loop].
      destruct (negb (n <? max_n)) eqn:E1.
      { exists k. cbn. destruct HI as (Hn & _). repeat split; try tauto; discriminate. }
      destruct (Z.abs err <? Z.abs EPS) eqn:E2.
      { exists k. cbn. destruct HI as (Hn & _). repeat split; try tauto; discriminate. }
      destruct HI as (Hn & Hdv & HT & HR).
      assert (Hdiv' : (divisor + ONE = (Z.of_nat k + 2) * PREC)%Z).
      { rewrite Hdv, ONE_PREC. ring. }
      rewrite Hdiv'.
      set (err' := fdiv (scale (err * x)) ((Z.of_nat k + 2) * PREC)).
      pose proof SrA_pos as HS. pose proof YA_pos as HY.
      assert (Hk2 : 0 < INR (k + 2)) by (apply lt_0_INR; lia).
      assert (Hk2Z : IZR (Z.of_nat k + 2) = INR (k + 2)).
      { rewrite INR_IZR_nat. f_equal. lia. }
      (* |err' - err*X/(k+2)| < 1 *)
      assert (Hq : - 1 <= IZR err' - IZR err * X / INR (k + 2) <= 1).
      { pose proof (err_step_any_R (err * x) (Z.of_nat k + 2) ltac:(lia)) as Hs.
        fold err' in Hs. rewrite mult_IZR, Hk2Z in Hs. fold Sr in Hs.
        replace (IZR err * X / INR (k + 2)) with (IZR err * IZR x / (Sr * INR (k + 2)))
          by (unfold X; field; split; lra).
        apply Rabs_def2 in Hs. lra. }
      assert (HT2 : T (S (S k)) = T (S k) * X / INR (k + 2)).
      { rewrite TA_S. do 2 f_equal. lia. }
      assert (HTnew : - d Y (S k) <= IZR err' - T (S (S k)) <= d Y (S k)).
      { rewrite HT2. cbn [d].
        pose proof (abs_scale (IZR err - T (S k)) (d Y k) X HT) as Hsc. fold Y in Hsc.
        assert (Hdiv : - (d Y k * Y / INR (k + 2)) <= (IZR err - T (S k)) * X / INR (k + 2) <= d Y k * Y / INR (k + 2)).
        { unfold Rdiv. split.
          - rewrite Ropp_mult_distr_l. apply Rmult_le_compat_r; [left; apply Rinv_0_lt_compat; exact Hk2|lra].
          - apply Rmult_le_compat_r; [left; apply Rinv_0_lt_compat; exact Hk2|lra]. }
        unfold Rdiv in *. split; lra. }
      assert (HRnew : - D Y (S k) <= IZR (rop + err) - Sr * P X (S k) <= D Y (S k)).
      { rewrite SPA_S, plus_IZR. cbn [D]. lra. }
      (* remainder: |S e^X - S P_(k+1)| <= |T (k+2)| * exp Y <= (|err'| + d) * exp Y *)
      assert (Hrem : Rabs (Sr * exp X - Sr * P X (S k)) <= (Rabs (IZR err') + d Y (S k)) * exp Y).
      { pose proof (exp_remainder_abs X (S k) XA_neq) as Hr. fold Y in Hr.
        replace (Sr * exp X - Sr * P X (S k)) with (Sr * (exp X - P X (S k))) by ring.
        rewrite Rabs_mult, (Rabs_pos_eq Sr) by lra.
        assert (HTa : Rabs (T (S (S k))) <= Rabs (IZR err') + d Y (S k)).
        { replace (T (S (S k))) with (IZR err' - (IZR err' - T (S (S k)))) by ring.
          eapply Rle_trans; [apply Rabs_triang|]. rewrite Rabs_Ropp.
          apply Rplus_le_compat_l. apply Rabs_le. exact HTnew. }
        rewrite TA_abs in HTa.
        pose proof (exp_pos Y) as He.
        apply Rle_trans with (Sr * (Y ^ S (S k) / INR (fact (S (S k))) * exp Y)).
        - apply Rmult_le_compat_l; [lra|exact Hr].
        - rewrite <- Rmult_assoc. apply Rmult_le_compat_r; [lra|exact HTa]. }
      assert (Hd0 : 0 <= d Y (S k)) by (apply d_nonneg; lra).
      assert (Habs0 : 0 <= Rabs (IZR err')) by apply Rabs_pos.
      destruct (cmp >? rop + err + Z.abs err' * bound)%Z eqn:E3.
      { exists (S k). cbn [iterations estimation]. split; [lia|]. split; [|discriminate].
        intros _ HB.
        assert (Hcmp : IZR (rop + err) + Rabs (IZR err') * IZR bound + 1 <= IZR cmp).
        { rewrite <- abs_IZR, <- mult_IZR, <- plus_IZR. replace 1 with (IZR 1) by reflexivity.
          rewrite <- plus_IZR. apply IZR_le. lia. }
        apply Rabs_le_between in Hrem.
        assert (Hmul : (Rabs (IZR err') + d Y (S k)) * exp Y <= (Rabs (IZR err') + d Y (S k)) * IZR bound).
        { apply Rmult_le_compat_l; lra. }
        cbn [D] in *. lra. }
      destruct (cmp <? rop + err - Z.abs err' * bound)%Z eqn:E4.
      { exists (S k). cbn [iterations estimation]. split; [lia|]. split; [discriminate|].
        intros _ HB.
        assert (Hcmp : IZR cmp + 1 <= IZR (rop + err) - Rabs (IZR err') * IZR bound).
        { rewrite <- abs_IZR, <- mult_IZR, <- minus_IZR. replace 1 with (IZR 1) by reflexivity.
          rewrite <- plus_IZR. apply IZR_le. lia. }
        apply Rabs_le_between in Hrem.
        assert (Hmul : (Rabs (IZR err') + d Y (S k)) * exp Y <= (Rabs (IZR err') + d Y (S k)) * IZR bound).
        { apply Rmult_le_compat_l; lra. }
        cbn [D] in *. lra. }
      replace (Z.of_nat k + 2)%Z with (Z.of_nat (S k) + 1)%Z in * by lia.
      apply (IH (S k)). unfold InvA. repeat split; try lia; try tauto.
  Qed.

  Lemma ref_exp_cmp_postA : PostA (ref_exp_cmp max_n x bound cmp).
  Proof. unfold ref_exp_cmp. apply (loop_postA _ 0%nat). exact InvA_init. Qed.
End LoopAll.

(* both conclusions, every sign of x, up to the truncation margin *)
Lemma exp_cmp_sound_margin_all_proof : forall max_n x bound cmp,
  exp (Rabs (IZR x / IZR PREC)) <= IZR bound ->
  let r := ref_exp_cmp max_n x bound cmp in
  let M := IZR (bound * (iterations r + bound)) in
  (estimation r = GT -> (IZR cmp + M) / IZR PREC > exp (IZR x / IZR PREC)) /\
  (estimation r = LT -> (IZR cmp - M) / IZR PREC < exp (IZR x / IZR PREC)).
Proof.
  intros max_n x bound cmp HB r M.
  assert (HS : 0 < IZR PREC) by (apply IZR_lt; exact PREC_pos).
  destruct (Z.eq_dec x 0) as [E0|Hx0].
  - subst r. subst x. unfold ref_exp_cmp. rewrite loop_err0. cbn. split; discriminate.
  - destruct (ref_exp_cmp_postA max_n x bound cmp Hx0) as (k' & Hit & HGT & HLT).
    fold r in Hit, HGT, HLT.
    set (Y := Rabs (IZR x / IZR PREC)) in *.
    assert (HY : 0 < Y).
    { unfold Y. apply Rabs_pos_lt. intros E.
      apply Rmult_eq_compat_r with (r := IZR PREC) in E. unfold Rdiv in E.
      rewrite Rmult_assoc, Rinv_l, Rmult_1_r, Rmult_0_l in E by lra.
      apply eq_IZR in E. contradiction. }
    pose proof (D_le Y k' HY) as HD. pose proof (d_le_exp Y k' HY) as Hd.
    pose proof (d_nonneg Y k' ltac:(lra)) as Hd0.
    pose proof (exp_pos Y) as HeY.
    assert (HM : M = IZR bound * (INR k' + IZR bound)).
    { unfold M. rewrite Hit, mult_IZR, plus_IZR, <- INR_IZR_nat. reflexivity. }
    set (B := IZR bound) in *.
    pose proof (pos_INR k') as Hk.
    assert (H1 : D Y k' <= INR k' * B) by nra.
    assert (H2 : d Y k' * B <= B * B) by nra.
    split; intros He.
    + specialize (HGT He HB). apply Rlt_gt. apply Rlt_div_r; [exact HS|]. rewrite Rmult_comm. lra.
    + specialize (HLT He HB). apply Rlt_div_l; [exact HS|]. rewrite (Rmult_comm (exp _)). lra.
Qed.

Lemma exp_cmp_sound_outside_margin_all_proof : forall max_n x bound cmp,
  exp (Rabs (IZR x / IZR PREC)) <= IZR bound ->
  let r := ref_exp_cmp max_n x bound cmp in
  ~ (Rabs (IZR cmp / IZR PREC - exp (IZR x / IZR PREC))
       < IZR (bound * (iterations r + bound)) / IZR PREC) ->
  (estimation r = GT -> IZR cmp / IZR PREC > exp (IZR x / IZR PREC)) /\
  (estimation r = LT -> IZR cmp / IZR PREC < exp (IZR x / IZR PREC)).
Proof.
  intros max_n x bound cmp HB r Hout.
  destruct (exp_cmp_sound_margin_all_proof max_n x bound cmp HB) as [HG HL].
  fold r in HG, HL. unfold Rdiv in *.
  split; intros He.
  - specialize (HG He). rewrite Rmult_plus_distr_r in HG.
    apply Rnot_le_gt. intros Hle. apply Hout. apply Rabs_def1; lra.
  - specialize (HL He). rewrite Rmult_minus_distr_r in HL.
    apply Rnot_le_lt. intros Hle. apply Hout. apply Rabs_def1; lra.
Qed.
