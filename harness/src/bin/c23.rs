//! C23: the client/server agents of pallas-network/src/miniprotocols against the Ouroboros
//! mini-protocol state machines.
//!
//! Every agent is driven for real: two Plexers joined by a UnixStream pair, the agent under test
//! on one side, a raw ChannelBuffer (which can put ANY message on the wire) on the other.
//! An operation is a public method call (the peer first delivers a message when the method
//! receives) or the low-level send_message / recv_message. After each operation the harness
//! records: accepted?, the message the agent put on the wire (read back by the peer behind a
//! FIFO fence through the same muxer, so "nothing sent" is observed, not timed), and state().
//! Exploration: breadth-first over (agent state, specification state) — every operation from
//! every reached product state — plus random walks; thorough: all operation sequences to a depth.
//! Oracle (independent of the Coq model; its own transition table per protocol, written from
//! the network specification): every message on the wire is permitted from the side holding
//! agency; an accepted exchange ends in the prescribed state; a rejected operation leaves the
//! state alone; low-level send/recv accept exactly what is permitted; every permitted
//! transition is performed by some operation.
//! ORACLE_FAIL key = `<protocol>/<role>/<state>/<message>/<send|recv|next|reject|method|data>`.
//! case := Case23 proto role [ops] [(ok, sent, state)]
use pallas_network::miniprotocols::{
    blockfetch as bf, chainsync as cs, handshake as hs, keepalive as ka, localstate as ls, localtxsubmission as lt,
    peersharing as ps, txmonitor as tm, txsubmission as tx, Point,
};
use pallas_network::multiplexer::{AgentChannel, Bearer, ChannelBuffer, Plexer, RunningPlexer};
use pallas_codec::utils::AnyCbor;
use pallas_codec::Fragment;
use futures::FutureExt;
use std::collections::{HashSet, VecDeque};
use std::fmt::Debug;
use std::future::Future;
use std::time::Duration;
use tokio::net::UnixStream;
use tokio::runtime::Runtime;
use verif_harness::*;

#[derive(Clone, Debug, PartialEq, Eq, Hash)]
enum Op { Call(&'static str, String), LowSend(String), LowRecv(String) }
#[derive(Clone, Debug)]
struct Obs { ok: bool, sent: String, state: String, err: String }

fn op_term(o: &Op) -> String {
    match o {
        Op::Call(n, d) => format!("Call \"{}\" \"{}\"", n, d),
        Op::LowSend(m) => format!("LowSend \"{}\"", m),
        Op::LowRecv(m) => format!("LowRecv \"{}\"", m),
    }
}
fn base(m: &str) -> &str { m.split('!').next().unwrap() }
fn cls<T: Debug>(s: &T) -> String { let t = format!("{:?}", s); t.split(|c| c == '(' || c == ' ' || c == '{').next().unwrap().to_string() }

// ------------------------------------------------------------------ the rig
struct Rig {
    agent_ch: Option<AgentChannel>,
    peer: ChannelBuffer,
    fence_tx: AgentChannel,
    fence_rx: AgentChannel,
    pa: Option<RunningPlexer>,
    pb: Option<RunningPlexer>,
}
const FENCE: u16 = 99;

async fn rig(proto: u16, agent_is_client: bool) -> Rig {
    let (a, b) = UnixStream::pair().expect("socket pair");
    let mut pa = Plexer::new(Bearer::Unix(a));
    let mut pb = Plexer::new(Bearer::Unix(b));
    let (agent_ch, peer_ch) = if agent_is_client {
        (pa.subscribe_client(proto), pb.subscribe_server(proto))
    } else {
        (pa.subscribe_server(proto), pb.subscribe_client(proto))
    };
    let fence_tx = pa.subscribe_client(FENCE);
    let fence_rx = pb.subscribe_server(FENCE);
    Rig { agent_ch: Some(agent_ch), peer: ChannelBuffer::new(peer_ch), fence_tx, fence_rx, pa: Some(pa.spawn()), pb: Some(pb.spawn()) }
}
/// one complete CBOR item, kept as bytes (so that the peer can read / write messages the typed
/// codecs cannot round-trip)
struct AnyMsg(Vec<u8>);
impl<'b> minicbor::Decode<'b, ()> for AnyMsg {
    fn decode(d: &mut minicbor::Decoder<'b>, _: &mut ()) -> Result<Self, minicbor::decode::Error> {
        let start = d.position();
        d.skip()?;
        Ok(AnyMsg(d.input()[start..d.position()].to_vec()))
    }
}
impl minicbor::Encode<()> for AnyMsg {
    fn encode<W: minicbor::encode::Write>(&self, e: &mut minicbor::Encoder<W>, _: &mut ()) -> Result<(), minicbor::encode::Error<W::Error>> {
        e.writer_mut().write_all(&self.0).map_err(minicbor::encode::Error::write)
    }
}
/// label of a `[label, ..]` message
fn label_of(bytes: &[u8]) -> u64 {
    let mut d = minicbor::Decoder::new(bytes);
    let _ = d.array();
    d.u64().unwrap_or(u64::MAX)
}

impl Rig {
    /// the peer puts a message on the wire towards the agent
    async fn deliver<M: Fragment>(&mut self, m: &M) { self.peer.send_msg_chunks(m).await.expect("peer send"); }
    async fn deliver_raw(&mut self, bytes: Vec<u8>) { self.peer.send_msg_chunks(&AnyMsg(bytes)).await.expect("peer send"); }
    /// what the agent has put on the wire so far (one message at most per operation): a
    /// sentinel goes through the agent side's muxer queue (FIFO) and is awaited at the peer.
    /// Err(label) when the typed codec cannot decode what the agent sent.
    async fn wire<M: Fragment>(&mut self) -> Option<Result<M, u64>> {
        self.fence_tx.enqueue_chunk(vec![0x01]).await.expect("fence enqueue");
        tokio::time::timeout(Duration::from_secs(20), self.fence_rx.dequeue_chunk()).await.expect("fence timeout").expect("fence");
        match self.peer.recv_full_msg::<AnyMsg>().now_or_never() {
            Some(Ok(AnyMsg(b))) => Some(minicbor::decode::<M>(&b).map_err(|_| label_of(&b))),
            _ => None,
        }
    }
    async fn shutdown(&mut self) {
        if let Some(p) = self.pa.take() { p.abort().await; }
        if let Some(p) = self.pb.take() { p.abort().await; }
    }
}
async fn to<T, E: Debug>(f: impl Future<Output = Result<T, E>>) -> Result<(), String> {
    match tokio::time::timeout(Duration::from_secs(10), f).await {
        Ok(Ok(_)) => Ok(()),
        // local-state-query: MsgFailure is delivered to the caller as an Err, the exchange itself is accepted
        Ok(Err(e)) => { let c = cls(&e); if c.starts_with("AcquirePoint") { Ok(()) } else { Err(c) } }
        Err(_) => Err("Timeout".into()),
    }
}
fn pt() -> Point { Point::Specific(7, vec![1, 2, 3]) }

macro_rules! do_low_send {
    (yes, $a:ident, $m:expr) => { to($a.send_message(&$m)).await };
    (no, $a:ident, $m:expr) => { { let _ = &$m; Err::<(), String>("private".into()) } };
}
macro_rules! do_low_recv {
    (yes, $a:ident) => { to($a.recv_message()).await };
    (no, $a:ident) => { Err::<(), String>("private".into()) };
}
/// messages the typed codec cannot round-trip are delivered / recognised as bytes:
/// local-tx-submission MsgRejectTx is `[2, [[era, [failure..]]]]` on the wire (what the decoder
/// expects) while the encoder writes `[2, [era, [failure..]]]`
fn raw_override(proto: u16, class: &str) -> Option<Vec<u8>> {
    if proto == 6 && base(class) == "RejectTx" { Some(vec![0x82, 0x02, 0x81, 0x82, 0x06, 0x80]) } else { None }
}
fn label_class(proto: u16, label: u64) -> String {
    if proto == 6 && label == 2 { "RejectTx".into() } else { format!("undecodable-label-{}", label) }
}
/// generic executor: one arm per public method of the agent
macro_rules! exec_agent {
    ($fname:ident, $proto:expr, $is_client:expr, $agent_ty:ty, $msg_ty:ty, $mk:ident, $class:ident, $a:ident,
     low_send: $ls:tt, low_recv: $lr:tt, { $($name:literal => $call:expr),* $(,)? }) => {
        async fn $fname(ops: Vec<Op>) -> Vec<Obs> {
            let mut r = rig($proto, $is_client).await;
            let mut $a = <$agent_ty>::new(r.agent_ch.take().unwrap());
            let mut out = vec![];
            for op in ops.iter() {
                let res: Result<(), String> = match op {
                    Op::Call(name, d) => {
                        if !d.is_empty() { match raw_override($proto, d) { Some(b) => r.deliver_raw(b).await, None => r.deliver::<$msg_ty>(&$mk(d)).await } }
                        match *name {
                            $($name => to($call).await,)*
                            other => panic!("unknown method {}", other),
                        }
                    }
                    Op::LowSend(m) => { let msg: $msg_ty = $mk(m); do_low_send!($ls, $a, msg) }
                    Op::LowRecv(d) => { match raw_override($proto, d) { Some(b) => r.deliver_raw(b).await, None => r.deliver::<$msg_ty>(&$mk(d)).await } do_low_recv!($lr, $a) }
                };
                let sent = r.wire::<$msg_ty>().await.map(|m| match m { Ok(m) => $class(&m), Err(l) => label_class($proto, l) }).unwrap_or_default();
                let state = cls($a.state());
                let go = matches!(op, Op::Call(..)) && (res.is_ok() || !sent.is_empty());
                out.push(Obs { ok: res.is_ok(), sent, state, err: res.err().unwrap_or_default() });
                if !go { break; }
            }
            r.shutdown().await;
            out
        }
    };
}
// ---------------------------------------------------------------- blockfetch
fn bf_msg(c: &str) -> bf::Message {
    match base(c) {
        "RequestRange" => bf::Message::RequestRange { range: (pt(), pt()) },
        "ClientDone" => bf::Message::ClientDone,
        "StartBatch" => bf::Message::StartBatch,
        "NoBlocks" => bf::Message::NoBlocks,
        "Block" => bf::Message::Block { body: vec![0x80] },
        "BatchDone" => bf::Message::BatchDone,
        x => panic!("bf msg {}", x),
    }
}
fn bf_class(m: &bf::Message) -> String { cls(m) }
exec_agent!(exec_bf_client, 3, true, bf::Client, bf::Message, bf_msg, bf_class, a,
    low_send: yes, low_recv: yes, {
    "send_request_range" => a.send_request_range((pt(), pt())),
    "recv_while_busy" => a.recv_while_busy(),
    "recv_while_streaming" => a.recv_while_streaming(),
    "send_done" => a.send_done(),
});
exec_agent!(exec_bf_server, 3, false, bf::Server, bf::Message, bf_msg, bf_class, a,
    low_send: yes, low_recv: yes, {
    "send_start_batch" => a.send_start_batch(),
    "send_no_blocks" => a.send_no_blocks(),
    "send_block" => a.send_block(vec![0x80]),
    "send_batch_done" => a.send_batch_done(),
    "recv_while_idle" => a.recv_while_idle(),
});

// ----------------------------------------------------------------- chainsync
type CsMsg = cs::Message<cs::HeaderContent>;
fn hdr() -> cs::HeaderContent { cs::HeaderContent { variant: 1, byron_prefix: None, cbor: vec![0x80] } }
fn tip() -> cs::Tip { cs::Tip(pt(), 9) }
fn cs_msg(c: &str) -> CsMsg {
    match base(c) {
        "RequestNext" => cs::Message::RequestNext,
        "AwaitReply" => cs::Message::AwaitReply,
        "RollForward" => cs::Message::RollForward(hdr(), tip()),
        "RollBackward" => cs::Message::RollBackward(pt(), tip()),
        "FindIntersect" => cs::Message::FindIntersect(vec![pt()]),
        "IntersectFound" => cs::Message::IntersectFound(pt(), tip()),
        "IntersectNotFound" => cs::Message::IntersectNotFound(tip()),
        "Done" => cs::Message::Done,
        x => panic!("cs msg {}", x),
    }
}
fn cs_class(m: &CsMsg) -> String { cls(m) }
exec_agent!(exec_cs_client, 2, true, cs::N2NClient, CsMsg, cs_msg, cs_class, a,
    low_send: yes, low_recv: yes, {
    "send_find_intersect" => a.send_find_intersect(vec![pt()]),
    "recv_intersect_response" => a.recv_intersect_response(),
    "send_request_next" => a.send_request_next(),
    "recv_while_can_await" => a.recv_while_can_await(),
    "recv_while_must_reply" => a.recv_while_must_reply(),
    "send_done" => a.send_done(),
});
exec_agent!(exec_cs_server, 2, false, cs::N2NServer, CsMsg, cs_msg, cs_class, a,
    low_send: yes, low_recv: no, {
    "recv_while_idle" => a.recv_while_idle(),
    "send_intersect_not_found" => a.send_intersect_not_found(tip()),
    "send_intersect_found" => a.send_intersect_found(pt(), tip()),
    "send_roll_forward" => a.send_roll_forward(hdr(), tip()),
    "send_roll_backward" => a.send_roll_backward(pt(), tip()),
    "send_await_reply" => a.send_await_reply(),
});

// ----------------------------------------------------------------- handshake
type HsMsg = hs::Message<hs::n2n::VersionData>;
fn vdata() -> hs::n2n::VersionData { hs::n2n::VersionData::new(764824073, false, Some(0), Some(false)) }
fn vtable() -> hs::n2n::VersionTable { hs::n2n::VersionTable::v7_and_above(764824073) }
fn hs_msg(c: &str) -> HsMsg {
    match base(c) {
        "Propose" => hs::Message::Propose(vtable()),
        "Accept" => hs::Message::Accept(13, vdata()),
        "Refuse" => hs::Message::Refuse(hs::RefuseReason::VersionMismatch(vec![13])),
        "QueryReply" => hs::Message::QueryReply(vtable()),
        x => panic!("hs msg {}", x),
    }
}
fn hs_class(m: &HsMsg) -> String { cls(m) }
exec_agent!(exec_hs_client, 0, true, hs::N2NClient, HsMsg, hs_msg, hs_class, a,
    low_send: yes, low_recv: yes, {
    "send_propose" => a.send_propose(vtable()),
    "recv_while_confirm" => a.recv_while_confirm(),
});
exec_agent!(exec_hs_server, 0, false, hs::N2NServer, HsMsg, hs_msg, hs_class, a,
    low_send: yes, low_recv: yes, {
    "receive_proposed_versions" => a.receive_proposed_versions(),
    "accept_version" => a.accept_version(13, vdata()),
    "refuse" => a.refuse(hs::RefuseReason::VersionMismatch(vec![13])),
});

// --------------------------------------------------------------- peersharing
fn ps_msg(c: &str) -> ps::Message {
    match base(c) {
        "ShareRequest" => ps::Message::ShareRequest(3),
        "SharePeers" => ps::Message::SharePeers(vec![ps::PeerAddress::V4(std::net::Ipv4Addr::new(10, 0, 0, 1), 3001)]),
        "Done" => ps::Message::Done,
        x => panic!("ps msg {}", x),
    }
}
fn ps_class(m: &ps::Message) -> String { cls(m) }
exec_agent!(exec_ps_client, 10, true, ps::Client, ps::Message, ps_msg, ps_class, a,
    low_send: yes, low_recv: yes, {
    "send_share_request" => a.send_share_request(3),
    "recv_peer_addresses" => a.recv_peer_addresses(),
    "send_done" => a.send_done(),
});
exec_agent!(exec_ps_server, 10, false, ps::Server, ps::Message, ps_msg, ps_class, a,
    low_send: yes, low_recv: yes, {
    "recv_share_request" => a.recv_share_request(),
    "send_peer_addresses" => a.send_peer_addresses(vec![ps::PeerAddress::V4(std::net::Ipv4Addr::new(10, 0, 0, 1), 3001)]),
});

// -------------------------------------------------------------- txsubmission
type TxMsg = tx::Message<tx::EraTxId, tx::EraTxBody>;
fn tx_msg(c: &str) -> TxMsg {
    match base(c) {
        "Init" => tx::Message::Init,
        "RequestTxIds(true)" => tx::Message::RequestTxIds(true, 0, 3),
        "RequestTxIds(false)" => tx::Message::RequestTxIds(false, 1, 3),
        "ReplyTxIds" => tx::Message::ReplyTxIds(vec![tx::TxIdAndSize(tx::EraTxId(6, vec![1; 32]), 100)]),
        "RequestTxs" => tx::Message::RequestTxs(vec![tx::EraTxId(6, vec![1; 32])]),
        "ReplyTxs" => tx::Message::ReplyTxs(vec![tx::EraTxBody(6, vec![0x80])]),
        "Done" => tx::Message::Done,
        x => panic!("tx msg {}", x),
    }
}
fn tx_class(m: &TxMsg) -> String {
    match m { tx::Message::RequestTxIds(b, ..) => format!("RequestTxIds({})", b), other => cls(other) }
}
exec_agent!(exec_tx_client, 4, true, tx::Client, TxMsg, tx_msg, tx_class, a,
    low_send: yes, low_recv: yes, {
    "send_init" => a.send_init(),
    "reply_tx_ids" => a.reply_tx_ids(vec![tx::TxIdAndSize(tx::EraTxId(6, vec![1; 32]), 100)]),
    "reply_txs" => a.reply_txs(vec![tx::EraTxBody(6, vec![0x80])]),
    "next_request" => a.next_request(),
    "send_done" => a.send_done(),
});
exec_agent!(exec_tx_server, 4, false, tx::Server, TxMsg, tx_msg, tx_class, a,
    low_send: yes, low_recv: yes, {
    "wait_for_init" => a.wait_for_init(),
    "request_tx_ids_blocking" => a.acknowledge_and_request_tx_ids(true, 0, 3),
    "request_tx_ids_non_blocking" => a.acknowledge_and_request_tx_ids(false, 1, 3),
    "request_txs" => a.request_txs(vec![tx::EraTxId(6, vec![1; 32])]),
    "receive_next_reply" => a.receive_next_reply(),
});

// ---------------------------------------------------------------- localstate
fn anycbor() -> AnyCbor { AnyCbor::from_encode(7u8) }
fn ls_msg(c: &str) -> ls::Message {
    match base(c) {
        "Acquire" => ls::Message::Acquire(Some(pt())),
        "Failure" => ls::Message::Failure(ls::AcquireFailure::PointTooOld),
        "Acquired" => ls::Message::Acquired,
        "Query" => ls::Message::Query(anycbor()),
        "Result" => ls::Message::Result(anycbor()),
        "ReAcquire" => ls::Message::ReAcquire(None),
        "Release" => ls::Message::Release,
        "Done" => ls::Message::Done,
        x => panic!("ls msg {}", x),
    }
}
fn ls_class(m: &ls::Message) -> String { cls(m) }
exec_agent!(exec_ls_client, 7, true, ls::Client, ls::Message, ls_msg, ls_class, a,
    low_send: yes, low_recv: yes, {
    "send_acquire" => a.send_acquire(Some(pt())),
    "send_reacquire" => a.send_reacquire(None),
    "send_release" => a.send_release(),
    "send_done" => a.send_done(),
    "recv_while_acquiring" => a.recv_while_acquiring(),
    "send_query" => a.send_query(anycbor()),
    "recv_while_querying" => a.recv_while_querying(),
});
exec_agent!(exec_ls_server, 7, false, ls::Server, ls::Message, ls_msg, ls_class, a,
    low_send: yes, low_recv: yes, {
    "send_failure" => a.send_failure(ls::AcquireFailure::PointTooOld),
    "send_acquired" => a.send_acquired(),
    "send_result" => a.send_result(anycbor()),
    "recv_while_idle" => a.recv_while_idle(),
    "recv_while_acquired" => a.recv_while_acquired(),
});

// --------------------------------------------------------- localtxsubmission
type LtMsg = lt::Message<lt::EraTx, lt::TxValidationError>;
fn reject() -> lt::TxValidationError {
    lt::TxValidationError::ShelleyTxValidationError { error: lt::ApplyTxError(vec![]), era: lt::ShelleyBasedEra::Conway }
}
fn lt_msg(c: &str) -> LtMsg {
    match base(c) {
        "SubmitTx" => lt::Message::SubmitTx(lt::EraTx(6, vec![0x80])),
        "AcceptTx" => lt::Message::AcceptTx,
        "RejectTx" => lt::Message::RejectTx(reject()),
        "Done" => lt::Message::Done,
        x => panic!("lt msg {}", x),
    }
}
fn lt_class(m: &LtMsg) -> String { cls(m) }
exec_agent!(exec_lt_client, 6, true, lt::Client, LtMsg, lt_msg, lt_class, a,
    low_send: no, low_recv: no, {
    "send_submit_tx" => a.send_submit_tx(lt::EraTx(6, vec![0x80])),
    "recv_submit_tx_response" => a.recv_submit_tx_response(),
    "terminate_gracefully" => a.terminate_gracefully(),
});
exec_agent!(exec_lt_server, 6, false, lt::Server, LtMsg, lt_msg, lt_class, a,
    low_send: no, low_recv: no, {
    "send_submit_tx_response_accepted" => a.send_submit_tx_response(lt::Response::Accepted),
    "send_submit_tx_response_rejected" => a.send_submit_tx_response(lt::Response::Rejected(reject())),
    "recv_next_request" => a.recv_next_request(),
});

// ----------------------------------------------------------------- txmonitor
fn tm_msg(c: &str) -> tm::Message {
    match base(c) {
        "Acquire" => tm::Message::Acquire,
        "AwaitAcquire" => tm::Message::AwaitAcquire,
        "Acquired" => tm::Message::Acquired(42),
        "RequestHasTx" => tm::Message::RequestHasTx("00ff".into()),
        "RequestNextTx" => tm::Message::RequestNextTx,
        "RequestSizeAndCapacity" => tm::Message::RequestSizeAndCapacity,
        "ResponseHasTx(true)" => tm::Message::ResponseHasTx(true),
        "ResponseHasTx(false)" => tm::Message::ResponseHasTx(false),
        "ResponseNextTx" => tm::Message::ResponseNextTx(None),
        "ResponseSizeAndCapacity" => tm::Message::ResponseSizeAndCapacity(tm::MempoolSizeAndCapacity { capacity_in_bytes: 1000, size_in_bytes: 10, number_of_txs: 1 }),
        "Release" => tm::Message::Release,
        "Done" => tm::Message::Done,
        x => panic!("tm msg {}", x),
    }
}
fn tm_class(m: &tm::Message) -> String {
    match m { tm::Message::ResponseHasTx(b) => format!("ResponseHasTx({})", b), other => cls(other) }
}
exec_agent!(exec_tm_client, 9, true, tm::Client, tm::Message, tm_msg, tm_class, a,
    low_send: yes, low_recv: yes, {
    "acquire" => a.acquire(),
    "query_has_tx" => a.query_has_tx("00ff".into()),
    "query_next_tx" => a.query_next_tx(),
    "query_size_and_capacity" => a.query_size_and_capacity(),
    "release" => a.release(),
});

// ----------------------------------------------------------------- keepalive
// hand-written: the response must echo the cookie the client generated at random
fn ka_class(m: &ka::Message) -> String { cls(m) }
async fn exec_ka_client(ops: Vec<Op>) -> Vec<Obs> {
    let mut r = rig(8, true).await;
    let mut a = ka::Client::new(r.agent_ch.take().unwrap());
    let mut cookie: u16 = 0;
    let mut out = vec![];
    let mk = |c: &str, cookie: u16| -> ka::Message {
        match c {
            "KeepAlive" => ka::Message::KeepAlive(77),
            "ResponseKeepAlive" => ka::Message::ResponseKeepAlive(cookie),
            "ResponseKeepAlive!cookie" => ka::Message::ResponseKeepAlive(cookie.wrapping_add(1)),
            "Done" => ka::Message::Done,
            x => panic!("ka msg {}", x),
        }
    };
    for op in ops.iter() {
        let res: Result<(), String> = match op {
            Op::Call(name, d) => {
                if !d.is_empty() { r.deliver(&mk(d, cookie)).await; }
                match *name {
                    "send_keepalive_request" => to(a.send_keepalive_request()).await,
                    "recv_keepalive_response" => to(a.recv_keepalive_response()).await,
                    other => panic!("unknown method {}", other),
                }
            }
            Op::LowSend(m) => { let msg = mk(m, cookie); to(a.send_message(&msg)).await }
            Op::LowRecv(d) => { r.deliver(&mk(d, cookie)).await; to(a.recv_message()).await }
        };
        if let (Op::Call("recv_keepalive_response", d), Ok(())) = (op, &res) {
            if d.ends_with("!cookie") {
                emit_oracle_fail("keepalive/client/Server/ResponseKeepAlive/data",
                    &format!("ops={} : a response whose cookie differs from the request's was accepted", coq_list(&ops, op_term)));
            }
        }
        let w = r.wire::<ka::Message>().await.and_then(|x| x.ok());
        if let Some(ka::Message::KeepAlive(c)) = &w { cookie = *c; }
        let sent = w.map(|m| ka_class(&m)).unwrap_or_default();
        let state = cls(a.state());
        let go = matches!(op, Op::Call(..)) && (res.is_ok() || !sent.is_empty());
        out.push(Obs { ok: res.is_ok(), sent, state, err: res.err().unwrap_or_default() });
        if !go { break; }
    }
    r.shutdown().await;
    out
}
async fn exec_ka_server(ops: Vec<Op>) -> Vec<Obs> {
    let mut r = rig(8, false).await;
    let mut a = ka::Server::new(r.agent_ch.take().unwrap());
    let mut out = vec![];
    let mut last_cookie: Option<u16> = None;
    let mut n: u16 = 1000;
    for op in ops.iter() {
        let mut mk = |c: &str| -> ka::Message {
            match base(c) {
                "KeepAlive" => { n = n.wrapping_mul(31).wrapping_add(7); last_cookie = Some(n); ka::Message::KeepAlive(n) }
                "ResponseKeepAlive" => ka::Message::ResponseKeepAlive(5),
                "Done" => ka::Message::Done,
                x => panic!("ka msg {}", x),
            }
        };
        let res: Result<(), String> = match op {
            Op::Call(name, d) => {
                if !d.is_empty() { let m = mk(d); r.deliver(&m).await; }
                match *name {
                    "recv_keepalive_request" => to(a.recv_keepalive_request()).await,
                    "send_keepalive_response" => to(a.send_keepalive_response()).await,
                    other => panic!("unknown method {}", other),
                }
            }
            Op::LowSend(m) => { let msg = mk(m); to(a.send_message(&msg)).await }
            Op::LowRecv(d) => { let m = mk(d); r.deliver(&m).await; to(a.recv_message()).await }
        };
        let w = r.wire::<ka::Message>().await.and_then(|x| x.ok());
        if let (Op::Call("send_keepalive_response", _), Some(ka::Message::ResponseKeepAlive(c))) = (op, &w) {
            if Some(*c) != last_cookie {
                emit_oracle_fail("keepalive/server/Server/ResponseKeepAlive/data",
                    &format!("ops={} : the response carries cookie {} but the request carried {:?}", coq_list(&ops, op_term), c, last_cookie));
            }
        }
        let sent = w.map(|m| ka_class(&m)).unwrap_or_default();
        let state = cls(a.state());
        let go = matches!(op, Op::Call(..)) && (res.is_ok() || !sent.is_empty());
        out.push(Obs { ok: res.is_ok(), sent, state, err: res.err().unwrap_or_default() });
        if !go { break; }
    }
    r.shutdown().await;
    out
}

// ------------------------------------------------------ agents and the oracle
#[derive(Clone, Copy, PartialEq)]
enum Kind { Send, Recv, SendRecv }
struct Spec {
    init: &'static str,
    /// (specification state, message class in the implementation's naming, sent by the client?, next state)
    trans: &'static [(&'static str, &'static str, bool, &'static str)],
    states: &'static [&'static str],
}
struct Agent {
    proto: &'static str,
    client: bool,
    methods: &'static [(&'static str, Kind)],
    msgs: &'static [&'static str],
    extra: &'static [&'static str],
    low_send: bool,
    low_recv: bool,
    spec: &'static Spec,
    exec: fn(&Runtime, Vec<Op>) -> Vec<Obs>,
}
/// implementation state class a specification state is represented by
fn impl_class(q: &str) -> &str { if q.starts_with("Busy") && q.len() > 4 { "Busy" } else { q } }

static BF: Spec = Spec { init: "Idle", states: &["Idle", "Busy", "Streaming", "Done"], trans: &[
    ("Idle", "RequestRange", true, "Busy"), ("Idle", "ClientDone", true, "Done"), ("Busy", "NoBlocks", false, "Idle"),
    ("Busy", "StartBatch", false, "Streaming"), ("Streaming", "Block", false, "Streaming"), ("Streaming", "BatchDone", false, "Idle")] };
static CS: Spec = Spec { init: "Idle", states: &["Idle", "CanAwait", "MustReply", "Intersect", "Done"], trans: &[
    ("Idle", "RequestNext", true, "CanAwait"), ("CanAwait", "AwaitReply", false, "MustReply"), ("CanAwait", "RollForward", false, "Idle"),
    ("CanAwait", "RollBackward", false, "Idle"), ("MustReply", "RollForward", false, "Idle"), ("MustReply", "RollBackward", false, "Idle"),
    ("Idle", "FindIntersect", true, "Intersect"), ("Intersect", "IntersectFound", false, "Idle"), ("Intersect", "IntersectNotFound", false, "Idle"),
    ("Idle", "Done", true, "Done")] };
static HS: Spec = Spec { init: "Propose", states: &["Propose", "Confirm", "Done"], trans: &[
    ("Propose", "Propose", true, "Confirm"), ("Confirm", "Accept", false, "Done"), ("Confirm", "Refuse", false, "Done"),
    ("Confirm", "QueryReply", false, "Done")] };
static KA: Spec = Spec { init: "Client", states: &["Client", "Server", "Done"], trans: &[
    ("Client", "KeepAlive", true, "Server"), ("Server", "ResponseKeepAlive", false, "Client"), ("Client", "Done", true, "Done")] };
static PS: Spec = Spec { init: "Idle", states: &["Idle", "Busy", "Done"], trans: &[
    ("Idle", "ShareRequest", true, "Busy"), ("Busy", "SharePeers", false, "Idle"), ("Idle", "Done", true, "Done")] };
// tx-submission: the client (initiator) owns the transactions
static TX: Spec = Spec { init: "Init", states: &["Init", "Idle", "TxIdsBlocking", "TxIdsNonBlocking", "Txs", "Done"], trans: &[
    ("Init", "Init", true, "Idle"), ("Idle", "RequestTxIds(true)", false, "TxIdsBlocking"), ("Idle", "RequestTxIds(false)", false, "TxIdsNonBlocking"),
    ("TxIdsBlocking", "ReplyTxIds", true, "Idle"), ("TxIdsNonBlocking", "ReplyTxIds", true, "Idle"), ("Idle", "RequestTxs", false, "Txs"),
    ("Txs", "ReplyTxs", true, "Idle"), ("TxIdsBlocking", "Done", true, "Done")] };
static LS: Spec = Spec { init: "Idle", states: &["Idle", "Acquiring", "Acquired", "Querying", "Done"], trans: &[
    ("Idle", "Acquire", true, "Acquiring"), ("Acquiring", "Failure", false, "Idle"), ("Acquiring", "Acquired", false, "Acquired"),
    ("Acquired", "Query", true, "Querying"), ("Querying", "Result", false, "Acquired"), ("Acquired", "ReAcquire", true, "Acquiring"),
    ("Acquired", "Release", true, "Idle"), ("Idle", "Done", true, "Done")] };
static LT: Spec = Spec { init: "Idle", states: &["Idle", "Busy", "Done"], trans: &[
    ("Idle", "SubmitTx", true, "Busy"), ("Busy", "AcceptTx", false, "Idle"), ("Busy", "RejectTx", false, "Idle"), ("Idle", "Done", true, "Done")] };
// tx-monitor: MsgAwaitAcquire is the wire message [1] (= Acquire) sent while Acquired
static TM: Spec = Spec { init: "Idle", states: &["Idle", "Acquiring", "Acquired", "BusyNextTx", "BusyHasTx", "BusyGetSizes", "Done"], trans: &[
    ("Idle", "Acquire", true, "Acquiring"), ("Acquiring", "Acquired", false, "Acquired"), ("Acquired", "Acquire", true, "Acquiring"),
    ("Acquired", "RequestNextTx", true, "BusyNextTx"), ("BusyNextTx", "ResponseNextTx", false, "Acquired"),
    ("Acquired", "RequestHasTx", true, "BusyHasTx"), ("BusyHasTx", "ResponseHasTx(true)", false, "Acquired"), ("BusyHasTx", "ResponseHasTx(false)", false, "Acquired"),
    ("Acquired", "RequestSizeAndCapacity", true, "BusyGetSizes"), ("BusyGetSizes", "ResponseSizeAndCapacity", false, "Acquired"),
    ("Acquired", "Release", true, "Idle"), ("Idle", "Done", true, "Done")] };

macro_rules! ex { ($f:ident) => { { fn run(rt: &Runtime, ops: Vec<Op>) -> Vec<Obs> { rt.block_on($f(ops)) } run } } }

fn agents() -> Vec<Agent> {
    use Kind::*;
    const BFM: &[&str] = &["RequestRange", "ClientDone", "StartBatch", "NoBlocks", "Block", "BatchDone"];
    const CSM: &[&str] = &["RequestNext", "AwaitReply", "RollForward", "RollBackward", "FindIntersect", "IntersectFound", "IntersectNotFound", "Done"];
    const HSM: &[&str] = &["Propose", "Accept", "Refuse", "QueryReply"];
    const KAM: &[&str] = &["KeepAlive", "ResponseKeepAlive", "Done"];
    const PSM: &[&str] = &["ShareRequest", "SharePeers", "Done"];
    const TXM: &[&str] = &["Init", "RequestTxIds(true)", "RequestTxIds(false)", "ReplyTxIds", "RequestTxs", "ReplyTxs", "Done"];
    const LSM: &[&str] = &["Acquire", "Failure", "Acquired", "Query", "Result", "ReAcquire", "Release", "Done"];
    const LTM: &[&str] = &["SubmitTx", "AcceptTx", "RejectTx", "Done"];
    const TMM: &[&str] = &["Acquire", "AwaitAcquire", "Acquired", "RequestHasTx", "RequestNextTx", "RequestSizeAndCapacity",
        "ResponseHasTx(true)", "ResponseHasTx(false)", "ResponseNextTx", "ResponseSizeAndCapacity", "Release", "Done"];
    vec![
        Agent { proto: "blockfetch", client: true, msgs: BFM, extra: &[], low_send: true, low_recv: true, spec: &BF, exec: ex!(exec_bf_client),
            methods: &[("send_request_range", Send), ("recv_while_busy", Recv), ("recv_while_streaming", Recv), ("send_done", Send)] },
        Agent { proto: "blockfetch", client: false, msgs: BFM, extra: &[], low_send: true, low_recv: true, spec: &BF, exec: ex!(exec_bf_server),
            methods: &[("send_start_batch", Send), ("send_no_blocks", Send), ("send_block", Send), ("send_batch_done", Send), ("recv_while_idle", Recv)] },
        Agent { proto: "chainsync", client: true, msgs: CSM, extra: &[], low_send: true, low_recv: true, spec: &CS, exec: ex!(exec_cs_client),
            methods: &[("send_find_intersect", Send), ("recv_intersect_response", Recv), ("send_request_next", Send), ("recv_while_can_await", Recv),
                       ("recv_while_must_reply", Recv), ("send_done", Send)] },
        Agent { proto: "chainsync", client: false, msgs: CSM, extra: &[], low_send: true, low_recv: false, spec: &CS, exec: ex!(exec_cs_server),
            methods: &[("recv_while_idle", Recv), ("send_intersect_not_found", Send), ("send_intersect_found", Send), ("send_roll_forward", Send),
                       ("send_roll_backward", Send), ("send_await_reply", Send)] },
        Agent { proto: "handshake", client: true, msgs: HSM, extra: &[], low_send: true, low_recv: true, spec: &HS, exec: ex!(exec_hs_client),
            methods: &[("send_propose", Send), ("recv_while_confirm", Recv)] },
        Agent { proto: "handshake", client: false, msgs: HSM, extra: &[], low_send: true, low_recv: true, spec: &HS, exec: ex!(exec_hs_server),
            methods: &[("receive_proposed_versions", Recv), ("accept_version", Send), ("refuse", Send)] },
        Agent { proto: "keepalive", client: true, msgs: KAM, extra: &["ResponseKeepAlive!cookie"], low_send: true, low_recv: true, spec: &KA, exec: ex!(exec_ka_client),
            methods: &[("send_keepalive_request", Send), ("recv_keepalive_response", Recv)] },
        Agent { proto: "keepalive", client: false, msgs: KAM, extra: &[], low_send: true, low_recv: true, spec: &KA, exec: ex!(exec_ka_server),
            methods: &[("recv_keepalive_request", Recv), ("send_keepalive_response", Send)] },
        Agent { proto: "peersharing", client: true, msgs: PSM, extra: &[], low_send: true, low_recv: true, spec: &PS, exec: ex!(exec_ps_client),
            methods: &[("send_share_request", Send), ("recv_peer_addresses", Recv), ("send_done", Send)] },
        Agent { proto: "peersharing", client: false, msgs: PSM, extra: &[], low_send: true, low_recv: true, spec: &PS, exec: ex!(exec_ps_server),
            methods: &[("recv_share_request", Recv), ("send_peer_addresses", Send)] },
        Agent { proto: "txsubmission", client: true, msgs: TXM, extra: &[], low_send: true, low_recv: true, spec: &TX, exec: ex!(exec_tx_client),
            methods: &[("send_init", Send), ("reply_tx_ids", Send), ("reply_txs", Send), ("next_request", Recv), ("send_done", Send)] },
        Agent { proto: "txsubmission", client: false, msgs: TXM, extra: &[], low_send: true, low_recv: true, spec: &TX, exec: ex!(exec_tx_server),
            methods: &[("wait_for_init", Recv), ("request_tx_ids_blocking", Send), ("request_tx_ids_non_blocking", Send), ("request_txs", Send),
                       ("receive_next_reply", Recv)] },
        Agent { proto: "localstate", client: true, msgs: LSM, extra: &[], low_send: true, low_recv: true, spec: &LS, exec: ex!(exec_ls_client),
            methods: &[("send_acquire", Send), ("send_reacquire", Send), ("send_release", Send), ("send_done", Send), ("recv_while_acquiring", Recv),
                       ("send_query", Send), ("recv_while_querying", Recv)] },
        Agent { proto: "localstate", client: false, msgs: LSM, extra: &[], low_send: true, low_recv: true, spec: &LS, exec: ex!(exec_ls_server),
            methods: &[("send_failure", Send), ("send_acquired", Send), ("send_result", Send), ("recv_while_idle", Recv), ("recv_while_acquired", Recv)] },
        Agent { proto: "localtxsubmission", client: true, msgs: LTM, extra: &[], low_send: false, low_recv: false, spec: &LT, exec: ex!(exec_lt_client),
            methods: &[("send_submit_tx", Send), ("recv_submit_tx_response", Recv), ("terminate_gracefully", Send)] },
        Agent { proto: "localtxsubmission", client: false, msgs: LTM, extra: &[], low_send: false, low_recv: false, spec: &LT, exec: ex!(exec_lt_server),
            methods: &[("send_submit_tx_response_accepted", Send), ("send_submit_tx_response_rejected", Send), ("recv_next_request", Recv)] },
        Agent { proto: "txmonitor", client: true, msgs: TMM, extra: &[], low_send: true, low_recv: true, spec: &TM, exec: ex!(exec_tm_client),
            methods: &[("acquire", SendRecv), ("query_has_tx", SendRecv), ("query_next_tx", SendRecv), ("query_size_and_capacity", SendRecv), ("release", Send)] },
    ]
}

impl Agent {
    fn role(&self) -> &'static str { if self.client { "client" } else { "server" } }
    fn deliverables(&self) -> Vec<String> { self.msgs.iter().chain(self.extra.iter()).map(|s| s.to_string()).collect() }
    fn alphabet(&self) -> Vec<Op> {
        let mut v = vec![];
        for (name, k) in self.methods {
            match k {
                Kind::Send => v.push(Op::Call(name, String::new())),
                _ => for d in self.deliverables() { v.push(Op::Call(name, d)); }
            }
        }
        if self.low_send { for m in self.msgs { v.push(Op::LowSend(m.to_string())); } }
        if self.low_recv { for d in self.deliverables() { v.push(Op::LowRecv(d)); } }
        v
    }
    fn kind(&self, name: &str) -> Kind { self.methods.iter().find(|(n, _)| *n == name).unwrap().1 }
    /// specification: may `client_sends` put message class m on the wire in q? -> next
    fn spec_ev(&self, q: &str, m: &str, client_sends: bool) -> Option<&'static str> {
        self.spec.trans.iter().find(|(f, mm, c, _)| *f == q && *mm == base(m) && *c == client_sends).map(|t| t.3)
    }
}

struct Ctx { oracle_only: bool, cases: u64, ops: u64 }

/// runs one operation sequence on a fresh rig, checks it against the specification, emits the case;
/// returns (observations, specification state after, all operations accepted and conforming)
fn run_case(cx: &mut Ctx, rt: &Runtime, ag: &Agent, tag: &str, ops: &[Op]) -> (Vec<Obs>, String, bool) {
    let obs = (ag.exec)(rt, ops.to_vec());
    let mut q: String = ag.spec.init.to_string();
    let mut prev: String = impl_class(ag.spec.init).to_string();
    let mut clean = true;
    let describe = |i: usize, what: String| {
        format!("agent={}/{} ops={} observed={} step={} : {}", ag.proto, ag.role(), coq_list(ops, op_term),
            coq_list(&obs, |o| format!("({},{:?},{},{})", o.ok, o.sent, o.state, o.err)), i, what)
    };
    let mut dead = false; // after a deviation the agent and the specification are out of step
    for (i, o) in obs.iter().enumerate() {
        cx.ops += 1;
        if dead { break; }
        let op = &ops[i];
        let keyp = |m: &str, kind: &str| format!("{}/{}/{}/{}/{}", ag.proto, ag.role(), prev, base(m), kind);
        let mut live = true;
        // message the agent put on the wire
        if !o.sent.is_empty() {
            match ag.spec_ev(&q, &o.sent, ag.client) {
                Some(n) => q = n.to_string(),
                None => { emit_oracle_fail(&keyp(&o.sent, "send"), &describe(i, format!("put {} on the wire in specification state {} where this role may not send it", o.sent, q))); live = false; }
            }
        }
        // message the agent accepted from the peer
        let delivered = match op { Op::Call(n, d) if ag.kind(n) != Kind::Send => Some(d.clone()), Op::LowRecv(d) => Some(d.clone()), _ => None };
        if live && o.ok {
            if let Some(d) = &delivered {
                match ag.spec_ev(&q, d, !ag.client) {
                    Some(n) => q = n.to_string(),
                    None => { emit_oracle_fail(&keyp(d, "recv"), &describe(i, format!("accepted {} in specification state {} where the peer may not send it", d, q))); live = false; }
                }
            }
        }
        match op {
            Op::Call(n, _) => {
                if live && o.ok && o.state != impl_class(&q) {
                    let m = if let Some(d) = &delivered { d.clone() } else { o.sent.clone() };
                    emit_oracle_fail(&keyp(&m, "next"), &describe(i, format!("{} accepted; state() = {} but the specification prescribes {}", n, o.state, q)));
                    live = false;
                }
                if !o.ok && o.sent.is_empty() && o.state != prev {
                    emit_oracle_fail(&keyp(delivered.as_deref().unwrap_or(""), "reject"), &describe(i, format!("{} rejected but state() changed {} -> {}", n, prev, o.state)));
                    live = false;
                }
                if o.ok && o.sent.is_empty() && delivered.is_none() && o.state != prev {
                    emit_oracle_fail(&keyp("", "reject"), &describe(i, format!("{} returned Ok without any exchange but state() changed {} -> {}", n, prev, o.state)));
                    live = false;
                }
            }
            Op::LowSend(m) => {
                // exactness: rejected although permitted
                if !o.ok && ag.spec_ev(&q, m, ag.client).is_some() {
                    emit_oracle_fail(&keyp(m, "send"), &describe(i, format!("send_message({}) rejected ({}) although the specification lets this role send it in {}", m, o.err, q)));
                    live = false;
                }
            }
            Op::LowRecv(d) => {
                if !o.ok && ag.spec_ev(&q, d, !ag.client).is_some() {
                    emit_oracle_fail(&keyp(d, "recv"), &describe(i, format!("recv_message() rejected {} ({}) although the peer may send it in {}", d, o.err, q)));
                    live = false;
                }
            }
        }
        if !live { dead = true; }
        if !live || !o.ok { clean = false; }
        prev = o.state.clone();
    }
    if !cx.oracle_only {
        emit_case(&format!("{}-{}:{}", ag.proto, ag.role(), tag), &format!("Case23 \"{}\" \"{}\" {} {}", ag.proto, ag.role(),
            coq_list(ops, op_term), coq_list(&obs, |o| format!("({},\"{}\",\"{}\")", coq_bool(o.ok), o.sent, o.state))));
        cx.cases += 1;
    }
    let all = clean && obs.len() == ops.len();
    (obs, q, all)
}

/// every operation from every reached (agent state, specification state); completeness at each
fn explore(cx: &mut Ctx, rt: &Runtime, ag: &Agent) {
    let alphabet = ag.alphabet();
    let mut seen: HashSet<(String, String)> = HashSet::new();
    let mut queue: VecDeque<(Vec<Op>, String, String)> = VecDeque::new();
    seen.insert((impl_class(ag.spec.init).to_string(), ag.spec.init.to_string()));
    queue.push_back((vec![], impl_class(ag.spec.init).to_string(), ag.spec.init.to_string()));
    while let Some((prefix, s, q)) = queue.pop_front() {
        let mut performed: HashSet<String> = HashSet::new();
        for op in &alphabet {
            let mut ops = prefix.clone();
            ops.push(op.clone());
            let (obs, q2, all) = run_case(cx, rt, ag, "explore", &ops);
            if obs.len() == ops.len() {
                let o = obs.last().unwrap();
                if o.ok {
                    if !o.sent.is_empty() { performed.insert(base(&o.sent).to_string()); }
                    match op { Op::Call(n, d) if ag.kind(n) != Kind::Send => { performed.insert(base(d).to_string()); } Op::LowRecv(d) => { performed.insert(base(d).to_string()); } _ => {} }
                }
                if all && matches!(op, Op::Call(..)) && seen.insert((o.state.clone(), q2.clone())) {
                    queue.push_back((ops.clone(), o.state.clone(), q2));
                }
            }
        }
        for (f, m, _, _) in ag.spec.trans.iter().filter(|t| t.0 == q) {
            if !performed.contains(*m) {
                emit_oracle_fail(&format!("{}/{}/{}/{}/method", ag.proto, ag.role(), s, m),
                    &format!("agent={}/{} after ops={} (state {}, specification state {}): no public operation performs the transition {} --{}--> that the specification offers",
                        ag.proto, ag.role(), coq_list(&prefix, op_term), s, f, f, m));
            }
        }
    }
    emit_stat(&format!("{}_{}_product_states", ag.proto, ag.role()), seen.len() as u64);
}

/// all sequences of calls to a depth (accepted prefixes are extended), every operation at the leaves
fn sequences(cx: &mut Ctx, rt: &Runtime, ag: &Agent, prefix: &mut Vec<Op>, depth: usize, budget: &mut i64) {
    for op in ag.alphabet() {
        if *budget <= 0 { return; }
        prefix.push(op.clone());
        let (obs, _q, all) = run_case(cx, rt, ag, "sequences", prefix);
        *budget -= 1;
        if all && obs.len() == prefix.len() && matches!(op, Op::Call(..)) && prefix.len() < depth {
            sequences(cx, rt, ag, prefix, depth, budget);
        }
        prefix.pop();
    }
}

fn random_walk(cx: &mut Ctx, rt: &Runtime, ag: &Agent, r: &mut Rng) {
    // follow the specification most of the time so that long accepted runs happen
    let len = r.range(2, 14) as usize;
    let mut ops: Vec<Op> = vec![];
    let mut q = ag.spec.init.to_string();
    for _ in 0..len {
        let allowed: Vec<&(&str, &str, bool, &str)> = ag.spec.trans.iter().filter(|t| t.0 == q).collect();
        let mut pick: Option<Op> = None;
        if !allowed.is_empty() && r.chance(9, 10) {
            let t = *r.pick(&allowed);
            // an operation that carries t.1
            let cands: Vec<Op> = ag.alphabet().into_iter().filter(|o| match o {
                Op::Call(n, d) => match ag.kind(n) { Kind::Send => false, _ => t.2 != ag.client && base(d) == t.1 },
                _ => false,
            }).collect();
            let sends: Vec<Op> = ag.methods.iter().filter(|(_, k)| *k != Kind::Recv).map(|(n, k)| Op::Call(n, if *k == Kind::SendRecv { String::new() } else { String::new() })).collect();
            if t.2 == ag.client && !sends.is_empty() { pick = Some(r.pick(&sends).clone()); }
            else if !cands.is_empty() { pick = Some(r.pick(&cands).clone()); }
            if pick.is_some() { q = t.3.to_string(); }
        }
        let op = pick.unwrap_or_else(|| r.pick(&ag.alphabet()).clone());
        // composite calls need the reply delivered up front
        let op = match &op { Op::Call(n, d) if ag.kind(n) == Kind::SendRecv && d.is_empty() => Op::Call(n, r.pick(&ag.deliverables()).clone()), _ => op };
        let last = !matches!(op, Op::Call(..));
        ops.push(op);
        if last { break; }
    }
    run_case(cx, rt, ag, "random-walk", &ops);
}

fn main() {
    let args = args();
    let mut r = Rng::new(args.seed);
    let thorough = args.tier == "thorough";
    let rt = tokio::runtime::Builder::new_current_thread().enable_all().build().expect("runtime");
    let mut cx = Ctx { oracle_only: args.oracle_only, cases: 0, ops: 0 };
    let ags = agents();
    for ag in &ags {
        // the oracle's own table, cross-checked with Spec.v inside Coq
        if !cx.oracle_only {
            for q in ag.spec.states { for m in ag.msgs { for client_sends in [true, false] {
                let nx = ag.spec_ev(q, m, client_sends).map(|s| format!("\"{}\"", s));
                emit_case(&format!("{}-{}:oracle-table", ag.proto, ag.role()), &format!("CSpec23 \"{}\" \"{}\" \"{}\" \"{}\" {} {}",
                    ag.proto, ag.role(), q, m, coq_bool(client_sends == ag.client), coq_opt(&nx, |x| x.clone())));
            } } }
        }
        explore(&mut cx, &rt, ag);
        let depth = if thorough { 4 } else { 2 };
        let mut budget: i64 = if thorough { 6000 } else { 150 };
        sequences(&mut cx, &rt, ag, &mut Vec::new(), depth, &mut budget);
        let walks = (args.n / ags.len()).max(1);
        for _ in 0..walks { random_walk(&mut cx, &rt, ag, &mut r); }
    }
    emit_stat("operations_oracle", cx.ops);
    emit_sample("Case23 \"keepalive\" \"server\" [Call \"recv_keepalive_request\" \"KeepAlive\"; Call \"send_keepalive_response\" \"\"] -> [(true,\"\",\"Server\"); (true,\"ResponseKeepAlive\",\"Client\")]");
}
