(* Base58 (Bitcoin alphabet) as crate base58 0.2.0 implements it ("works only up
   to 128 bytes": the decoder has a fixed 132-byte buffer), executable Gallina.
   Definitions only; proofs in Base58Proofs.v.

   to_base58: count leading zero bytes z; convert the rest to base 58 in a buffer
   of (len - z) * 138 / 100 + 1 digits; skip the buffer's leading zero digits; emit
   z times '1' and the remaining digits.
   from_base58: z = number of leading '1'; every further byte must be < 0x80 and a
   base58 digit; the number is accumulated in 33 u32 words and an overflow out of
   the top word is InvalidBase58Length; the 132 bytes are written big-endian and
   the result is bin[leading_zeros - z ..]  -- which PANICS (subtraction overflow)
   when there are more leading '1' than leading zero bytes. *)
From PV Require Import Lib.Base C18.Bech32.
Open Scope Z_scope.

(* "123456789ABCDEFGHJKLMNPQRSTUVWXYZabcdefghijkmnopqrstuvwxyz" *)
Definition alphabet : list Z :=
  [49;50;51;52;53;54;55;56;57;65;66;67;68;69;70;71;72;74;75;76;77;78;80;81;82;83;84;85;86;87;88;89;90;
   97;98;99;100;101;102;103;104;105;106;107;109;110;111;112;113;114;115;116;117;118;119;120;121;122].
Definition b58_char (d : Z) : Z := nth (Z.to_nat d) alphabet 0.
Definition b58_digit (c : Z) : option Z := index_of c alphabet 0.

Fixpoint count_leading (x : Z) (l : list Z) : nat :=
  match l with
  | c :: r => if c =? x then S (count_leading x r) else O
  | [] => O
  end.
Fixpoint strip_leading (x : Z) (l : list Z) : list Z :=
  match l with
  | c :: r => if c =? x then strip_leading x r else l
  | [] => []
  end.

Definition b58_encode (bs : list Z) : list Z :=
  let z := count_leading 0 bs in
  let rest := skipn z bs in
  let size := blen rest * 138 / 100 + 1 in
  let buffer := digits 58 (Z.to_nat size) (val 256 rest) in
  repeat 49 z ++ map b58_char (strip_leading 0 buffer).

Definition E_B58 : Z := 13.   (* Error::BadBase58 *)
Definition P_SUB : Z := 2.    (* attempt to subtract with overflow *)
Definition two1056 : Z := 2 ^ 1056.

Definition b58_decode (s : list Z) : outcome (list Z) :=
  let z := count_leading 49 s in
  match map_opt b58_digit (skipn z s) with
  | None => Err E_B58                       (* InvalidBase58Character *)
  | Some ds =>
      let n := val 58 ds in
      if n >=? two1056 then Err E_B58       (* InvalidBase58Length *)
      else
        let bin := digits 256 132 n in
        let lz := count_leading 0 bin in
        if (lz <? z)%nat then Panic P_SUB
        else Ok (skipn (lz - z) bin)
  end.

(* pallas-addresses byron.rs decode_base58 (commit 9d404b24): the digits behind the
   leading '1's are decoded on their own (so the crate never sees a leading '1'
   and cannot hit its subtraction overflow), the zero bytes are put back in
   front, and more than 132 bytes in total is InvalidBase58Length. *)
Definition pallas_decode_base58 (s : list Z) : outcome (list Z) :=
  let zeros := count_leading 49 s in
  match b58_decode (skipn zeros s) with
  | Ok ds => if (132 <? zeros + length ds)%nat then Err E_B58 else Ok (repeat 0 zeros ++ ds)
  | Err e => Err e
  | Panic p => Panic p
  end.
