(* C06 proofs, part 2: fields, array structs, flat / index-only enums, and the schema law. *)
From PV Require Import Lib.Base Cbor.Item Cbor.Enc Cbor.Dec Cbor.HeadLaws Cbor.Laws Cbor.Api C06.Model C06.Leaves.
Open Scope Z_scope.

Lemma field_ok f v r :
  codec_ok (snd f) -> field_ty f v ->
  dec_field f (enc_field f v ++ r) = DOk (v, r) /\ enc_field f v <> [].
Proof.
  intros Hc Hty. unfold dec_field, enc_field, field_ty in *. destruct (fst f).
  - destruct Hty as [-> | (x & -> & Hx)].
    + split; [reflexivity|discriminate].
    + destruct (Hc x r Hx) as (Hd & (t & Ht & Hn) & Hne). unfold d_option.
      rewrite Ht. cbn [dbind]. rewrite Hn, Hd. cbn [dbind]. split; [reflexivity|exact Hne].
  - destruct (Hc v r Hty) as (Hd & _ & Hne). split; assumption.
Qed.

Lemma live_len_cons f fs v vs :
  live_len (f :: fs) (v :: vs) = O \/ live_len (f :: fs) (v :: vs) = S (live_len fs vs).
Proof. cbn [live_len]. destruct (live_len fs vs); [destruct (is_nil f v); auto|auto]. Qed.

Lemma live_len_le fs : forall vs, (live_len fs vs <= length fs)%nat.
Proof.
  induction fs as [|f fs IH]; intros [|v vs]; cbn [live_len length]; try lia.
  specialize (IH vs). destruct (live_len fs vs); [destruct (is_nil f v); lia|lia].
Qed.

Lemma live_len_zero fs vs :
  Forall2 field_ty fs vs -> live_len fs vs = O ->
  forallb fst fs = true /\ vs = map (fun _ => VNone) fs.
Proof.
  induction 1 as [|f v fs vs Hty _ IH]; [auto|].
  cbn [live_len]. destruct (live_len fs vs) eqn:E; [|discriminate].
  destruct (is_nil f v) eqn:En; [|discriminate]. intros _.
  destruct (IH eq_refl) as [Hall ->]. unfold is_nil in En.
  apply andb_true_iff in En as [Hf Hv]. destruct v; try discriminate.
  cbn [forallb map]. rewrite Hf, Hall. auto.
Qed.

Lemma dec_fields_nil_tail fs r :
  forallb fst fs = true -> dec_fields fs 0 r = DOk (map (fun _ => VNone) fs, r).
Proof.
  induction fs as [|f fs IH]; cbn [dec_fields forallb map].
  - intros _. unfold budget. cbn [seq_loop]. reflexivity.
  - intros H. apply andb_true_iff in H as [Hf Hall]. rewrite Hf, (IH Hall). reflexivity.
Qed.

Lemma dec_fields_ok fs :
  Forall (fun f => codec_ok (snd f)) fs ->
  forall vs r, Forall2 field_ty fs vs ->
    dec_fields fs (Z.of_nat (live_len fs vs)) (enc_fields (live_len fs vs) fs vs ++ r) = DOk (vs, r).
Proof.
  induction 1 as [|f fs Hf _ IH]; intros vs r Hty.
  - inversion Hty; subst. cbn [live_len enc_fields dec_fields app]. unfold budget. cbn [seq_loop]. reflexivity.
  - destruct vs as [|v vs']; [inversion Hty|].
    assert (Hfv : field_ty f v) by (inversion Hty; assumption).
    assert (Hrest : Forall2 field_ty fs vs') by (inversion Hty; assumption).
    pose proof (live_len_cons f fs v vs') as E. unfold field in E. destruct E as [E|E]; rewrite E.
    + destruct (live_len_zero _ _ Hty E) as [Hall ->].
      cbn [enc_fields app]. apply (dec_fields_nil_tail (f :: fs) r Hall).
    + cbn [enc_fields dec_fields]. destruct (Z.of_nat (S (live_len fs vs')) <=? 0) eqn:En; [lia|].
      rewrite <- app_assoc. destruct (field_ok f v (enc_fields (live_len fs vs') fs vs' ++ r) Hf Hfv) as [Hd _].
      rewrite Hd. cbn [dbind].
      replace (Z.of_nat (S (live_len fs vs')) - 1) with (Z.of_nat (live_len fs vs')) by lia.
      rewrite (IH vs' r Hrest). reflexivity.
Qed.

Lemma dec_fields_full fs :
  Forall (fun f => codec_ok (snd f)) fs ->
  forall vs r, Forall2 field_ty fs vs ->
    dec_fields fs (Z.of_nat (length fs)) (enc_fields (length fs) fs vs ++ r) = DOk (vs, r).
Proof.
  induction 1 as [|f fs Hf _ IH]; intros vs r Hty.
  - inversion Hty; subst. cbn [length enc_fields dec_fields app]. unfold budget. cbn [seq_loop]. reflexivity.
  - destruct vs as [|v vs']; [inversion Hty|].
    assert (Hfv : field_ty f v) by (inversion Hty; assumption).
    assert (Hrest : Forall2 field_ty fs vs') by (inversion Hty; assumption).
    cbn [length enc_fields dec_fields]. destruct (Z.of_nat (S (length fs)) <=? 0) eqn:En; [lia|].
    rewrite <- app_assoc. destruct (field_ok f v (enc_fields (length fs) fs vs' ++ r) Hf Hfv) as [Hd _].
    rewrite Hd. cbn [dbind].
    replace (Z.of_nat (S (length fs)) - 1) with (Z.of_nat (length fs)) by lia.
    rewrite (IH vs' r Hrest). reflexivity.
Qed.

Lemma e_array_head n e r :
  0 <= n < u64_max1 -> d_array (e_array n ++ e ++ r) = DOk (Some n, e ++ r) /\ not_null (e_array n ++ e) r /\
  e_array n ++ e <> [].
Proof.
  intros Hn. unfold e_array, enc_head_min, d_array, u64_max1 in *.
  assert (Hfit : arg_fits (min_width n) n) by (apply min_width_fits; lia).
  rewrite d_len_enc by exact Hfit. split; [reflexivity|].
  split; [apply head_not_null; [exact Hfit|cbn; lia]|].
  intros E. apply app_eq_nil in E as [E _]. exact (enc_head_nonempty _ _ _ E).
Qed.

Lemma c_struct_ok fs :
  len fs < 65536 -> Forall (fun f => codec_ok (snd f)) fs -> codec_ok (c_struct fs).
Proof.
  intros Hlen Hfs v r (vs & -> & Hty). cbn [c_dec c_enc c_ty c_struct]. unfold enc_struct, dec_struct. cbv zeta.
  pose proof (live_len_le fs vs) as Hle. unfold len in Hlen. unfold field in *.
  destruct (e_array_head (Z.of_nat (live_len fs vs)) (enc_fields (live_len fs vs) fs vs) r) as (Ha & Hnn & Hne);
    [unfold u64_max1; lia|].
  rewrite <- app_assoc, Ha. cbn [dbind]. rewrite (dec_fields_ok fs Hfs vs r Hty). cbn [dbind].
  split; [reflexivity|]. split; assumption.
Qed.

Lemma c_flat_ok arms :
  Forall (fun a => len (snd a) < 65536 /\ Forall (fun f => codec_ok (snd f)) (snd a)) arms ->
  codec_ok (c_flat arms).
Proof.
  intros Harms v r (idx & vs & fs & -> & Hfind & Hty & Hidx).
  assert (Hfs : len fs < 65536 /\ Forall (fun f => codec_ok (snd f)) fs).
  { clear Hty. induction arms as [|[i fs'] t IH]; [discriminate|]. cbn [find_arm] in Hfind.
    inversion Harms; subst. destruct (i =? idx); [inversion Hfind; subst; assumption|auto]. }
  destruct Hfs as [Hlen Hfs].
  cbn [c_dec c_enc c_ty c_flat]. unfold enc_flat, dec_flat. rewrite Hfind. cbv zeta.
  unfold len in Hlen. unfold field in *.
  destruct (e_array_head (1 + Z.of_nat (length fs)) (e_int idx ++ enc_fields (length fs) fs vs) r)
    as (Ha & Hnn & Hne); [unfold u64_max1; lia|].
  rewrite <- !app_assoc in *. rewrite Ha. cbn [dbind].
  destruct (1 + Z.of_nat (length fs) =? 0) eqn:E0; [lia|].
  unfold i64_half in Hidx. rewrite e_int_d_i64 by lia. cbn [dbind]. rewrite Hfind.
  replace (1 + Z.of_nat (length fs) - 1) with (Z.of_nat (length fs)) by lia.
  rewrite (dec_fields_full fs Hfs vs r Hty). cbn [dbind].
  split; [reflexivity|]. split; assumption.
Qed.

Lemma c_index_ok idxs : codec_ok (c_index idxs).
Proof.
  intros v r (idx & -> & Hin & Hidx). cbn [c_dec c_enc c_ty c_index]. unfold enc_index, dec_index.
  unfold i64_half in Hidx. rewrite e_int_d_i64 by lia. cbn [dbind].
  assert (He : existsb (Z.eqb idx) idxs = true) by (apply existsb_exists; exists idx; split; [exact Hin|apply Z.eqb_refl]).
  rewrite He. split; [reflexivity|].
  unfold e_int, enc_head_min. destruct (0 <=? idx) eqn:E.
  - assert (Hfit : arg_fits (min_width idx) idx) by (apply min_width_fits; lia).
    split; [apply head_not_null0; [exact Hfit|cbn; lia]|apply enc_head_nonempty].
  - assert (Hfit : arg_fits (min_width (-1 - idx)) (-1 - idx)) by (apply min_width_fits; lia).
    split; [apply head_not_null0; [exact Hfit|cbn; lia]|apply enc_head_nonempty].
Qed.

