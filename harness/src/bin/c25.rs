//! C25: handshake negotiation of both responders.
//! case := (stack, responder table, proposed table, reply sent)
//!   stack 0: pallas-network  handshake::Server::handshake, driven against the real
//!            handshake::Client over a UnixStream pair through two Plexers
//!   stack 1: pallas-network2 ResponderBehavior, fed Connected + Recv(Propose)
//!            through its public Behavior API
//! Oracle (independent of the Coq model, BTreeMap arithmetic): an Accept names a
//! version offered by both sides, no higher version is offered by both, the
//! accepted data is the responder's and agrees with the proposer's on the
//! network magic; disjoint tables are refused with VersionMismatch listing
//! exactly the responder's versions.
use futures::StreamExt;
use pallas_network::miniprotocols::handshake as h1;
use pallas_network::multiplexer::{Bearer, Plexer};
use pallas_network2::behavior::responder::handshake::{HandshakeResponder, HandshakeResponderConfig};
use pallas_network2::behavior::responder::{ResponderBehavior, ResponderEvent};
use pallas_network2::behavior::AnyMessage;
use pallas_network2::protocol::handshake as h2;
use pallas_network2::{Behavior, BehaviorOutput, InterfaceCommand, InterfaceEvent, PeerId};
use std::collections::{BTreeMap, HashMap};
use verif_harness::*;

/// (network_magic, initiator_only_diffusion_mode, peer_sharing, query)
type Data = (u64, bool, Option<u8>, Option<bool>);
type Table = Vec<(u64, Data)>;

#[derive(Clone, Debug, PartialEq)]
enum Reply { Accept(u64, Data), Refused(u64), Mismatch(Vec<u64>), Other(String) }

fn coq_data(d: &Data) -> String {
    format!("({},{},{},{})", d.0, coq_bool(d.1), coq_opt(&d.2, |x| x.to_string()), coq_opt(&d.3, |x| coq_bool(*x).to_string()))
}
fn coq_table(t: &Table) -> String { coq_list(t, |(k, d)| format!("({},{})", k, coq_data(d))) }
fn coq_reply(r: &Reply) -> String {
    match r {
        Reply::Accept(v, d) => format!("(Accept {} {})", v, coq_data(d)),
        Reply::Refused(v) => format!("(Refused {})", v),
        Reply::Mismatch(l) => format!("(Mismatch {})", coq_list(l, |x| x.to_string())),
        Reply::Other(_) => "(Refused (-1))".into(),
    }
}

// ---------------- old stack ----------------
fn d1(d: &Data) -> h1::n2n::VersionData { h1::n2n::VersionData::new(d.0, d.1, d.2, d.3) }
fn from_d1(d: &h1::n2n::VersionData) -> Data { (d.network_magic, d.initiator_only_diffusion_mode, d.peer_sharing, d.query) }
fn t1(t: &Table) -> h1::n2n::VersionTable {
    h1::VersionTable { values: t.iter().map(|(k, d)| (*k, d1(d))).collect::<HashMap<_, _>>() }
}

/// returns (reply seen on the wire by the client, value returned by Server::handshake)
async fn run_old(server: &Table, client: &Table) -> Result<(Reply, Option<(u64, Data)>), String> {
    let (a, b) = tokio::net::UnixStream::pair().map_err(|e| format!("socketpair: {}", e))?;
    let mut sp = Plexer::new(Bearer::Unix(a));
    let mut cp = Plexer::new(Bearer::Unix(b));
    let sch = sp.subscribe_server(0);
    let cch = cp.subscribe_client(0);
    let srun = sp.spawn();
    let crun = cp.spawn();
    let st = t1(server);
    let ct = t1(client);
    let sj = tokio::spawn(async move {
        let mut s = h1::N2NServer::new(sch);
        let r = s.handshake(st).await;
        (r.map_err(|e| format!("{:?}", e)), s.is_done())
    });
    let cj = tokio::spawn(async move {
        let mut c = h1::N2NClient::new(cch);
        c.handshake(ct).await.map_err(|e| format!("{:?}", e))
    });
    let both = tokio::time::timeout(std::time::Duration::from_secs(20), async { (sj.await, cj.await) }).await;
    srun.abort().await;
    crun.abort().await;
    let (sr, cr) = both.map_err(|_| "timeout: handshake did not complete in 20 s".to_string())?;
    let (sres, sdone) = sr.map_err(|e| format!("server task panicked: {}", e))?;
    let cres = cr.map_err(|e| format!("client task panicked: {}", e))?;
    let sres = sres.map_err(|e| format!("server error: {}", e))?;
    let cres = cres.map_err(|e| format!("client error: {}", e))?;
    if !sdone { return Err("server not in Done state after handshake()".into()); }
    let reply = match cres {
        h1::Confirmation::Accepted(v, d) => Reply::Accept(v, from_d1(&d)),
        h1::Confirmation::Rejected(h1::RefuseReason::Refused(v, _)) => Reply::Refused(v),
        h1::Confirmation::Rejected(h1::RefuseReason::VersionMismatch(l)) => Reply::Mismatch(l),
        other => Reply::Other(format!("{:?}", other)),
    };
    Ok((reply, sres.map(|(v, d)| (v, from_d1(&d)))))
}

// ---------------- new stack ----------------
fn d2(d: &Data) -> h2::n2n::VersionData { h2::n2n::VersionData::new(d.0, d.1, d.2, d.3) }
fn from_d2(d: &h2::n2n::VersionData) -> Data { (d.network_magic, d.initiator_only_diffusion_mode, d.peer_sharing, d.query) }
fn t2(t: &Table) -> h2::n2n::VersionTable {
    h2::VersionTable { values: t.iter().map(|(k, d)| (*k, d2(d))).collect::<HashMap<_, _>>() }
}
fn drain(b: &mut ResponderBehavior) -> Vec<BehaviorOutput<ResponderBehavior>> {
    let mut outputs = Vec::new();
    let waker = futures::task::noop_waker();
    let mut cx = std::task::Context::from_waker(&waker);
    while let std::task::Poll::Ready(Some(o)) = b.poll_next_unpin(&mut cx) { outputs.push(o); }
    outputs
}

/// returns (reply sent, PeerInitialized payload if emitted, is_initialized())
fn run_new(supported: &Table, proposed: &Table) -> Result<(Reply, Option<(u64, Data)>, bool), String> {
    let mut b = ResponderBehavior::default();
    b.handshake = HandshakeResponder::new(HandshakeResponderConfig { supported_version: t2(supported) });
    let pid = PeerId { host: "10.0.0.7".into(), port: 3001 };
    b.handle_io(InterfaceEvent::Connected(pid.clone()));
    let pre = drain(&mut b);
    if pre.iter().any(|o| matches!(o, BehaviorOutput::InterfaceCommand(InterfaceCommand::Disconnect(_)))) {
        return Err("responder disconnected a fresh peer".into());
    }
    b.handle_io(InterfaceEvent::Recv(pid.clone(), vec![AnyMessage::Handshake(h2::Message::Propose(t2(proposed)))]));
    let outs = drain(&mut b);
    let mut replies = vec![];
    let mut init = None;
    for o in &outs {
        match o {
            BehaviorOutput::InterfaceCommand(InterfaceCommand::Send(p, AnyMessage::Handshake(m))) if *p == pid => replies.push(match m {
                h2::Message::Accept(v, d) => Reply::Accept(*v, from_d2(d)),
                h2::Message::Refuse(h2::RefuseReason::Refused(v, _)) => Reply::Refused(*v),
                h2::Message::Refuse(h2::RefuseReason::VersionMismatch(l)) => Reply::Mismatch(l.clone()),
                other => Reply::Other(format!("{:?}", other)),
            }),
            BehaviorOutput::ExternalEvent(ResponderEvent::PeerInitialized(p, (v, d))) if *p == pid => init = Some((*v, from_d2(d))),
            _ => {}
        }
    }
    if replies.len() != 1 { return Err(format!("expected exactly one handshake reply, got {:?}", replies)); }
    let initialized = b.peers.get(&pid).map(|s| s.is_initialized()).unwrap_or(false);
    Ok((replies.pop().unwrap(), init, initialized))
}

// ---------------- oracle ----------------
fn oracle(stack: u8, server: &Table, client: &Table, reply: &Reply, confirmed: &Option<(u64, Data)>, initialized: Option<bool>) {
    let s: BTreeMap<u64, Data> = server.iter().cloned().collect();
    let c: BTreeMap<u64, Data> = client.iter().cloned().collect();
    let top = s.keys().rev().find(|k| c.contains_key(k)).copied();
    let ctx = format!("stack={} responder={} proposed={} reply={:?}", if stack == 0 { "pallas-network" } else { "pallas-network2" }, coq_table(server), coq_table(client), reply);
    let key = |k: &str| format!("{}-{}", if stack == 0 { "old" } else { "new" }, k);
    match reply {
        Reply::Accept(v, d) => {
            if !s.contains_key(v) || !c.contains_key(v) {
                emit_oracle_fail(&key("accept-not-common"), &format!("{} : version {} is not offered by both sides", ctx, v));
            } else {
                if Some(*v) != top { emit_oracle_fail(&key("accept-not-highest"), &format!("{} : highest common version is {:?}", ctx, top)); }
                if s[v].0 != c[v].0 || d.0 != s[v].0 {
                    emit_oracle_fail(&key("accept-magic-differs"), &format!("{} : magics at version {}: responder {} proposer {} accepted {}", ctx, v, s[v].0, c[v].0, d.0));
                }
                if *d != s[v] { emit_oracle_fail(&key("accept-data-not-ours"), &format!("{} : accepted data differs from the responder's entry {:?}", ctx, s[v])); }
            }
            if confirmed.as_ref() != Some(&(*v, *d)) {
                emit_oracle_fail(&key("accept-not-reported"), &format!("{} : responder-side result is {:?}", ctx, confirmed));
            }
            if initialized == Some(false) { emit_oracle_fail(&key("accept-not-initialized"), &format!("{} : peer not Initialized after Accept", ctx)); }
        }
        other => {
            if top.is_none() {
                match other {
                    Reply::Mismatch(l) => {
                        let mut l2 = l.clone();
                        l2.sort();
                        let own: Vec<u64> = s.keys().copied().collect();
                        if l2 != own { emit_oracle_fail(&key("mismatch-wrong-versions"), &format!("{} : responder's versions are {:?}", ctx, own)); }
                    }
                    _ => emit_oracle_fail(&key("disjoint-not-version-mismatch"), &format!("{} : tables are disjoint", ctx)),
                }
            }
            if confirmed.is_some() { emit_oracle_fail(&key("refuse-but-reported-accepted"), &format!("{} : responder-side result is {:?}", ctx, confirmed)); }
            if initialized == Some(true) { emit_oracle_fail(&key("refuse-but-initialized"), &format!("{} : peer Initialized after a refusal", ctx)); }
            if let Reply::Other(x) = other { emit_oracle_fail(&key("unexpected-reply"), &format!("{} : {}", ctx, x)); }
        }
    }
}

// ---------------- generators ----------------
const MAGICS: [u64; 5] = [764824073, 1, 2, 0, u64::MAX];
fn data(rng: &mut Rng) -> Data {
    let m = if rng.chance(2, 3) { MAGICS[0] } else { *rng.pick(&MAGICS) };
    if rng.bool() { (m, rng.bool(), None, None) } else { (m, rng.bool(), Some(rng.below(3) as u8), Some(rng.bool())) }
}
/// change one aspect of the data (what exactly decides which stack still accepts)
fn perturb(rng: &mut Rng, d: &Data) -> (Data, &'static str) {
    match rng.below(4) {
        0 => ((if d.0 == 1 { 2 } else { 1 }, d.1, d.2, d.3), "magic"),
        1 => ((d.0, !d.1, d.2, d.3), "diffusion-mode"),
        2 => match d.2 { Some(p) => ((d.0, d.1, Some(p ^ 1), d.3), "peer-sharing"), None => ((d.0, d.1, Some(1), Some(false)), "shape") },
        _ => match d.3 { Some(q) => ((d.0, d.1, d.2, Some(!q)), "query"), None => ((d.0 ^ 0x10, d.1, d.2, d.3), "magic") },
    }
}
fn universe(rng: &mut Rng) -> Vec<u64> {
    let mut u: Vec<u64> = match rng.below(4) {
        0 => (7..=15).collect(),
        1 => (0..24).collect(),
        2 => { let mut v: Vec<u64> = (5..18).collect(); v.extend([u64::MAX, u64::MAX - 1, 1 << 32, 1 << 63, 255, 256, 65535, 65536]); v }
        _ => (0..40).map(|_| rng.below(64)).collect(),
    };
    u.sort();
    u.dedup();
    for i in (1..u.len()).rev() { let j = rng.below(i as u64 + 1) as usize; u.swap(i, j); }
    u
}
fn shuffle<T>(rng: &mut Rng, v: &mut Vec<T>) { for i in (1..v.len()).rev() { let j = rng.below(i as u64 + 1) as usize; v.swap(i, j); } }

fn gen(rng: &mut Rng) -> (Table, Table, String) {
    let u = universe(rng);
    let base: HashMap<u64, Data> = { let d = data(rng); u.iter().map(|k| (*k, if rng.chance(3, 4) { d } else { data(rng) })).collect() };
    let ns = rng.below(17) as usize;
    let nc = rng.below(17) as usize;
    let pick = |rng: &mut Rng, n: usize, from: &[u64]| -> Vec<u64> { let mut f = from.to_vec(); shuffle(rng, &mut f); f.truncate(n); f };
    let shape = rng.below(8);
    let (mut s, mut c, tag): (Table, Table, String);
    match shape {
        0 => {
            let ks = pick(rng, ns.max(1), &u);
            s = ks.iter().map(|k| (*k, base[k])).collect();
            c = s.clone();
            tag = "identical".into();
        }
        1 | 2 | 3 | 4 => {
            // overlapping: a shared part plus private parts
            let ks = pick(rng, ns.max(1), &u);
            let shared_n = 1 + rng.below(ks.len() as u64) as usize;
            let mut kc: Vec<u64> = ks[..shared_n].to_vec();
            let rest: Vec<u64> = u.iter().copied().filter(|k| !ks.contains(k)).collect();
            kc.extend(pick(rng, nc.saturating_sub(shared_n).min(16 - shared_n.min(16)), &rest));
            s = ks.iter().map(|k| (*k, base[k])).collect();
            c = kc.iter().map(|k| (*k, base[k])).collect();
            let top = ks.iter().copied().filter(|k| kc.contains(k)).max().unwrap();
            match shape {
                1 => tag = "overlap-equal-data".into(),
                2 => {
                    let (d, what) = perturb(rng, &base[&top]);
                    for e in c.iter_mut() { if e.0 == top { e.1 = d; } }
                    tag = format!("overlap-top-differs-in-{}", what);
                }
                3 => {
                    let mut what = "none";
                    for e in c.iter_mut() { if e.0 != top && ks.contains(&e.0) && rng.bool() { let (d, w) = perturb(rng, &e.1); e.1 = d; what = w; } }
                    tag = if what == "none" { "overlap-equal-data".into() } else { "overlap-lower-differs".into() };
                }
                _ => {
                    for e in c.iter_mut() { if rng.chance(1, 3) { e.1 = perturb(rng, &e.1).0; } }
                    for e in s.iter_mut() { if rng.chance(1, 6) { e.1 = data(rng); } }
                    tag = "overlap-random-data".into();
                }
            }
        }
        5 => {
            let ks = pick(rng, ns, &u);
            let rest: Vec<u64> = u.iter().copied().filter(|k| !ks.contains(k)).collect();
            let kc = pick(rng, nc, &rest);
            s = ks.iter().map(|k| (*k, base[k])).collect();
            c = kc.iter().map(|k| (*k, base[k])).collect();
            tag = if s.is_empty() && c.is_empty() { "trivial-both-empty".into() } else if s.is_empty() { "disjoint-responder-empty".into() } else if c.is_empty() { "disjoint-proposal-empty".into() } else { "disjoint".into() };
        }
        6 => {
            // interleaved neighbours: every responder version has proposer versions right below / above it
            let ks = pick(rng, ns.max(1).min(8), &[10, 20, 30, 40, 50, 60, 70, 80]);
            let mut kc: Vec<u64> = vec![];
            for k in &ks { if rng.bool() { kc.push(k - 1); } if rng.bool() { kc.push(k + 1); } }
            let hit = rng.bool();
            if hit { kc.push(*rng.pick(&ks)); }
            kc.sort();
            kc.dedup();
            kc.truncate(16);
            let d = data(rng);
            s = ks.iter().map(|k| (*k, d)).collect();
            c = kc.iter().map(|k| (*k, d)).collect();
            let common = ks.iter().any(|k| kc.contains(k));
            tag = if common { "neighbours-one-common".into() } else { "neighbours-disjoint".into() };
        }
        _ => {
            let ks = pick(rng, ns, &u);
            let kc = pick(rng, nc, &u);
            s = ks.iter().map(|k| (*k, data(rng))).collect();
            c = kc.iter().map(|k| (*k, data(rng))).collect();
            tag = "random".into();
        }
    }
    shuffle(rng, &mut s);
    shuffle(rng, &mut c);
    (s, c, tag)
}

fn main() {
    let args = args();
    let mut rng = Rng::new(args.seed);
    let rt = tokio::runtime::Builder::new_multi_thread().worker_threads(2).enable_all().build().expect("tokio runtime");
    let m: Data = (764824073, false, Some(1), Some(false));
    let t: Data = (2, true, None, None);
    let mut fixed: Vec<(Table, Table, String)> = vec![
        (vec![], vec![], "trivial-both-empty".into()),
        (vec![(13, m)], vec![(13, m)], "fixed-single-equal".into()),
        (vec![(13, m)], vec![(13, t)], "fixed-single-magic-differs".into()),
        (vec![(13, m), (14, m)], vec![(12, m), (13, m), (14, m)], "fixed-unit-test-table".into()),
        (vec![(13, m)], vec![(7, m), (8, m)], "fixed-unit-test-disjoint".into()),
        (vec![(7, m), (13, m), (11, m)], vec![(14, m), (11, m), (13, m), (7, t)], "fixed-top-equal-lower-differs".into()),
        (vec![(7, m), (13, m)], vec![(13, t), (7, m)], "fixed-top-differs-lower-equal".into()),
        (vec![(0, m), (u64::MAX, m)], vec![(u64::MAX, m), (1, m)], "fixed-u64-max".into()),
        (vec![(5, m)], vec![], "disjoint-proposal-empty".into()),
        (vec![], vec![(5, m)], "disjoint-responder-empty".into()),
    ];
    let total = args.n;
    let mut i = 0usize;
    while i < total {
        let (s, c, tag) = if !fixed.is_empty() { fixed.remove(0) } else { gen(&mut rng) };
        if i < 3 { emit_sample(&format!("{} responder={} proposed={}", tag, coq_table(&s), coq_table(&c))); }
        // what the proposer's data look like after the wire codec (a (Some, None) pair is sent as the 2-field form)
        let wire = |d: &Data| -> Data { if d.2.is_some() && d.3.is_some() { *d } else { (d.0, d.1, None, None) } };
        // ---- old stack ----
        {
            let cw: Table = c.iter().map(|(k, d)| (*k, wire(d))).collect();
            match guard(|| rt.block_on(run_old(&s, &c))) {
                Out::Ok((reply, confirmed)) => {
                    oracle(0, &s, &cw, &reply, &confirmed, None);
                    if !args.oracle_only { emit_case(&format!("old-{}", tag), &format!("(0,{},{},{})", coq_table(&s), coq_table(&cw), coq_reply(&reply))); }
                }
                Out::Err(e) | Out::Panic(e) => emit_oracle_fail("old-no-reply", &format!("stack=pallas-network responder={} proposed={} : {}", coq_table(&s), coq_table(&c), e)),
            }
        }
        // ---- new stack ----
        {
            let r = { let _g = rt.enter(); guard(|| run_new(&s, &c)) };
            match r {
                Out::Ok((reply, init, initialized)) => {
                    oracle(1, &s, &c, &reply, &init, Some(initialized));
                    // HashMap key order is per-process random: print the listed versions sorted (compared as a set)
                    let reply = match reply { Reply::Mismatch(mut l) => { l.sort(); Reply::Mismatch(l) } r => r };
                    if !args.oracle_only { emit_case(&format!("new-{}", tag), &format!("(1,{},{},{})", coq_table(&s), coq_table(&c), coq_reply(&reply))); }
                }
                Out::Err(e) | Out::Panic(e) => emit_oracle_fail("new-no-reply", &format!("stack=pallas-network2 responder={} proposed={} : {}", coq_table(&s), coq_table(&c), e)),
            }
        }
        i += 1;
    }
}
