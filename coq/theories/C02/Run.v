(* C02 correspondence.
   CScript bs script results pos used : the script of Decoder calls run on the
     real Decoder over [bs] gave [results] (one outcome per call, stopping at a
     panic) and left the cursor at (pos, used_bits) (compared unless it panicked).
   CDecode o bs r : pallas_codec::flat::decode::<T>(bs) gave r. *)
From PV Require Export Lib.Base Flat.Model.
Open Scope Z_scope.

Fixpoint dval_eqb (a b : dval) : bool :=
  match a, b with
  | DUnit, DUnit => true
  | DBool x, DBool y => Bool.eqb x y
  | DU8 x, DU8 y | DWord x, DWord y | DInt x, DInt y | DChar x, DChar y | DBits x, DBits y => x =? y
  | DBytes x, DBytes y | DUtf8 x, DUtf8 y | DString x, DString y => list_eqb Z.eqb x y
  | DList x, DList y =>
    (fix go (l1 l2 : list dval) : bool :=
       match l1, l2 with
       | [], [] => true
       | u :: r1, v :: r2 => dval_eqb u v && go r1 r2
       | _, _ => false
       end) x y
  | _, _ => false
  end.

Definition outcome_eqb {A} (eqb : A -> A -> bool) (a b : outcome A) : bool :=
  match a, b with
  | Ok x, Ok y => eqb x y
  | Err x, Err y => x =? y
  | Panic x, Panic y => x =? y
  | _, _ => false
  end.

Inductive case : Type :=
| CScript (bs : list Z) (script : list op) (results : list (outcome dval)) (pos used : Z)
| CDecode (o : op) (bs : list Z) (r : outcome dval).

Definition has_panic (rs : list (outcome dval)) : bool := existsb is_panic rs.

Definition case_out (c : case) : list (outcome dval) * Z * Z :=
  match c with
  | CScript bs script _ _ _ =>
    let (rs, s) := run_script script (mk_dec bs) in (rs, d_pos s, d_used s)
  | CDecode o bs _ => ([flat_decode o bs], 0, 0)
  end.

Definition case_ok (c : case) : bool :=
  match c with
  | CScript bs script results pos used =>
    let (rs, s) := run_script script (mk_dec bs) in
    list_eqb (outcome_eqb dval_eqb) rs results
    && (has_panic results || ((d_pos s =? pos) && (d_used s =? used)))
  | CDecode o bs r => outcome_eqb dval_eqb (flat_decode o bs) r
  end.
