(* Flat codec, encoder side: pallas-codec/src/flat/encode/encoder.rs transcribed
   method by method (plus flat/zigzag.rs isize->usize, flat::encode).
   An encoder is (buffer, used_bits, current_byte); every method is
   [enc -> outcome enc] (Result / panic on a shift by >= 8). Bytes are Z in [0,256). *)
From PV Require Import Lib.Base Flat.Model.
Open Scope Z_scope.

Record enc : Type := mkEnc { e_buf : list Z; e_used : Z; e_cur : Z }.
Definition enc_init : enc := mkEnc [] 0 0.     (* Encoder::new *)

Definition obind {A B} (o : outcome A) (f : A -> outcome B) : outcome B :=
  match o with Ok a => f a | Err e => Err e | Panic p => Panic p end.
Notation "x <-- o ;; f" := (obind o (fun x => f)) (at level 61, o at next level, right associativity).

(* fn next_word *)
Definition next_word (s : enc) : enc := mkEnc (e_buf s ++ [e_cur s]) 0 0.

(* fn zero *)
Definition enc_zero (s : enc) : outcome enc :=
  if e_used s =? 7 then Ok (next_word s) else Ok (mkEnc (e_buf s) (e_used s + 1) (e_cur s)).

(* fn one *)
Definition enc_one (s : enc) : outcome enc :=
  if e_used s =? 7 then Ok (next_word (mkEnc (e_buf s) (e_used s) (Z.lor (e_cur s) 1)))
  else m <-- shr8 128 (e_used s) ;; Ok (mkEnc (e_buf s) (e_used s + 1) (Z.lor (e_cur s) m)).

(* pub fn bool *)
Definition enc_bool (b : bool) (s : enc) : outcome enc := if b then enc_one s else enc_zero s.

(* fn byte_unaligned *)
Definition byte_unaligned (x : Z) (s : enc) : outcome enc :=
  hi <-- shr8 x (e_used s) ;;
  lo <-- shl8 x (8 - e_used s) ;;
  Ok (mkEnc (e_buf s ++ [Z.lor (e_cur s) hi]) (e_used s) lo).

(* pub fn u8 *)
Definition enc_u8 (x : Z) (s : enc) : outcome enc :=
  if e_used s =? 0 then Ok (next_word (mkEnc (e_buf s) (e_used s) x)) else byte_unaligned x s.

(* pub fn bits(num_bits: i64, val: u8) *)
Definition enc_bits (n v : Z) (s : enc) : outcome enc :=
  if (n =? 1) && (v =? 0) then enc_zero s
  else if (n =? 1) && (v =? 1) then enc_one s
  else if (n =? 2) && (v =? 0) then s1 <-- enc_zero s ;; enc_zero s1
  else if (n =? 2) && (v =? 1) then s1 <-- enc_zero s ;; enc_one s1
  else if (n =? 2) && (v =? 2) then s1 <-- enc_one s ;; enc_zero s1
  else if (n =? 2) && (v =? 3) then s1 <-- enc_one s ;; enc_one s1
  else
    let used' := e_used s + n in
    let unused := 8 - used' in
    if unused =? 0 then Ok (next_word (mkEnc (e_buf s) used' (Z.lor (e_cur s) v)))
    else if unused >? 0 then
      x <-- shl8 v unused ;; Ok (mkEnc (e_buf s) used' (Z.lor (e_cur s) x))
    else
      let used := - unused in
      hi <-- shr8 v used ;;
      let s1 := next_word (mkEnc (e_buf s) used' (Z.lor (e_cur s) hi)) in
      lo <-- shl8 v (8 - used) ;;
      Ok (mkEnc (e_buf s1) used lo).

(* pub(crate) fn filler *)
Definition enc_filler (s : enc) : outcome enc :=
  Ok (next_word (mkEnc (e_buf s) (e_used s) (Z.lor (e_cur s) 1))).

(* fn write_blk: arr.chunks(255) *)
Fixpoint blocks_go (fuel : nat) (arr : list Z) : list Z :=
  match arr with
  | [] => [0]
  | _ => match fuel with
         | O => [0]   (* not reached: fuel = length arr *)
         | S f => let c := firstn 255 arr in
                  Z.of_nat (length c) :: c ++ blocks_go f (skipn 255 arr)
         end
  end.
Definition blocks (arr : list Z) : list Z := blocks_go (length arr) arr.
Definition write_blk (arr : list Z) (s : enc) : enc :=
  mkEnc (e_buf s ++ blocks arr) (e_used s) (e_cur s).

(* pub fn byte_array *)
Definition enc_byte_array (arr : list Z) (s : enc) : outcome enc :=
  if negb (e_used s =? 0) then Err E_ALIGN else Ok (write_blk arr s).

(* pub fn bytes *)
Definition enc_bytes (arr : list Z) (s : enc) : outcome enc :=
  s1 <-- enc_filler s ;; enc_byte_array arr s1.

(* pub fn word: loop { w = d & 127; d >>= 7; if d != 0 { w |= 128 }; bits(8, w); if d == 0 break }
   fuel 10 = ceil(64/7) iterations are enough for a usize *)
Fixpoint enc_word_go (fuel : nat) (d : Z) (s : enc) : outcome enc :=
  match fuel with
  | O => Err E_FUEL
  | S f =>
    let w := Z.land d 127 in
    let d' := Z.shiftr d 7 in
    let w' := if negb (d' =? 0) then Z.lor w 128 else w in
    s1 <-- enc_bits 8 w' s ;;
    if d' =? 0 then Ok s1 else enc_word_go f d' s1
  end.
Definition enc_word (c : Z) (s : enc) : outcome enc := enc_word_go 10 c s.

(* zigzag.rs, impl ZigZag for isize: ((i << 1) ^ (i >> (bits - 1))) as usize, in i128 *)
Definition zigzag (i : Z) : Z := (Z.lxor (Z.shiftl i 1) (Z.shiftr i 63)) mod 2 ^ 64.
(* pub fn integer *)
Definition enc_integer (i : Z) (s : enc) : outcome enc := enc_word (zigzag i) s.
(* pub fn char *)
Definition enc_char (c : Z) (s : enc) : outcome enc := enc_word c s.
(* pub fn utf8 *)
Definition enc_utf8 (l : list Z) (s : enc) : outcome enc := enc_bytes l s.
(* pub fn string: for c in s.chars() { one(); char(c) } zero() *)
Fixpoint enc_string (cs : list Z) (s : enc) : outcome enc :=
  match cs with
  | [] => enc_zero s
  | c :: r => s1 <-- enc_one s ;; s2 <-- enc_char c s1 ;; enc_string r s2
  end.

(* Values a single Encoder can be asked to write. *)
Inductive val : Type :=
| VBool (b : bool) | VU8 (x : Z) | VWord (w : Z) | VInt (i : Z) | VChar (c : Z)
| VBytes (l : list Z) | VUtf8 (l : list Z) | VString (cs : list Z)
| VBits (n v : Z)                     (* bits(n, v) *)
| VList (elem : op) (l : list val).   (* encode_list_with *)

Fixpoint enc_val (v : val) (s : enc) : outcome enc :=
  match v with
  | VBool b => enc_bool b s
  | VU8 x => enc_u8 x s
  | VWord w => enc_word w s
  | VInt i => enc_integer i s
  | VChar c => enc_char c s
  | VBytes l => enc_bytes l s
  | VUtf8 l => enc_utf8 l s
  | VString cs => enc_string cs s
  | VBits n v => enc_bits n v s
  | VList _ l =>
    (* for item in list { one(); f(item)? } zero() *)
    (fix go (l : list val) (s : enc) : outcome enc :=
       match l with
       | [] => enc_zero s
       | x :: r => s1 <-- enc_one s ;; s2 <-- enc_val x s1 ;; go r s2
       end) l s
  end.

(* the Decoder call that reads the value back, and what it returns *)
Definition kind_of (v : val) : op :=
  match v with
  | VBool _ => OBool | VU8 _ => OU8 | VWord _ => OWord | VInt _ => OInteger | VChar _ => OChar
  | VBytes _ => OBytes | VUtf8 _ => OUtf8 | VString _ => OString
  | VBits n _ => OBits8 n | VList e _ => OList e
  end.
Fixpoint dval_of (v : val) : dval :=
  match v with
  | VBool b => DBool b | VU8 x => DU8 x | VWord w => DWord w | VInt i => DInt i | VChar c => DChar c
  | VBytes l => DBytes l | VUtf8 l => DUtf8 l | VString cs => DString cs
  | VBits _ v => DBits v | VList _ l => DList (map dval_of l)
  end.

(* the Rust types: u8, usize, isize, char, &[u8], &str, bits(n <= 8 bits of v) ;
   a list is homogeneous (one decoder function for all items) *)
Fixpoint wf_val (v : val) : Prop :=
  match v with
  | VBool _ => True
  | VU8 x => 0 <= x < 256
  | VWord w => 0 <= w < 2 ^ 64
  | VInt i => - 2 ^ 63 <= i < 2 ^ 63
  | VChar c => scalar_value c = true
  | VBytes l => bytes_wf l
  | VUtf8 l => bytes_wf l /\ utf8_valid l = true
  | VString cs => Forall (fun c => scalar_value c = true) cs
  | VBits n v => 1 <= n <= 8 /\ 0 <= v < 2 ^ n
  | VList e l => (fix all (l : list val) : Prop :=
                    match l with [] => True | x :: r => (kind_of x = e /\ wf_val x) /\ all r end) l
  end.

(* all values, then the filler; the result is the buffer (flat::encode does
   exactly this for one value) *)
Fixpoint enc_vals (vs : list val) (s : enc) : outcome enc :=
  match vs with
  | [] => Ok s
  | v :: r => s1 <-- enc_val v s ;; enc_vals r s1
  end.
Definition encode_seq (vs : list val) : outcome (list Z) :=
  s <-- enc_vals vs enc_init ;; s1 <-- enc_filler s ;; Ok (e_buf s1).
