From PV Require Import Lib.Base C26.Model.
Open Scope Z_scope.

(* ---- point equality ---- *)
Lemma point_eqb_spec a b : point_eqb a b = true <-> a = b.
Proof.
  destruct a as [|s1 h1], b as [|s2 h2]; cbn [point_eqb]; split; intros H; try easy.
  - apply andb_true_iff in H as [H1 H2]. apply Z.eqb_eq in H1. apply list_eqb_Z_spec in H2. congruence.
  - inversion H; subst. rewrite Z.eqb_refl. cbn. apply list_eqb_Z_spec. reflexivity.
Qed.

Lemma point_eqb_refl a : point_eqb a a = true.
Proof. apply point_eqb_spec. reflexivity. Qed.

Lemma point_eqb_false a b : point_eqb a b = false <-> a <> b.
Proof.
  split.
  - intros H E. apply point_eqb_spec in E. congruence.
  - intros H. destruct (point_eqb a b) eqn:E; [|reflexivity]. apply point_eqb_spec in E. contradiction.
Qed.

(* ---- position ---- *)
Lemma position_from_app i a c p :
  position_from i (a ++ c) p =
  match position_from i a p with
  | Some x => Some x
  | None => position_from (i + Z.of_nat (length a)) c p
  end.
Proof.
  revert i; induction a as [|q a IH]; intros i; cbn [app position_from length].
  - f_equal. lia.
  - destruct (point_eqb q p); [reflexivity|]. rewrite IH. destruct (position_from (i + 1) a p); [reflexivity|].
    f_equal. lia.
Qed.

Lemma position_from_none i b p : position_from i b p = None <-> ~ In p b.
Proof.
  revert i; induction b as [|q b IH]; intros i; cbn [position_from In].
  - tauto.
  - destruct (point_eqb q p) eqn:E.
    + apply point_eqb_spec in E. split; [discriminate | intros H; exfalso; apply H; left; exact E].
    + apply point_eqb_false in E. rewrite IH. tauto.
Qed.

Lemma position_from_some i b p x :
  position_from i b p = Some x ->
  exists pre rest, b = pre ++ p :: rest /\ ~ In p pre /\ x = i + Z.of_nat (length pre).
Proof.
  revert i; induction b as [|q b IH]; intros i; cbn [position_from]; [discriminate|].
  destruct (point_eqb q p) eqn:E.
  - apply point_eqb_spec in E. subst q. intros H; inversion H; subst.
    exists [], b. cbn. repeat split; [tauto | lia].
  - apply point_eqb_false in E. intros H. destruct (IH _ H) as (pre & rest & -> & Hn & ->).
    exists (q :: pre), rest. cbn [app In length]. repeat split; [|lia].
    intros [F|F]; [contradiction | apply Hn, F].
Qed.

Lemma position_none b p : position b p = None <-> ~ In p b.
Proof. apply position_from_none. Qed.

Lemma position_some b p x :
  position b p = Some x ->
  exists pre rest, b = pre ++ p :: rest /\ ~ In p pre /\ x = Z.of_nat (length pre).
Proof.
  intros H. destruct (position_from_some _ _ _ _ H) as (pre & rest & ? & ? & ?).
  exists pre, rest. repeat split; try assumption; lia.
Qed.

Lemma position_in_iff b p : In p b <-> exists x, position b p = Some x.
Proof.
  destruct (position b p) eqn:E.
  - split; [eauto|]. intros _. destruct (position_some _ _ _ E) as (pre & rest & -> & _).
    apply in_or_app. right. left. reflexivity.
  - apply position_none in E. split; [contradiction | intros [x Hx]; discriminate].
Qed.

(* ---- roll_back ---- *)
Lemma rollback_keeps_prefix_proof b p x :
  position b p = Some x ->
  exists pre rest, b = pre ++ p :: rest /\ ~ In p pre /\ x = Z.of_nat (length pre) /\
                   roll_back b p = (true, pre ++ [p]).
Proof.
  intros H. destruct (position_some _ _ _ H) as (pre & rest & Hb & Hn & Hx).
  exists pre, rest. repeat split; try assumption.
  unfold roll_back. rewrite H. f_equal. subst b x.
  replace (Z.to_nat (Z.of_nat (length pre) + 1)) with (length pre + 1)%nat by lia.
  change (p :: rest) with ([p] ++ rest). rewrite app_assoc.
  rewrite firstn_app. rewrite app_length. cbn [length].
  replace (length pre + 1 - (length pre + 1))%nat with 0%nat by lia.
  rewrite firstn_all2 by (rewrite app_length; cbn; lia). cbn. rewrite app_nil_r. reflexivity.
Qed.

Lemma rollback_unknown_empties_proof b p : ~ In p b -> roll_back b p = (false, []).
Proof. intros H. apply position_none in H. unfold roll_back. rewrite H. reflexivity. Qed.

Lemma rollback_handled_iff_proof b p : fst (roll_back b p) = true <-> In p b.
Proof.
  unfold roll_back. destruct (position b p) eqn:E; cbn [fst].
  - split; [|reflexivity]. intros _. apply position_in_iff. eauto.
  - apply position_none in E. split; [discriminate | contradiction].
Qed.

(* ---- pop_with_depth ---- *)
Lemma pop_split_proof b d : 0 <= d ->
  fst (pop_with_depth b d) ++ snd (pop_with_depth b d) = b /\
  size (snd (pop_with_depth b d)) = Z.min d (size b).
Proof.
  intros Hd. unfold pop_with_depth, checked_sub, size.
  destruct (d <=? Z.of_nat (length b)) eqn:E; cbn [fst snd].
  - split; [apply firstn_skipn|]. rewrite skipn_length. lia.
  - split; [reflexivity | lia].
Qed.

(* ---- observations under b = rev s ---- *)
Lemma latest_rev s : latest (rev s) = hd_error s.
Proof.
  unfold latest. destruct s as [|q r]; [reflexivity|]. cbn [rev hd_error].
  rewrite map_app. cbn [map]. apply last_last.
Qed.

Lemma hd_error_app {A} (a c : list A) :
  hd_error (a ++ c) = match a with [] => hd_error c | x :: _ => Some x end.
Proof. destruct a; reflexivity. Qed.

Lemma oldest_rev s : oldest (rev s) = last (map Some s) None.
Proof.
  unfold oldest. induction s as [|q r IH]; [reflexivity|]. cbn [rev map].
  rewrite hd_error_app. destruct r as [|q' r']; [reflexivity|].
  change (last (Some q :: map Some (q' :: r')) None) with (last (map Some (q' :: r')) None).
  rewrite <- IH. cbn [rev]. destruct (rev r' ++ [q']) eqn:E; [|reflexivity].
  apply app_eq_nil in E as [_ E]. discriminate.
Qed.

Lemma size_rev s : size (rev s) = Z.of_nat (length s).
Proof. unfold size. rewrite rev_length. reflexivity. Qed.

Lemma observe_rev x s : observe x (rev s) = spec_observe x s.
Proof. unfold observe, spec_observe. rewrite size_rev, latest_rev, oldest_rev. reflexivity. Qed.

(* ---- each operation refines its specification ---- *)
Lemma position_rev s p : position (rev s) p = spec_position s p.
Proof.
  induction s as [|q r IH]; [reflexivity|]. cbn [rev spec_position].
  unfold position in *. rewrite position_from_app, IH.
  destruct (spec_position r p); [reflexivity|].
  cbn [position_from]. rewrite rev_length. destruct (point_eqb q p); reflexivity.
Qed.

Lemma cut_rev s p :
  match spec_cut s p with
  | Some c => exists newer, s = newer ++ c /\ position (rev s) p = Some (Z.of_nat (length c) - 1)
  | None => position (rev s) p = None
  end.
Proof.
  induction s as [|q r IH]; [reflexivity|]. cbn [spec_cut rev].
  unfold position in *. rewrite position_from_app.
  destruct (spec_cut r p) as [c|].
  - destruct IH as (newer & Hr & Hp). exists (q :: newer). rewrite Hp. subst r. split; reflexivity.
  - rewrite IH. cbn [position_from]. rewrite rev_length.
    destruct (point_eqb q p); [|reflexivity].
    exists []. split; [reflexivity|]. f_equal. cbn [length]. lia.
Qed.

Lemma roll_back_rev s p :
  roll_back (rev s) p = (fst (spec_back s p), rev (snd (spec_back s p))).
Proof.
  unfold roll_back, spec_back. pose proof (cut_rev s p) as H.
  destruct (spec_cut s p) as [c|].
  - destruct H as (newer & Hs & Hp). rewrite Hp. cbn [fst snd]. f_equal.
    subst s. rewrite rev_app_distr.
    replace (Z.to_nat (Z.of_nat (length c) - 1 + 1)) with (length (rev c)) by (rewrite rev_length; lia).
    rewrite firstn_app, Nat.sub_diag, firstn_all. cbn. apply app_nil_r.
  - rewrite H. reflexivity.
Qed.

Lemma pop_rev s d : 0 <= d ->
  pop_with_depth (rev s) d = (fst (spec_pop s d), rev (snd (spec_pop s d))).
Proof.
  intros Hd. unfold pop_with_depth, checked_sub, spec_pop. rewrite size_rev. cbn [fst snd].
  destruct (d <=? Z.of_nat (length s)) eqn:E.
  - rewrite firstn_rev, skipn_rev.
    replace (length s - Z.to_nat (Z.of_nat (length s) - d))%nat with (Z.to_nat d) by lia.
    reflexivity.
  - rewrite skipn_all2 by lia. rewrite firstn_all2 by lia. reflexivity.
Qed.

Lemma step_rev s o : op_wf o ->
  step (rev s) o = (fst (spec_step s o), rev (snd (spec_step s o))).
Proof.
  intros Hw. destruct o as [p|p|d|p]; cbn [step spec_step].
  - unfold roll_forward, spec_forward. reflexivity.
  - rewrite roll_back_rev. destruct (spec_back s p). reflexivity.
  - rewrite pop_rev by (cbn in Hw; lia). destruct (spec_pop s d). reflexivity.
  - rewrite position_rev. reflexivity.
Qed.

Lemma run_rev ops : forall s, Forall op_wf ops ->
  run (rev s) ops = (fst (spec_run s ops), rev (snd (spec_run s ops))).
Proof.
  induction ops as [|o r IH]; intros s Hw; [reflexivity|].
  inversion Hw as [|? ? Ho Hr]; subst. cbn [run spec_run].
  rewrite (step_rev s o Ho). destruct (spec_step s o) as [x s']. cbn [fst snd].
  rewrite (IH s' Hr). destruct (spec_run s' r) as [t s'']. cbn [fst snd].
  rewrite observe_rev. reflexivity.
Qed.

Lemma buffer_refines_spec_proof ops : Forall op_wf ops ->
  fst (run buf_new ops) = fst (spec_run [] ops) /\
  snd (run buf_new ops) = rev (snd (spec_run [] ops)).
Proof.
  intros Hw. change buf_new with (rev (@nil point)). rewrite (run_rev ops [] Hw). split; reflexivity.
Qed.
