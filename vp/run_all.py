#!/usr/bin/env python3
"""Run every registered check (quick by default) sequentially and summarise."""
import json, os, subprocess, sys, time
V = os.path.dirname(os.path.dirname(os.path.abspath(__file__)))
tier = sys.argv[1] if len(sys.argv) > 1 else "quick"
man = json.load(open(os.path.join(V, "MANIFEST.json")))
rows = []
for c in man["checks"]:
    t0 = time.time()
    p = subprocess.run(["./check", c["property_id"], "--tier", tier], cwd=V, stdout=subprocess.PIPE, stderr=subprocess.STDOUT, text=True)
    lines = [l for l in p.stdout.split("\n") if l.startswith(("VIOLATION", "KNOWN-FINDING", "TOOL-ERROR"))]
    rows.append((c["property_id"], p.returncode, round(time.time() - t0), lines))
    print(c["property_id"], p.returncode, round(time.time() - t0), "s", *[l[:160] for l in lines], flush=True)
bad = [r for r in rows if r[1] != 0]
print("TOTAL %d checks, %d non-zero, %d s" % (len(rows), len(bad), sum(r[2] for r in rows)))
sys.exit(1 if bad else 0)
