//! C43: the immutable-db readers of pallas-hardano (primary / secondary / chunk)
//! on truncated and corrupted copies of the test database, and on small synthetic
//! databases.  Oracle: reading never panics (and never aborts the process).
//!
//! case := (overflow_checks, call, expect)
//!   call   := ChunkCall spec            chunk::read_blocks(dir, name), iterator drained
//!           | DbCall [spec; ...]        immutable::read_blocks(dir), iterator drained
//!   spec   := (name, primary src, secondary src, chunk file length)
//!   src    := Lit bytes | RealP name edits | RealS name edits   (edits of the pristine test-db file)
//!   expect := XErr class | XPanic class | XItems count hash     (hash over item classes and block lengths)
//!
//! All files are written under $VERIF_DIR/.cache/scratch-c43-<pid> (removed before
//! exit).  The implementation runs in worker child processes (up to 8; worker j takes
//! the cases with index = j mod P, the supervisor prints the results in case order,
//! so (seed, tier, n) replays exactly): a corrupted offset can make the allocator
//! abort the process, which the supervisor records as an oracle failure (and restarts
//! that worker after the case).
use pallas_hardano::storage::immutable::{self, chunk};
use std::io::{BufRead, BufReader, Write};
use std::path::{Path, PathBuf};
use std::process::{Command, Stdio};
use verif_harness::*;

// ------------------------------------------------------------------ inputs

#[derive(Clone)]
enum Edit { Trunc(usize), Patch(usize, Vec<u8>) }
#[derive(Clone)]
enum Src { Lit(Vec<u8>), Real(usize, Vec<Edit>) }
#[derive(Clone)]
struct Spec { name: u32, prim: Src, sec: Src, chunk_real: Option<usize>, chunk_len: usize }
enum Call { Chunk(Spec), Db(Vec<Spec>) }

struct Base { name: u32, prim: Vec<u8>, sec: Vec<u8>, chunk: Vec<u8> }

fn repo_dir() -> PathBuf {
    // root of the pallas tree under test (set by vp/check.py)
    PathBuf::from(std::env::var("VERIF_REPO").unwrap_or_else(|_| "/repo".into()))
}

fn load_bases() -> Vec<Base> {
    let td = repo_dir().join("test_data");
    let mut names: Vec<String> = std::fs::read_dir(&td).expect("test_data").filter_map(|e| e.ok())
        .filter(|e| e.path().extension().map(|x| x == "chunk").unwrap_or(false))
        .map(|e| e.path().file_stem().unwrap().to_string_lossy().to_string()).collect();
    names.sort();
    names.iter().map(|n| Base {
        name: n.parse().expect("decimal chunk name"),
        prim: std::fs::read(td.join(format!("{}.primary", n))).expect("primary"),
        sec: std::fs::read(td.join(format!("{}.secondary", n))).expect("secondary"),
        chunk: std::fs::read(td.join(format!("{}.chunk", n))).expect("chunk"),
    }).collect()
}

fn apply(mut v: Vec<u8>, edits: &[Edit]) -> Vec<u8> {
    for e in edits {
        match e {
            Edit::Trunc(k) => v.truncate(*k),
            Edit::Patch(off, bs) => for (i, b) in bs.iter().enumerate() { if off + i < v.len() { v[off + i] = *b; } },
        }
    }
    v
}
fn prim_bytes(s: &Spec, bases: &[Base]) -> Vec<u8> {
    match &s.prim { Src::Lit(b) => b.clone(), Src::Real(i, es) => apply(bases[*i].prim.clone(), es) }
}
fn sec_bytes(s: &Spec, bases: &[Base]) -> Vec<u8> {
    match &s.sec { Src::Lit(b) => b.clone(), Src::Real(i, es) => apply(bases[*i].sec.clone(), es) }
}
fn synth_chunk(len: usize) -> Vec<u8> { (0..len).map(|i| (i.wrapping_mul(131) + i / 251) as u8).collect() }
fn chunk_bytes(s: &Spec, bases: &[Base]) -> Vec<u8> {
    match s.chunk_real { Some(i) => bases[i].chunk[..s.chunk_len.min(bases[i].chunk.len())].to_vec(), None => synth_chunk(s.chunk_len) }
}

fn coq_edits(es: &[Edit]) -> String {
    coq_list(es, |e| match e { Edit::Trunc(k) => format!("Trunc {}", k), Edit::Patch(o, b) => format!("Patch {} {}", o, coq_bytes(b)) })
}
fn coq_spec(s: &Spec, bases: &[Base]) -> String {
    let p = match &s.prim { Src::Lit(b) => format!("Lit {}", coq_bytes(b)), Src::Real(i, es) => format!("RealP {} {}", bases[*i].name, coq_edits(es)) };
    let q = match &s.sec { Src::Lit(b) => format!("Lit {}", coq_bytes(b)), Src::Real(i, es) => format!("RealS {} {}", bases[*i].name, coq_edits(es)) };
    format!("({},{},{},{})", s.name, p, q, s.chunk_len)
}
fn txt_edits(es: &[Edit]) -> String {
    if es.is_empty() { return "intact".into(); }
    es.iter().map(|e| match e { Edit::Trunc(k) => format!("truncate@{}", k), Edit::Patch(o, b) => format!("patch@{}={}", o, hex(b)) }).collect::<Vec<_>>().join("+")
}
fn txt_spec(s: &Spec, bases: &[Base]) -> String {
    let p = match &s.prim { Src::Lit(b) => format!("hex:{}", hex(b)), Src::Real(i, es) => format!("test_data/{:05}.primary[{}]", bases[*i].name, txt_edits(es)) };
    let q = match &s.sec { Src::Lit(b) => format!("hex:{}", hex(b)), Src::Real(i, es) => format!("test_data/{:05}.secondary[{}]", bases[*i].name, txt_edits(es)) };
    let c = match s.chunk_real { Some(i) => format!("test_data/{:05}.chunk[first {} bytes]", bases[i].name, s.chunk_len), None => format!("{} pattern bytes", s.chunk_len) };
    format!("{{{:05}: primary={} secondary={} chunk={}}}", s.name, p, q, c)
}

// ------------------------------------------------------------- scratch files

struct Scratch { dir: PathBuf, present: std::collections::HashMap<String, (u64, usize)> }
fn fnv(b: &[u8]) -> u64 { let mut h = 0xcbf29ce484222325u64; for x in b { h = (h ^ *x as u64).wrapping_mul(0x100000001b3); } h }
impl Scratch {
    fn put(&mut self, file: &str, id: (u64, usize), content: impl FnOnce() -> Vec<u8>) {
        if self.present.get(file) == Some(&id) { return; }
        std::fs::write(self.dir.join(file), content()).expect("scratch write");
        self.present.insert(file.to_string(), id);
    }
    /// make the directory contain exactly the files of `specs`
    fn materialize(&mut self, specs: &[Spec], bases: &[Base]) {
        let mut want = std::collections::HashSet::new();
        for s in specs {
            let n = format!("{:05}", s.name);
            let pid = match &s.prim { Src::Lit(b) => (fnv(b), b.len()), Src::Real(i, es) => (fnv(coq_edits(es).as_bytes()), 1_000_000 + *i) };
            let qid = match &s.sec { Src::Lit(b) => (fnv(b), b.len()), Src::Real(i, es) => (fnv(coq_edits(es).as_bytes()), 2_000_000 + *i) };
            self.put(&format!("{}.primary", n), pid, || prim_bytes(s, bases));
            self.put(&format!("{}.secondary", n), qid, || sec_bytes(s, bases));
            let cid = (match s.chunk_real { Some(i) => 1000 + i as u64, None => 1 }, s.chunk_len);
            self.put(&format!("{}.chunk", n), cid, || chunk_bytes(s, bases));
            for e in ["primary", "secondary", "chunk"] { want.insert(format!("{}.{}", n, e)); }
        }
        let gone: Vec<String> = self.present.keys().filter(|k| !want.contains(*k)).cloned().collect();
        for k in gone { let _ = std::fs::remove_file(self.dir.join(&k)); self.present.remove(&k); }
    }
}

// --------------------------------------------------------- implementation run

#[derive(Clone, Copy)]
enum Item { Blk(usize), Bad(i64), Boom(i64) }
enum Obs { Err(i64), Panic(i64, String), Items(Vec<Item>, Option<String>) }

fn panic_code(m: &str) -> i64 {
    if m.contains("subtract with overflow") { 1 } else if m.contains("add with overflow") { 2 }
    else if m.contains("capacity overflow") { 3 } else { 90 }
}
fn panic_key(m: &str) -> &'static str {
    match panic_code(m) { 1 => "panic-subtract-overflow", 2 => "panic-add-overflow", 3 => "panic-capacity-overflow", _ => "panic-other" }
}
fn chunk_err_code(e: &chunk::Error) -> i64 {
    use pallas_hardano::storage::immutable::{primary, secondary};
    match e {
        chunk::Error::SecondaryIndexError(secondary::Error::PrimaryIndexError(primary::Error::VersionMissing(_))) => 1,
        chunk::Error::SecondaryIndexError(secondary::Error::InconsistentState) => 2,
        chunk::Error::CannotReadBlock(_) => 3,
        chunk::Error::SecondaryIndexError(secondary::Error::PrimaryIndexError(_)) => 11,
        chunk::Error::SecondaryIndexError(secondary::Error::CannotOpenFile(_)) => 12,
        chunk::Error::SecondaryIndexError(secondary::Error::CannotReadSecondaryIndex(_)) => 13,
        chunk::Error::CannotOpenChunkFile(_) => 14,
    }
}

/// drain an iterator of blocks; a panic keeps the items seen so far.
/// `content`: when given, blocks before the first error must be the consecutive spans of it.
fn drain<I: Iterator<Item = Result<Vec<u8>, chunk::Error>>>(it: I, content: Option<&[u8]>, bad_content: &mut bool) -> (Vec<Item>, Option<String>) {
    let mut items = vec![];
    let mut pos = Some(0usize);
    let mut it = it;
    let r = guard_total(|| {
        while let Some(b) = it.next() {
            match b {
                Ok(v) => {
                    if let (Some(p), Some(c)) = (pos, content) {
                        if p + v.len() > c.len() || c[p..p + v.len()] != v[..] { *bad_content = true; }
                        pos = Some(p + v.len());
                    }
                    items.push(Item::Blk(v.len()));
                }
                Err(e) => { pos = None; items.push(Item::Bad(chunk_err_code(&e))); }
            }
            if items.len() > 2_000_000 { break; }
        }
    });
    match r { Out::Panic(m) => { items.push(Item::Boom(panic_code(&m))); (items, Some(m)) } _ => (items, None) }
}

fn quiet() { std::panic::set_hook(Box::new(|_| {})); }
fn loud() { std::panic::set_hook(Box::new(|i| eprintln!("c43 harness bug: {}", i))); }

fn run_call(call: &Call, sc: &mut Scratch, bases: &[Base], bad_content: &mut bool) -> Obs {
    quiet();
    let r = run_call_inner(call, sc, bases, bad_content);
    loud();
    r
}
fn run_call_inner(call: &Call, sc: &mut Scratch, bases: &[Base], bad_content: &mut bool) -> Obs {
    match call {
        Call::Chunk(s) => {
            sc.materialize(std::slice::from_ref(s), bases);
            let name = format!("{:05}", s.name);
            let dir = sc.dir.clone();
            let opened = guard_total(|| chunk::read_blocks(&dir, &name));
            match opened {
                Out::Panic(m) => Obs::Panic(panic_code(&m), m),
                Out::Err(_) => unreachable!(),
                Out::Ok(Err(e)) => Obs::Err(chunk_err_code(&e)),
                Out::Ok(Ok(rd)) => {
                    let content = chunk_bytes(s, bases);
                    let (items, p) = drain(rd, Some(&content), bad_content);
                    Obs::Items(items, p)
                }
            }
        }
        Call::Db(specs) => {
            sc.materialize(specs, bases);
            let dir = sc.dir.clone();
            let opened = guard_total(|| immutable::read_blocks(&dir));
            match opened {
                Out::Panic(m) => Obs::Panic(panic_code(&m), m),
                Out::Err(_) => unreachable!(),
                Out::Ok(Err(_)) => Obs::Err(20),
                Out::Ok(Ok(rd)) => { let (items, p) = drain(rd, None, bad_content); Obs::Items(items, p) }
            }
        }
    }
}

const MODULUS: u128 = 2305843009213693951;
fn mix(h: u128, v: u128) -> u128 { (h * 1000003 + v) % MODULUS }
fn coq_expect(o: &Obs) -> String {
    match o {
        Obs::Err(e) => format!("XErr {}", e),
        Obs::Panic(p, _) => format!("XPanic {}", p),
        Obs::Items(its, _) => {
            let mut h = 7u128;
            for it in its {
                h = match it { Item::Blk(l) => mix(mix(h, 1), *l as u128), Item::Bad(e) => mix(mix(h, 2), *e as u128), Item::Boom(p) => mix(mix(h, 3), *p as u128) };
            }
            format!("XItems {} {}", its.len(), h)
        }
    }
}
fn txt_obs(o: &Obs) -> String {
    match o {
        Obs::Err(e) => format!("open error class {}", e),
        Obs::Panic(_, m) => format!("PANIC while opening: {}", m),
        Obs::Items(its, p) => {
            let ok = its.iter().filter(|i| matches!(i, Item::Blk(_))).count();
            let bad = its.iter().filter(|i| matches!(i, Item::Bad(_))).count();
            match p { Some(m) => format!("{} blocks, {} errors, then PANIC: {}", ok, bad, m), None => format!("{} blocks, {} errors", ok, bad) }
        }
    }
}

// ------------------------------------------------------------------ generators

struct Gen<'a> { bases: &'a [Base], out: Vec<(String, Call, bool)> }  // (tag, call, to_model)

fn real_spec(bases: &[Base], i: usize, pe: Vec<Edit>, se: Vec<Edit>, clen: Option<usize>) -> Spec {
    Spec { name: bases[i].name, prim: Src::Real(i, pe), sec: Src::Real(i, se), chunk_real: Some(i), chunk_len: clen.unwrap_or(bases[i].chunk.len()) }
}

fn be32(b: &[u8], i: usize) -> u32 { u32::from_be_bytes([b[i], b[i + 1], b[i + 2], b[i + 3]]) }
fn be64(b: &[u8], i: usize) -> u64 { let mut x = [0u8; 8]; x.copy_from_slice(&b[i..i + 8]); u64::from_be_bytes(x) }

/// offsets worth trying for a u64 block offset whose honest value is `cur`
fn evil_u64(rng: &mut Rng, prev: u64, cur: u64, next: u64, clen: u64) -> u64 {
    match rng.below(22) {
        0 => 0, 1 => prev, 2 => prev.wrapping_sub(1), 3 => prev.wrapping_add(1), 4 => cur.wrapping_sub(1), 5 => cur.wrapping_add(1),
        6 => next, 7 => next.wrapping_add(1), 8 => clen, 9 => clen.wrapping_add(1), 10 => clen.wrapping_sub(1),
        11 => 1 << 31, 12 => 1 << 32, 13 => (1 << 33) + rng.below(1000),
        14 => i64::MAX as u64, 15 => 1 << 63, 16 => u64::MAX, 17 => u64::MAX - rng.below(1 << 20),
        18 => 1u64 << rng.range(46, 62),                       // allocation the system refuses
        19 => rng.below(clen.saturating_add(2)), 20 => cur ^ (1 << rng.below(64)),
        _ => rng.next(),
    }
}
fn evil_u32(rng: &mut Rng, prev: u32, cur: u32, next: u32, slen: u32) -> u32 {
    match rng.below(16) {
        0 => 0, 1 => prev, 2 => prev.wrapping_sub(1), 3 => prev.wrapping_add(rng.range(1, 55) as u32),
        4 => cur.wrapping_sub(rng.range(1, 56) as u32), 5 => cur.wrapping_add(rng.range(1, 56) as u32),
        6 => next, 7 => next.wrapping_add(1), 8 => slen, 9 => slen.wrapping_sub(rng.range(1, 56) as u32), 10 => slen.wrapping_add(1),
        11 => u32::MAX, 12 => 1 << 31, 13 => rng.below(slen as u64 + 2) as u32, 14 => cur ^ (1 << rng.below(32)),
        _ => rng.next() as u32,
    }
}

fn corrupt_primary(rng: &mut Rng, b: &Base) -> Edit {
    let nw = (b.prim.len() - 1) / 4;
    // prefer the words around an occupied slot
    let mut w = rng.below(nw as u64) as usize;
    if rng.chance(3, 4) {
        for _ in 0..64 { let c = rng.below(nw as u64 - 1) as usize; if be32(&b.prim, 1 + 4 * c) != be32(&b.prim, 5 + 4 * c) { w = c + rng.below(2) as usize; break; } }
    }
    let cur = be32(&b.prim, 1 + 4 * w);
    let prev = if w > 0 { be32(&b.prim, 1 + 4 * (w - 1)) } else { 0 };
    let next = if w + 1 < nw { be32(&b.prim, 1 + 4 * (w + 1)) } else { cur };
    Edit::Patch(1 + 4 * w, evil_u32(rng, prev, cur, next, b.sec.len() as u32).to_be_bytes().to_vec())
}
fn corrupt_secondary(rng: &mut Rng, b: &Base) -> Edit {
    let ne = b.sec.len() / 56;
    let e = if rng.chance(1, 4) { rng.below(4.min(ne as u64)) as usize } else { rng.below(ne as u64) as usize };
    let cur = be64(&b.sec, 56 * e);
    let prev = if e > 0 { be64(&b.sec, 56 * (e - 1)) } else { 0 };
    let next = if e + 1 < ne { be64(&b.sec, 56 * (e + 1)) } else { b.chunk.len() as u64 };
    Edit::Patch(56 * e, evil_u64(rng, prev, cur, next, b.chunk.len() as u64).to_be_bytes().to_vec())
}
fn noise(rng: &mut Rng, len: usize) -> Edit {
    let off = rng.below(len as u64) as usize;
    let n = (rng.range(1, 4) as usize).min(len - off);
    Edit::Patch(off, rng.bytes(n))
}

/// a small synthetic chunk: mostly consistent indices with glitches
fn synth(rng: &mut Rng, name: u32) -> Spec {
    let nblocks = rng.below(7) as usize;
    let mut offs: Vec<u32> = vec![];   // primary offsets
    let mut cur = 0u32;
    let mut sec = vec![];
    let mut boff = 0u64;
    offs.push(0);
    for _ in 0..nblocks {
        for _ in 0..rng.below(3) { offs.push(cur); }            // empty slots
        cur += 56; offs.push(cur);
        let mut e = vec![0u8; 56];
        e[..8].copy_from_slice(&boff.to_be_bytes());
        for j in 8..56 { e[j] = rng.byte(); }
        sec.extend(e);
        boff += rng.below(40);
    }
    for _ in 0..rng.below(3) { offs.push(cur); }
    let mut clen = boff + rng.below(40);
    let mut prim = vec![if rng.chance(1, 8) { rng.byte() } else { 1 }];
    for o in &offs { prim.extend(o.to_be_bytes()); }
    // glitches
    for _ in 0..rng.below(4) {
        match rng.below(9) {
            0 => { let k = rng.below(prim.len() as u64 + 1) as usize; prim.truncate(k); }
            1 => { let k = rng.below(sec.len() as u64 + 1) as usize; sec.truncate(k); }
            2 => { if prim.len() >= 5 { let w = rng.below(((prim.len() - 1) / 4) as u64) as usize; let c = be32(&prim, 1 + 4 * w);
                     let v = evil_u32(rng, c.wrapping_sub(56), c, c.wrapping_add(56), sec.len() as u32); prim[1 + 4 * w..5 + 4 * w].copy_from_slice(&v.to_be_bytes()); } }
            3 => { if sec.len() >= 56 { let e = rng.below((sec.len() / 56) as u64) as usize; let c = be64(&sec, 56 * e);
                     let v = evil_u64(rng, c.wrapping_sub(10), c, c.wrapping_add(10), clen); sec[56 * e..56 * e + 8].copy_from_slice(&v.to_be_bytes()); } }
            4 => { clen = rng.below(clen.saturating_add(2)); }
            5 => { let k = rng.below(6) as usize; prim.extend(rng.bytes(k)); }
            6 => { let k = rng.below(60) as usize; sec.extend(rng.bytes(k)); }
            7 => { if prim.len() >= 9 { let w = rng.below(((prim.len() - 1) / 4) as u64) as usize; let v = (rng.below(8) * 28) as u32; prim[1 + 4 * w..5 + 4 * w].copy_from_slice(&v.to_be_bytes()); } }
            _ => { if !sec.is_empty() { let k = rng.below(sec.len() as u64) as usize; sec[k] = rng.byte(); } }
        }
    }
    Spec { name, prim: Src::Lit(prim), sec: Src::Lit(sec), chunk_real: None, chunk_len: clen as usize }
}

fn sweep_points(rng: &mut Rng, len: usize, thorough: bool, budget: usize) -> Vec<(usize, bool)> {
    // (truncation point, also through the model)
    let mut v = vec![];
    if len <= 1000 { for k in 0..len { v.push((k, true)); } return v; }
    let stride = (len / budget.max(1)).max(1);
    let phase = rng.below(stride as u64) as usize;
    for k in 0..len {
        let edge = k <= 8 || k + 8 >= len;
        let sampled = k % stride == phase;
        if thorough { v.push((k, edge || sampled)); } else if edge || sampled { v.push((k, true)); }
    }
    v
}

fn generate(rng: &mut Rng, bases: &[Base], n: usize, thorough: bool) -> Vec<(String, Call, bool)> {
    let mut g = Gen { bases, out: vec![] };
    let nb = bases.len();
    // intact files
    for i in 0..nb { g.out.push(("intact-chunk".into(), Call::Chunk(real_spec(bases, i, vec![], vec![], None)), true)); }
    g.out.push(("intact-db".into(), Call::Db((0..nb).map(|i| real_spec(bases, i, vec![], vec![], None)).collect()), true));
    // the model's refutation witnesses (pre-fix): decreasing offsets
    g.out.push(("witness".into(), Call::Chunk(Spec { name: 7, prim: Src::Lit(vec![1, 0, 0, 0, 0, 0, 0, 0, 10, 0, 0, 0, 20]), sec: Src::Lit(vec![0; 112]), chunk_real: None, chunk_len: 10 }), true));
    {
        let mut sec = vec![0u8; 168];
        sec[56 + 7] = 5; sec[112 + 7] = 3;
        let mut prim = vec![1u8];
        for o in [0u32, 56, 112, 168] { prim.extend(o.to_be_bytes()); }
        g.out.push(("witness".into(), Call::Chunk(Spec { name: 7, prim: Src::Lit(prim.clone()), sec: Src::Lit(sec.clone()), chunk_real: None, chunk_len: 10 }), true));
        sec[112..120].copy_from_slice(&u64::MAX.to_be_bytes());
        g.out.push(("witness".into(), Call::Chunk(Spec { name: 7, prim: Src::Lit(prim), sec: Src::Lit(sec), chunk_real: None, chunk_len: 10 }), true));
    }
    // truncation sweeps of the index files
    let budget = if thorough { (n / 12).max(40) } else { (n / 80).max(5) };
    for i in 0..nb {
        for (k, m) in sweep_points(rng, bases[i].prim.len(), thorough, budget) {
            g.out.push(("truncate-primary".into(), Call::Chunk(real_spec(bases, i, vec![Edit::Trunc(k)], vec![], None)), m));
        }
        for (k, m) in sweep_points(rng, bases[i].sec.len(), thorough, budget) {
            g.out.push(("truncate-secondary".into(), Call::Chunk(real_spec(bases, i, vec![], vec![Edit::Trunc(k)], None)), m));
        }
        // chunk file truncated: at block boundaries +-1 and random points
        let ne = bases[i].sec.len() / 56;
        for _ in 0..budget {
            let e = rng.below(ne as u64) as usize;
            let b = be64(&bases[i].sec, 56 * e) as usize;
            let k = match rng.below(5) { 0 => b, 1 => b.saturating_sub(1), 2 => b + 1, 3 => rng.below(20) as usize, _ => rng.below(bases[i].chunk.len() as u64) as usize };
            g.out.push(("truncate-chunk".into(), Call::Chunk(real_spec(bases, i, vec![], vec![], Some(k.min(bases[i].chunk.len())))), true));
        }
    }
    // random corruptions of the real index files
    let per = if thorough { n / 16 } else { n / 40 }.max(4);
    for _ in 0..per {
        let i = rng.below(nb as u64) as usize;
        g.out.push(("corrupt-primary-offset".into(), Call::Chunk(real_spec(bases, i, vec![corrupt_primary(rng, &bases[i])], vec![], None)), true));
        let i = rng.below(nb as u64) as usize;
        g.out.push(("corrupt-secondary-block-offset".into(), Call::Chunk(real_spec(bases, i, vec![], vec![corrupt_secondary(rng, &bases[i])], None)), true));
        let i = rng.below(nb as u64) as usize;
        let (mut pe, mut se) = (vec![], vec![]);
        for _ in 0..rng.range(1, 3) {
            match rng.below(5) {
                0 => pe.push(noise(rng, bases[i].prim.len())), 1 => se.push(noise(rng, bases[i].sec.len())),
                2 => pe.push(corrupt_primary(rng, &bases[i])), 3 => se.push(corrupt_secondary(rng, &bases[i])),
                _ => { if rng.bool() { pe.push(Edit::Trunc(rng.below(bases[i].prim.len() as u64) as usize)) } else { se.push(Edit::Trunc(rng.below(bases[i].sec.len() as u64) as usize)) } }
            }
        }
        g.out.push(("corrupt-mixed".into(), Call::Chunk(real_spec(bases, i, pe, se, None)), true));
    }
    // whole-directory reads of the real database with one damaged chunk
    for _ in 0..(per / 6).max(2) {
        let bad = rng.below(nb as u64) as usize;
        let specs = (0..nb).map(|i| if i != bad { real_spec(bases, i, vec![], vec![], None) } else {
            match rng.below(4) {
                0 => real_spec(bases, i, vec![corrupt_primary(rng, &bases[i])], vec![], None),
                1 => real_spec(bases, i, vec![], vec![corrupt_secondary(rng, &bases[i])], None),
                2 => real_spec(bases, i, vec![Edit::Trunc(rng.below(30) as usize)], vec![], None),
                _ => real_spec(bases, i, vec![], vec![Edit::Trunc(rng.below(bases[i].sec.len() as u64) as usize)], None),
            } }).collect();
        g.out.push(("db-one-damaged-chunk".into(), Call::Db(specs), true));
    }
    // synthetic small databases
    for _ in 0..n {
        if rng.chance(2, 3) {
            g.out.push(("synthetic-chunk".into(), Call::Chunk(synth(rng, 7)), true));
        } else {
            let k = rng.range(1, 4) as u32;
            let first = rng.range(1, 99990) as u32;
            let mut specs: Vec<Spec> = (0..k).map(|j| synth(rng, first + j)).collect();
            if rng.bool() { specs.reverse(); }
            g.out.push(("synthetic-db".into(), Call::Db(specs), true));
        }
    }
    g.out
}

// ------------------------------------------------------------------ processes

fn call_specs(c: &Call) -> Vec<&Spec> { match c { Call::Chunk(s) => vec![s], Call::Db(v) => v.iter().collect() } }
fn describe(c: &Call, bases: &[Base], profile: &str) -> String {
    let what = match c { Call::Chunk(_) => "chunk::read_blocks(dir,name) drained", Call::Db(_) => "immutable::read_blocks(dir) drained" };
    format!("profile={} call={} files={}", profile, what, call_specs(c).iter().map(|s| txt_spec(s, bases)).collect::<Vec<_>>().join(" "))
}
fn damaged(c: &Call) -> &'static str {
    let mut p = false; let mut q = false; let mut lit = false;
    for s in call_specs(c) {
        match &s.prim { Src::Real(_, es) => p |= !es.is_empty(), Src::Lit(_) => lit = true }
        match &s.sec { Src::Real(_, es) => q |= !es.is_empty(), Src::Lit(_) => lit = true }
    }
    if lit { "synthetic" } else if p && q { "primary+secondary" } else if p { "primary" } else if q { "secondary" } else { "chunk" }
}

fn worker(a: &Args, scratch: &Path, skip: usize, part: usize, parts: usize, profile: &str) {
    let bases = load_bases();
    let mut rng = Rng::new(a.seed);
    let thorough = a.tier == "thorough";
    let cases = generate(&mut rng, &bases, a.n, thorough);
    let ovf = cfg!(debug_assertions);
    let mut sc = Scratch { dir: scratch.to_path_buf(), present: Default::default() };
    let _ = std::fs::remove_dir_all(scratch);
    std::fs::create_dir_all(scratch).expect("scratch dir");
    let mut samples = 0;
    let parent = std::os::unix::process::parent_id();
    for (k, (tag, call, to_model)) in cases.iter().enumerate() {
        if k < skip || k % parts != part { continue; }
        // the supervisor was killed (e.g. a timeout of the check): stop and clean up
        if k % 64 == part % 64 && std::os::unix::process::parent_id() != parent { let _ = std::fs::remove_dir_all(scratch); std::process::exit(4); }
        println!("BEGIN\t{}\t{}\t{}", k, damaged(call), describe(call, &bases, profile));
        let mut bad_content = false;
        let obs = run_call(call, &mut sc, &bases, &mut bad_content);
        let panic_msg = match &obs { Obs::Panic(_, m) => Some(m.clone()), Obs::Items(_, Some(m)) => Some(m.clone()), _ => None };
        if let Some(m) = panic_msg {
            emit_oracle_fail(&format!("{}:{}", damaged(call), panic_key(&m)), &format!("{} observed={}", describe(call, &bases, profile), txt_obs(&obs)));
        }
        if bad_content {
            emit_oracle_fail("block-content", &format!("{} a block returned before any error is not the next span of the chunk file", describe(call, &bases, profile)));
        }
        if samples < 4 && tag.starts_with("corrupt") { emit_sample(&format!("{} observed={}", describe(call, &bases, profile), txt_obs(&obs))); samples += 1; }
        if !a.oracle_only && *to_model {
            let c = match call { Call::Chunk(s) => format!("ChunkCall {}", coq_spec(s, &bases)), Call::Db(v) => format!("DbCall {}", coq_list(v, |s| coq_spec(s, &bases))) };
            emit_case(tag, &format!("({},{},{})", coq_bool(ovf), c, coq_expect(&obs)));
        }
    }
    println!("END\t{}", cases.len());
    emit_stat("impl_runs_oracle", (skip..cases.len()).filter(|k| k % parts == part).count() as u64);
}

/// scratch directories of runs whose process no longer exists (killed by a timeout)
fn remove_stale_scratch(cache: &Path, prefix: &str) {
    if let Ok(rd) = std::fs::read_dir(cache) {
        for e in rd.filter_map(|e| e.ok()) {
            let name = e.file_name().to_string_lossy().to_string();
            if let Some(pid) = name.strip_prefix(prefix) {
                if pid.parse::<u32>().is_ok() && !Path::new("/proc").join(pid).exists() { let _ = std::fs::remove_dir_all(e.path()); }
            }
        }
    }
}

fn main() {
    let a = args();
    loud();
    let mut scratch: Option<PathBuf> = None;
    let mut skip = 0usize;
    let mut is_worker = false;
    let (mut part, mut parts) = (0usize, 1usize);
    let mut profile = if cfg!(debug_assertions) { "dev".to_string() } else { "release".to_string() };
    let mut i = 0;
    while i < a.extra.len() {
        match a.extra[i].as_str() {
            "--worker" => { is_worker = true; i += 1; }
            "--scratch" => { scratch = Some(PathBuf::from(&a.extra[i + 1])); i += 2; }
            "--skip" => { skip = a.extra[i + 1].parse().unwrap(); i += 2; }
            "--part" => { part = a.extra[i + 1].parse().unwrap(); parts = a.extra[i + 2].parse().unwrap(); i += 3; }
            "--profile" => { profile = a.extra[i + 1].clone(); i += 2; }
            _ => { i += 1; }
        }
    }
    if is_worker { worker(&a, &scratch.expect("--scratch"), skip, part, parts, &profile); return; }

    // supervisor: P workers, worker j runs the cases with index = j (mod P); the output
    // lines are collected with their case index and printed in case order, so the run is
    // reproducible from (seed, tier, n) whatever the scheduling.
    let verif = std::env::var("VERIF_DIR").unwrap_or_else(|_| "/verif".into());
    let dir = Path::new(&verif).join(".cache").join(format!("scratch-c43-{}", std::process::id()));
    let exe = std::env::current_exe().expect("current_exe");
    remove_stale_scratch(&Path::new(&verif).join(".cache"), "scratch-c43-");
    let nparts = std::thread::available_parallelism().map(|n| n.get()).unwrap_or(4).clamp(1, 8);
    let lines: std::sync::Mutex<Vec<(usize, usize, String)>> = std::sync::Mutex::new(vec![]);
    let restarts = std::sync::atomic::AtomicU64::new(0);
    let failed = std::sync::atomic::AtomicBool::new(false);
    std::thread::scope(|sc| {
        for j in 0..nparts {
            let (a, dir, exe, profile, lines, restarts, failed) = (&a, &dir, &exe, &profile, &lines, &restarts, &failed);
            sc.spawn(move || {
                let wdir = dir.join(format!("w{}", j));
                let mut skip = 0usize;
                let mut finished = false;
                let mut my_restarts = 0;
                let mut seq = 0usize;
                while !finished && my_restarts <= 300 {
                    let mut cmd = Command::new(exe);
                    cmd.args(["--seed", &a.seed.to_string(), "--n", &a.n.to_string(), "--tier", &a.tier, "--profile", profile,
                              "--worker", "--scratch", wdir.to_str().unwrap(), "--skip", &skip.to_string(),
                              "--part", &j.to_string(), &nparts.to_string()]);
                    if a.oracle_only { cmd.arg("--oracle-only"); }
                    let mut child = cmd.stdout(Stdio::piped()).stderr(Stdio::inherit()).spawn().expect("spawn worker");
                    let rd = BufReader::new(child.stdout.take().unwrap());
                    let mut inflight: Option<(usize, String, String)> = None;
                    let mut cur = 0usize;
                    for line in rd.lines() {
                        let line = match line { Ok(l) => l, Err(_) => break };
                        if let Some(rest) = line.strip_prefix("BEGIN\t") {
                            let f: Vec<&str> = rest.splitn(3, '\t').collect();
                            cur = f[0].parse().unwrap();
                            inflight = Some((cur, f[1].to_string(), f[2].to_string()));
                        } else if line.starts_with("END\t") {
                            finished = true; inflight = None;
                        } else {
                            let idx = if line.starts_with("STAT\t") { usize::MAX } else { cur };
                            lines.lock().unwrap().push((idx, seq, line)); seq += 1;
                        }
                    }
                    let status = child.wait().expect("wait");
                    if !finished {
                        match inflight {
                            Some((k, dmg, desc)) => {
                                lines.lock().unwrap().push((k, seq, format!("ORACLE_FAIL\t{}:process-abort\t{} observed=the process was terminated ({}) - allocation failure / abort, not even a catchable panic", dmg, desc, status)));
                                seq += 1;
                                skip = k + 1;
                                my_restarts += 1;
                                restarts.fetch_add(1, std::sync::atomic::Ordering::SeqCst);
                            }
                            None => { eprintln!("worker {} died before its first case: {}", j, status); failed.store(true, std::sync::atomic::Ordering::SeqCst); return; }
                        }
                    }
                }
                if !finished { eprintln!("worker {}: too many restarts", j); failed.store(true, std::sync::atomic::Ordering::SeqCst); }
            });
        }
    });
    let _ = std::fs::remove_dir_all(&dir);
    if failed.load(std::sync::atomic::Ordering::SeqCst) { std::process::exit(3); }
    let mut all = lines.into_inner().unwrap();
    all.sort_by(|x, y| (x.0, x.1).cmp(&(y.0, y.1)));
    let out = std::io::stdout();
    let mut o = out.lock();
    for (_, _, l) in all { let _ = writeln!(o, "{}", l); }
    drop(o);
    emit_stat("worker_restarts", restarts.load(std::sync::atomic::Ordering::SeqCst));
}
