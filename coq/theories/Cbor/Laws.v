(* CBOR core — the item-level laws.

     dec_enc    : wf_item i = true -> decode_item (fuel_of i) (encode_item i ++ r) = DOk (i, r)
     dec_enc_ge : ... for every fuel >= fuel_of i
     enc_dec    : decode_item f bs = DOk (i, r) -> bs = encode_item i ++ r /\ wf_item i = true
     decode_complete / decode_sound : the same for the fuel-free [decode]

   plus the generic laws of the element loops ([seq_loop], [until_loop],
   [pair_dec]) for any payload codec. *)
From PV Require Import Lib.Base Cbor.Item Cbor.Enc Cbor.Dec Cbor.HeadLaws.
Open Scope Z_scope.

(* ---------------------------------------------------------------- loops *)
Section LoopLaws.
  Context {A : Type} (dec : list Z -> dres (A * list Z)) (enc : A -> list Z) (P : A -> Prop).

  Definition dec_sound_for : Prop :=
    forall bs x r, dec bs = DOk (x, r) -> bs = enc x ++ r /\ P x.

  Lemma seq_loop_sound :
    dec_sound_for ->
    forall k n bs xs r, 0 <= n -> seq_loop dec k n bs = DOk (xs, r) ->
      bs = concat (map enc xs) ++ r /\ Forall P xs /\ len xs = n.
  Proof.
    intros Hd. induction k as [|k IH]; intros n bs xs r Hn; cbn [seq_loop].
    - destruct (n <=? 0) eqn:E; [|discriminate]. intros H; inversion H; subst.
      cbn. repeat split; [constructor | unfold len; cbn; lia].
    - destruct (n <=? 0) eqn:E.
      + intros H; inversion H; subst. cbn. repeat split; [constructor | unfold len; cbn; lia].
      + intros H. apply dbind_ok in H as ([x r1] & Hx & H).
        apply dbind_ok in H as ([xs' r2] & Hxs & H). inversion H; subst; clear H.
        apply Hd in Hx as [-> Px]. apply IH in Hxs as (-> & Pxs & Hl); [|lia].
        cbn [map concat]. rewrite <- app_assoc. repeat split; [constructor; assumption|].
        rewrite len_cons. lia.
  Qed.

  Lemma until_loop_sound :
    dec_sound_for ->
    forall k bs xs r, until_loop dec k bs = DOk (xs, r) ->
      bs = concat (map enc xs) ++ break_byte :: r /\ Forall P xs.
  Proof.
    intros Hd. induction k as [|k IH]; intros bs xs r; cbn [until_loop]; [discriminate|].
    destruct bs as [|b t]; [discriminate|].
    destruct (b =? break_byte) eqn:E.
    - intros H; inversion H; subst. cbn. split; [f_equal; lia|constructor].
    - intros H. apply dbind_ok in H as ([x r1] & Hx & H).
      apply dbind_ok in H as ([xs' r2] & Hxs & H). inversion H; subst; clear H.
      apply Hd in Hx as [Hb Px]. apply IH in Hxs as (-> & Pxs).
      cbn [map concat]. rewrite <- app_assoc. split; [exact Hb|constructor; assumption].
  Qed.

End LoopLaws.

Section LoopComplete.
  Context {A : Type} (dec : list Z -> dres (A * list Z)) (enc : A -> list Z).

  Lemma seq_loop_complete xs :
    Forall (fun x => forall r, dec (enc x ++ r) = DOk (x, r)) xs ->
    forall k r, (length xs <= k)%nat ->
      seq_loop dec k (len xs) (concat (map enc xs) ++ r) = DOk (xs, r).
  Proof.
    induction 1 as [|x xs Hx _ IH]; intros k r Hk.
    - destruct k; reflexivity.
    - cbn [length] in Hk. destruct k as [|k]; [lia|]. cbn [seq_loop].
      rewrite len_cons. destruct (1 + len xs <=? 0) eqn:E; [pose proof (len_nonneg xs); lia|].
      cbn [map concat]. rewrite <- app_assoc, Hx. cbn [dbind].
      replace (1 + len xs - 1) with (len xs) by lia. rewrite IH by lia. reflexivity.
  Qed.

  Lemma until_loop_complete xs :
    Forall (fun x => (forall r, dec (enc x ++ r) = DOk (x, r)) /\
                     exists b t, enc x = b :: t /\ b <> break_byte) xs ->
    forall k r, (length xs < k)%nat ->
      until_loop dec k (concat (map enc xs) ++ break_byte :: r) = DOk (xs, r).
  Proof.
    induction 1 as [|x xs [Hx (b & t & Hb & Hne)] _ IH]; intros k r Hk.
    - destruct k; [lia|]. reflexivity.
    - cbn [length] in Hk. destruct k as [|k]; [lia|]. cbn [until_loop map concat].
      rewrite <- app_assoc. specialize (Hx (concat (map enc xs) ++ break_byte :: r)).
      rewrite Hb in *. cbn [app] in *.
      destruct (b =? break_byte) eqn:E; [lia|].
      rewrite Hx. cbn [dbind]. rewrite IH by lia. reflexivity.
  Qed.

End LoopComplete.

(* the encodings of the elements are non-empty, so [budget] steps are enough *)
Lemma concat_length_ge {A} (enc : A -> list Z) xs :
  Forall (fun x => enc x <> []) xs -> (length xs <= length (concat (map enc xs)))%nat.
Proof.
  induction 1 as [|x xs Hx _ IH]; [cbn; lia|].
  cbn [map concat length]. rewrite app_length. destruct (enc x); [congruence|]. cbn [length]. lia.
Qed.

Section PairLaws.
  Context {A B : Type} (dk : list Z -> dres (A * list Z)) (dv : list Z -> dres (B * list Z))
          (ek : A -> list Z) (ev : B -> list Z) (Pk : A -> Prop) (Pv : B -> Prop).

  Lemma pair_dec_sound :
    dec_sound_for dk ek Pk -> dec_sound_for dv ev Pv ->
    dec_sound_for (pair_dec dk dv) (fun kv => ek (fst kv) ++ ev (snd kv)) (fun kv => Pk (fst kv) /\ Pv (snd kv)).
  Proof.
    intros Hk Hv bs [k v] r H. unfold pair_dec in H.
    apply dbind_ok in H as ([k' r1] & Hk' & H). apply dbind_ok in H as ([v' r2] & Hv' & H).
    inversion H; subst; clear H. apply Hk in Hk' as [-> Pk']. apply Hv in Hv' as [-> Pv'].
    cbn [fst snd]. rewrite <- app_assoc. auto.
  Qed.

  Lemma pair_dec_complete k v :
    (forall r, dk (ek k ++ r) = DOk (k, r)) -> (forall r, dv (ev v ++ r) = DOk (v, r)) ->
    forall r, pair_dec dk dv ((ek k ++ ev v) ++ r) = DOk ((k, v), r).
  Proof.
    intros Hk Hv r. unfold pair_dec. rewrite <- app_assoc, Hk. cbn [dbind]. rewrite Hv. reflexivity.
  Qed.
End PairLaws.

(* ---------------------------------------------------------------- unfolding helpers *)
Definition wf_pair (kv : item * item) : bool := wf_item (fst kv) && wf_item (snd kv).

Lemma encode_map_pairs kvs :
  concat (map (fun '(k, v) => encode_item k ++ encode_item v) kvs) = encode_pairs kvs.
Proof. unfold encode_pairs. f_equal. apply map_ext. intros [k v]. reflexivity. Qed.

Lemma wf_map_pairs kvs :
  forallb (fun '(k, v) => wf_item k && wf_item v) kvs = forallb wf_pair kvs.
Proof. induction kvs as [|[k v] t IH]; [reflexivity|]. cbn [forallb]. rewrite IH. reflexivity. Qed.

Lemma encode_Map w kvs : encode_item (Map w kvs) = enc_head MajMap w (len kvs) ++ encode_pairs kvs.
Proof. cbn [encode_item]. rewrite encode_map_pairs. reflexivity. Qed.
Lemma encode_MapIndef kvs : encode_item (MapIndef kvs) = enc_indef MajMap ++ encode_pairs kvs ++ [break_byte].
Proof. cbn [encode_item]. rewrite encode_map_pairs. reflexivity. Qed.
Lemma encode_Array w xs : encode_item (Array w xs) = enc_head MajArray w (len xs) ++ encode_items xs.
Proof. reflexivity. Qed.
Lemma encode_ArrayIndef xs : encode_item (ArrayIndef xs) = enc_indef MajArray ++ encode_items xs ++ [break_byte].
Proof. reflexivity. Qed.
Lemma wf_Map w kvs : wf_item (Map w kvs) = arg_fitsb w (len kvs) && forallb wf_pair kvs.
Proof. cbn [wf_item]. rewrite wf_map_pairs. reflexivity. Qed.
Lemma wf_MapIndef kvs : wf_item (MapIndef kvs) = forallb wf_pair kvs.
Proof. cbn [wf_item]. rewrite wf_map_pairs. reflexivity. Qed.

Lemma forallb_Forall {A} (f : A -> bool) l : forallb f l = true <-> Forall (fun x => f x = true) l.
Proof. rewrite forallb_forall, Forall_forall. reflexivity. Qed.

(* ---------------------------------------------------------------- chunks *)
Definition wf_chunk (m : major) (c : width * list Z) : Prop :=
  arg_fits (fst c) (len (snd c)) /\ bytes_wf (snd c) /\ (m = MajText -> utf8_valid (snd c) = true).

Lemma dec_head_major b t m h r : dec_head (b :: t) = DOk (m, h, r) -> m = major_of_code (b / 32).
Proof.
  unfold dec_head. destruct (negb (byteb b)); [discriminate|].
  destruct (b mod 32 <? 24); [intros H; inversion H; reflexivity|].
  destruct (b mod 32 =? 31); [intros H; inversion H; reflexivity|].
  destruct (width_of_info (b mod 32)); [|discriminate].
  intros H. apply dbind_ok in H as ([a r'] & _ & H). inversion H; reflexivity.
Qed.

Lemma enc_head_first_facts m w n : arg_fits w n ->
  exists b t, enc_head m w n = b :: t /\ byteb b = true /\ major_of_code (b / 32) = m /\ (b mod 32 =? 31) = false.
Proof.
  intros Hfit. unfold arg_fits in Hfit.
  destruct w; cbn [enc_head width_info width_bound] in *; eexists; eexists; (split; [reflexivity|]);
    match goal with |- byteb (major_code m * 32 + ?i) = true /\ _ =>
      destruct (initial_byte m i ltac:(lia)) as (Hb & Hm & Hi); rewrite Hb, Hm, Hi; repeat split; lia end.
Qed.

Lemma dec_chunk_sound m : dec_sound_for (dec_chunk m) (enc_chunk m) (wf_chunk m).
Proof.
  intros bs [w b] r H. unfold dec_chunk in H. destruct bs as [|b0 t0]; [discriminate|].
  destruct (negb (byteb b0)); [discriminate|].
  destruct (major_eqb (major_of_code (b0 / 32)) m && negb (b0 mod 32 =? 31)) eqn:Ec;
    [|unfold mismatch in H; destruct ((56 <=? b0) && (b0 <=? 59)); [destruct t0 as [|? [|? ?]]|]; discriminate].
  apply andb_true_iff in Ec as [Em _]. apply major_eqb_spec in Em.
  apply dbind_ok in H as ([[m' h] r0] & Hh & H). destruct h as [w' n|]; [|discriminate].
  pose proof (dec_head_major _ _ _ _ _ Hh) as Hm'. rewrite Em in Hm'. subst m'.
  apply dbind_ok in H as ([b' r'] & Ht & H).
  apply dec_head_sound_arg in Hh as [Hbs Hfit]. rewrite Hbs.
  apply take_sound in Ht as (-> & Hlen & Hwf); [|unfold arg_fits in Hfit; lia].
  destruct (major_eqb m MajText && negb (utf8_valid b')) eqn:Eu; [discriminate|].
  inversion H; subst; clear H. unfold enc_chunk, wf_chunk. cbn [fst snd]. rewrite <- app_assoc.
  split; [reflexivity|]. split; [exact Hfit|]. split; [exact Hwf|].
  intros Hmt. rewrite Hmt in Eu. rewrite major_eqb_refl in Eu. cbn in Eu. destruct (utf8_valid b); [reflexivity|discriminate].
Qed.

Lemma dec_chunk_complete m c r :
  wf_chunk m c -> (m = MajText \/ m = MajBytes) -> dec_chunk m (enc_chunk m c ++ r) = DOk (c, r).
Proof.
  destruct c as [w b]. intros (Hfit & Hwf & Hu) Hm. unfold enc_chunk. cbn [fst snd] in *.
  rewrite <- app_assoc. pose proof (dec_head_enc m w (len b) (b ++ r) Hfit) as Hd.
  destruct (enc_head_first_facts m w (len b) Hfit) as (b0 & t0 & E & Hb0 & Hm0 & H31).
  rewrite E in *. cbn [app] in *. unfold dec_chunk. rewrite Hb0, Hm0, H31, major_eqb_refl. cbn [negb andb].
  rewrite Hd. cbn [dbind]. rewrite take_app by exact Hwf. cbn [dbind].
  destruct Hm as [-> | ->].
  - rewrite Hu by reflexivity. reflexivity.
  - reflexivity.
Qed.

Lemma wf_bchunk_spec c : wf_bchunk c = true <-> wf_chunk MajBytes c.
Proof.
  unfold wf_bchunk, wf_chunk. rewrite andb_true_iff, arg_fitsb_spec, bytes_wfb_spec.
  split.
  - intros [H1 H2]. split; [exact H1|]. split; [exact H2|]. discriminate.
  - intros (H1 & H2 & _). split; assumption.
Qed.

Lemma wf_tchunk_spec c : wf_tchunk c = true <-> wf_chunk MajText c.
Proof.
  unfold wf_tchunk, wf_chunk. rewrite !andb_true_iff, arg_fitsb_spec, bytes_wfb_spec.
  split.
  - intros [[H1 H2] H3]. split; [exact H1|]. split; [exact H2|]. intros _. exact H3.
  - intros (H1 & H2 & H3). split; [split; assumption|]. apply H3. reflexivity.
Qed.

Lemma enc_chunk_first m c : wf_chunk m c -> exists b t, enc_chunk m c = b :: t /\ b <> break_byte.
Proof.
  intros (Hfit & _). destruct (enc_head_first m (fst c) (len (snd c)) Hfit) as (b & t & E & Hb).
  unfold enc_chunk. rewrite E. cbn [app]. exists b, (t ++ snd c). split; [reflexivity|unfold break_byte; lia].
Qed.

(* ---------------------------------------------------------------- first byte / size *)
Lemma encode_item_first i :
  wf_item i = true -> exists b t, encode_item i = b :: t /\ b <> break_byte.
Proof.
  assert (Hh : forall m w n rest, arg_fits w n -> exists b t, enc_head m w n ++ rest = b :: t /\ b <> break_byte).
  { intros m w n rest Hn. destruct (enc_head_first m w n Hn) as (b & t & E & Hb). rewrite E. cbn [app].
    exists b, (t ++ rest). split; [reflexivity|unfold break_byte; lia]. }
  assert (Hi : forall m rest, (m = MajBytes \/ m = MajText \/ m = MajArray \/ m = MajMap) ->
               exists b t, enc_indef m ++ rest = b :: t /\ b <> break_byte).
  { intros m rest Hm. unfold enc_indef. cbn [app]. eexists; eexists; split; [reflexivity|].
    unfold break_byte. destruct Hm as [->|[->|[->| ->]]]; cbn; lia. }
  destruct i; cbn [wf_item encode_item]; intros Hwf.
  - rewrite <- (app_nil_r (enc_head _ _ _)). apply Hh, arg_fitsb_spec, Hwf.
  - rewrite <- (app_nil_r (enc_head _ _ _)). apply Hh, arg_fitsb_spec, Hwf.
  - apply andb_true_iff in Hwf as [H _]. apply Hh, arg_fitsb_spec, H.
  - apply Hi. tauto.
  - apply andb_true_iff in Hwf as [H _]. apply andb_true_iff in H as [H _]. apply Hh, arg_fitsb_spec, H.
  - apply Hi. tauto.
  - apply andb_true_iff in Hwf as [H _]. apply Hh, arg_fitsb_spec, H.
  - apply Hi. tauto.
  - apply andb_true_iff in Hwf as [H _]. apply Hh, arg_fitsb_spec, H.
  - apply Hi. tauto.
  - apply andb_true_iff in Hwf as [H _]. apply Hh, arg_fitsb_spec, H.
  - rewrite <- (app_nil_r (enc_head _ _ _)). apply Hh, arg_fitsb_spec, Hwf.
Qed.

Lemma encode_item_nonempty i : wf_item i = true -> encode_item i <> [].
Proof. intros H. destruct (encode_item_first i H) as (b & t & E & _). rewrite E. discriminate. Qed.

(* ---------------------------------------------------------------- soundness *)
Lemma enc_dec_aux f :
  dec_sound_for (decode_item f) encode_item (fun i => wf_item i = true).
Proof.
  induction f as [|f IH]; intros bs i r; cbn [decode_item]; [discriminate|].
  intros H. apply dbind_ok in H as ([[m h] r0] & Hh & H).
  pose proof (pair_dec_sound _ _ _ _ _ _ IH IH) as IHp.
  destruct h as [w n|].
  - apply dec_head_sound_arg in Hh as [-> Hfit].
    assert (Hn : 0 <= n) by (unfold arg_fits in Hfit; lia).
    pose proof Hfit as Hfitb. apply arg_fitsb_spec in Hfitb.
    destruct m.
    + inversion H; subst. cbn [encode_item wf_item]. auto.
    + inversion H; subst. cbn [encode_item wf_item]. auto.
    + apply dbind_ok in H as ([b r'] & Ht & H). inversion H; subst; clear H.
      apply take_sound in Ht as (-> & <- & Hwf); [|exact Hn].
      cbn [encode_item wf_item]. rewrite <- app_assoc. split; [reflexivity|].
      rewrite Hfitb. apply bytes_wfb_spec in Hwf. rewrite Hwf. reflexivity.
    + apply dbind_ok in H as ([b r'] & Ht & H).
      destruct (utf8_valid b) eqn:Hu; [|discriminate]. inversion H; subst; clear H.
      apply take_sound in Ht as (-> & <- & Hwf); [|exact Hn].
      cbn [encode_item wf_item]. rewrite <- app_assoc. split; [reflexivity|].
      rewrite Hfitb, Hu. apply bytes_wfb_spec in Hwf. rewrite Hwf. reflexivity.
    + apply dbind_ok in H as ([xs r'] & Hl & H). inversion H; subst; clear H.
      eapply seq_loop_sound in Hl as (-> & Hxs & <-); [|exact IH|exact Hn].
      rewrite encode_Array. unfold encode_items. rewrite <- app_assoc. split; [reflexivity|].
      cbn [wf_item]. rewrite Hfitb. apply forallb_Forall in Hxs. rewrite Hxs. reflexivity.
    + apply dbind_ok in H as ([kvs r'] & Hl & H). inversion H; subst; clear H.
      eapply seq_loop_sound in Hl as (-> & Hxs & <-); [|exact IHp|exact Hn].
      rewrite encode_Map, wf_Map. unfold encode_pairs, encode_pair. rewrite <- app_assoc.
      split; [reflexivity|]. rewrite Hfitb. cbn [andb]. apply forallb_Forall.
      eapply Forall_impl; [|exact Hxs]. intros [k v] [Hk Hv]. unfold wf_pair. cbn [fst snd] in *.
      rewrite Hk, Hv. reflexivity.
    + apply dbind_ok in H as ([x r'] & Hx & H). inversion H; subst; clear H.
      apply IH in Hx as [-> Hwf]. cbn [encode_item wf_item]. rewrite <- app_assoc.
      split; [reflexivity|]. rewrite Hfitb, Hwf. reflexivity.
    + inversion H; subst. cbn [encode_item wf_item]. auto.
  - apply dec_head_sound_indef in Hh as ->.
    destruct m; try discriminate.
    + apply dbind_ok in H as ([cs r'] & Hl & H). inversion H; subst; clear H.
      eapply until_loop_sound in Hl as (-> & Hcs); [|apply dec_chunk_sound].
      cbn [encode_item wf_item]. rewrite <- !app_assoc. split; [reflexivity|].
      apply forallb_Forall. eapply Forall_impl; [|exact Hcs]. intros c Hc. apply wf_bchunk_spec, Hc.
    + apply dbind_ok in H as ([cs r'] & Hl & H). inversion H; subst; clear H.
      eapply until_loop_sound in Hl as (-> & Hcs); [|apply dec_chunk_sound].
      cbn [encode_item wf_item]. rewrite <- !app_assoc. split; [reflexivity|].
      apply forallb_Forall. eapply Forall_impl; [|exact Hcs]. intros c Hc. apply wf_tchunk_spec, Hc.
    + apply dbind_ok in H as ([xs r'] & Hl & H). inversion H; subst; clear H.
      eapply until_loop_sound in Hl as (-> & Hxs); [|exact IH].
      rewrite encode_ArrayIndef. unfold encode_items. rewrite <- !app_assoc. split; [reflexivity|].
      cbn [wf_item]. apply forallb_Forall, Hxs.
    + apply dbind_ok in H as ([kvs r'] & Hl & H). inversion H; subst; clear H.
      eapply until_loop_sound in Hl as (-> & Hxs); [|exact IHp].
      rewrite encode_MapIndef, wf_MapIndef. unfold encode_pairs, encode_pair. rewrite <- !app_assoc.
      split; [reflexivity|]. apply forallb_Forall.
      eapply Forall_impl; [|exact Hxs]. intros [k v] [Hk Hv]. unfold wf_pair. cbn [fst snd] in *.
      rewrite Hk, Hv. reflexivity.
Qed.

(* The consumed slice IS the encoding of the decoded item (what KeepRaw,
   AnyCbor and [skip] rely on), and decoded items are well-formed. *)
Theorem enc_dec f bs i r :
  decode_item f bs = DOk (i, r) -> bs = encode_item i ++ r /\ wf_item i = true.
Proof. apply enc_dec_aux. Qed.

(* ---------------------------------------------------------------- completeness *)
Lemma fuel_items_le xs f :
  (fold_right (fun x m => Nat.max (fuel_of x) m) O xs <= f)%nat -> Forall (fun x => (fuel_of x <= f)%nat) xs.
Proof. induction xs as [|x xs IH]; cbn [fold_right]; intros H; constructor; [lia|apply IH; lia]. Qed.

Lemma fuel_pairs_le kvs f :
  (fold_right (fun '(k, v) m => Nat.max (Nat.max (fuel_of k) (fuel_of v)) m) O kvs <= f)%nat ->
  Forall (fun kv => (fuel_of (fst kv) <= f)%nat /\ (fuel_of (snd kv) <= f)%nat) kvs.
Proof.
  induction kvs as [|[k v] t IH]; cbn [fold_right]; intros H; constructor; [cbn; lia|apply IH; lia].
Qed.

Definition dec_complete_at (f : nat) (i : item) : Prop :=
  forall r, decode_item f (encode_item i ++ r) = DOk (i, r).

Lemma items_ready xs f :
  Forall (fun i => wf_item i = true -> forall f, (fuel_of i <= f)%nat -> dec_complete_at f i) xs ->
  forallb wf_item xs = true ->
  (fold_right (fun x m => Nat.max (fuel_of x) m) O xs <= f)%nat ->
  Forall (fun x => (forall r, decode_item f (encode_item x ++ r) = DOk (x, r)) /\
                   exists b t, encode_item x = b :: t /\ b <> break_byte) xs.
Proof.
  intros HP Hwf Hf. apply forallb_Forall in Hwf. apply fuel_items_le in Hf.
  rewrite Forall_forall in *. intros x Hx. split.
  - apply HP; auto.
  - apply encode_item_first. auto.
Qed.

Lemma pairs_ready kvs f :
  Forall (fun kv =>
    (wf_item (fst kv) = true -> forall f, (fuel_of (fst kv) <= f)%nat -> dec_complete_at f (fst kv)) /\
    (wf_item (snd kv) = true -> forall f, (fuel_of (snd kv) <= f)%nat -> dec_complete_at f (snd kv))) kvs ->
  forallb wf_pair kvs = true ->
  (fold_right (fun '(k, v) m => Nat.max (Nat.max (fuel_of k) (fuel_of v)) m) O kvs <= f)%nat ->
  Forall (fun kv => (forall r, pair_dec (decode_item f) (decode_item f) (encode_pair kv ++ r) = DOk (kv, r)) /\
                    exists b t, encode_pair kv = b :: t /\ b <> break_byte) kvs.
Proof.
  intros HP Hwf Hf. apply forallb_Forall in Hwf. apply fuel_pairs_le in Hf.
  rewrite Forall_forall in *. intros [k v] Hx.
  specialize (HP _ Hx) as [HPk HPv]. specialize (Hwf _ Hx). specialize (Hf _ Hx) as [Hfk Hfv].
  unfold wf_pair in Hwf. cbn [fst snd] in *. apply andb_true_iff in Hwf as [Hwk Hwv]. split.
  - intros r. unfold encode_pair. cbn [fst snd].
    apply (pair_dec_complete (decode_item f) (decode_item f) encode_item encode_item k v).
    + apply HPk; assumption.
    + apply HPv; assumption.
  - destruct (encode_item_first k Hwk) as (b & t & E & Hb). unfold encode_pair. cbn [fst snd].
    rewrite E. cbn [app]. eauto.
Qed.

Lemma ready_nonempty {A} (dec : list Z -> dres (A * list Z)) (enc : A -> list Z) xs :
  Forall (fun x => (forall r, dec (enc x ++ r) = DOk (x, r)) /\
                   exists b t, enc x = b :: t /\ b <> break_byte) xs ->
  Forall (fun x => forall r, dec (enc x ++ r) = DOk (x, r)) xs /\ Forall (fun x => enc x <> []) xs.
Proof.
  intros H. split; eapply Forall_impl; try exact H; cbn.
  - intros x [Hx _]. exact Hx.
  - intros x [_ (b & t & E & _)]. rewrite E. discriminate.
Qed.

Lemma budget_app_ge {A} (enc : A -> list Z) xs r :
  Forall (fun x => enc x <> []) xs -> (length xs < budget (concat (map enc xs) ++ r))%nat.
Proof.
  intros H. apply (concat_length_ge enc) in H. unfold budget. rewrite app_length. lia.
Qed.

Lemma dec_enc_all i :
  wf_item i = true -> forall f, (fuel_of i <= f)%nat -> dec_complete_at f i.
Proof.
  induction i as [w n|w n|w b|cs|w b|cs|w xs IHxs|xs IHxs|w kvs IHkvs|kvs IHkvs|w t x IHx|w n]
    using item_ind'; intros Hwf f Hf r;
    (destruct f as [|f]; [cbn [fuel_of] in Hf; lia|]); cbn [decode_item].
  - cbn [wf_item encode_item] in *. apply arg_fitsb_spec in Hwf. rewrite dec_head_enc by exact Hwf. reflexivity.
  - cbn [wf_item encode_item] in *. apply arg_fitsb_spec in Hwf. rewrite dec_head_enc by exact Hwf. reflexivity.
  - cbn [wf_item encode_item] in *. apply andb_true_iff in Hwf as [Hfit Hb].
    apply arg_fitsb_spec in Hfit. apply bytes_wfb_spec in Hb.
    rewrite <- app_assoc, dec_head_enc by exact Hfit. cbn [dbind]. rewrite take_app by exact Hb. reflexivity.
  - cbn [wf_item encode_item] in *. rewrite <- !app_assoc, dec_head_indef. cbn [dbind app].
    apply forallb_Forall in Hwf.
    assert (Hready : Forall (fun c => (forall r, dec_chunk MajBytes (enc_chunk MajBytes c ++ r) = DOk (c, r)) /\
                                       exists b t, enc_chunk MajBytes c = b :: t /\ b <> break_byte) cs).
    { eapply Forall_impl; [|exact Hwf]. intros c Hc. apply wf_bchunk_spec in Hc. split.
      - intros r'. apply dec_chunk_complete; auto.
      - apply enc_chunk_first with (m := MajBytes), Hc. }
    rewrite (until_loop_complete _ _ _ Hready); [reflexivity|].
    apply ready_nonempty in Hready as [_ Hne]. apply (budget_app_ge _ _ (break_byte :: r)) in Hne. exact Hne.
  - cbn [wf_item encode_item] in *. apply andb_true_iff in Hwf as [Hwf Hu]. apply andb_true_iff in Hwf as [Hfit Hb].
    apply arg_fitsb_spec in Hfit. apply bytes_wfb_spec in Hb.
    rewrite <- app_assoc, dec_head_enc by exact Hfit. cbn [dbind]. rewrite take_app by exact Hb.
    cbn [dbind]. rewrite Hu. reflexivity.
  - cbn [wf_item encode_item] in *. rewrite <- !app_assoc, dec_head_indef. cbn [dbind app].
    apply forallb_Forall in Hwf.
    assert (Hready : Forall (fun c => (forall r, dec_chunk MajText (enc_chunk MajText c ++ r) = DOk (c, r)) /\
                                       exists b t, enc_chunk MajText c = b :: t /\ b <> break_byte) cs).
    { eapply Forall_impl; [|exact Hwf]. intros c Hc. apply wf_tchunk_spec in Hc. split.
      - intros r'. apply dec_chunk_complete; auto.
      - apply enc_chunk_first with (m := MajText), Hc. }
    rewrite (until_loop_complete _ _ _ Hready); [reflexivity|].
    apply ready_nonempty in Hready as [_ Hne]. apply (budget_app_ge _ _ (break_byte :: r)) in Hne. exact Hne.
  - rewrite encode_Array. cbn [wf_item fuel_of] in *. apply andb_true_iff in Hwf as [Hfit Hwf].
    apply arg_fitsb_spec in Hfit. rewrite <- app_assoc, dec_head_enc by exact Hfit. cbn [dbind].
    pose proof (items_ready xs f IHxs Hwf ltac:(lia)) as Hready.
    apply ready_nonempty in Hready as [Hdec Hne]. unfold encode_items.
    rewrite (seq_loop_complete _ _ _ Hdec); [reflexivity|].
    apply (budget_app_ge _ _ r) in Hne. lia.
  - rewrite encode_ArrayIndef. cbn [wf_item fuel_of] in *.
    rewrite <- !app_assoc, dec_head_indef. cbn [dbind app].
    pose proof (items_ready xs f IHxs Hwf ltac:(lia)) as Hready. unfold encode_items.
    rewrite (until_loop_complete _ _ _ Hready); [reflexivity|].
    apply ready_nonempty in Hready as [_ Hne]. apply (budget_app_ge _ _ (break_byte :: r)) in Hne. exact Hne.
  - rewrite encode_Map. rewrite wf_Map in Hwf. cbn [fuel_of] in *. apply andb_true_iff in Hwf as [Hfit Hwf].
    apply arg_fitsb_spec in Hfit. rewrite <- app_assoc, dec_head_enc by exact Hfit. cbn [dbind].
    pose proof (pairs_ready kvs f IHkvs Hwf ltac:(lia)) as Hready.
    apply ready_nonempty in Hready as [Hdec Hne]. unfold encode_pairs.
    rewrite (seq_loop_complete _ _ _ Hdec); [reflexivity|].
    apply (budget_app_ge _ _ r) in Hne. lia.
  - rewrite encode_MapIndef. rewrite wf_MapIndef in Hwf. cbn [fuel_of] in *.
    rewrite <- !app_assoc, dec_head_indef. cbn [dbind app].
    pose proof (pairs_ready kvs f IHkvs Hwf ltac:(lia)) as Hready. unfold encode_pairs.
    rewrite (until_loop_complete _ _ _ Hready); [reflexivity|].
    apply ready_nonempty in Hready as [_ Hne]. apply (budget_app_ge _ _ (break_byte :: r)) in Hne. exact Hne.
  - cbn [wf_item encode_item fuel_of] in *. apply andb_true_iff in Hwf as [Hfit Hwf].
    apply arg_fitsb_spec in Hfit. rewrite <- app_assoc, dec_head_enc by exact Hfit. cbn [dbind].
    rewrite (IHx Hwf f ltac:(lia)). reflexivity.
  - cbn [wf_item encode_item] in *. apply arg_fitsb_spec in Hwf. rewrite dec_head_enc by exact Hwf. reflexivity.
Qed.

Theorem dec_enc_ge i f r :
  wf_item i = true -> (fuel_of i <= f)%nat -> decode_item f (encode_item i ++ r) = DOk (i, r).
Proof. intros Hwf Hf. apply dec_enc_all; assumption. Qed.

Theorem dec_enc i r :
  wf_item i = true -> decode_item (fuel_of i) (encode_item i ++ r) = DOk (i, r).
Proof. intros Hwf. apply dec_enc_ge; [exact Hwf|lia]. Qed.

(* ---------------------------------------------------------------- fuel-free entry point *)
Lemma fuel_items_bound xs :
  Forall (fun x => (fuel_of x <= length (encode_item x))%nat) xs ->
  (fold_right (fun x m => Nat.max (fuel_of x) m) O xs <= length (encode_items xs))%nat.
Proof.
  unfold encode_items. induction 1 as [|x xs Hx _ IH]; cbn [fold_right map concat]; [cbn; lia|].
  rewrite app_length. lia.
Qed.

Lemma fuel_pairs_bound kvs :
  Forall (fun kv => (fuel_of (fst kv) <= length (encode_item (fst kv)))%nat /\
                    (fuel_of (snd kv) <= length (encode_item (snd kv)))%nat) kvs ->
  (fold_right (fun '(k, v) m => Nat.max (Nat.max (fuel_of k) (fuel_of v)) m) O kvs
   <= length (encode_pairs kvs))%nat.
Proof.
  unfold encode_pairs, encode_pair.
  induction 1 as [|[k v] kvs [Hk Hv] _ IH]; cbn [fold_right map concat fst snd] in *; [cbn; lia|].
  rewrite !app_length. lia.
Qed.

Lemma fuel_of_le_length i : (fuel_of i <= length (encode_item i))%nat.
Proof.
  induction i as [w n|w n|w b|cs|w b|cs|w xs IHxs|xs IHxs|w kvs IHkvs|kvs IHkvs|w t x IHx|w n]
    using item_ind'.
  - cbn [fuel_of encode_item]. rewrite enc_head_length. lia.
  - cbn [fuel_of encode_item]. rewrite enc_head_length. lia.
  - cbn [fuel_of encode_item]. rewrite app_length, enc_head_length. lia.
  - cbn [fuel_of encode_item enc_indef app length]. lia.
  - cbn [fuel_of encode_item]. rewrite app_length, enc_head_length. lia.
  - cbn [fuel_of encode_item enc_indef app length]. lia.
  - rewrite encode_Array. cbn [fuel_of]. rewrite app_length, enc_head_length.
    apply fuel_items_bound in IHxs. lia.
  - rewrite encode_ArrayIndef. cbn [fuel_of enc_indef app length]. rewrite app_length.
    apply fuel_items_bound in IHxs. lia.
  - rewrite encode_Map. cbn [fuel_of]. rewrite app_length, enc_head_length.
    apply fuel_pairs_bound in IHkvs. lia.
  - rewrite encode_MapIndef. cbn [fuel_of enc_indef app length]. rewrite app_length.
    apply fuel_pairs_bound in IHkvs. lia.
  - cbn [fuel_of encode_item]. rewrite app_length, enc_head_length. lia.
  - cbn [fuel_of encode_item]. rewrite enc_head_length. lia.
Qed.

Theorem decode_complete i r : wf_item i = true -> decode (encode_item i ++ r) = DOk (i, r).
Proof.
  intros Hwf. unfold decode, budget. apply dec_enc_ge; [exact Hwf|].
  pose proof (fuel_of_le_length i). rewrite app_length. lia.
Qed.

Theorem decode_sound bs i r : decode bs = DOk (i, r) -> bs = encode_item i ++ r /\ wf_item i = true.
Proof. apply enc_dec. Qed.

(* any successful fuelled run agrees with the fuel-free decoder *)
Corollary decode_item_decode f bs i r : decode_item f bs = DOk (i, r) -> decode bs = DOk (i, r).
Proof. intros H. apply enc_dec in H as [-> Hwf]. apply decode_complete, Hwf. Qed.

(* decoding is injective on the consumed slice: two inputs that decode to the
   same item and the same remainder are equal *)
Corollary decode_inj bs bs' i r : decode bs = DOk (i, r) -> decode bs' = DOk (i, r) -> bs = bs'.
Proof. intros H H'. apply decode_sound in H as [-> _]. apply decode_sound in H' as [-> _]. reflexivity. Qed.

Theorem decode_all_complete i : wf_item i = true -> decode_all (encode_item i) = DOk i.
Proof.
  intros Hwf. unfold decode_all. rewrite <- (app_nil_r (encode_item i)) at 1.
  rewrite decode_complete by exact Hwf. reflexivity.
Qed.

Theorem decode_all_sound bs i : decode_all bs = DOk i -> bs = encode_item i /\ wf_item i = true.
Proof.
  unfold decode_all. intros H. apply dbind_ok in H as ([i' r] & Hd & H).
  destruct r; [|discriminate]. inversion H; subst. apply decode_sound in Hd as [-> Hwf].
  rewrite app_nil_r. auto.
Qed.

(* the encoding of a well-formed item is a list of bytes *)
Lemma items_bytes xs :
  Forall (fun x => wf_item x = true -> bytes_wf (encode_item x)) xs ->
  forallb wf_item xs = true -> bytes_wf (encode_items xs).
Proof.
  unfold encode_items. induction 1 as [|x xs Hx _ IH]; intros Hwf; [constructor|].
  cbn [forallb] in Hwf. apply andb_true_iff in Hwf as [H1 H2].
  cbn [map concat]. apply bytes_wf_app. auto.
Qed.

Lemma pairs_bytes kvs :
  Forall (fun kv => (wf_item (fst kv) = true -> bytes_wf (encode_item (fst kv))) /\
                    (wf_item (snd kv) = true -> bytes_wf (encode_item (snd kv)))) kvs ->
  forallb wf_pair kvs = true -> bytes_wf (encode_pairs kvs).
Proof.
  unfold encode_pairs. induction 1 as [|kv kvs [Hk Hv] _ IH]; intros Hwf; [constructor|].
  cbn [forallb] in Hwf. apply andb_true_iff in Hwf as [H1 H2]. unfold wf_pair in H1.
  apply andb_true_iff in H1 as [H1k H1v].
  cbn [map concat]. unfold encode_pair at 1. rewrite !bytes_wf_app. auto.
Qed.

Lemma chunks_bytes m cs : Forall (wf_chunk m) cs -> bytes_wf (concat (map (enc_chunk m) cs)).
Proof.
  induction 1 as [|c cs (H1 & H2 & _) _ IH]; [constructor|].
  cbn [map concat]. unfold enc_chunk at 1. rewrite !bytes_wf_app.
  split; [split; [apply enc_head_wf, H1|exact H2]|exact IH].
Qed.

Lemma indef_bytes m body :
  (m = MajBytes \/ m = MajText \/ m = MajArray \/ m = MajMap) ->
  bytes_wf body -> bytes_wf (enc_indef m ++ body ++ [break_byte]).
Proof.
  intros Hm Hb. unfold enc_indef. cbn [app]. constructor.
  - unfold byte. destruct Hm as [->|[->|[->| ->]]]; cbn; lia.
  - apply bytes_wf_app. split; [exact Hb|]. constructor; [unfold byte, break_byte; lia|constructor].
Qed.

Lemma encode_item_bytes i : wf_item i = true -> bytes_wf (encode_item i).
Proof.
  induction i as [w n|w n|w b|cs|w b|cs|w xs IHxs|xs IHxs|w kvs IHkvs|kvs IHkvs|w t x IHx|w n]
    using item_ind'; intros Hwf.
  - apply enc_head_wf, arg_fitsb_spec, Hwf.
  - apply enc_head_wf, arg_fitsb_spec, Hwf.
  - cbn [wf_item encode_item] in *. apply andb_true_iff in Hwf as [H1 H2].
    apply bytes_wf_app. split; [apply enc_head_wf, arg_fitsb_spec, H1|apply bytes_wfb_spec, H2].
  - cbn [wf_item encode_item] in *. apply indef_bytes; [tauto|]. apply chunks_bytes.
    apply forallb_Forall in Hwf. eapply Forall_impl; [|exact Hwf]. intros c. apply wf_bchunk_spec.
  - cbn [wf_item encode_item] in *. apply andb_true_iff in Hwf as [Hwf _]. apply andb_true_iff in Hwf as [H1 H2].
    apply bytes_wf_app. split; [apply enc_head_wf, arg_fitsb_spec, H1|apply bytes_wfb_spec, H2].
  - cbn [wf_item encode_item] in *. apply indef_bytes; [tauto|]. apply chunks_bytes.
    apply forallb_Forall in Hwf. eapply Forall_impl; [|exact Hwf]. intros c. apply wf_tchunk_spec.
  - rewrite encode_Array. cbn [wf_item] in Hwf. apply andb_true_iff in Hwf as [H1 H2].
    apply bytes_wf_app. split; [apply enc_head_wf, arg_fitsb_spec, H1|apply items_bytes; assumption].
  - rewrite encode_ArrayIndef. cbn [wf_item] in Hwf. apply indef_bytes; [tauto|]. apply items_bytes; assumption.
  - rewrite encode_Map. rewrite wf_Map in Hwf. apply andb_true_iff in Hwf as [H1 H2].
    apply bytes_wf_app. split; [apply enc_head_wf, arg_fitsb_spec, H1|apply pairs_bytes; assumption].
  - rewrite encode_MapIndef. rewrite wf_MapIndef in Hwf. apply indef_bytes; [tauto|]. apply pairs_bytes; assumption.
  - cbn [wf_item encode_item] in *. apply andb_true_iff in Hwf as [H1 H2].
    apply bytes_wf_app. split; [apply enc_head_wf, arg_fitsb_spec, H1|apply IHx, H2].
  - apply enc_head_wf, arg_fitsb_spec, Hwf.
Qed.
