(* C08 — property theorems only. Statements are pinned by vp/check.py. *)
From Coq Require Import Sorting.Sorted Sorting.Permutation.
From PV Require Import Lib.Base Cbor.Item Cbor.Enc Cbor.Dec Cbor.Api C07.Model C08.Model C08.Proofs.
Open Scope Z_scope.

(* for EVERY set of language ids in 0..255: the order the implementation writes the entries in
   is a permutation of the keys, strictly sorted by the canonical CBOR order (length, then bytes)
   of the ENCODED keys, and it is the only such order *)
Theorem lv_order_is_canonical : forall keys,
  NoDup keys -> Forall (fun k => 0 <= k < 256) keys ->
  Permutation (lv_order keys) keys /\ StronglySorted key_lt (lv_order keys) /\
  (forall o, Permutation o keys -> StronglySorted key_lt o -> o = lv_order keys).
Proof.
  intros keys Hnd Hr. split; [apply lv_order_perm, Hnd|]. split; [apply lv_order_sorted; assumption|].
  intros o Hp Hs. apply lv_order_unique; assumption.
Qed.

(* the encoded views: map header, then one entry per language in canonical key order; the V1
   entry is the bytes-wrapped key 41 00 with a bytes-wrapped indefinite list, the others a plain
   integer key with a definite list *)
Theorem lv_encoding_canonical : forall m,
  wf_lviews m = true ->
  exists entries,
    Permutation entries m /\ StronglySorted key_lt (map fst entries) /\
    enc_language_views m = e_map (len m) ++ concat (map enc_entry entries).
Proof. exact lv_encoding_proof. Qed.

(* the same bytes as the serialisation of one CBOR item: a definite map with shortest heads whose
   pairs are, in canonical key order, (uint k, definite array of ints) and, last,
   (bytes 00, bytes (indefinite array of ints)) *)
Theorem lv_encoding_is_item : forall m,
  wf_lviews m = true ->
  exists entries,
    Permutation entries m /\ StronglySorted key_lt (map fst entries) /\
    enc_language_views m = encode_item (Map (min_width (len m)) (map entry_item entries)).
Proof. exact lv_item_proof. Qed.

Theorem lv_entry_shape : forall lang c,
  enc_lv_entry lang c =
  if lang =? 0 then [65; 0] ++ e_bytes ([159] ++ concat (map e_int c) ++ [255])
  else e_uint lang ++ e_array (len c) ++ concat (map e_int c).
Proof. intros lang c. unfold enc_lv_entry. destruct (lang =? 0); reflexivity. Qed.

(* the hash is taken over the ledger's preimage; H is Blake2b-256 *)
Theorem preimage_formula : forall (H : list Z -> list Z) wr wd lvo sd,
  build_for wr wd lvo = Some sd ->
  script_data_hash H sd =
  H (ledger_preimage (option_map enc_redeemers wr) (option_map enc_datums wd) (option_map enc_language_views lvo)).
Proof. exact preimage_formula_proof. Qed.

(* the datum part: the captured bytes when the KeepRaw holds any; for datums built in memory
   (KeepRaw::from / cleared raw) the bytes the witness set serialises them to — never nothing *)
Theorem datums_as_captured : forall raw items, raw <> [] -> enc_datums (raw, items) = raw.
Proof. intros raw items H. unfold enc_datums. cbn [fst snd]. destruct raw; [congruence|reflexivity]. Qed.

Theorem datums_in_memory : forall items,
  enc_datums ([], items) = [217; 1; 2] ++ e_array (len items) ++ concat (map enc_kr_pdata items).
Proof. intros items. reflexivity. Qed.

Theorem datums_never_vanish : forall d, enc_datums d <> [].
Proof.
  intros [raw items]. unfold enc_datums. cbn [fst snd]. destruct raw; cbn [is_nil]; discriminate.
Qed.

Theorem none_when_empty : forall wr (wd : option kdatums) lvo, build_for wr wd lvo = None <-> wr = None /\ wd = None.
Proof. exact none_when_empty_proof. Qed.

(* non-vacuity *)
Example ex_order :
  lv_order [0; 1; 2] = [1; 2; 0] /\ lv_order [0; 2; 23; 24; 255] = [2; 23; 24; 255; 0] /\
  map key_enc [1; 23; 24; 255; 0] = [[1]; [23]; [24; 24]; [24; 255]; [65; 0]] /\
  wf_lviews [(0, [1; -1]); (1, [-9223372036854775808]); (2, [])] = true /\
  enc_language_views [(0, [1; -1]); (1, [24]); (2, [])] = [163; 1; 129; 24; 24; 2; 128; 65; 0; 68; 159; 1; 32; 255] /\
  build_for None (Some ([129; 1], [])) (Some [(1, [])]) = Some (mkScriptData None (Some ([129; 1], [])) None) /\
  script_data_preimage (mkScriptData None (Some ([129; 1], [])) None) = [160; 129; 1; 160] /\
  script_data_preimage (mkScriptData None (Some ([], [([], PBytes [7]); ([24; 5], PBigInt (BInt 5))])) None) =
    [160; 217; 1; 2; 130; 65; 7; 24; 5; 160].
Proof. repeat split; vm_compute; reflexivity. Qed.
