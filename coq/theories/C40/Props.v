(* C40 — property theorems only. Statements are pinned by vp/check.py. *)
From PV Require Import Lib.Base C40.Model C40.Proofs.
Open Scope Z_scope.

Theorem build_total_refuted_before_fix :
  pipeline true [OInput (1, 0); OMint 1 [97] 5; OMint 1 [97] (-5)] = Panic P_UNWRAP_ERR /\
  pipeline true [OInput (1, 0); OOutput (mkOutput (29, 0) 1000000 [(1, [([97], 0)])] None None)] = Panic P_UNWRAP_ERR.
Proof. split; [exact prefix_cancelling_mint_panics|exact prefix_zero_asset_panics]. Qed.

Theorem redeemer_pointer_refuted_before_fix :
  exists t, pipeline true [OInput (1, 0); OInput (1, 0); OInput (2, 0); OSpendRdmr (2, 0) (mkRdmr (1, 0) true (Some (1, 2)))] = Ok t /\
            t_rdmrs t = [(0, 2, (1, 0), 1, 2)] /\ t_inputs t = [(1, 0); (1, 0); (2, 0)].
Proof. exact prefix_duplicate_input_pointer. Qed.

Theorem build_total_refuted_todo :
  pipeline false [OInput (1, 0); OSpendRdmr (1, 0) (mkRdmr (1, 0) true None)] = Panic P_TODO.
Proof. exact todo_exunits_panics. Qed.
