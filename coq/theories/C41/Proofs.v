(* C41 proofs: the signature bookkeeping invariant, totality, preservation of body
   and id, refinement to "the last operation on a key decides", validity of the
   witnesses -- for every operation sequence (induction on the sequence). *)
From PV Require Import Lib.Base C41.Model.
Open Scope Z_scope.

(* ---------- association-list facts ---------- *)

Lemma in_filter_isnt k (l : list entry) e :
  In e (filter (key_isnt k) l) <-> In e l /\ fst e <> k.
Proof.
  rewrite filter_In. unfold key_isnt. split; intros [H1 H2]; split; auto.
  - intros Heq. rewrite <- Z.eqb_eq in Heq. rewrite Heq in H2. discriminate.
  - destruct (fst e =? k) eqn:E; [apply Z.eqb_eq in E; contradiction|reflexivity].
Qed.

Lemma in_keys_filter k k' (l : list entry) :
  In k' (map fst (filter (key_isnt k) l)) <-> In k' (map fst l) /\ k' <> k.
Proof.
  rewrite !in_map_iff. split.
  - intros [e [He Hin]]. apply in_filter_isnt in Hin as [Hin Hne]. subst k'. split; [exists e; auto|auto].
  - intros [[e [He Hin]] Hne]. exists e. split; [auto|]. apply in_filter_isnt. subst k'. auto.
Qed.

Lemma nodup_keys_filter (f : entry -> bool) (l : list entry) :
  NoDup (map fst l) -> NoDup (map fst (filter f l)).
Proof.
  induction l as [|x r IH]; cbn; intros H; [constructor|].
  inversion H as [|a b Hn Hr]; subst. destruct (f x); cbn; [constructor|]; auto.
  intros Hin. apply Hn. apply in_map_iff in Hin as [e [He Hin]]. apply filter_In in Hin as [Hin _].
  apply in_map_iff. exists e. auto.
Qed.

Lemma nodup_keys_snoc (l : list entry) k s :
  NoDup (map fst l) -> ~ In k (map fst l) -> NoDup (map fst (l ++ [(k, s)])).
Proof.
  induction l as [|x r IH]; cbn; intros H Hn.
  - constructor; [intros []|constructor].
  - inversion H as [|a b Hx Hr]; subst. constructor.
    + rewrite map_app, in_app_iff. cbn. intros [Hin|[Hin|[]]]; [auto|]. apply Hn. left. auto.
    + apply IH; auto.
Qed.

Lemma assoc_in (m : list entry) k s : assoc k m = Some s -> In (k, s) m.
Proof.
  induction m as [|[k' s'] r IH]; cbn; [discriminate|].
  destruct (k' =? k) eqn:E; intros H.
  - apply Z.eqb_eq in E. inversion H; subst. left; reflexivity.
  - right; auto.
Qed.

Lemma in_assoc (m : list entry) k s : NoDup (map fst m) -> In (k, s) m -> assoc k m = Some s.
Proof.
  induction m as [|[k' s'] r IH]; cbn; intros Hnd Hin; [contradiction|].
  inversion Hnd as [|a b Hn Hr]; subst. destruct Hin as [Heq|Hin].
  - inversion Heq; subst. rewrite Z.eqb_refl. reflexivity.
  - destruct (k' =? k) eqn:E.
    + apply Z.eqb_eq in E. subst. exfalso. apply Hn. apply in_map_iff. exists (k, s). auto.
    + auto.
Qed.

Lemma assoc_filter k k' (m : list entry) :
  assoc k (filter (key_isnt k') m) = if k =? k' then None else assoc k m.
Proof.
  induction m as [|[k2 s2] r IH]; cbn.
  - destruct (k =? k'); reflexivity.
  - unfold key_isnt at 1. cbn [fst]. destruct (k2 =? k') eqn:E1; cbn.
    + rewrite IH. destruct (k =? k') eqn:E2; [reflexivity|].
      destruct (k2 =? k) eqn:E3; [|reflexivity]. lia.
    + rewrite IH. destruct (k2 =? k) eqn:E3; [|reflexivity].
      destruct (k =? k') eqn:E2; [lia|reflexivity].
Qed.

Lemma assoc_insert k k' s (m : list entry) :
  assoc k (map_insert k' s m) = if k =? k' then Some s else assoc k m.
Proof.
  unfold map_insert, map_remove. cbn. rewrite assoc_filter.
  destruct (k' =? k) eqn:E1; destruct (k =? k') eqn:E2; try reflexivity; lia.
Qed.

Lemma unwrap_nes l : unwrap_or_default (nes_from_vec l) = l.
Proof. destruct l; reflexivity. Qed.
Lemma nes_not_some_nil l : nes_from_vec l <> Some [].
Proof. destruct l; cbn; congruence. Qed.

(* ---------- one operation ---------- *)
Section Signer.
Variable SK : Type.
Variable pk_of : SK -> key.
Variable sign_of : SK -> Z -> sg.
Notation step := (step SK pk_of sign_of).
Notation run := (run SK pk_of sign_of).
Notation spec_lookup := (spec_lookup SK pk_of sign_of).

Definition wf (b : built) : Prop := era_conway b = true /\ tx b <> None.

(* the entry an operation installs (None: it removes) and the key it touches *)
Definition op_key (o : op SK) : key :=
  match o with Sign sk => pk_of sk | AddSig k _ => k | Remove k => k end.
Definition op_val (h : Z) (o : op SK) : option sg :=
  match o with Sign sk => Some (sign_of sk h) | AddSig _ s => Some s | Remove _ => None end.

Definition upd_w (h : Z) (o : op SK) (w : list entry) : list entry :=
  match op_val h o with
  | Some s => filter (key_isnt (op_key o)) w ++ [(op_key o, s)]
  | None => filter (key_isnt (op_key o)) w
  end.
Definition upd_s (h : Z) (o : op SK) (m : list entry) : list entry :=
  match op_val h o with
  | Some s => map_insert (op_key o) s m
  | None => map_remove (op_key o) m
  end.

Lemma step_wf b o : wf b ->
  exists b', step b o = Ok b' /\ wf b' /\ tx_hash b' = tx_hash b /\ body_of b' = body_of b /\
             rest_of b' = rest_of b /\
             wit_list b' = upd_w (tx_hash b) o (wit_list b) /\
             sig_list b' = upd_s (tx_hash b) o (sig_list b) /\
             (match tx b' with Some t => vkeys t <> Some [] | None => True end).
Proof.
  intros [He Ht]. destruct b as [era h [t|] sg0]; cbn in *; [|congruence]. subst era.
  destruct o as [sk|k s|k]; cbn; unfold sign, add_signature, put, remove_signature; cbn.
  - destruct (filter (key_isnt (pk_of sk)) (unwrap_or_default (vkeys t)) ++ [(pk_of sk, sign_of sk h)]) eqn:E.
    + apply app_eq_nil in E as [_ E]. discriminate.
    + cbn. eexists. split; [reflexivity|]. unfold wf, wit_list, sig_list, body_of, rest_of, upd_w, upd_s; cbn.
      rewrite <- E. repeat split; try congruence.
  - destruct (filter (key_isnt k) (unwrap_or_default (vkeys t)) ++ [(k, s)]) eqn:E.
    + apply app_eq_nil in E as [_ E]. discriminate.
    + cbn. eexists. split; [reflexivity|]. unfold wf, wit_list, sig_list, body_of, rest_of, upd_w, upd_s; cbn.
      rewrite <- E. repeat split; try congruence.
  - eexists. split; [reflexivity|]. unfold wf, wit_list, sig_list, body_of, rest_of, upd_w, upd_s; cbn.
    rewrite unwrap_nes. repeat split; try congruence. apply nes_not_some_nil.
Qed.

Lemma step_ok_wf b o b' : step b o = Ok b' -> wf b.
Proof.
  destruct b as [era h t sg0]. unfold wf; cbn.
  destruct o as [sk|k s|k]; cbn; unfold sign, add_signature, put, remove_signature; cbn;
    destruct era; try discriminate; destruct t; try discriminate; intros _; split; congruence.
Qed.

Lemma step_no_panic b o : is_panic (step b o) = false.
Proof.
  destruct b as [era h ot sg0].
  destruct era eqn:Ee; [|destruct o; reflexivity].
  destruct ot as [t|] eqn:Et; [|destruct o; reflexivity].
  destruct (step_wf (mkBuilt true h (Some t) sg0) o) as [b' [H _]]; [split; cbn; congruence|].
  rewrite H. reflexivity.
Qed.

(* ---------- sequences ---------- *)

Lemma run_no_panic ops : forall b, is_panic (run ops b) = false.
Proof.
  induction ops as [|o r IH]; intros b; cbn; [reflexivity|].
  pose proof (step_no_panic b o) as Hs. destruct (step b o); cbn in *; [apply IH|reflexivity|discriminate].
Qed.

Lemma run_wf_ok ops : forall b, wf b -> exists b', run ops b = Ok b' /\ wf b'.
Proof.
  induction ops as [|o r IH]; intros b Hw; cbn; [eauto|].
  destruct (step_wf b o Hw) as [b1 [H1 [Hw1 _]]]. rewrite H1. apply IH. exact Hw1.
Qed.

Lemma run_preserves ops : forall b b', run ops b = Ok b' ->
  era_conway b' = era_conway b /\ tx_hash b' = tx_hash b /\ body_of b' = body_of b /\ rest_of b' = rest_of b.
Proof.
  induction ops as [|o r IH]; intros b b' H; cbn in H.
  - inversion H; subst. auto.
  - destruct (step b o) as [b1| |] eqn:E; try discriminate.
    pose proof (step_ok_wf _ _ _ E) as Hw.
    destruct (step_wf b o Hw) as [b2 [H2 [[He2 _] [Hh [Hb [Hr _]]]]]]. rewrite E in H2. inversion H2; subst b2.
    destruct (IH _ _ H) as [A [B [C D]]]. destruct Hw as [He _]. repeat split; congruence.
Qed.

(* one step keeps the invariant *)
Lemma inv_step b o b' : inv b -> step b o = Ok b' -> inv b'.
Proof.
  intros [Hw [Hs [Hsame Hne]]] E. pose proof (step_ok_wf _ _ _ E) as Hwf.
  destruct (step_wf b o Hwf) as [b2 [H2 [_ [_ [_ [_ [Hwl [Hsl Hne']]]]]]]]. rewrite E in H2. inversion H2; subst b2.
  unfold inv. rewrite Hwl, Hsl. unfold upd_w, upd_s. destruct (op_val (tx_hash b) o) as [s|].
  - repeat split.
    + apply nodup_keys_snoc; [apply nodup_keys_filter; exact Hw|].
      intros Hin. apply in_keys_filter in Hin as [_ Hin]. apply Hin. reflexivity.
    + unfold map_insert, map_remove. cbn. constructor; [|apply nodup_keys_filter; exact Hs].
      intros Hin. apply in_keys_filter in Hin as [_ Hin]. apply Hin. reflexivity.
    + intros Hin. apply in_app_iff in Hin as [Hin|[Hin|[]]].
      * right. apply in_filter_isnt. apply in_filter_isnt in Hin as [Hin Hk]. split; [apply Hsame; exact Hin|exact Hk].
      * left. exact Hin.
    + intros [Hin|Hin]; apply in_app_iff.
      * right. left. exact Hin.
      * left. apply in_filter_isnt. apply in_filter_isnt in Hin as [Hin Hk]. split; [apply Hsame; exact Hin|exact Hk].
    + exact Hne'.
  - repeat split.
    + apply nodup_keys_filter; exact Hw.
    + apply nodup_keys_filter; exact Hs.
    + intros Hin. apply in_filter_isnt. apply in_filter_isnt in Hin as [Hin Hk]. split; [apply Hsame; exact Hin|exact Hk].
    + intros Hin. apply in_filter_isnt. apply in_filter_isnt in Hin as [Hin Hk]. split; [apply Hsame; exact Hin|exact Hk].
    + exact Hne'.
Qed.

Lemma inv_run ops : forall b b', inv b -> run ops b = Ok b' -> inv b'.
Proof.
  induction ops as [|o r IH]; intros b b' Hi H; cbn in H.
  - inversion H; subst. exact Hi.
  - destruct (step b o) as [b1| |] eqn:E; try discriminate. eapply IH; [|exact H]. eapply inv_step; eauto.
Qed.

Lemma inv_fresh bd h rs : inv (fresh bd h rs).
Proof. unfold inv, fresh, wit_list, sig_list; cbn. repeat split; try constructor; try contradiction; congruence. Qed.

(* refinement: the signature map after a sequence is "last operation on the key decides" *)
Lemma spec_lookup_ext h ops : forall m1 m2 k, (forall x, m1 x = m2 x) -> spec_lookup h ops m1 k = spec_lookup h ops m2 k.
Proof.
  induction ops as [|o r IH]; intros m1 m2 k He; cbn; [apply He|].
  apply IH. intros x. destruct o; destruct (x =? _); auto.
Qed.

Lemma assoc_upd_s h o m x :
  assoc x (upd_s h o m) =
  match o with
  | Sign sk => if x =? pk_of sk then Some (sign_of sk h) else assoc x m
  | AddSig k' s => if x =? k' then Some s else assoc x m
  | Remove k' => if x =? k' then None else assoc x m
  end.
Proof.
  destruct o; unfold upd_s; cbn; [apply assoc_insert|apply assoc_insert|apply assoc_filter].
Qed.

Lemma run_sig_spec ops : forall b b' k, run ops b = Ok b' ->
  assoc k (sig_list b') = spec_lookup (tx_hash b) ops (fun x => assoc x (sig_list b)) k.
Proof.
  induction ops as [|o r IH]; intros b b' k H; cbn in H.
  - inversion H; subst. reflexivity.
  - destruct (step b o) as [b1| |] eqn:E; try discriminate.
    pose proof (step_ok_wf _ _ _ E) as Hwf.
    destruct (step_wf b o Hwf) as [b2 [H2 [_ [Hh [_ [_ [_ [Hsl _]]]]]]]]. rewrite E in H2. inversion H2; subst b2.
    rewrite (IH _ _ k H). rewrite Hh. cbn. apply spec_lookup_ext. intros x. rewrite Hsl, assoc_upd_s. destruct o; reflexivity.
Qed.

Lemma run_wit_spec ops b b' k s : inv b -> run ops b = Ok b' ->
  (In (k, s) (wit_list b') <-> spec_lookup (tx_hash b) ops (fun x => assoc x (sig_list b)) k = Some s).
Proof.
  intros Hi H. destruct (inv_run _ _ _ Hi H) as [_ [Hs [Hsame _]]].
  rewrite <- (run_sig_spec _ _ _ k H). rewrite Hsame. split; [apply in_assoc; exact Hs|apply assoc_in].
Qed.

(* validity of the witnesses, for an abstract verification function *)
Section Verify.
Variable verify : key -> Z -> sg -> bool.
Hypothesis sign_verifies : forall sk h, verify (pk_of sk) h (sign_of sk h) = true.

Definition op_valid (h : Z) (o : op SK) : Prop :=
  match o with AddSig k s => verify k h s = true | _ => True end.
Definition all_verify (h : Z) (l : list entry) : Prop :=
  Forall (fun e => verify (fst e) h (snd e) = true) l.

Lemma all_verify_filter h f l : all_verify h l -> all_verify h (filter f l).
Proof.
  unfold all_verify. rewrite !Forall_forall. intros H e He. apply filter_In in He as [He _]. auto.
Qed.

Lemma verify_step b o b' : all_verify (tx_hash b) (wit_list b) -> op_valid (tx_hash b) o ->
  step b o = Ok b' -> all_verify (tx_hash b') (wit_list b').
Proof.
  intros Ha Ho E. pose proof (step_ok_wf _ _ _ E) as Hwf.
  destruct (step_wf b o Hwf) as [b2 [H2 [_ [Hh [_ [_ [Hwl _]]]]]]]. rewrite E in H2. inversion H2; subst b2.
  rewrite Hh, Hwl. unfold upd_w. destruct o as [sk|k s|k]; cbn.
  - apply Forall_app. split; [apply all_verify_filter; exact Ha|]. constructor; [apply sign_verifies|constructor].
  - apply Forall_app. split; [apply all_verify_filter; exact Ha|]. constructor; [exact Ho|constructor].
  - apply all_verify_filter; exact Ha.
Qed.

Lemma verify_run ops : forall b b', all_verify (tx_hash b) (wit_list b) -> Forall (op_valid (tx_hash b)) ops ->
  run ops b = Ok b' -> all_verify (tx_hash b') (wit_list b').
Proof.
  induction ops as [|o r IH]; intros b b' Ha Hv H; cbn in H.
  - inversion H; subst. exact Ha.
  - destruct (step b o) as [b1| |] eqn:E; try discriminate. inversion Hv as [|x l Ho Hr]; subst.
    pose proof (verify_step _ _ _ Ha Ho E) as Ha1.
    pose proof (step_ok_wf _ _ _ E) as Hwf.
    destruct (step_wf b o Hwf) as [b2 [H2 [_ [Hh _]]]]. rewrite E in H2. inversion H2; subst b2.
    apply (IH b1 b'); [exact Ha1|rewrite Hh; exact Hr|exact H].
Qed.
End Verify.
End Signer.

(* ---------- the code before the fix violated the property ---------- *)
Section Prefix.
Let SKc : Type := (key * sg)%type.
Let pk_c (sk : SKc) : key := fst sk.
Let sign_c (sk : SKc) (_ : Z) : sg := snd sk.

(* sign k; sign k : one map entry, two witnesses *)
Lemma prefix_duplicates :
  exists b', run_prefix SKc pk_c sign_c [Sign (7, 9); Sign (7, 9)] (fresh (1, 0) 5 0) = Ok b' /\
             length (sig_list b') = 1%nat /\ length (wit_list b') = 2%nat /\ ~ NoDup (map fst (wit_list b')).
Proof.
  eexists. split; [vm_compute; reflexivity|]. cbn. repeat split; try reflexivity.
  intros H. inversion H as [|x l Hn _]; subst. apply Hn. left. reflexivity.
Qed.

(* sign k; remove k (and remove k alone) panic *)
Lemma prefix_panics :
  run_prefix SKc pk_c sign_c [Sign (7, 9); Remove 7] (fresh (1, 0) 5 0) = Panic P_UNWRAP /\
  run_prefix SKc pk_c sign_c [Remove 7] (fresh (1, 0) 5 0) = Panic P_UNWRAP.
Proof. split; vm_compute; reflexivity. Qed.
End Prefix.
