(* C14 model: pallas-crypto/src/memsec.rs memeq / memcmp, transcribed.
   Bytes are Z in [0,256); the i32 accumulator is Z (the range lemma in
   Proofs.v shows no i32 overflow, and Z.land/lor/lnot/shiftr coincide with
   two's complement and arithmetic shift on that range). *)
From PV Require Import Lib.Base.
Open Scope Z_scope.

(* memeq: sum |= v1 ^ v2 over all indices; sum == 0 *)
Definition memeq_acc (a b : list Z) : Z :=
  fold_left (fun sum p => Z.lor sum (Z.lxor (fst p) (snd p))) (combine a b) 0.
Definition memeq (a b : list Z) : bool := memeq_acc a b =? 0.

(* memcmp: for i in (0..len).rev(): diff = v1 - v2;
           res = (res & (((diff - 1) & !diff) >> 8)) | diff *)
Definition step (res d : Z) : Z :=
  Z.lor (Z.land res (Z.shiftr (Z.land (d - 1) (Z.lnot d)) 8)) d.
Definition memcmp_acc (a b : list Z) : Z :=
  fold_left (fun res p => step res (fst p - snd p)) (rev (combine a b)) 0.
(* res = ((res - 1) >> 8) + (res >> 8) + 1; res.cmp(&0) *)
Definition finish (res : Z) : Z := Z.shiftr (res - 1) 8 + Z.shiftr res 8 + 1.
Definition ord_z (c : comparison) : Z := match c with Lt => -1 | Eq => 0 | Gt => 1 end.
Definition memcmp (a b : list Z) : Z := ord_z (finish (memcmp_acc a b) ?= 0).

(* Specification side: ordinary lexicographic comparison of equal-length lists. *)
Fixpoint lex_compare (a b : list Z) : Z :=
  match a, b with
  | x :: a', y :: b' => if x =? y then lex_compare a' b' else if x <? y then -1 else 1
  | _, _ => 0
  end.
