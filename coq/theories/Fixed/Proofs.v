(* Algebraic facts about the shared fixed-point model (Fixed/Model.v):
   scale is the floor division by 10^34, fp_div is the truncating division of
   x * 10^34 by y (the two-step remainder identity), sign and bound facts.
   Used by C15, C16 and C17. *)
From PV Require Import Lib.Base Fixed.Model.
Open Scope Z_scope.

Lemma PREC_val : PREC = 10 ^ 34. Proof. reflexivity. Qed.
Lemma EPS_val : EPS = 10 ^ 10. Proof. reflexivity. Qed.
Lemma PREC_pos : 0 < PREC. Proof. reflexivity. Qed.
Lemma ONE_pos : 0 < ONE. Proof. reflexivity. Qed.

(* ---- truncating division: the facts lia needs ---- *)
Lemma quot_rem_facts d m : 0 < m ->
  d = m * Z.quot d m + Z.rem d m /\ (0 <= d -> 0 <= Z.rem d m < m) /\ (d <= 0 -> - m < Z.rem d m <= 0).
Proof.
  intros Hm. split; [apply Z.quot_rem'|]. split; intros H.
  - apply Z.rem_bound_pos_pos; lia.
  - apply Z.rem_bound_pos_neg; lia.
Qed.

(* name quotient and remainder of d by m (0 < m) and forget what they are *)
Ltac qr d m Hm :=
  let q := fresh "q" in let r := fresh "r" in
  let H1 := fresh "Hqr" in let H2 := fresh "Hrp" in let H3 := fresh "Hrn" in
  destruct (quot_rem_facts d m Hm) as (H1 & H2 & H3);
  set (q := Z.quot d m) in *; set (r := Z.rem d m) in *; clearbody q r.

Lemma quot_abs a b : b <> 0 -> Z.abs (Z.quot a b) = Z.abs a / Z.abs b.
Proof.
  intros Hb. rewrite <- Z.quot_abs by exact Hb. rewrite Z.quot_div_nonneg; lia.
Qed.

Lemma quot_sign a b : (0 <= a * b -> 0 <= Z.quot a b) /\ (a * b <= 0 -> Z.quot a b <= 0).
Proof.
  split; intros H.
  - destruct (Z.eq_dec b 0) as [->|Hb]; [destruct a; cbn; lia|].
    destruct (Z_lt_le_dec a 0), (Z_lt_le_dec b 0).
    + rewrite <- Z.quot_opp_opp by lia. apply Z.quot_pos; lia.
    + assert (a * b < 0) by nia. lia.
    + assert (a = 0) by nia. subst. rewrite Z.quot_0_l; lia.
    + apply Z.quot_pos; lia.
  - destruct (Z.eq_dec b 0) as [->|Hb]; [destruct a; cbn; lia|].
    destruct (Z_lt_le_dec a 0), (Z_lt_le_dec b 0).
    + assert (0 < a * b) by nia. lia.
    + rewrite <- (Z.opp_involutive a). rewrite Z.quot_opp_l by lia. pose proof (Z.quot_pos (-a) b). lia.
    + rewrite <- (Z.opp_involutive b). rewrite Z.quot_opp_r by lia. pose proof (Z.quot_pos a (-b)). lia.
    + assert (a = 0) by nia. subst. rewrite Z.quot_0_l; lia.
Qed.

(* ---- scale = floor division by 10^34 ---- *)
Lemma scale_floor a : scale a = a / PREC.
Proof.
  unfold scale. pose proof PREC_pos as Hm. set (m := PREC) in *. clearbody m. qr a m Hm.
  destruct (a <? 0) eqn:?; destruct (r =? 0) eqn:?; cbn [andb negb].
  - apply (Z.div_unique_pos a m q 0); lia.
  - apply (Z.div_unique_pos a m (q - 1) (m + r)); lia.
  - apply (Z.div_unique_pos a m q r); lia.
  - apply (Z.div_unique_pos a m q r); lia.
Qed.

Lemma scale_spec a : scale a * PREC <= a < (scale a + 1) * PREC.
Proof.
  rewrite scale_floor. pose proof PREC_pos.
  pose proof (Z.div_mod a PREC ltac:(lia)). pose proof (Z.mod_pos_bound a PREC ltac:(lia)). lia.
Qed.

Lemma scale_mul_PREC a : scale (a * PREC) = a.
Proof. rewrite scale_floor. apply Z.div_mul. pose proof PREC_pos; lia. Qed.

Lemma scale_nonneg a : 0 <= a -> 0 <= scale a.
Proof. intros H. rewrite scale_floor. apply Z.div_pos; [exact H | exact PREC_pos]. Qed.

Lemma scale_mono a b : a <= b -> scale a <= scale b.
Proof. intros H. rewrite !scale_floor. apply Z.div_le_mono; [exact PREC_pos | exact H]. Qed.

(* ---- fp_div: the two-step division is the one-step truncating division ---- *)
Lemma fp_div_quot x y : y <> 0 -> fp_div x y = Z.quot (x * PREC) y.
Proof.
  intros Hy. unfold fp_div.
  rewrite (Z.quot_rem' x y) at 3.
  replace ((y * Z.quot x y + Z.rem x y) * PREC) with (Z.rem x y * PREC + (Z.quot x y * PREC) * y) by ring.
  rewrite Z.quot_add; [lia | exact Hy |].
  pose proof (Z.rem_sign_nz x y). pose proof (Z.quot_rem' x y). pose proof PREC_pos. nia.
Qed.

(* magnitude: |q| = floor(|x| * 10^34 / |y|); sign: that of x * y (or zero) *)
Lemma fp_div_spec x y : y <> 0 ->
  Z.abs (fp_div x y) * Z.abs y <= Z.abs x * PREC < (Z.abs (fp_div x y) + 1) * Z.abs y /\
  (0 <= x * y -> 0 <= fp_div x y) /\ (x * y <= 0 -> fp_div x y <= 0).
Proof.
  intros Hy. rewrite fp_div_quot by exact Hy. pose proof PREC_pos as HP. split.
  - rewrite quot_abs by exact Hy. rewrite Z.abs_mul, (Z.abs_eq PREC) by lia.
    pose proof (Z.div_mod (Z.abs x * PREC) (Z.abs y) ltac:(lia)).
    pose proof (Z.mod_pos_bound (Z.abs x * PREC) (Z.abs y) ltac:(lia)). lia.
  - destruct (quot_sign (x * PREC) y) as [H1 H2]. split; intros H; [apply H1 | apply H2]; nia.
Qed.

Lemma fp_div_nonneg x y : 0 <= x -> 0 < y -> 0 <= fp_div x y.
Proof. intros Hx Hy. apply (fp_div_spec x y); nia. Qed.

Lemma fp_div_floor x y : 0 <= x -> 0 < y -> fp_div x y = x * PREC / y.
Proof.
  intros Hx Hy. rewrite fp_div_quot by lia. apply Z.quot_div_nonneg; [|exact Hy].
  pose proof PREC_pos. nia.
Qed.

Lemma fp_div_self x : x <> 0 -> fp_div x x = ONE.
Proof.
  intros Hx. rewrite fp_div_quot by exact Hx. rewrite Z.mul_comm. apply Z.quot_mul. exact Hx.
Qed.

(* ---- fp_mul ---- *)
Lemma fp_mul_floor a b : fp_mul a b = a * b / PREC.
Proof. apply scale_floor. Qed.
Lemma fp_mul_comm a b : fp_mul a b = fp_mul b a.
Proof. unfold fp_mul. rewrite Z.mul_comm. reflexivity. Qed.
Lemma fp_mul_ONE_l x : fp_mul ONE x = x.
Proof. unfold fp_mul, ONE. rewrite Z.mul_comm. apply scale_mul_PREC. Qed.
Lemma fp_mul_ONE_r x : fp_mul x ONE = x.
Proof. rewrite fp_mul_comm. apply fp_mul_ONE_l. Qed.
Lemma fp_mul_nonneg a b : 0 <= a -> 0 <= b -> 0 <= fp_mul a b.
Proof. intros. apply scale_nonneg. nia. Qed.
Lemma fp_mul_mono a b c d : 0 <= a <= c -> 0 <= b <= d -> fp_mul a b <= fp_mul c d.
Proof. intros. apply scale_mono. nia. Qed.
Lemma fp_mul_ge_ONE a b : ONE <= a -> ONE <= b -> ONE <= fp_mul a b.
Proof.
  intros Ha Hb. rewrite <- (fp_mul_ONE_l ONE) at 1. apply fp_mul_mono; unfold ONE in *; pose proof PREC_pos; lia.
Qed.
