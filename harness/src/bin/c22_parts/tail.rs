//! Long-tail codecs, oracle only (not inside the Coq model): encode with the real
//! `Encode`, strict item scan, decode with the real `Decode`, compare (Debug form).
use super::{scan, Ctx};
use pallas_codec::minicbor::{self, Decode, Decoder, Encode};
use pallas_network::miniprotocols::{localmsgnotification as lmn, localmsgsubmission as lms, localstate::queries_v16 as q16, localtxsubmission as ltx};
use std::fmt::Debug;
use verif_harness::*;

pub fn run_dbg<M>(cx: &mut Ctx, stack: &str, proto: &str, variant: &str, msg: &M)
where M: Encode<()> + for<'b> Decode<'b, ()> + Debug {
    let key = |what: &str| format!("{}/{}/{}/{}", stack, proto, variant, what);
    let shown = format!("{:?}", msg);
    let bytes = match guard(|| minicbor::to_vec(msg).map_err(|e| e.to_string())) {
        Out::Ok(b) => b,
        Out::Err(e) => { cx.fails += 1; emit_oracle_fail(&key("encode-error"), &format!("message={} encode error: {}", shown, e)); return; }
        Out::Panic(p) => { cx.fails += 1; emit_oracle_fail(&key("encode-panic"), &format!("message={} encode panicked: {}", shown, p)); return; }
    };
    if let Err(why) = scan::exactly_one_item(&bytes) {
        cx.fails += 1;
        emit_oracle_fail(&key("not-one-item"), &format!("message={} encoding={} is not one well-formed CBOR item: {}", shown, hex(&bytes), why));
    }
    match guard(|| { let mut d = Decoder::new(&bytes); let m: M = d.decode().map_err(|e| e.to_string())?; Ok((format!("{:?}", m), d.position())) }) {
        Out::Ok((s2, pos)) => {
            if s2 != shown { cx.fails += 1; emit_oracle_fail(&key("decode-differs"), &format!("message={} encoding={} decoded to {}", shown, hex(&bytes), s2)); }
            else if pos != bytes.len() { cx.fails += 1; emit_oracle_fail(&key("decode-leftover"), &format!("message={} encoding={} decoder consumed {} of {}", shown, hex(&bytes), pos, bytes.len())); }
        }
        Out::Err(e) => { cx.fails += 1; emit_oracle_fail(&key("decode-error"), &format!("message={} encoding={} decode error: {}", shown, hex(&bytes), e)); }
        Out::Panic(p) => { cx.fails += 1; emit_oracle_fail(&key("decode-panic"), &format!("message={} encoding={} decode panicked: {}", shown, hex(&bytes), p)); }
    }
    cx.tail += 1;
}

fn sb(r: &mut Rng) -> Vec<u8> { let n = *r.pick(&[0usize, 3, 32, 64]); r.bytes(n) }
fn dmq(r: &mut Rng) -> lms::DmqMsg {
    lms::DmqMsg {
        msg_id: sb(r),
        msg_payload: lms::DmqMsgPayload { msg_body: sb(r), kes_period: r.edge_u64(), expires_at: r.next() as u32 },
        kes_signature: sb(r),
        operational_certificate: lms::DmqMsgOperationalCertificate { kes_vk: sb(r), issue_number: r.edge_u64(), start_kes_period: r.edge_u64(), cert_sig: sb(r) },
        cold_verification_key: sb(r),
    }
}
fn dmqs(r: &mut Rng) -> Vec<lms::DmqMsg> { (0..r.below(3)).map(|_| dmq(r)).collect() }

pub fn round(cx: &mut Ctx, r: &mut Rng, round: u64) {
    // local message notification (DMQ)
    run_dbg(cx, "n1", "localmsgnotification", "RequestMessagesNonBlocking", &lmn::Message::RequestMessagesNonBlocking);
    run_dbg(cx, "n1", "localmsgnotification", "RequestMessagesBlocking", &lmn::Message::RequestMessagesBlocking);
    run_dbg(cx, "n1", "localmsgnotification", "ReplyMessagesNonBlocking", &lmn::Message::ReplyMessagesNonBlocking(dmqs(r), r.bool()));
    run_dbg(cx, "n1", "localmsgnotification", "ReplyMessagesBlocking", &lmn::Message::ReplyMessagesBlocking(dmqs(r)));
    run_dbg(cx, "n1", "localmsgnotification", "ClientDone", &lmn::Message::ClientDone);
    // local message submission = localtxsubmission::Message<DmqMsg, DmqMsgValidationError>
    type Lms = ltx::Message<lms::DmqMsg, lms::DmqMsgValidationError>;
    run_dbg::<Lms>(cx, "n1", "localmsgsubmission", "SubmitTx", &ltx::Message::SubmitTx(dmq(r)));
    run_dbg::<Lms>(cx, "n1", "localmsgsubmission", "AcceptTx", &ltx::Message::AcceptTx);
    let reason = match r.below(4) {
        0 => lms::DmqMsgRejectReason::Invalid("InvalidKESSignature (KESPeriod 0)".into()), 1 => lms::DmqMsgRejectReason::AlreadyReceived,
        2 => lms::DmqMsgRejectReason::Expired, _ => lms::DmqMsgRejectReason::Other("custom \u{20ac}rror".into()),
    };
    run_dbg::<Lms>(cx, "n1", "localmsgsubmission", "RejectTx", &ltx::Message::RejectTx(lms::DmqMsgValidationError(reason)));
    run_dbg::<Lms>(cx, "n1", "localmsgsubmission", "Done", &ltx::Message::Done);
    // local state queries without parameters
    if round % 4 == 0 {
        use q16::BlockQuery as B;
        let era = *r.pick(&[0u16, 1, 5, 6, 23, 24]);
        let nullary = [B::GetLedgerTip, B::GetEpochNo, B::GetCurrentPParams, B::GetProposedPParamsUpdates, B::GetStakeDistribution, B::GetUTxOWhole,
            B::DebugEpochState, B::GetGenesisConfig, B::DebugNewEpochState, B::DebugChainDepState, B::GetRewardProvenance, B::GetStakePools,
            B::GetRewardInfoPools, B::GetConstitution, B::GetGovState, B::GetAccountState, B::GetRatifyState, B::GetFuturePParams];
        for b in nullary {
            let name = format!("{:?}", b);
            run_dbg(cx, "n1", "localstate-query", &name, &q16::Request::LedgerQuery(q16::LedgerQuery::BlockQuery(era, b.clone())));
            if round == 0 { run_dbg(cx, "n1", "localstate-query", "GetCBOR", &q16::Request::LedgerQuery(q16::LedgerQuery::BlockQuery(era, B::GetCBOR(Box::new(b))))); }
        }
        run_dbg(cx, "n1", "localstate-query", "GetInterpreter", &q16::Request::LedgerQuery(q16::LedgerQuery::HardForkQuery(q16::HardForkQuery::GetInterpreter)));
        run_dbg(cx, "n1", "localstate-query", "GetCurrentEra", &q16::Request::LedgerQuery(q16::LedgerQuery::HardForkQuery(q16::HardForkQuery::GetCurrentEra)));
        run_dbg(cx, "n1", "localstate-query", "GetSystemStart", &q16::Request::GetSystemStart);
        run_dbg(cx, "n1", "localstate-query", "GetChainBlockNo", &q16::Request::GetChainBlockNo);
        run_dbg(cx, "n1", "localstate-query", "GetChainPoint", &q16::Request::GetChainPoint);
    }
}

/// The reject reasons a node really sent (the hex samples of pallas-network's own test module,
/// read from the tree under test): decode, then the decoded value must survive encode -> scan -> decode.
pub fn reject_samples(cx: &mut Ctx) {
    let repo = std::env::var("VERIF_REPO").unwrap_or_else(|_| "/repo".into());
    let path = format!("{}/pallas-network/src/miniprotocols/localtxsubmission/codec.rs", repo);
    let src = match std::fs::read_to_string(&path) { Ok(s) => s, Err(_) => { emit_stat("reject_samples_missing", 1); return; } };
    let mut n = 0u64;
    let mut lines = src.lines().peekable();
    while let Some(l) = lines.next() {
        if !l.contains("assert_reject_reason(") || l.contains("fn ") { continue; }
        let Some(h) = lines.next() else { break };
        let h = h.trim().trim_end_matches(',').trim_matches('"');
        let Ok(bytes) = hex::decode(h) else { continue };
        let dec = guard(|| { let mut d = Decoder::new(&bytes); d.decode::<ltx::TxValidationError>().map_err(|e| e.to_string()) });
        if let Out::Ok(v) = dec {
            n += 1;
            // keys: one class for the envelope (TxValidationError), samples are not distinguished
            run_dbg(cx, "n1", "localtxsubmission-reject", "TxValidationError", &v);
            if n <= 3 {
                type M = ltx::Message<ltx::EraTx, ltx::TxValidationError>;
                run_dbg::<M>(cx, "n1", "localtxsubmission-reject", "RejectTx", &ltx::Message::RejectTx(v));
            }
        }
    }
    emit_stat("reject_samples", n);
}
