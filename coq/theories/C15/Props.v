(* C15 — property theorems only. Statements are pinned by vp/check.py.
   The Gallina functions ref_exp / ref_ln / ref_pow of Fixed/Model.v ARE the
   reference algorithm (Taylor exp with scaling, continued-fraction ln with
   e-bracketing, pow via exp(y ln x)) at 34 digits; "digit-for-digit" is the
   differential tie of Run.v.  Proved here: the arithmetic the reference is
   built from is what the property says (scale = floor, div = truncation), the
   structure of exp (exp 0 = 1, reciprocal for negative arguments, scaling into
   [0,1], the series stops by itself long before the cap of 1000 terms,
   positivity and range), the domain of ln and the special cases of pow. *)
From Coq Require Import QArith.
From PV Require Import Lib.Base Fixed.Model Fixed.Proofs C15.Proofs C15.ErrorBound.
Open Scope Z_scope.

Theorem scale_is_floor : forall a, scale a = a / PREC /\ scale a * PREC <= a < (scale a + 1) * PREC.
Proof. intros a. split; [apply scale_floor | apply scale_spec]. Qed.

Theorem div_is_trunc : forall x y, y <> 0 ->
  fp_div x y = Z.quot (x * PREC) y /\
  Z.abs (fp_div x y) * Z.abs y <= Z.abs x * PREC < (Z.abs (fp_div x y) + 1) * Z.abs y.
Proof. intros x y Hy. split; [apply fp_div_quot; exact Hy | apply fp_div_spec; exact Hy]. Qed.

Theorem ipow_basic : forall x, ipow x 0 = ONE /\ ipow x 1 = x /\
  (forall n, 0 <= n -> ONE <= x -> ONE <= ipow x n).
Proof. intros x. split; [apply ipow_zero|]. split; [apply ipow_one|]. intros n Hn Hx. apply ipow_ge_ONE; assumption. Qed.

(* the Taylor loop on an argument in [0,1]: at most 24 terms, the cap (1000, or any cap >= 25) is never reached *)
Theorem exp_taylor_terminates : forall x max_n, 0 <= x <= ONE -> 25 <= max_n ->
  ONE <= fst (mp_exp_taylor max_n x EPS) /\ 0 <= snd (mp_exp_taylor max_n x EPS) <= 24 /\
  mp_exp_taylor max_n x EPS = mp_exp_taylor 1000 x EPS.
Proof. exact mp_exp_taylor_spec. Qed.

(* ceil-scaling brings every positive argument into [0,1] *)
Theorem exp_scaling : forall x, 0 < x ->
  1 <= div_round_ceil x PREC /\ 0 <= Z.quot x (div_round_ceil x PREC) <= ONE.
Proof. exact div_round_ceil_scaling. Qed.

Theorem exp_zero : ref_exp 0 = ONE /\ ref_exp_iterations 0 = 0.
Proof. exact exp_zero_proof. Qed.

Theorem exp_neg_recip : forall x, 0 < x ->
  ref_exp (- x) = fp_div ONE (ref_exp x) /\ ref_exp_iterations (- x) = ref_exp_iterations x /\
  0 <= ref_exp (- x) <= ONE.
Proof. exact exp_neg_proof. Qed.

Theorem exp_range : forall x,
  0 <= ref_exp x /\ (0 <= x -> ONE <= ref_exp x) /\ (x <= 0 -> ref_exp x <= ONE) /\
  0 <= ref_exp_iterations x <= 24.
Proof. exact exp_range_proof. Qed.

(* Error-bound component (exact rational arithmetic, no Reals): on [0,1] the value returned by the
   Taylor loop lies at most 3n units (n <= 24 terms: < 7.2e-33) below the exact rational partial sum
   qsum x n = 10^34 * sum_{k<=n} (x/10^34)^k / k!, never above it, and the first omitted exact term
   is below EPS + 3 units (1e-24).
   FULL STATEMENT NOT PROVED (exp_error, kept as a comment):
     forall x, |ref_exp x - e^(x/10^34) * 10^34| <= ceil|x/10^34| * 3e-24 * e^(x/10^34) * 10^34 + 3
   missing: the analytic tail e^x - S_n(x) <= 2 * x^(n+1)/(n+1)! (needs Reals/Coquelicot) and the
   propagation of the relative error through ipow and the final division; the harness oracle checks
   exactly this bound against an independent 90-digit computation on every run. *)
Theorem exp_taylor_partial_sum_partial : forall x, 0 <= x <= ONE ->
  exists n, snd (mp_exp_taylor 1000 x EPS) = Z.of_nat n /\ (n <= 24)%nat /\
    (inject_Z (fst (mp_exp_taylor 1000 x EPS)) <= qsum x n /\
     qsum x n <= inject_Z (fst (mp_exp_taylor 1000 x EPS)) + 3 * inject_Z (Z.of_nat n))%Q /\
    (qterm x (S n) < inject_Z EPS + 3)%Q.
Proof. exact exp_taylor_partial_sum_proof. Qed.

Theorem ln_domain : forall x, ref_ln x = None <-> x <= 0.
Proof. exact ln_domain_proof. Qed.

Theorem pow_special : forall base e,
  ref_pow base 0 = Ok ONE /\ ref_pow ONE e = Ok ONE /\
  (base <> ONE -> ref_pow base ONE = Ok base) /\
  (0 < e -> e <> ONE -> ref_pow 0 e = Ok 0) /\
  (ref_pow base e = Panic 1 <-> base = 0 /\ e < 0).
Proof. exact pow_special_proof. Qed.

(* non-vacuity / anchor values: exp(1) is the value pinned by the crate's own test *)
Example c15_examples :
  ref_exp ONE = 27182818284590452353602874043083282 /\ E = ref_exp ONE /\
  ref_exp_iterations ONE = 24 /\
  ref_ln (2 * ONE) = Some 6931471805599453094172321818152860 /\
  ref_ln E = Some 10000000000000000000000001160449920 (* not exactly 1: find_e brackets e into [1, e] *) /\
  ref_pow (-2 * ONE) (3 * ONE) = Ok (-79999999999999999999999979824238600) /\
  ref_exp (- ONE) = 3678794411714423215955237792349248.
Proof. vm_compute. repeat split; reflexivity. Qed.
