//! C15: FixedDecimal exp / ln / pow at precision 34 against the reference.
//! case := CExp x res | CLn x (Ok res | Panic 1) | CPow b e (Ok res | Panic 1)   (coq/theories/C15/Run.v)
//!
//! Oracles (independent of the Gallina model and of dashu):
//!  * golden vectors corpus/C15/golden.txt (written once from the Gallina reference; every
//!    line is ALSO sent to Coq as a case, so a stale file is noticed) — digit for digit;
//!  * the true value computed here with 90-digit arithmetic (own big integers), within the
//!    error bound of the reference algorithm (see tol_* below);
//!  * the special cases and identities of the code (exp 0 = 1, x^0 = 1, 1^y = 1, x^1 = x, 0^y = 0, panics).
use pallas_math::math::{FixedDecimal, FixedPrecision};
use std::sync::OnceLock;
use verif_harness::*;
#[path = "fixed_common/big.rs"]
mod big;
use big::Big;

const D: usize = 90; // working digits of the oracle (10 limbs)
const DL: usize = 10;

fn mk(ds: &str) -> FixedDecimal { FixedDecimal::from_str(ds, 34).expect("valid data string") }
fn data_of(d: &FixedDecimal) -> String {
    let s = d.to_string();
    let t: String = s.chars().filter(|c| *c != '.').collect();
    Big::parse(&t).expect("printed form").to_string()
}
fn one34() -> Big { Big::pow10(34) }

// ---------------- 90-digit fixed point on Big (value = mant / 10^90) ----------------
fn shr_limbs(a: &Big, k: usize) -> Big { // truncating division by 10^(9k)
    if a.mag.len() <= k { return Big::zero(); }
    let mut r = Big { neg: a.neg, mag: a.mag[k..].to_vec() };
    while let Some(&0) = r.mag.last() { r.mag.pop(); }
    if r.mag.is_empty() { r.neg = false; }
    r
}
fn hp_mul(a: &Big, b: &Big) -> Big { shr_limbs(&a.mul(b), DL) }
fn hp_div(a: &Big, b: &Big) -> Big { a.mul(&Big::pow10(D)).divrem(b).0 }
fn hp_one() -> Big { Big::pow10(D) }
fn hp_of_data(x: &Big) -> Big { x.mul(&Big::pow10(D - 34)) }
/// e^z for 0 <= z < 2.5 (abs error ~1e-86)
fn hp_exp_small(z: &Big) -> Big {
    assert!(!z.is_neg());
    let w = z.divrem_small(256).0;
    let mut sum = hp_one();
    let mut term = hp_one();
    let mut n = 1u32;
    loop {
        term = hp_mul(&term, &w).divrem_small(n).0;
        if term.is_zero() { break; }
        sum = sum.add(&term);
        n += 1;
    }
    for _ in 0..8 { sum = hp_mul(&sum, &sum); }
    sum
}
fn hp_ln_newton(m: &Big, y0: f64) -> Big { // ln m for m in [1,10], start y0
    let mut y = Big::parse(&format!("{}", (y0.max(0.0) * 1e15) as u64)).unwrap().mul(&Big::pow10(D - 15));
    for _ in 0..5 {
        let e = hp_exp_small(&y);
        let corr = hp_div(&m.sub(&e), &m.add(&e)).mul_small(2);
        y = y.add(&corr);
        if y.is_neg() { y = Big::zero(); }
    }
    y
}
fn ln10() -> &'static Big {
    static L: OnceLock<Big> = OnceLock::new();
    L.get_or_init(|| hp_ln_newton(&hp_one().mul_small(10), 2.302585092994046))
}
/// e^x for any x (mant/10^90, signed) as (M, k): value = M/10^90 * 10^k with M/10^90 in [1,10]
fn hp_exp(x: &Big) -> (Big, i64) {
    let k = x.div_floor(ln10());
    let z = x.sub(&k.mul(ln10()));
    let ks: i64 = k.to_string().parse().expect("exponent fits");
    (hp_exp_small(&z), ks)
}
/// ln of data/10^34 (data > 0) as mant/10^90
fn hp_ln(x: &Big) -> Big {
    let s = x.to_string();
    let len = s.len();
    let k = len as i64 - 1 - 34;
    let m = if len - 1 <= D { x.mul(&Big::pow10(D - (len - 1))) } else { x.divrem(&Big::pow10(len - 1 - D)).0 };
    let lead: f64 = s[..len.min(17)].parse::<f64>().unwrap() / 10f64.powi(len.min(17) as i32 - 1);
    let y = hp_ln_newton(&m, lead.ln());
    Big::from_i128(k as i128).mul(ln10()).add(&y)
}
/// |data - M*10^(k+34-90)| <= rel_num/10^rel_pow * true + ulps ?
fn close_to(data: &Big, m: &Big, k: i64, rel_num: u64, rel_pow: usize, ulps: u64) -> bool {
    let s = k + 34 - D as i64;
    let t = if s >= 0 { m.mul(&Big::pow10(s as usize)) } else if (-s) as usize > 200 { Big::zero() } else { m.divrem(&Big::pow10((-s) as usize)).0 };
    let diff = data.sub(&t).abs();
    // diff * 10^rel_pow <= rel_num * t + (ulps + 1) * 10^rel_pow
    let lhs = diff.mul(&Big::pow10(rel_pow));
    let rhs = t.mul(&Big::from_u64(rel_num)).add(&Big::from_u64(ulps + 1).mul(&Big::pow10(rel_pow)));
    lhs.le(&rhs)
}
fn ceil_units(x: &Big) -> u64 { // number of ipow steps n = ceil(|x|) for data x, at least 1
    let a = x.abs();
    let (q, r) = a.divrem(&one34());
    let q: u64 = q.to_string().parse().unwrap_or(u64::MAX / 4);
    (q + if r.is_zero() { 0 } else { 1 }).max(1)
}

// error bound of the reference exp: Taylor tail < 1.1e-24 relative on [0,1], raised to the n-th power,
// plus truncation of the final division / products: n * 3e-24 relative + 3 units
fn exp_within_bound(x: &Big, res: &Big) -> bool {
    let (m, k) = hp_exp(&hp_of_data(x));
    let n = ceil_units(x);
    close_to(res, &m, k, n.saturating_mul(3), 24, 3)
}
// tolerance of the reference ln in units of 1e-34: bracketing by e^n costs |n| * 3e-24, the continued
// fraction stops at 1e-24, and x / e^n keeps only the digits x has: 20 / x_value units
fn ln_tol_units(x: &Big) -> Big {
    let n_abs = (x.to_string().len() as i64 - 35).abs() as u64 * 3 + 10; // |ln x| <= 2.31 * decimal exponent + 3
    let a = Big::from_u64(n_abs).mul(&Big::pow10(11));
    let b = Big::pow10(34).mul_small(20).divrem(x).0; // 20 / x_value units = 20 * 10^34 / x_data
    a.add(&b)
}
fn ln_within_bound(x: &Big, res: &Big) -> bool {
    let l = hp_ln(x);
    let diff = hp_of_data(res).sub(&l).abs();
    diff.le(&ln_tol_units(x).mul(&Big::pow10(D - 34)))
}

struct Ctx { oracle_only: bool }

fn exp_case(c: &Ctx, xs: &str, tag: &str, to_model: bool, golden: Option<&str>) {
    let x = mk(xs);
    match guard_total(|| x.exp()) {
        Out::Ok(r) => {
            let rs = data_of(&r);
            let (bx, br) = (Big::parse(xs).unwrap(), Big::parse(&rs).unwrap());
            if let Some(g) = golden { if g != rs { emit_oracle_fail("exp-golden", &format!("exp x={}: result data {} differs from the reference value {}", xs, rs, g)); } }
            if bx.is_zero() && br != one34() { emit_oracle_fail("exp-zero", &format!("exp(0) = data {}", rs)); }
            if br.is_neg() || (!bx.is_neg() && br.lt(&one34())) || (bx.is_neg() && one34().lt(&br)) {
                emit_oracle_fail("exp-range", &format!("exp x={}: result data {} on the wrong side of 1 (or negative)", xs, rs));
            }
            if !exp_within_bound(&bx, &br) { emit_oracle_fail("exp-error-bound", &format!("exp x={}: result data {} is outside the reference error bound around e^x", xs, if rs.len() > 120 { format!("{}...({} digits)", &rs[..60], rs.len()) } else { rs.clone() })); }
            if to_model && !c.oracle_only { emit_case(tag, &format!("CExp {} {}", coq_z(xs), coq_z(&rs))); }
        }
        Out::Panic(m) => emit_oracle_fail("exp-panic", &format!("exp x={}: panicked: {}", xs, m)),
        Out::Err(_) => {}
    }
}

fn ln_case(c: &Ctx, xs: &str, tag: &str, golden: Option<&str>) {
    let x = mk(xs);
    let bx = Big::parse(xs).unwrap();
    let positive = !bx.is_neg() && !bx.is_zero();
    match guard_total(|| x.ln()) {
        Out::Ok(r) => {
            let rs = data_of(&r);
            if let Some(g) = golden { if g != rs { emit_oracle_fail("ln-golden", &format!("ln x={}: result data {} differs from the reference value {}", xs, rs, g)); } }
            if !positive { emit_oracle_fail("ln-domain", &format!("ln x={}: returned {} for a non-positive argument", xs, rs)); }
            else if !ln_within_bound(&bx, &Big::parse(&rs).unwrap()) { emit_oracle_fail("ln-error-bound", &format!("ln x={}: result data {} is outside the reference error bound around ln x", xs, rs)); }
            if !c.oracle_only { emit_case(tag, &format!("CLn {} (Ok {})", coq_z(xs), coq_z(&rs))); }
        }
        Out::Panic(m) => {
            if positive { emit_oracle_fail("ln-panic", &format!("ln x={}: panicked: {}", xs, m)); }
            if let Some(g) = golden { if g != "panic" { emit_oracle_fail("ln-golden", &format!("ln x={}: panicked, reference value {}", xs, g)); } }
            if !c.oracle_only { emit_case(tag, &format!("CLn {} (Panic 1)", coq_z(xs))); }
        }
        Out::Err(_) => {}
    }
}

fn pow_case(c: &Ctx, bs: &str, es: &str, tag: &str, golden: Option<&str>) {
    let (b, e) = (mk(bs), mk(es));
    let (bb, be) = (Big::parse(bs).unwrap(), Big::parse(es).unwrap());
    let one = one34();
    let expect_panic = bb.is_zero() && be.is_neg();
    match guard_total(|| b.pow(&e)) {
        Out::Ok(r) => {
            let rs = data_of(&r);
            let br = Big::parse(&rs).unwrap();
            if let Some(g) = golden { if g != rs { emit_oracle_fail("pow-golden", &format!("pow base={} exponent={}: result data {} differs from the reference value {}", bs, es, rs, g)); } }
            if expect_panic { emit_oracle_fail("pow-zero-negative", &format!("pow base=0 exponent={}: returned {}", es, rs)); }
            let special: Option<Big> = if be.is_zero() || bb == one { Some(one.clone()) } else if be == one { Some(bb.clone()) } else if bb.is_zero() { Some(Big::zero()) } else { None };
            if let Some(want) = &special {
                if br != *want { emit_oracle_fail("pow-special", &format!("pow base={} exponent={}: result data {} expected exactly {}", bs, es, rs, want.to_string())); }
            } else {
                // true value: exp(y ln|b|), sign by the parity of trunc(y) for negative bases (integral y only)
                let (eq, er) = be.divrem(&one);
                let integral = er.is_zero();
                if !bb.is_neg() || integral {
                    let negative = bb.is_neg() && eq.divrem_small(2).1 != 0;
                    let ab = bb.abs();
                    let t = hp_ln(&ab).mul(&be).divrem(&one).0; // y * ln|b| (mant/10^90)
                    // argument error: |y| * tol_ln + 1 unit; keep the oracle to cases where it is small
                    let terr = ln_tol_units(&ab).mul(&be.abs()).divrem(&one).0.add(&Big::from_u64(2)); // units of 1e-34
                    if terr.lt(&Big::pow10(18)) {
                        let (m, k) = hp_exp(&t);
                        let n = ceil_units(&t.divrem(&Big::pow10(D - 34)).0);
                        // relative tolerance: terr * 1e-34 + n * 3e-24, expressed over 10^34
                        let rel = terr.add(&Big::from_u64(n.saturating_mul(3)).mul(&Big::pow10(10)));
                        let rel_num: u64 = rel.to_string().parse().unwrap_or(u64::MAX);
                        let mag = br.abs();
                        let sign_ok = br.is_zero() || br.is_neg() == negative;
                        if !sign_ok || !close_to(&mag, &m, k, rel_num, 34, 3) {
                            emit_oracle_fail("pow-error-bound", &format!("pow base={} exponent={}: result data {} is outside the reference error bound around the true power", bs, es, rs));
                        }
                    }
                }
            }
            if !c.oracle_only { emit_case(tag, &format!("CPow {} {} (Ok {})", coq_z(bs), coq_z(es), coq_z(&rs))); }
        }
        Out::Panic(m) => {
            if !expect_panic { emit_oracle_fail("pow-panic", &format!("pow base={} exponent={}: panicked: {}", bs, es, m)); }
            if let Some(g) = golden { if g != "panic" { emit_oracle_fail("pow-golden", &format!("pow base={} exponent={}: panicked, reference value {}", bs, es, g)); } }
            if !c.oracle_only { emit_case(tag, &format!("CPow {} {} (Panic 1)", coq_z(bs), coq_z(es))); }
        }
        Out::Err(_) => {}
    }
}

fn rand_digits(rng: &mut Rng, n: usize) -> String {
    let mut s = String::new();
    for i in 0..n { let d = if i == 0 { 1 + rng.below(9) } else { rng.below(10) }; s.push((b'0' + d as u8) as char); }
    s
}
/// positive data of magnitude 10^lo .. 10^hi (value), i.e. lo+35 .. hi+35 digits
fn rand_mag(rng: &mut Rng, lo: i64, hi: i64) -> String {
    let digits = rng.range((lo + 35) as u64, (hi + 35) as u64) as usize;
    rand_digits(rng, digits.max(1))
}
fn neg(s: &str) -> String { Big::parse(s).unwrap().neg().to_string() }
fn small_int_data(k: i64) -> String { Big::from_i128(k as i128).mul(&one34()).to_string() }

fn main() {
    let args = args();
    let mut rng = Rng::new(args.seed);
    let c = Ctx { oracle_only: args.oracle_only };
    let thorough = args.tier == "thorough";

    // ---- golden vectors written from the Gallina reference ----
    let dir = std::env::var("VERIF_DIR").unwrap_or_else(|_| ".".into());
    let mut ngold = 0u64;
    if let Ok(text) = std::fs::read_to_string(format!("{}/corpus/C15/golden.txt", dir)) {
        for line in text.lines() {
            let f: Vec<&str> = line.split_whitespace().collect();
            match f.as_slice() {
                ["exp", x, r] => { exp_case(&c, x, "golden-exp", true, Some(r)); ngold += 1; }
                ["ln", x, r] => { ln_case(&c, x, "golden-ln", Some(r)); ngold += 1; }
                ["pow", b, e, r] => { pow_case(&c, b, e, "golden-pow", Some(r)); ngold += 1; }
                _ => {}
            }
        }
    }
    emit_stat("golden_vectors", ngold);

    // ---- boundary points: 0, 1, e, powers of e, one unit around them ----
    let e_data = data_of(&mk(&small_int_data(1)).exp());
    for x in ["0", "1", "-1", "2", "-2"] { exp_case(&c, x, "boundary-exp", true, None); }
    for k in [1i64, 2, 3, 10, 34, 78, 79, 100] {
        for d in [-1i64, 0, 1] {
            let x = Big::parse(&small_int_data(k)).unwrap().add(&Big::from_i128(d as i128));
            exp_case(&c, &x.to_string(), "boundary-exp", true, None);
            exp_case(&c, &x.neg().to_string(), "boundary-exp", true, None);
        }
    }
    exp_case(&c, &e_data, "boundary-exp", true, None);
    for x in ["0", "-1", &neg(&small_int_data(1)), "1", "2", "3"] { ln_case(&c, x, "boundary-ln", None); }
    let ks: Vec<i64> = if thorough { (-79..=40).collect() } else { vec![-78, -40, -3, -2, -1, 0, 1, 2, 3, 8, 20] };
    for k in ks {
        // e^k as the crate computes it, and its neighbours: the bracketing boundaries of find_e
        let ek = Big::parse(&data_of(&mk(&small_int_data(k)).exp())).unwrap();
        for d in [-1i64, 0, 1] {
            let x = ek.add(&Big::from_i128(d as i128));
            if !x.is_neg() && !x.is_zero() { ln_case(&c, &x.to_string(), "boundary-ln-e^k", None); }
        }
    }
    let one = small_int_data(1);
    for (b, e) in [("0", "0"), ("0", one.as_str()), ("0", "1"), ("0", "-1"), (one.as_str(), "12345"), (one.as_str(), "-5"), ("12345", one.as_str()),
                   ("-12345", one.as_str()), ("777", "0"), ("-777", "0"), (e_data.as_str(), one.as_str())] {
        pow_case(&c, b, e, "boundary-pow", None);
    }
    for (b, e) in [(2i64, 3i64), (-2, 3), (-2, 2), (-2, -3), (3, -2), (10, 5), (-10, 5), (2, 30), (-5, 25), (5, -25)] {
        pow_case(&c, &small_int_data(b), &small_int_data(e), "boundary-pow", None);
    }
    pow_case(&c, &e_data, &small_int_data(2), "boundary-pow", None);

    // ---- boundary shapes of the stopping rules ----
    // exp: first Taylor term equal to EPS (x = 1e-24) and the smallest x whose k-th term reaches EPS
    // (term_k = floor(floor(x * term_(k-1) / 10^34) / k) = 10^10), one unit below / above, both signs
    for xs in ["10000000000", "14142135623730950488017", "181712059283213965892571416", "22133638394006431995453967988",
               "412891791733336800776747457862", "2993795165523909736323508194346"] {
        for d in [-1i64, 0, 1] {
            let x = Big::parse(xs).unwrap().add(&Big::from_i128(d as i128));
            exp_case(&c, &x.to_string(), "boundary-exp-term=EPS", true, None);
            exp_case(&c, &x.neg().to_string(), "boundary-exp-term=EPS", true, None);
        }
    }
    // ln / pow: arguments strictly between e^n and e^n (1 + 1e-24): x_ = x / e^n - 1 is 0 < x_ <= EPS
    let p34 = one34();
    for k in [0i64, 1, 2, 3, -1, -2, 10] {
        let ek = Big::parse(&data_of(&mk(&small_int_data(k)).exp())).unwrap();
        for r in [30usize, 25, 24] {
            let delta = ek.divrem(&Big::pow10(r)).0;
            if delta.is_zero() { continue; }
            for x in [ek.add(&delta), ek.add(&delta).sub(&Big::from_u64(1)), ek.add(&delta).add(&Big::from_u64(1))] {
                ln_case(&c, &x.to_string(), "boundary-ln-e^k(1+tiny)", None);
            }
            let x = ek.add(&delta);
            pow_case(&c, &x.to_string(), &small_int_data(2), "boundary-pow-e^k(1+tiny)", None);
            if k == 0 {
                // (1 + 1e-30)^1e6, (1 + 1e-24)^y for y = 2, 1e6, 1e12, 1e24
                for y in [Big::from_u64(2), Big::pow10(6), Big::pow10(12), Big::pow10(24)] {
                    pow_case(&c, &x.to_string(), &y.mul(&p34).to_string(), "boundary-pow-(1+tiny)^y", None);
                    pow_case(&c, &x.to_string(), &y.mul(&p34).neg().to_string(), "boundary-pow-(1+tiny)^y", None);
                }
            }
        }
    }
    for x in [p34.sub(&Big::from_u64(1)), p34.add(&Big::from_u64(1)), p34.sub(&Big::pow10(10)), p34.add(&Big::pow10(10))] {
        ln_case(&c, &x.to_string(), "boundary-ln-1+-tiny", None);
    }

    // ln: 1 + x_ with x_ the smallest continued-fraction argument for which two successive convergents
    // differ by exactly EPS (the `diff < eps` stopping test is decided by equality), and one unit below
    for xs in ["10000447778314706958567411759369823", "10031589263290062464956146087343882", "10225994822703482579091636520685699", "10698024528982578455093629776955104", "11492453308525698876727671595856442", "12579880394167374683090869072182477", "13965110502017659555133113522439343", "15597824388168208777889942004550065", "17502661655923278062738832171285043", "19625566610845413521830473627207490"] {
        let x = Big::parse(xs).unwrap();
        ln_case(&c, &x.to_string(), "boundary-ln-cf-diff=EPS", None);
        ln_case(&c, &x.sub(&Big::from_u64(1)).to_string(), "boundary-ln-cf-diff=EPS", None);
        pow_case(&c, &x.to_string(), &small_int_data(3), "boundary-pow-cf-diff=EPS", None);
    }

    // ---- random stream ----
    for i in 0..args.n {
        match rng.below(10) {
            0..=3 => {
                // exp: magnitudes 1e-30 .. 1e3 through the model, larger ones against the oracle only
                let (xs, tag, to_model) = match rng.below(10) {
                    0..=3 => (rand_mag(&mut rng, -30, 0), "exp-1e-30..1", true),
                    4 => { let v = Big::parse(&rand_mag(&mut rng, -1, -1)).unwrap(); // leader range [0, 1.2]
                           (v.mul_small(12).divrem_small(10).0.to_string(), "exp-leader-0..1.2", true) }
                    5 | 6 => (rand_mag(&mut rng, 0, 2), "exp-1..1e3", true),
                    7 => { let k = rng.range(1, 300) as i64; let d = rng.range(0, 2) as i128 - 1;
                           (Big::parse(&small_int_data(k)).unwrap().add(&Big::from_i128(d)).to_string(), "exp-integer+-1unit", true) }
                    8 => (rand_mag(&mut rng, 3, 3), "exp-1e3..1e4-oracle-only", false),
                    _ => (rand_mag(&mut rng, 4, 5), "exp-1e4..1e6-oracle-only", false),
                };
                let xs = if rng.bool() { neg(&xs) } else { xs };
                if i < 3 { emit_sample(&format!("exp x={}", xs)); }
                if !to_model { emit_stat("exp_large_oracle", 1); }
                exp_case(&c, &xs, tag, to_model, None);
            }
            4..=6 => {
                let (xs, tag) = match rng.below(8) {
                    0..=2 => (rand_mag(&mut rng, -30, 0), "ln-1e-30..1"),
                    3 | 4 => (rand_mag(&mut rng, 0, 6), "ln-1..1e6"),
                    5 => (rand_mag(&mut rng, 6, 12), "ln-1e6..1e12"),
                    6 => { // leader election: ln(1 - f), f in (0,1)
                           let f = Big::parse(&rand_mag(&mut rng, -3, -1)).unwrap();
                           (one34().sub(&f).to_string(), "ln-leader-1-f") }
                    _ => { let v = Big::parse(&rand_mag(&mut rng, -20, -1)).unwrap(); // just above / below 1
                           ((if rng.bool() { one34().add(&v) } else { one34().sub(&v) }).to_string(), "ln-near-1") }
                };
                if rng.chance(1, 25) { ln_case(&c, &neg(&xs), "ln-negative", None); } else { ln_case(&c, &xs, tag, None); }
            }
            _ => {
                let (bs, es, tag) = match rng.below(8) {
                    0 | 1 => { // leader election: (1 - f)^sigma
                        let f = Big::parse(&rand_mag(&mut rng, -3, -1)).unwrap();
                        (one34().sub(&f).to_string(), rand_mag(&mut rng, -12, -1), "pow-leader-(1-f)^sigma") }
                    2 => { let k = rng.range(0, 60) as i64 - 30; (rand_mag(&mut rng, -2, 2), small_int_data(k), "pow-integer-exponent") }
                    3 => { let k = rng.range(0, 40) as i64 - 20; (neg(&rand_mag(&mut rng, -2, 1)), small_int_data(k), "pow-negative-base-integer-exponent") }
                    4 => (neg(&rand_mag(&mut rng, -3, 1)), { let e = rand_mag(&mut rng, -3, 0); if rng.bool() { neg(&e) } else { e } }, "pow-negative-base-fractional-exponent"),
                    5 => (rand_mag(&mut rng, -30, -1), rand_mag(&mut rng, -3, 0), "pow-small-base"),
                    6 => (rand_mag(&mut rng, 0, 6), { let e = rand_mag(&mut rng, -3, 0); if rng.bool() { neg(&e) } else { e } }, "pow-base-1..1e6"),
                    _ => (rand_mag(&mut rng, -6, 3), { let e = rand_mag(&mut rng, -6, 0); if rng.bool() { neg(&e) } else { e } }, "pow-random"),
                };
                pow_case(&c, &bs, &es, tag, None);
            }
        }
    }
}
