//! Shared by c40.rs / c41.rs (txbuilder engine): an independent CBOR item
//! scanner (no minicbor, no pallas), big-endian bytes -> decimal printing, and
//! small constructors. Not a bin target (no main.rs in this directory).
#![allow(dead_code)]

/// End offset of the CBOR data item starting at `pos` (RFC 8949), or None when
/// the bytes are truncated / malformed. Written from the RFC, not from minicbor.
pub fn item_end(b: &[u8], pos: usize) -> Option<usize> {
    let ib = *b.get(pos)?;
    let major = ib >> 5;
    let ai = ib & 0x1f;
    let (arg, mut p): (Option<u64>, usize) = match ai {
        0..=23 => (Some(ai as u64), pos + 1),
        24 => (Some(*b.get(pos + 1)? as u64), pos + 2),
        25 => { let s = b.get(pos + 1..pos + 3)?; (Some(u16::from_be_bytes([s[0], s[1]]) as u64), pos + 3) }
        26 => { let s = b.get(pos + 1..pos + 5)?; (Some(u32::from_be_bytes([s[0], s[1], s[2], s[3]]) as u64), pos + 5) }
        27 => { let s = b.get(pos + 1..pos + 9)?; let mut a = [0u8; 8]; a.copy_from_slice(s); (Some(u64::from_be_bytes(a)), pos + 9) }
        31 => (None, pos + 1),
        _ => return None,
    };
    match major {
        0 | 1 => { arg?; Some(p) }
        7 => { if ai == 31 { None } else { Some(p) } }
        2 | 3 => match arg {
            Some(n) => { let e = p.checked_add(usize::try_from(n).ok()?)?; if e <= b.len() { Some(e) } else { None } }
            None => loop {
                if *b.get(p)? == 0xff { return Some(p + 1); }
                if b[p] >> 5 != major || b[p] & 0x1f == 31 { return None; }
                p = item_end(b, p)?;
            },
        },
        4 | 5 => {
            let per = if major == 5 { 2 } else { 1 };
            match arg {
                Some(n) => { for _ in 0..n.checked_mul(per)? { p = item_end(b, p)?; } Some(p) }
                None => loop {
                    if *b.get(p)? == 0xff { return Some(p + 1); }
                    for _ in 0..per { p = item_end(b, p)?; }
                },
            }
        }
        6 => { arg?; item_end(b, p) }
        _ => None,
    }
}

/// Header of an array item at `pos`: (number of elements, offset of the first element).
pub fn array_head(b: &[u8], pos: usize) -> Option<(u64, usize)> {
    let ib = *b.get(pos)?;
    if ib >> 5 != 4 { return None; }
    match ib & 0x1f {
        n @ 0..=23 => Some((n as u64, pos + 1)),
        24 => Some((*b.get(pos + 1)? as u64, pos + 2)),
        25 => { let s = b.get(pos + 1..pos + 3)?; Some((u16::from_be_bytes([s[0], s[1]]) as u64, pos + 3)) }
        _ => None,
    }
}

/// The four top-level items of a Conway transaction `[body, witness_set, is_valid, aux]`.
pub fn tx_items(tx: &[u8]) -> Option<[&[u8]; 4]> {
    let (n, mut p) = array_head(tx, 0)?;
    if n != 4 { return None; }
    let mut out: [&[u8]; 4] = [&[], &[], &[], &[]];
    for slot in out.iter_mut() {
        let e = item_end(tx, p)?;
        *slot = &tx[p..e];
        p = e;
    }
    if p != tx.len() { return None; }
    Some(out)
}

/// Body bytes of a transaction located by the independent scan.
pub fn body_slice(tx: &[u8]) -> Option<&[u8]> { tx_items(tx).map(|i| i[0]) }

/// Coq `Z` literal (hexadecimal: parsed in linear time) of the big-endian unsigned
/// integer held in `bytes`.
pub fn big(bytes: &[u8]) -> String {
    let mut i = 0;
    while i < bytes.len() && bytes[i] == 0 { i += 1; }
    if i == bytes.len() { return "0".into(); }
    let mut s = String::from("0x");
    for (n, b) in bytes[i..].iter().enumerate() {
        if n == 0 { s.push_str(&format!("{:x}", b)); } else { s.push_str(&format!("{:02x}", b)); }
    }
    s
}

/// `(length, big-endian value)` — a bijective image of a byte string as a Coq `Z * Z`.
pub fn bytes_z(bytes: &[u8]) -> String { format!("({},{})", bytes.len(), big(bytes)) }

/// Per-case table of byte strings the model only ever compares (keys, signatures,
/// body bytes, ids). `raw = true`: each distinct string is written once as a Coq `Z`
/// (`let vN := 0x… in`, its big-endian value) and referred to by name; `raw = false`:
/// the string is replaced by its index in the table (an injective renaming per case —
/// Coq parses large literals at ~20 us/bit, so most random cases use this form).
pub struct Intern { pub raw: bool, map: std::collections::HashMap<Vec<u8>, usize>, defs: Vec<String> }
impl Intern {
    pub fn new(raw: bool) -> Self { Intern { raw, map: Default::default(), defs: vec![] } }
    pub fn idx(&mut self, bytes: &[u8]) -> usize {
        let n = self.defs.len();
        let i = *self.map.entry(bytes.to_vec()).or_insert(n);
        if i == n { self.defs.push(big(bytes)); }
        i
    }
    pub fn z(&mut self, bytes: &[u8]) -> String {
        let i = self.idx(bytes);
        if self.raw { format!("v{}", i) } else { i.to_string() }
    }
    /// sort key consistent with `<=?` on the printed Z
    pub fn order(&mut self, bytes: &[u8]) -> Vec<u8> {
        if self.raw { bytes.to_vec() } else { (self.idx(bytes) as u64).to_be_bytes().to_vec() }
    }
    pub fn bytes_z(&mut self, bytes: &[u8]) -> String { format!("({},{})", bytes.len(), self.z(bytes)) }
    /// wrap a term that uses the names
    pub fn close(&self, term: &str) -> String {
        if !self.raw { return term.to_string(); }
        let mut s = String::from("(");
        for (i, d) in self.defs.iter().enumerate() { s.push_str(&format!("let v{} := {} in ", i, d)); }
        s.push_str(term);
        s.push(')');
        s
    }
}

pub fn arr<const N: usize>(v: &[u8]) -> [u8; N] {
    let mut a = [0u8; N];
    a.copy_from_slice(&v[..N]);
    a
}

/// Enterprise (key-hash) Shelley address for `net` with the given 28-byte payload.
pub fn enterprise_addr(net: u8, payload: &[u8; 28]) -> pallas_addresses::Address {
    let mut v = vec![0x60 | (net & 1)];
    v.extend_from_slice(payload);
    pallas_addresses::Address::from_bytes(&v).expect("address")
}

/// Classify a panic message into the model's panic codes.
pub fn panic_class(msg: &str) -> i64 {
    if msg.contains("on a `None` value") { 1 }
    else if msg.contains("on an `Err` value") { 2 }
    else if msg.contains("not yet implemented") || msg.contains("not implemented") { 3 }
    else if msg.contains("out of bounds") || msg.contains("out of range") || msg.contains("removal index") { 4 }
    else if msg.contains("overflow") { 5 }
    else { 9 }
}
