(* C28 proofs, part E (SettleBlock): see Proofs.v for the theorem [exec_sync_conformant]. *)
From PV Require Import Lib.Base P2p.Proto P2p.Initiator P2p.Spec C27.Proofs C28.Model.
From PV Require Import C28.Abs C28.Refine C28.Visitors C28.Emit.
Open Scope Z_scope.

Definition live (x : penv) : bool := synced x && match lk x with LDown => false | _ => true end.

(* the sends of one visit to one peer, settled one after the other *)
Lemma settle_block c i e0 p ms : forall st e s rest,
  lookup p (peers st) = Some s -> pend (eget p e) = [] ->
  Rel s (wire (eget p e)) -> Acc s -> Forall (epre s) ms -> NoDup (map proto_of ms) ->
  exists st' e' s',
    settle c i e0 st e (map (pair p) ms ++ rest) = settle c i e0 st' e' rest /\
    pr st' = pr st /\ ax st' = ax st /\ map fst (peers st') = map fst (peers st) /\
    (forall q, q <> p -> lookup q (peers st') = lookup q (peers st) /\ eget q e' = eget q e) /\
    lookup p (peers st') = Some s' /\ conn s' = conn s /\ tg s' = tg s /\
    pend (eget p e') = [] /\ lk (eget p e') = lk (eget p e) /\ synced (eget p e') = synced (eget p e) /\
    Rel s' (wire (eget p e')) /\ Acc s'.
Proof.
  induction ms as [|m ms IH]; intros st e s rest L P R A F N.
  - exists st, e, s. cbn [map app]. split; [reflexivity|]. split; [reflexivity|]. split; [reflexivity|]. split; [reflexivity|].
    split; [intros q _; split; reflexivity|]. split; [exact L|]. split; [reflexivity|]. split; [reflexivity|]. split; [exact P|].
    split; [reflexivity|]. split; [reflexivity|]. split; [exact R | exact A].
  - inversion F as [|? ? Em Fr]; subst. inversion N as [|? ? Nm Nr]; subst.
    destruct (epre_permitted s _ m R A Em) as (w1 & C1).
    cbn [map app settle]. unfold emit_one. rewrite C1.
    assert (S : step c st (ESent p m) = Ok (mkI (pr st) (ax st) (insert p (apply_msg s m) (peers st)), [])).
    { cbn [step]. unfold on_outbound. rewrite L. reflexivity. }
    rewrite S. rewrite eget_eset_eq. cbn [lk synced wire pend]. rewrite P. cbn [app tl].
    set (st1 := mkI (pr st) (ax st) (insert p (apply_msg s m) (peers st))).
    set (x := eget p e).
    set (e2 := eset p (mkPE (lk x) (synced x) w1 []) (eset p (mkPE (lk x) (synced x) w1 [m]) e)).
    assert (G2 : eget p e2 = mkPE (lk x) (synced x) w1 []) by (unfold e2; apply eget_eset_eq).
    destruct (IH st1 e2 (apply_msg s m) rest) as (st' & e' & s' & H1 & H2 & H3 & H4 & H5 & H6 & H7 & H8 & H9 & H10 & H11 & H12 & H13).
    + unfold st1. cbn [peers]. apply lookup_insert_eq.
    + rewrite G2. reflexivity.
    + rewrite G2. cbn [wire]. eapply rel_client_step; [exact R | exact C1].
    + eapply acc_step; [exact R | left; exact C1 | exact A].
    + rewrite Forall_forall in Fr |- *. intros m' I'. apply epre_frame; [exact A | exact Em | apply Fr, I' |].
      intros X. apply Nm. rewrite X. apply in_map, I'.
    + exact Nr.
    + exists st', e', s'. split; [exact H1|]. unfold st1 in *. cbn [pr ax peers] in *.
      split; [exact H2|]. split; [exact H3|]. split; [rewrite H4; eapply keys_insert_tracked; exact L|].
      split.
      { intros q Nq. destruct (H5 q Nq) as [X Y]. split.
        - rewrite X. apply lookup_insert_neq, Nq.
        - rewrite Y. unfold e2. rewrite !eget_eset_neq by exact Nq. reflexivity. }
      rewrite G2 in *. cbn [lk synced] in *.
      rewrite am_conn in H7.
      assert (T : tg (apply_msg s m) = tg s) by apply apply_msg_tg.
      split; [exact H6|]. split; [congruence|]. split; [congruence|]. split; [exact H9|]. split; [exact H10|]. split; [exact H11|]. split; [exact H12 | exact H13].
Qed.
