(* C29 correspondence.  Two kinds of cases: a history of the real
   InitiatorBehavior (as in C27: per step the event, drained outputs, promotion
   sets, optional peer snapshot, panicked flag) and a history of the real
   ResponderBehavior (event, outputs, optional peer snapshot, panicked flag).
   The model must produce the same outputs and states, and must panic exactly
   where the implementation panicked. *)
From PV Require Export Lib.Base P2p.Proto P2p.Initiator P2p.Responder P2p.Replay.
Open Scope Z_scope.

Definition rpeer_snap (s : rstate) : list Z :=
  [conn_code (rconn s); hs_code (rhs s); ka_code (rka s); ps_code (rps s); bf_code (rbf s);
   cs_code (rcs s); tx_code (rtx s); ln_code (rln s); lf_code (rlf s); b2z (rviol s); rerrc s].
Definition rpeers_snap (st : rst) : list (Z * list Z) :=
  psort (map (fun e => (fst e, rpeer_snap (snd e))) (rpeers st)).

Definition rstep_rec : Type := (revent * list output * option (list (Z * list Z)) * bool).

Fixpoint rreplay (cf : rcfg) (st : rst) (l : list rstep_rec) : bool :=
  match l with
  | [] => true
  | (e, out, snap, panicked) :: rest =>
      match rstep cf st e with
      | Ok (st1, out1) =>
          negb panicked && outs_eqb out1 out &&
          match snap with Some sn => snap_eqb (rpeers_snap st1) sn | None => true end &&
          rreplay cf st1 rest
      | Panic _ => panicked
      | Err _ => false
      end
  end.
Fixpoint rtrace (cf : rcfg) (st : rst) (l : list rstep_rec) : list (option (list (list Z) * list (Z * list Z))) :=
  match l with
  | [] => []
  | (e, _, _, _) :: rest =>
      match rstep cf st e with
      | Ok (st1, out1) => Some (map output_code out1, rpeers_snap st1) :: rtrace cf st1 rest
      | _ => [None]
      end
  end.
Definition mk_rcfg (t : Z * Z * list (Z * Z)) : rcfg := let '(a, b, c) := t in mkRCfg a b c.

Inductive case :=
| CInit (c : Z * Z * Z * Z) (l : list step_rec)
| CResp (c : Z * Z * list (Z * Z)) (l : list rstep_rec).

Definition case_ok (c : case) : bool :=
  match c with
  | CInit t l => replay (mk_cfg t) init l
  | CResp t l => rreplay (mk_rcfg t) rinit l
  end.
Definition case_out (c : case) :=
  match c with
  | CInit t l => inl (trace (mk_cfg t) init l)
  | CResp t l => inr (rtrace (mk_rcfg t) rinit l)
  end.
