(* C43 model: the three immutable-db file readers of pallas-hardano
   (src/storage/immutable/{primary,secondary,chunk}.rs) and the chunk iteration of
   mod.rs::read_blocks, transcribed over byte lists with a cursor.

   Files: an index file is its byte list (bytes are Z in [0,256)); the cursor of a
   BufReader<File> is (remaining bytes, absolute position).  The chunk file is
   represented by its LENGTH only: the readers never inspect block contents, a block
   read is the span (start, len) of the chunk file.

   [ovf] = true is the debug profile (overflow checks: + panics), false is release
   (wrapping).  After the repair (commit "fix: hardano immutable-db readers report
   inconsistent index offsets as errors ...") the only arithmetic left that can
   overflow is the u32 slot counter of the primary reader; before it, the two u64
   subtractions `current as u64 - start` (secondary.rs) and `next_offset - start`
   (chunk.rs) panicked in debug on decreasing offsets (release: the first wrapped
   and seeked backwards, the second wrapped into `vec![0u8; ~2^64]` = "capacity
   overflow" panic), and `vec![0u8; delta]` with a large corrupted delta aborted
   the process (allocation failure) in both profiles.
   Not modelled: I/O errors other than end-of-file (the `Some(Err(_))` arms fed by
   them are unreachable on regular files), missing files, 32-bit usize.

   Definitions only. *)
From PV Require Import Lib.Base Immutable.ChunkList.
Open Scope Z_scope.

Definition U32_MAX : Z := 4294967295.

(* error classes (what the caller of chunk::read_blocks / the block iterator sees) *)
Definition E_VERSION : Z := 1.       (* SecondaryIndexError(PrimaryIndexError(VersionMissing)) from read_blocks *)
Definition E_INCONSISTENT : Z := 2.  (* SecondaryIndexError(InconsistentState) *)
Definition E_READ_BLOCK : Z := 3.    (* CannotReadBlock *)
Definition E_FUEL : Z := 99.         (* model artefact: never produced (Proofs.fuel_sufficient) *)
(* panic classes (1, 3 and process abort can only be observed on the pre-fix code) *)
Definition P_SUB : Z := 1.           (* attempt to subtract with overflow *)
Definition P_ADD : Z := 2.           (* attempt to add with overflow *)
Definition P_CAP : Z := 3.           (* capacity overflow (Vec larger than isize::MAX) *)

Definition bind {A B} (o : outcome A) (f : A -> outcome B) : outcome B :=
  match o with Ok a => f a | Err e => Err e | Panic p => Panic p end.

(* ------------------------------------------------------------------ primary.rs *)

Inductive pentry := PEmpty (slot : Z) | POcc (slot off : Z).

Record pstate := mk_p {
  p_rest : list Z;            (* unread bytes of the primary file *)
  p_last_slot : option Z;
  p_last : option Z;          (* last_offset *)
  p_nxt : option Z }.         (* next_offset *)

Definition be32 (a b c d : Z) : Z := ((a * 256 + b) * 256 + c) * 256 + d.

(* read_offset: read_exact of 4 bytes; UnexpectedEof => None (and the reader has
   consumed whatever was left) *)
Definition read_offset (rest : list Z) : option Z * list Z :=
  match rest with
  | a :: b :: c :: d :: r => (Some (be32 a b c d), r)
  | _ => (None, [])
  end.

(* Reader::open: version byte, then two read_offset calls *)
Definition p_open (data : list Z) : outcome pstate :=
  match data with
  | [] => Err E_VERSION
  | _version :: r =>
      let '(lo, r1) := read_offset r in
      let '(no, r2) := read_offset r1 in
      Ok (mk_p r2 None lo no)
  end.

Definition p_clear (s : pstate) : pstate := mk_p (p_rest s) (p_last_slot s) None None.

(* Iterator::next.  Both Options are take()n first. *)
Definition p_next (ovf : bool) (s : pstate) : outcome (option pentry * pstate) :=
  match p_last s, p_nxt s with
  | None, _ => Ok (None, p_clear s)
  | Some _, None => Ok (None, p_clear s)
  | Some last, Some next =>
      (* self.last_slot.map(|x| x + 1).unwrap_or_default()  — u32 addition *)
      let slot := match p_last_slot s with Some x => x + 1 | None => 0 end in
      if ovf && (U32_MAX <? slot) then Panic P_ADD else
      let slot := slot mod 4294967296 in
      let entry := if last <? next then POcc slot last else PEmpty slot in
      let '(no, r) := read_offset (p_rest s) in
      Ok (Some entry, mk_p r (Some slot) (Some next) no)
  end.

(* next_occupied: loop { next() } until Occupied / None.  Fuel is a list (its
   length bounds the iterations; callers pass 0 :: 0 :: p_rest s). *)
Fixpoint p_next_occupied_loop (ovf : bool) (fuel : list Z) (s : pstate)
  : outcome (option pentry * pstate) :=
  match fuel with
  | [] => Err E_FUEL
  | _ :: f =>
      match p_next ovf s with
      | Ok (Some (PEmpty _), s') => p_next_occupied_loop ovf f s'
      | r => r
      end
  end.
Definition p_next_occupied (ovf : bool) (s : pstate) : outcome (option pentry * pstate) :=
  p_next_occupied_loop ovf (0 :: 0 :: p_rest s) s.

(* ---------------------------------------------------------------- secondary.rs *)

Inductive sres := SOk (block_offset : Z) | SErr (e : Z).

Record sstate := mk_s {
  s_rest : list Z;           (* bytes of the secondary file from the cursor on *)
  s_pos : Z;                 (* stream_position() *)
  s_idx : pstate;
  s_cur : option pentry }.   (* current *)

(* drop n elements (n : Z, never converted to nat) *)
Fixpoint skipz (n : Z) (l : list Z) : list Z :=
  match l with
  | [] => []
  | _ :: r => if n <=? 0 then l else skipz (n - 1) r
  end.

Fixpoint split_n (n : nat) (l : list Z) : option (list Z * list Z) :=
  match n with
  | O => Some ([], l)
  | S n' => match l with
            | [] => None
            | x :: r => match split_n n' r with
                        | Some (a, b) => Some (x :: a, b)
                        | None => None
                        end
            end
  end.

Definition be (l : list Z) : Z := fold_left (fun a b => a * 256 + b) l 0.

(* layout: block_offset u64 | header_offset u16 | header_size u16 | checksum u32 |
   header_hash [32] | block_or_ebb [8]  = 56 bytes; only block_offset is consumed by
   the chunk reader *)
Definition ENTRY_SIZE : nat := 56.
Definition entry_block_offset (e : list Z) : Z := be (firstn 8 e).

Definition s_open (ovf : bool) (idx : pstate) (sec : list Z) : outcome sstate :=
  bind (p_next_occupied ovf idx) (fun '(cur, idx') => Ok (mk_s sec 0 idx' cur)).

Definition s_stop (s : sstate) : sstate := mk_s (s_rest s) (s_pos s) (s_idx s) None.

Definition s_next (ovf : bool) (s : sstate) : outcome (option sres * sstate) :=
  match s_cur s with
  | None => Ok (None, s)
  | Some (PEmpty _) => Ok (None, s_stop s)                 (* x.offset()? *)
  | Some (POcc _ current) =>
      let start := s_pos s in
      (* let Some(delta) = (current as u64).checked_sub(start) else { current = None; Err(InconsistentState) } *)
      if current <? start then Ok (Some (SErr E_INCONSISTENT), s_stop s) else
      (* seek_relative(delta as i64): delta < 2^32; seeking past the end of a file is allowed *)
      let rest1 := skipz (current - start) (s_rest s) in
      match split_n ENTRY_SIZE rest1 with
      | Some (e, rest2) =>
          bind (p_next_occupied ovf (s_idx s)) (fun '(cur', idx') =>
          Ok (Some (SOk (entry_block_offset e)), mk_s rest2 (current + 56) idx' cur'))
      | None =>                                            (* UnexpectedEof; the cursor is never used again *)
          Ok (Some (SErr E_INCONSISTENT), mk_s [] current (s_idx s) None)
      end
  end.

(* -------------------------------------------------------------------- chunk.rs *)

Inductive item := Blk (start len : Z) | Bad (e : Z) | Boom (p : Z).

Record cstate := mk_c {
  c_len : Z;                 (* length of the chunk file *)
  c_pos : Z;                 (* cursor *)
  c_idx : sstate;
  c_cur : option sres;
  c_nxt : option sres }.

Definition c_open (ovf : bool) (idx : sstate) (clen : Z) : outcome cstate :=
  bind (s_next ovf idx) (fun '(cur, idx1) =>
  bind (s_next ovf idx1) (fun '(nxt, idx2) =>
  Ok (mk_c clen 0 idx2 cur nxt))).

(* read_middle_block: returns the item and the new cursor.
     delta = next_offset.checked_sub(start)              -> None: CannotReadBlock
     file.by_ref().take(delta).read_to_end(&mut buf)      reads n = min(delta, bytes left)
     buf.len() < delta                                    -> CannotReadBlock(UnexpectedEof) *)
Definition read_middle_block (clen start next_offset : Z) : item * Z :=
  if next_offset <? start then (Bad E_READ_BLOCK, start) else
  let delta := next_offset - start in
  let n := Z.min delta (clen - start) in
  if n <? delta then (Bad E_READ_BLOCK, start + n) else (Blk start delta, start + delta).

(* read_last_block: read_to_end *)
Definition read_last_block (clen start : Z) : item * Z := (Blk start (clen - start), clen).

Definition c_next (ovf : bool) (c : cstate) : outcome (option item * cstate) :=
  match c_cur c, c_nxt c with
  | None, _ => Ok (None, mk_c (c_len c) (c_pos c) (c_idx c) None None)
  | Some _, Some (SErr e) =>
      Ok (Some (Bad e), mk_c (c_len c) (c_pos c) (c_idx c) None None)
  | Some _, Some (SOk next_offset) =>
      let '(it, pos') := read_middle_block (c_len c) (c_pos c) next_offset in
      bind (s_next ovf (c_idx c)) (fun '(nxt', idx') =>
      Ok (Some it, mk_c (c_len c) pos' idx' (Some (SOk next_offset)) nxt'))
  | Some _, None =>
      let '(it, pos') := read_last_block (c_len c) (c_pos c) in
      Ok (Some it, mk_c (c_len c) pos' (c_idx c) None None)
  end.

(* draining the iterator; a panic ends everything *)
Fixpoint c_collect (ovf : bool) (fuel : list Z) (c : cstate) : list item :=
  match fuel with
  | [] => [Bad E_FUEL]
  | _ :: f =>
      match c_next ovf c with
      | Ok (Some it, c') => it :: c_collect ovf f c'
      | Ok (None, _) => []
      | Err e => [Bad e]
      | Panic p => [Boom p]
      end
  end.

Record cfiles := mk_files { f_primary : list Z; f_secondary : list Z; f_chunk_len : Z }.

(* chunk::read_blocks(dir, name) *)
Definition chunk_open (ovf : bool) (f : cfiles) : outcome cstate :=
  bind (p_open (f_primary f)) (fun p =>
  bind (s_open ovf p (f_secondary f)) (fun s =>
  c_open ovf s (f_chunk_len f))).

Definition collect_fuel (f : cfiles) : list Z := 0 :: 0 :: 0 :: 0 :: 0 :: f_primary f.

(* chunk::read_blocks(dir, name) followed by draining the iterator *)
Definition read_chunk (ovf : bool) (f : cfiles) : outcome (list item) :=
  bind (chunk_open ovf f) (fun c => Ok (c_collect ovf (collect_fuel f) c)).

Definition is_boom (i : item) : bool := match i with Boom _ => true | _ => false end.

(* immutable::read_blocks(dir): ChunkReaders(..).map_while(Result::ok).flatten(), drained *)
Fixpoint read_chunks (ovf : bool) (l : list cfiles) : list item :=
  match l with
  | [] => []
  | f :: r =>
      match chunk_open ovf f with
      | Ok c => let its := c_collect ovf (collect_fuel f) c in
                if existsb is_boom its then its else its ++ read_chunks ovf r
      | Err _ => []
      | Panic p => [Boom p]
      end
  end.

Definition lookup (db : list (Z * cfiles)) (n : Z) : cfiles :=
  match find (fun e => fst e =? n) db with
  | Some e => snd e
  | None => mk_files [] [] 0
  end.

(* a database directory: (chunk name, its three files) in any order *)
Definition read_db (ovf : bool) (db : list (Z * cfiles)) : list item :=
  read_chunks ovf (map (lookup db) (pop_order (build_stack (map fst db)))).

(* The observable outcome of reading: Panic if any step panicked. *)
Definition first_boom (l : list item) : option Z :=
  match find is_boom l with Some (Boom p) => Some p | _ => None end.
Definition read (ovf : bool) (db : list (Z * cfiles)) : outcome (list item) :=
  match first_boom (read_db ovf db) with
  | Some p => Panic p
  | None => Ok (read_db ovf db)
  end.
Definition read_one (ovf : bool) (f : cfiles) : outcome (list item) :=
  match read_chunk ovf f with
  | Ok its => match first_boom its with Some p => Panic p | None => Ok its end
  | r => r
  end.
