(* Closed form of the key buffer: after keygen and t updates the buffer is [key_at d s t].
   Shared by C12 and C13. *)
From PV Require Import Lib.Base Kes.Model.
Open Scope Z_scope.

(* ---- term equality ---- *)
Lemma term_eqb_refl x : term_eqb x x = true.
Proof. induction x; cbn [term_eqb]; rewrite ?IHx, ?IHx1, ?IHx2, ?Z.eqb_refl; reflexivity. Qed.

Lemma term_eqb_eq x y : term_eqb x y = true <-> x = y.
Proof.
  split; [|intros ->; apply term_eqb_refl].
  revert y; induction x; intros [] H; cbn [term_eqb] in H; try discriminate;
    repeat match goal with
    | H : _ && _ = true |- _ => apply andb_true_iff in H as [? ?]
    | H : (_ =? _) = true |- _ => apply Z.eqb_eq in H
    | IH : forall y, term_eqb ?a y = true -> _, H : term_eqb ?a _ = true |- _ => apply IH in H
    end; subst; reflexivity.
Qed.

Lemma term_eqb_neq x y : term_eqb x y = false <-> x <> y.
Proof.
  split.
  - intros H E. apply term_eqb_eq in E. congruence.
  - intros H. destruct (term_eqb x y) eqn:E; [|reflexivity]. apply term_eqb_eq in E. contradiction.
Qed.

(* ---- powers of two ---- *)
Lemma total_pos d : 0 < total d.
Proof. unfold total. apply Z.pow_pos_nonneg; lia. Qed.
Lemma total_S d : total (S d) = 2 * total d.
Proof. unfold total. rewrite Nat2Z.inj_succ, Z.pow_succ_r by lia. reflexivity. Qed.
Lemma half_S d : half (S d) = total d.
Proof. unfold half, total. f_equal. lia. Qed.

(* ---- slot lists ---- *)
Lemma key_at_length n : forall s t, length (key_at n s t) = ksize n.
Proof.
  induction n as [|n IH]; intros s t; cbn [key_at]; [reflexivity|].
  destruct (t <? total n); rewrite app_length, IH; unfold ksize; cbn [length]; lia.
Qed.

Lemma firstn_exact {A} (a b : list A) n : length a = n -> firstn n (a ++ b) = a.
Proof. intros <-. rewrite firstn_app, Nat.sub_diag, firstn_all. cbn. apply app_nil_r. Qed.
Lemma skipn_exact {A} (a b : list A) n : length a = n -> skipn n (a ++ b) = b.
Proof. intros <-. rewrite skipn_app, Nat.sub_diag, skipn_all. reflexivity. Qed.
Lemma firstn_exact1 {A} (a : list A) x b n : length a = n -> firstn (n + 1) (a ++ x :: b) = a ++ [x].
Proof.
  intros H. replace (a ++ x :: b) with ((a ++ [x]) ++ b) by (rewrite <- app_assoc; reflexivity).
  apply firstn_exact. rewrite app_length. cbn. lia.
Qed.
Lemma skipn_exact1 {A} (a : list A) x b n : length a = n -> skipn (n + 1) (a ++ x :: b) = b.
Proof.
  intros H. replace (a ++ x :: b) with ((a ++ [x]) ++ b) by (rewrite <- app_assoc; reflexivity).
  apply skipn_exact. rewrite app_length. cbn. lia.
Qed.

Lemma get_app a b n i : length a = n -> get (n + i) (a ++ b) = get i b.
Proof. intros <-. unfold get. rewrite app_nth2 by lia. f_equal. lia. Qed.
Lemma get_app0 a b n : length a = n -> get n (a ++ b) = get 0 b.
Proof. intros H. rewrite <- (Nat.add_0_r n) at 1. apply get_app, H. Qed.

Lemma put_app a b n i v : length a = n -> put (n + i) v (a ++ b) = a ++ put i v b.
Proof.
  intros <-. unfold put. rewrite firstn_app, skipn_app.
  rewrite firstn_all2 by lia. rewrite skipn_all2 by lia.
  replace (length a + i - length a)%nat with i by lia.
  replace (S (length a + i) - length a)%nat with (S i) by lia.
  cbn [app]. rewrite <- app_assoc. reflexivity.
Qed.
Lemma put_app0 a b n v : length a = n -> put n v (a ++ b) = a ++ put 0 v b.
Proof. intros H. rewrite <- (Nat.add_0_r n) at 1. apply put_app, H. Qed.

(* a list of length n+3 is a prefix of length n followed by three slots *)
Lemma split_last3 {A} (b : list A) n :
  length b = (n + 3)%nat -> exists a x y z, b = a ++ [x; y; z] /\ length a = n.
Proof.
  intros H. exists (firstn n b).
  pose proof (firstn_skipn n b) as E.
  assert (Hs : length (skipn n b) = 3%nat) by (rewrite skipn_length; lia).
  destruct (skipn n b) as [|x [|y [|z [|? ?]]]]; cbn in Hs; try lia.
  exists x, y, z. split; [symmetry; exact E|]. rewrite firstn_length. lia.
Qed.

Lemma ksize_S d : ksize (S d) = (ksize d + 3)%nat.
Proof. unfold ksize. lia. Qed.

(* ---- keygen_slice ---- *)
Lemma keygen_slice_some d : forall b s,
  length b = ksize d ->
  keygen_slice d b (Some s) = (key_at d s 0, Some Zero, pk_tree d s).
Proof.
  induction d as [|d IH]; intros b s Hb.
  - destruct b as [|x [|? ?]]; cbn in Hb; try discriminate. reflexivity.
  - rewrite ksize_S in Hb. destruct (split_last3 b (ksize d) Hb) as (a & x & y & z & -> & Ha).
    cbn [keygen_slice].
    rewrite (put_app0 a _ _ _ Ha). cbn [put firstn skipn app].
    rewrite (firstn_exact a _ _ Ha), (skipn_exact a _ _ Ha).
    rewrite (IH a (L s) Ha).
    rewrite (IH (repeat Zero (ksize d)) (R s) (repeat_length _ _)).
    pose proof (key_at_length d (L s) 0) as Hk.
    rewrite (put_app _ _ _ 1 _ Hk). cbn [put firstn skipn app].
    rewrite (put_app _ _ _ 2 _ Hk). cbn [put firstn skipn app].
    cbn [key_at pk_tree].
    assert (E : (0 <? total d) = true) by (pose proof (total_pos d); lia).
    rewrite E. reflexivity.
Qed.

Lemma keygen_slice_none d : forall b s,
  length b = ksize d ->
  keygen_slice d (b ++ [s]) None = (key_at d s 0 ++ [Zero], None, pk_tree d s).
Proof.
  destruct d as [|d]; intros b s Hb.
  - destruct b as [|x [|? ?]]; cbn in Hb; try discriminate. reflexivity.
  - pose proof Hb as Hb'. rewrite ksize_S in Hb'.
    destruct (split_last3 b (ksize d) Hb') as (a & x & y & z & -> & Ha).
    cbn [keygen_slice].
    rewrite (get_app0 _ _ _ Hb), (put_app0 _ _ _ _ Hb). cbn [get nth put firstn skipn app].
    rewrite <- !app_assoc. cbn [app].
    rewrite (put_app0 a _ _ _ Ha). cbn [put firstn skipn app].
    rewrite (firstn_exact a _ _ Ha), (skipn_exact a _ _ Ha).
    rewrite (keygen_slice_some d a (L s) Ha).
    rewrite (keygen_slice_some d (repeat Zero (ksize d)) (R s) (repeat_length _ _)).
    pose proof (key_at_length d (L s) 0) as Hk.
    rewrite (put_app _ _ _ 1 _ Hk). cbn [put firstn skipn app].
    rewrite (put_app _ _ _ 2 _ Hk). cbn [put firstn skipn app].
    cbn [key_at pk_tree].
    assert (E : (0 <? total d) = true) by (pose proof (total_pos d); lia).
    rewrite E. rewrite <- app_assoc. reflexivity.
Qed.

(* ---- update_slice ---- *)
Lemma update_slice_last d : forall s t,
  t + 1 = total d -> update_slice d (key_at d s t) t = (key_at d s t, false).
Proof.
  destruct d as [|d]; intros s t Ht; [reflexivity|].
  cbn [update_slice]. assert (E : (t + 1 =? total (S d)) = true) by lia. rewrite E. reflexivity.
Qed.

Lemma update_slice_step d : forall s t,
  0 <= t -> t + 1 < total d -> update_slice d (key_at d s t) t = (key_at d s (t + 1), true).
Proof.
  induction d as [|d IH]; intros s t H0 Ht.
  - unfold total in Ht. cbn in Ht. lia.
  - cbn [update_slice]. rewrite half_S.
    assert (E : (t + 1 =? total (S d)) = false) by lia. rewrite E.
    rewrite total_S in Ht. cbn [key_at].
    destruct (Z.compare_spec (t + 1) (total d)) as [Hc|Hc|Hc].
    + (* the left subtree is exhausted: regenerate from the stored right seed *)
      assert (E1 : (t <? total d) = true) by lia.
      assert (E2 : (t + 1 <? total d) = false) by lia.
      rewrite E1, E2.
      pose proof (key_at_length d (L s) t) as Hk.
      rewrite (firstn_exact1 _ _ _ _ Hk), (skipn_exact1 _ _ _ _ Hk).
      rewrite (keygen_slice_none d _ (R s) Hk).
      replace (t + 1 - total d) with 0 by lia.
      rewrite <- app_assoc. reflexivity.
    + assert (E1 : (t <? total d) = true) by lia.
      assert (E2 : (t + 1 <? total d) = true) by lia.
      rewrite E1, E2.
      pose proof (key_at_length d (L s) t) as Hk.
      rewrite (firstn_exact _ _ _ Hk), (skipn_exact _ _ _ Hk).
      rewrite (IH (L s) t H0 Hc). reflexivity.
    + assert (E1 : (t <? total d) = false) by lia.
      assert (E2 : (t + 1 <? total d) = false) by lia.
      rewrite E1, E2.
      pose proof (key_at_length d (R s) (t - total d)) as Hk.
      rewrite (firstn_exact _ _ _ Hk), (skipn_exact _ _ _ Hk).
      rewrite (IH (R s) (t - total d)) by lia.
      replace (t + 1 - total d) with (t - total d + 1) by lia. reflexivity.
Qed.

(* a refused update_slice leaves the slice exactly as it was — for ANY slice and period *)
Lemma update_slice_err_unchanged d : forall ks p ks',
  update_slice d ks p = (ks', false) -> ks' = ks.
Proof.
  induction d as [|d IH]; intros ks p ks' H; cbn [update_slice] in H.
  - injection H as <-. reflexivity.
  - destruct (p + 1 =? total (S d)); [injection H as <-; reflexivity|].
    destruct (p + 1 ?= half (S d)).
    + destruct (keygen_slice d _ None) as [[sub ?] ?]. discriminate.
    + destruct (update_slice d (firstn (ksize d) ks) p) as [sub ok] eqn:E.
      injection H as <- ->. rewrite (IH _ _ _ E). apply firstn_skipn.
    + destruct (update_slice d (firstn (ksize d) ks) (p - half (S d))) as [sub ok] eqn:E.
      injection H as <- ->. rewrite (IH _ _ _ E). apply firstn_skipn.
Qed.

Lemma update_err_unchanged d k k' : update d k = (k', false) -> k' = k.
Proof.
  destruct k as [b p]. cbn [update]. destruct (update_slice d b p) as [b' ok] eqn:E.
  destruct ok; [discriminate|]. intros H. injection H as <-.
  rewrite (update_slice_err_unchanged _ _ _ _ E). reflexivity.
Qed.

(* ---- the key object ---- *)
Lemma keygen_closed d b s : length b = ksize d ->
  keygen d b s = ((key_at d s 0, 0), pk_tree d s, Zero).
Proof. intros Hb. unfold keygen. rewrite (keygen_slice_some d b s Hb). reflexivity. Qed.

Lemma updates_closed d s : forall n,
  Z.of_nat n < total d ->
  updates d n (key_at d s 0, 0) = Some (key_at d s (Z.of_nat n), Z.of_nat n).
Proof.
  induction n as [|n IH]; intros Hn; [reflexivity|].
  cbn [updates]. rewrite IH by lia. cbn [update].
  rewrite update_slice_step by lia.
  replace (Z.of_nat n + 1) with (Z.of_nat (S n)) by lia. reflexivity.
Qed.

Lemma updates_too_many d s : forall n,
  total d <= Z.of_nat n -> updates d n (key_at d s 0, 0) = None.
Proof.
  induction n as [|n IH]; intros Hn; [pose proof (total_pos d); lia|].
  cbn [updates]. destruct (Z.eq_dec (Z.of_nat n + 1) (total d)) as [E|E].
  - rewrite updates_closed by lia. cbn [update]. rewrite update_slice_last by exact E. reflexivity.
  - rewrite IH by lia. reflexivity.
Qed.

(* the last two slots of a key of depth >= 1 are the two subtree public keys *)
Lemma key_at_S_shape d s t :
  exists a x, key_at (S d) s t = a ++ [x; pk_tree d (L s); pk_tree d (R s)] /\ length a = ksize d
    /\ a = (if t <? total d then key_at d (L s) t else key_at d (R s) (t - total d)).
Proof.
  cbn [key_at]. destruct (t <? total d); eexists; eexists; (split; [reflexivity|]);
    split; try reflexivity; apply key_at_length.
Qed.

Lemma to_pk_key_at d s t p : to_pk (S d) (key_at (S d) s t, p) = pk_tree (S d) s.
Proof.
  destruct (key_at_S_shape d s t) as (a & x & E & Ha & _).
  unfold to_pk, key_buf. cbn [fst]. rewrite E.
  replace (ksize (S d) - 2)%nat with (ksize d + 1)%nat by (unfold ksize; lia).
  replace (ksize (S d) - 1)%nat with (ksize d + 2)%nat by (unfold ksize; lia).
  rewrite !(get_app _ _ _ _ Ha). reflexivity.
Qed.
