(* C36 — property theorems only. Statements are pinned by vp/check.py. *)
From PV Require Import Lib.Base C36.Model C36.Proofs.
Open Scope Z_scope.

(* The validator measures a transaction exactly as the traversal (ledger) size, in every
   post-Byron era, for every transaction below 4 GiB. *)
Theorem size_is_ledger_size : forall era b w aux,
  0 <= b -> 0 <= w -> (forall a, aux = Some a -> 0 <= a) -> traverse_size b w aux + 1 < U32 ->
  validator_size era b w aux = traverse_size b w aux.
Proof. exact size_all. Qed.

(* A fee of exactly a*size+b is accepted, one lovelace less is rejected. *)
Theorem min_fee_boundary : forall a b size,
  check_min_fee (min_fee a b size) a b size = V_OK /\
  check_min_fee (min_fee a b size - 1) a b size = V_FEE.
Proof. exact fee_boundary. Qed.

(* ... and the u64 arithmetic of the repaired rule cannot overflow for u32 parameters. *)
Theorem min_fee_no_u64_overflow : forall a b size,
  0 <= a < U32 -> 0 <= b < U32 -> 0 <= size < U32 -> 0 <= min_fee a b size < 18446744073709551616.
Proof. exact min_fee_fits. Qed.

(* The maximum size is enforced at exactly the size. *)
Theorem max_size_boundary : forall size,
  check_tx_size size size = V_OK /\ check_tx_size size (size - 1) = V_SIZE.
Proof. exact size_boundary. Qed.

(* Both rules together, in terms of the ledger size only. *)
Theorem fee_and_size_use_ledger_size : forall era b w aux fee a bb max,
  0 <= b -> 0 <= w -> (forall x, aux = Some x -> 0 <= x) -> traverse_size b w aux + 1 < U32 ->
  (fee_and_size_ok era b w aux fee a bb max = true <->
   bb + a * traverse_size b w aux <= fee /\ traverse_size b w aux <= max).
Proof. exact e2e_iff. Qed.

(* What was wrong before the repairs. *)
Theorem alonzo_size_refuted_before_fix :
  exists b w aux, 0 <= b /\ 0 <= w /\ traverse_size b w aux < U32 /\
    alonzo_comp_tx_size_old b w aux < traverse_size b w aux.
Proof. exact alonzo_size_old_refuted. Qed.

Theorem babbage_conway_size_refuted_before_fix :
  exists b w aux, 0 <= b /\ 0 <= w /\ traverse_size b w aux + 1 < U32 /\
    babbage_tx_size_old b w aux = traverse_size b w aux + 1.
Proof. exact babbage_size_old_refuted. Qed.

Theorem min_fee_u32_wrap_refuted_before_fix :
  exists fee a b size, 0 <= a < U32 /\ 0 <= b < U32 /\ 0 <= size < U32 /\
    fee < min_fee a b size /\ check_min_fee_old_release fee a b size = V_OK.
Proof. exact min_fee_old_wrap_refuted. Qed.

Example sizes_example :
  validator_size 1 224 37 None = 263 /\ traverse_size 224 37 None = 263 /\
  validator_size 3 224 37 (Some 10) = 272 /\
  check_min_fee (155381 + 44 * 263) 44 155381 263 = V_OK /\
  check_min_fee (155381 + 44 * 263 - 1) 44 155381 263 = V_FEE.
Proof. repeat split; vm_compute; reflexivity. Qed.
