(* C32 model: pallas-traverse/src/time.rs transcribed over the record and the
   constants that translators/wellknown.py regenerates from wellknown.rs.

   u64 arithmetic is explicit: every +, -, * goes through [wrap]; in a build with
   overflow checks (cargo dev profile) an out-of-range result panics
   ([Panic 1]), in a release build it wraps modulo 2^64.  Division / remainder
   by zero panics in both ([Panic 2]); the `assert!(era_epoch_length > 0)` is
   [Panic 3].  Operations are sequenced in Rust's evaluation order, so the model
   reports the same panic the code reaches first. *)
From PV Require Import Lib.Base Generated.Wellknown.
Open Scope Z_scope.

Inductive mode : Type := Debug | Release.

Definition U64 : Z := 2 ^ 64.

Definition bind {A B} (o : outcome A) (f : A -> outcome B) : outcome B :=
  match o with Ok a => f a | Err e => Err e | Panic p => Panic p end.
Notation "'do' x <- o ; f" := (bind o (fun x => f)) (at level 200, x pattern, o at level 100, f at level 200).

Definition wrap (m : mode) (x : Z) : outcome Z :=
  if (0 <=? x) && (x <? U64) then Ok x
  else match m with Debug => Panic 1 | Release => Ok (x mod U64) end.
Definition uadd m a b := wrap m (a + b).
Definition usub m a b := wrap m (a - b).
Definition umul m a b := wrap m (a * b).
Definition udiv (a b : Z) : outcome Z := if b =? 0 then Panic 2 else Ok (a / b).
Definition urem (a b : Z) : outcome Z := if b =? 0 then Panic 2 else Ok (a mod b).

(* known_time + (query_slot - known_slot) * slot_length *)
Definition compute_linear_timestamp m (known_slot known_time slot_length query_slot : Z) : outcome Z :=
  do d <- usub m query_slot known_slot;
  do p <- umul m d slot_length;
  uadd m known_time p.

(* assert!(era_epoch_length > 0);
   epoch = (era_slot * era_slot_length) / era_epoch_length; reminder = era_slot % era_epoch_length *)
Definition compute_era_epoch m (era_slot era_slot_length era_epoch_length : Z) : outcome (Z * Z) :=
  if era_epoch_length <=? 0 then Panic 3 else
  do p <- umul m era_slot era_slot_length;
  do epoch <- udiv p era_epoch_length;
  do reminder <- urem era_slot era_epoch_length;
  Ok (epoch, reminder).

(* ((sub_era_epoch * era_epoch_length) / era_slot_length) + sub_epoch_slot *)
Definition compute_absolute_slot_within_era m (sub_era_epoch sub_epoch_slot era_epoch_length era_slot_length : Z)
  : outcome Z :=
  do p <- umul m sub_era_epoch era_epoch_length;
  do q <- udiv p era_slot_length;
  uadd m q sub_epoch_slot.

Definition shelley_start_epoch m (g : genesis) : outcome Z :=
  do er <- compute_era_epoch m (shelley_known_slot g) (byron_slot_length g) (byron_epoch_length g);
  Ok (fst er).

Definition slot_to_wallclock m (g : genesis) (slot : Z) : outcome Z :=
  if slot <? shelley_known_slot g
  then compute_linear_timestamp m (byron_known_slot g) (byron_known_time g) (byron_slot_length g) slot
  else compute_linear_timestamp m (shelley_known_slot g) (shelley_known_time g) (shelley_slot_length g) slot.

Definition absolute_slot_to_relative m (g : genesis) (slot : Z) : outcome (Z * Z) :=
  if slot <? shelley_known_slot g
  then compute_era_epoch m slot (byron_slot_length g) (byron_epoch_length g)
  else
    do era_slot <- usub m slot (shelley_known_slot g);
    do er <- compute_era_epoch m era_slot (shelley_slot_length g) (shelley_epoch_length g);
    do sse <- shelley_start_epoch m g;
    do e <- uadd m sse (fst er);
    Ok (e, snd er).

Definition relative_slot_to_absolute m (g : genesis) (epoch slot : Z) : outcome Z :=
  do sse <- shelley_start_epoch m g;
  if epoch <? sse
  then compute_absolute_slot_within_era m epoch slot (byron_epoch_length g) (byron_slot_length g)
  else
    do byron_slots <- compute_absolute_slot_within_era m sse 0 (byron_epoch_length g) (byron_slot_length g);
    do d <- usub m epoch sse;
    do shelley_slots <- compute_absolute_slot_within_era m d slot (shelley_epoch_length g) (shelley_slot_length g);
    uadd m byron_slots shelley_slots.

(* ------------------------------------------------------------------ *)
(* Specification vocabulary                                            *)

(* slots per epoch of the era an absolute slot falls in, and that era's slot length *)
Definition byron_slots_per_epoch (g : genesis) : Z := byron_epoch_length g / byron_slot_length g.
Definition shelley_slots_per_epoch (g : genesis) : Z := shelley_epoch_length g / shelley_slot_length g.
Definition era_slots_per_epoch (g : genesis) (slot : Z) : Z :=
  if slot <? shelley_known_slot g then byron_slots_per_epoch g else shelley_slots_per_epoch g.
Definition era_slot_length (g : genesis) (slot : Z) : Z :=
  if slot <? shelley_known_slot g then byron_slot_length g else shelley_slot_length g.

(* well-formed genesis record: field widths as declared; positive lengths, the
   slot length divides the epoch length and stays below 2^20 s; known slots below
   2^40, known times below 2^62 (so nothing overflows for slots below 2^40);
   the Shelley known slot lies on a Byron epoch boundary and not before the
   Byron known slot. *)
Definition wfb (g : genesis) : bool :=
  genesis_fits g &&
  (0 <? byron_slot_length g) && (byron_slot_length g <? 2 ^ 20) &&
  (0 <? byron_epoch_length g) && (byron_epoch_length g mod byron_slot_length g =? 0) &&
  (0 <? shelley_slot_length g) && (shelley_slot_length g <? 2 ^ 20) &&
  (0 <? shelley_epoch_length g) && (shelley_epoch_length g mod shelley_slot_length g =? 0) &&
  (shelley_known_slot g <? 2 ^ 40) &&
  (shelley_known_slot g mod byron_slots_per_epoch g =? 0) &&
  (byron_known_slot g <=? shelley_known_slot g) &&
  (byron_known_time g <? 2 ^ 62) && (shelley_known_time g <? 2 ^ 62).
Definition wf (g : genesis) : Prop := wfb g = true.

(* the Shelley clock starts where the Byron clock would be at the Shelley known slot *)
Definition continuousb (g : genesis) : bool :=
  shelley_known_time g =? byron_known_time g + (shelley_known_slot g - byron_known_slot g) * byron_slot_length g.

(* The C32 property at one absolute slot: the relative form has a slot-in-epoch
   below the era's epoch size in slots, converts back to the slot, and the clock
   advances by the era's slot length from this slot to the next. *)
Definition consistent (m : mode) (g : genesis) (slot : Z) : Prop :=
  exists e r w w',
    absolute_slot_to_relative m g slot = Ok (e, r) /\
    0 <= r < era_slots_per_epoch g slot /\
    relative_slot_to_absolute m g e r = Ok slot /\
    slot_to_wallclock m g slot = Ok w /\
    slot_to_wallclock m g (slot + 1) = Ok w' /\
    w' = w + era_slot_length g slot.

(* boolean form of the same, for witnesses and the tie *)
Definition outcome_eqb {A} (eqb : A -> A -> bool) (a b : outcome A) : bool :=
  match a, b with
  | Ok x, Ok y => eqb x y
  | Err x, Err y => x =? y
  | Panic x, Panic y => x =? y
  | _, _ => false
  end.
Definition pair_eqb (a b : Z * Z) : bool := (fst a =? fst b) && (snd a =? snd b).

Definition relative_okb m g slot : bool :=
  match absolute_slot_to_relative m g slot with
  | Ok (e, r) => (0 <=? r) && (r <? era_slots_per_epoch g slot) &&
                 outcome_eqb Z.eqb (relative_slot_to_absolute m g e r) (Ok slot)
  | _ => false
  end.
Definition step_okb m g slot : bool :=
  match slot_to_wallclock m g slot, slot_to_wallclock m g (slot + 1) with
  | Ok w, Ok w' => w' =? w + era_slot_length g slot
  | _, _ => false
  end.
Definition consistentb m g slot : bool := relative_okb m g slot && step_okb m g slot.
