(* C11 — property theorems only. Statements are pinned by vp/check.py. *)
Require Import Coq.Strings.String.   (* first: List's names must shadow String's *)
From PV Require Import Lib.Base Crypto.Hex Crypto.Sha512 Crypto.Ed25519Spec Crypto.Ed25519Proofs
  C11.Model C11.Proofs.
Open Scope Z_scope.

(* Signatures verify: over ANY group satisfying [group_laws] (an equivalence on
   representatives, a commutative group law, scalar multiplication, a base point
   of order dividing L, an encoding that [dec] inverts) and ANY hash oracle,
   a signature made with secret scalar a >= 0 and any nonce prefix verifies
   under the public key of a. *)
Theorem schnorr_complete :
  forall (G : Type) geq gop gneg gid smul B smulB L enc dec (hashZ : list Z -> Z),
  group_laws G geq gop gneg gid smul B smulB L enc dec ->
  forall a prefix m, 0 <= a ->
  verify_core G gop gneg smul smulB L enc dec hashZ
    (pk_of G smulB enc a) m (sign_core G smulB L enc hashZ a (pk_of G smulB enc a) prefix m) = true.
Proof. intros. now apply schnorr_complete_proof with (geq := geq) (gid := gid) (B := B). Qed.

(* the premises of [schnorr_complete] are satisfiable (Z/13, generator 1) *)
Theorem group_laws_satisfiable :
  group_laws Z toy_eq Z.add Z.opp 0 Z.mul 1 (fun k => k) 13 toy_enc toy_dec.
Proof. exact toy_group_laws. Qed.

(* FULL STATEMENT (not proved: it needs the group laws of edwards25519 for the
   projective formulas of Ed25519Spec.v, which this development does not prove):
     forall sk m, pk_verify (sk_public_key sk) m (sk_sign sk m) = true.
   Proved: the same with the curve's group laws [ed_group_laws] as a premise;
   the concrete functions are exactly the instances of the abstract scheme. *)
Theorem ed25519_sign_verify_partial :
  ed_group_laws -> forall sk m,
  all_zero (sk_public_key sk) = false -> pk_verify (sk_public_key sk) m (sk_sign sk m) = true.
Proof. exact ed25519_sign_verify_proof. Qed.

Theorem ed25519_ext_sign_verify_partial :
  ed_group_laws -> forall esk m, bytes_wf esk ->
  all_zero (esk_public_key esk) = false -> pk_verify (esk_public_key esk) m (esk_sign esk m) = true.
Proof. exact ed25519_ext_sign_verify_proof. Qed.

(* clamping: check_structure tests exactly the three low bits of byte 0 and bits 6, 7 of byte 31 *)
Theorem clamp_check_iff : forall b0 b31, byte b0 -> byte b31 ->
  (check_bits b0 b31 = true <-> (b0 mod 8 = 0 /\ Z.testbit b31 6 = true /\ Z.testbit b31 7 = false)).
Proof. intros b0 b31 H0 H31. exact (proj1 (check_bits_iff b0 b31 H0 H31)). Qed.

(* ... i.e. exactly when clamping the scalar would not change it *)
Theorem clamp_check_fixpoint : forall b0 b31, byte b0 -> byte b31 ->
  (check_bits b0 b31 = true <-> (Z.land b0 248 = b0 /\ Z.lor (Z.land b31 63) 64 = b31)).
Proof. intros b0 b31 H0 H31. exact (proj2 (check_bits_iff b0 b31 H0 H31)). Qed.

Theorem clamped_passes_check : forall b0 b31, byte b0 -> byte b31 ->
  check_bits (Z.land b0 248) (Z.lor (Z.land b31 63) 64) = true.
Proof.
  intros b0 b31 H0 H31. pose proof clamp_bits_sweep as S. rewrite forallb_forall in S.
  specialize (S b0 (zrangeZ_In 0 256 b0 ltac:(unfold byte in H0; lia))). rewrite forallb_forall in S.
  exact (S b31 (zrangeZ_In 0 256 b31 ltac:(unfold byte in H31; lia))).
Qed.

Theorem esk_from_bytes_iff : forall k, esk_from_bytes k = Ok k <-> check_structure k = true.
Proof. intros k. unfold esk_from_bytes, ext_from_bytes. destruct (check_structure k); split; congruence. Qed.

(* the fast field reduction used by the executable model is reduction mod 2^255 - 19 *)
Theorem fred_correct : forall x, 0 <= x < 2 ^ 520 -> fred x = x mod p25519.
Proof. exact fred_spec. Qed.

(* verification = RFC 8032 verification on every public key that RFC 8032 and
   cryptoxide decode alike and that is not all-zero ... *)
Theorem verify_agrees_rfc_on_canonical : forall pk m sig,
  canonical_pk pk -> pk_verify pk m sig = rfc_verify pk m sig.
Proof. exact verify_agrees_on_canonical_proof. Qed.

(* ... and NOT for arbitrary crafted keys (forall pk m sig, pk_verify pk m sig = rfc_verify pk m sig
   fails both ways; both witnesses are outside the property's domain of random keys and
   single-bit tamperings).  (1) a non-canonical encoding (y = p + 1) of the neutral
   element is accepted as a public key, RFC 8032 5.1.3 rejects it: *)
Theorem verify_differs_from_rfc_on_noncanonical_pk :
  exists pk m sig, pk_verify pk m sig = true /\ rfc_verify pk m sig = false.
Proof.
  exists (unhex "eeffffffffffffffffffffffffffffffffffffffffffffffffffffffffffff7f"), [],
         (unhex "01000000000000000000000000000000000000000000000000000000000000000000000000000000000000000000000000000000000000000000000000000000").
  vm_compute. split; reflexivity.
Qed.
(* (2) the all-zero public key (a point of order 4) is rejected outright,
   RFC 8032 accepts this signature under it: *)
Theorem verify_differs_from_rfc_on_zero_pk :
  exists pk m sig, pk_verify pk m sig = false /\ rfc_verify pk m sig = true.
Proof.
  exists (unhex "0000000000000000000000000000000000000000000000000000000000000000"), [4],
         (unhex "01000000000000000000000000000000000000000000000000000000000000000000000000000000000000000000000000000000000000000000000000000000").
  vm_compute. split; reflexivity.
Qed.

(* RFC 8032 / FIPS 180-4 test vectors and the curve constants: C11/Vectors.v
   (compiled with the model runner, C11/Run.v) *)

(* extended keys: the structure check on concrete keys *)
Example esk_examples :
  esk_from_bytes (repeat 0 64) = Err 1 /\
  esk_from_bytes (repeat 0 31 ++ [64] ++ repeat 0 32) = Ok (repeat 0 31 ++ [64] ++ repeat 0 32) /\
  esk_from_bytes ([1] ++ repeat 0 30 ++ [64] ++ repeat 0 32) = Err 1 /\
  esk_from_bytes (repeat 0 31 ++ [192] ++ repeat 0 32) = Err 1.
Proof. vm_compute. repeat split; reflexivity. Qed.
