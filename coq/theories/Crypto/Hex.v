(* Byte-string helpers shared by the crypto models: lower-case hex printing,
   ASCII string -> bytes, hex string -> bytes.  Definitions only. *)
From PV Require Import Lib.Base.
Open Scope Z_scope.

(* lower-case hex of a byte string (hex::encode) *)
Definition hexdigit (d : Z) : Z := if d <? 10 then 48 + d else 87 + d.
Definition to_hex (bs : list Z) : list Z :=
  flat_map (fun b => [hexdigit (Z.shiftr b 4); hexdigit (Z.land b 15)]) bs.

(* test-vector helpers: ASCII string -> bytes, hex string -> bytes (total; a
   non-hex digit counts as 0) *)
Require Import Coq.Strings.String Coq.Strings.Ascii.
Fixpoint str_bytes (s : string) : list Z :=
  match s with
  | EmptyString => []
  | String c r => Z.of_N (N_of_ascii c) :: str_bytes r
  end.
Definition unhexdigit (c : Z) : Z :=
  if (48 <=? c) && (c <=? 57) then c - 48
  else if (97 <=? c) && (c <=? 102) then c - 87
  else if (65 <=? c) && (c <=? 70) then c - 55 else 0.
Fixpoint unhex_bytes (s : list Z) : list Z :=
  match s with
  | hi :: lo :: r => (16 * unhexdigit hi + unhexdigit lo) :: unhex_bytes r
  | _ => []
  end.
Definition unhex (s : string) : list Z := unhex_bytes (str_bytes s).

