(* C21 — property theorems only. Statements are pinned by props/C21.json. *)
From PV Require Import Lib.Base C21.Model C21.Proofs.
Open Scope Z_scope.

(* old stack (ChannelBuffer::recv_full_msg): for every codec meeting P0..P3, every
   message sequence and EVERY segmentation of its byte stream (any number of
   segments, empty and 1-byte ones included) the receiver delivers exactly the
   messages, in order, with no error and an empty residue. *)
Theorem reassembly_split_indep :
  forall (M : Type) (valid : M -> Prop) (enc : M -> list Z) (dec : list Z -> dec_result M),
  codec_ok valid enc dec ->
  forall ms segs, Forall valid ms -> concat segs = concat (map enc ms) ->
  recv_all dec segs = (ms, Ok []).
Proof. intros M valid enc dec Hco ms segs. exact (recv_all_ok valid enc dec Hco ms segs). Qed.

(* new stack (BearerReadHalf::read_full_msgs + AnyMessage::from_payload), one channel *)
Theorem reassembly_split_indep_net2 :
  forall (M : Type) (valid : M -> Prop) (enc : M -> list Z)
         (chan_dec : Z -> option (list Z -> dec_result M)),
  (forall c d, chan_dec c = Some d -> codec_ok valid enc d) ->
  forall raw ms segs, chan_dec (strip_mode raw) <> None ->
  Forall valid ms -> concat segs = concat (map enc ms) ->
  read_all chan_dec (map (fun s => (raw, s)) segs) = Ok (map (fun m => (strip_mode raw, m)) ms, []).
Proof. intros M valid enc chan_dec Hall raw ms segs. exact (read_all_one_ok valid enc chan_dec Hall raw ms segs). Qed.

(* new stack, any interleaving of segments of any number of channels: each
   supported channel delivers exactly its messages, unsupported channels deliver
   nothing, and partial_chunks ends empty *)
Theorem reassembly_split_indep_net2_channels :
  forall (M : Type) (valid : Z -> M -> Prop) (enc : Z -> M -> list Z)
         (chan_dec : Z -> option (list Z -> dec_result M)),
  (forall c d, chan_dec c = Some d -> codec_ok (valid c) (enc c) d) ->
  forall (ms : Z -> list M) (segs : list (Z * list Z)),
  (forall c, match chan_dec c with
             | Some _ => Forall (valid c) (ms c) /\ bytes_for c segs = concat (map (enc c) (ms c))
             | None => ms c = []
             end) ->
  exists out, read_all chan_dec segs = Ok (out, []) /\ forall c, on_channel c out = ms c.
Proof. intros M valid enc chan_dec Hco ms segs. exact (read_all_ok valid enc chan_dec Hco segs ms). Qed.

(* the old stack's own sender feeding its receiver *)
Theorem send_recv_roundtrip :
  forall (M : Type) (valid : M -> Prop) (enc : M -> list Z) (dec : list Z -> dec_result M),
  codec_ok valid enc dec ->
  forall ms, Forall valid ms -> recv_all dec (concat (map (send_msg_chunks enc) ms)) = (ms, Ok []).
Proof. intros M valid enc dec Hco ms. exact (send_recv_ok valid enc dec Hco ms). Qed.

(* slice::chunks(n) is a segmentation: pieces are non-empty, at most n long, and concatenate back *)
Theorem chunks_is_split : forall n l, (0 < n)%nat ->
  concat (chunks n l) = l /\ Forall (fun c => c <> [] /\ (length c <= n)%nat) (chunks n l).
Proof. intros n l Hn. split; [now apply concat_chunks|now apply chunks_fuel_bounds]. Qed.
