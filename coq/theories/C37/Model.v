(* C37 model: pallas-validate/src/phase1/{alonzo,babbage,conway}.rs check_tx_ex_units,
   transcribed branch for branch (as repaired by the `fix:` commits recorded for C37;
   the code as it was before is kept below as the *_old definitions, with the
   refutations of the property for it in Proofs.v).

   A redeemer is reduced to its execution units (mem, steps) : Z * Z; the
   accumulators are u64 and the accumulation is `checked_add`, written out. *)
From PV Require Import Lib.Base.
Open Scope Z_scope.

Definition U64_MAX : Z := 18446744073709551615.

(* verdict class codes shared with the harness *)
Definition V_OK : Z := 0.
Definition V_EXCEEDED : Z := 1.   (* TxExUnitsExceeded *)
Definition V_MISSING : Z := 2.    (* RedeemerMissing *)

(* u64::checked_add *)
Definition checked_add (a b : Z) : option Z :=
  if a + b <=? U64_MAX then Some (a + b) else None.

(* for r in redeemers { mem = mem.checked_add(r.mem).ok_or(Exceeded)?;
                        steps = steps.checked_add(r.steps).ok_or(Exceeded)?; } *)
Fixpoint sum_units (l : list (Z * Z)) (mem steps : Z) : option (Z * Z) :=
  match l with
  | [] => Some (mem, steps)
  | (m, s) :: r =>
      match checked_add mem m with
      | None => None
      | Some mem' =>
          match checked_add steps s with
          | None => None
          | Some steps' => sum_units r mem' steps'
          end
      end
  end.

(* if mem > max.mem || steps > max.steps { Err(TxExUnitsExceeded) } *)
Definition budget_verdict (l : list (Z * Z)) (maxm maxs : Z) : Z :=
  match sum_units l 0 0 with
  | None => V_EXCEEDED
  | Some (mem, steps) => if (mem >? maxm) || (steps >? maxs) then V_EXCEEDED else V_OK
  end.

(* Alonzo / Babbage: witness_set.redeemer : Option<Vec<Redeemer>>.
   has_plutus = presence_of_plutus_scripts(mtx) (scripts in the witness set). *)
Definition is_some {A} (o : option A) : bool := match o with Some _ => true | None => false end.

(* if presence_of_plutus_scripts(mtx) || tx_wits.redeemer.is_some() {
     match &tx_wits.redeemer { Some(v) => sum, compare ; None => Err(RedeemerMissing) } }
   Ok(()) *)
Definition check_tx_ex_units_alonzo (has_plutus : bool) (rdm : option (list (Z * Z))) (maxm maxs : Z) : Z :=
  if has_plutus || is_some rdm then
    match rdm with
    | Some l => budget_verdict l maxm maxs
    | None => V_MISSING
    end
  else V_OK.

Definition check_tx_ex_units_babbage := check_tx_ex_units_alonzo.

(* Conway: Redeemers::List(Vec<Redeemer>) | Redeemers::Map(BTreeMap<key, value>) *)
Inductive redeemers : Type :=
| RList (l : list (Z * Z))
| RMap (l : list (Z * Z)).

Definition check_tx_ex_units_conway (has_plutus : bool) (rdm : option redeemers) (maxm maxs : Z) : Z :=
  if has_plutus || is_some rdm then
    match rdm with
    | Some (RList l) => budget_verdict l maxm maxs
    | Some (RMap l) => budget_verdict l maxm maxs
    | None => V_MISSING
    end
  else V_OK.

(* the redeemers of a transaction as a plain list (specification side) *)
Definition units_of (rdm : option (list (Z * Z))) : list (Z * Z) :=
  match rdm with Some l => l | None => [] end.
Definition units_of_conway (rdm : option redeemers) : list (Z * Z) :=
  match rdm with Some (RList l) => l | Some (RMap l) => l | None => [] end.
Definition total_mem (l : list (Z * Z)) : Z := fold_right (fun p a => fst p + a) 0 l.
Definition total_steps (l : list (Z * Z)) : Z := fold_right (fun p a => snd p + a) 0 l.

(* era-indexed entry point used by the runner: 0 Alonzo, 1 Babbage, 2 Conway;
   enc: 0 list, 1 map (only Conway has the map encoding) *)
Definition check_era (era : Z) (has_plutus : bool) (rdm : option (Z * list (Z * Z))) (maxm maxs : Z) : Z :=
  if era =? 2 then
    check_tx_ex_units_conway has_plutus
      (match rdm with
       | None => None
       | Some (enc, l) => Some (if enc =? 1 then RMap l else RList l)
       end) maxm maxs
  else if era =? 1 then
    check_tx_ex_units_babbage has_plutus (option_map snd rdm) maxm maxs
  else
    check_tx_ex_units_alonzo has_plutus (option_map snd rdm) maxm maxs.

(* ------------------------------------------------------------------ *)
(* The code before the repairs (kept only to state what was wrong).    *)

(* Conway: `let _ = r.iter().map(|x| { mem += ..; steps += .. });` is never
   consumed, so mem = steps = 0 at the comparison; and the whole check sat
   under `if presence_of_plutus_scripts(mtx)`. *)
Definition check_tx_ex_units_conway_old (has_plutus : bool) (rdm : option redeemers) (maxm maxs : Z) : Z :=
  if has_plutus then
    match rdm with
    | Some _ => if (0 >? maxm) || (0 >? maxs) then V_EXCEEDED else V_OK
    | None => V_MISSING
    end
  else V_OK.

(* Alonzo / Babbage: `mem += ex_units.mem` in u64 — wraps in a release build
   (overflow panic in a debug build), again only under presence_of_plutus_scripts. *)
Definition wrap64 (x : Z) : Z := x mod 18446744073709551616.
Definition check_tx_ex_units_alonzo_old_release (has_plutus : bool) (rdm : option (list (Z * Z))) (maxm maxs : Z) : Z :=
  if has_plutus then
    match rdm with
    | Some l =>
        let mem := fold_left (fun a p => wrap64 (a + fst p)) l 0 in
        let steps := fold_left (fun a p => wrap64 (a + snd p)) l 0 in
        if (mem >? maxm) || (steps >? maxs) then V_EXCEEDED else V_OK
    | None => V_MISSING
    end
  else V_OK.
