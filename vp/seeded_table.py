#!/usr/bin/env python3
"""Render the seeded-change table (markdown) from seeded/*/{meta,result}.json."""
import json, os, glob
V = os.path.dirname(os.path.dirname(os.path.abspath(__file__)))
rows = []
for d in sorted(glob.glob(os.path.join(V, "seeded", "*"))):
    n = os.path.basename(d)
    try:
        m = json.load(open(os.path.join(d, "meta.json")))
    except Exception:
        continue
    r = {}
    rp = os.path.join(d, "result.json")
    if os.path.exists(rp):
        r = json.load(open(rp))
    def fmt(r):
        res = []
        for p, v in r.get("results", {}).items():
            vl = v.get("violation_lines") or []
            kind = "exit %d" % v["exit"]
            if vl:
                kind = "VIOLATION" + (" (no-failing-input-found)" if "no-failing-input-found" in vl[0] else " with failing input")
            elif v["exit"] == 0:
                kind = "MISSED (exit 0)"
            elif v["exit"] == 2:
                kind = "TOOL ERROR (exit 2)"
            res.append("%s: %s" % (p, kind))
        return "; ".join(res)
    extra = ""
    for fn, label in (("result_rerun.json", "after strengthening"), ("result_inplace.json", "in place on /repo")):
        fp = os.path.join(d, fn)
        if os.path.exists(fp):
            extra += " → %s: %s" % (label, fmt(json.load(open(fp))))
    res = []
    for p, v in r.get("results", {}).items():
        vl = v.get("violation_lines") or []
        kind = "exit %d" % v["exit"]
        if vl:
            kind = "VIOLATION" + (" (no-failing-input-found)" if "no-failing-input-found" in vl[0] else " with failing input")
        elif v["exit"] == 0:
            kind = "MISSED (exit 0)"
        res.append("%s: %s" % (p, kind))
    rows.append("| %s | %s | %s | %s | %s |" % (n, m.get("property"), (m.get("summary") or "").replace("|", "/").replace("\n", " ")[:220],
                (m.get("needs") or "").replace("|", "/").replace("\n", " ")[:160], ("first run: " + "; ".join(res) if res else "not run") + extra))
print("| seeded change | property | what was changed | needs | result of the registered check |")
print("|---|---|---|---|---|")
print("\n".join(rows))
