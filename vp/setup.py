#!/usr/bin/env python3
"""setup_cmd: build, offline, everything the registered checks need: the Coq
cone (full .vo) of every props/Cxx.json and its harness binary against /repo.
A property whose cone/binary fails to build is reported here and will fail in
its own check (exit 2); it does not stop the others from being built."""
import os, sys, json, glob
sys.path.insert(0, os.path.dirname(os.path.abspath(__file__)))
import check as C
repo = os.environ.get("VERIF_REPO", "/repo")
cfgs = [json.load(open(f)) for f in sorted(glob.glob(os.path.join(C.VERIF, "props", "C*.json")))]
_rp = os.path.join(C.VERIF, "props", "ready.txt")
if os.path.exists(_rp):
    _ready = set(open(_rp).read().split())
    cfgs = [c for c in cfgs if c["id"] in _ready]
bad = []
for cfg in cfgs:
    for (t, rc, out) in C.run_translators(cfg, repo):
        if rc != 0:
            print("translator %s failed:\n%s" % (t, out)); bad.append(cfg["id"])
targets = []
for cfg in cfgs:
    targets += ["theories/%s/Props.vo" % cfg["coq_dir"], "theories/%s/Run.vo" % cfg["coq_dir"]]
rc, out = C.coq_build(targets, timeout=7200)
print(out[-3000:])
if rc != 0:
    bad.append("coq")
# one binary at a time, each with exactly the features its check will use (so the
# check's own cargo invocation is a no-op), and so that one broken harness does not take the others down
for c in cfgs:
    rc1, out1, _ = C.cargo_build(repo, [c["bin"]], timeout=7200, features=C.features_of(c))
    if rc1 != 0:
        bad.append(c["id"]); print(out1[-1500:])
print("setup done; problems: %s" % (bad or "none"))
sys.exit(0)
