//! Observation of the real phase-1 validator on a materialised scenario (shared by c33 / c38):
//! the end-to-end `validate_tx` outcome and the outcome of every top-level rule function of the
//! era validator, called through the `#[cfg(pallas_verif)] verif` re-exports. Panics are data.
#![allow(dead_code)]
use super::vc::err_code;
use super::vfx::AnyTx;
use pallas_primitives::TransactionIndex;
use pallas_traverse::{Era, MultiEraTx};
use pallas_validate::phase1::{alonzo, babbage, byron, conway, shelley_ma, validate_tx};
use pallas_validate::utils::{
    get_alonzo_comp_tx_size, get_babbage_tx_size, get_conway_tx_size, AccountState, CertState, Environment,
    MultiEraProtocolParameters as PP, UTxOs, ValidationResult,
};
use std::cell::RefCell;
use verif_harness::{guard_total, Out};

/// Outcome class: Ok, validation error class, or panic (message class)
#[derive(Clone, Debug, PartialEq, Eq)]
pub enum Oc { Ok, Err(i64), Panic(String) }
impl Oc {
    pub fn coq(&self) -> String {
        match self { Oc::Ok => "(Ok tt)".into(), Oc::Err(c) => format!("(Err {})", c), Oc::Panic(_) => "(Panic 0)".into() }
    }
    pub fn is_panic(&self) -> bool { matches!(self, Oc::Panic(_)) }
}
thread_local! { static LAST_LOC: RefCell<(String, u32)> = RefCell::new((String::new(), 0)); }
/// record panic locations for the oracle key; call once after `args()`
pub fn install_panic_hook() {
    std::panic::set_hook(Box::new(|info| {
        let loc = info.location().map(|l| (l.file().to_string(), l.line())).unwrap_or_default();
        if std::env::var("VERIF_DEBUG").is_ok() { eprintln!("PANIC at {}:{}", loc.0, loc.1); }
        LAST_LOC.with(|c| *c.borrow_mut() = loc);
    }));
}
/// `<file>:<line>` of the last panic
pub fn last_loc() -> String { LAST_LOC.with(|c| { let c = c.borrow(); format!("{}:{}", c.0.rsplit('/').next().unwrap_or(""), c.1) }) }
/// a label of the panicking source line that survives line-number shifts: the line's own text
/// (alphanumerics only, first 48 characters); falls back to file:line when the source is not readable
pub fn last_site() -> String {
    LAST_LOC.with(|c| {
        let c = c.borrow();
        let base = c.0.rsplit('/').next().unwrap_or("").trim_end_matches(".rs").to_string();
        match std::fs::read_to_string(&c.0) {
            Ok(src) => match src.lines().nth(c.1.saturating_sub(1) as usize) {
                Some(l) => {
                    let mut t = String::new(); let mut sep = false;
                    for ch in l.trim().chars() {
                        if ch.is_ascii_alphanumeric() { if sep && !t.is_empty() { t.push('_') } t.push(ch); sep = false } else { sep = true }
                        if t.len() >= 48 { break }
                    }
                    format!("{}/{}", base, t)
                }
                None => format!("{}:{}", base, c.1),
            },
            Err(_) => format!("{}:{}", base, c.1),
        }
    })
}
pub fn msg_class(m: &str) -> String {
    let m = m.to_lowercase();
    if m.contains("add with overflow") { "add-overflow".into() }
    else if m.contains("multiply with overflow") { "mul-overflow".into() }
    else if m.contains("subtract with overflow") { "sub-overflow".into() }
    else if m.contains("does not match destination slice length") || m.contains("copy_from_slice") { "copy-len".into() }
    else if m.contains("out of range for slice") { "slice-range".into() }
    else if m.contains("unwrap()") { "unwrap".into() }
    else if m.contains("unreachable") { "unreachable".into() }
    else if m.contains("not implemented") { "unimplemented".into() }
    else if m.contains("not yet implemented") { "todo".into() }
    else if m.contains("index out of bounds") { "index".into() }
    else { m.chars().filter(|c| c.is_ascii_alphanumeric() || *c == ' ').take(32).collect::<String>().replace(' ', "-") }
}
pub fn oc(f: impl FnOnce() -> ValidationResult) -> Oc {
    match guard_total(f) {
        Out::Ok(Ok(())) => Oc::Ok,
        Out::Ok(Err(e)) => Oc::Err(err_code(&e)),
        Out::Panic(m) => Oc::Panic(format!("{}@{}@{}", msg_class(&m), last_site(), last_loc())),
        Out::Err(_) => Oc::Panic("?".into()),
    }
}

/// a helper of the implementation called outside a rule function: a panic there is recorded as a panicking
/// pseudo-rule (so that it becomes an ORACLE_FAIL) and the default is used
fn gd<T>(f: impl FnOnce() -> T, default: T, checks: &mut Vec<(&'static str, Oc)>, name: &'static str) -> T {
    match guard_total(f) {
        Out::Ok(v) => v,
        Out::Panic(m) => { checks.push((name, Oc::Panic(format!("{}@{}@{}", msg_class(&m), last_site(), last_loc())))); default }
        Out::Err(_) => default,
    }
}
pub struct Obs {
    pub e2e: Oc,
    /// (rule function name, outcome), in the order of the era validator
    pub checks: Vec<(&'static str, Oc)>,
    /// ShelleyMA: (stk_dep_count, stk_refund_count, pool_count) after check_certificates
    pub counts: (u64, u64, u64),
    pub size: u64,
    pub plutus_present: bool,
}

pub fn observe(tx: &AnyTx, metx: &MultiEraTx, utxos: &UTxOs, env: &Environment, cs: &CertState, counts_override: Option<(u64, u64, u64)>) -> Obs {
    let mut cs2 = cs.clone();
    let e2e = oc(|| validate_tx(metx, 0 as TransactionIndex, env, utxos, &mut cs2));
    let mut checks: Vec<(&'static str, Oc)> = vec![];
    let mut counts = (0u64, 0u64, 0u64);
    let mut size = 0u64;
    let mut plutus_present = false;
    let slot = &env.block_slot; let netid = &env.network_id; let magic = &env.prot_magic;
    match (tx, &env.prot_params) {
        (AnyTx::Byron(p), PP::Byron(pp)) => {
            use byron::verif as v;
            let t = &p.transaction;
            size = gd(|| v::get_tx_size(p), 0, &mut checks, "get_tx_size");
            checks.push(("check_ins_not_empty", oc(|| v::check_ins_not_empty(t))));
            checks.push(("check_outs_not_empty", oc(|| v::check_outs_not_empty(t))));
            checks.push(("check_ins_in_utxos", oc(|| v::check_ins_in_utxos(t, utxos))));
            checks.push(("check_outs_have_lovelace", oc(|| v::check_outs_have_lovelace(t))));
            checks.push(("check_fees", oc(|| v::check_fees(t, &size, utxos, pp))));
            checks.push(("check_size", oc(|| v::check_size(&size, pp))));
            checks.push(("check_witnesses", oc(|| v::check_witnesses(p, utxos, magic))));
        }
        (AnyTx::AC(t, era), PP::Shelley(pp)) if matches!(era, Era::Shelley | Era::Allegra | Era::Mary) => {
            use shelley_ma::verif as v;
            let b = &t.transaction_body; let w = &t.transaction_witness_set;
            let sz = gd(|| get_alonzo_comp_tx_size(t), 0, &mut checks, "get_tx_size"); size = sz as u64;
            let acnt0 = AccountState::default();
            let acnt = env.acnt.as_ref().unwrap_or(&acnt0);
            checks.push(("check_ins_not_empty", oc(|| v::check_ins_not_empty(b))));
            checks.push(("check_ins_in_utxos", oc(|| v::check_ins_in_utxos(b, utxos))));
            checks.push(("check_ttl", oc(|| v::check_ttl(b, slot))));
            checks.push(("check_tx_size", oc(|| v::check_tx_size(&sz, pp))));
            checks.push(("check_min_lovelace", oc(|| v::check_min_lovelace(b, pp, era))));
            let (mut d, mut r, mut pc) = (0u64, 0u64, 0u64);
            let mut cs3 = cs.clone();
            let stab = 129600u64;
            checks.push(("check_certificates", oc(|| v::check_certificates(&b.certificates, 0, &mut cs3, &mut d, &mut r, &mut pc, acnt, slot, &stab, pp))));
            if let Some((a, b2, c)) = counts_override { d = a; r = b2; pc = c }
            counts = (d, r, pc);
            checks.push(("check_preservation_of_value", oc(|| v::check_preservation_of_value(b, utxos, &d, &r, &pc, era, pp))));
            checks.push(("check_fees", oc(|| v::check_fees(b, &sz, pp))));
            checks.push(("check_network_id", oc(|| v::check_network_id(b, netid))));
            checks.push(("check_metadata", oc(|| v::check_metadata(b, t))));
            checks.push(("check_witnesses", oc(|| v::check_witnesses(b, w, utxos))));
            checks.push(("check_minting", oc(|| v::check_minting(b, t))));
        }
        (AnyTx::AC(t, Era::Alonzo), PP::Alonzo(pp)) => {
            use alonzo::verif as v;
            let b = &t.transaction_body;
            let sz = gd(|| get_alonzo_comp_tx_size(t), 0, &mut checks, "get_tx_size"); size = sz as u64;
            plutus_present = gd(|| v::presence_of_plutus_scripts(t), false, &mut checks, "presence_of_plutus_scripts");
            checks.push(("check_ins_not_empty", oc(|| v::check_ins_not_empty(b))));
            checks.push(("check_ins_and_collateral_in_utxos", oc(|| v::check_ins_and_collateral_in_utxos(b, utxos))));
            checks.push(("check_tx_validity_interval", oc(|| v::check_tx_validity_interval(b, t, slot))));
            checks.push(("check_fee", oc(|| v::check_fee(b, &sz, t, utxos, pp))));
            checks.push(("check_preservation_of_value", oc(|| v::check_preservation_of_value(b, utxos))));
            checks.push(("check_min_lovelace", oc(|| v::check_min_lovelace(b, pp))));
            checks.push(("check_output_val_size", oc(|| v::check_output_val_size(b, pp))));
            checks.push(("check_network_id", oc(|| v::check_network_id(b, netid))));
            checks.push(("check_tx_size", oc(|| v::check_tx_size(&sz, pp))));
            checks.push(("check_tx_ex_units", oc(|| v::check_tx_ex_units(t, pp))));
            checks.push(("check_witness_set", oc(|| v::check_witness_set(t, utxos))));
            checks.push(("check_languages", oc(|| v::check_languages(t, pp))));
            checks.push(("check_auxiliary_data", oc(|| v::check_auxiliary_data(b, t))));
            checks.push(("check_script_data_hash", oc(|| v::check_script_data_hash(b, t))));
            checks.push(("check_minting", oc(|| v::check_minting(b, t))));
        }
        (AnyTx::Babbage(t), PP::Babbage(pp)) => {
            use babbage::verif as v;
            let b = &t.transaction_body;
            plutus_present = gd(|| v::presence_of_plutus_scripts(t), false, &mut checks, "presence_of_plutus_scripts");
            match gd(|| get_babbage_tx_size(t), None, &mut checks, "get_tx_size") {
                None => checks.push(("get_tx_size", Oc::Err(400))),
                Some(sz) => {
                    size = sz as u64;
                    checks.push(("check_ins_not_empty", oc(|| v::check_ins_not_empty(b))));
                    checks.push(("check_all_ins_in_utxos", oc(|| v::check_all_ins_in_utxos(b, utxos))));
                    checks.push(("check_tx_validity_interval", oc(|| v::check_tx_validity_interval(b, slot))));
                    checks.push(("check_fee", oc(|| v::check_fee(b, &sz, t, utxos, pp))));
                    checks.push(("check_preservation_of_value", oc(|| v::check_preservation_of_value(b, utxos))));
                    checks.push(("check_min_lovelace", oc(|| v::check_min_lovelace(b, pp))));
                    checks.push(("check_output_val_size", oc(|| v::check_output_val_size(b, pp))));
                    checks.push(("check_network_id", oc(|| v::check_network_id(b, netid))));
                    checks.push(("check_tx_size", oc(|| v::check_tx_size(&sz, pp))));
                    checks.push(("check_tx_ex_units", oc(|| v::check_tx_ex_units(t, pp))));
                    checks.push(("check_minting", oc(|| v::check_minting(b, t, utxos))));
                    checks.push(("check_well_formedness", oc(|| v::check_well_formedness(b, t))));
                    checks.push(("check_witness_set", oc(|| v::check_witness_set(t, utxos))));
                    checks.push(("check_languages", oc(|| v::check_languages(t, utxos, magic, netid, slot))));
                    checks.push(("check_auxiliary_data", oc(|| v::check_auxiliary_data(b, t))));
                    checks.push(("check_script_data_hash", oc(|| v::check_script_data_hash(b, t, utxos, magic, netid, slot))));
                }
            }
        }
        (AnyTx::Conway(t), PP::Conway(pp)) => {
            use conway::verif as v;
            let b = &t.transaction_body;
            plutus_present = gd(|| v::presence_of_plutus_scripts(t), false, &mut checks, "presence_of_plutus_scripts");
            match gd(|| get_conway_tx_size(t), None, &mut checks, "get_tx_size") {
                None => checks.push(("get_tx_size", Oc::Err(400))),
                Some(sz) => {
                    size = sz as u64;
                    checks.push(("check_ins_not_empty", oc(|| v::check_ins_not_empty(b))));
                    checks.push(("check_all_ins_in_utxos", oc(|| v::check_all_ins_in_utxos(b, utxos))));
                    checks.push(("check_tx_validity_interval", oc(|| v::check_tx_validity_interval(b, slot))));
                    checks.push(("check_fee", oc(|| v::check_fee(b, &sz, t, utxos, pp))));
                    checks.push(("check_preservation_of_value", oc(|| v::check_preservation_of_value(b, utxos))));
                    checks.push(("check_min_lovelace", oc(|| v::check_min_lovelace(b, pp))));
                    checks.push(("check_output_val_size", oc(|| v::check_output_val_size(b, pp))));
                    checks.push(("check_network_id", oc(|| v::check_network_id(b, netid))));
                    checks.push(("check_tx_size", oc(|| v::check_tx_size(&sz, pp))));
                    checks.push(("check_tx_ex_units", oc(|| v::check_tx_ex_units(t, pp))));
                    checks.push(("check_minting", oc(|| v::check_minting(b, t, utxos))));
                    checks.push(("check_well_formedness", oc(|| v::check_well_formedness(b, t))));
                    checks.push(("check_witness_set", oc(|| v::check_witness_set(t, utxos))));
                    checks.push(("check_languages", oc(|| v::check_languages(t, utxos, pp))));
                    checks.push(("check_auxiliary_data", oc(|| v::check_auxiliary_data(b, t))));
                    checks.push(("check_script_data_hash", oc(|| v::check_script_data_hash(b, t, utxos, pp))));
                }
            }
        }
        _ => {}
    }
    // with overridden counters the end-to-end outcome is the `?` chain over the rule outcomes
    let e2e = if counts_override.is_some() && !checks.is_empty() && !matches!(e2e, Oc::Err(1..=3)) { checks.iter().map(|c| c.1.clone()).find(|c| *c != Oc::Ok).unwrap_or(Oc::Ok) } else { e2e };
    Obs { e2e, checks, counts, size, plutus_present }
}
pub fn fam_name(tx: &AnyTx) -> &'static str {
    match tx { AnyTx::Byron(_) => "byron", AnyTx::AC(_, Era::Alonzo) => "alonzo", AnyTx::AC(..) => "shelley_ma", AnyTx::Babbage(_) => "babbage", AnyTx::Conway(_) => "conway" }
}
