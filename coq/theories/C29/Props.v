(* C29 — property theorems. Statements are pinned by props/C29.json. *)
From PV Require Import Lib.Base C29.Model C29.Proofs.
Open Scope Z_scope.

(* The initiator machine processes every history of commands and interface events
   (arbitrary peers, arbitrary - also protocol-violating - messages, errors, disconnects and
   connects in any order, any hash iteration orders) without reaching a Panic.
   The length bound is the u32 error counter: `error_count += 1` overflows (and panics in a
   debug build) only after 2^32 Error events. *)
Theorem behaviour_total : forall c evs,
  wf_cfg c -> Z.of_nat (length evs) <= U32_MAX -> exists st outs, run c init evs = Ok (st, outs).
Proof. exact initiator_total_proof. Qed.

Theorem behaviour_never_panics : forall c evs k,
  wf_cfg c -> Z.of_nat (length evs) <= U32_MAX -> run c init evs <> Panic k.
Proof. intros c evs k W B. destruct (initiator_total_proof c evs W B) as (st & outs & H). rewrite H. discriminate. Qed.

(* the same for the responder machine, for every configuration (error threshold, per-IP limit, version table) *)
Theorem responder_total : forall cf evs,
  Z.of_nat (length evs) <= U32_MAX -> exists st outs, rrun cf rinit evs = Ok (st, outs).
Proof. exact responder_total_proof. Qed.

Theorem responder_never_panics : forall cf evs k,
  Z.of_nat (length evs) <= U32_MAX -> rrun cf rinit evs <> Panic k.
Proof. intros cf evs k B. destruct (responder_total_proof cf evs B) as (st & outs & H). rewrite H. discriminate. Qed.

(* the handshake negotiation only ever indexes the version table with one of its own keys *)
Theorem negotiated_version_is_ours : forall ours proposed v m,
  negotiate ours proposed = Some (v, m) -> vlookup v ours <> None.
Proof. exact negotiate_ours. Qed.

(* non-vacuity: hostile histories that the machines do process *)
Example hostile_initiator_history :
  match run (mkCfg 2 1 1 0) init
    [EInclude 1; EInclude 2; EInclude 3; EHousekeeping [] []; EConnected 1; EConnected 1;
     ERecv 1 [KaResponse 7; HsAccept 13 1; BfBlock 3]; EError 1; EError 1; EHousekeeping [] [];
     EDisconnected 1; EConnected 1; ESent 1 (HsPropose [(13, 764824073)]); EConnected 1; EInclude 1;
     ERecv 2 [PsPeers [7; 8]]; EHousekeeping [2; 1; 3] [8; 7]] with
  | Ok (st, outs) => mem 1 (banned (pr st)) = true /\ length outs = 17%nat
  | _ => False
  end.
Proof. vm_compute. split; reflexivity. Qed.

Example hostile_responder_history :
  match rrun (mkRCfg 1 1 [(13, 764824073)]) rinit
    [RConnected 1; RConnected 2; RRecv 1 [HsPropose [(7, 1); (13, 764824073); (14, 5)]]; RRecv 1 [HsPropose []];
     RError 1; RError 1; RHousekeeping [1; 2]; RDisconnected 1; RDisconnected 1; RConnected 1;
     RRecv 9 [KaDone]; RSent 2 TxInit; RRecv 2 [TxReplyTxs 3]] with
  | Ok (st, outs) => mem 1 (rbanned (rc st)) = true /\ length outs = 13%nat
  | _ => False
  end.
Proof. vm_compute. split; reflexivity. Qed.
