(* C24 — property theorems only. Statements are pinned by props/C24.json. *)
From PV Require Import Lib.Base C24.Spec C24.Model Generated.ApplyTables C24.Defs C24.Proofs.
From Coq Require Import String.
Open Scope string_scope.

(* (T) every cell of every regenerated `State::apply` table is the specification's verdict
   (accepted exactly when the specification has that transition, and then into the
   prescribed state), outside the known-finding cells. Re-proved on every run. *)
Theorem apply_tables_match_spec : forall t s m,
  In t apply_tables -> In s (gt_states t) -> In m (gt_msgs t) ->
  known (gt_proto t) s m = false ->
  exists r, spec_cell (gt_proto t) s m = Some r /\ gen_next t s m = Some r.
Proof. exact tables_match_spec_proof. Qed.

(* the tables are about exactly the specification's protocols, states, messages, initial state *)
Theorem apply_tables_cover_spec :
  same_set (map gt_proto apply_tables) (map pname all_protos) = true /\
  forall t, In t apply_tables -> table_covers_spec t = true.
Proof. split; [exact tables_are_the_protocols | exact tables_cover_proof]. Qed.

(* the hand model (with data) takes, on every state and message, the branch the regenerated
   table records for its class — so the model cannot drift from the source unnoticed *)
Theorem apply_model_matches_tables : forall p (s : state p) (m : msg p),
  exists t, In t apply_tables /\ gt_proto t = pname p /\
            gen_cell t (class p s) (variant p m) = Some (class_result p (apply p s m)).
Proof. exact model_matches_tables_proof. Qed.

(* the property, one step: apply succeeds exactly when the specification permits the message
   in that state, and yields the prescribed state carrying the data — all payloads *)
Theorem apply_matches_spec : forall p (s : state p) (m : msg p),
  known (pname p) (class p s) (variant p m) = false ->
  outcome_opt (apply p s m) = spec_step p s m.
Proof. exact apply_matches_spec_proof. Qed.

(* the property, all message sequences of any length *)
Theorem apply_seq_matches_spec : forall p (s : state p) (ms : list (msg p)),
  avoids_known p s ms -> run_opt (apply_seq p s ms) = spec_run p s ms.
Proof. exact apply_seq_matches_spec_proof. Qed.

(* the step-with-data used above is the specification's transition relation (Spec.v) *)
Theorem spec_step_refines_spec : forall p (s : state p) (m : msg p),
  option_map (fun s' => state_ren (pname p) (class p s')) (spec_step p s m)
  = spec_next (spec_of p) (state_ren (pname p) (class p s)) (msg_ren (pname p) (variant p m)).
Proof. exact spec_step_refines_proof. Qed.

Theorem specs_wellformed : forall sp, In sp all_specs -> spec_wf sp = true.
Proof. exact specs_wf_proof. Qed.

(* each known-finding cell is a genuine counterexample of the faithful model *)
Theorem known_cells_refuted : forall c, In c known_cells ->
  exists p (s : state p) (m : msg p), refutes p s m c.
Proof. exact known_cells_refuted_proof. Qed.

(* non-vacuity: every cell of every table is inhabited by model states / messages, and a
   long run that avoids the known cells exists and is accepted *)
Theorem classes_inhabited : forall p t s m,
  table_of p = Some t -> In s (gt_states t) -> In m (gt_msgs t) ->
  exists (st : state p) (mg : msg p), class p st = s /\ variant p mg = m.
Proof. exact classes_inhabited_proof. Qed.

Example chainsync_run :
  let ms := [CS.MFindIntersect [pt0]; CS.MIntersectFound pt0 tip0; CS.MRequestNext; CS.MAwaitReply;
             CS.MRollForward [1; 2]%Z tip0; CS.MRequestNext; CS.MRollBackward pt0 tip0; CS.MDone] in
  avoids_known PChainSync CS.init ms /\
  apply_seq PChainSync CS.init ms = RunOk CS.SDone.
Proof. vm_compute. repeat split. Qed.
