(* C08 proofs:
   - the order in which LanguageViews writes its entries (non-zero keys ascending, then 0) is the
     canonical CBOR map-key order of the ENCODED keys, for every set of keys in 0..255
     (insertion sort + a kernel-checked sweep of the 255 x 255 key pairs);
   - the hash preimage is the ledger formula; no hash without redeemers and datums. *)
From Coq Require Import Sorting.Sorted Sorting.Permutation.
From PV Require Import Lib.Base Cbor.Item Cbor.Enc Cbor.Dec Cbor.HeadLaws Cbor.Api C07.Model C07.Order C08.Model.
Open Scope Z_scope.

(* ------------------------------------------------------------------ sort_z *)
Lemma insert_z_perm k l : Permutation (insert_z k l) (k :: l).
Proof.
  induction l as [|x t IH]; cbn [insert_z]; [apply Permutation_refl|].
  destruct (k <=? x); [apply Permutation_refl|].
  eapply perm_trans; [apply perm_skip, IH|apply perm_swap].
Qed.

Lemma sort_z_perm l : Permutation (sort_z l) l.
Proof.
  induction l as [|x t IH]; [apply perm_nil|]. unfold sort_z in *. cbn [fold_right].
  eapply perm_trans; [apply insert_z_perm|apply perm_skip, IH].
Qed.

Lemma insert_z_sorted k l : StronglySorted Z.le l -> StronglySorted Z.le (insert_z k l).
Proof.
  induction 1 as [|x t Ht IH Hx]; cbn [insert_z].
  - constructor; constructor.
  - destruct (k <=? x) eqn:E.
    + constructor; [constructor; assumption|]. constructor; [lia|].
      eapply Forall_impl; [|exact Hx]. intros y Hy. lia.
    + constructor; [exact IH|].
      assert (Hp : Permutation (insert_z k t) (k :: t)) by apply insert_z_perm.
      apply (Permutation_Forall (Permutation_sym Hp)). constructor; [lia|exact Hx].
Qed.

Lemma sort_z_sorted l : StronglySorted Z.le (sort_z l).
Proof.
  induction l as [|x t IH]; [constructor|]. unfold sort_z in *. cbn [fold_right]. apply insert_z_sorted, IH.
Qed.

Lemma sorted_le_nodup_lt l : StronglySorted Z.le l -> NoDup l -> StronglySorted Z.lt l.
Proof.
  induction 1 as [|x t Ht IH Hx]; intros Hnd; [constructor|]. inversion Hnd as [|? ? Hnin Hnd']; subst.
  constructor; [apply IH, Hnd'|]. rewrite Forall_forall in *. intros y Hy.
  specialize (Hx y Hy). assert (x <> y) by (intros ->; contradiction). lia.
Qed.

Lemma StronglySorted_app {A} (R : A -> A -> Prop) l1 l2 :
  StronglySorted R l1 -> StronglySorted R l2 -> (forall a b, In a l1 -> In b l2 -> R a b) ->
  StronglySorted R (l1 ++ l2).
Proof.
  induction 1 as [|x t Ht IH Hx]; intros H2 Hc; [exact H2|]. cbn [app]. constructor.
  - apply IH; [exact H2|]. intros a b Ha Hb. apply Hc; [right; exact Ha|exact Hb].
  - apply Forall_app. split; [exact Hx|]. apply Forall_forall. intros b Hb. apply Hc; [left; reflexivity|exact Hb].
Qed.

Lemma StronglySorted_impl {A} (R S : A -> A -> Prop) (P : A -> Prop) l :
  (forall a b, P a -> P b -> R a b -> S a b) -> Forall P l -> StronglySorted R l -> StronglySorted S l.
Proof.
  intros HRS HP. induction 1 as [|x t Ht IH Hx]; [constructor|]. inversion HP as [|? ? Px Pt]; subst.
  constructor; [apply IH, Pt|]. rewrite Forall_forall in *. intros y Hy. apply HRS; auto.
Qed.

(* ------------------------------------------------------------------ the key sweep *)
Definition key_pair_ok (a b : Z) : bool := implb (a <? b) (canon_ltb (key_enc a) (key_enc b)).
Definition key_row_ok (a : Z) : bool :=
  forallb (key_pair_ok a) (zrangeZ 1 255) && canon_ltb (key_enc a) (key_enc 0).

Lemma key_sweep : forallb key_row_ok (zrangeZ 1 255) = true.
Proof. vm_compute. reflexivity. Qed.

Lemma key_lt_nonzero a b : 1 <= a < 256 -> 1 <= b < 256 -> a < b -> key_lt a b.
Proof.
  intros Ha Hb Hab. pose proof key_sweep as Hs. rewrite forallb_forall in Hs.
  specialize (Hs a (zrangeZ_In 1 255 a ltac:(lia))). unfold key_row_ok in Hs.
  apply andb_true_iff in Hs as [Hs _]. rewrite forallb_forall in Hs.
  specialize (Hs b (zrangeZ_In 1 255 b ltac:(lia))). unfold key_pair_ok in Hs.
  destruct (a <? b) eqn:E; [exact Hs|lia].
Qed.

Lemma key_lt_zero_last a : 1 <= a < 256 -> key_lt a 0.
Proof.
  intros Ha. pose proof key_sweep as Hs. rewrite forallb_forall in Hs.
  specialize (Hs a (zrangeZ_In 1 255 a ltac:(lia))). unfold key_row_ok in Hs.
  apply andb_true_iff in Hs as [_ Hs]. exact Hs.
Qed.

(* ------------------------------------------------------------------ lv_order *)
Definition nz (k : Z) : bool := negb (k =? 0).
Definition has0 (keys : list Z) : bool := existsb (fun k => k =? 0) keys.

Lemma lv_order_unfold keys : lv_order keys = sort_z (filter nz keys) ++ (if has0 keys then [0] else []).
Proof. reflexivity. Qed.

Lemma has0_false_notin keys : has0 keys = false <-> ~ In 0 keys.
Proof.
  unfold has0. split.
  - intros H Hin. assert (existsb (fun k => k =? 0) keys = true) by (apply existsb_exists; exists 0; split; [exact Hin|reflexivity]).
    congruence.
  - intros Hn. destruct (existsb (fun k => k =? 0) keys) eqn:E; [|reflexivity].
    apply existsb_exists in E as (x & Hx & E). assert (x = 0) by lia. subst. contradiction.
Qed.

Lemma split_zero_perm keys : NoDup keys -> Permutation (filter nz keys ++ (if has0 keys then [0] else [])) keys.
Proof.
  induction keys as [|k t IH]; intros Hnd; [apply perm_nil|]. inversion Hnd as [|? ? Hnin Hnd']; subst.
  specialize (IH Hnd'). cbn [filter has0 existsb]. unfold nz at 1. destruct (k =? 0) eqn:E; cbn [negb orb].
  - assert (k = 0) by lia. subst k. fold (has0 t).
    assert (Hz : has0 t = false) by (apply has0_false_notin; exact Hnin). rewrite Hz in IH.
    rewrite app_nil_r in IH. eapply perm_trans; [apply Permutation_sym, Permutation_cons_append|]. apply perm_skip, IH.
  - fold (has0 t). cbn [app]. apply perm_skip, IH.
Qed.

Lemma lv_order_perm keys : NoDup keys -> Permutation (lv_order keys) keys.
Proof.
  intros Hnd. rewrite lv_order_unfold. eapply perm_trans; [|apply split_zero_perm, Hnd].
  apply Permutation_app_tail, sort_z_perm.
Qed.

Lemma lv_order_sorted keys :
  NoDup keys -> Forall (fun k => 0 <= k < 256) keys -> StronglySorted key_lt (lv_order keys).
Proof.
  intros Hnd Hr. rewrite lv_order_unfold.
  assert (Hfr : Forall (fun k => 1 <= k < 256) (filter nz keys)).
  { apply Forall_forall. intros x Hx. apply filter_In in Hx as [Hin Hx]. rewrite Forall_forall in Hr.
    specialize (Hr x Hin). unfold nz in Hx. lia. }
  assert (Hsr : Forall (fun k => 1 <= k < 256) (sort_z (filter nz keys))).
  { apply (Permutation_Forall (Permutation_sym (sort_z_perm _))). exact Hfr. }
  apply StronglySorted_app.
  - apply (StronglySorted_impl Z.lt key_lt (fun k => 1 <= k < 256)); [|exact Hsr|].
    + intros a b Ha Hb Hab. apply key_lt_nonzero; assumption.
    + apply sorted_le_nodup_lt; [apply sort_z_sorted|].
      apply (Permutation_NoDup (Permutation_sym (sort_z_perm _))). apply NoDup_filter, Hnd.
  - destruct (has0 keys); repeat constructor.
  - intros a b Ha Hb. destruct (has0 keys); [|destruct Hb]. destruct Hb as [<-|[]].
    apply key_lt_zero_last. rewrite Forall_forall in Hsr. apply Hsr, Ha.
Qed.

(* the strict canonical order is irreflexive and transitive, so a sorted permutation is unique:
   the implementation's order is THE canonical order *)
Lemma canon_ltb_irrefl a : canon_ltb a a = false.
Proof.
  unfold canon_ltb. rewrite Z.compare_refl. unfold vec_u8_cmp.
  assert (H : list_cmp Z.compare a a = Eq).
  { induction a as [|x t IH]; [reflexivity|]. cbn [list_cmp]. rewrite Z.compare_refl. exact IH. }
  rewrite H. reflexivity.
Qed.

(* ------------------------------------------------------------------ entries *)
Lemma key_enc_entry lang c :
  enc_lv_entry lang c =
  key_enc lang ++ (if lang =? 0 then e_bytes (enc_v1_inner c) else e_vec e_int c).
Proof. unfold enc_lv_entry, key_enc. destruct (lang =? 0); reflexivity. Qed.

Lemma lv_get_in k m : In k (map fst m) -> exists c, lv_get k m = Some c /\ In (k, c) m.
Proof.
  induction m as [|[k' c'] t IH]; [intros []|]. cbn [map fst lv_get]. intros [->|Hin].
  - rewrite Z.eqb_refl. exists c'. split; [reflexivity|left; reflexivity].
  - destruct (k' =? k) eqn:E.
    + assert (k' = k) by lia. subst. exists c'. split; [reflexivity|left; reflexivity].
    + destruct (IH Hin) as (c & Hc & Hi). exists c. split; [exact Hc|right; exact Hi].
Qed.

(* strictly ascending keys have no duplicates and are what BTreeMap iteration yields *)
Lemma strictly_ascending_lt l : strictly_ascending l = true -> StronglySorted Z.lt l.
Proof.
  induction l as [|x t IH]; [constructor|]. intros H.
  destruct t as [|y t'].
  - constructor; constructor.
  - cbn [strictly_ascending] in H. apply andb_true_iff in H as [Hxy Ht]. specialize (IH Ht).
    constructor; [exact IH|]. inversion IH as [|? ? Hs Hy]; subst.
    constructor; [lia|]. eapply Forall_impl; [|exact Hy]. intros z Hz. lia.
Qed.

Lemma sorted_lt_nodup l : StronglySorted Z.lt l -> NoDup l.
Proof.
  induction 1 as [|x t Ht IH Hx]; constructor; [|exact IH].
  intros Hin. rewrite Forall_forall in Hx. specialize (Hx x Hin). lia.
Qed.

Lemma wf_lviews_keys m :
  wf_lviews m = true -> NoDup (map fst m) /\ Forall (fun k => 0 <= k < 256) (map fst m).
Proof.
  unfold wf_lviews. intros H. apply andb_true_iff in H as [Ha Hf]. split.
  - apply sorted_lt_nodup, strictly_ascending_lt, Ha.
  - rewrite forallb_forall in Hf. apply Forall_forall. intros k Hk. apply in_map_iff in Hk as ([k' c] & <- & Hin).
    specialize (Hf _ Hin). cbn [fst snd] in *. lia.
Qed.

(* uniqueness: a strictly sorted permutation is determined by the key set *)
Lemma canon_ltb_asym a b : canon_ltb a b = true -> canon_ltb b a = false.
Proof.
  unfold canon_ltb. rewrite (Z.compare_antisym (len a) (len b)).
  destruct (len a ?= len b); cbn [CompOpp]; try congruence.
  rewrite (vec_u8_cmp_antisym a b). destruct (vec_u8_cmp a b); cbn [CompOpp]; congruence.
Qed.

Lemma sorted_perm_unique l1 : forall l2,
  StronglySorted key_lt l1 -> StronglySorted key_lt l2 -> Permutation l1 l2 -> l1 = l2.
Proof.
  induction l1 as [|x t1 IH]; intros l2 H1 H2 Hp.
  - apply Permutation_nil in Hp. subst. reflexivity.
  - destruct l2 as [|y t2]; [apply Permutation_sym, Permutation_nil in Hp; discriminate|].
    inversion H1 as [|? ? Ht1 Hx]; inversion H2 as [|? ? Ht2 Hy]; subst.
    assert (Exy : x = y).
    { destruct (Z.eq_dec x y) as [E|Ne]; [exact E|exfalso].
      assert (Hin1 : In x (y :: t2)) by (eapply Permutation_in; [exact Hp|left; reflexivity]).
      assert (Hin2 : In y (x :: t1)) by (eapply Permutation_in; [apply Permutation_sym, Hp|left; reflexivity]).
      destruct Hin1 as [E|Hin1]; [congruence|]. destruct Hin2 as [E|Hin2]; [congruence|].
      rewrite Forall_forall in Hx, Hy. specialize (Hx y Hin2). specialize (Hy x Hin1).
      unfold key_lt in *. apply canon_ltb_asym in Hx. congruence. }
    subst y. f_equal. apply IH; [assumption|assumption|]. eapply Permutation_cons_inv, Hp.
Qed.

Lemma lv_order_unique keys o :
  NoDup keys -> Forall (fun k => 0 <= k < 256) keys ->
  Permutation o keys -> StronglySorted key_lt o -> o = lv_order keys.
Proof.
  intros Hnd Hr Hp Hs. apply sorted_perm_unique; [exact Hs|apply lv_order_sorted; assumption|].
  eapply perm_trans; [exact Hp|apply Permutation_sym, lv_order_perm, Hnd].
Qed.

(* the encoding, entry by entry *)
Definition entry_of (m : lviews) (k : Z) : Z * cost_model :=
  (k, match lv_get k m with Some c => c | None => [] end).

Lemma entries_of_keys m : NoDup (map fst m) -> map (entry_of m) (map fst m) = m.
Proof.
  induction m as [|[k c] t IH]; [reflexivity|]. cbn [map fst]. intros Hnd.
  inversion Hnd as [|? ? Hnin Hnd']; subst. f_equal.
  - unfold entry_of. cbn [lv_get]. rewrite Z.eqb_refl. reflexivity.
  - transitivity (map (entry_of t) (map fst t)); [|apply IH, Hnd']. apply map_ext_in. intros k' Hk'. unfold entry_of. cbn [lv_get].
    destruct (k =? k') eqn:E; [|reflexivity]. assert (k = k') by lia. subst. contradiction.
Qed.

Definition enc_entry (kc : Z * cost_model) : list Z :=
  key_enc (fst kc) ++ (if fst kc =? 0 then e_bytes (enc_v1_inner (snd kc)) else e_vec e_int (snd kc)).

Lemma lv_encoding_proof m :
  wf_lviews m = true ->
  exists entries,
    Permutation entries m /\ StronglySorted key_lt (map fst entries) /\
    enc_language_views m = e_map (len m) ++ concat (map enc_entry entries).
Proof.
  intros Hwf. destruct (wf_lviews_keys m Hwf) as [Hnd Hr].
  exists (map (entry_of m) (lv_order (map fst m))). split; [|split].
  - pose proof (Permutation_map (entry_of m) (lv_order_perm (map fst m) Hnd)) as Hp.
    rewrite (entries_of_keys m Hnd) in Hp. exact Hp.
  - rewrite map_map. cbn [entry_of fst]. rewrite map_id. apply lv_order_sorted; assumption.
  - unfold enc_language_views. f_equal. rewrite map_map. f_equal. apply map_ext_in. intros k Hk.
    assert (Hin : In k (map fst m)) by (eapply Permutation_in; [apply lv_order_perm, Hnd|exact Hk]).
    destruct (lv_get_in k m Hin) as (c & Hc & _). unfold enc_entry, entry_of. cbn [fst snd]. rewrite Hc.
    apply key_enc_entry.
Qed.

(* ------------------------------------------------------------------ the views as a CBOR item *)
(* Encoder::i64 writes the shortest head *)
Definition int_item (n : Z) : item :=
  if 0 <=? n then UInt (min_width n) n else Item.NInt (min_width (-1 - n)) (-1 - n).

Lemma e_int_item n : e_int n = encode_item (int_item n).
Proof. unfold e_int, int_item, enc_head_min. destruct (0 <=? n); reflexivity. Qed.

Lemma concat_ints c : concat (map e_int c) = concat (map encode_item (map int_item c)).
Proof. rewrite map_map. f_equal. apply map_ext. intros n. apply e_int_item. Qed.

Definition entry_item (kc : Z * cost_model) : item * item :=
  if fst kc =? 0 then
    (Bytes W0 [0],
     let inner := encode_item (ArrayIndef (map int_item (snd kc))) in Bytes (min_width (len inner)) inner)
  else (UInt (min_width (fst kc)) (fst kc), Array (min_width (len (snd kc))) (map int_item (snd kc))).

Lemma enc_entry_item kc : enc_entry kc = encode_pair (entry_item kc).
Proof.
  unfold enc_entry, entry_item, encode_pair, key_enc. destruct (fst kc =? 0); cbn [fst snd encode_item].
  - unfold enc_v1_inner, e_bytes, enc_head_min. rewrite concat_ints. reflexivity.
  - unfold e_vec, e_array, e_uint, enc_head_min. rewrite concat_ints. unfold len. rewrite map_length. reflexivity.
Qed.

Lemma lv_item_proof m :
  wf_lviews m = true ->
  exists entries,
    Permutation entries m /\ StronglySorted key_lt (map fst entries) /\
    enc_language_views m = encode_item (Map (min_width (len m)) (map entry_item entries)).
Proof.
  intros Hwf. destruct (lv_encoding_proof m Hwf) as (entries & Hp & Hs & He). exists entries.
  split; [exact Hp|]. split; [exact Hs|]. rewrite He. cbn [encode_item]. unfold e_map, enc_head_min.
  assert (Hl : len (map entry_item entries) = len m).
  { unfold len. rewrite map_length. f_equal. apply Permutation_length, Hp. }
  rewrite Hl. f_equal. rewrite map_map. f_equal. apply map_ext. intros kc.
  rewrite enc_entry_item. unfold encode_pair. destruct (entry_item kc). reflexivity.
Qed.

(* ------------------------------------------------------------------ the hash *)
Section Hash.
  (* Blake2b-256 (pallas_crypto::hash::Hasher::<256>::hash), abstract *)
  Variable H : list Z -> list Z.

  Definition script_data_hash (sd : script_data) : list Z := H (script_data_preimage sd).

  (* the ledger's script-integrity preimage: redeemers (or the empty map), the datums as they
     appeared / as the witness set serialises them (nothing when absent), the language views (the empty map when there are no
     redeemers or no views) *)
  Definition ledger_preimage (red : option (list Z)) (datums : option (list Z)) (views : option (list Z)) : list Z :=
    match red with
    | None => [160] ++ (match datums with Some d => d | None => [] end) ++ [160]
    | Some rb => rb ++ (match datums with Some d => d | None => [] end) ++
                 (match views with Some v => v | None => [160] end)
    end.

  Lemma preimage_formula_proof wr wd lvo sd :
    build_for wr wd lvo = Some sd ->
    script_data_hash sd =
    H (ledger_preimage (option_map enc_redeemers wr) (option_map enc_datums wd) (option_map enc_language_views lvo)).
  Proof.
    unfold build_for, script_data_hash, script_data_preimage, ledger_preimage.
    destruct wr as [r|], wd as [d|], lvo as [m|]; cbn [is_some negb andb option_map];
      intros E; inversion E; subst; reflexivity.
  Qed.

  Lemma none_when_empty_proof wr (wd : option kdatums) lvo : build_for wr wd lvo = None <-> wr = None /\ wd = None.
  Proof.
    unfold build_for. destruct wr, wd; cbn [is_some negb andb]; split; intros E;
      try discriminate; try (destruct E; discriminate); auto.
  Qed.
End Hash.
