(* C21 correspondence.  Messages are compared as bytes: the implementation's
   delivered messages re-encoded by the harness vs. the model's items
   re-encoded by the CBOR core. *)
From PV Require Import Lib.Base Cbor.Item Cbor.Enc Cbor.Dec C21.CborCodec.
From PV Require Export C21.Model.
Open Scope Z_scope.

(* run-length shorthand used by the harness for long constant payloads *)
Definition rep (b n : Z) : list Z := repeat b (Z.to_nat n).

Inductive case : Type :=
(* old stack: segments -> (delivered, status); status 0 = left waiting, 1 = Decoding error, 3 = spinning *)
| COld (segs : list (list Z)) (msgs : list (list Z)) (status : Z)
(* for EVERY split point p of stream: segments [firstn p; skipn p] ++ tail deliver msgs, status 0 *)
| COldSplits (stream : list Z) (tail : list (list Z)) (msgs : list (list Z))
(* send_msg_chunks of each encoding, then receive *)
| COldSent (encs : list (list Z)) (msgs : list (list Z)) (status : Z)
(* a polling consumer: segments arrive / recv_full_msg is called under a short timeout and
   abandoned when it would wait; then the bearer is closed and the consumer waits.  msgs =
   everything the calls returned, in order (which poll returned what depends on timing and
   is not compared) *)
| COldPoll (evs : list poll_event) (msgs : list (list Z)) (status : Z)
(* new stack: (raw channel, chunk) segments -> delivered (channel, bytes), final partial_chunks (sorted), status *)
| CNew (segs : list (Z * list Z)) (out : list (Z * list Z)) (fin : list (Z * list Z)) (status : Z)
| CNewSplits (raw : Z) (stream : list Z) (msgs : list (list Z))
| CNewSent (raw : Z) (encs : list (list Z)) (out : list (Z * list Z)) (fin : list (Z * list Z)) (status : Z).

Definition bytes_eqb := list_eqb Z.eqb.
Definition msgs_eqb := list_eqb bytes_eqb.
Definition tagged_eqb := list_eqb (fun a b : Z * list Z => (fst a =? fst b) && bytes_eqb (snd a) (snd b)).

Fixpoint is_prefix (a b : list (list Z)) : bool :=
  match a, b with
  | [], _ => true
  | x :: a', y :: b' => bytes_eqb x y && is_prefix a' b'
  | _, _ => false
  end.

Definition old_run (segs : list (list Z)) : list (list Z) * outcome (list Z) :=
  let '(items, fin) := recv_all item_dec segs in (map encode_item items, fin).

Definition old_ok (segs msgs : list (list Z)) (status : Z) : bool :=
  let '(ms, fin) := old_run segs in
  match fin with
  | Ok _ => (status =? 0) && msgs_eqb ms msgs
  | Err e => if e =? E_DECODING then (status =? 1) && msgs_eqb ms msgs
             else (status =? 3) && is_prefix msgs ms
  | Panic _ => false
  end.

Definition old_poll_ok (evs : list poll_event) (msgs : list (list Z)) (status : Z) : bool :=
  let '(items, fin) := drive_then_wait item_dec evs in
  let ms := map encode_item items in
  match fin with
  | Ok _ => (status =? 0) && msgs_eqb ms msgs
  | Err e => if e =? E_DECODING then (status =? 1) && msgs_eqb ms msgs else false
  | Panic _ => false
  end.

Definition splits (stream : list Z) : list (list (list Z)) :=
  map (fun p => [firstn p stream; skipn p stream]) (seq 0 (S (length stream))).

Definition new_run (segs : list (Z * list Z)) : outcome (list (Z * list Z) * pmap) :=
  match read_all any_chan_dec segs with
  | Ok (out, pc) => Ok (map (fun p => (fst p, encode_item (snd p))) out, pc)
  | Err e => Err e
  | Panic p => Panic p
  end.

(* the harness lists the final HashMap sorted by channel; channels are unique in both *)
Definition pmap_eqb (pc : pmap) (fin : list (Z * list Z)) : bool :=
  (length pc =? length fin)%nat &&
  forallb (fun kv => match plookup (fst kv) pc with Some v => bytes_eqb v (snd kv) | None => false end) fin.

Definition new_ok (segs out fin : list (Z * list Z)) (status : Z) : bool :=
  match new_run segs with
  | Ok (o, pc) => (status =? 0) && tagged_eqb o out && pmap_eqb pc fin
  | _ => false
  end.

Definition case_ok (c : case) : bool :=
  match c with
  | COld segs msgs status => old_ok segs msgs status
  | COldSplits stream tail msgs => forallb (fun s => old_ok (s ++ tail) msgs 0) (splits stream)
  | COldSent encs msgs status => old_ok (concat (map (chunks MAX_SEGMENT_PAYLOAD_LENGTH) encs)) msgs status
  | COldPoll evs msgs status => old_poll_ok evs msgs status
  | CNew segs out fin status => new_ok segs out fin status
  | CNewSplits raw stream msgs =>
    forallb (fun s => new_ok (map (fun x => (raw, x)) s) (map (fun m => (strip_mode raw, m)) msgs) [] 0) (splits stream)
  | CNewSent raw encs out fin status =>
    new_ok (map (fun x => (raw, x)) (concat (map (chunks MAX_SEGMENT_PAYLOAD_LENGTH) encs))) out fin status
  end.

(* printed on a mismatch *)
Definition case_out (c : case) :=
  match c with
  | COld segs _ _ => (Some (old_run segs), None)
  | COldSplits stream tail _ => (Some (old_run ([stream] ++ tail)), None)
  | COldSent encs _ _ => (Some (old_run (concat (map (chunks MAX_SEGMENT_PAYLOAD_LENGTH) encs))), None)
  | COldPoll evs _ _ => (Some (let '(items, fin) := drive_then_wait item_dec evs in (map encode_item items, fin)), None)
  | CNew segs _ _ _ => (None, Some (new_run segs))
  | CNewSplits raw stream _ => (None, Some (new_run [(raw, stream)]))
  | CNewSent raw encs _ _ _ => (None, Some (new_run (map (fun x => (raw, x)) (concat (map (chunks MAX_SEGMENT_PAYLOAD_LENGTH) encs)))))
  end.
