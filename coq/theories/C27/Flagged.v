(* C27: a peer that is flagged (violation flag set, or error count above the threshold) or already banned is not connected by the next step, whatever that step is. *)
From PV Require Import Lib.Base P2p.Proto P2p.Initiator C27.Model C27.Proofs.
Open Scope Z_scope.

(* a peer whose violation flag is set or whose error count exceeds the threshold *)
Definition flagged (c : cfg) (s : pstate) : Prop := viol s = true \/ errc s > max_err c.
(* ... or that is already in the banned set *)
Definition doomed (c : cfg) (st : ist) (p : Z) : Prop :=
  In p (banned (pr st)) \/ exists s, lookup p (peers st) = Some s /\ flagged c s.

Lemma visit_hk_flagged c st p s out pr1 a1 s1 out1 :
  Good c st -> lookup p (peers st) = Some s -> flagged c s ->
  visit_hk c p (pr st) (ax st, s, out) = Ok (pr1, (a1, s1, out1)) ->
  In p (banned pr1) /\ (nc p out -> nc p out1).
Proof.
  intros G L F. unfold visit_hk.
  destruct (categorize c p (pr st) s) as [[pr' s']| |] eqn:E; cbn [bind]; try discriminate.
  destruct (hk_rest p (ax st, s', out)) as [[[a2 s2] out2]| |] eqn:E2; cbn [bind]; try discriminate.
  intros H; inversion H; subst. clear H.
  pose proof (categorize_flagged _ _ _ _ _ _ (proj1 G) F E) as B.
  pose proof (categorize_spec _ _ _ _ _ _ (proj1 G) E) as (BM & BO & TG).
  apply hk_rest_spec in E2 as [T [ext [-> CO]]]. split; [exact B|].
  intros N X. apply in_app_iff in X as [X|X]; [exact (N X)|].
  apply CO in X as [_ W]. revert B. apply TG; [intros W0; exact (proj2 G p s L W0) | exact W].
Qed.

(* one visit of any peer q keeps p doomed and emits no Connect for p *)
Lemma visit_hk_doomed c st q s out pr1 a1 s1 out1 p :
  Good c st -> lookup q (peers st) = Some s -> doomed c st p ->
  visit_hk c q (pr st) (ax st, s, out) = Ok (pr1, (a1, s1, out1)) ->
  doomed c (mkI pr1 a1 (insert q s1 (peers st))) p /\ (nc p out -> nc p out1).
Proof.
  intros G L D V. destruct (visit_hk_good _ _ _ _ _ _ _ _ _ G L V) as (G1 & BM & NC).
  destruct D as [B|(sp & Lp & F)].
  - split; [left; cbn [pr]; apply BM, B | apply NC, B].
  - destruct (Z.eq_dec q p) as [->|N].
    + rewrite L in Lp. inversion Lp; subst sp.
      destruct (visit_hk_flagged _ _ _ _ _ _ _ _ _ G L F V) as [B N1]. split; [left; exact B | exact N1].
    + split.
      * right. exists sp. cbn [peers]. rewrite lookup_insert_neq by (intros X; apply N; congruence). split; assumption.
      * (* the visit of q emits Connect only for q *)
        unfold visit_hk in V.
        destruct (categorize c q (pr st) s) as [[pr' s']| |] eqn:E; cbn [bind] in V; try discriminate.
        destruct (hk_rest q (ax st, s', out)) as [[[a2 s2] out2]| |] eqn:E2; cbn [bind] in V; try discriminate.
        inversion V; subst. apply hk_rest_spec in E2 as [T [ext [-> CO]]].
        intros Nn X. apply in_app_iff in X as [X|X]; [exact (Nn X)|]. apply CO in X as [Eq _]. apply N. congruence.
Qed.

Lemma hk_loop_doomed c p order : forall st out st' out',
  Good c st -> doomed c st p -> hk_loop c order (st, out) = Ok (st', out') -> nc p out -> nc p out'.
Proof.
  induction order as [|q rest IH]; intros st out st' out' G D H N; cbn [hk_loop] in H.
  - inversion H; subst. exact N.
  - destruct (lookup q (peers st)) as [s|] eqn:L; [|eapply IH; eassumption].
    destruct (visit_hk c q (pr st) (ax st, s, out)) as [[pr1 [[a1 s1] out1]]| |] eqn:V; cbn [bind] in H; try discriminate.
    destruct (visit_hk_good _ _ _ _ _ _ _ _ _ G L V) as (G1 & _ & _).
    destruct (visit_hk_doomed _ _ _ _ _ _ _ _ _ p G L D V) as (D1 & N1).
    eapply IH; [exact G1 | exact D1 | exact H | apply N1, N].
Qed.

(* only the housekeeping pass emits Connect at all *)
Lemma vgood_nc f a s out a' s' out' q : vgood f -> f (a, s, out) = Ok (a', s', out') -> nc q out -> nc q out'.
Proof. intros F H N. apply F in H as (_ & ext & -> & FE). apply nc_app; assumption. Qed.

Theorem flagged_never_connected c st e st' out p :
  Good c st -> doomed c st p -> step c st e = Ok (st', out) -> nc p out.
Proof.
  intros G D. destruct e; cbn [step].
  - destruct (on_discovered c p0 st) as [st1| |]; cbn [bind]; try discriminate. intros H; inversion H; subst. apply nc_nil.
  - intros H. destruct (ban_good _ _ _ _ _ G H) as (_ & _ & N). apply N.
  - intros H. apply on_tagged_good with (c := c) in H; [destruct H as (_ & _ & N); apply N | exact G |].
    intros s [W|W]; cbn in W; discriminate.
  - unfold housekeeping.
    destruct (hk_loop c _ (st, [])) as [[st1 out1]| |] eqn:E; cbn [bind]; try discriminate.
    destruct (move_discovered c dorder st1) as [st2| |]; cbn [bind]; try discriminate.
    intros H; inversion H; subst. eapply hk_loop_doomed; [exact G | exact D | exact E | apply nc_nil].
  - intros H; inversion H; subst. apply nc_nil.
  - intros H. apply on_tagged_good with (c := c) in H; [destruct H as (_ & _ & N); apply N | exact G |]. intros s W; exact W.
  - intros H; inversion H; subst. apply nc_nil.
  - intros H; inversion H; subst. apply nc_nil.
  - intros H; inversion H; subst. apply nc_nil.
  - intros H; inversion H; subst. apply nc_nil.
  - unfold on_connected. destruct (lookup p0 (peers st)); [|intros H; inversion H; subst; apply nc_nil].
    destruct (v_hs_connected p0 _) as [[[a1 s1] o1]| |] eqn:V; cbn [bind]; try discriminate.
    intros H; inversion H; subst. eapply vgood_nc; [apply vg_hs_connected | exact V | apply nc_nil].
  - unfold on_disconnected. destruct (lookup p0 (peers st)); [|intros H; inversion H; subst; apply nc_nil].
    cbn [v_lf_purge bind]. intros H; inversion H; subst. apply nc_nil.
  - unfold on_errored. destruct (lookup p0 (peers st)); [|intros H; inversion H; subst; apply nc_nil].
    destruct (_ >=? _); try discriminate.
    destruct (v_conn_err p0 _) as [[[a1 s1] o1]| |] eqn:V; cbn [bind]; try discriminate.
    cbn [v_lf_purge]. intros H; inversion H; subst. eapply vgood_nc; [apply vg_conn_err | exact V | apply nc_nil].
  - intros H. destruct (on_inbound_all_good _ _ _ _ _ _ _ G H) as (_ & _ & N). apply N, nc_nil.
  - unfold on_outbound. destruct (lookup p0 (peers st)); intros H; inversion H; subst; apply nc_nil.
Qed.
