#!/usr/bin/env python3
"""Regenerate MANIFEST.json from props/*.json (one file per claimed property)
and props/not_applicable.json. MANIFEST lists only what exists."""
import json, os, glob
V = os.path.dirname(os.path.dirname(os.path.abspath(__file__)))
allp = [json.loads(l)["id"] for l in open(os.path.join(V, "properties.jsonl"))]
checks, engines = [], {}
ready_path = os.path.join(V, "props", "ready.txt")
ready = set(open(ready_path).read().split()) if os.path.exists(ready_path) else None
for f in sorted(glob.glob(os.path.join(V, "props", "C*.json"))):
    c = json.load(open(f))
    pid = c["id"]
    if ready is not None and pid not in ready:
        continue
    engines.setdefault(c.get("engine", "misc"), []).append(pid)
    checks.append({
        "property_id": pid,
        "quick_cmd": "./check %s --tier quick" % pid,
        "thorough_cmd": "./check %s --tier thorough" % pid,
        "evidence_file": "/verif/evidence/%s.json" % pid,
        "replay_cmd_template": "cat {path}; ./check %s --tier quick" % pid,
        "engine": c.get("engine", "misc"),
        "level_claimed": {"category": "proof", "text": c["level_text"], "design_ref": c.get("design_ref", "DESIGN.md §6 " + pid)},
        "level_note": c["level_note"],
        "technique": c["technique"],
    })
na_path = os.path.join(V, "props", "not_applicable.json")
na = json.load(open(na_path)) if os.path.exists(na_path) else {}
claimed = {c["property_id"] for c in checks}
not_app = []
for pid in allp:
    if pid in claimed:
        continue
    not_app.append({"property_id": pid, "reason": na.get(pid, "not yet built: no Coq model/theorem/correspondence exists for this property in this tree, so it is not claimed (DESIGN.md §9 build order)")})
man = {
    "version": 1,
    "setup_cmd": "./setup.sh",
    "hooks": {
        "guard": "--cfg pallas_verif",
        "enable": "RUSTFLAGS=\"--cfg pallas_verif\" (set by vp/check.py when it builds /verif/harness against /repo path dependencies)",
        "baseline_off_cmd": "cd /repo && cargo test --workspace --no-fail-fast --offline",
        "source_commits": json.load(open(os.path.join(V, "props", "hooks.json")))["source_commits"] if os.path.exists(os.path.join(V, "props", "hooks.json")) else [],
        "add_only": True,
    },
    "engines": [{"name": k, "path": "coq/theories + harness/src/bin", "serves_properties": v,
                 "kind_free_text": "Coq 8.16 proof over a Gallina model + differential correspondence (vm_compute) against the Rust crates"} for k, v in sorted(engines.items())],
    "checks": checks,
    "notes": "Every check = Coq theorems (pinned statements, Print Assumptions allowlist, no Admitted/Axiom gate) + model/implementation correspondence evaluated inside Coq. See DESIGN.md.",
    "not_applicable": not_app,
}
json.dump(man, open(os.path.join(V, "MANIFEST.json"), "w"), indent=1)
print("MANIFEST.json: %d checks, %d not claimed" % (len(checks), len(not_app)))
