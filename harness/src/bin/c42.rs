//! C42: immutable-db reads return exactly the requested chain suffix.
//!
//! case := (database, [(query, answer); ...])
//!   database := RealDb [names]   a subset of the chunk files of <repo>/test_data (copied)
//!             | LitDb [(name, [(slot, hash, number); ...]); ...]
//!                                a database the harness wrote from real blocks (re-chunked)
//!   query    := QAll (read_blocks) | QTip (get_tip) | QFrom Origin | QFrom (Specific slot hash)
//!   answer   := ABlocks count hash | AErr class | APanic class | ATip (Some (slot, hash)) | ATip None
//! hash of a byte string = big-endian value of 0x01 :: bytes (the empty string is 1).
//!
//! Oracle (the property's own predicate, computed from the abstract chain only; the
//! chain of a database = the blocks of all its chunk files but the last, in name order):
//!   read_blocks = chain; an existing block as exact point -> the suffix from it; an empty
//!   hash -> the suffix from the first block with slot >= the given slot; an absent exact
//!   point -> an error; get_tip = the last block of the chain.
//!
//! Files are written under $VERIF_DIR/.cache/scratch-c42-<pid>, removed before exit.
use pallas_hardano::storage::immutable::{self, Point};
use pallas_traverse::MultiEraBlock;
use std::collections::HashMap;
use std::path::{Path, PathBuf};
use verif_harness::*;

const KEY_FUZZY_BELOW: &str = "fuzzy-point-below-first-block";
const KEY_ABSENT_BEYOND: &str = "absent-exact-point-beyond-tip";

#[derive(Clone)]
struct Blk { slot: u64, hash: Vec<u8>, number: u64, bytes: Vec<u8> }

fn repo_dir() -> PathBuf {
    // root of the pallas tree under test (set by vp/check.py)
    PathBuf::from(std::env::var("VERIF_REPO").unwrap_or_else(|_| "/repo".into()))
}

fn be32(b: &[u8], i: usize) -> u32 { u32::from_be_bytes([b[i], b[i + 1], b[i + 2], b[i + 3]]) }
fn be64(b: &[u8], i: usize) -> u64 { let mut x = [0u8; 8]; x.copy_from_slice(&b[i..i + 8]); u64::from_be_bytes(x) }

fn decode(bytes: &[u8]) -> Blk {
    let b = match MultiEraBlock::decode(bytes) { Ok(b) => b, Err(e) => { eprintln!("c42: a block of the test database does not decode ({} bytes): {:?}", bytes.len(), e); std::process::exit(3) } };
    Blk { slot: b.slot(), hash: b.hash().to_vec(), number: b.number(), bytes: bytes.to_vec() }
}

/// the harness's own reading of a chunk (independent of pallas-hardano):
/// `occupied_only` = one block per occupied primary slot (what the readers deliver),
/// otherwise one block per secondary entry (used as a pool of real blocks).
fn parse_chunk(prim: &[u8], sec: &[u8], chunk: &[u8], occupied_only: bool) -> Vec<Blk> {
    let offs: Vec<usize> = if occupied_only {
        let nw = (prim.len() - 1) / 4;
        (0..nw.saturating_sub(1)).filter(|i| be32(prim, 5 + 4 * i) > be32(prim, 1 + 4 * i)).map(|i| be32(prim, 1 + 4 * i) as usize).collect()
    } else { (0..sec.len() / 56).map(|i| 56 * i).collect() };
    let starts: Vec<usize> = offs.iter().map(|o| be64(sec, *o) as usize).collect();
    let mut out = vec![];
    for i in 0..starts.len() {
        let end = if i + 1 < starts.len() { starts[i + 1] } else { chunk.len() };
        // the pool only takes blocks that lie completely inside the (possibly truncated) chunk file
        if !occupied_only && (end > chunk.len() || starts[i] >= end || i + 1 == starts.len()) { break; }
        out.push(decode(&chunk[starts[i]..end.min(chunk.len())]));
    }
    out
}

struct Real { name: u32, prim: Vec<u8>, sec: Vec<u8>, chunk: Vec<u8>, blocks: Vec<Blk> }

fn load_real() -> Vec<Real> {
    let td = repo_dir().join("test_data");
    let mut names: Vec<String> = std::fs::read_dir(&td).expect("test_data").filter_map(|e| e.ok())
        .filter(|e| e.path().extension().map(|x| x == "chunk").unwrap_or(false))
        .map(|e| e.path().file_stem().unwrap().to_string_lossy().to_string()).collect();
    names.sort();
    names.iter().map(|n| {
        let prim = std::fs::read(td.join(format!("{}.primary", n))).expect("primary");
        let sec = std::fs::read(td.join(format!("{}.secondary", n))).expect("secondary");
        let chunk = std::fs::read(td.join(format!("{}.chunk", n))).expect("chunk");
        let blocks = parse_chunk(&prim, &sec, &chunk, true);
        Real { name: n.parse().expect("decimal chunk name"), prim, sec, chunk, blocks }
    }).collect()
}

// ---------------------------------------------------------------- databases

/// abstract database: (name, blocks) per chunk file, any order
#[derive(Clone)]
struct Db { chunks: Vec<(u32, Vec<Blk>)>, real: Option<Vec<u32>>, dir: PathBuf }

impl Db {
    /// the property's chain: all chunk files but the last, in name order
    fn chain(&self) -> Vec<Blk> {
        let mut c: Vec<&(u32, Vec<Blk>)> = self.chunks.iter().collect();
        c.sort_by_key(|x| x.0);
        c.pop();
        c.into_iter().flat_map(|x| x.1.iter().cloned()).collect()
    }
    fn well_formed(&self) -> bool {
        let mut c: Vec<&(u32, Vec<Blk>)> = self.chunks.iter().collect();
        c.sort_by_key(|x| x.0);
        c.pop();
        let ch = self.chain();
        c.iter().all(|x| !x.1.is_empty()) && ch.windows(2).all(|w| w[0].slot < w[1].slot)
    }
}

fn write_chunk(dir: &Path, name: u32, blocks: &[Blk]) {
    let mut prim = vec![1u8];
    let mut sec = vec![];
    let mut chunk = vec![];
    // a leading empty slot, then one occupied slot per block
    prim.extend(0u32.to_be_bytes());
    for (i, b) in blocks.iter().enumerate() {
        prim.extend(((56 * i) as u32).to_be_bytes());
        let mut e = vec![0u8; 56];
        e[..8].copy_from_slice(&(chunk.len() as u64).to_be_bytes());
        e[16..48].copy_from_slice(&b.hash);
        e[48..56].copy_from_slice(&b.slot.to_be_bytes());
        sec.extend(e);
        chunk.extend(&b.bytes);
    }
    prim.extend(((56 * blocks.len()) as u32).to_be_bytes());
    let n = format!("{:05}", name);
    std::fs::write(dir.join(format!("{}.primary", n)), prim).unwrap();
    std::fs::write(dir.join(format!("{}.secondary", n)), sec).unwrap();
    std::fs::write(dir.join(format!("{}.chunk", n)), chunk).unwrap();
}

// ------------------------------------------------------------------ queries

#[derive(Clone)]
enum Query { All, Tip, Origin, Specific(u64, Vec<u8>) }
enum Ans { Blocks(Vec<(u64, Vec<u8>)>), Err(i64), Panic(i64), Tip(Option<(u64, Vec<u8>)>) }

/// Injective encoding of hashes (byte strings) as Coq integers.  Real databases: the
/// big-endian value of 0x01 :: bytes (as in Generated/ImmutableTestChain.v).  Databases
/// written by the harness: a per-run numbering (pool block i -> i + 2, any other byte
/// string -> the next free number from 10^7 on); the empty string is always 1.  The model
/// only compares hashes for equality and with the empty hash.
struct Enc { real: bool, ids: HashMap<Vec<u8>, u64>, next: u64 }
impl Enc {
    fn id(&mut self, h: &[u8]) -> u128 {
        if h.is_empty() { return 1; }
        if self.real { let mut r = 0u128; let k = h.len().saturating_sub(8); for b in &h[k..] { r = r * 256 + *b as u128; }
                       if h.len() < 8 { r += 1u128 << (8 * h.len()); } return r & ((1u128 << 60) - 1); }
        if let Some(v) = self.ids.get(h) { return *v as u128; }
        let v = self.next; self.next += 1; self.ids.insert(h.to_vec(), v); v as u128
    }
    fn z(&mut self, h: &[u8]) -> String {
        if h.is_empty() { "1".into() } else if self.real { format!("0x01{}", hex(h)) } else { self.id(h).to_string() }
    }
}
fn coq_query(q: &Query, enc: &mut Enc) -> String {
    match q { Query::All => "QAll".into(), Query::Tip => "QTip".into(), Query::Origin => "QFrom Origin".into(),
              Query::Specific(s, h) => format!("QFrom (Specific {} {})", s, enc.z(h)) }
}
const MASK61: u128 = 2305843009213693951;   // 2^61 - 1
fn mix(h: u128, v: u128) -> u128 { (h * 1000003 + v) & MASK61 }
fn coq_answer(a: &Ans, enc: &mut Enc) -> String {
    match a {
        // hash over (slot, low 60 bits of the encoded hash)
        Ans::Blocks(l) => { let mut h = 7u128; for (s, x) in l { h = mix(mix(h, *s as u128), enc.id(x) & ((1u128 << 60) - 1)); } format!("ABlocks {} {}", l.len(), h) }
        Ans::Err(e) => format!("AErr {}", e), Ans::Panic(p) => format!("APanic {}", p),
        Ans::Tip(None) => "ATip None".into(), Ans::Tip(Some((s, h))) => format!("ATip (Some ({},{}))", s, enc.z(h)),
    }
}
fn txt_blocks(l: &[(u64, Vec<u8>)]) -> String {
    let f = |x: &(u64, Vec<u8>)| format!("({},{})", x.0, &hex(&x.1)[..x.1.len().min(4) * 2]);
    if l.len() <= 6 { format!("[{}]", l.iter().map(f).collect::<Vec<_>>().join(",")) }
    else { format!("[{},{},.. {} blocks ..,{}]", f(&l[0]), f(&l[1]), l.len(), f(&l[l.len() - 1])) }
}
fn txt_answer(a: &Ans) -> String {
    match a { Ans::Blocks(l) => format!("Ok{}", txt_blocks(l)), Ans::Err(1) => "Err(CannotFindBlock)".into(), Ans::Err(2) => "Err(OriginMissing)".into(),
              Ans::Err(e) => format!("Err(class {})", e), Ans::Panic(p) => format!("PANIC(class {})", p),
              Ans::Tip(None) => "tip None".into(), Ans::Tip(Some((s, h))) => format!("tip ({},{})", s, hex(h)) }
}
fn txt_query(q: &Query) -> String {
    match q { Query::All => "read_blocks".into(), Query::Tip => "get_tip".into(), Query::Origin => "read_blocks_from_point(Origin)".into(),
              Query::Specific(s, h) => format!("read_blocks_from_point(Specific({}, {}))", s, if h.is_empty() { "[] (fuzzy)".to_string() } else { hex(h) }) }
}
fn txt_db(db: &Db) -> String {
    let mut c: Vec<&(u32, Vec<Blk>)> = db.chunks.iter().collect();
    c.sort_by_key(|x| x.0);
    let show = |bs: &Vec<Blk>| { let l: Vec<(u64, Vec<u8>)> = bs.iter().map(|b| (b.slot, b.hash.clone())).collect(); txt_blocks(&l) };
    let src = match &db.real { Some(n) => format!("copies of test_data chunk files {:?}; ", n), None => "written by the harness from real blocks; ".into() };
    format!("db{{{}{}}}", src, c.iter().map(|x| format!("{:05}:{}", x.0, show(&x.1))).collect::<Vec<_>>().join(" "))
}

fn err_code(e: &immutable::Error) -> i64 {
    match e { immutable::Error::CannotFindBlock(_) => 1, immutable::Error::OriginMissing => 2, immutable::Error::CannotReadDir(_) => 3,
              immutable::Error::CannotDecodeBlock(_) => 4, immutable::Error::ChunkReadError(_) => 5 }
}
fn panic_code(m: &str) -> i64 { if m.contains("index out of bounds") { 1 } else if m.contains("subtract with overflow") { 2 } else { 90 } }

struct Ident { map: HashMap<(usize, u64), (u64, Vec<u8>)> }
fn fnv(b: &[u8]) -> u64 { let mut h = 0xcbf29ce484222325u64; for x in b { h = (h ^ *x as u64).wrapping_mul(0x100000001b3); } h }
impl Ident {
    fn of(&mut self, bytes: &[u8]) -> (u64, Vec<u8>) {
        let k = (bytes.len(), fnv(bytes));
        if let Some(v) = self.map.get(&k) { return v.clone(); }
        let b = MultiEraBlock::decode(bytes).expect("answer block decodes");
        let v = (b.slot(), b.hash().to_vec());
        self.map.insert(k, v.clone());
        v
    }
}

fn drain<I: Iterator<Item = immutable::FallibleBlock>>(it: I, id: &mut Ident) -> Result<Vec<(u64, Vec<u8>)>, String> {
    let mut v = vec![];
    for b in it { match b { Ok(bytes) => v.push(id.of(&bytes)), Err(e) => return Err(format!("block read error {:?}", e)) } }
    Ok(v)
}

fn run_query(db: &Db, q: &Query, id: &mut Ident) -> Ans {
    let dir = db.dir.clone();
    std::panic::set_hook(Box::new(|_| {}));      // panics of the implementation are data
    let r = guard_total(|| -> Ans {
        match q {
            Query::All => match immutable::read_blocks(&dir) { Ok(it) => match drain(it, id) { Ok(v) => Ans::Blocks(v), Err(_) => Ans::Err(5) }, Err(e) => Ans::Err(err_code(&e)) },
            Query::Tip => match immutable::get_tip(&dir) {
                Ok(Some(Point::Specific(s, h))) => Ans::Tip(Some((s, h))), Ok(Some(Point::Origin)) => Ans::Err(80), Ok(None) => Ans::Tip(None), Err(e) => Ans::Err(err_code(&e)) },
            Query::Origin | Query::Specific(..) => {
                let pt = match q { Query::Specific(s, h) => Point::Specific(*s, h.clone()), _ => Point::Origin };
                match immutable::read_blocks_from_point(&dir, pt) { Ok(it) => match drain(it, id) { Ok(v) => Ans::Blocks(v), Err(_) => Ans::Err(5) }, Err(e) => Ans::Err(err_code(&e)) }
            }
        }
    });
    std::panic::set_hook(Box::new(|i| eprintln!("c42 harness bug: {}", i)));
    match r { Out::Ok(a) => a, Out::Err(_) => unreachable!(), Out::Panic(m) => Ans::Panic(panic_code(&m)) }
}

/// the property's predicate; None = no expectation (outside the property's domain)
fn oracle(chain: &[Blk], q: &Query, a: &Ans) -> Option<(bool, &'static str, String)> {
    let pairs = |l: &[Blk]| -> Vec<(u64, Vec<u8>)> { l.iter().map(|b| (b.slot, b.hash.clone())).collect() };
    let is = |want: &[Blk]| matches!(a, Ans::Blocks(v) if *v == pairs(want));
    match q {
        Query::All => Some((is(chain), "read-all", format!("every block once, in order: {}", txt_blocks(&pairs(chain))))),
        Query::Tip => {
            let want = chain.last().map(|b| (b.slot, b.hash.clone()));
            Some((matches!(a, Ans::Tip(t) if *t == want), "tip", format!("the last immutable block {:?}", want.map(|w| (w.0, hex(&w.1))))))
        }
        Query::Origin => None,
        Query::Specific(s, h) if h.is_empty() => {
            let k = chain.iter().position(|b| b.slot >= *s).unwrap_or(chain.len());
            let key = if chain.is_empty() || *s < chain[0].slot { KEY_FUZZY_BELOW } else { "fuzzy-point" };
            Some((is(&chain[k..]), key, format!("the suffix from the first block at or after slot {}: {}", s, txt_blocks(&pairs(&chain[k..])))))
        }
        Query::Specific(s, h) => {
            match chain.iter().position(|b| b.slot == *s && b.hash == *h) {
                Some(k) => Some((is(&chain[k..]), "exact-point", format!("the suffix starting at that block: {}", txt_blocks(&pairs(&chain[k..]))))),
                None => {
                    let key = if chain.last().map(|b| *s > b.slot).unwrap_or(false) { KEY_ABSENT_BEYOND } else { "absent-exact-point" };
                    Some((matches!(a, Ans::Err(_)), key, "an error (the point is not in the chain)".to_string()))
                }
            }
        }
    }
}

// ---------------------------------------------------------------- generators

fn queries_for(rng: &mut Rng, chain: &[Blk], pool_hashes: &[Vec<u8>], budget: usize, dense: bool) -> Vec<Query> {
    let mut q = vec![Query::All, Query::Tip, Query::Origin];
    if chain.is_empty() {
        q.push(Query::Specific(0, vec![])); q.push(Query::Specific(rng.below(1 << 30), vec![]));
        q.push(Query::Specific(rng.below(1 << 30), rng.bytes(32)));
        return q;
    }
    let n = chain.len();
    let first = chain[0].slot; let last = chain[n - 1].slot;
    // exact points
    let idx: Vec<usize> = if dense || n <= budget { (0..n).collect() } else {
        let mut v: Vec<usize> = vec![0, 1.min(n - 1), n - 1, n.saturating_sub(2)];
        for _ in 0..budget { v.push(rng.below(n as u64) as usize); }
        v.sort(); v.dedup(); v };
    for &i in &idx { q.push(Query::Specific(chain[i].slot, chain[i].hash.clone())); }
    // fuzzy points: every slot in and between the chosen blocks (dense) or their neighbourhoods
    let mut slots: Vec<u64> = vec![0, 1, first.saturating_sub(2), first.saturating_sub(1), first, first + 1, last - 1.min(last), last, last + 1, last + 2, last + 1000, u64::MAX / 2, u64::MAX];
    if dense { for s in first..=last { slots.push(s); } }
    else {
        for &i in &idx {
            let s = chain[i].slot;
            slots.extend([s.saturating_sub(1), s, s + 1]);
            if i + 1 < n { let t = chain[i + 1].slot; slots.push(s + (t - s) / 2); slots.push(t - 1); }
        }
        for _ in 0..budget / 2 { slots.push(first + rng.below(last - first + 1)); }
    }
    slots.sort(); slots.dedup();
    for s in slots { q.push(Query::Specific(s, vec![])); }
    // absent exact points
    let nab = (if dense { budget.max(20) } else { (budget / 2).max(8) }).min(300);
    for _ in 0..nab {
        let i = rng.below(n as u64) as usize;
        let b = &chain[i];
        q.push(match rng.below(9) {
            0 => Query::Specific(b.slot, { let mut h = b.hash.clone(); let k = rng.below(32) as usize; h[k] ^= 1 << rng.below(8); h }),
            1 => Query::Specific(b.slot, pool_hashes[rng.below(pool_hashes.len() as u64) as usize].clone()).fix(chain),
            2 => Query::Specific(b.slot + 1, b.hash.clone()).fix(chain),
            3 => Query::Specific(b.slot.saturating_sub(1), b.hash.clone()).fix(chain),
            4 => Query::Specific(last + 1 + rng.below(1000), chain[n - 1].hash.clone()),
            5 => Query::Specific(first.saturating_sub(1 + rng.below(1000)), chain[0].hash.clone()).fix(chain),
            6 => Query::Specific(b.slot, b.hash[..31].to_vec()),
            7 => Query::Specific(last + 1 + rng.below(1 << 40), rng.bytes(32)),
            _ => Query::Specific(first + rng.below(last - first + 1), rng.bytes(32)),
        });
    }
    q
}
trait Fix { fn fix(self, chain: &[Blk]) -> Query; }
impl Fix for Query {
    /// make sure an "absent" point really is absent (perturb the hash if it hit a block)
    fn fix(self, chain: &[Blk]) -> Query {
        match self { Query::Specific(s, mut h) => { if chain.iter().any(|b| b.slot == s && b.hash == h) { h[0] ^= 0x55; } Query::Specific(s, h) } q => q }
    }
}

struct ScratchDir(PathBuf);
impl Drop for ScratchDir { fn drop(&mut self) { let _ = std::fs::remove_dir_all(&self.0); } }

fn run_db(db: &Db, queries: &[Query], tag: &str, id: &mut Ident, enc: &mut Enc, oracle_only: bool, check_oracle: bool, stats: &mut (u64, u64)) {
    enc.real = db.real.is_some();
    let chain = db.chain();
    let mut pairs = vec![];
    for q in queries {
        let a = run_query(db, q, id);
        stats.0 += 1;
        if check_oracle {
            if let Some((ok, key, want)) = oracle(&chain, q, &a) {
                if !ok { emit_oracle_fail(key, &format!("{} query={} answer={} expected={}", txt_db(db), txt_query(q), txt_answer(&a), want)); }
            }
        }
        pairs.push(format!("({},{})", coq_query(q, enc), coq_answer(&a, enc)));
    }
    if oracle_only { return; }
    let src = match &db.real {
        Some(names) => format!("RealDb {}", coq_list(names, |n| n.to_string())),
        None => { let mut parts = vec![]; for c in &db.chunks { let mut bs = vec![]; for b in &c.1 { bs.push(format!("({},{},{})", b.slot, enc.z(&b.hash), b.number)); } parts.push(format!("({},[{}])", c.0, bs.join(";"))); } format!("LitDb [{}]", parts.join(";")) }
    };
    for part in pairs.chunks(60) {
        emit_case(tag, &format!("({},[{}])", src, part.join(";")));
        stats.1 += 1;
    }
}

fn main() {
    let a = args();
    std::panic::set_hook(Box::new(|i| eprintln!("c42 harness bug: {}", i)));
    let mut rng = Rng::new(a.seed);
    let thorough = a.tier == "thorough";
    let verif = std::env::var("VERIF_DIR").unwrap_or_else(|_| "/verif".into());
    // scratch directories of runs whose process no longer exists (killed by a timeout)
    if let Ok(rd) = std::fs::read_dir(Path::new(&verif).join(".cache")) {
        for e in rd.filter_map(|e| e.ok()) {
            let name = e.file_name().to_string_lossy().to_string();
            if let Some(pid) = name.strip_prefix("scratch-c42-") {
                if pid.parse::<u32>().is_ok() && !Path::new("/proc").join(pid).exists() { let _ = std::fs::remove_dir_all(e.path()); }
            }
        }
    }
    let root = ScratchDir(Path::new(&verif).join(".cache").join(format!("scratch-c42-{}", std::process::id())));
    let _ = std::fs::remove_dir_all(&root.0);
    std::fs::create_dir_all(&root.0).expect("scratch dir");
    let real = load_real();
    let mut id = Ident { map: HashMap::new() };
    // pool of real blocks (every secondary entry of every chunk), in chain order
    let mut pool: Vec<Blk> = vec![];
    for r in &real { pool.extend(parse_chunk(&r.prim, &r.sec, &r.chunk, false)); }
    for b in &pool { id.map.insert((b.bytes.len(), fnv(&b.bytes)), (b.slot, b.hash.clone())); }
    let pool_hashes: Vec<Vec<u8>> = pool.iter().map(|b| b.hash.clone()).collect();
    let mut stats = (0u64, 0u64);
    let mut enc = Enc { real: true, ids: pool.iter().enumerate().map(|(i, b)| (b.hash.clone(), i as u64 + 2)).collect(), next: 10_000_000 };

    // 1. every contiguous subset of the chunk files of the test database
    let nr = real.len();
    for lo in 0..nr { for hi in lo..nr {
        let dir = root.0.join(format!("real-{}-{}", lo, hi));
        std::fs::create_dir_all(&dir).unwrap();
        for r in &real[lo..=hi] {
            let n = format!("{:05}", r.name);
            std::fs::write(dir.join(format!("{}.primary", n)), &r.prim).unwrap();
            std::fs::write(dir.join(format!("{}.secondary", n)), &r.sec).unwrap();
            std::fs::write(dir.join(format!("{}.chunk", n)), &r.chunk).unwrap();
        }
        let db = Db { chunks: real[lo..=hi].iter().map(|r| (r.name, r.blocks.clone())).collect(), real: Some(real[lo..=hi].iter().map(|r| r.name).collect()), dir };
        let chain = db.chain();
        let full = lo == 0 && hi == nr - 1;
        let budget = if thorough { if full { 100000 } else { 150 } } else if full { (a.n / 8).max(10) } else { (a.n / 40).max(4) };
        let mut qs = queries_for(&mut rng, &chain, &pool_hashes, budget, false);
        if thorough && full {
            // every block was taken as exact point (budget >= chain length) together with the
            // representatives of every gap (a-1, a, a+1, midpoint, b-1); add every single slot
            // of a few windows: start / end of each chunk file and around random blocks
            for r in &real[lo..hi] {
                if let (Some(f), Some(l)) = (r.blocks.first(), r.blocks.last()) {
                    for s in f.slot.saturating_sub(50)..f.slot + 250 { qs.push(Query::Specific(s, vec![])); }
                    for s in l.slot.saturating_sub(250)..l.slot + 50 { qs.push(Query::Specific(s, vec![])); }
                    for _ in 0..3 { let c = r.blocks[rng.below(r.blocks.len() as u64) as usize].slot; for s in c.saturating_sub(100)..c + 100 { qs.push(Query::Specific(s, vec![])); } }
                }
            }
        }
        run_db(&db, &qs, if full { "real-full-db" } else { "real-chunk-subset" }, &mut id, &mut enc, a.oracle_only, true, &mut stats);
        if stats.0 < 8 { emit_sample(&txt_db(&db)); }
    } }

    // 2. databases re-chunked from windows of real blocks
    let syn = root.0.join("syn");
    for k in 0..a.n {
        let _ = std::fs::remove_dir_all(&syn);
        std::fs::create_dir_all(&syn).unwrap();
        let m = match rng.below(4) { 0 => rng.range(1, 4), 1 => rng.range(2, 12), _ => rng.range(5, 40) } as usize;
        let start = rng.below((pool.len() - m - 8) as u64) as usize;
        let window = &pool[start..start + m];
        let nchunks = (match rng.below(3) { 0 => rng.range(1, 3), 1 => rng.range(2, 6), _ => rng.range(3, 12) } as usize).min(m);
        // cut points
        let mut cuts: Vec<usize> = (1..m).collect();
        while cuts.len() > nchunks - 1 { let i = rng.below(cuts.len() as u64) as usize; cuts.remove(i); }
        let mut parts: Vec<Vec<Blk>> = vec![];
        let mut prev = 0;
        for c in cuts.iter().chain(std::iter::once(&m)) { parts.push(window[prev..*c].to_vec()); prev = *c; }
        let with_empty = rng.chance(1, 6);
        if with_empty { let i = rng.below(parts.len() as u64 + 1) as usize; parts.insert(i, vec![]); }
        // the (dropped) last chunk file: the following real blocks, nothing, or absent
        match rng.below(4) { 0 => {}, 1 => parts.push(vec![]), _ => parts.push(pool[start + m..start + m + rng.range(1, 6) as usize].to_vec()) }
        let mut name = rng.range(0, 99000) as u32;
        let mut chunks = vec![];
        for p in parts { chunks.push((name, p)); name += rng.range(1, 40) as u32; }
        if rng.bool() { chunks.reverse(); }
        for (n, bs) in &chunks { write_chunk(&syn, *n, bs); }
        let db = Db { chunks, real: None, dir: syn.clone() };
        let chain = db.chain();
        let wf = db.well_formed();
        let budget = if thorough { 40 } else { 12 };
        let dense = chain.len() <= 12 && !chain.is_empty() && chain[chain.len() - 1].slot - chain[0].slot < 600;
        let qs = queries_for(&mut rng, &chain, &pool_hashes, budget, dense);
        let tag = if !wf { "rechunked-with-empty-chunk" } else if chain.is_empty() { "rechunked-no-immutable-chunk" } else { "rechunked" };
        run_db(&db, &qs, tag, &mut id, &mut enc, a.oracle_only, wf, &mut stats);
        if k < 2 { emit_sample(&txt_db(&db)); }
    }
    emit_stat("queries_oracle", stats.0);
}
