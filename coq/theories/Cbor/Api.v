(* CBOR core — models of the minicbor 0.26 [Decoder] / [Encoder] calls that
   pallas uses. The decoder state is the remaining input ([list Z]); a call
   returns [dres (value * remaining input)].

   Error classes: [DEoi] = minicbor's end_of_input, [DErr] = every other
   error. One quirk is modelled on purpose: when a call rejects an initial
   byte 0x38..0x3b ("type mismatch"), minicbor computes the type of that byte
   by peeking one byte *past the byte after it*, and reports end_of_input when
   that byte does not exist ([mismatch]). *)
From PV Require Import Lib.Base Cbor.Item Cbor.Enc Cbor.Dec Cbor.HeadLaws Cbor.Laws.
Open Scope Z_scope.

(* [mismatch b r] (Dec.v): the error of [Error::type_mismatch(self.type_of(b)?)] after [b] was consumed *)

(* read one head whose major type satisfies [ok]; anything else is a type mismatch *)
Definition expect_head (ok : major -> bool) (bs : list Z) : dres (harg * list Z) :=
  match bs with
  | [] => DEoi
  | b :: r =>
    if negb (byteb b) then DErr
    else if ok (major_of_code (b / 32)) then
      dbind (dec_head bs) (fun '(_, h, r') => DOk (h, r'))
    else mismatch b r
  end.

Definition expect_arg (ok : major -> bool) (bs : list Z) : dres (width * Z * list Z) :=
  dbind (expect_head ok bs) (fun '(h, r) =>
    match h with HArg w n => DOk (w, n, r) | HIndef => DErr end).

(* ---- unsigned ---- *)
(* Decoder::u8/u16/u32/u64: any head width is accepted, the value must fit the target type *)
Definition d_uint (bound : Z) (bs : list Z) : dres (Z * list Z) :=
  dbind (expect_arg (major_eqb MajUInt) bs) (fun '(_, n, r) =>
    if n <? bound then DOk (n, r) else DErr).
Definition d_u8 := d_uint 256.
Definition d_u16 := d_uint 65536.
Definition d_u32 := d_uint 4294967296.
Definition d_u64 := d_uint 18446744073709551616.

(* ---- signed ---- *)
Definition is_int_major (m : major) : bool := major_eqb m MajUInt || major_eqb m MajNInt.

(* Decoder::int: the full CBOR integer range -2^64 .. 2^64-1, as a Z *)
Definition d_int (bs : list Z) : dres (Z * list Z) :=
  match bs with
  | [] => DEoi
  | b :: _ =>
    dbind (expect_arg is_int_major bs) (fun '(_, n, r) =>
      if b <? 32 then DOk (n, r) else DOk (-1 - n, r))
  end.

(* Decoder::i8/i16/i32/i64: magnitude must be below 2^(bits-1) *)
Definition d_sint (half : Z) (bs : list Z) : dres (Z * list Z) :=
  match bs with
  | [] => DEoi
  | b :: _ =>
    dbind (expect_arg is_int_major bs) (fun '(_, n, r) =>
      if n <? half then (if b <? 32 then DOk (n, r) else DOk (-1 - n, r)) else DErr)
  end.
Definition d_i8 := d_sint 128.
Definition d_i16 := d_sint 32768.
Definition d_i32 := d_sint 2147483648.
Definition d_i64 := d_sint 9223372036854775808.

(* ---- simple values ---- *)
Definition d_bool (bs : list Z) : dres (bool * list Z) :=
  match bs with
  | [] => DEoi
  | b :: r => if b =? 244 then DOk (false, r) else if b =? 245 then DOk (true, r)
              else if negb (byteb b) then DErr else mismatch b r
  end.
Definition d_null (bs : list Z) : dres (unit * list Z) :=
  match bs with
  | [] => DEoi
  | b :: r => if b =? 246 then DOk (tt, r) else if negb (byteb b) then DErr else mismatch b r
  end.
Definition d_undefined (bs : list Z) : dres (unit * list Z) :=
  match bs with
  | [] => DEoi
  | b :: r => if b =? 247 then DOk (tt, r) else if negb (byteb b) then DErr else mismatch b r
  end.
(* Decoder::simple: e0..f3 -> 0..19; f8 n -> n *)
Definition d_simple (bs : list Z) : dres (Z * list Z) :=
  match bs with
  | [] => DEoi
  | b :: r =>
    if (224 <=? b) && (b <=? 243) then DOk (b - 224, r)
    else if b =? 248 then
      match r with [] => DEoi | n :: r' => if byteb n then DOk (n, r') else DErr end
    else if negb (byteb b) then DErr else mismatch b r
  end.

(* ---- tag / array / map ---- *)
Definition d_tag (bs : list Z) : dres (Z * list Z) :=
  dbind (expect_arg (major_eqb MajTag) bs) (fun '(_, t, r) => DOk (t, r)).

(* Some n = definite with n elements; None = indefinite *)
Definition d_len (m : major) (bs : list Z) : dres (option Z * list Z) :=
  dbind (expect_head (major_eqb m) bs) (fun '(h, r) =>
    match h with HArg _ n => DOk (Some n, r) | HIndef => DOk (None, r) end).
Definition d_array := d_len MajArray.
Definition d_map := d_len MajMap.

(* ---- byte and text strings (definite only, as Decoder::bytes / Decoder::str) ---- *)
Definition d_bytes (bs : list Z) : dres (list Z * list Z) :=
  match bs with
  | [] => DEoi
  | b :: r0 =>
    if negb (byteb b) then DErr
    else if major_eqb (major_of_code (b / 32)) MajBytes && negb (b mod 32 =? 31) then
      dbind (expect_arg (major_eqb MajBytes) bs) (fun '(_, n, r) => take n r)
    else mismatch b r0
  end.
Definition d_str (bs : list Z) : dres (list Z * list Z) :=
  match bs with
  | [] => DEoi
  | b :: r0 =>
    if negb (byteb b) then DErr
    else if major_eqb (major_of_code (b / 32)) MajText && negb (b mod 32 =? 31) then
      dbind (expect_arg (major_eqb MajText) bs) (fun '(_, n, r) =>
        dbind (take n r) (fun '(s, r') => if utf8_valid s then DOk (s, r') else DErr))
    else mismatch b r0
  end.

(* ---- datatype ---- *)
Inductive ctype : Type :=
| TBool | TNull | TUndefined | TU8 | TU16 | TU32 | TU64 | TI8 | TI16 | TI32 | TI64 | TInt
| TF16 | TF32 | TF64 | TSimple | TBytes | TBytesIndef | TString | TStringIndef
| TArray | TArrayIndef | TMap | TMapIndef | TTag | TBreak | TUnknown.

Definition ctype_code (t : ctype) : Z :=
  match t with
  | TBool => 0 | TNull => 1 | TUndefined => 2 | TU8 => 3 | TU16 => 4 | TU32 => 5 | TU64 => 6
  | TI8 => 7 | TI16 => 8 | TI32 => 9 | TI64 => 10 | TInt => 11 | TF16 => 12 | TF32 => 13 | TF64 => 14
  | TSimple => 15 | TBytes => 16 | TBytesIndef => 17 | TString => 18 | TStringIndef => 19
  | TArray => 20 | TArrayIndef => 21 | TMap => 22 | TMapIndef => 23 | TTag => 24 | TBreak => 25
  | TUnknown => 26
  end.
Definition ctype_eqb (a b : ctype) : bool := ctype_code a =? ctype_code b.

(* Decoder::type_of for the byte [b] at the current position; [r] = the input after [b] *)
Definition type_of_byte (b : Z) (r : list Z) : dres ctype :=
  let small (lo hi : ctype) : dres ctype :=
    match r with [] => DEoi | n :: _ => if n <? 128 then DOk lo else DOk hi end in
  if negb (byteb b) then DErr
  else if b <=? 24 then DOk TU8 else if b =? 25 then DOk TU16 else if b =? 26 then DOk TU32
  else if b =? 27 then DOk TU64
  else if (32 <=? b) && (b <=? 55) then DOk TI8
  else if b =? 56 then small TI8 TI16 else if b =? 57 then small TI16 TI32
  else if b =? 58 then small TI32 TI64 else if b =? 59 then small TI64 TInt
  else if (64 <=? b) && (b <=? 91) then DOk TBytes else if b =? 95 then DOk TBytesIndef
  else if (96 <=? b) && (b <=? 123) then DOk TString else if b =? 127 then DOk TStringIndef
  else if (128 <=? b) && (b <=? 155) then DOk TArray else if b =? 159 then DOk TArrayIndef
  else if (160 <=? b) && (b <=? 187) then DOk TMap else if b =? 191 then DOk TMapIndef
  else if (192 <=? b) && (b <=? 219) then DOk TTag
  else if ((224 <=? b) && (b <=? 243)) || (b =? 248) then DOk TSimple
  else if (b =? 244) || (b =? 245) then DOk TBool
  else if b =? 246 then DOk TNull else if b =? 247 then DOk TUndefined
  else if b =? 249 then DOk TF16 else if b =? 250 then DOk TF32 else if b =? 251 then DOk TF64
  else if b =? 255 then DOk TBreak else DOk TUnknown.

(* Decoder::datatype: does not consume *)
Definition d_datatype (bs : list Z) : dres ctype :=
  match bs with [] => DEoi | b :: r => type_of_byte b r end.

(* ---- skip (as used by AnyCbor / Option::None / EmptyMap): see Skip.v for the exact
        transcription of minicbor's loop; on well-formed input it consumes one item ---- *)

(* ---- generic containers: Vec<T>::decode / the array_iter loop ---- *)
Definition d_vec {A} (dec : list Z -> dres (A * list Z)) (bs : list Z) : dres (list A * list Z) :=
  dbind (d_array bs) (fun '(l, r) =>
    match l with
    | Some n => seq_loop dec (budget r) n r
    | None => until_loop dec (budget r) r
    end).

(* Option<T>::decode: null -> None (consumed by skip = one byte f6) *)
Definition d_option {A} (dec : list Z -> dres (A * list Z)) (bs : list Z) : dres (option A * list Z) :=
  dbind (d_datatype bs) (fun t =>
    if ctype_eqb t TNull then DOk (None, tl bs)
    else dbind (dec bs) (fun '(x, r) => DOk (Some x, r))).

(* ---------------------------------------------------------------- encoder side *)
(* Encoder::{u8,u16,u32,u64}, array, map, tag, bytes_len write the shortest head *)
Definition e_uint (n : Z) : list Z := enc_head_min MajUInt n.
(* Encoder::{i64,int}: n >= 0 -> unsigned, else major 1 with argument -1-n *)
Definition e_int (n : Z) : list Z :=
  if 0 <=? n then enc_head_min MajUInt n else enc_head_min MajNInt (-1 - n).
Definition e_array (n : Z) : list Z := enc_head_min MajArray n.
Definition e_map (n : Z) : list Z := enc_head_min MajMap n.
Definition e_tag (t : Z) : list Z := enc_head_min MajTag t.
Definition e_bytes (b : list Z) : list Z := enc_head_min MajBytes (len b) ++ b.
Definition e_str (s : list Z) : list Z := enc_head_min MajText (len s) ++ s.
Definition e_bool (b : bool) : list Z := [if b then 245 else 244].
Definition e_null : list Z := [246].
Definition e_undefined : list Z := [247].
Definition e_begin_array : list Z := [159].
Definition e_begin_map : list Z := [191].
Definition e_end : list Z := [255].
Definition e_vec {A} (enc : A -> list Z) (xs : list A) : list Z :=
  e_array (len xs) ++ concat (map enc xs).

Definition u64_bound : Z := 18446744073709551616.

(* ---------------------------------------------------------------- laws *)
Lemma expect_head_enc ok m w n r :
  ok m = true -> arg_fits w n -> expect_head ok (enc_head m w n ++ r) = DOk (HArg w n, r).
Proof.
  intros Hok Hfit. pose proof (dec_head_enc m w n r Hfit) as Hd.
  destruct (enc_head_first m w n Hfit) as (b & t & E & Hb).
  rewrite E in *. cbn [app] in *. unfold expect_head.
  assert (Hm : major_of_code (b / 32) = m /\ byteb b = true).
  { unfold dec_head in Hd. destruct (byteb b); cbn [negb] in Hd; [|discriminate]. split; [|reflexivity].
    destruct (b mod 32 <? 24); [inversion Hd; reflexivity|].
    destruct (b mod 32 =? 31); [inversion Hd|].
    destruct (width_of_info (b mod 32)); [|discriminate].
    apply dbind_ok in Hd as ([a r'] & _ & Hd). inversion Hd; reflexivity. }
  destruct Hm as [Hm Hbb]. rewrite Hbb, Hm, Hok. cbn [negb]. rewrite Hd. reflexivity.
Qed.

Lemma expect_arg_enc ok m w n r :
  ok m = true -> arg_fits w n -> expect_arg ok (enc_head m w n ++ r) = DOk (w, n, r).
Proof. intros Hok Hfit. unfold expect_arg. rewrite expect_head_enc by assumption. reflexivity. Qed.

Lemma expect_head_sound ok bs h r :
  expect_head ok bs = DOk (h, r) -> exists m, ok m = true /\ dec_head bs = DOk (m, h, r).
Proof.
  unfold expect_head. destruct bs as [|b t]; [discriminate|].
  destruct (byteb b) eqn:Hb; cbn [negb]; [|discriminate].
  destruct (ok (major_of_code (b / 32))) eqn:Hok.
  - intros H. apply dbind_ok in H as ([[m h'] r'] & Hd & H). inversion H; subst; clear H.
    exists m. split; [|exact Hd].
    unfold dec_head in Hd. rewrite Hb in Hd. cbn [negb] in Hd.
    destruct (b mod 32 <? 24); [inversion Hd; subst; exact Hok|].
    destruct (b mod 32 =? 31); [inversion Hd; subst; exact Hok|].
    destruct (width_of_info (b mod 32)); [|discriminate].
    apply dbind_ok in Hd as ([a r''] & _ & Hd). inversion Hd; subst; exact Hok.
  - unfold mismatch. destruct ((56 <=? b) && (b <=? 59)); [destruct t as [|? [|? ?]]|]; discriminate.
Qed.

Lemma expect_arg_sound ok bs w n r :
  expect_arg ok bs = DOk (w, n, r) ->
  exists m, ok m = true /\ bs = enc_head m w n ++ r /\ arg_fits w n.
Proof.
  unfold expect_arg. intros H. apply dbind_ok in H as ([h r'] & He & H).
  destruct h as [w' n'|]; [|discriminate]. inversion H; subst; clear H.
  apply expect_head_sound in He as (m & Hok & Hd). apply dec_head_sound_arg in Hd as [-> Hfit].
  exists m. auto.
Qed.

(* unsigned *)
Lemma d_uint_enc bound w n r :
  arg_fits w n -> n < bound -> d_uint bound (enc_head MajUInt w n ++ r) = DOk (n, r).
Proof.
  intros Hfit Hb. unfold d_uint. rewrite expect_arg_enc; [|apply major_eqb_refl|exact Hfit].
  cbn [dbind]. destruct (n <? bound) eqn:E; [reflexivity|lia].
Qed.

Lemma d_uint_sound bound bs n r :
  d_uint bound bs = DOk (n, r) ->
  exists w, bs = enc_head MajUInt w n ++ r /\ arg_fits w n /\ n < bound.
Proof.
  unfold d_uint. intros H. apply dbind_ok in H as ([[w n'] r'] & He & H).
  destruct (n' <? bound) eqn:E; [|discriminate]. inversion H; subst; clear H.
  apply expect_arg_sound in He as (m & Hok & Hbs & Hfit). apply major_eqb_spec in Hok. subst m.
  exists w. repeat split; try assumption; try lia. apply Hfit. apply Hfit.
Qed.

Lemma d_u64_e_uint n r : 0 <= n < u64_bound -> d_u64 (e_uint n ++ r) = DOk (n, r).
Proof.
  intros H. unfold d_u64, e_uint, enc_head_min. apply d_uint_enc; [apply min_width_fits; exact H|].
  unfold u64_bound in H. lia.
Qed.

(* tag / array / map *)
Lemma d_tag_enc w t r : arg_fits w t -> d_tag (enc_head MajTag w t ++ r) = DOk (t, r).
Proof. intros H. unfold d_tag. rewrite expect_arg_enc; [reflexivity|apply major_eqb_refl|exact H]. Qed.

Lemma d_tag_sound bs t r :
  d_tag bs = DOk (t, r) -> exists w, bs = enc_head MajTag w t ++ r /\ arg_fits w t.
Proof.
  unfold d_tag. intros H. apply dbind_ok in H as ([[w t'] r'] & He & H). inversion H; subst; clear H.
  apply expect_arg_sound in He as (m & Hok & Hbs & Hfit). apply major_eqb_spec in Hok. subst m.
  exists w. auto.
Qed.

Lemma d_len_enc m w n r : arg_fits w n -> d_len m (enc_head m w n ++ r) = DOk (Some n, r).
Proof. intros H. unfold d_len. rewrite expect_head_enc; [reflexivity|apply major_eqb_refl|exact H]. Qed.

Lemma d_len_indef m r :
  (m = MajBytes \/ m = MajText \/ m = MajArray \/ m = MajMap) -> d_len m (enc_indef m ++ r) = DOk (None, r).
Proof.
  intros Hm. unfold d_len, expect_head, enc_indef. cbn [app].
  destruct (initial_byte m 31 ltac:(lia)) as (Hb & Hmm & Hi). rewrite Hb, Hmm, major_eqb_refl. cbn [negb].
  change ((major_code m * 32 + 31) :: r) with (enc_indef m ++ r). rewrite dec_head_indef. reflexivity.
Qed.

Lemma d_len_sound m bs l r :
  d_len m bs = DOk (l, r) ->
  match l with
  | Some n => exists w, bs = enc_head m w n ++ r /\ arg_fits w n
  | None => bs = enc_indef m ++ r
  end.
Proof.
  unfold d_len. intros H. apply dbind_ok in H as ([h r'] & He & H).
  apply expect_head_sound in He as (m' & Hok & Hd). apply major_eqb_spec in Hok. subst m'.
  destruct h as [w n|]; inversion H; subst; clear H.
  - apply dec_head_sound_arg in Hd. exists w. exact Hd.
  - apply dec_head_sound_indef in Hd. exact Hd.
Qed.

(* byte strings *)
Lemma d_bytes_enc w b r :
  arg_fits w (len b) -> bytes_wf b -> d_bytes (enc_head MajBytes w (len b) ++ b ++ r) = DOk (b, r).
Proof.
  intros Hfit Hb.
  pose proof (expect_arg_enc (major_eqb MajBytes) MajBytes w (len b) (b ++ r) (major_eqb_refl _) Hfit) as He.
  pose proof (dec_head_enc MajBytes w (len b) (b ++ r) Hfit) as Hd.
  destruct (enc_head_first MajBytes w (len b) Hfit) as (b0 & t & E & Hb0).
  rewrite E in *. cbn [app] in *. unfold d_bytes.
  unfold dec_head in Hd. destruct (byteb b0) eqn:Hbb; cbn [negb] in *; [|discriminate].
  assert (Hm : major_of_code (b0 / 32) = MajBytes /\ (b0 mod 32 =? 31) = false).
  { destruct (b0 mod 32 <? 24) eqn:E1; [inversion Hd; split; [reflexivity|lia]|].
    destruct (b0 mod 32 =? 31) eqn:E2; [inversion Hd|].
    destruct (width_of_info (b0 mod 32)); [|discriminate].
    apply dbind_ok in Hd as ([a r'] & _ & Hd). inversion Hd; auto. }
  destruct Hm as [Hm H31]. rewrite Hm, H31, major_eqb_refl. cbn [negb andb]. rewrite He. cbn [dbind]. apply take_app, Hb.
Qed.

Lemma d_bytes_sound bs b r :
  d_bytes bs = DOk (b, r) ->
  exists w, bs = enc_head MajBytes w (len b) ++ b ++ r /\ arg_fits w (len b) /\ bytes_wf b.
Proof.
  unfold d_bytes. destruct bs as [|b0 t]; [discriminate|].
  destruct (byteb b0); cbn [negb]; [|discriminate].
  destruct (major_eqb (major_of_code (b0 / 32)) MajBytes && negb (b0 mod 32 =? 31)).
  - intros H. apply dbind_ok in H as ([[w n] r'] & He & H).
    apply expect_arg_sound in He as (m & Hok & Hbs & Hfit). apply major_eqb_spec in Hok. subst m.
    apply take_sound in H as (-> & <- & Hwf); [|unfold arg_fits in Hfit; lia].
    exists w. auto.
  - unfold mismatch. destruct ((56 <=? b0) && (b0 <=? 59)); [destruct t as [|? [|? ?]]|]; discriminate.
Qed.

(* signed *)
Lemma e_int_d_i64 n r :
  -9223372036854775808 <= n < 9223372036854775808 -> d_i64 (e_int n ++ r) = DOk (n, r).
Proof.
  intros Hn. unfold e_int, d_i64, d_sint, enc_head_min.
  destruct (0 <=? n) eqn:Es.
  - assert (Hfit : arg_fits (min_width n) n) by (apply min_width_fits; lia).
    pose proof (expect_arg_enc is_int_major MajUInt _ n r eq_refl Hfit) as He.
    destruct (enc_head_first MajUInt (min_width n) n Hfit) as (b & t & E & Hb).
    pose proof (dec_head_enc MajUInt _ n r Hfit) as Hd.
    rewrite E in *. cbn [app] in *. rewrite He. cbn [dbind].
    destruct (n <? 9223372036854775808) eqn:E1; [|lia].
    assert (Hb32 : b < 32).
    { unfold enc_head in E. destruct (min_width n); inversion E; subst; cbn;
        unfold arg_fits in Hfit; cbn in Hfit; lia. }
    destruct (b <? 32) eqn:E2; [reflexivity|lia].
  - assert (Hfit : arg_fits (min_width (-1 - n)) (-1 - n)) by (apply min_width_fits; lia).
    pose proof (expect_arg_enc is_int_major MajNInt _ (-1 - n) r eq_refl Hfit) as He.
    destruct (enc_head_first MajNInt (min_width (-1 - n)) (-1 - n) Hfit) as (b & t & E & Hb).
    rewrite E in *. cbn [app] in *. rewrite He. cbn [dbind].
    destruct (-1 - n <? 9223372036854775808) eqn:E1; [|lia].
    assert (Hb32 : 32 <= b).
    { unfold enc_head in E. destruct (min_width (-1 - n)); inversion E; subst; cbn;
        unfold arg_fits in Hfit; cbn in Hfit; lia. }
    destruct (b <? 32) eqn:E2; [lia|]. f_equal. f_equal. lia.
Qed.

(* what d_sint returns is in range (the i8..i64 invariant) *)
Lemma d_sint_range half bs n r : 0 < half -> d_sint half bs = DOk (n, r) -> - half <= n < half.
Proof.
  intros Hh. unfold d_sint. destruct bs as [|b t]; [discriminate|].
  intros H. apply dbind_ok in H as ([[w n'] r'] & He & H).
  apply expect_arg_sound in He as (m & _ & _ & Hfit). unfold arg_fits in Hfit.
  destruct (n' <? half) eqn:E; [|discriminate].
  destruct (b <? 32); inversion H; subst; lia.
Qed.

Lemma d_uint_range bound bs n r : d_uint bound bs = DOk (n, r) -> 0 <= n < bound.
Proof.
  intros H. apply d_uint_sound in H as (w & _ & Hfit & Hb). unfold arg_fits in Hfit. lia.
Qed.

(* generic Vec<T> *)
Lemma d_vec_e_vec {A} (dec : list Z -> dres (A * list Z)) (enc : A -> list Z) xs r :
  Forall (fun x => (forall r, dec (enc x ++ r) = DOk (x, r)) /\ enc x <> []) xs ->
  len xs < u64_bound ->
  d_vec dec (e_vec enc xs ++ r) = DOk (xs, r).
Proof.
  intros Hxs Hlen. unfold d_vec, e_vec, e_array, enc_head_min, d_array.
  rewrite <- app_assoc, d_len_enc by (apply min_width_fits; pose proof (len_nonneg xs); unfold u64_bound in Hlen; lia).
  cbn [dbind].
  assert (Hdec : Forall (fun x => forall r, dec (enc x ++ r) = DOk (x, r)) xs)
    by (eapply Forall_impl; [|exact Hxs]; intros x [H _]; exact H).
  assert (Hne : Forall (fun x => enc x <> []) xs)
    by (eapply Forall_impl; [|exact Hxs]; intros x [_ H]; exact H).
  rewrite (seq_loop_complete dec enc xs Hdec); [reflexivity|].
  apply (budget_app_ge enc xs r) in Hne. lia.
Qed.

(* ---------------------------------------------------------------- maps *)
(* the map_iter loop: (key, value) pairs of a definite or indefinite map, in wire order *)
Definition d_map_pairs {K V} (dk : list Z -> dres (K * list Z)) (dv : list Z -> dres (V * list Z))
  (bs : list Z) : dres (list (K * V) * list Z) :=
  dbind (d_map bs) (fun '(l, r) =>
    match l with
    | Some n => seq_loop (pair_dec dk dv) (budget r) n r
    | None => until_loop (pair_dec dk dv) (budget r) r
    end).

(* BTreeMap<K,V> as a strictly sorted association list; [insert] replaces the value of an equal key *)
Fixpoint bt_insert {K V} (cmp : K -> K -> comparison) (k : K) (v : V) (l : list (K * V)) : list (K * V) :=
  match l with
  | [] => [(k, v)]
  | (k', v') :: t =>
    match cmp k k' with
    | Lt => (k, v) :: l
    | Eq => (k', v) :: t
    | Gt => (k', v') :: bt_insert cmp k v t
    end
  end.
Definition bt_of_list {K V} (cmp : K -> K -> comparison) (l : list (K * V)) : list (K * V) :=
  fold_left (fun m kv => bt_insert cmp (fst kv) (snd kv) m) l [].

(* Ord on Vec<u8> / [u8; N]: lexicographic, a proper prefix is smaller *)
Fixpoint bytes_cmp (a b : list Z) : comparison :=
  match a, b with
  | [], [] => Eq
  | [], _ :: _ => Lt
  | _ :: _, [] => Gt
  | x :: a', y :: b' => match x ?= y with Eq => bytes_cmp a' b' | c => c end
  end.

(* BTreeMap<K,V>::decode *)
Definition d_btreemap {K V} (cmp : K -> K -> comparison)
  (dk : list Z -> dres (K * list Z)) (dv : list Z -> dres (V * list Z)) (bs : list Z)
  : dres (list (K * V) * list Z) :=
  dbind (d_map_pairs dk dv bs) (fun '(l, r) => DOk (bt_of_list cmp l, r)).

Lemma bt_insert_values {K V} (cmp : K -> K -> comparison) (P : V -> Prop) k v l :
  P v -> Forall (fun kv => P (snd kv)) l -> Forall (fun kv => P (snd kv)) (bt_insert cmp k v l).
Proof.
  intros Hv. induction 1 as [|[k' v'] t Hkv Ht IH]; cbn [bt_insert].
  - constructor; [exact Hv|constructor].
  - destruct (cmp k k').
    + constructor; [exact Hv|exact Ht].
    + constructor; [exact Hv|]. constructor; assumption.
    + constructor; [exact Hkv|exact IH].
Qed.

Lemma bt_of_list_values {K V} (cmp : K -> K -> comparison) (P : V -> Prop) l :
  Forall (fun kv => P (snd kv)) l -> Forall (fun kv => P (snd kv)) (bt_of_list cmp l).
Proof.
  unfold bt_of_list. assert (Hacc : Forall (fun kv : K * V => P (snd kv)) []) by constructor.
  revert Hacc. generalize (@nil (K * V)) as acc.
  induction l as [|[k v] t IH]; intros acc Hacc Hl; cbn [fold_left]; [exact Hacc|].
  inversion Hl; subst. apply IH; [|assumption]. apply bt_insert_values; assumption.
Qed.

(* whatever the loops return was produced by the element decoder *)
Lemma seq_loop_Forall {A} (dec : list Z -> dres (A * list Z)) (P : A -> Prop) :
  (forall bs x r, dec bs = DOk (x, r) -> P x) ->
  forall k n bs xs r, seq_loop dec k n bs = DOk (xs, r) -> Forall P xs.
Proof.
  intros Hd. induction k as [|k IH]; intros n bs xs r H; cbn [seq_loop] in H.
  - destruct (n <=? 0); [inversion H; constructor|discriminate].
  - destruct (n <=? 0); [inversion H; constructor|].
    apply dbind_ok in H as ([x r1] & Hx & H). apply dbind_ok in H as ([l' r2] & Hl & H).
    inversion H; subst. constructor; [eapply Hd, Hx|eapply IH, Hl].
Qed.

Lemma until_loop_Forall {A} (dec : list Z -> dres (A * list Z)) (P : A -> Prop) :
  (forall bs x r, dec bs = DOk (x, r) -> P x) ->
  forall k bs xs r, until_loop dec k bs = DOk (xs, r) -> Forall P xs.
Proof.
  intros Hd. induction k as [|k IH]; intros bs xs r H; cbn [until_loop] in H; [discriminate|].
  destruct bs as [|b t]; [discriminate|]. destruct (b =? break_byte); [inversion H; constructor|].
  apply dbind_ok in H as ([x r1] & Hx & H). apply dbind_ok in H as ([l' r2] & Hl & H).
  inversion H; subst. constructor; [eapply Hd, Hx|eapply IH, Hl].
Qed.

(* every value of a decoded map was produced by the value decoder *)
Lemma d_map_pairs_values {K V} dk dv (P : V -> Prop) bs (l : list (K * V)) r :
  (forall bs v r, dv bs = DOk (v, r) -> P v) ->
  d_map_pairs dk dv bs = DOk (l, r) -> Forall (fun kv => P (snd kv)) l.
Proof.
  intros Hv H. unfold d_map_pairs in H. apply dbind_ok in H as ([n r0] & _ & H).
  assert (Hp : forall bs kv r, pair_dec dk dv bs = DOk (kv, r) -> P (snd kv)).
  { intros bs' [k v] r' Hp. unfold pair_dec in Hp. apply dbind_ok in Hp as ([k' r1] & _ & Hp).
    apply dbind_ok in Hp as ([v' r2] & Hv' & Hp). inversion Hp; subst. cbn. eapply Hv, Hv'. }
  destruct n as [n|].
  - eapply seq_loop_Forall; [exact Hp|exact H].
  - eapply until_loop_Forall; [exact Hp|exact H].
Qed.

Lemma d_btreemap_values {K V} cmp dk dv (P : V -> Prop) bs (m : list (K * V)) r :
  (forall bs v r, dv bs = DOk (v, r) -> P v) ->
  d_btreemap cmp dk dv bs = DOk (m, r) -> Forall (fun kv => P (snd kv)) m.
Proof.
  intros Hv H. unfold d_btreemap in H. apply dbind_ok in H as ([l r0] & Hl & H). inversion H; subst.
  apply bt_of_list_values. eapply d_map_pairs_values; eassumption.
Qed.
