From PV Require Import Lib.Base Cbor.Item Cbor.Enc Cbor.Dec Cbor.HeadLaws Cbor.Laws Cbor.Api C04.Model.
Open Scope Z_scope.

(* ---- NonZeroInt ---- *)
Lemma nonzero_int_in_range bs v r : dec_nonzero_int bs = DOk (v, r) -> inv_nonzero_int v.
Proof.
  unfold dec_nonzero_int. intros H. apply dbind_ok in H as ([n r'] & Hd & H).
  destruct (n =? 0) eqn:E; [discriminate|]. inversion H; subst; clear H.
  apply d_sint_range in Hd; [|lia]. unfold inv_nonzero_int. lia.
Qed.

Lemma arg_fits_zero w : arg_fits w 0.
Proof. unfold arg_fits. destruct w; cbn; lia. Qed.

(* zero, in every head width (00, 18 00, 19 0000, 1a .., 1b ..), is rejected with an error *)
Lemma nonzero_int_rejects_zero w r : dec_nonzero_int (enc_head MajUInt w 0 ++ r) = DErr.
Proof.
  unfold dec_nonzero_int, d_i64, d_sint.
  pose proof (arg_fits_zero w) as Hfit.
  pose proof (expect_arg_enc is_int_major MajUInt w 0 r eq_refl Hfit) as He.
  destruct (enc_head_first MajUInt w 0 Hfit) as (b & t & E & Hb).
  assert (Hb32 : b < 32) by (unfold enc_head in E; destruct w; inversion E; subst; cbn; lia).
  rewrite E in *. cbn [app] in *. rewrite He. cbn [dbind].
  destruct (b <? 32) eqn:E2; [reflexivity|lia].
Qed.

(* every value of the declared range is accepted (so the decoder is not vacuous) *)
Lemma nonzero_int_accepts v r : inv_nonzero_int v -> dec_nonzero_int (enc_nonzero_int v ++ r) = DOk (v, r).
Proof.
  intros [Hr Hz]. unfold dec_nonzero_int, enc_nonzero_int. rewrite e_int_d_i64 by lia. cbn [dbind].
  destruct (v =? 0) eqn:E; [lia|reflexivity].
Qed.

(* ---- embeddings: every quantity of a decoded multiasset came out of the quantity decoder ---- *)
Lemma multiasset_quantities dq (P : Z -> Prop) bs m r :
  (forall bs v r, dq bs = DOk (v, r) -> P v) ->
  dec_multiasset dq bs = DOk (m, r) -> Forall P (quantities m).
Proof.
  intros Hq H. unfold dec_multiasset in H.
  apply (d_btreemap_values bytes_cmp dec_hash28 _ (fun inner => Forall (fun kv => P (snd kv)) inner)) in H.
  - unfold quantities. induction H as [|[pid inner] t Hin _ IH]; cbn [flat_map]; [constructor|].
    apply Forall_app. split; [|exact IH]. cbn [snd] in *.
    induction Hin as [|[nm q] t' Hq' _ IH']; cbn [map]; constructor; auto.
  - intros bs' inner r' Hinner. eapply d_btreemap_values; [|exact Hinner]. exact Hq.
Qed.

Lemma mint_in_range bs m r : dec_mint bs = DOk (m, r) -> Forall inv_nonzero_int (quantities m).
Proof. apply multiasset_quantities. apply nonzero_int_in_range. Qed.

Lemma value_quantities_from (dq_ok : Z -> Prop) bs v r :
  (forall bs v r, dec_positive_coin bs = DOk (v, r) -> dq_ok v) ->
  dec_value bs = DOk (v, r) -> Forall dq_ok (value_quantities v).
Proof.
  intros Hq H. unfold dec_value in H. apply dbind_ok in H as (t & _ & H).
  destruct (ctype_eqb t TArray).
  - apply dbind_ok in H as ([l r0] & _ & H). apply dbind_ok in H as ([c r1] & _ & H).
    apply dbind_ok in H as ([m r2] & Hm & H). inversion H; subst. cbn [value_quantities].
    eapply multiasset_quantities; [exact Hq|exact Hm].
  - destruct (is_uint_type t); [|discriminate].
    apply dbind_ok in H as ([c r1] & _ & H). inversion H; subst. constructor.
Qed.

Lemma donation_from (dq_ok : Z -> Prop) bs v r :
  (forall bs v r, dec_positive_coin bs = DOk (v, r) -> dq_ok v) ->
  dec_donation bs = DOk (Some v, r) -> dq_ok v.
Proof.
  intros Hq H. unfold dec_donation, d_option in H. apply dbind_ok in H as (t & _ & H).
  destruct (ctype_eqb t TNull); [discriminate|].
  apply dbind_ok in H as ([x r1] & Hx & H). inversion H; subst. eapply Hq, Hx.
Qed.

(* ---- PositiveCoin ---- *)
Lemma positive_coin_in_range bs v r : dec_positive_coin bs = DOk (v, r) -> inv_positive_coin v.
Proof.
  unfold dec_positive_coin. intros H. apply dbind_ok in H as ([n r'] & Hd & H).
  destruct (n =? 0) eqn:E; [discriminate|]. inversion H; subst; clear H.
  apply d_uint_range in Hd. unfold inv_positive_coin. lia.
Qed.

Lemma positive_coin_rejects_zero w r : dec_positive_coin (enc_head MajUInt w 0 ++ r) = DErr.
Proof.
  unfold dec_positive_coin, d_u64. rewrite d_uint_enc; [reflexivity|apply arg_fits_zero|lia].
Qed.

Lemma positive_coin_accepts v r :
  inv_positive_coin v -> dec_positive_coin (enc_positive_coin v ++ r) = DOk (v, r).
Proof.
  intros Hv. unfold dec_positive_coin, enc_positive_coin, inv_positive_coin in *.
  rewrite d_u64_e_uint by (unfold u64_bound; lia). cbn [dbind].
  destruct (v =? 0) eqn:E; [lia|reflexivity].
Qed.

(* the tree before the repair accepted zero *)
Lemma positive_coin_zero_was_accepted : dec_positive_coin_before_fix [0] = DOk (0, []).
Proof. vm_compute. reflexivity. Qed.

Lemma value_in_range bs v r : dec_value bs = DOk (v, r) -> Forall inv_positive_coin (value_quantities v).
Proof. apply value_quantities_from. apply positive_coin_in_range. Qed.

Lemma donation_in_range bs v r : dec_donation bs = DOk (Some v, r) -> inv_positive_coin v.
Proof. apply donation_from. apply positive_coin_in_range. Qed.

(* ---- checked constructors establish the same invariants ---- *)
Lemma positive_coin_ctor v c :
  0 <= v <= 18446744073709551615 -> positive_coin_try_from v = Some c -> c = v /\ inv_positive_coin c.
Proof.
  unfold positive_coin_try_from, inv_positive_coin. intros Hv. destruct (v =? 0) eqn:E; [discriminate|].
  intros H; inversion H; subst. lia.
Qed.

Lemma nonzero_int_ctor v c :
  -9223372036854775808 <= v <= 9223372036854775807 -> nonzero_int_try_from v = Some c ->
  c = v /\ inv_nonzero_int c.
Proof.
  unfold nonzero_int_try_from, inv_nonzero_int. intros Hv. destruct (v =? 0) eqn:E; [discriminate|].
  intros H; inversion H; subst. lia.
Qed.

