(* C27 — property theorems. Statements are pinned by props/C27.json. *)
From PV Require Import Lib.Base C27.Model C27.Proofs C27.Flagged.
Open Scope Z_scope.

Definition wf_cfg (c : cfg) : Prop := 0 <= max_peers c /\ 0 <= max_warm c /\ 0 <= max_hot c.

(* the invariant holds initially *)
Theorem inv_init : forall c, wf_cfg c -> Inv c init.
Proof. intros c (H1 & H2 & H3). apply (good_init c H2 H3 H1). Qed.

(* the invariant (with its tag companion) is preserved by every command / interface event *)
Theorem inv_step : forall c st e st' out,
  Inv c st /\ TagInv st -> step c st e = Ok (st', out) -> Inv c st' /\ TagInv st'.
Proof. intros c st e st' out G H. exact (proj1 (step_good c st e st' out G H)). Qed.

(* ... hence by every history, from the initial state: the cold, warm, hot and banned
   sets are pairwise disjoint and within their limits in every reachable state *)
Theorem inv_reachable : forall c evs st, wf_cfg c -> state_after c evs = Some st -> Inv c st.
Proof.
  intros c evs st (H1 & H2 & H3) H. unfold state_after in H.
  destruct (run c init evs) as [[st1 outs]| |] eqn:E; inversion H; subst.
  exact (proj1 (proj1 (run_good c evs init st outs (good_init c H2 H3 H1) E))).
Qed.

(* once a peer is in the banned set, no later step of any continuation emits Connect for it *)
Theorem banned_never_connected : forall c evs1 evs2 st1 outs1 st2 outs2 p,
  wf_cfg c ->
  run c init evs1 = Ok (st1, outs1) -> In p (banned (pr st1)) ->
  run c st1 evs2 = Ok (st2, outs2) ->
  forall out, In out outs2 -> ~ In (OConnect p) out.
Proof.
  intros c evs1 evs2 st1 outs1 st2 outs2 p (H1 & H2 & H3) R1 B R2 out Hin.
  pose proof (run_good c evs1 init st1 outs1 (good_init c H2 H3 H1) R1) as (G1 & _).
  pose proof (run_good c evs2 st1 st2 outs2 G1 R2) as (_ & _ & N).
  exact (N p out B Hin).
Qed.

(* the banned set never shrinks *)
Theorem banned_monotone : forall c evs st st' outs p,
  wf_cfg c -> state_after c evs = Some st ->
  forall evs2, run c st evs2 = Ok (st', outs) -> In p (banned (pr st)) -> In p (banned (pr st')).
Proof.
  intros c evs st st' outs p (H1 & H2 & H3) H evs2 R B. unfold state_after in H.
  destruct (run c init evs) as [[st1 o1]| |] eqn:E; inversion H; subst.
  pose proof (run_good c evs init st o1 (good_init c H2 H3 H1) E) as (G1 & _).
  pose proof (run_good c evs2 st st' outs G1 R) as (_ & BM & _). exact (BM p B).
Qed.

(* the three ban causes put the peer into the banned set *)
Theorem ban_command_bans : forall c st p st' out, step c st (EBan p) = Ok (st', out) -> In p (banned (pr st')).
Proof. exact ban_command_in. Qed.

Theorem violation_bans : forall c st p s m st' out,
  Inv c st /\ TagInv st -> lookup p (peers st) = Some s -> viol (apply_msg s m) = true ->
  step c st (ERecv p [m]) = Ok (st', out) -> In p (banned (pr st')).
Proof. exact violation_in. Qed.

Theorem flagged_peer_banned_when_categorized : forall c p pr0 s pr1 s1,
  PInv c pr0 -> viol s = true \/ errc s > max_err c ->
  categorize c p pr0 s = Ok (pr1, s1) -> In p (banned pr1).
Proof. exact categorize_flagged. Qed.

(* a peer that is already banned, or whose violation flag is set, or whose error count exceeds the
   threshold (it will be banned the next time it is categorised) is not connected by the next step,
   whatever that step is: the promotion visitor runs before the connection visitor in every pass *)
Theorem flagged_peer_never_connected : forall c st e st' out p,
  Inv c st /\ TagInv st -> doomed c st p -> step c st e = Ok (st', out) -> ~ In (OConnect p) out.
Proof. exact flagged_never_connected. Qed.

(* non-vacuity: a history that fills warm, hot and banned, emits Connect, and satisfies the invariant *)
Definition cfgB := mkCfg 3 2 1 1.
Definition demo : list event :=
  [EInclude 1; EInclude 2; EInclude 3; EHousekeeping [] []; EConnected 1;
   ESent 1 (HsPropose [(13, 764824073)]); ERecv 1 [HsAccept 13 1]; EBan 3; EHousekeeping [] [];
   EConnected 2; ERecv 2 [KaResponse 42]; EHousekeeping [] []].
Example demo_runs :
  wf_cfg cfgB /\
  match run cfgB init demo with
  | Ok (st, outs) => invb cfgB st = true /\ hot (pr st) = [1] /\ banned (pr st) = [3; 2] /\
                     existsb (connects 1) outs = true /\ existsb (connects 3) outs = false
  | _ => False
  end.
Proof. split; [unfold wf_cfg, cfgB; cbn; lia | vm_compute; repeat split; reflexivity]. Qed.
