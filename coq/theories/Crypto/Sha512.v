(* FIPS 180-4 SHA-512, executable on Z words.  Definitions only.
   Words are Z in [0, 2^64); additions reduced mod 2^64 explicitly ([add64]).
   Specification level: cryptoxide's Sha512 is tied to it only through the
   Ed25519 differential run (C11) and the FIPS test vectors in C11/Props.v. *)
From PV Require Import Lib.Base.
Open Scope Z_scope.

Definition mask64 : Z := 18446744073709551615.
Definition add64 (a b : Z) : Z := Z.land (a + b) mask64.      (* (a + b) mod 2^64 *)
Definition rotr64 (x r : Z) : Z := Z.lor (Z.shiftr x r) (Z.land (Z.shiftl x (64 - r)) mask64).
Definition not64 (x : Z) : Z := Z.lxor x mask64.

Definition K512 : list Z := [
    0x428a2f98d728ae22; 0x7137449123ef65cd; 0xb5c0fbcfec4d3b2f; 0xe9b5dba58189dbbc;
    0x3956c25bf348b538; 0x59f111f1b605d019; 0x923f82a4af194f9b; 0xab1c5ed5da6d8118;
    0xd807aa98a3030242; 0x12835b0145706fbe; 0x243185be4ee4b28c; 0x550c7dc3d5ffb4e2;
    0x72be5d74f27b896f; 0x80deb1fe3b1696b1; 0x9bdc06a725c71235; 0xc19bf174cf692694;
    0xe49b69c19ef14ad2; 0xefbe4786384f25e3; 0x0fc19dc68b8cd5b5; 0x240ca1cc77ac9c65;
    0x2de92c6f592b0275; 0x4a7484aa6ea6e483; 0x5cb0a9dcbd41fbd4; 0x76f988da831153b5;
    0x983e5152ee66dfab; 0xa831c66d2db43210; 0xb00327c898fb213f; 0xbf597fc7beef0ee4;
    0xc6e00bf33da88fc2; 0xd5a79147930aa725; 0x06ca6351e003826f; 0x142929670a0e6e70;
    0x27b70a8546d22ffc; 0x2e1b21385c26c926; 0x4d2c6dfc5ac42aed; 0x53380d139d95b3df;
    0x650a73548baf63de; 0x766a0abb3c77b2a8; 0x81c2c92e47edaee6; 0x92722c851482353b;
    0xa2bfe8a14cf10364; 0xa81a664bbc423001; 0xc24b8b70d0f89791; 0xc76c51a30654be30;
    0xd192e819d6ef5218; 0xd69906245565a910; 0xf40e35855771202a; 0x106aa07032bbd1b8;
    0x19a4c116b8d2d0c8; 0x1e376c085141ab53; 0x2748774cdf8eeb99; 0x34b0bcb5e19b48a8;
    0x391c0cb3c5c95a63; 0x4ed8aa4ae3418acb; 0x5b9cca4f7763e373; 0x682e6ff3d6b2b8a3;
    0x748f82ee5defb2fc; 0x78a5636f43172f60; 0x84c87814a1f0ab72; 0x8cc702081a6439ec;
    0x90befffa23631e28; 0xa4506cebde82bde9; 0xbef9a3f7b2c67915; 0xc67178f2e372532b;
    0xca273eceea26619c; 0xd186b8c721c0c207; 0xeada7dd6cde0eb1e; 0xf57d4f7fee6ed178;
    0x06f067aa72176fba; 0x0a637dc5a2c898a6; 0x113f9804bef90dae; 0x1b710b35131c471b;
    0x28db77f523047d84; 0x32caab7b40c72493; 0x3c9ebe0a15c9bebc; 0x431d67c49c100d4c;
    0x4cc5d4becb3e42b6; 0x597f299cfc657e2a; 0x5fcb6fab3ad6faec; 0x6c44198c4a475817 ].

Definition H512 : list Z := [ 0x6a09e667f3bcc908; 0xbb67ae8584caa73b; 0x3c6ef372fe94f82b; 0xa54ff53a5f1d36f1; 0x510e527fade682d1; 0x9b05688c2b3e6c1f; 0x1f83d9abfb41bd6b; 0x5be0cd19137e2179 ].

Definition Ch (x y z : Z) : Z := Z.lxor (Z.land x y) (Z.land (not64 x) z).
Definition Maj (x y z : Z) : Z := Z.lxor (Z.lxor (Z.land x y) (Z.land x z)) (Z.land y z).
Definition Sig0 (x : Z) : Z := Z.lxor (Z.lxor (rotr64 x 28) (rotr64 x 34)) (rotr64 x 39).
Definition Sig1 (x : Z) : Z := Z.lxor (Z.lxor (rotr64 x 14) (rotr64 x 18)) (rotr64 x 41).
Definition sig0 (x : Z) : Z := Z.lxor (Z.lxor (rotr64 x 1) (rotr64 x 8)) (Z.shiftr x 7).
Definition sig1 (x : Z) : Z := Z.lxor (Z.lxor (rotr64 x 19) (rotr64 x 61)) (Z.shiftr x 6).

(* big-endian words *)
Definition be_word (bs : list Z) : Z := fold_left (fun acc b => acc * 256 + b) bs 0.
Fixpoint be_words (n : nat) (bs : list Z) : list Z :=
  match n with
  | O => []
  | S n' => be_word (firstn 8 bs) :: be_words n' (skipn 8 bs)
  end.
Fixpoint word_be_bytes (n : nat) (w : Z) : list Z :=
  match n with
  | O => []
  | S n' => word_be_bytes n' (Z.shiftr w 8) ++ [Z.land w 255]
  end.

Definition hstate : Type := (Z * Z * Z * Z * (Z * Z * Z * Z))%type.

(* one round; [w] is the sliding window W[t .. t+15] of the message schedule *)
Definition sha_round (st : hstate * list Z) (k : Z) : hstate * list Z :=
  let '((a, b, c, d, (e, f, g, h)), w) := st in
  let wt := nth 0 w 0 in
  let t1 := add64 (add64 (add64 (add64 h (Sig1 e)) (Ch e f g)) k) wt in
  let t2 := add64 (Sig0 a) (Maj a b c) in
  (* W[t+16] = sig1(W[t+14]) + W[t+9] + sig0(W[t+1]) + W[t] *)
  let wn := add64 (add64 (add64 (sig1 (nth 14 w 0)) (nth 9 w 0)) (sig0 (nth 1 w 0))) wt in
  ((add64 t1 t2, a, b, c, (add64 d t1, e, f, g)), tl w ++ [wn]).

Definition sha_block (hs : list Z) (blk : list Z) : list Z :=
  let hh i := nth i hs 0 in
  let st0 : hstate := (hh 0%nat, hh 1%nat, hh 2%nat, hh 3%nat, (hh 4%nat, hh 5%nat, hh 6%nat, hh 7%nat)) in
  let '((a, b, c, d, (e, f, g, h)), _) := fold_left sha_round K512 (st0, be_words 16 blk) in
  [ add64 (hh 0%nat) a; add64 (hh 1%nat) b; add64 (hh 2%nat) c; add64 (hh 3%nat) d;
    add64 (hh 4%nat) e; add64 (hh 5%nat) f; add64 (hh 6%nat) g; add64 (hh 7%nat) h ].

(* padding: 0x80, zeros up to 112 mod 128, then the bit length as a 128-bit big-endian integer *)
Definition sha_pad (msg : list Z) : list Z :=
  let l := Z.of_nat (length msg) in
  msg ++ [128] ++ repeat 0 (Z.to_nat ((111 - l) mod 128)) ++ word_be_bytes 16 (8 * l).

Fixpoint sha_blocks (fuel : nat) (hs : list Z) (m : list Z) : list Z :=
  match fuel with
  | O => hs
  | S f => match m with
           | [] => hs
           | _ => sha_blocks f (sha_block hs (firstn 128 m)) (skipn 128 m)
           end
  end.

Definition sha512 (msg : list Z) : list Z :=
  let m := sha_pad msg in
  flat_map (word_be_bytes 8) (sha_blocks (S (length m / 128)) H512 m).
