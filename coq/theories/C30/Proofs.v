(* C30 proofs. *)
From PV Require Import Lib.Base C30.Model.
Open Scope Z_scope.

Local Ltac Zify.zify_post_hook ::= idtac.

(* ---- filter_map over an index range ---- *)
Lemma filter_map_app {X Y} (f : X -> option Y) l1 l2 :
  filter_map f (l1 ++ l2) = filter_map f l1 ++ filter_map f l2.
Proof.
  induction l1 as [|x r IH]; cbn [filter_map app]; [reflexivity|].
  destruct (f x); rewrite IH; reflexivity.
Qed.

Lemma filter_map_none {X Y} (f : X -> option Y) l :
  (forall x, In x l -> f x = None) -> filter_map f l = [].
Proof.
  induction l as [|x r IH]; intros H; cbn [filter_map]; [reflexivity|].
  rewrite (H x (or_introl eq_refl)). apply IH. intros z Hz. apply H. right. exact Hz.
Qed.

Lemma filter_map_length_some {X Y} (f : X -> option Y) l :
  (forall x, In x l -> f x <> None) -> length (filter_map f l) = length l.
Proof.
  induction l as [|x r IH]; intros H; cbn [filter_map length]; [reflexivity|].
  destruct (f x) as [fx|] eqn:E; [|exfalso; exact (H x (or_introl eq_refl) E)].
  cbn [length]. f_equal. apply IH. intros z Hz. apply H. right. exact Hz.
Qed.

Lemma filter_map_nth_some {X Y} (f : X -> option Y) l i :
  (forall x, In x l -> f x <> None) ->
  nth_error (filter_map f l) i = match nth_error l i with Some x => f x | None => None end.
Proof.
  revert i. induction l as [|x r IH]; intros i H; cbn [filter_map].
  - destruct i; reflexivity.
  - destruct (f x) as [fx|] eqn:E; [|exfalso; exact (H x (or_introl eq_refl) E)].
    destruct i as [|i]; cbn [nth_error]; [symmetry; exact E|].
    apply IH. intros z Hz. apply H. right. exact Hz.
Qed.

Section Blocks.
Context {A B C : Type}.
Notation sblock := (sblock A B C).
Notation mblock := (mblock A B C).

Lemma clone_tx_at_none (b : sblock) i :
  (length (wits b) <= i)%nat \/ (length (bodies b) <= i)%nat -> clone_tx_at b i = None.
Proof.
  intros H. unfold clone_tx_at.
  destruct (nth_error (bodies b) i) eqn:E1; [|reflexivity].
  destruct (nth_error (wits b) i) eqn:E2; [|reflexivity].
  exfalso. destruct H as [H|H].
  - apply nth_error_None in H. congruence.
  - apply nth_error_None in H. congruence.
Qed.

Lemma clone_tx_at_some (b : sblock) i :
  (i < length (bodies b))%nat -> (i < length (wits b))%nat -> clone_tx_at b i <> None.
Proof.
  intros H1 H2. unfold clone_tx_at.
  destruct (nth_error (bodies b) i) eqn:E1; [|apply nth_error_None in E1; lia].
  destruct (nth_error (wits b) i) eqn:E2; [|apply nth_error_None in E2; lia].
  discriminate.
Qed.

(* the number of traversed transactions *)
Lemma clone_txs_length (b : sblock) :
  length (clone_txs b) = Nat.min (length (bodies b)) (length (wits b)).
Proof.
  unfold clone_txs. set (n := length (bodies b)). set (w := length (wits b)).
  replace n with (Nat.min n w + (n - Nat.min n w))%nat at 1 by lia.
  rewrite seq_app, filter_map_app, app_length.
  rewrite filter_map_length_some, seq_length.
  - rewrite filter_map_none; [cbn [length]; lia|].
    intros i Hi. apply in_seq in Hi. apply clone_tx_at_none. fold w. fold n. lia.
  - intros i Hi. apply in_seq in Hi. apply clone_tx_at_some; fold n; fold w; lia.
Qed.

Definition invalid_mem (b : sblock) (i : Z) : bool :=
  match invalid b with Some l => existsb (Z.eqb i) l | None => false end.

Lemma u32_small i : 0 <= i < 2 ^ 32 -> u32 i = i.
Proof. intros H. unfold u32. apply Z.mod_small. exact H. Qed.

Lemma clone_txs_nth (b : sblock) i body w :
  (length (bodies b) <= length (wits b))%nat ->
  Z.of_nat (length (bodies b)) <= 2 ^ 32 ->
  nth_error (bodies b) i = Some body -> nth_error (wits b) i = Some w ->
  nth_error (clone_txs b) i =
    Some (body, w, negb (invalid_mem b (Z.of_nat i)), aux_lookup (Z.of_nat i) (aux b)).
Proof.
  intros HL H32 Hb Hw. unfold clone_txs.
  assert (Hi : (i < length (bodies b))%nat) by (apply nth_error_Some; congruence).
  rewrite filter_map_nth_some.
  - rewrite nth_error_nth' with (d := O) by (rewrite seq_length; exact Hi).
    rewrite seq_nth by exact Hi. cbn [Nat.add].
    unfold clone_tx_at. rewrite Hb, Hw. rewrite u32_small by lia. reflexivity.
  - intros k Hk. apply in_seq in Hk. apply clone_tx_at_some; lia.
Qed.

(* and nothing else: every traversed transaction is one of those *)
Lemma clone_txs_nth_inv (b : sblock) i t :
  (length (bodies b) <= length (wits b))%nat ->
  Z.of_nat (length (bodies b)) <= 2 ^ 32 ->
  nth_error (clone_txs b) i = Some t ->
  exists body w, nth_error (bodies b) i = Some body /\ nth_error (wits b) i = Some w /\
    t = (body, w, negb (invalid_mem b (Z.of_nat i)), aux_lookup (Z.of_nat i) (aux b)).
Proof.
  intros HL H32 Ht.
  assert (Hi : (i < length (clone_txs b))%nat) by (apply nth_error_Some; congruence).
  rewrite clone_txs_length in Hi.
  destruct (nth_error (bodies b) i) as [body|] eqn:Eb; [|apply nth_error_None in Eb; lia].
  destruct (nth_error (wits b) i) as [w|] eqn:Ew; [|apply nth_error_None in Ew; lia].
  exists body, w. split; [reflexivity|]. split; [reflexivity|].
  rewrite (clone_txs_nth b i body w HL H32 Eb Ew) in Ht. congruence.
Qed.

Lemma invalid_mem_spec (b : sblock) i :
  invalid_mem b i = true <-> exists l, invalid b = Some l /\ In i l.
Proof.
  unfold invalid_mem. destruct (invalid b) as [l|].
  - rewrite existsb_exists. split.
    + intros (x & Hx & E). apply Z.eqb_eq in E. subst. exists l. auto.
    + intros (l' & E & Hin). inversion E; subst. exists i. split; [assumption|apply Z.eqb_refl].
  - split; [discriminate|]. intros (l & E & _). discriminate.
Qed.

Lemma aux_lookup_In i (l : list (Z * C)) c : aux_lookup i l = Some c -> In (i, c) l.
Proof.
  induction l as [|[k x] r IH]; cbn [aux_lookup]; [discriminate|].
  destruct (k =? i) eqn:E.
  - apply Z.eqb_eq in E. subst. intros H. inversion H. left. reflexivity.
  - intros H. right. apply IH, H.
Qed.

Lemma aux_lookup_unique i (l : list (Z * C)) c :
  NoDup (map fst l) -> In (i, c) l -> aux_lookup i l = Some c.
Proof.
  induction l as [|[k x] r IH]; cbn [aux_lookup map fst In]; [tauto|].
  intros ND H. inversion ND as [|? ? Hk Hr]; subst.
  destruct H as [H|H].
  - inversion H; subst. rewrite Z.eqb_refl. reflexivity.
  - destruct (k =? i) eqn:E.
    + apply Z.eqb_eq in E. subst. exfalso. apply Hk. apply in_map_iff. exists (i, c). auto.
    + apply IH; assumption.
Qed.

Lemma aux_lookup_none i (l : list (Z * C)) : aux_lookup i l = None <-> ~ In i (map fst l).
Proof.
  induction l as [|[k x] r IH]; cbn [aux_lookup map fst In]; [tauto|].
  destruct (k =? i) eqn:E.
  - apply Z.eqb_eq in E. split; [discriminate|]. intros H. exfalso. apply H. left. exact E.
  - apply Z.eqb_neq in E. rewrite IH. tauto.
Qed.

(* whole-block statements *)
Definition well_shaped (m : mblock) : Prop :=
  match m with
  | BAlonzoCompatible b _ | BBabbage b | BConway b =>
      length (wits b) = length (bodies b) /\ Z.of_nat (length (bodies b)) <= 2 ^ 32
  | _ => True
  end.

Lemma txs_length_proof (m : mblock) : well_shaped m -> Z.of_nat (length (txs m)) = tx_count m.
Proof.
  destruct m as [|p|b e|b|b]; cbn [txs tx_count well_shaped length]; intros H;
    try reflexivity; try (rewrite map_length; reflexivity);
    rewrite clone_txs_length; destruct H as [H _]; rewrite H, Nat.min_id; reflexivity.
Qed.

Lemma byron_txs_nth (p : list (A * B)) i :
  nth_error (txs (BByron p)) i = match nth_error p i with Some tw => Some (fst tw, snd tw, true, @None C) | None => None end.
Proof.
  cbn [txs]. revert i. induction p as [|x r IH]; intros [|i]; cbn [map nth_error]; try reflexivity. apply IH.
Qed.
End Blocks.

(* ---- probe ---- *)
Lemma tag_cases tag : 0 <= tag < 24 ->
  tag = 0 \/ tag = 1 \/ tag = 2 \/ tag = 3 \/ tag = 4 \/ tag = 5 \/ tag = 6 \/ tag = 7 \/ 8 <= tag < 24.
Proof. lia. Qed.

Lemma probe_canonical tag rest : 0 <= tag < 24 -> block_era (130 :: tag :: rest) = era_of_variant tag.
Proof.
  intros H. assert (E : exists n, (n < 24)%nat /\ tag = Z.of_nat n) by (exists (Z.to_nat tag); lia).
  destruct E as (n & Hn & ->).
  do 24 (destruct n as [|n]; [reflexivity|]). lia.
Qed.

(* the one-byte-argument form 0x18 v is also a U8 token *)
Lemma probe_u8_long tag rest : 0 <= tag < 8 -> block_era (130 :: 24 :: tag :: rest) = era_of_variant tag.
Proof.
  intros H. assert (E : exists n, (n < 8)%nat /\ tag = Z.of_nat n) by (exists (Z.to_nat tag); lia).
  destruct E as (n & Hn & ->).
  do 8 (destruct n as [|n]; [reflexivity|]). lia.
Qed.

Lemma era_of_variant_large v : 8 <= v -> era_of_variant v = Inconclusive.
Proof.
  intros H. unfold era_of_variant.
  repeat match goal with |- context [?a =? ?b] => let E := fresh in destruct (a =? b) eqn:E; [lia|] end.
  reflexivity.
Qed.

Lemma era_is_wrapper_tag_proof {A B C} tag rest (m : mblock A B C) :
  0 <= tag < 24 ->
  decoder_for (block_era (130 :: tag :: rest)) = Some (kind_of m) ->
  era_of_tag tag = Some (block_era_of m).
Proof.
  intros H D. rewrite probe_canonical in D by exact H.
  destruct (tag_cases tag H) as [->|[->|[->|[->|[->|[->|[->|[->|L]]]]]]]];
    try (destruct m; cbn in D; try discriminate D; try (injection D as <-); reflexivity).
  rewrite era_of_variant_large in D by lia. discriminate D.
Qed.

Lemma probe_rejects_large_tag tag rest : 8 <= tag < 24 -> block_era (130 :: tag :: rest) = Inconclusive.
Proof. intros H. rewrite probe_canonical by lia. apply era_of_variant_large. lia. Qed.
