(* Proofs about the Ed25519 specification: completeness of the scheme over an
   abstract group (from the group laws as premises), the fast reduction, scalar
   byte codec, clamping sweep, strict vs lenient verification. *)
From Coq Require Import Setoid Morphisms.
From PV Require Import Lib.Base Crypto.Sha512 Crypto.Ed25519Spec.
Open Scope Z_scope.

(* ---------- little-endian codec ---------- *)
Lemma le_bytes_length n v : length (le_bytes n v) = n.
Proof. revert v; induction n as [|n IH]; intros v; cbn [le_bytes length]; [reflexivity|now rewrite IH]. Qed.

Lemma le_int_le_bytes : forall n v, 0 <= v < 256 ^ Z.of_nat n -> le_int (le_bytes n v) = v.
Proof.
  induction n as [|n IH]; intros v Hv.
  - cbn in *. lia.
  - cbn [le_bytes]. unfold le_int in *. cbn [fold_right]. rewrite IH.
    + lia.
    + rewrite Nat2Z.inj_succ, Z.pow_succ_r in Hv by lia. lia.
Qed.

Lemma list_eqb_refl l : list_eqb Z.eqb l l = true.
Proof. now apply list_eqb_Z_spec. Qed.

(* ---------- completeness over an abstract group ---------- *)
Section SchnorrComplete.
  Variable G : Type.
  Variable geq : G -> G -> Prop.
  Variable gop : G -> G -> G.
  Variable gneg : G -> G.
  Variable gid : G.
  Variable smul : Z -> G -> G.
  Variable B : G.
  Variable smulB : Z -> G.
  Variable L : Z.
  Variable enc : G -> list Z.
  Variable dec : list Z -> option G.
  Variable hashZ : list Z -> Z.
  Hypothesis laws : group_laws G geq gop gneg gid smul B smulB L enc dec.

  Local Infix "==" := geq (at level 70).

  Instance geq_equiv : Equivalence geq.
  Proof.
    constructor.
    - exact (gl_refl _ _ _ _ _ _ _ _ _ _ _ laws).
    - exact (gl_sym _ _ _ _ _ _ _ _ _ _ _ laws).
    - exact (gl_trans _ _ _ _ _ _ _ _ _ _ _ laws).
  Qed.
  Instance gop_proper : Proper (geq ==> geq ==> geq) gop.
  Proof. intros P P' HP Q Q' HQ. now apply (gl_op_proper _ _ _ _ _ _ _ _ _ _ _ laws). Qed.
  Instance gneg_proper : Proper (geq ==> geq) gneg.
  Proof. intros P P' HP. now apply (gl_neg_proper _ _ _ _ _ _ _ _ _ _ _ laws). Qed.
  Instance smul_proper : Proper (eq ==> geq ==> geq) smul.
  Proof. intros k k' <- P P' HP. now apply (gl_smul_proper _ _ _ _ _ _ _ _ _ _ _ laws). Qed.

  Lemma smul_mod_L n : 0 <= n -> smul (n mod L) B == smul n B.
  Proof.
    intros Hn. destruct (gl_L _ _ _ _ _ _ _ _ _ _ _ laws) as [HL _].
    rewrite (Z.div_mod n L) at 2 by lia.
    rewrite (Z.mul_comm L (n / L)).
    assert (Hq : 0 <= n / L) by (apply Z.div_pos; lia).
    assert (Hr : 0 <= n mod L) by (apply Z.mod_pos_bound; lia).
    rewrite (gl_smul_add _ _ _ _ _ _ _ _ _ _ _ laws) by nia.
    rewrite (gl_smul_mul _ _ _ _ _ _ _ _ _ _ _ laws) by lia.
    rewrite (gl_order _ _ _ _ _ _ _ _ _ _ _ laws).
    rewrite (gl_smul_id _ _ _ _ _ _ _ _ _ _ _ laws) by lia.
    rewrite (gl_comm _ _ _ _ _ _ _ _ _ _ _ laws).
    now rewrite (gl_id_r _ _ _ _ _ _ _ _ _ _ _ laws).
  Qed.

  (* the verification equation holds for an honestly produced signature *)
  Lemma schnorr_eq a r k A' :
    0 <= a -> 0 <= r -> 0 <= k -> A' == smul a B ->
    gop (smulB ((r + k * a) mod L)) (gneg (smul k A')) == smulB r.
  Proof.
    intros Ha Hr Hk HA. destruct (gl_L _ _ _ _ _ _ _ _ _ _ _ laws) as [HL _].
    rewrite !(gl_smulB _ _ _ _ _ _ _ _ _ _ _ laws) by (try apply Z.mod_pos_bound; lia).
    rewrite smul_mod_L by nia.
    rewrite (gl_smul_add _ _ _ _ _ _ _ _ _ _ _ laws) by nia.
    rewrite (gl_smul_mul _ _ _ _ _ _ _ _ _ _ _ laws) by lia.
    rewrite HA.
    rewrite (gl_assoc _ _ _ _ _ _ _ _ _ _ _ laws).
    rewrite (gl_neg_r _ _ _ _ _ _ _ _ _ _ _ laws).
    now rewrite (gl_id_r _ _ _ _ _ _ _ _ _ _ _ laws).
  Qed.

  Lemma schnorr_complete_proof a prefix m :
    0 <= a ->
    verify_core G gop gneg smul smulB L enc dec hashZ
      (pk_of G smulB enc a) m (sign_core G smulB L enc hashZ a (pk_of G smulB enc a) prefix m) = true.
  Proof.
    intros Ha. destruct (gl_L _ _ _ _ _ _ _ _ _ _ _ laws) as [HL HL256].
    unfold verify_core, sign_core.
    set (r := hashZ (prefix ++ m) mod L).
    set (Rb := enc (smulB r)).
    set (pk := pk_of G smulB enc a).
    set (k := hashZ (Rb ++ pk ++ m) mod L).
    set (S := (r + k * a) mod L).
    assert (HRl : length Rb = 32%nat) by apply (gl_enc_len _ _ _ _ _ _ _ _ _ _ _ laws).
    assert (Hf : firstn 32 (Rb ++ le_bytes 32 S) = Rb).
    { rewrite firstn_app, HRl, Nat.sub_diag. rewrite firstn_O, app_nil_r.
      apply firstn_all2. lia. }
    assert (Hs : skipn 32 (Rb ++ le_bytes 32 S) = le_bytes 32 S).
    { rewrite skipn_app, HRl, Nat.sub_diag. rewrite skipn_O, skipn_all2 by lia. reflexivity. }
    rewrite Hf, Hs.
    assert (HS : 0 <= S < L) by (apply Z.mod_pos_bound; lia).
    rewrite le_int_le_bytes by (change (256 ^ Z.of_nat 32) with (2 ^ 256); lia).
    destruct (gl_dec_enc _ _ _ _ _ _ _ _ _ _ _ laws (smulB a)) as (A' & HdA & HA').
    rewrite (gl_smulB _ _ _ _ _ _ _ _ _ _ _ laws) in HA' by lia.
    unfold pk, pk_of at 1. rewrite HdA.
    destruct (L <=? S) eqn:E; [lia|].
    fold pk. fold k.
    assert (Hr : 0 <= r) by (apply Z.mod_pos_bound; lia).
    assert (Hk : 0 <= k) by (apply Z.mod_pos_bound; lia).
    subst S.
    rewrite (gl_enc_proper _ _ _ _ _ _ _ _ _ _ _ laws _ _ (schnorr_eq a r k A' Ha Hr Hk HA')).
    apply list_eqb_refl.
  Qed.
End SchnorrComplete.

(* ---------- the fast reduction is reduction mod p ---------- *)
Lemma red1_spec x : 0 <= x -> 0 <= red1 x /\ red1 x mod p25519 = x mod p25519 /\ red1 x <= 2 ^ 255 + 19 * (x / 2 ^ 255).
Proof.
  intros Hx. unfold red1, m255.
  change (2 ^ 255 - 1) with (Z.ones 255). rewrite Z.land_ones by lia.
  rewrite Z.shiftr_div_pow2 by lia.
  assert (H255 : 0 < 2 ^ 255) by (apply Z.pow_pos_nonneg; lia).
  pose proof (Z.mod_pos_bound x (2 ^ 255) H255) as Hm.
  assert (Hq : 0 <= x / 2 ^ 255) by (apply Z.div_pos; lia).
  split; [lia|]. split; [|lia].
  assert (E : x = (x mod 2 ^ 255 + 19 * (x / 2 ^ 255)) + (x / 2 ^ 255) * p25519).
  { unfold p25519. pose proof (Z.div_mod x (2 ^ 255) ltac:(lia)). lia. }
  rewrite E at 3. now rewrite Z.mod_add by (unfold p25519; lia).
Qed.

Lemma fred_spec x : 0 <= x < 2 ^ 520 -> fred x = x mod p25519.
Proof.
  intros Hx. unfold fred.
  destruct (red1_spec x ltac:(lia)) as (H1 & E1 & B1).
  destruct (red1_spec (red1 x) H1) as (H2 & E2 & B2).
  assert (Hq1 : x / 2 ^ 255 < 2 ^ 265).
  { apply Z.div_lt_upper_bound; [apply Z.pow_pos_nonneg; lia|].
    rewrite <- Z.pow_add_r by lia. exact (proj2 Hx). }
  assert (Hq2 : red1 x / 2 ^ 255 < 2 ^ 15).
  { apply Z.div_lt_upper_bound; [apply Z.pow_pos_nonneg; lia|].
    rewrite <- Z.pow_add_r by lia.
    change (2 ^ (255 + 15)) with (2 ^ 255 * 2 ^ 15).
    assert (2 ^ 255 + 19 * 2 ^ 265 < 2 ^ 255 * 2 ^ 15) by (vm_compute; reflexivity). lia. }
  assert (Hy : red1 (red1 x) < 2 * p25519).
  { assert (2 ^ 255 + 19 * 2 ^ 15 < 2 * p25519) by (vm_compute; reflexivity). lia. }
  assert (Hp : 0 < p25519) by (vm_compute; reflexivity).
  rewrite <- E1, <- E2.
  destruct (p25519 <=? red1 (red1 x)) eqn:E.
  - apply Z.mod_unique with (q := 1); lia.
  - symmetry. apply Z.mod_small. lia.
Qed.

(* ---------- clamping ---------- *)
Lemma check_bits_sweep :
  forallb (fun b0 => forallb (fun b31 =>
    Bool.eqb (check_bits b0 b31)
             ((b0 mod 8 =? 0) && Z.testbit b31 6 && negb (Z.testbit b31 7))
    && Bool.eqb (check_bits b0 b31)
                ((Z.land b0 248 =? b0) && (Z.lor (Z.land b31 63) 64 =? b31)))
    (zrangeZ 0 256)) (zrangeZ 0 256) = true.
Proof. vm_compute. reflexivity. Qed.

Lemma check_bits_iff b0 b31 : byte b0 -> byte b31 ->
  (check_bits b0 b31 = true <-> (b0 mod 8 = 0 /\ Z.testbit b31 6 = true /\ Z.testbit b31 7 = false)) /\
  (check_bits b0 b31 = true <-> (Z.land b0 248 = b0 /\ Z.lor (Z.land b31 63) 64 = b31)).
Proof.
  intros H0 H31. pose proof check_bits_sweep as S. rewrite forallb_forall in S.
  specialize (S b0 (zrangeZ_In 0 256 b0 ltac:(unfold byte in H0; lia))). rewrite forallb_forall in S.
  specialize (S b31 (zrangeZ_In 0 256 b31 ltac:(unfold byte in H31; lia))).
  apply andb_true_iff in S as [S1 S2]. apply eqb_prop in S1. apply eqb_prop in S2.
  split.
  - rewrite S1. rewrite !andb_true_iff, negb_true_iff, Z.eqb_eq. tauto.
  - rewrite S2. rewrite !andb_true_iff, !Z.eqb_eq. tauto.
Qed.

(* clamped scalars pass the check *)
Lemma clamp_bits_sweep :
  forallb (fun b0 => forallb (fun b31 => check_bits (Z.land b0 248) (Z.lor (Z.land b31 63) 64))
    (zrangeZ 0 256)) (zrangeZ 0 256) = true.
Proof. vm_compute. reflexivity. Qed.

(* ---------- strict (RFC 8032) and lenient (cryptoxide) verification ---------- *)
Lemma verify_agrees_on_canonical_proof pk m sig :
  canonical_pk pk -> ed_verify pk m sig = rfc_verify pk m sig.
Proof.
  intros [Hd Hz]. unfold ed_verify, rfc_verify, verify_core. rewrite Hz, Hd. reflexivity.
Qed.
