(* C13 model = the shared symbolic KES model (Kes/Model.v) and the key-level API of
   C12/Model.v, plus what "the buffer lets one derive a signing key" means. *)
From PV Require Export Lib.Base Kes.Model C12.Model.
Open Scope Z_scope.

(* y can be computed from x by the public seed-splitting hashes alone
   (Seed::split_slice: blake2b(1 ‖ x), blake2b(2 ‖ x)) *)
Inductive desc (x : term) : term -> Prop :=
| desc_refl : desc x x
| desc_L y : desc x y -> desc x (L y)
| desc_R y : desc x y -> desc x (R y).

Fixpoint descb (x y : term) : bool :=
  term_eqb x y || match y with L y' => descb x y' | R y' => descb x y' | _ => false end.

(* the periods whose Ed25519 signing key (= leaf seed) is a slot of the buffer or is
   derived from a slot of the buffer; d, s: depth and master seed of the key *)
Definition derivable (d : nat) (s : term) (buf : list term) : list Z :=
  filter (fun t' => existsb (fun x => descb x (leaf_seed d s t')) buf) (zrangeZ 0 (total d)).

(* a genuine seed: a secret atom, split any number of times *)
Fixpoint is_seed (x : term) : bool :=
  match x with Master _ => true | L y => is_seed y | R y => is_seed y | _ => false end.

(* Dolev-Yao attacker who captured the 32-byte values B: everything computable from
   them with the public algorithms; hashes and key derivation cannot be inverted *)
Inductive know (B : list term) : term -> Prop :=
| know_in x : In x B -> know B x
| know_zero : know B Zero
| know_L x : know B x -> know B (L x)
| know_R x : know B x -> know B (R x)
| know_pk x : know B x -> know B (Pk x)
| know_h2 a b : know B a -> know B b -> know B (H2 a b)
| know_sigR sk m : know B sk -> know B (SigR sk m)
| know_sigS sk m : know B sk -> know B (SigS sk m).
