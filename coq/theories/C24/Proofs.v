(* C24 — proofs. Finite table facts by kernel-checked sweeps (vm_compute over the
   regenerated tables, lifted with forallb_forall); model facts by case analysis over
   all states and messages (the payloads stay universally quantified); sequences by
   induction. *)
From PV Require Import Lib.Base C24.Spec C24.Model Generated.ApplyTables C24.Defs.
From Coq Require Import String.
Open Scope string_scope.

(* ---------------------------------------------------------------- Spec.v *)
Lemma all_specs_wf : forallb spec_wf all_specs = true.
Proof. vm_compute. reflexivity. Qed.

Lemma specs_wf_proof : forall sp, In sp all_specs -> spec_wf sp = true.
Proof. intros sp H. exact (proj1 (forallb_forall spec_wf all_specs) all_specs_wf sp H). Qed.

(* --------------------------------------------- regenerated tables vs the spec *)
Lemma all_tables_ok : forallb table_ok apply_tables = true.
Proof. vm_compute. reflexivity. Qed.

Lemma all_tables_cover : forallb table_covers_spec apply_tables = true.
Proof. vm_compute. reflexivity. Qed.

Lemma tables_are_the_protocols :
  same_set (map gt_proto apply_tables) (map pname all_protos) = true.
Proof. vm_compute. reflexivity. Qed.

Lemma cell_ok_proof : forall t s m,
  In t apply_tables -> In s (gt_states t) -> In m (gt_msgs t) -> cell_ok t s m = true.
Proof.
  intros t s m Ht Hs Hm.
  pose proof (proj1 (forallb_forall table_ok apply_tables) all_tables_ok t Ht) as H1.
  unfold table_ok in H1.
  pose proof (proj1 (forallb_forall _ _) H1 s Hs) as H2. cbv beta in H2.
  exact (proj1 (forallb_forall _ _) H2 m Hm).
Qed.

Lemma opt_str_eqb_eq a b : opt_str_eqb a b = true -> a = b.
Proof.
  destruct a as [x|], b as [y|]; cbn; intros H; try discriminate; try reflexivity.
  apply String.eqb_eq in H. congruence.
Qed.

Lemma tables_match_spec_proof : forall t s m,
  In t apply_tables -> In s (gt_states t) -> In m (gt_msgs t) ->
  known (gt_proto t) s m = false ->
  exists r, spec_cell (gt_proto t) s m = Some r /\ gen_next t s m = Some r.
Proof.
  intros t s m Ht Hs Hm Hk.
  pose proof (cell_ok_proof t s m Ht Hs Hm) as H. unfold cell_ok in H. rewrite Hk in H. cbn [orb] in H.
  destruct (gen_next t s m) as [a|]; [|discriminate].
  destruct (spec_cell (gt_proto t) s m) as [b|]; [|discriminate].
  apply opt_str_eqb_eq in H. subst. exists b. split; reflexivity.
Qed.

Lemma tables_cover_proof : forall t, In t apply_tables -> table_covers_spec t = true.
Proof. intros t H. exact (proj1 (forallb_forall _ _) all_tables_cover t H). Qed.

(* --------------------------------------------------- model vs the spec step *)
Ltac crush_cells :=
  repeat match goal with
         | b : bool |- _ => destruct b
         end;
  try reflexivity; try discriminate.

Lemma ka_ok : forall s m, known "keepalive" (KA.class s) (KA.variant m) = false ->
  outcome_opt (KA.apply s m) = ka_step s m.
Proof. intros s m; destruct s, m; vm_compute; intros H; crush_cells. Qed.

Lemma ps_ok : forall s m, known "peersharing" (PS.class s) (PS.variant m) = false ->
  outcome_opt (PS.apply s m) = ps_step s m.
Proof. intros s m; destruct s, m; vm_compute; intros H; crush_cells. Qed.

Lemma bf_ok : forall s m, known "blockfetch" (BF.class s) (BF.variant m) = false ->
  outcome_opt (BF.apply s m) = bf_step s m.
Proof. intros s m; destruct s, m; vm_compute; intros H; crush_cells. Qed.

Lemma cs_ok : forall s m, known "chainsync" (CS.class s) (CS.variant m) = false ->
  outcome_opt (CS.apply s m) = cs_step s m.
Proof. intros s m; destruct s, m; vm_compute; intros H; crush_cells. Qed.

Lemma hs_ok : forall s m, known "handshake" (HS.class s) (HS.variant m) = false ->
  outcome_opt (HS.apply s m) = hs_step s m.
Proof. intros s m; destruct s, m; vm_compute; intros H; crush_cells. Qed.

Lemma tx_ok : forall s m, known "txsubmission" (TX.class s) (TX.variant m) = false ->
  outcome_opt (TX.apply s m) = tx_step s m.
Proof.
  intros s m; destruct s, m; try match goal with b : bool |- _ => destruct b end;
    vm_compute; intros H; crush_cells.
Qed.

Lemma ln_ok : forall s m, known "leiosnotify" (LN.class s) (LN.variant m) = false ->
  outcome_opt (LN.apply s m) = ln_step s m.
Proof. intros s m; destruct s, m; vm_compute; intros H; crush_cells. Qed.

Lemma lf_ok : forall s m, known "leiosfetch" (LF.class s) (LF.variant m) = false ->
  outcome_opt (LF.apply s m) = lf_step s m.
Proof. intros s m; destruct s, m; vm_compute; intros H; crush_cells. Qed.

Lemma apply_matches_spec_proof : forall p (s : state p) (m : msg p),
  known (pname p) (class p s) (variant p m) = false ->
  outcome_opt (apply p s m) = spec_step p s m.
Proof.
  intros p; destruct p; cbn [state msg pname class variant apply spec_step].
  - exact bf_ok.
  - exact cs_ok.
  - exact hs_ok.
  - exact ka_ok.
  - exact lf_ok.
  - exact ln_ok.
  - exact ps_ok.
  - exact tx_ok.
Qed.

(* sequences, unbounded length *)
Lemma run_from_matches : forall p ms (s : state p) i,
  avoids_known p s ms -> run_opt (run_from (apply p) i s ms) = spec_run p s ms.
Proof.
  intros p ms. induction ms as [|m r IH]; intros s i Hav.
  - reflexivity.
  - cbn [avoids_known] in Hav. destruct Hav as [Hk Hrest].
    pose proof (apply_matches_spec_proof p s m Hk) as Hstep.
    cbn [run_from spec_run].
    destruct (apply p s m) as [s'|e|pp] eqn:Ha; cbn [outcome_opt] in Hstep; rewrite <- Hstep.
    + rewrite <- Hstep in Hrest. apply IH. exact Hrest.
    + reflexivity.
    + reflexivity.
Qed.

Lemma apply_seq_matches_spec_proof : forall p (s : state p) (ms : list (msg p)),
  avoids_known p s ms -> run_opt (apply_seq p s ms) = spec_run p s ms.
Proof. intros p s ms H. unfold apply_seq. apply run_from_matches. exact H. Qed.

(* ----------------------------- the spec step (with data) refines the spec tables *)
Lemma spec_step_refines_proof : forall p (s : state p) (m : msg p),
  option_map (fun s' => state_ren (pname p) (class p s')) (spec_step p s m)
  = spec_next (spec_of p) (state_ren (pname p) (class p s)) (msg_ren (pname p) (variant p m)).
Proof.
  intros p; destruct p; cbn [state msg pname class variant spec_step spec_of];
    intros s m; destruct s, m; try match goal with b : bool |- _ => destruct b end;
    vm_compute; reflexivity.
Qed.

(* ------------------------------------- the model agrees with the regenerated tables *)
Definition model_cell_ok (p : proto) (s : state p) (m : msg p) : bool :=
  match table_of p with
  | None => false
  | Some t => match gen_cell t (class p s) (variant p m) with
              | Some r => gen_result_eqb r (class_result p (apply p s m))
              | None => false
              end
  end.

Lemma gen_result_eqb_eq a b : gen_result_eqb a b = true -> a = b.
Proof.
  destruct a, b; cbn; intros H; try discriminate; apply String.eqb_eq in H; congruence.
Qed.

Lemma model_cell_ok_all : forall p (s : state p) (m : msg p), model_cell_ok p s m = true.
Proof.
  intros p; destruct p; cbn [state msg]; intros s m; destruct s, m;
    try match goal with b : bool |- _ => destruct b end; vm_compute; reflexivity.
Qed.

Lemma find_table_In name l t : find_table name l = Some t -> In t l /\ gt_proto t = name.
Proof.
  induction l as [|x r IH]; cbn; [discriminate|].
  destruct (String.eqb name (gt_proto x)) eqn:E.
  - intros H; inversion H; subst. apply String.eqb_eq in E. auto.
  - intros H. destruct (IH H). auto.
Qed.

Lemma model_matches_tables_proof : forall p (s : state p) (m : msg p),
  exists t, In t apply_tables /\ gt_proto t = pname p /\
            gen_cell t (class p s) (variant p m) = Some (class_result p (apply p s m)).
Proof.
  intros p s m. pose proof (model_cell_ok_all p s m) as H. unfold model_cell_ok in H.
  destruct (table_of p) as [t|] eqn:Et; [|discriminate].
  destruct (gen_cell t (class p s) (variant p m)) as [r|] eqn:Ec; [|discriminate].
  apply gen_result_eqb_eq in H. subst r.
  unfold table_of in Et. apply find_table_In in Et. destruct Et as [Hin Hn].
  exists t. auto.
Qed.

(* every cell of every table is the class of some model state / message *)
Definition samples_cover (p : proto) : bool :=
  match table_of p with
  | None => false
  | Some t => list_eqb String.eqb (map (class p) (sample_states p)) (gt_states t) &&
              list_eqb String.eqb (map (variant p) (sample_msgs p)) (gt_msgs t)
  end.
Lemma samples_cover_all : forallb samples_cover all_protos = true.
Proof. vm_compute. reflexivity. Qed.

Lemma list_eqb_string_eq a b : list_eqb String.eqb a b = true -> a = b.
Proof.
  revert b; induction a as [|x r IH]; intros [|y r2]; cbn; intros H; try discriminate; try reflexivity.
  apply andb_true_iff in H as [H1 H2]. apply String.eqb_eq in H1. apply IH in H2. congruence.
Qed.

Lemma all_protos_complete p : In p all_protos.
Proof. destruct p; cbn; tauto. Qed.

Lemma classes_inhabited_proof : forall p t s m,
  table_of p = Some t -> In s (gt_states t) -> In m (gt_msgs t) ->
  exists (st : state p) (mg : msg p), class p st = s /\ variant p mg = m.
Proof.
  intros p t s m Ht Hs Hm.
  pose proof (proj1 (forallb_forall _ _) samples_cover_all p (all_protos_complete p)) as H.
  unfold samples_cover in H. rewrite Ht in H. apply andb_true_iff in H as [H1 H2].
  apply list_eqb_string_eq in H1. apply list_eqb_string_eq in H2.
  rewrite <- H1 in Hs. rewrite <- H2 in Hm.
  apply in_map_iff in Hs as [st [Hst _]]. apply in_map_iff in Hm as [mg [Hmg _]].
  exists st, mg. auto.
Qed.

(* --------------------------------------------------- the known cells are real *)
Definition refutes (p : proto) (s : state p) (m : msg p) (c : string * string * string) : Prop :=
  (pname p, class p s, variant p m) = c /\ outcome_opt (apply p s m) <> spec_step p s m.

Lemma known_cells_refuted_proof : forall c, In c known_cells ->
  exists p (s : state p) (m : msg p), refutes p s m c.
Proof.
  intros c H. cbn in H.
  repeat destruct H as [H|H]; try contradiction; subst c.
  - exists PTxSubmission, TX.SIdle, (TX.MRequestTxIds false 0 3). split; [reflexivity|vm_compute; discriminate].
  - exists PTxSubmission, TX.STxIdsNonBlocking, (TX.MReplyTxIds []). split; [reflexivity|vm_compute; discriminate].
  - exists PTxSubmission, TX.STxIdsBlocking, (TX.MReplyTxIds []). split; [reflexivity|vm_compute; discriminate].
  - exists PTxSubmission, TX.STxIdsBlocking, TX.MDone. split; [reflexivity|vm_compute; discriminate].
  - exists PTxSubmission, (TX.STxs []), (TX.MReplyTxs [(6, [1])]%Z). split; [reflexivity|vm_compute; discriminate].
Qed.
