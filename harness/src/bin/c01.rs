//! C01: flat round trip of any sequence of values at any bit alignment.
//! case := (values, encoder result, per-call decoder results, final pos, final used_bits)
//! The values are written one after another by ONE Encoder, then the filler;
//! the same sequence of Decoder calls (+ filler) reads them back.
//! Oracle: decoded == original and the whole buffer is consumed.
use pallas_codec::flat::de::{Decoder, Error as DErr};
use pallas_codec::flat::en::{Encoder, Error as EErr};
use pallas_codec::flat::filler::Filler;
use verif_harness::*;

#[derive(Clone, Debug, PartialEq)]
enum Op { Bool, U8, Word, Integer, Char, Bytes, Utf8, Filler, Str, Bits8(usize), List(Box<Op>) }
#[derive(Clone, Debug, PartialEq)]
enum DVal { Unit, Bool(bool), U8(u8), Word(usize), Int(isize), Char(u32), Bytes(Vec<u8>), Utf8(Vec<u8>), Str(Vec<u32>), Bits(u8), List(Vec<DVal>) }
#[derive(Clone, Debug)]
enum Val { Bool(bool), U8(u8), Word(usize), Int(isize), Char(char), Bytes(Vec<u8>), Utf8(String), Str(String), Bits(i64, u8), List(Op, Vec<Val>) }

fn kind_of(v: &Val) -> Op {
    match v {
        Val::Bool(_) => Op::Bool, Val::U8(_) => Op::U8, Val::Word(_) => Op::Word, Val::Int(_) => Op::Integer, Val::Char(_) => Op::Char,
        Val::Bytes(_) => Op::Bytes, Val::Utf8(_) => Op::Utf8, Val::Str(_) => Op::Str, Val::Bits(n, _) => Op::Bits8(*n as usize),
        Val::List(e, _) => Op::List(Box::new(e.clone())),
    }
}
fn dval_of(v: &Val) -> DVal {
    match v {
        Val::Bool(b) => DVal::Bool(*b), Val::U8(x) => DVal::U8(*x), Val::Word(x) => DVal::Word(*x), Val::Int(x) => DVal::Int(*x),
        Val::Char(c) => DVal::Char(*c as u32), Val::Bytes(b) => DVal::Bytes(b.clone()), Val::Utf8(s) => DVal::Utf8(s.as_bytes().to_vec()),
        Val::Str(s) => DVal::Str(s.chars().map(|c| c as u32).collect()), Val::Bits(_, v) => DVal::Bits(*v),
        Val::List(_, l) => DVal::List(l.iter().map(dval_of).collect()),
    }
}
fn coq_op(o: &Op) -> String {
    match o {
        Op::Bool => "OBool".into(), Op::U8 => "OU8".into(), Op::Word => "OWord".into(), Op::Integer => "OInteger".into(),
        Op::Char => "OChar".into(), Op::Bytes => "OBytes".into(), Op::Utf8 => "OUtf8".into(), Op::Filler => "OFiller".into(),
        Op::Str => "OString".into(), Op::Bits8(n) => format!("(OBits8 {})", n), Op::List(e) => format!("(OList {})", coq_op(e)),
    }
}
fn coq_val(v: &Val) -> String {
    match v {
        Val::Bool(b) => format!("(VBool {})", coq_bool(*b)), Val::U8(x) => format!("(VU8 {})", x), Val::Word(x) => format!("(VWord {})", x),
        Val::Int(x) => format!("(VInt {})", coq_z(x)), Val::Char(c) => format!("(VChar {})", *c as u32),
        Val::Bytes(b) => format!("(VBytes {})", coq_bytes(b)), Val::Utf8(s) => format!("(VUtf8 {})", coq_bytes(s.as_bytes())),
        Val::Str(s) => format!("(VString {})", coq_list(&s.chars().collect::<Vec<_>>(), |c| (*c as u32).to_string())),
        Val::Bits(n, v) => format!("(VBits {} {})", n, v), Val::List(e, l) => format!("(VList {} {})", coq_op(e), coq_list(l, coq_val)),
    }
}
fn coq_dval(v: &DVal) -> String {
    match v {
        DVal::Unit => "DUnit".into(), DVal::Bool(b) => format!("(DBool {})", coq_bool(*b)), DVal::U8(x) => format!("(DU8 {})", x),
        DVal::Word(x) => format!("(DWord {})", x), DVal::Int(x) => format!("(DInt {})", coq_z(x)), DVal::Char(x) => format!("(DChar {})", x),
        DVal::Bytes(b) => format!("(DBytes {})", coq_bytes(b)), DVal::Utf8(b) => format!("(DUtf8 {})", coq_bytes(b)),
        DVal::Str(cs) => format!("(DString {})", coq_list(cs, |c| c.to_string())), DVal::Bits(x) => format!("(DBits {})", x),
        DVal::List(l) => format!("(DList {})", coq_list(l, coq_dval)),
    }
}
fn derr_code(e: &DErr) -> String {
    match e {
        DErr::EndOfBuffer => "1".into(), DErr::BufferNotByteAligned => "2".into(), DErr::IncorrectNumBits => "3".into(),
        DErr::NotEnoughBytes(n) => format!("{}", 1000u128 + *n as u128), DErr::NotEnoughBits(n) => format!("{}", 2000u128 + *n as u128),
        DErr::DecodeUtf8(_) => "6".into(), DErr::DecodeChar(_) => "7".into(), DErr::Message(_) => "8".into(), _ => "50".into(),
    }
}
fn eerr_code(e: &EErr) -> String { match e { EErr::BufferNotByteAligned => "2".into(), _ => "8".into() } }
fn panic_code(msg: &str) -> u32 {
    if msg.contains("out of bounds") || msg.contains("out of range") || msg.contains("slice index") { 1 }
    else if msg.contains("shift") { 2 } else if msg.contains("overflow") { 3 } else { 9 }
}

fn enc_val(v: &Val, e: &mut Encoder) -> Result<(), EErr> {
    match v {
        Val::Bool(b) => { e.bool(*b); } Val::U8(x) => { e.u8(*x)?; } Val::Word(x) => { e.word(*x); } Val::Int(x) => { e.integer(*x); }
        Val::Char(c) => { e.char(*c); } Val::Bytes(b) => { e.bytes(b)?; } Val::Utf8(s) => { e.utf8(s)?; } Val::Str(s) => { e.string(s); }
        Val::Bits(n, v) => { e.bits(*n, *v); } Val::List(_, l) => { e.encode_list_with(l, enc_val)?; }
    }
    Ok(())
}
fn run_op(d: &mut Decoder, o: &Op) -> Result<DVal, DErr> {
    Ok(match o {
        Op::Bool => DVal::Bool(d.bool()?), Op::U8 => DVal::U8(d.u8()?), Op::Word => DVal::Word(d.word()?),
        Op::Integer => DVal::Int(d.integer()?), Op::Char => DVal::Char(d.char()? as u32), Op::Bytes => DVal::Bytes(d.bytes()?),
        Op::Utf8 => DVal::Utf8(d.utf8()?.into_bytes()), Op::Filler => { d.filler()?; DVal::Unit }
        Op::Str => DVal::Str(d.string()?.chars().map(|c| c as u32).collect()),
        Op::Bits8(n) => DVal::Bits(d.bits8(*n)?),
        Op::List(e) => { let e: &Op = e; DVal::List(d.decode_list_with(|d| run_op(d, e))?) }
    })
}
fn coq_out<T, F: Fn(&T) -> String>(o: &Out<T>, f: F) -> String {
    match o { Out::Ok(v) => format!("(Ok {})", f(v)), Out::Err(e) => format!("(Err {})", e), Out::Panic(m) => format!("(Panic {})", panic_code(m)) }
}

fn run(vs: &[Val], tag: &str, oracle_only: bool) {
    let desc = || coq_list(vs, coq_val);
    let enc = guard(|| {
        let mut e = Encoder::new();
        for v in vs { enc_val(v, &mut e).map_err(|x| eerr_code(&x))?; }
        e.encode(Filler::FillerEnd).map_err(|x| eerr_code(&x))?;
        Ok(e.buffer)
    });
    let mut results: Vec<Out<DVal>> = vec![];
    let (mut pos, mut used) = (0usize, 0i64);
    match &enc {
        Out::Ok(buf) => {
            let mut d = Decoder::new(buf);
            let mut script: Vec<Op> = vs.iter().map(kind_of).collect();
            script.push(Op::Filler);
            let mut all_ok = true;
            for (i, o) in script.iter().enumerate() {
                let r = guard(|| run_op(&mut d, o).map_err(|e| derr_code(&e)));
                let expected = if i < vs.len() { dval_of(&vs[i]) } else { DVal::Unit };
                let good = matches!(&r, Out::Ok(v) if *v == expected);
                if !good && all_ok {
                    all_ok = false;
                    emit_oracle_fail(&format!("roundtrip:{}", coq_op(o).trim_matches(|c| c == '(' || c == ')').split(' ').next().unwrap_or("")),
                        &format!("values={} buffer={} call #{} {} gave {} expected (Ok {})", desc(), hex(buf), i, coq_op(o), coq_out(&r, coq_dval), coq_dval(&expected)));
                }
                let p = matches!(r, Out::Panic(_));
                results.push(r);
                if p { break; }
            }
            pos = d.pos; used = d.used_bits;
            if all_ok && (pos != buf.len() || used != 0) {
                emit_oracle_fail("not-consumed", &format!("values={} buffer={} decoding ends at pos={} used_bits={} of {} bytes", desc(), hex(buf), pos, used, buf.len()));
            }
        }
        Out::Err(e) => emit_oracle_fail("encode-error", &format!("values={} encoder returned Err {}", desc(), e)),
        Out::Panic(m) => emit_oracle_fail("encode-panic", &format!("values={} encoder panicked: {}", desc(), m)),
    }
    if !oracle_only {
        emit_case(tag, &format!("({},{},{},{},{})", desc(), coq_out(&enc, |b| coq_bytes(b)), coq_list(&results, |r| coq_out(r, coq_dval)), pos, coq_z(used)));
    }
}

const CHARS: [char; 13] = ['\0', 'a', '\u{7f}', '\u{80}', '\u{7ff}', '\u{800}', '\u{3fff}', '\u{4000}', '\u{d7ff}', '\u{e000}', '\u{ffff}', '\u{10000}', '\u{10ffff}'];

fn gen_char(rng: &mut Rng) -> char {
    if rng.chance(1, 2) { let c = *rng.pick(&CHARS); if (c as u32) <= 0x10ffff { return c; } }
    loop { if let Some(c) = char::from_u32(rng.below(0x110000) as u32) { return c; } }
}
fn gen_word(rng: &mut Rng) -> usize {
    match rng.below(4) {
        0 => { let k = rng.range(1, 9); let b = 1u64 << (7 * k); (match rng.below(3) { 0 => b - 1, 1 => b, _ => b + 1 }) as usize }
        1 => (u64::MAX - rng.below(2)) as usize,
        _ => rng.edge_u64() as usize,
    }
}
fn gen_int(rng: &mut Rng) -> isize {
    match rng.below(5) {
        0 => isize::MIN + rng.below(2) as isize, 1 => isize::MAX - rng.below(2) as isize,
        2 => { let k = rng.range(1, 9); let b = 1i64 << (7 * k - 1); let v = match rng.below(3) { 0 => b - 1, 1 => b, _ => b + 1 }; (if rng.bool() { v } else { -v }) as isize }
        3 => rng.below(5) as isize - 2,
        _ => rng.edge_u64() as i64 as isize,
    }
}
fn gen_len(rng: &mut Rng, big: bool) -> usize {
    if big { *rng.pick(&[254usize, 255, 256, 509, 510, 511, 765, 766, 1000]) }
    else { match rng.below(4) { 0 => 0, 1 => 1, _ => rng.range(2, 40) as usize } }
}
fn gen_string(rng: &mut Rng, n: usize) -> String { (0..n).map(|_| gen_char(rng)).collect() }
fn gen_simple(rng: &mut Rng, k: u64, big: bool) -> Val {
    match k {
        0 => Val::Bool(rng.bool()), 1 => { let (a, b) = (rng.byte(), rng.byte()); Val::U8(*rng.pick(&[0u8, 1, 0x7f, 0x80, 0xff, a, b])) }
        2 => Val::Word(gen_word(rng)), 3 => Val::Int(gen_int(rng)), 4 => Val::Char(gen_char(rng)),
        5 => { let n = gen_len(rng, big); Val::Bytes(rng.bytes(n)) }
        6 => { let n = gen_len(rng, big) / 3; Val::Utf8(gen_string(rng, n)) }
        7 => { let n = rng.below(6) as usize; Val::Str(gen_string(rng, n)) }
        _ => { let n = rng.range(1, 8) as i64; let v = match rng.below(4) { 0 => 0, 1 => ((1u16 << n) - 1) as u8, _ => (rng.next() & ((1u64 << n) - 1)) as u8 }; Val::Bits(n, v) }
    }
}
fn gen_val(rng: &mut Rng, big: bool) -> Val {
    let k = rng.below(10);
    if k < 9 { return gen_simple(rng, k, big); }
    // homogeneous list: one element kind (bits: one width)
    let ek = rng.below(10);
    let n = rng.below(5) as usize;
    if ek == 9 {
        let inner: Vec<Val> = (0..n).map(|_| Val::List(Op::Bool, (0..rng.below(4)).map(|_| Val::Bool(rng.bool())).collect())).collect();
        return Val::List(Op::List(Box::new(Op::Bool)), inner);
    }
    if ek == 8 {
        let w = rng.range(1, 8) as i64;
        let items: Vec<Val> = (0..n).map(|_| Val::Bits(w, (rng.next() & ((1u64 << w) - 1)) as u8)).collect();
        return Val::List(Op::Bits8(w as usize), items);
    }
    let items: Vec<Val> = (0..n).map(|_| gen_simple(rng, ek, false)).collect();
    let e = kind_of(&gen_simple(&mut rng.clone(), ek, false));
    Val::List(e, items)
}

fn main() {
    let args = args();
    let mut rng = Rng::new(args.seed);
    let oo = args.oracle_only;
    // deterministic block: every kind of value forced at every entry bit offset 0..7 (k bools first), followed by a u8
    let reps: Vec<Val> = vec![
        Val::Bool(true), Val::U8(0xa5), Val::Word(0), Val::Word(127), Val::Word(128), Val::Word(usize::MAX), Val::Int(0), Val::Int(-1),
        Val::Int(isize::MIN), Val::Int(isize::MAX), Val::Char('a'), Val::Char('\u{10ffff}'), Val::Bytes(vec![]), Val::Bytes(vec![1, 2, 3]),
        Val::Utf8("h\u{e9}\u{20ac}\u{10348}".into()), Val::Str("a\u{7ff}".into()), Val::Str("".into()), Val::Bits(3, 5), Val::Bits(8, 0x81), Val::Bits(1, 1), Val::Bits(2, 2),
        Val::List(Op::Bool, vec![Val::Bool(true), Val::Bool(false)]), Val::List(Op::Word, vec![Val::Word(300)]), Val::List(Op::U8, vec![]),
    ];
    for v in &reps {
        for k in 0..8usize {
            let mut vs: Vec<Val> = (0..k).map(|i| Val::Bool(i % 2 == 0)).collect();
            vs.push(v.clone());
            vs.push(Val::U8(0x3c));
            run(&vs, "offset-sweep", oo);
        }
    }
    run(&[], "trivial-empty", oo);
    for n in [254usize, 255, 256, 510, 511] {
        let b: Vec<u8> = (0..n).map(|i| (i * 7 + 1) as u8).collect();
        run(&[Val::Bool(true), Val::Bytes(b.clone()), Val::Bool(false)], "block-boundary", oo);
    }
    for i in 0..args.n {
        let len = match rng.below(6) { 0 => rng.below(3) as usize, 1 => rng.range(20, 64) as usize, _ => rng.range(1, 12) as usize };
        let big_budget = rng.chance(1, 4);
        let mut bigs = 0;
        let mut vs = vec![];
        for _ in 0..len {
            let big = big_budget && bigs < 2 && rng.chance(1, 4);
            if big { bigs += 1; }
            vs.push(gen_val(&mut rng, big));
        }
        let tag = if len == 0 { "trivial-empty" } else if bigs > 0 { "mixed-with-long-bytes" } else if len >= 20 { "mixed-long" } else { "mixed" };
        if i < 3 { emit_sample(&format!("values={}", coq_list(&vs, coq_val))); }
        run(&vs, tag, oo);
    }
}
