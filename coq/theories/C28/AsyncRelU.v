(* C28, delayed confirmations (Async schedules): what is known about a re-included peer state (RelU). *)
From PV Require Import Lib.Base P2p.Proto P2p.Initiator P2p.Spec C27.Proofs C28.Model
  C28.Abs C28.Refine C28.Visitors C28.Emit C28.SettleBlock C28.Inv C28.Events C28.Blocks C28.Proofs.
From PV Require Import C28.AsyncSpec.
Open Scope Z_scope.

(* what is known about a peer state that does not belong to the current connection (re-included while
   the link is up): only chain-sync can ever emit again, and it tracks the wire once it moved *)
Definition RelU (s : pstate) (wb : pspec) : Prop :=
  cs s = CsSIdle CdNew \/ (a_cs (cs s) = w_cs wb /\ accepted wb = true).
Definition connected (s : pstate) : Prop := conn s = CConnected \/ conn s = CInitialized.

Lemma cstep_cs_other w m w1 : cstep w m = Some w1 -> proto_of m <> 2 -> w_cs w1 = w_cs w.
Proof.
  intros H N. destruct m; cbn [cstep] in H; try discriminate; cbn [proto_of] in N; try lia;
    unfold guard in H; crush H; inversion H; subst; reflexivity.
Qed.
Lemma sstep_cs_other w m w1 : sstep w m = Some w1 -> proto_of m <> 2 -> w_cs w1 = w_cs w.
Proof.
  intros H N. destruct m; cbn [sstep] in H; try discriminate; cbn [proto_of] in N; try lia;
    unfold guard in H; crush H; inversion H; subst; reflexivity.
Qed.
Lemma sstep_hs_other w m w1 : sstep w m = Some w1 -> proto_of m <> 0 -> w_hs w1 = w_hs w /\ accepted w = true.
Proof.
  intros H N. destruct m; cbn [sstep] in H; try discriminate; cbn [proto_of] in N; try lia;
    unfold guard in H; crush H; inversion H; subst; cbn; split; try reflexivity;
    unfold accepted, ps_negotiated, leios_negotiated in *; destruct (w_hs w); try discriminate; reflexivity.
Qed.

Lemma relU_client s wb m wb1 : RelU s wb -> cstep wb m = Some wb1 -> RelU (apply_msg s m) wb1.
Proof.
  intros R C. destruct (Z.eq_dec (proto_of m) 2) as [E|N].
  - (* a chain-sync client message: permitted only from ScIdle and after acceptance *)
    assert (A : accepted wb = true /\ w_cs wb = ScIdle /\ accepted wb1 = true).
    { destruct m; cbn [proto_of] in E; try discriminate; cbn [cstep] in C; unfold guard in C; crush C; inversion C; subst;
        repeat split; auto. }
    destruct A as (A & I & A1). right. split; [|exact A1].
    assert (Ic : exists d, cs s = CsSIdle d).
    { destruct R as [R|[R _]]; [eauto|]. rewrite I in R. destruct (cs s); cbn in R; try discriminate. eauto. }
    destruct Ic as (d & Ic).
    destruct m; cbn [proto_of] in E; try discriminate; cbn [cstep] in C; unfold guard in C; crush C; inversion C; subst;
      unfold apply_msg; cbn [proto_of]; rewrite Ic; cbn; reflexivity.
  - unfold RelU in *. rewrite (cstep_cs_other _ _ _ C N). rewrite am_cs by exact N.
    destruct R as [R|[R A]]; [left; exact R | right; split; [exact R|]].
    destruct (Z.eq_dec (proto_of m) 0) as [Z0|NZ].
    + exfalso. destruct m; cbn [proto_of] in Z0; try discriminate; cbn [cstep] in C; try discriminate.
      unfold accepted in A. destruct (w_hs wb); discriminate.
    + destruct (cstep_hs _ _ _ C NZ) as [Hh _]. unfold accepted in *. rewrite Hh. exact A.
Qed.

Lemma relU_server s wb m wb1 : RelU s wb -> sstep wb m = Some wb1 -> RelU (apply_msg s m) wb1.
Proof.
  intros R C. destruct (Z.eq_dec (proto_of m) 2) as [E|N].
  - destruct (sstep_hs_other _ _ _ C ltac:(lia)) as [Hh A].
    assert (A1 : accepted wb1 = true) by (unfold accepted in *; rewrite Hh; exact A).
    destruct R as [R|[R _]].
    + left. destruct m; cbn [proto_of] in E; try discriminate; cbn [sstep] in C; try discriminate;
        unfold apply_msg; cbn [proto_of]; rewrite R; cbn; exact R.
    + right. split; [|exact A1].
      destruct m; cbn [proto_of] in E; try discriminate; cbn [sstep] in C; unfold guard in C; crush C; inversion C; subst;
        unfold apply_msg; cbn [proto_of]; destruct (cs s); cbn in R; try congruence; cbn; reflexivity.
  - unfold RelU in *. rewrite (sstep_cs_other _ _ _ C N). rewrite am_cs by exact N.
    destruct R as [R|[R A]]; [left; exact R | right; split; [exact R|]].
    destruct (Z.eq_dec (proto_of m) 0) as [Z0|NZ].
    + exfalso. destruct m; cbn [proto_of] in Z0; try discriminate; cbn [sstep] in C; try discriminate;
        unfold accepted in A; destruct (w_hs wb); discriminate.
    + destruct (sstep_hs_other _ _ _ C NZ) as [Hh _]. unfold accepted in *. rewrite Hh. exact A.
Qed.
