(* C27 — property theorems (first round: the unchanged code refutes the property). *)
From PV Require Import Lib.Base C27.Model.
Open Scope Z_scope.

Definition cfgB := mkCfg 3 2 1 1.

(* re-including a warm peer puts it into cold as well *)
Theorem disjoint_refuted : exists evs st, state_after cfgB evs = Some st /\ invb cfgB st = false.
Proof. exists [EInclude 1; EHousekeeping [] []; EInclude 1]. eexists. split; [vm_compute; reflexivity | vm_compute; reflexivity]. Qed.

(* a peer banned by command while cold is promoted and connected *)
Theorem banned_cmd_refuted : exists evs outs st,
  run cfgB init (EInclude 1 :: EBan 1 :: evs) = Ok (st, outs) /\ existsb (connects 1) outs = true.
Proof. exists [EHousekeeping [] []]. eexists. eexists. split; [vm_compute; reflexivity | vm_compute; reflexivity]. Qed.
