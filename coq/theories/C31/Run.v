(* C31 correspondence.  Outputs are identified by a number (digest of the output's
   CBOR, computed by the harness).  A case is the abstract transaction read off the
   era struct, a list of indices for produces_at, and what MultiEraTx returned:
   (is_valid, consumes, produces, produces_at for each index, inputs_sorted_set),
   or Panic if any of the calls panicked. *)
From PV Require Import Lib.Base C31.Model.
Open Scope Z_scope.

Definition outs : Type := (bool * list input * list (Z * Z) * list (option Z) * list input)%type.
Definition case : Type := (tx Z * list Z * outcome outs)%type.

Definition run (t : tx Z) (idx : list Z) : outs :=
  (is_valid t, consumes t, produces t, map (produces_at t) idx, inputs_sorted_set t).
Definition case_out (c : case) : outs := let '(t, idx, _) := c in run t idx.

Definition opt_eqb (a b : option Z) : bool :=
  match a, b with Some x, Some y => x =? y | None, None => true | _, _ => false end.
Definition zz_eqb (a b : Z * Z) : bool := (fst a =? fst b) && (snd a =? snd b).

Definition outs_eqb (a b : outs) : bool :=
  let '(a1, a2, a3, a4, a5) := a in
  let '(b1, b2, b3, b4, b5) := b in
  Bool.eqb a1 b1 && list_eqb input_eqb a2 b2 && list_eqb zz_eqb a3 b3 &&
  list_eqb opt_eqb a4 b4 && list_eqb input_eqb a5 b5.

Definition case_ok (c : case) : bool :=
  let '(t, idx, o) := c in
  match o with Ok o => outs_eqb (run t idx) o | _ => false end.
