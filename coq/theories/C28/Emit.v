(* C28 proofs, part D (Emit): see Proofs.v for the theorem [exec_sync_conformant]. *)
From PV Require Import Lib.Base P2p.Proto P2p.Initiator P2p.Spec C27.Proofs C28.Model.
From PV Require Import C28.Abs C28.Refine C28.Visitors.
Open Scope Z_scope.

(* ---- environment map ---- *)
Lemma eget_eset_eq p x e : eget p (eset p x e) = x.
Proof.
  induction e as [|[q y] r IH]; cbn [eset eget]; [rewrite Z.eqb_refl; reflexivity|].
  destruct (q =? p) eqn:E; cbn [eget]; rewrite E; [reflexivity | exact IH].
Qed.
Lemma eget_eset_neq p q x e : q <> p -> eget q (eset p x e) = eget q e.
Proof.
  intros N. induction e as [|[r y] e IH]; cbn [eset eget].
  - destruct (p =? q) eqn:E; [apply Z.eqb_eq in E; congruence | reflexivity].
  - destruct (r =? p) eqn:E; cbn [eget].
    + apply Z.eqb_eq in E. subst r. destruct (p =? q) eqn:E2; [apply Z.eqb_eq in E2; congruence | reflexivity].
    + destruct (r =? q); [reflexivity | exact IH].
Qed.

(* ---- keys ---- *)
Lemma lookup_None_keys p l : lookup p l = None <-> ~ In p (map fst l).
Proof.
  induction l as [|[q s] r IH]; cbn [lookup map fst]; [split; auto|].
  destruct (q =? p) eqn:E.
  - apply Z.eqb_eq in E. subst. split; [discriminate | intros H; exfalso; apply H; left; reflexivity].
  - rewrite IH. split; [intros H [X|X]; [subst; rewrite Z.eqb_refl in E; discriminate | exact (H X)] | intros H X; apply H; right; exact X].
Qed.
Lemma keys_insert_tracked p s s' l : lookup p l = Some s -> map fst (insert p s' l) = map fst l.
Proof.
  induction l as [|[q t] r IH]; cbn [lookup insert map fst]; [discriminate|].
  destruct (q =? p) eqn:E; cbn [map fst]; [reflexivity|]. intros H. rewrite IH by exact H. reflexivity.
Qed.
Lemma keys_insert_new p s' l : lookup p l = None -> map fst (insert p s' l) = map fst l ++ [p].
Proof.
  induction l as [|[q t] r IH]; cbn [lookup insert map fst app]; [reflexivity|].
  destruct (q =? p) eqn:E; [discriminate|]. intros H. cbn [map fst]. rewrite IH by exact H. reflexivity.
Qed.

(* ---- emitters are permitted when the peer state mirrors the wire ---- *)
Lemma acc_hs s w : Rel s w -> (exists v p, hs s = HsSAccepted v p) ->
  accepted w = true /\ ps_negotiated w = supports_ps s /\ leios_negotiated w = supports_leios s.
Proof.
  intros (R1 & _) (v & p & H). unfold accepted, ps_negotiated, leios_negotiated, supports_ps, supports_leios.
  rewrite H in *. cbn in R1. rewrite <- R1. auto.
Qed.

Lemma epre_permitted s w m : Rel s w -> Acc s -> epre s m -> exists w', cstep w m = Some w'.
Proof.
  intros R A E. pose proof R as (R1 & R2 & R3 & R4 & R5 & R6 & R7).
  destruct m; cbn [epre] in E; try contradiction; cbn [cstep].
  - rewrite E in R1. cbn in R1. rewrite <- R1. eauto.
  - destruct E as (I & r & K). destruct (acc_hs s w R (A (or_introl I))) as (X & _). rewrite X. cbn [guard].
    rewrite K in R2. cbn in R2. rewrite <- R2. eauto.
  - destruct E as (I & Sp & K). destruct (acc_hs s w R (A (or_introl I))) as (_ & X & _). rewrite X, Sp. cbn [guard].
    destruct R3 as [R3|R3]; [congruence|]. rewrite K in R3. cbn in R3. rewrite <- R3. eauto.
  - destruct E as (I & K). destruct (acc_hs s w R (A (or_introl I))) as (X & _). rewrite X. cbn [guard].
    rewrite K in R4. cbn in R4. rewrite <- R4. eauto.
  - destruct E as (d & K & Nn). assert (Cn : cs s <> CsSIdle CdNew) by (rewrite K; intros Y; inversion Y; contradiction).
    destruct (acc_hs s w R (A (or_intror Cn))) as (X & _). rewrite X. cbn [guard].
    rewrite K in R5. cbn in R5. rewrite <- R5. eauto.
  - destruct E as (I & K). destruct (acc_hs s w R (A (or_introl I))) as (X & _). rewrite X. cbn [guard].
    rewrite K in R5. cbn in R5. rewrite <- R5. eauto.
  - destruct E as (I & Sp & K). destruct (acc_hs s w R (A (or_introl I))) as (_ & _ & X). rewrite X, Sp. cbn [guard].
    rewrite K in R6. cbn in R6. rewrite <- R6. eauto.
  - destruct E as (I & Sp & K). destruct (acc_hs s w R (A (or_introl I))) as (_ & _ & X). rewrite X, Sp. cbn [guard].
    rewrite K in R7. cbn in R7. rewrite <- R7. eauto.
  - destruct E as (I & Sp & K). destruct (acc_hs s w R (A (or_introl I))) as (_ & _ & X). rewrite X, Sp. cbn [guard].
    rewrite K in R7. cbn in R7. rewrite <- R7. eauto.
Qed.

(* a peer with default protocol states has nothing to emit during housekeeping / tagging *)
Lemma default_no_emit s m : DefaultProto s -> Acc s -> proto_of m <> 0 -> epre s m -> False.
Proof.
  intros (D1 & D2 & D3 & D4 & D5 & D6 & D7 & D8) A N E.
  assert (NI : is_init s = true -> False).
  { intros I. destruct (A (or_introl I)) as (v & p & H). congruence. }
  destruct m; cbn [epre] in E; cbn [proto_of] in N; try contradiction; try lia;
    try (destruct E as (I & _); exact (NI I)).
  destruct E as (d & K & Nn). rewrite D5 in K. inversion K. congruence.
Qed.

(* emitting one protocol's message does not disturb the preconditions of the others *)
Lemma epre_frame s m m' : Acc s -> epre s m -> epre s m' -> proto_of m <> proto_of m' -> epre (apply_msg s m) m'.
Proof.
  intros A E E' N.
  destruct (Z.eq_dec (proto_of m) 0) as [Z0|NZ].
  { (* m is the handshake proposal: then nothing else can be ready *)
    exfalso. destruct m; cbn [proto_of] in Z0; try discriminate; cbn [epre] in E; try contradiction.
    assert (NI : is_init s = true -> False) by (intros I; destruct (A (or_introl I)) as (v & p & H); congruence).
    destruct m'; cbn [epre] in E'; cbn [proto_of] in N; try contradiction; try lia; try (destruct E' as (I & _); exact (NI I)).
    destruct E' as (d & K & Nn). assert (Cn : cs s <> CsSIdle CdNew) by (rewrite K; intros Y; inversion Y; contradiction).
    destruct (A (or_intror Cn)) as (v & p & H). congruence. }
  destruct m'; cbn [epre] in E' |- *; cbn [proto_of] in N; try contradiction;
    unfold supports_ps, supports_leios in *; rewrite ?am_init, ?am_hs by exact NZ;
    rewrite ?am_ka, ?am_ps, ?am_bf, ?am_cs, ?am_ln, ?am_lf by (intros X; apply N; rewrite X; reflexivity); try exact E'.
  (* m' = HsPropose: hs untouched since m is not a handshake message *)
  all: try (rewrite am_hs by exact NZ; exact E').
Qed.
