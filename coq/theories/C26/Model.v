(* C26 model: pallas-network/src/miniprotocols/chainsync/buffer.rs (RollbackBuffer),
   transcribed.  The VecDeque<Point> is a list, FRONT (oldest) FIRST:
     push_back p        = b ++ [p]
     drain(0..ready)    = (firstn ready b, skipn ready b)
     truncate(k)        = firstn k b
     clear()            = []
     iter().position(f) = index of the first element (from the front) satisfying f
   usize quantities are Z (lengths are far below 2^63; the only usize argument
   coming from outside, min_depth, is an arbitrary Z in [0, 2^64) and is only
   ever compared / subtracted through checked_sub, modelled explicitly).

   The second half is the SPECIFICATION: a chain suffix kept NEWEST FIRST
   (a cons-list: the tip is the head), with independently written structural
   definitions.  Proofs.v shows that every operation sequence produces the same
   observations on both. *)
From PV Require Import Lib.Base.
Open Scope Z_scope.

(* Point: #[derive(Clone, Eq, PartialEq, Hash)] enum Point { Origin, Specific(u64, Vec<u8>) } *)
Inductive point : Type :=
| PO
| PS (slot : Z) (hash : list Z).

(* derived PartialEq: same variant and all fields equal *)
Definition point_eqb (a b : point) : bool :=
  match a, b with
  | PO, PO => true
  | PS s1 h1, PS s2 h2 => (s1 =? s2) && list_eqb Z.eqb h1 h2
  | _, _ => false
  end.

Definition buffer := list point.

(* RollbackBuffer::new *)
Definition buf_new : buffer := [].

(* roll_forward: self.points.push_back(point) *)
Definition roll_forward (b : buffer) (p : point) : buffer := b ++ [p].

(* position: self.points.iter().position(|p| p.eq(point)) *)
Fixpoint position_from (i : Z) (b : buffer) (p : point) : option Z :=
  match b with
  | [] => None
  | q :: r => if point_eqb q p then Some i else position_from (i + 1) r p
  end.
Definition position (b : buffer) (p : point) : option Z := position_from 0 b p.

Definition size (b : buffer) : Z := Z.of_nat (length b).
Definition latest (b : buffer) : option point := last (map Some b) None.   (* back() *)
Definition oldest (b : buffer) : option point := hd_error b.                (* front() *)

(* pop_with_depth:
     match self.points.len().checked_sub(min_depth) {
         Some(ready) => self.points.drain(0..ready).collect(),
         None => vec![] }                                                      *)
Definition checked_sub (a b : Z) : option Z := if b <=? a then Some (a - b) else None.
Definition pop_with_depth (b : buffer) (min_depth : Z) : list point * buffer :=
  match checked_sub (size b) min_depth with
  | Some ready => (firstn (Z.to_nat ready) b, skipn (Z.to_nat ready) b)
  | None => ([], b)
  end.

(* roll_back:
     if let Some(x) = self.position(point) { self.points.truncate(x + 1); Handled }
     else { self.points.clear(); OutOfScope }                                  *)
Definition roll_back (b : buffer) (p : point) : bool * buffer :=   (* true = Handled *)
  match position b p with
  | Some x => (true, firstn (Z.to_nat (x + 1)) b)
  | None => (false, [])
  end.

(* ---- operation sequences and what a client can observe ---- *)
Inductive op : Type :=
| Fwd (p : point)
| Back (p : point)
| Pop (min_depth : Z)
| Pos (p : point).        (* query only *)

Inductive out : Type :=
| OFwd
| OBack (handled : bool)
| OPop (ready : list point)
| OPos (i : option Z).

(* one observation = the operation's result, then size(), latest(), oldest() *)
Definition obs : Type := (out * Z * option point * option point).

Definition step (b : buffer) (o : op) : out * buffer :=
  match o with
  | Fwd p => (OFwd, roll_forward b p)
  | Back p => let '(h, b') := roll_back b p in (OBack h, b')
  | Pop d => let '(r, b') := pop_with_depth b d in (OPop r, b')
  | Pos p => (OPos (position b p), b)
  end.

Definition observe (x : out) (b : buffer) : obs := (x, size b, latest b, oldest b).

Fixpoint run (b : buffer) (ops : list op) : list obs * buffer :=
  match ops with
  | [] => ([], b)
  | o :: r => let '(x, b') := step b o in
              let '(t, b'') := run b' r in (observe x b' :: t, b'')
  end.

(* ================= specification: chain suffix, newest first ================= *)
Definition chain := list point.   (* head = tip *)

Definition spec_forward (s : chain) (p : point) : chain := p :: s.

(* the part of the chain from its OLDEST occurrence of p down to the oldest end
   (None when p is not on the chain) *)
Fixpoint spec_cut (s : chain) (p : point) : option chain :=
  match s with
  | [] => None
  | q :: r => match spec_cut r p with
              | Some c => Some c
              | None => if point_eqb q p then Some (q :: r) else None
              end
  end.
Definition spec_back (s : chain) (p : point) : bool * chain :=
  match spec_cut s p with Some c => (true, c) | None => (false, []) end.

(* number of points older than the oldest occurrence of p *)
Fixpoint spec_position (s : chain) (p : point) : option Z :=
  match s with
  | [] => None
  | q :: r => match spec_position r p with
              | Some i => Some i
              | None => if point_eqb q p then Some (Z.of_nat (length r)) else None
              end
  end.

(* a point has depth k when k points are newer than it: everything of depth
   >= d is released, oldest first; the d newest stay *)
Definition spec_pop (s : chain) (d : Z) : list point * chain :=
  (rev (skipn (Z.to_nat d) s), firstn (Z.to_nat d) s).

Definition spec_step (s : chain) (o : op) : out * chain :=
  match o with
  | Fwd p => (OFwd, spec_forward s p)
  | Back p => let '(h, s') := spec_back s p in (OBack h, s')
  | Pop d => let '(r, s') := spec_pop s d in (OPop r, s')
  | Pos p => (OPos (spec_position s p), s)
  end.

Definition spec_observe (x : out) (s : chain) : obs :=
  (x, Z.of_nat (length s), hd_error s, last (map Some s) None).

Fixpoint spec_run (s : chain) (ops : list op) : list obs * chain :=
  match ops with
  | [] => ([], s)
  | o :: r => let '(x, s') := spec_step s o in
              let '(t, s'') := spec_run s' r in (spec_observe x s' :: t, s'')
  end.

(* well-formed operation: min_depth is a usize *)
Definition op_wf (o : op) : Prop := match o with Pop d => 0 <= d < 2^64 | _ => True end.
