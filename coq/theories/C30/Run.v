(* C30 correspondence.  Components are identified by numbers computed by the
   harness from their raw bytes (bodies: from the blake2b-256 hash of the raw
   body, through MultiEraTx::hash on the implementation side).
   CProbe:  probe::block_era on a byte string (code: 0 epoch boundary, 1..7 era, -1 inconclusive).
   CBlock:  a block that MultiEraBlock::decode accepted: the first bytes of its
            CBOR, the variant and contents read off the decoded era struct, and
            what era() / tx_count() / txs() returned.
   CReject: MultiEraBlock::decode failed; the probe outcome is still compared. *)
From PV Require Import Lib.Base C30.Model.
Open Scope Z_scope.

Definition mtxz : Type := (Z * Z * bool * option Z)%type.
Inductive case : Type :=
| CProbe (bytes : list Z) (code : Z)
| CBlock (prefix : list Z) (m : mblock Z Z Z) (era_code_ : Z) (count : Z) (l : list mtxz)
| CReject (prefix : list Z) (code : Z).

Definition probe_code (p : probe_outcome) : Z :=
  match p with Matched e => era_code e | EpochBoundary => 0 | Inconclusive => -1 end.

Definition kind_eqb (a b : variant_kind) : bool :=
  match a, b with
  | KEpochBoundary, KEpochBoundary | KByron, KByron | KBabbage, KBabbage | KConway, KConway => true
  | KAlonzoCompatible e1, KAlonzoCompatible e2 => era_code e1 =? era_code e2
  | _, _ => false
  end.

Definition opt_eqb (a b : option Z) : bool :=
  match a, b with Some x, Some y => x =? y | None, None => true | _, _ => false end.
Definition mtx_eqb (a b : mtxz) : bool :=
  let '(a1, a2, a3, a4) := a in let '(b1, b2, b3, b4) := b in
  (a1 =? b1) && (a2 =? b2) && Bool.eqb a3 b3 && opt_eqb a4 b4.

Definition case_out (c : case) : Z * option (Z * Z * list mtxz) :=
  match c with
  | CProbe bytes _ => (probe_code (block_era bytes), None)
  | CBlock prefix m _ _ _ => (probe_code (block_era prefix), Some (era_code (block_era_of m), tx_count m, txs m))
  | CReject prefix _ => (probe_code (block_era prefix), None)
  end.

Definition case_ok (c : case) : bool :=
  match c with
  | CProbe bytes code => probe_code (block_era bytes) =? code
  | CBlock prefix m e count l =>
      match decoder_for (block_era prefix) with
      | Some k => kind_eqb k (kind_of m)
      | None => false
      end &&
      (era_code (block_era_of m) =? e) && (tx_count m =? count) && list_eqb mtx_eqb (txs m) l
  | CReject prefix code => probe_code (block_era prefix) =? code
  end.
