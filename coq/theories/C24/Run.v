(* C24 correspondence: a case is (start state, messages, what the real `apply` did when the
   messages were applied in order): the final state with its data, or the index and class of
   the first error. CSpec cases compare the harness's own oracle table with Spec.v. *)
From PV Require Import Lib.Base C24.Spec C24.Model Generated.ApplyTables C24.Defs.
From Coq Require Import String.
Open Scope Z_scope.

Lemma point_eq_dec : forall a b : point, {a = b} + {a <> b}.
Proof. decide equality; auto using Z.eq_dec, (list_eq_dec Z.eq_dec). Defined.
Lemma tip_eq_dec : forall a b : tip, {a = b} + {a <> b}.
Proof. decide equality; auto using Z.eq_dec, point_eq_dec. Defined.
Definition bytes_eq_dec := list_eq_dec Z.eq_dec.
Lemma pairZ_eq_dec : forall a b : Z * Z, {a = b} + {a <> b}.
Proof. decide equality; auto using Z.eq_dec. Defined.
Lemma zbytes_eq_dec : forall a b : Z * list Z, {a = b} + {a <> b}.
Proof. decide equality; auto using Z.eq_dec, bytes_eq_dec. Defined.

Lemma ka_state_eq_dec : forall a b : KA.state, {a = b} + {a <> b}.
Proof. repeat decide equality. Defined.
Lemma ps_state_eq_dec : forall a b : PS.state, {a = b} + {a <> b}.
Proof. repeat decide equality. Defined.
Lemma bf_state_eq_dec : forall a b : BF.state, {a = b} + {a <> b}.
Proof.
  decide equality.
  - decide equality; apply point_eq_dec.
  - decide equality. apply bytes_eq_dec.
Defined.
Lemma cs_data_eq_dec : forall a b : CS.data, {a = b} + {a <> b}.
Proof. decide equality; auto using tip_eq_dec, point_eq_dec, bytes_eq_dec. Defined.
Lemma cs_state_eq_dec : forall a b : CS.state, {a = b} + {a <> b}.
Proof. decide equality; auto using cs_data_eq_dec, (list_eq_dec point_eq_dec). Defined.
Lemma hs_refuse_eq_dec : forall a b : HS.refuse, {a = b} + {a <> b}.
Proof. decide equality; auto using Z.eq_dec, bytes_eq_dec. Defined.
Lemma hs_state_eq_dec : forall a b : HS.state, {a = b} + {a <> b}.
Proof.
  decide equality.
  - apply (list_eq_dec pairZ_eq_dec).
  - decide equality; auto using Z.eq_dec, hs_refuse_eq_dec, (list_eq_dec pairZ_eq_dec).
Defined.
Lemma tx_state_eq_dec : forall a b : TX.state, {a = b} + {a <> b}.
Proof. decide equality. apply (list_eq_dec zbytes_eq_dec). Defined.
Lemma ln_state_eq_dec : forall a b : LN.state, {a = b} + {a <> b}.
Proof.
  decide equality. decide equality.
  decide equality; auto using Z.eq_dec, point_eq_dec, bytes_eq_dec, (list_eq_dec bytes_eq_dec).
Defined.
Lemma lf_state_eq_dec : forall a b : LF.state, {a = b} + {a <> b}.
Proof.
  decide equality; auto using point_eq_dec, (list_eq_dec pairZ_eq_dec).
  decide equality. decide equality; auto using point_eq_dec.
  decide equality; auto using bytes_eq_dec, (list_eq_dec bytes_eq_dec).
Defined.

Definition run_eqb {A} (dec : forall a b : A, {a = b} + {a <> b}) (x y : run_result A) : bool :=
  match x, y with
  | RunOk a, RunOk b => if dec a b then true else false
  | RunErr i e, RunErr j f => (i =? j) && (e =? f)
  | _, _ => false
  end.

Inductive case :=
| CBF (s : BF.state) (ms : list BF.msg) (o : run_result BF.state)
| CCS (s : CS.state) (ms : list CS.msg) (o : run_result CS.state)
| CHS (s : HS.state) (ms : list HS.msg) (o : run_result HS.state)
| CKA (s : KA.state) (ms : list KA.msg) (o : run_result KA.state)
| CLF (s : LF.state) (ms : list LF.msg) (o : run_result LF.state)
| CLN (s : LN.state) (ms : list LN.msg) (o : run_result LN.state)
| CPS (s : PS.state) (ms : list PS.msg) (o : run_result PS.state)
| CTX (s : TX.state) (ms : list TX.msg) (o : run_result TX.state)
(* the harness's oracle table: (protocol, state class, message class) -> next class *)
| CSpec (proto s m : string) (next : option string).

Inductive case_result :=
| OBF (o : run_result BF.state) | OCS (o : run_result CS.state) | OHS (o : run_result HS.state)
| OKA (o : run_result KA.state) | OLF (o : run_result LF.state) | OLN (o : run_result LN.state)
| OPS (o : run_result PS.state) | OTX (o : run_result TX.state)
| OSpec (v : option (option string)).

Definition case_out (c : case) : case_result :=
  match c with
  | CBF s ms _ => OBF (apply_seq PBlockFetch s ms)
  | CCS s ms _ => OCS (apply_seq PChainSync s ms)
  | CHS s ms _ => OHS (apply_seq PHandshake s ms)
  | CKA s ms _ => OKA (apply_seq PKeepAlive s ms)
  | CLF s ms _ => OLF (apply_seq PLeiosFetch s ms)
  | CLN s ms _ => OLN (apply_seq PLeiosNotify s ms)
  | CPS s ms _ => OPS (apply_seq PPeerSharing s ms)
  | CTX s ms _ => OTX (apply_seq PTxSubmission s ms)
  | CSpec p s m _ => OSpec (option_map (option_map (fun x => x)) (spec_cell p s m))
  end.

(* spec_cell answers in specification names; the oracle table uses implementation names *)
Definition spec_cell_impl (p s m : string) (next : option string) : bool :=
  match spec_cell p s m with
  | None => false
  | Some r => opt_str_eqb r (option_map (state_ren p) next)
  end.

Definition case_ok (c : case) : bool :=
  match c with
  | CBF s ms o => run_eqb bf_state_eq_dec (apply_seq PBlockFetch s ms) o
  | CCS s ms o => run_eqb cs_state_eq_dec (apply_seq PChainSync s ms) o
  | CHS s ms o => run_eqb hs_state_eq_dec (apply_seq PHandshake s ms) o
  | CKA s ms o => run_eqb ka_state_eq_dec (apply_seq PKeepAlive s ms) o
  | CLF s ms o => run_eqb lf_state_eq_dec (apply_seq PLeiosFetch s ms) o
  | CLN s ms o => run_eqb ln_state_eq_dec (apply_seq PLeiosNotify s ms) o
  | CPS s ms o => run_eqb ps_state_eq_dec (apply_seq PPeerSharing s ms) o
  | CTX s ms o => run_eqb tx_state_eq_dec (apply_seq PTxSubmission s ms) o
  | CSpec p s m next => spec_cell_impl p s m next
  end.
