(* C15 proofs, part 2: pow decomposition, the continued fraction of ln is
   well defined (no zero denominators, non-negative), find_e's bracketing. *)
From PV Require Import Lib.Base Fixed.Model Fixed.Proofs C15.Proofs.
Open Scope Z_scope.

(* ================= pow ================= *)
Lemma pow_one_proof base : ref_pow base ONE = Ok base.
Proof.
  unfold ref_pow. change (ONE =? 0) with false. cbn [orb].
  destruct (base =? ONE) eqn:E; [f_equal; lia|]. rewrite Z.eqb_refl. reflexivity.
Qed.

(* x^y = exp(y ln x) exactly as coded: outside the special cases the result is
   ref_exp (scale (ln |base| * exponent)), negated for a negative base when the
   integer part of the exponent (truncated) is odd *)
Lemma pow_decomp_proof base e : e <> 0 -> e <> ONE -> base <> ONE -> base <> 0 ->
  exists l, ref_ln (Z.abs base) = Some l /\
    ref_pow base e =
      Ok (if (base <? 0) && negb (Z.rem (Z.quot e PREC) 2 =? 0)
          then - ref_exp (scale (l * e)) else ref_exp (scale (l * e))).
Proof.
  intros He0 He1 Hb1 Hb0. unfold ref_pow, ref_ln_val.
  destruct (e =? 0) eqn:E0; [lia|]. destruct (base =? ONE) eqn:E1; [lia|]. cbn [orb].
  destruct (e =? ONE) eqn:E2; [lia|]. destruct (base =? 0) eqn:E3; [lia|]. cbn [andb].
  assert (Hln : exists l, ref_ln (Z.abs base) = Some l).
  { destruct (ref_ln (Z.abs base)) eqn:EL; [eexists; reflexivity|]. apply ln_domain_proof in EL. lia. }
  destruct Hln as [l Hl]. exists l. split; [exact Hl|].
  destruct (base <? 0) eqn:E4; cbn [andb].
  - replace (- base) with (Z.abs base) by lia. rewrite Hl.
    destruct (Z.rem (Z.quot e PREC) 2 =? 0); reflexivity.
  - replace base with (Z.abs base) at 1 by lia. rewrite Hl. reflexivity.
Qed.

(* exact characterisation of the outcomes: a panic (code 1) iff 0^negative, never an error *)
Lemma pow_outcome_proof base e :
  (base = 0 /\ e < 0 -> ref_pow base e = Panic 1) /\
  (~ (base = 0 /\ e < 0) -> exists v, ref_pow base e = Ok v).
Proof.
  split.
  - intros H. apply (pow_special_proof base e). exact H.
  - intros H. destruct (ref_pow base e) as [v|err|p] eqn:E.
    + eexists; reflexivity.
    + exfalso. unfold ref_pow in E.
      repeat match type of E with (if ?c then _ else _) = _ => destruct c end; discriminate.
    + exfalso. assert (p = 1).
      { unfold ref_pow in E.
        repeat match type of E with (if ?c then _ else _) = _ => destruct c end; inversion E; reflexivity. }
      subst p. apply (pow_special_proof base e) in E. tauto.
Qed.

(* ================= continued fraction of ln: well defined ================= *)
(* numerator / denominator of the convergent computed by one pass *)
Definition ln_num (x : Z) (s : ln_state) : Z :=
  scale (ln_b s * ln_an_m1 s) + scale (x * (ln_curr_a s * ln_curr_a s) * ln_an_m2 s).
Definition ln_den (x : Z) (s : ln_state) : Z :=
  scale (ln_b s * ln_bn_m1 s) + scale (x * (ln_curr_a s * ln_curr_a s) * ln_bn_m2 s).

Definition ln_inv (s : ln_state) : Prop :=
  ONE <= ln_b s /\ 0 <= ln_an_m1 s /\ 0 <= ln_an_m2 s /\ ONE <= ln_bn_m1 s /\ 0 <= ln_bn_m2 s /\
  0 <= ln_conv s.

Lemma ln_init_inv : ln_inv ln_init.
Proof.
  unfold ln_inv, ln_init. cbn [ln_conv ln_b ln_an_m1 ln_an_m2 ln_bn_m1 ln_bn_m2]. pose proof ONE_pos. lia.
Qed.

Lemma ln_step_conv x eps s : ln_conv (fst (ln_step x eps s)) = fp_div (ln_num x s) (ln_den x s).
Proof. unfold ln_step, ln_num, ln_den. destruct (_ && _); reflexivity. Qed.

Lemma ln_den_ge_ONE x s : 0 <= x -> ln_inv s -> ONE <= ln_den x s /\ 0 <= ln_num x s.
Proof.
  intros Hx (Hb & Ha1 & Ha2 & Hb1 & Hb2 & _). unfold ln_den, ln_num. pose proof ONE_pos as HO.
  assert (H1 : ONE <= scale (ln_b s * ln_bn_m1 s)).
  { rewrite <- (fp_mul_ONE_l ONE) at 1. apply scale_mono. unfold ONE in *. nia. }
  assert (H2 : 0 <= scale (x * (ln_curr_a s * ln_curr_a s) * ln_bn_m2 s))
    by (apply scale_nonneg; apply Z.mul_nonneg_nonneg; [apply Z.mul_nonneg_nonneg; [lia | apply Z.square_nonneg] | lia]).
  assert (H3 : 0 <= scale (ln_b s * ln_an_m1 s)) by (apply scale_nonneg; nia).
  assert (H4 : 0 <= scale (x * (ln_curr_a s * ln_curr_a s) * ln_an_m2 s))
    by (apply scale_nonneg; apply Z.mul_nonneg_nonneg; [apply Z.mul_nonneg_nonneg; [lia | apply Z.square_nonneg] | lia]).
  lia.
Qed.

Lemma ln_step_inv x eps s : 0 <= x -> ln_inv s -> ln_inv (fst (ln_step x eps s)).
Proof.
  intros Hx Hinv. destruct (ln_den_ge_ONE x s Hx Hinv) as [Hd Hn].
  pose proof (ln_step_conv x eps s) as Hc. pose proof ONE_pos as HO.
  assert (Hq : 0 <= fp_div (ln_num x s) (ln_den x s)) by (apply fp_div_nonneg; lia).
  destruct Hinv as (Hb & Ha1 & Ha2 & Hb1 & Hb2 & Hcv).
  unfold ln_step in *. fold (ln_num x s) in *. unfold ln_num, ln_den in *.
  destruct (_ && _); cbn [fst ln_conv ln_b ln_an_m1 ln_an_m2 ln_bn_m1 ln_bn_m2] in *; unfold ln_inv;
    cbn [ln_conv ln_b ln_an_m1 ln_an_m2 ln_bn_m1 ln_bn_m2]; repeat split; lia.
Qed.

Lemma ln_loop_inv fuel : forall max_n x eps s, 0 <= x -> ln_inv s -> ln_inv (ln_loop fuel max_n x eps s).
Proof.
  induction fuel as [|fuel IH]; intros max_n x eps s Hx Hs; cbn [ln_loop]; [exact Hs|].
  destruct (ln_n s <=? max_n + 2); [|exact Hs].
  pose proof (ln_step_inv x eps s Hx Hs) as H. destruct (ln_step x eps s) as [s' stop]. cbn [fst] in H.
  destruct stop; [exact H | apply IH; assumption].
Qed.

(* for a non-negative argument every convergent is a quotient by a denominator >= 1
   (no division by zero anywhere in the loop) and the result is non-negative *)
Lemma mp_ln_n_wf_proof max_n x eps : 0 <= x ->
  ln_inv (mp_ln_n_state max_n x eps) /\ 0 <= mp_ln_n max_n x eps /\
  (forall s, ln_inv s -> ONE <= ln_den x s).
Proof.
  intros Hx. pose proof (ln_loop_inv (Z.to_nat (max_n + 2)) max_n x eps ln_init Hx ln_init_inv) as H.
  split; [exact H|]. split; [apply H|]. intros s Hs. apply ln_den_ge_ONE; assumption.
Qed.

Lemma mp_ln_n_zero : mp_ln_n 1000 0 EPS = 0.
Proof. vm_compute. reflexivity. Qed.

(* ================= ref_exp at integers is ipow E ================= *)
Lemma taylor_ONE : mp_exp_taylor 1000 ONE EPS = (E, 24).
Proof. vm_compute. reflexivity. Qed.
Lemma E_ge_ONE : ONE <= E.
Proof. vm_compute. discriminate. Qed.

Lemma ref_exp_pos_int n : 0 < n -> ref_exp_pos_it (n * PREC) = (ipow E n, 24).
Proof.
  intros Hn. unfold ref_exp_pos_it, div_round_ceil. pose proof PREC_pos as HP.
  rewrite Z.quot_mul, Z.rem_mul by lia. rewrite Z.eqb_refl. rewrite andb_false_r.
  replace (Z.quot (n * PREC) n) with ONE.
  2:{ unfold ONE. rewrite Z.mul_comm. symmetry. apply Z.quot_mul. lia. }
  rewrite taylor_ONE. reflexivity.
Qed.

Lemma ref_exp_int n : ref_exp (n * PREC) = ipow E n.
Proof.
  pose proof PREC_pos as HP. unfold ref_exp, ref_exp_it.
  destruct (Z.lt_trichotomy n 0) as [Hn|[->|Hn]].
  - destruct (n * PREC =? 0) eqn:E0; [nia|]. destruct (n * PREC <? 0) eqn:E1; [|nia].
    replace (- (n * PREC)) with ((- n) * PREC) by ring. rewrite ref_exp_pos_int by lia. cbn [fst].
    unfold ipow. destruct (n <? 0) eqn:E2; [|lia]. destruct (- n <? 0) eqn:E3; [lia|]. reflexivity.
  - reflexivity.
  - destruct (n * PREC =? 0) eqn:E0; [nia|]. destruct (n * PREC <? 0) eqn:E1; [nia|].
    rewrite ref_exp_pos_int by lia. reflexivity.
Qed.

Lemma ipow_nonpos_le_ONE m : m <= 0 -> 0 <= ipow E m <= ONE.
Proof.
  intros Hm. pose proof ONE_pos as HO. destruct (Z.eq_dec m 0) as [->|Hne]; [change (ipow E 0) with ONE; lia|].
  unfold ipow. destruct (m <? 0) eqn:E0; [|lia].
  assert (Hge : ONE <= ipow_ E (- m)).
  { destruct m as [|p|p]; try lia. cbn [Z.opp ipow_]. apply ipow_pos_ge_ONE, E_ge_ONE. }
  unfold ONE in *. pose proof PREC_pos as HP. rewrite fp_div_floor by lia.
  split; [apply Z.div_pos; nia|]. apply Z.div_le_upper_bound; [lia|]. nia.
Qed.

(* ================= find_e ================= *)
(* j-fold squaring: the values the first loop of find_e walks through *)
Fixpoint sqs (j : nat) (v : Z) : Z := match j with O => v | S k => fp_mul (sqs k v) (sqs k v) end.
Definition lo (j : nat) : Z := sqs j (fp_div ONE E).
Definition hi (j : nat) : Z := sqs j E.
Fixpoint p2 (j : nat) : positive := match j with O => xH | S k => xO (p2 k) end.

Lemma p2_pow j : Zpos (p2 j) = 2 ^ Z.of_nat j.
Proof.
  induction j as [|j IH]; [reflexivity|]. cbn [p2]. rewrite Pos2Z.inj_xO, IH, Nat2Z.inj_succ, Z.pow_succ_r by lia. reflexivity.
Qed.
Lemma hi_ipow j : hi j = ipow E (2 ^ Z.of_nat j).
Proof.
  rewrite <- p2_pow. unfold ipow. cbn [Z.ltb Z.compare ipow_].
  induction j as [|j IH]; cbn [hi sqs p2 ipow_pos]; [rewrite fp_mul_ONE_l; reflexivity|].
  unfold hi in IH. rewrite IH. reflexivity.
Qed.
Lemma hi_ge_ONE j : ONE <= hi j.
Proof.
  induction j as [|j IH]; [exact E_ge_ONE|]. unfold hi in *. cbn [sqs]. apply fp_mul_ge_ONE; exact IH.
Qed.
Lemma hi_mono_S j : hi j <= hi (S j).
Proof.
  pose proof (hi_ge_ONE j) as H. unfold hi in *. cbn [sqs]. set (v := sqs j E) in *.
  rewrite <- (fp_mul_ONE_l v) at 1. apply fp_mul_mono; pose proof ONE_pos; lia.
Qed.
Lemma hi_mono i j : (i <= j)%nat -> hi i <= hi j.
Proof. induction 1 as [|j Hle IH]; [lia|]. pose proof (hi_mono_S j). lia. Qed.
Lemma lo_range j : 0 <= lo j <= ONE.
Proof.
  induction j as [|j IH].
  - unfold lo. cbn [sqs]. vm_compute. split; discriminate.
  - unfold lo in *. cbn [sqs]. set (v := sqs j (fp_div ONE E)) in *. split; [apply fp_mul_nonneg; lia|].
    rewrite <- (fp_mul_ONE_l ONE). apply fp_mul_mono; lia.
Qed.
Lemma lo_anti_S j : lo (S j) <= lo j.
Proof.
  pose proof (lo_range j) as H. unfold lo in *. cbn [sqs]. set (v := sqs j (fp_div ONE E)) in *.
  rewrite <- (fp_mul_ONE_l v) at 3. apply fp_mul_mono; lia.
Qed.
Lemma lo_anti i j : (i <= j)%nat -> lo j <= lo i.
Proof. induction 1 as [|j Hle IH]; [lia|]. pose proof (lo_anti_S j). lia. Qed.

(* first loop: stops at the first j' with lo j' <= x <= hi j' (if there is one within the fuel) *)
Lemma grow_spec x fuel : forall j j0, (j <= j0 < j + fuel)%nat -> lo j0 <= x <= hi j0 ->
  exists j', find_e_grow fuel x (lo j) (hi j) (- 2 ^ Z.of_nat j) (2 ^ Z.of_nat j)
             = (- 2 ^ Z.of_nat j', 2 ^ Z.of_nat j') /\
             (j <= j' <= j0)%nat /\ lo j' <= x <= hi j'.
Proof.
  induction fuel as [|fuel IH]; intros j j0 Hj Hx; [lia|]. cbn [find_e_grow].
  destruct ((x <? lo j) || (hi j <? x)) eqn:Ec.
  - assert (Hne : j <> j0) by (intros ->; lia).
    destruct (IH (S j) j0 ltac:(lia) Hx) as (j' & E1 & E2 & E3).
    exists j'. split; [|split; [lia | exact E3]].
    rewrite <- E1. unfold lo, hi. cbn [sqs]. rewrite Nat2Z.inj_succ, Z.pow_succ_r by lia.
    f_equal; ring.
  - exists j. split; [reflexivity|]. split; lia.
Qed.

(* second loop: keeps  ipow E l <= x  and  x < ipow E u (for every u it has moved) *)
Lemma bisect_spec x fuel : forall l u, l < u -> u - l <= 2 ^ Z.of_nat fuel -> ipow E l <= x ->
  let n := find_e_bisect fuel x l u in
  l <= n < u /\ ipow E n <= x /\ (n + 1 < u -> x < ipow E (n + 1)).
Proof.
  induction fuel as [|fuel IH]; intros l u Hlu Hw Hl n; subst n; cbn [find_e_bisect].
  - cbn in Hw. repeat split; try lia.
  - destruct (l + 1 =? u) eqn:E1; [repeat split; lia|].
    rewrite Nat2Z.inj_succ, Z.pow_succ_r in Hw by lia.
    assert (Hq : Z.quot (u - l) 2 = (u - l) / 2) by (apply Z.quot_div_nonneg; lia).
    rewrite Hq. set (mid := l + (u - l) / 2).
    assert (Hmid : l < mid < u) by (unfold mid; lia).
    assert (Hp : 0 < 2 ^ Z.of_nat fuel) by (apply Z.pow_pos_nonneg; lia).
    destruct (x <? ipow E mid) eqn:E2.
    + destruct (IH l mid ltac:(lia) ltac:(unfold mid; lia) Hl) as (H1 & H2 & H3).
      split; [lia|]. split; [exact H2|]. intros Hn.
      destruct (Z.eq_dec (find_e_bisect fuel x l mid + 1) mid) as [Heq|Hneq]; [rewrite Heq; lia | apply H3; lia].
    + destruct (IH mid u ltac:(lia) ltac:(unfold mid; lia) ltac:(lia)) as (H1 & H2 & H3).
      split; [lia|]. split; [exact H2 | exact H3].
Qed.

Lemma ipow_neg_pow2_le_lo0 j : ipow E (- 2 ^ Z.of_nat j) <= lo 0.
Proof.
  assert (Hp : 0 < 2 ^ Z.of_nat j) by (apply Z.pow_pos_nonneg; lia).
  unfold ipow. destruct (- 2 ^ Z.of_nat j <? 0) eqn:E0; [|lia]. rewrite Z.opp_involutive.
  assert (Hh : ipow_ E (2 ^ Z.of_nat j) = hi j).
  { rewrite hi_ipow. unfold ipow. destruct (2 ^ Z.of_nat j <? 0) eqn:E1; [lia|reflexivity]. }
  rewrite Hh. unfold lo. cbn [sqs]. pose proof (hi_mono 0 j ltac:(lia)) as Hm. change (hi 0) with E in Hm.
  pose proof E_ge_ONE as HE. pose proof PREC_pos as HP. unfold ONE in *.
  rewrite !fp_div_floor by lia. apply Z.div_le_compat_l; [nia | lia].
Qed.

(* bracketing of find_e for x >= 1/e (in particular for every x >= 1):
   e^n <= x <= e^(n+1) in the fixed-point sense, strict on the right unless n+1 is the power of
   two at which the doubling loop stopped; hi 63 = E^(2^63) is the i64 limit of the doubling loop *)
Lemma find_e_bracket_proof x : fp_div ONE E <= x -> x <= hi 63 ->
  exists j, (j <= 63)%nat /\ - 2 ^ Z.of_nat j <= find_e x < 2 ^ Z.of_nat j /\
    ipow E (find_e x) <= x /\ x <= ipow E (find_e x + 1) /\
    (find_e x + 1 < 2 ^ Z.of_nat j -> x < ipow E (find_e x + 1)).
Proof.
  intros Hlo Hhi. unfold find_e.
  assert (Hx63 : lo 63 <= x <= hi 63).
  { split; [|exact Hhi]. pose proof (lo_anti 0 63 ltac:(lia)). change (lo 0) with (fp_div ONE E) in *. lia. }
  destruct (grow_spec x 64 0 63 ltac:(lia) Hx63) as (j & E1 & E2 & E3).
  change (lo 0) with (fp_div ONE E) in E1. change (hi 0) with E in E1.
  change (- 2 ^ Z.of_nat 0) with (-1) in E1. change (2 ^ Z.of_nat 0) with 1 in E1. rewrite E1.
  assert (Hp : 0 < 2 ^ Z.of_nat j) by (apply Z.pow_pos_nonneg; lia).
  assert (Hl : ipow E (- 2 ^ Z.of_nat j) <= x).
  { pose proof (ipow_neg_pow2_le_lo0 j). change (lo 0) with (fp_div ONE E) in *. lia. }
  assert (Hw : 2 ^ Z.of_nat j - - 2 ^ Z.of_nat j <= 2 ^ Z.of_nat 70).
  { replace (2 ^ Z.of_nat j - - 2 ^ Z.of_nat j) with (2 ^ (Z.of_nat j + 1)) by (rewrite Z.pow_add_r by lia; lia).
    apply Z.pow_le_mono_r; lia. }
  destruct (bisect_spec x 70 (- 2 ^ Z.of_nat j) (2 ^ Z.of_nat j) ltac:(lia) Hw Hl) as (H1 & H2 & H3).
  exists j. split; [lia|]. split; [exact H1|]. split; [exact H2|]. split; [|exact H3].
  set (n := find_e_bisect 70 x (- 2 ^ Z.of_nat j) (2 ^ Z.of_nat j)) in *.
  destruct (Z.eq_dec (n + 1) (2 ^ Z.of_nat j)) as [Heq|Hne].
  - rewrite Heq, <- hi_ipow. lia.
  - specialize (H3 ltac:(lia)). lia.
Qed.

(* below 1/e the lower half of the bracket can fail: the doubling loop squares 1/e
   (lo 1 = scale((1/e)^2)) while the bisection compares with 1/scale(e^2), one unit larger *)
Lemma find_e_lower_refuted_proof :
  exists x, 0 < x < fp_div ONE E /\ ~ (ipow E (find_e x) <= x).
Proof. exists 1353352832366126918939995016483660. vm_compute. split; [split; reflexivity|]. intros H; apply H; reflexivity. Qed.

(* ================= ref_ln ================= *)
Lemma ln_one_proof : ref_ln ONE = Some 0.
Proof. vm_compute. reflexivity. Qed.

Lemma ref_ln_decomp x : 0 < x ->
  ref_ln x = Some (find_e x * PREC + mp_ln_n 1000 (fp_div x (ipow E (find_e x)) - ONE) EPS).
Proof.
  intros Hx. unfold ref_ln. destruct (x <=? 0) eqn:E0; [lia|]. rewrite ref_exp_int. reflexivity.
Qed.

(* x >= 1: ln x is defined, non-negative, and at least the bracketing exponent *)
Lemma ln_ge_one_proof x : ONE <= x -> x <= hi 63 ->
  exists v, ref_ln x = Some v /\ 0 <= find_e x /\ find_e x * PREC <= v.
Proof.
  intros Hx Hhi. pose proof ONE_pos as HO. pose proof PREC_pos as HP.
  assert (Hlo : fp_div ONE E <= x).
  { pose proof (lo_range 0) as H. change (lo 0) with (fp_div ONE E) in H. lia. }
  destruct (find_e_bracket_proof x Hlo Hhi) as (j & Hj & Hn & Hl & Hu & Hs).
  set (n := find_e x) in *.
  assert (Hp : 0 < 2 ^ Z.of_nat j) by (apply Z.pow_pos_nonneg; lia).
  assert (Hn0 : 0 <= n).
  { destruct (Z_lt_le_dec n 0) as [Hneg|]; [|assumption]. exfalso.
    specialize (Hs ltac:(lia)). pose proof (ipow_nonpos_le_ONE (n + 1) ltac:(lia)). lia. }
  rewrite ref_ln_decomp by lia. fold n. eexists. split; [reflexivity|]. split; [exact Hn0|].
  assert (Hf : ONE <= ipow E n) by (apply ipow_ge_ONE; [exact E_ge_ONE | exact Hn0]).
  assert (Hq : ONE <= fp_div x (ipow E n)).
  { unfold ONE in *. rewrite fp_div_floor by lia. apply Z.div_le_lower_bound; [lia|]. nia. }
  pose proof (mp_ln_n_wf_proof 1000 (fp_div x (ipow E n) - ONE) EPS ltac:(lia)) as (_ & Hnn & _). lia.
Qed.

(* just below 1 the reference returns a POSITIVE logarithm (+1.16e-25): the sign rule
   ln x <= 0 for x < 1 does not hold for the reference itself *)
Lemma ln_below_one_positive_proof : exists x v, 0 < x < ONE /\ ref_ln x = Some v /\ 0 < v.
Proof. exists (ONE - 1), 1160449920. vm_compute. repeat split; reflexivity. Qed.
