(* C32 proofs.  Part 1: pure arithmetic of one era.  Part 2: the checked u64
   operations do not overflow for a well-formed record and slots below 2^40.
   Part 3: the theorems about any well-formed record.  Part 4: the well-known
   networks (constants regenerated from wellknown.rs) and the known classes. *)
From PV Require Import Lib.Base Generated.Wellknown C32.Model C32.Known.
Open Scope Z_scope.

(* div/mod are handled by explicit lemmas here; keeping them opaque for lia/nia
   keeps the file fast *)
Local Ltac Zify.zify_post_hook ::= idtac.

(* ------------------------------------------------------------------ *)
(* Part 1: one era, in Z                                                *)

Lemma exact_div sl el : 0 < sl -> el mod sl = 0 -> el = (el / sl) * sl.
Proof. intros Hs Hm. rewrite Z.mul_comm. apply Z.div_exact; lia. Qed.

Lemma spe_pos sl el : 0 < sl -> 0 < el -> el mod sl = 0 -> 0 < el / sl.
Proof. intros Hs He Hm. pose proof (exact_div sl el Hs Hm) as E. nia. Qed.

(* s mod (spe*sl) splits into the slot within the true epoch and the index of
   that epoch within a group of [sl] epochs *)
Lemma mod_split spe sl s : 0 < spe -> 0 < sl ->
  s mod (spe * sl) = s mod spe + spe * ((s / spe) mod sl).
Proof. intros Hp Hs. apply Z.rem_mul_r; lia. Qed.

Lemma era_forward sl el s :
  0 < sl -> 0 < el -> el mod sl = 0 -> 0 <= s ->
  (s * sl) / el = s / (el / sl).
Proof.
  intros Hs He Hm H0. pose proof (spe_pos sl el Hs He Hm) as Hp.
  rewrite (exact_div sl el Hs Hm) at 1. apply Z.div_mul_cancel_r; lia.
Qed.

Lemma era_in_class_iff sl el s :
  0 < sl -> 0 < el -> el mod sl = 0 -> 0 <= s ->
  (s mod el < el / sl <-> (s / (el / sl)) mod sl = 0).
Proof.
  intros Hs He Hm H0. pose proof (spe_pos sl el Hs He Hm) as Hp.
  set (spe := el / sl) in *.
  assert (E : el = spe * sl) by (apply exact_div; assumption).
  rewrite E at 1. rewrite (mod_split spe sl s Hp Hs).
  pose proof (Z.mod_pos_bound s spe Hp) as B1.
  pose proof (Z.mod_pos_bound (s / spe) sl Hs) as B2.
  split; intros H; nia.
Qed.

Lemma era_roundtrip sl el s :
  0 < sl -> 0 < el -> el mod sl = 0 -> 0 <= s -> s mod el < el / sl ->
  0 <= s mod el < el / sl /\ s mod el = s mod (el / sl) /\
  (((s * sl) / el) * el) / sl + s mod el = s.
Proof.
  intros Hs He Hm H0 Hc. pose proof (spe_pos sl el Hs He Hm) as Hp.
  rewrite (era_forward sl el s Hs He Hm H0).
  pose proof (proj1 (era_in_class_iff sl el s Hs He Hm H0) Hc) as Hk.
  set (spe := el / sl) in *.
  assert (E : el = spe * sl) by (apply exact_div; assumption).
  assert (M : s mod el = s mod spe).
  { rewrite E, (mod_split spe sl s Hp Hs), Hk. lia. }
  pose proof (Z.mod_pos_bound s spe Hp) as B1.
  split; [lia|]. split; [exact M|].
  rewrite M. rewrite E at 1. rewrite Z.mul_assoc, Z.div_mul by lia.
  pose proof (Z.div_mod s spe ltac:(lia)). lia.
Qed.

(* on the complement the slot-in-epoch is too large and the way back misses *)
Lemma era_class_fails sl el s :
  0 < sl -> 0 < el -> el mod sl = 0 -> 0 <= s -> s mod el >= el / sl ->
  (((s * sl) / el) * el) / sl + s mod el <> s.
Proof.
  intros Hs He Hm H0 Hc. pose proof (spe_pos sl el Hs He Hm) as Hp.
  rewrite (era_forward sl el s Hs He Hm H0).
  set (spe := el / sl) in *.
  assert (E : el = spe * sl) by (apply exact_div; assumption).
  assert (M : s mod el = s mod spe + spe * ((s / spe) mod sl)).
  { rewrite E. apply mod_split; assumption. }
  pose proof (Z.mod_pos_bound s spe Hp) as B1.
  pose proof (Z.mod_pos_bound (s / spe) sl Hs) as B2.
  rewrite E at 1. rewrite Z.mul_assoc, Z.div_mul by lia.
  pose proof (Z.div_mod s spe ltac:(lia)). nia.
Qed.

(* ------------------------------------------------------------------ *)
(* Part 2: the checked operations                                       *)

Lemma wrap_ok m x : 0 <= x < U64 -> wrap m x = Ok x.
Proof.
  intros H. unfold wrap.
  destruct ((0 <=? x) && (x <? U64)) eqn:E; [reflexivity|]. lia.
Qed.

Lemma compute_era_epoch_ok m s sl el :
  0 < el -> 0 <= s * sl < U64 ->
  compute_era_epoch m s sl el = Ok ((s * sl) / el, s mod el).
Proof.
  intros He Hb. unfold compute_era_epoch, umul, udiv, urem.
  destruct (el <=? 0) eqn:E1; [lia|].
  rewrite (wrap_ok m _ Hb). cbn [bind].
  destruct (el =? 0) eqn:E2; [lia|]. reflexivity.
Qed.

Lemma abs_within_ok m e s el sl :
  0 < sl -> 0 <= e * el < U64 -> 0 <= (e * el) / sl + s < U64 ->
  compute_absolute_slot_within_era m e s el sl = Ok ((e * el) / sl + s).
Proof.
  intros Hs Hb1 Hb2. unfold compute_absolute_slot_within_era, umul, udiv, uadd.
  rewrite (wrap_ok m _ Hb1). cbn [bind].
  destruct (sl =? 0) eqn:E; [lia|]. cbn [bind]. apply wrap_ok; assumption.
Qed.

Lemma linear_ok m ks kt sl q :
  0 <= q - ks < U64 -> 0 <= (q - ks) * sl < U64 -> 0 <= kt + (q - ks) * sl < U64 ->
  compute_linear_timestamp m ks kt sl q = Ok (kt + (q - ks) * sl).
Proof.
  intros H1 H2 H3. unfold compute_linear_timestamp, usub, umul, uadd.
  rewrite (wrap_ok m _ H1). cbn [bind]. rewrite (wrap_ok m _ H2). cbn [bind].
  apply wrap_ok; assumption.
Qed.

(* the content of [wf], as propositions *)
Record wf_facts (g : genesis) : Prop := {
  f_bsl : 0 < byron_slot_length g < 2 ^ 20;
  f_bel : 0 < byron_epoch_length g < 2 ^ 32;
  f_bdiv : byron_epoch_length g mod byron_slot_length g = 0;
  f_ssl : 0 < shelley_slot_length g < 2 ^ 20;
  f_sel : 0 < shelley_epoch_length g < 2 ^ 32;
  f_sdiv : shelley_epoch_length g mod shelley_slot_length g = 0;
  f_sks : 0 <= shelley_known_slot g < 2 ^ 40;
  f_bnd : shelley_known_slot g mod byron_slots_per_epoch g = 0;
  f_bks : 0 <= byron_known_slot g <= shelley_known_slot g;
  f_bkt : 0 <= byron_known_time g < 2 ^ 62;
  f_skt : 0 <= shelley_known_time g < 2 ^ 62
}.

Lemma wf_unpack g : wf g -> wf_facts g.
Proof.
  unfold wf, wfb, genesis_fits. intros H.
  repeat (apply andb_true_iff in H; let H' := fresh "H" in destruct H as [H H']).
  constructor; lia.
Qed.

Lemma pow_consts : 2 ^ 20 = 1048576 /\ 2 ^ 32 = 4294967296 /\ 2 ^ 40 = 1099511627776 /\
                   2 ^ 62 = 4611686018427387904 /\ U64 = 18446744073709551616.
Proof. repeat split; reflexivity. Qed.

Lemma mul_bound a b A B : 0 <= a < A -> 0 <= b < B -> 0 <= a * b < A * B.
Proof. nia. Qed.

Lemma div_le_self a b : 0 <= a -> 0 < b -> 0 <= a / b <= a.
Proof.
  intros Ha Hb. split; [apply Z.div_pos; lia|].
  apply Z.div_le_upper_bound; nia.
Qed.

Lemma mul_div_le' a b : 0 <= a -> 0 < b -> 0 <= (a / b) * b <= a.
Proof.
  intros Ha Hb. pose proof (Z.mul_div_le a b Hb). pose proof (div_le_self a b Ha Hb). nia.
Qed.

Lemma mod_le_self a b : 0 <= a -> 0 < b -> 0 <= a mod b <= a.
Proof.
  intros Ha Hb. pose proof (Z.mod_pos_bound a b Hb). split; [lia|]. apply Z.mod_le; lia.
Qed.

(* shelley_start_epoch for a well-formed record: the Byron epoch index of the known slot *)
Lemma sse_ok m g : wf g ->
  shelley_start_epoch m g = Ok (shelley_known_slot g / byron_slots_per_epoch g) /\
  shelley_known_slot g = (shelley_known_slot g / byron_slots_per_epoch g) * byron_slots_per_epoch g /\
  0 < byron_slots_per_epoch g.
Proof.
  intros W. destruct (wf_unpack g W). destruct pow_consts as (P20 & P32 & P40 & P62 & PU).
  unfold shelley_start_epoch.
  pose proof (mul_bound _ _ _ _ f_sks0 (conj (Z.lt_le_incl _ _ (proj1 f_bsl0)) (proj2 f_bsl0))) as B.
  rewrite compute_era_epoch_ok by lia. cbn [bind fst].
  pose proof (spe_pos _ _ (proj1 f_bsl0) (proj1 f_bel0) f_bdiv0) as Hp.
  rewrite era_forward by lia. fold (byron_slots_per_epoch g) in *.
  split; [reflexivity|]. split; [|exact Hp].
  pose proof (Z.div_mod (shelley_known_slot g) (byron_slots_per_epoch g) ltac:(lia)). lia.
Qed.

(* the way back inside one era: [X] is era_slot * slot_length *)
Lemma within_back_ok m X el sl r :
  0 < sl -> 0 < el -> 0 <= X < 2 ^ 40 * 2 ^ 20 -> 0 <= r <= 2 ^ 40 ->
  compute_absolute_slot_within_era m (X / el) r el sl = Ok (((X / el) * el) / sl + r) /\
  0 <= ((X / el) * el) / sl + r < 2 ^ 62.
Proof.
  intros Hs He HX Hr. destruct pow_consts as (P20 & P32 & P40 & P62 & PU).
  pose proof (mul_div_le' X el ltac:(lia) He) as B2.
  pose proof (div_le_self ((X / el) * el) sl ltac:(lia) Hs) as B3.
  split; [|lia]. apply abs_within_ok; lia.
Qed.

(* ------------------------------------------------------------------ *)
(* Part 3: any well-formed record                                       *)

Definition LIMIT : Z := 2 ^ 40.

(* Byron era *)
Lemma byron_relative m g slot :
  wf g -> 0 <= slot < shelley_known_slot g ->
  absolute_slot_to_relative m g slot =
    Ok (slot / byron_slots_per_epoch g, slot mod byron_epoch_length g).
Proof.
  intros W Hs. destruct (wf_unpack g W). destruct pow_consts as (P20 & P32 & P40 & P62 & PU).
  unfold absolute_slot_to_relative.
  destruct (slot <? shelley_known_slot g) eqn:E; [|lia].
  assert (B : 0 <= slot * byron_slot_length g < 2 ^ 40 * 2 ^ 20) by (apply mul_bound; lia).
  rewrite compute_era_epoch_ok by lia.
  rewrite era_forward by lia. reflexivity.
Qed.

Lemma byron_back m g slot :
  wf g -> 0 <= slot < shelley_known_slot g ->
  relative_slot_to_absolute m g (slot / byron_slots_per_epoch g) (slot mod byron_epoch_length g) =
    Ok ((((slot * byron_slot_length g) / byron_epoch_length g) * byron_epoch_length g) / byron_slot_length g
        + slot mod byron_epoch_length g).
Proof.
  intros W Hs. destruct (wf_unpack g W). destruct pow_consts as (P20 & P32 & P40 & P62 & PU).
  destruct (sse_ok m g W) as (S1 & S2 & S3).
  unfold relative_slot_to_absolute. rewrite S1. cbn [bind].
  set (spe := byron_slots_per_epoch g) in *.
  assert (L : slot / spe < shelley_known_slot g / spe).
  { apply Z.div_lt_upper_bound; [lia|]. rewrite Z.mul_comm. lia. }
  destruct (slot / spe <? shelley_known_slot g / spe) eqn:E; [|lia].
  assert (B : 0 <= slot * byron_slot_length g < 2 ^ 40 * 2 ^ 20) by (apply mul_bound; lia).
  subst spe. unfold byron_slots_per_epoch.
  rewrite <- (era_forward (byron_slot_length g) (byron_epoch_length g) slot) by lia.
  pose proof (mod_le_self slot (byron_epoch_length g) ltac:(lia) ltac:(lia)) as B4.
  destruct (within_back_ok m (slot * byron_slot_length g) (byron_epoch_length g) (byron_slot_length g)
              (slot mod byron_epoch_length g) ltac:(lia) ltac:(lia) B ltac:(lia)) as [R _].
  exact R.
Qed.

(* Shelley era *)
Lemma shelley_relative m g slot :
  wf g -> shelley_known_slot g <= slot < LIMIT ->
  absolute_slot_to_relative m g slot =
    Ok (shelley_known_slot g / byron_slots_per_epoch g
          + (slot - shelley_known_slot g) / shelley_slots_per_epoch g,
        (slot - shelley_known_slot g) mod shelley_epoch_length g).
Proof.
  unfold LIMIT. intros W Hs. destruct (wf_unpack g W). destruct pow_consts as (P20 & P32 & P40 & P62 & PU).
  destruct (sse_ok m g W) as (S1 & S2 & S3).
  unfold absolute_slot_to_relative.
  destruct (slot <? shelley_known_slot g) eqn:E; [lia|].
  unfold usub. rewrite wrap_ok by lia. cbn [bind].
  set (es := slot - shelley_known_slot g) in *.
  assert (B : 0 <= es * shelley_slot_length g < 2 ^ 40 * 2 ^ 20) by (apply mul_bound; lia).
  rewrite compute_era_epoch_ok by lia. cbn [bind fst snd]. rewrite S1. cbn [bind].
  rewrite era_forward by lia. fold (shelley_slots_per_epoch g).
  pose proof (spe_pos _ _ (proj1 f_ssl0) (proj1 f_sel0) f_sdiv0) as Hp. fold (shelley_slots_per_epoch g) in Hp.
  pose proof (div_le_self es (shelley_slots_per_epoch g) ltac:(lia) Hp) as B2.
  pose proof (div_le_self (shelley_known_slot g) (byron_slots_per_epoch g) ltac:(lia) S3) as B3.
  unfold uadd. rewrite wrap_ok by lia. reflexivity.
Qed.

Lemma shelley_back m g slot :
  wf g -> shelley_known_slot g <= slot < LIMIT ->
  relative_slot_to_absolute m g
      (shelley_known_slot g / byron_slots_per_epoch g + (slot - shelley_known_slot g) / shelley_slots_per_epoch g)
      ((slot - shelley_known_slot g) mod shelley_epoch_length g) =
    Ok (shelley_known_slot g +
        (((((slot - shelley_known_slot g) * shelley_slot_length g) / shelley_epoch_length g)
             * shelley_epoch_length g) / shelley_slot_length g
         + (slot - shelley_known_slot g) mod shelley_epoch_length g)).
Proof.
  unfold LIMIT. intros W Hs. destruct (wf_unpack g W). destruct pow_consts as (P20 & P32 & P40 & P62 & PU).
  destruct (sse_ok m g W) as (S1 & S2 & S3).
  unfold relative_slot_to_absolute. rewrite S1. cbn [bind].
  set (es := slot - shelley_known_slot g) in *.
  set (bspe := byron_slots_per_epoch g) in *.
  set (sse := shelley_known_slot g / bspe) in *.
  pose proof (spe_pos _ _ (proj1 f_ssl0) (proj1 f_sel0) f_sdiv0) as Hp. fold (shelley_slots_per_epoch g) in Hp.
  pose proof (div_le_self es (shelley_slots_per_epoch g) ltac:(lia) Hp) as B2.
  pose proof (div_le_self (shelley_known_slot g) bspe ltac:(lia) S3) as B3. fold sse in B3.
  destruct (sse + es / shelley_slots_per_epoch g <? sse) eqn:E; [lia|].
  (* byron_slots = shelley_known_slot *)
  assert (EB : byron_epoch_length g = bspe * byron_slot_length g).
  { unfold bspe, byron_slots_per_epoch. apply exact_div; lia. }
  assert (BS : (sse * byron_epoch_length g) / byron_slot_length g = shelley_known_slot g).
  { rewrite EB, Z.mul_assoc, Z.div_mul by lia. lia. }
  assert (BB : 0 <= sse * byron_epoch_length g < 2 ^ 40 * 2 ^ 20).
  { rewrite EB, Z.mul_assoc, <- S2. apply mul_bound; lia. }
  rewrite abs_within_ok by lia. cbn [bind]. rewrite BS, Z.add_0_r.
  unfold usub. rewrite wrap_ok by lia. cbn [bind].
  replace (sse + es / shelley_slots_per_epoch g - sse) with (es / shelley_slots_per_epoch g) by lia.
  assert (B : 0 <= es * shelley_slot_length g < 2 ^ 40 * 2 ^ 20) by (apply mul_bound; lia).
  unfold shelley_slots_per_epoch.
  rewrite <- (era_forward (shelley_slot_length g) (shelley_epoch_length g) es) by lia.
  pose proof (mod_le_self es (shelley_epoch_length g) ltac:(lia) ltac:(lia)) as B6.
  destruct (within_back_ok m (es * shelley_slot_length g) (shelley_epoch_length g) (shelley_slot_length g)
              (es mod shelley_epoch_length g) ltac:(lia) ltac:(lia) B ltac:(lia)) as [R RB].
  rewrite R. cbn [bind].
  unfold uadd. apply wrap_ok.
  clear - RB f_sks0 P40 P62 PU. lia.
Qed.

Lemma shelley_roundtrip_proof m g slot :
  wf g -> shelley_known_slot g <= slot < LIMIT ->
  (slot - shelley_known_slot g) mod shelley_epoch_length g < shelley_slots_per_epoch g ->
  exists e r, absolute_slot_to_relative m g slot = Ok (e, r) /\
              0 <= r < shelley_slots_per_epoch g /\
              r = (slot - shelley_known_slot g) mod shelley_slots_per_epoch g /\
              e = shelley_known_slot g / byron_slots_per_epoch g
                  + (slot - shelley_known_slot g) / shelley_slots_per_epoch g /\
              relative_slot_to_absolute m g e r = Ok slot.
Proof.
  intros W Hs Hc. destruct (wf_unpack g W).
  eexists; eexists. split; [apply shelley_relative; assumption|].
  unfold LIMIT in Hs.
  destruct (era_roundtrip (shelley_slot_length g) (shelley_epoch_length g) (slot - shelley_known_slot g)
              ltac:(lia) ltac:(lia) f_sdiv0 ltac:(lia) Hc) as (R1 & R2 & R3).
  split; [exact R1|]. split; [exact R2|]. split; [reflexivity|].
  rewrite shelley_back by assumption. rewrite R3. f_equal. lia.
Qed.

(* with one-second (unit) slots every Shelley slot qualifies *)
Lemma unit_slot_all g es : wf g -> shelley_slot_length g = 1 ->
  es mod shelley_epoch_length g < shelley_slots_per_epoch g.
Proof.
  intros W H1. destruct (wf_unpack g W). unfold shelley_slots_per_epoch. rewrite H1, Z.div_1_r.
  apply Z.mod_pos_bound. lia.
Qed.

Lemma byron_roundtrip_proof m g slot :
  wf g -> 0 <= slot < shelley_known_slot g ->
  slot mod byron_epoch_length g < byron_slots_per_epoch g ->
  exists e r, absolute_slot_to_relative m g slot = Ok (e, r) /\
              0 <= r < byron_slots_per_epoch g /\
              r = slot mod byron_slots_per_epoch g /\
              e = slot / byron_slots_per_epoch g /\
              relative_slot_to_absolute m g e r = Ok slot.
Proof.
  intros W Hs Hc. destruct (wf_unpack g W).
  eexists; eexists. split; [apply byron_relative; assumption|].
  destruct (era_roundtrip (byron_slot_length g) (byron_epoch_length g) slot
              ltac:(lia) ltac:(lia) f_bdiv0 ltac:(lia) Hc) as (R1 & R2 & R3).
  split; [exact R1|]. split; [exact R2|]. split; [reflexivity|].
  rewrite byron_back by assumption. rewrite R3. reflexivity.
Qed.

(* the Byron class is exactly where it goes wrong: bound and round trip both fail *)
Lemma byron_class_fails_proof m g slot :
  wf g -> 0 <= slot -> byron_known_class g slot ->
  exists e r, absolute_slot_to_relative m g slot = Ok (e, r) /\
              r >= byron_slots_per_epoch g /\
              exists back, relative_slot_to_absolute m g e r = Ok back /\ back <> slot.
Proof.
  intros W H0 [Hs Hc]. destruct (wf_unpack g W).
  eexists; eexists. split; [apply byron_relative; [assumption|lia]|].
  split; [exact Hc|].
  eexists. split; [apply byron_back; [assumption|lia]|].
  apply era_class_fails; try lia. exact Hc.
Qed.

(* wall clock *)
Lemma wallclock_byron m g slot :
  wf g -> byron_known_slot g <= slot < shelley_known_slot g ->
  slot_to_wallclock m g slot = Ok (byron_known_time g + (slot - byron_known_slot g) * byron_slot_length g).
Proof.
  intros W Hs. destruct (wf_unpack g W). destruct pow_consts as (P20 & P32 & P40 & P62 & PU).
  unfold slot_to_wallclock. destruct (slot <? shelley_known_slot g) eqn:E; [|lia].
  assert (B : 0 <= (slot - byron_known_slot g) * byron_slot_length g < 2 ^ 40 * 2 ^ 20) by (apply mul_bound; lia).
  apply linear_ok; lia.
Qed.

Lemma wallclock_shelley m g slot :
  wf g -> shelley_known_slot g <= slot <= LIMIT ->
  slot_to_wallclock m g slot = Ok (shelley_known_time g + (slot - shelley_known_slot g) * shelley_slot_length g).
Proof.
  unfold LIMIT. intros W Hs. destruct (wf_unpack g W). destruct pow_consts as (P20 & P32 & P40 & P62 & PU).
  unfold slot_to_wallclock. destruct (slot <? shelley_known_slot g) eqn:E; [lia|].
  assert (B : 0 <= (slot - shelley_known_slot g) * shelley_slot_length g < (2 ^ 40 + 1) * 2 ^ 20) by (apply mul_bound; lia).
  apply linear_ok; lia.
Qed.

Definition same_era (g : genesis) (s1 s2 : Z) : Prop :=
  (s1 <? shelley_known_slot g) = (s2 <? shelley_known_slot g).

Lemma wallclock_total m g slot :
  wf g -> byron_known_slot g <= slot <= LIMIT -> exists w, slot_to_wallclock m g slot = Ok w /\
    w = if slot <? shelley_known_slot g
        then byron_known_time g + (slot - byron_known_slot g) * byron_slot_length g
        else shelley_known_time g + (slot - shelley_known_slot g) * shelley_slot_length g.
Proof.
  intros W Hs. destruct (slot <? shelley_known_slot g) eqn:E.
  - eexists. split; [apply wallclock_byron; [assumption|lia]|reflexivity].
  - eexists. split; [apply wallclock_shelley; [assumption|lia]|reflexivity].
Qed.

Lemma wallclock_step_within_era_proof m g slot :
  wf g -> byron_known_slot g <= slot < LIMIT -> same_era g slot (slot + 1) ->
  exists w w', slot_to_wallclock m g slot = Ok w /\ slot_to_wallclock m g (slot + 1) = Ok w' /\
               w' = w + era_slot_length g slot.
Proof.
  intros W Hs He. unfold same_era in He.
  destruct (wallclock_total m g slot W ltac:(lia)) as (w & E1 & V1).
  destruct (wallclock_total m g (slot + 1) W ltac:(lia)) as (w' & E2 & V2).
  exists w, w'. split; [exact E1|]. split; [exact E2|].
  unfold era_slot_length. rewrite <- He in V2.
  destruct (slot <? shelley_known_slot g); lia.
Qed.

Lemma wallclock_strict_mono_within_era_proof m g s1 s2 :
  wf g -> byron_known_slot g <= s1 -> s1 < s2 <= LIMIT -> same_era g s1 s2 ->
  exists w1 w2, slot_to_wallclock m g s1 = Ok w1 /\ slot_to_wallclock m g s2 = Ok w2 /\
                w1 < w2 /\ w2 - w1 = (s2 - s1) * era_slot_length g s1.
Proof.
  intros W H1 H2 He. unfold same_era in He. destruct (wf_unpack g W).
  destruct (wallclock_total m g s1 W ltac:(lia)) as (w1 & E1 & V1).
  destruct (wallclock_total m g s2 W ltac:(lia)) as (w2 & E2 & V2).
  exists w1, w2. split; [exact E1|]. split; [exact E2|].
  unfold era_slot_length. rewrite <- He in V2.
  destruct (s1 <? shelley_known_slot g); subst w1 w2.
  - assert (0 < (s2 - s1) * byron_slot_length g) by (apply Z.mul_pos_pos; lia). split; lia.
  - assert (0 < (s2 - s1) * shelley_slot_length g) by (apply Z.mul_pos_pos; lia). split; lia.
Qed.

(* the step across the era boundary is right exactly when the two clocks meet *)
Lemma wallclock_boundary_step_proof m g :
  wf g -> byron_known_slot g < shelley_known_slot g ->
  exists w w', slot_to_wallclock m g (shelley_known_slot g - 1) = Ok w /\
               slot_to_wallclock m g (shelley_known_slot g) = Ok w' /\
               (w' = w + byron_slot_length g <-> continuousb g = true).
Proof.
  intros W Hs. destruct (wf_unpack g W). destruct pow_consts as (P20 & P32 & P40 & P62 & PU).
  eexists; eexists. split; [apply wallclock_byron; [assumption|lia]|].
  split; [apply wallclock_shelley; [assumption|unfold LIMIT; lia]|].
  unfold continuousb. rewrite Z.eqb_eq. nia.
Qed.

Lemma wallclock_strict_mono_proof m g s1 s2 :
  wf g -> continuousb g = true -> byron_known_slot g <= s1 -> s1 < s2 <= LIMIT ->
  exists w1 w2, slot_to_wallclock m g s1 = Ok w1 /\ slot_to_wallclock m g s2 = Ok w2 /\ w1 < w2.
Proof.
  intros W C H1 H2. destruct (wf_unpack g W).
  destruct (wallclock_total m g s1 W ltac:(lia)) as (w1 & E1 & V1).
  destruct (wallclock_total m g s2 W ltac:(lia)) as (w2 & E2 & V2).
  exists w1, w2. split; [exact E1|]. split; [exact E2|].
  unfold continuousb in C. apply Z.eqb_eq in C.
  destruct (s1 <? shelley_known_slot g) eqn:A1; destruct (s2 <? shelley_known_slot g) eqn:A2; subst w1 w2.
  - assert (0 < (s2 - s1) * byron_slot_length g) by (apply Z.mul_pos_pos; lia). lia.
  - assert (0 < (shelley_known_slot g - s1) * byron_slot_length g) by (apply Z.mul_pos_pos; lia).
    assert (0 <= (s2 - shelley_known_slot g) * shelley_slot_length g) by (apply Z.mul_nonneg_nonneg; lia).
    lia.
  - lia.
  - assert (0 < (s2 - s1) * shelley_slot_length g) by (apply Z.mul_pos_pos; lia). lia.
Qed.

(* the whole property at one slot of a well-formed record *)
Definition in_relative_class (g : genesis) (slot : Z) : Prop :=
  if slot <? shelley_known_slot g
  then slot mod byron_epoch_length g < byron_slots_per_epoch g
  else (slot - shelley_known_slot g) mod shelley_epoch_length g < shelley_slots_per_epoch g.

Lemma consistent_generic m g slot :
  wf g -> byron_known_slot g <= slot < LIMIT -> in_relative_class g slot ->
  (slot + 1 = shelley_known_slot g -> continuousb g = true) ->
  consistent m g slot.
Proof.
  intros W Hs Hc Hb. destruct (wf_unpack g W). unfold in_relative_class in Hc. unfold consistent.
  assert (WS : exists w w', slot_to_wallclock m g slot = Ok w /\ slot_to_wallclock m g (slot + 1) = Ok w' /\
               w' = w + era_slot_length g slot).
  { destruct (Z.eq_dec (slot + 1) (shelley_known_slot g)) as [Eb|Nb].
    - destruct (wallclock_boundary_step_proof m g W ltac:(lia)) as (w & w' & A1 & A2 & A3).
      exists w, w'. replace slot with (shelley_known_slot g - 1) at 1 by lia. rewrite Eb.
      split; [exact A1|]. split; [exact A2|]. unfold era_slot_length.
      destruct (slot <? shelley_known_slot g) eqn:E; [|lia]. apply A3, Hb, Eb.
    - apply wallclock_step_within_era_proof; [assumption|lia|]. unfold same_era.
      destruct (slot <? shelley_known_slot g) eqn:E1; destruct (slot + 1 <? shelley_known_slot g) eqn:E2; lia. }
  destruct WS as (w & w' & A1 & A2 & A3).
  unfold era_slots_per_epoch. destruct (slot <? shelley_known_slot g) eqn:E.
  - destruct (byron_roundtrip_proof m g slot W ltac:(lia) Hc) as (e & r & R1 & R2 & _ & _ & R3).
    exists e, r, w, w'. repeat split; try assumption; lia.
  - destruct (shelley_roundtrip_proof m g slot W ltac:(lia) Hc) as (e & r & R1 & R2 & _ & _ & R3).
    exists e, r, w, w'. repeat split; try assumption; lia.
Qed.

(* ------------------------------------------------------------------ *)
(* Part 4: the well-known networks                                      *)

Lemma wellknown_wf_proof : Forall wf well_known.
Proof. unfold well_known, all_networks. cbn [map]. repeat constructor. Qed.

Lemma wf_of_net n : wf (genesis_of n).
Proof.
  pose proof wellknown_wf_proof as H. rewrite Forall_forall in H. apply H.
  unfold well_known. apply in_map. destruct n; cbn; tauto.
Qed.

(* every well-known Shelley era has unit slots, every Byron known slot is 0,
   and every network except where the testnet class says so is continuous *)
Lemma wellknown_shape n :
  shelley_slot_length (genesis_of n) = 1 /\ byron_known_slot (genesis_of n) = 0 /\
  (n <> Testnet -> continuousb (genesis_of n) = true) /\
  (n = Testnet -> shelley_known_slot (genesis_of n) = 1598400).
Proof. destruct n; repeat split; try reflexivity; intros; congruence. Qed.

Lemma wellknown_consistent_proof m n slot :
  0 <= slot < LIMIT -> ~ Known n slot -> consistent m (genesis_of n) slot.
Proof.
  intros Hs NK. pose proof (wf_of_net n) as W. destruct (wellknown_shape n) as (U & B0 & C & T).
  apply consistent_generic; [assumption|lia| |].
  - unfold in_relative_class. destruct (slot <? shelley_known_slot (genesis_of n)) eqn:E.
    + destruct (Z_lt_ge_dec (slot mod byron_epoch_length (genesis_of n)) (byron_slots_per_epoch (genesis_of n))) as [L|G];
        [exact L|]. exfalso. apply NK. left. split; [lia|exact G].
    + apply unit_slot_all; assumption.
  - intros Eb. destruct n; try (apply C; congruence).
    exfalso. apply NK. right. split; [reflexivity|]. specialize (T eq_refl). lia.
Qed.

Lemma wellknown_mono_proof m n s1 s2 :
  0 <= s1 -> s1 < s2 <= LIMIT -> ~ (n = Testnet /\ s1 <= 1598399 < s2) ->
  exists w1 w2, slot_to_wallclock m (genesis_of n) s1 = Ok w1 /\
                slot_to_wallclock m (genesis_of n) s2 = Ok w2 /\ w1 < w2.
Proof.
  intros H1 H2 NK. pose proof (wf_of_net n) as W. destruct (wellknown_shape n) as (U & B0 & C & T).
  destruct (wf_unpack _ W).
  destruct n; try (apply wallclock_strict_mono_proof; [assumption|apply C; congruence|lia|lia]).
  (* testnet: both slots on the same side of 1598400 *)
  specialize (T eq_refl).
  destruct (wallclock_strict_mono_within_era_proof m (genesis_of Testnet) s1 s2 W ltac:(lia) H2) as (w1 & w2 & A1 & A2 & A3 & _).
  { unfold same_era. rewrite T.
    destruct (s1 <? 1598400) eqn:E1; destruct (s2 <? 1598400) eqn:E2; try reflexivity; exfalso; apply NK; split; try reflexivity; lia. }
  exists w1, w2. auto.
Qed.

(* Known slots do violate the property (the classes are tight) *)
Lemma known_violates_proof m n slot :
  0 <= slot < LIMIT -> Known n slot -> ~ consistent m (genesis_of n) slot.
Proof.
  intros Hs K (e & r & w & w' & A1 & A2 & A3 & A4 & A5 & A6).
  pose proof (wf_of_net n) as W.
  destruct K as [K|[Kn Ks]].
  - destruct (byron_class_fails_proof m _ slot W ltac:(lia) K) as (e2 & r2 & B1 & B2 & _).
    rewrite A1 in B1. injection B1 as <- <-.
    destruct K as [K1 K2]. unfold era_slots_per_epoch in A2.
    destruct (slot <? shelley_known_slot (genesis_of n)) eqn:E; lia.
  - subst n slot. vm_compute in A4. vm_compute in A5. vm_compute in A6.
    injection A4 as <-. injection A5 as <-. discriminate A6.
Qed.

(* witnesses *)
Lemma byron_refuted_proof :
  exists g slot e r, wf g /\ 0 <= slot < shelley_known_slot g /\
    absolute_slot_to_relative Debug g slot = Ok (e, r) /\
    ~ r < byron_slots_per_epoch g /\
    relative_slot_to_absolute Debug g e r <> Ok slot.
Proof.
  exists (mk_genesis 764824073 1 432000 20 0 1506203091 432000 1 4492800 1596059091), 21600, 1, 21600.
  split; [reflexivity|]. split; [cbn [shelley_known_slot]; lia|]. split; [reflexivity|].
  split; [vm_compute; discriminate|]. vm_compute. discriminate.
Qed.

Lemma mainnet_21600_proof :
  absolute_slot_to_relative Debug mainnet 21600 = Ok (1, 21600) /\
  relative_slot_to_absolute Debug mainnet 1 21600 = Ok 43200.
Proof. split; reflexivity. Qed.

Lemma testnet_refuted_proof :
  slot_to_wallclock Debug testnet 1598399 = Ok 1595978396 /\
  slot_to_wallclock Debug testnet 1598400 = Ok 1595967616.
Proof. split; reflexivity. Qed.

(* deciding non-membership in the known classes on a literal *)
Lemma not_known_by_compute n slot :
  (slot <? shelley_known_slot (genesis_of n)) &&
    (byron_slots_per_epoch (genesis_of n) <=? slot mod byron_epoch_length (genesis_of n)) = false ->
  (n <> Testnet \/ slot <> 1598399) -> ~ Known n slot.
Proof.
  intros H1 H2 [[K1 K2]|[K1 K2]]; [|tauto].
  apply andb_false_iff in H1. destruct H1 as [H1|H1]; [apply Z.ltb_ge in H1|apply Z.leb_gt in H1]; lia.
Qed.

