#!/usr/bin/env python3
import os, sys, json, glob
sys.path.insert(0, os.path.dirname(os.path.abspath(__file__)))
import check as C
repo = os.environ.get("VERIF_REPO", "/repo")
# translators first (Generated/*.v are not committed)
for f in sorted(glob.glob(os.path.join(C.VERIF, "props", "C*.json"))):
    cfg = json.load(open(f))
    for (t, rc, out) in C.run_translators(cfg, repo):
        if rc != 0:
            print("translator %s failed:\n%s" % (t, out)); sys.exit(1)
rc, out = C.coq_build([], timeout=7200)
print(out[-3000:])
if rc != 0:
    sys.exit(1)
rc, out, _ = C.cargo_build(repo, [], timeout=7200)
print(out[-3000:])
sys.exit(0 if rc == 0 else 1)
