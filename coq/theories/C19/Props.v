(* C19 — property theorems only. Statements are pinned by props/C19.json. *)
From PV Require Import Lib.Base Cbor.Item Cbor.Dec.
From PV Require Import C19.Model C19.Proofs C19.Fuel C19.Base58 C19.Base58Proofs C19.Base58Byron.
From PV Require C18.Model.
Open Scope Z_scope.

(* An address built from any payload bytes (from_decoded) round-trips through
   to_vec / from_bytes, with any trailing bytes and any Decoder::skip. *)
Theorem byron_roundtrip : forall skip p r, bytes_wf p -> len p < 2 ^ 64 ->
  from_bytes skip (byron_to_vec (from_decoded p) ++ r) = Ok (from_decoded p).
Proof.
  intros skip p r Hp Hl. apply from_bytes_roundtrip; [|reflexivity].
  apply from_decoded_wf; [exact Hp|]. change (2 ^ 64) with 18446744073709551616 in Hl. exact Hl.
Qed.

(* the same through Address::from_bytes (dispatch on the first byte 0x82 -> parse_type_8) *)
Theorem byron_roundtrip_address : forall skip p, bytes_wf p -> len p < 2 ^ 64 ->
  address_from_bytes skip (byron_to_vec (from_decoded p)) =
  Ok (C18.Model.Byron p (crc32 p)).
Proof.
  intros skip p Hp Hl. rewrite address_from_bytes_byron.
  rewrite <- (app_nil_r (byron_to_vec _)). rewrite byron_roundtrip by assumption. reflexivity.
Qed.

(* the encoding of a (payload, crc) pair with a wrong checksum is rejected *)
Theorem byron_rejects_bad_crc : forall skip p c r, bytes_wf p -> len p < 2 ^ 64 -> 0 <= c < 2 ^ 32 ->
  crc32 p <> c -> from_bytes skip (byron_to_vec (p, c) ++ r) = Err E_BYRON_CBOR.
Proof.
  intros skip p c r Hp Hl Hc Hn. apply from_bytes_rejects; [|exact Hn].
  change (2 ^ 64) with 18446744073709551616 in Hl. change (2 ^ 32) with 4294967296 in Hc.
  unfold byron_wf. cbn [fst snd]. auto.
Qed.

(* for ANY input bytes (non-canonical heads, indefinite array, extra elements,
   trailing bytes, ...): no entry point yields a Byron address with a mismatching checksum *)
Theorem byron_accepted_implies_crc : forall skip bs a,
  from_bytes skip bs = Ok a -> crc32 (fst a) = snd a.
Proof. exact from_bytes_ok_crc. Qed.
Theorem address_accepted_implies_crc : forall skip bs p c,
  address_from_bytes skip bs = Ok (C18.Model.Byron p c) -> crc32 p = c.
Proof. exact address_from_bytes_ok_crc. Qed.

Theorem byron_from_bytes_never_panics : forall skip bs, is_panic (from_bytes skip bs) = false.
Proof. exact from_bytes_never_panics. Qed.

(* CRC-32: any single-bit error in the payload changes the checksum, and any
   single-bit error in the checksum changes it (so the verdict always flips) *)
Theorem crc32_bitflip_detects : forall p i j, bytes_wf p -> (i < length p)%nat -> 0 <= j < 8 ->
  crc32 (flip_bit p i j) <> crc32 p.
Proof. exact crc32_flip. Qed.

Theorem byron_single_bit_corruption_rejected : forall skip p r, bytes_wf p -> len p < 2 ^ 64 ->
  (forall i j, (i < length p)%nat -> 0 <= j < 8 ->
     from_bytes skip (byron_to_vec (flip_bit p i j, crc32 p) ++ r) = Err E_BYRON_CBOR) /\
  (forall j, 0 <= j < 32 ->
     from_bytes skip (byron_to_vec (p, Z.lxor (crc32 p) (2 ^ j)) ++ r) = Err E_BYRON_CBOR).
Proof.
  intros skip p r Hp Hl. pose proof (crc32_range p Hp) as Hc. split.
  - intros i j Hi Hj. apply byron_rejects_bad_crc.
    + apply flip_bit_wf; assumption.
    + unfold len in *. rewrite flip_bit_length. exact Hl.
    + change (2 ^ 32) with 4294967296. exact Hc.
    + apply crc32_flip; assumption.
  - intros j Hj. apply byron_rejects_bad_crc; try assumption.
    + apply lxor_range; [lia|change (2 ^ 32) with 4294967296; exact Hc|].
      split; [apply Z.pow_nonneg; lia|apply Z.pow_lt_mono_r; lia].
    + intros E. symmetry in E. revert E. apply crc_value_flip. lia.
Qed.

(* the fuel of the two derive(Decode) loops is never what makes decoding fail:
   with a skip that consumes input (minicbor's reads >= 1 byte or fails; so does
   the skip_item used in the run) any larger fuel gives the same result *)
Theorem byron_decode_fuel_adequate : forall skip,
  (forall bs r, skip bs = DOk r -> (length r < length bs)%nat) ->
  forall f i n fl bs, (length bs < f)%nat ->
  fields_def skip f i n fl bs = fields_def skip (loop_fuel bs) i n fl bs /\
  fields_indef skip f i fl bs = fields_indef skip (loop_fuel bs) i fl bs.
Proof.
  intros skip Hs f i n fl bs Hf. split.
  - apply fields_def_fuel; [exact Hs|exact Hf|unfold loop_fuel; lia].
  - apply fields_indef_fuel; [exact Hs|exact Hf|unfold loop_fuel; lia].
Qed.
Theorem skip_item_consumes_input : forall bs r, skip_item bs = DOk r -> (length r < length bs)%nat.
Proof. exact skip_item_consumes. Qed.

Theorem crc32_is_u32 : forall p, bytes_wf p -> 0 <= crc32 p < 2 ^ 32.
Proof. intros p H. change (2 ^ 32) with 4294967296. apply crc32_range, H. Qed.

(* ---- base58 (crate base58 0.2.0), executable Gallina: Base58.v ---- *)
(* decode . encode = id for every byte string of at most 132 bytes (the crate's
   decoder buffer; beyond it the crate itself fails: known finding) *)
Theorem base58_roundtrip : forall bs, bytes_wf bs -> C18.Bech32.blen bs <= 132 ->
  b58_decode (b58_encode bs) = Ok bs.
Proof. exact b58_roundtrip_proof. Qed.

(* pallas' wrapper decode_base58 (leading '1's handled outside the crate): same
   round trip, and it never panics although the crate's decoder can *)
Theorem pallas_base58_roundtrip : forall bs, bytes_wf bs -> C18.Bech32.blen bs <= 132 ->
  pallas_decode_base58 (b58_encode bs) = Ok bs.
Proof. exact pallas_b58_roundtrip_proof. Qed.
Theorem byron_from_base58_never_panics : forall skip s,
  is_panic (from_base58 skip pallas_decode_base58 s) = false.
Proof. exact from_base58_never_panics. Qed.

(* generic form kept: any base58 codec with that premise *)
Theorem byron_base58_roundtrip_generic :
  forall skip (enc : list Z -> list Z) (dec : list Z -> outcome (list Z)),
  (forall bs, bytes_wf bs -> len bs <= 132 -> dec (enc bs) = Ok bs) ->
  forall p, bytes_wf p -> len (byron_to_vec (from_decoded p)) <= 132 ->
  from_base58 skip dec (to_base58 enc (from_decoded p)) = Ok (from_decoded p).
Proof.
  intros skip enc dec H p Hp Hl. apply (base58_roundtrip_sec skip enc dec H); [|reflexivity|exact Hl].
  apply from_decoded_wf; [exact Hp|].
  assert (len p <= len (byron_to_vec (from_decoded p))); [|lia].
  unfold byron_to_vec, Cbor.Api.e_bytes, from_decoded. cbn [fst snd]. unfold len. rewrite !app_length. lia.
Qed.

(* CLOSED: addresses whose encoding has at most 132 bytes round-trip through base58 *)
Theorem byron_base58_roundtrip : forall skip p, bytes_wf p ->
  len (byron_to_vec (from_decoded p)) <= 132 ->
  from_base58 skip pallas_decode_base58 (to_base58 b58_encode (from_decoded p)) = Ok (from_decoded p).
Proof. exact byron_base58_closed. Qed.

Theorem byron_base58_accepted_implies_crc :
  forall skip (dec : list Z -> outcome (list Z)) s a, from_base58 skip dec s = Ok a -> crc32 (fst a) = snd a.
Proof. exact base58_ok_crc. Qed.

(* ---- the tree before commit "fix: reject Byron addresses whose CRC32 ..." ---- *)
(* mainnet test vector 3 of byron.rs (Ae2tdPwUPEZLs4H...), checksum xor 1 *)
Definition vector3_payload : list Z :=
  [131;88;28;241;25;57;244;35;56;213;158;33;186;160;134;69;172;31;0;56;213;238;150;159;153;254;152;244;2;254;121;160;0].
Definition vector3_bad : list Z :=
  [130;216;24;88;33] ++ vector3_payload ++ [26;201;214;78;90].
Theorem byron_bad_crc_refuted_before_fix :
  exists bs a, from_bytes_unchecked skip_item bs = Ok a /\ crc32 (fst a) <> snd a.
Proof.
  exists vector3_bad, (vector3_payload, 3386265178). split; [vm_compute; reflexivity|].
  vm_compute. discriminate.
Qed.

(* ---- non-vacuity ---- *)
Example crc32_check_value :
  crc32 [49;50;51;52;53;54;55;56;57] = 3421780262 /\ crc32 vector3_payload = 3386265179.
Proof. split; vm_compute; reflexivity. Qed.
(* base58 crate tests, and the decoder's panic: more leading '1' than leading zero bytes *)
Example base58_vectors :
  b58_decode [52;107;56] = Ok [49;49] /\ b58_encode [49;49] = [52;107;56] /\
  b58_encode [0;0;1] = [49;49;50] /\
  b58_decode (repeat 49 133) = Panic P_SUB /\ b58_decode [48] = Err E_B58 /\
  pallas_decode_base58 (repeat 49 133) = Err E_B58 /\ pallas_decode_base58 (repeat 49 132) = Ok (repeat 0 132).
Proof. repeat split; vm_compute; reflexivity. Qed.
Example vector3_now_rejected_and_good_accepted :
  from_bytes skip_item vector3_bad = Err E_BYRON_CBOR /\
  from_bytes skip_item ([130;216;24;88;33] ++ vector3_payload ++ [26;201;214;78;91]) = Ok (from_decoded vector3_payload) /\
  bytes_wf vector3_payload /\
  (* indefinite-length array with a surplus element is still decoded, and still checked *)
  from_bytes skip_item ([159;216;24;64;0;1;255]) = Ok ([], 0) /\
  from_bytes skip_item ([159;216;24;64;4;1;255]) = Err E_BYRON_CBOR.
Proof. repeat split; try (vm_compute; reflexivity). apply bytes_wfb_spec. vm_compute. reflexivity. Qed.
